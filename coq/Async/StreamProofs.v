(* C20 — proofs about the stream models (Async/Stream.v).  The retry decisions are Generated/RetryTable.v, rewritten
   from the working tree on every run: every lemma below that case-splits on `retry` / `is_retryable` is re-checked
   against the current code. *)
From Coq Require Import List Bool Arith Lia.
From VF Require Import Async.StreamTypes Generated.RetryTable Async.Stream.
Import ListNotations.

(* ==================================================================================================================== *)
(* Part A — one execution along a fault sequence                                                                         *)

(* table facts *)
Lemma honest_reply_is_retryable : forall s cur s' c, serve s cur = (s', PErr c) -> retry c cur <> None.
Proof.
  intros [p j n] cur s' c H. destruct cur, p, j; simpl in H; inversion H; subst; simpl; discriminate.
Qed.

Lemma other_codes_raise : forall c cur,
  c <> PROGRAM_ALREADY_EXISTS -> c <> JOB_ALREADY_EXISTS -> c <> PROGRAM_DOES_NOT_EXIST -> c <> JOB_DOES_NOT_EXIST ->
  retry c cur = None.
Proof. intros c cur H1 H2 H3 H4. destruct c, cur; simpl; congruence. Qed.

Lemma retry_changes_request : forall c cur r, retry c cur = Some r -> r <> cur.
Proof. intros c cur r H. destruct c, cur; simpl in H; inversion H; discriminate. Qed.

Lemma retryable_exceptions : forall x,
  retryable x = true <-> (x = XInternalServerError \/ x = XServiceUnavailable \/ x = XUnknown \/ x = XSubServiceUnavailable).
Proof.
  intros x. unfold retryable. split.
  - destruct x; simpl; intros H; try discriminate; auto.
  - intros [H|[H|[H|H]]]; subst; reflexivity.
Qed.

(* the server alone: a job is created only when it does not exist, and then it exists *)
Lemma serve_spec : forall s r s' p, serve s r = (s', p) ->
  (sjob s = true -> s' = s) /\
  (s' = s \/ (sjob s = false /\ sjob s' = true /\ sprog s' = true /\ screates s' = S (screates s) /\ p = POk)) /\
  (p = POk -> sjob s' = true).
Proof.
  intros [pr j n] r s' p H. destruct r, pr, j; simpl in H; inversion H; subst; simpl; repeat split; auto;
    try discriminate; try (right; repeat split; auto; fail).
Qed.

Definition srv_of (x : server * outcome * list req) : server := fst (fst x).
Definition out_of (x : server * outcome * list req) : outcome := snd (fst x).
Definition reqs_of (x : server * outcome * list req) : list req := snd x.

Lemma cons_req_srv r x : srv_of (cons_req r x) = srv_of x. Proof. destruct x as [[? ?] ?]; reflexivity. Qed.
Lemma cons_req_out r x : out_of (cons_req r x) = out_of x. Proof. destruct x as [[? ?] ?]; reflexivity. Qed.

(* D6/D7 (one execution): whatever the faults, the job is created at most once; once it exists the server is left
   alone; and if the execution returns, the job exists — it was created exactly once unless it existed before *)
Definition grows (s s1 : server) : Prop :=
  (sjob s = true -> s1 = s) /\
  (s1 = s \/ (sjob s = false /\ sjob s1 = true /\ screates s1 = S (screates s))).

Lemma grows_refl s : grows s s. Proof. split; auto. Qed.

Lemma grows_serve s r : grows s (fst (serve s r)).
Proof.
  destruct (serve s r) as [s' p] eqn:Es. destruct (serve_spec _ _ _ _ Es) as (A & B & C). simpl. split; auto. tauto.
Qed.

Lemma grows_trans s s1 s2 : grows s s1 -> grows s1 s2 -> grows s s2.
Proof.
  intros [A B] [A' B']. split.
  - intros Hj. rewrite A' by (rewrite A; auto). auto.
  - destruct B as [->|(E1 & E2 & E3)]; auto. right. rewrite A'; auto.
Qed.

Lemma client_spec : forall fuel s zs cur fs,
  let x := client fuel s zs cur fs in
  grows s (srv_of x) /\ (out_of x = Returned -> sjob (srv_of x) = true).
Proof.
  induction fuel as [|f IH]; intros s zs cur fs; simpl.
  - split; [apply grows_refl|discriminate].
  - assert (Hrec : forall s1 zs1 r1 fs1, grows s s1 ->
      let y := client f s1 zs1 r1 fs1 in grows s (srv_of y) /\ (out_of y = Returned -> sjob (srv_of y) = true)).
    { intros s1 zs1 r1 fs1 Hg y. destruct (IH s1 zs1 r1 fs1) as [A C]. split; auto. eapply grows_trans; eauto. }
    assert (Hrec' : forall s1 zs1 r1 fs1, grows s s1 ->
      let y := cons_req cur (client f s1 zs1 r1 fs1) in
      grows s (srv_of y) /\ (out_of y = Returned -> sjob (srv_of y) = true)).
    { intros s1 zs1 r1 fs1 Hg y. unfold y. rewrite cons_req_srv, cons_req_out. apply Hrec; auto. }
    destruct (match fs with [] => NoFault | a :: _ => a end) as [|x|x|c|k].
    + pose proof (grows_serve s cur) as Hg.
      destruct (serve s cur) as [s' p] eqn:Es. destruct (serve_spec _ _ _ _ Es) as (A & B & C). simpl in Hg.
      destruct p as [|c].
      * simpl. split; auto.
      * destruct (retry c cur); [apply Hrec'; auto|]. simpl. split; auto. discriminate.
    + destruct (retryable x); [apply Hrec'; apply grows_refl|]. simpl. split; [apply grows_refl|discriminate].
    + pose proof (grows_serve s cur) as Hg.
      destruct (retryable x); [apply Hrec'; auto|]. simpl. split; auto. discriminate.
    + destruct (retry c cur); [apply Hrec'; apply grows_refl|]. simpl. split; [apply grows_refl|discriminate].
    + destruct (take_nth k zs) as [[z zs']|]; apply Hrec; [apply grows_serve|apply grows_refl].
Qed.

Theorem job_created_at_most_once : forall fuel s fs,
  screates (srv_of (run_client fuel s fs)) <= screates s + (if sjob s then 0 else 1).
Proof.
  intros fuel s fs. destruct (client_spec fuel s [] CreateProgJob fs) as [[A B] C]. unfold run_client.
  destruct (sjob s) eqn:Ej.
  - rewrite A; auto. lia.
  - destruct B as [->|(_ & _ & ->)]; lia.
Qed.

Theorem result_is_jobs : forall fuel s fs,
  out_of (run_client fuel s fs) = Returned ->
  sjob (srv_of (run_client fuel s fs)) = true /\
  (sjob s = false -> screates (srv_of (run_client fuel s fs)) = S (screates s)).
Proof.
  intros fuel s fs H. destruct (client_spec fuel s [] CreateProgJob fs) as [[A B] C]. unfold run_client in *.
  split; auto. intros Hj. destruct B as [E|(_ & _ & E)]; auto.
  specialize (C H). rewrite E in C. congruence.
Qed.

(* non-retryable errors surface *)
Theorem nonretryable_surfaces : forall f s zs cur fs,
  (forall x, retryable x = false ->
     out_of (client (S f) s zs cur (BreakBefore x :: fs)) = RaisedExn x /\
     out_of (client (S f) s zs cur (BreakAfter x :: fs)) = RaisedExn x) /\
  (forall c, retry c cur = None -> out_of (client (S f) s zs cur (Reject c :: fs)) = RaisedStream c) /\
  (forall s' c, serve s cur = (s', PErr c) -> retry c cur = None ->
     out_of (client (S f) s zs cur (NoFault :: fs)) = RaisedStream c).
Proof.
  intros f s zs cur fs. repeat split.
  - simpl. rewrite H. reflexivity.
  - simpl. rewrite H. reflexivity.
  - intros c H. simpl. rewrite H. reflexivity.
  - intros s' c Hs H. simpl. rewrite Hs, H. reflexivity.
Qed.

(* termination: with no faults left the honest server is reached in at most three requests *)
Lemma tail_terminates : forall p j n zs cur, out_of (client 3 (mkserver p j n) zs cur []) <> OutOfFuel.
Proof. intros p j n zs cur. destruct p, j, cur; simpl; discriminate. Qed.

Lemma client_fuel_mono : forall f s zs cur fs, out_of (client f s zs cur fs) <> OutOfFuel ->
  forall f', f <= f' -> client f' s zs cur fs = client f s zs cur fs.
Proof.
  induction f as [|f IH]; intros s zs cur fs H f' Hle; [unfold out_of in H; simpl in H; congruence|].
  destruct f' as [|f']; [lia|]. assert (Hle' : f <= f') by lia.
  simpl in *.
  destruct (match fs with [] => NoFault | a :: _ => a end) as [|x|x|c|k].
  - destruct (serve s cur) as [s' [|c]]; auto.
    destruct (retry c cur); auto. rewrite cons_req_out in H. rewrite (IH _ _ _ _ H f' Hle'). reflexivity.
  - destruct (retryable x); auto. rewrite cons_req_out in H. rewrite (IH _ _ _ _ H f' Hle'). reflexivity.
  - destruct (retryable x); auto. rewrite cons_req_out in H. rewrite (IH _ _ _ _ H f' Hle'). reflexivity.
  - destruct (retry c cur); auto. rewrite cons_req_out in H. rewrite (IH _ _ _ _ H f' Hle'). reflexivity.
  - destruct (take_nth k zs) as [[z zs']|]; apply IH; auto.
Qed.

Theorem terminates_after_faults : forall fs s zs cur fuel,
  length fs + 3 <= fuel -> out_of (client fuel s zs cur fs) <> OutOfFuel.
Proof.
  induction fs as [|a fs IH]; intros s zs cur fuel Hf.
  - destruct s as [p j n]. rewrite (client_fuel_mono 3); auto using tail_terminates.
  - destruct fuel as [|f]; [simpl in Hf; lia|]. simpl in Hf. assert (Hf' : length fs + 3 <= f) by lia.
    simpl. destruct a as [|x|x|c|k].
    + destruct (serve s cur) as [s' [|c]]; simpl; try discriminate.
      destruct (retry c cur); [rewrite cons_req_out; apply IH; auto|simpl; discriminate].
    + destruct (retryable x); [rewrite cons_req_out; apply IH; auto|simpl; discriminate].
    + destruct (retryable x); [rewrite cons_req_out; apply IH; auto|simpl; discriminate].
    + destruct (retry c cur); [rewrite cons_req_out; apply IH; auto|simpl; discriminate].
    + destruct (take_nth k zs) as [[z zs']|]; apply IH; auto.
Qed.

(* D7: along any finite sequence of retryable stream failures — before or after the server handled the request, the
   overtaken requests being handled later at arbitrary points or never — mixed with undisturbed exchanges, the
   execution RETURNS: it never raises, the job exists and was created at most once *)
Definition benign (a : fault) : Prop :=
  match a with
  | NoFault | Late _ => True
  | BreakBefore x | BreakAfter x => retryable x = true
  | Reject _ => False
  end.

Lemma benign_never_raises : forall fuel s zs cur fs, Forall benign fs ->
  out_of (client fuel s zs cur fs) = Returned \/ out_of (client fuel s zs cur fs) = OutOfFuel.
Proof.
  induction fuel as [|f IH]; intros s zs cur fs Hb; simpl; auto.
  assert (Htl : Forall benign (tl fs)) by (destruct fs; simpl; auto; inversion Hb; auto).
  assert (Hhd : benign (match fs with [] => NoFault | a :: _ => a end)) by (destruct fs; simpl; auto; inversion Hb; auto).
  destruct (match fs with [] => NoFault | a :: _ => a end) as [|x|x|c|k]; simpl in Hhd.
  - destruct (serve s cur) as [s' [|c]] eqn:Es; simpl; auto.
    pose proof (honest_reply_is_retryable _ _ _ _ Es) as Hr.
    destruct (retry c cur); [|congruence]. rewrite cons_req_out. auto.
  - rewrite Hhd, cons_req_out. auto.
  - rewrite Hhd, cons_req_out. auto.
  - contradiction.
  - destruct (take_nth k zs) as [[z zs']|]; auto.
Qed.

Theorem returns_after_retryable_faults : forall fs s, Forall benign fs ->
  exists fuel,
    out_of (run_client fuel s fs) = Returned /\
    sjob (srv_of (run_client fuel s fs)) = true /\
    screates (srv_of (run_client fuel s fs)) <= screates s + (if sjob s then 0 else 1).
Proof.
  intros fs s Hb. exists (length fs + 3).
  pose proof (terminates_after_faults fs s [] CreateProgJob (length fs + 3) (le_n _)) as Ht.
  destruct (benign_never_raises (length fs + 3) s [] CreateProgJob fs Hb) as [H|H]; [|unfold run_client in *; congruence].
  split; auto. split.
  - apply result_is_jobs; auto.
  - apply job_created_at_most_once.
Qed.

(* ==================================================================================================================== *)
(* Part B — the manager, for every list of events                                                                        *)

Definition rid (x : nat * nat * nat * req) : nat := snd (fst x).
Definition rexec (x : nat * nat * nat * req) : nat := snd (fst (fst x)).

(* an invariant of the manager state is established for `mstep` from its behaviour on the primitive operations *)
Definition running (m : mgr) (e : nat) : Prop := exists x, nth_error (execs m) e = Some x /\ est x = Running.
Definition is_raise (o : eoutcome) : Prop := match o with ORaisedStream _ | ORaisedExn _ => True | _ => False end.

Lemma waiting_on_running m e id : waiting_on m e id = true -> running m e.
Proof.
  unfold waiting_on, running. destruct (nth_error (execs m) e) as [x|]; [|discriminate].
  intros H. apply andb_prop in H. destruct H as [H _]. exists x. split; auto. destruct (est x); auto; discriminate.
Qed.

Section Preservation.
  Variable P : mgr -> Prop.
  Hypothesis P_clock : forall n m, P m -> P (set_clock n m).
  Hypothesis P_send : forall e r m, P m -> P (send e r m).
  Hypothesis P_finish : forall e o m, P m -> running m e -> is_raise o -> P (finish e o m).
  Hypothesis P_cancel : forall e m, P m -> running m e -> P (cancel_exec e m).
  Hypothesis P_drop : forall m, P m -> P (drop_stream m).
  Hypothesis P_submit : forall p m, P m -> P (set_execs (execs m ++ [mkexec p CreateProgJob None Running]) m).
  Hypothesis P_process : forall k w rest, forall m, P m -> take_nth k (wire m) = Some (w, rest) ->
    P (let (m1, p) := serve_m w (set_wire rest m) in if wlive w then reply (wid w) p m1 else m1).
  Hypothesis P_reject : forall k w rest c, forall m, P m -> take_nth k (wire m) = Some (w, rest) ->
    P (if wlive w then reply (wid w) (MErr c) (set_wire rest m) else set_wire rest m).
  Hypothesis P_take : forall k id p rest m, P m -> take_nth k (pending m) = Some ((id, p), rest) ->
    P (set_pending rest m).
  Hypothesis P_unsub : forall id m, P m -> P (set_subs (remove_sub id (subs m)) m).
  (* the only way a result reaches an execution: the response (id, MRes r) was outstanding and id's subscriber is e *)
  Hypothesis P_return : forall k id r rest e m, P m -> take_nth k (pending m) = Some ((id, MRes r), rest) ->
    lookup id (subs m) = Some e -> running m e ->
    P (finish e (OReturned r) (set_subs (remove_sub id (subs m)) (set_pending rest m))).

  Lemma pres_on_error e c m : P m -> running m e -> P (on_payload e (MErr c) m).
  Proof.
    intros H Hr. unfold on_payload. destruct (nth_error (execs m) e); auto.
    destruct (retry c (ecur e0)); auto. apply P_finish; simpl; auto.
  Qed.

  Lemma pres_wake_broken x : forall ws m, P m -> P (fold_left (wake_broken x) ws m).
  Proof.
    induction ws as [|s ws IH]; intros m H; simpl; auto. apply IH. unfold wake_broken.
    destruct (waiting_on m (snd s) (fst s)) eqn:W; auto. destruct (retryable x); auto.
    apply P_finish; simpl; auto. eapply waiting_on_running; eauto.
  Qed.

  Lemma pres_wake_stopped : forall ws m, P m -> P (fold_left wake_stopped ws m).
  Proof.
    induction ws as [|s ws IH]; intros m H; simpl; auto. apply IH. unfold wake_stopped.
    destruct (waiting_on m (snd s) (fst s)) eqn:W; auto. apply P_cancel; auto. eapply waiting_on_running; eauto.
  Qed.

  Lemma pres_mstep m ev : P m -> P (mstep m ev).
  Proof.
    intros H0. unfold mstep. pose proof (P_clock (S (clock m)) m H0) as H.
    set (m' := set_clock (S (clock m)) m) in *. clearbody m'. clear H0.
    destruct ev as [p|k|k c|k|k|x|i| |x i].
    - apply P_send. apply P_submit. exact H.
    - destruct (take_nth k (wire m')) as [[w rest]|] eqn:E; auto. eapply P_process; eauto.
    - destruct (take_nth k (wire m')) as [[w rest]|] eqn:E; auto. eapply P_reject; eauto.
    - destruct (take_nth k (pending m')) as [[[id p] rest]|] eqn:E; auto.
      pose proof (P_take _ _ _ _ _ H E) as H1.
      destruct (lookup id (subs (set_pending rest m'))) as [e|] eqn:El; auto.
      pose proof (P_unsub id _ H1) as H2.
      destruct (waiting_on _ e id) eqn:W; auto. apply waiting_on_running in W.
      destruct p as [r|c]; [|apply pres_on_error; auto].
      unfold on_payload. simpl in El. eapply (P_return k id r rest e m'); eauto.
    - destruct (take_nth k (pending m')) as [[[id p] rest]|] eqn:E; auto.
      pose proof (P_take _ _ _ _ _ H E) as H1.
      destruct (lookup id (subs (set_pending rest m'))) as [e|] eqn:El; auto.
      pose proof (P_unsub id _ H1) as H2.
      destruct (waiting_on _ e id) eqn:W; auto. apply P_cancel; auto. eapply waiting_on_running; eauto.
    - apply pres_wake_broken. auto.
    - destruct (nth_error (execs m') i) as [x|] eqn:Ex; auto. destruct (is_running (est x)) eqn:Er; auto.
      apply P_cancel; auto. exists x. split; auto. destruct (est x); auto; discriminate.
    - apply pres_wake_stopped. auto.
    - apply pres_wake_broken. apply P_drop. unfold cancel_if_running.
      destruct (nth_error (execs m') i) as [y|] eqn:Ex; auto. destruct (is_running (est y)) eqn:Er; auto.
      apply P_cancel; auto. exists y. split; auto. destruct (est y); auto; discriminate.
  Qed.

  Lemma pres_mrun_from : forall evs m, P m -> P (fold_left mstep evs m).
  Proof. induction evs as [|ev evs IH]; intros m H; simpl; auto using pres_mstep. Qed.
End Preservation.

(* ---- list helpers ---- *)
Lemma take_nth_in {A} : forall k (l : list A) x rest, take_nth k l = Some (x, rest) ->
  In x l /\ (forall y, In y rest -> In y l).
Proof.
  induction k as [|k IH]; intros [|a l] x rest H; simpl in H; try discriminate.
  - inversion H; subst. split; [left; auto|intros y Hy; right; auto].
  - destruct (take_nth k l) as [[y r']|] eqn:E; try discriminate. inversion H; subst.
    destruct (IH _ _ _ E) as [H1 H2]. split; [right; auto|].
    intros z [Hz|Hz]; [left; auto|right; auto].
Qed.

Lemma lookup_in : forall id l e, lookup id l = Some e -> In (id, e) l.
Proof.
  induction l as [|[i e'] l IH]; simpl; intros e H; try discriminate.
  destruct (i =? id) eqn:E.
  - apply Nat.eqb_eq in E. inversion H; subst. left; auto.
  - right; auto.
Qed.

Lemma remove_sub_in : forall id l x, In x (remove_sub id l) -> In x l.
Proof.
  induction l as [|[i e'] l IH]; simpl; intros x H; auto.
  destruct (i =? id); [right; auto|]. destruct H as [H|H]; [left; auto|right; auto].
Qed.

Lemma nth_error_update {A} (f : A -> A) : forall l n n',
  nth_error (update n f l) n' = if n =? n' then option_map f (nth_error l n') else nth_error l n'.
Proof.
  induction l as [|a l IH]; intros n n'; simpl.
  - destruct n, n'; simpl; auto; destruct (n =? n'); auto.
  - destruct n, n'; simpl; auto.
Qed.

Lemma nodup_map_inj {A B} (f : A -> B) : forall l a b, NoDup (map f l) -> In a l -> In b l -> f a = f b -> a = b.
Proof.
  induction l as [|x l IH]; simpl; intros a b Hn Ha Hb E; [contradiction|].
  inversion Hn as [|? ? Hx Hn']; subst.
  destruct Ha as [->|Ha]; destruct Hb as [->|Hb]; auto.
  - exfalso. apply Hx. rewrite E. apply in_map; auto.
  - exfalso. apply Hx. rewrite <- E. apply in_map; auto.
Qed.

Lemma job_of_res m j : job_of (res_of m j) = j.
Proof. unfold res_of. destruct (mem j (failjobs m)); reflexivity. Qed.

(* ---- message ids and routing ---- *)
Definition sent (m : mgr) (e id : nat) : Prop := exists c r, In (c, e, id, r) (lreqs m).

Record Routing (m : mgr) : Prop := mkRouting {
  g_ids : map rid (lreqs m) = rev (seq 0 (next_id m));
  g_subs : forall id e, In (id, e) (subs m) -> sent m e id;
  g_wire : forall w, In w (wire m) -> sent m (wexec w) (wid w) /\ wjob w = wexec w;
  g_pend : forall id r, In (id, MRes r) (pending m) -> sent m (job_of r) id;
  g_done : forall c e r, In (c, e, OReturned r) (ldones m) -> job_of r = e }.

Lemma sent_unique m e e' id : Routing m -> sent m e id -> sent m e' id -> e = e'.
Proof.
  intros [H _ _ _ _] [c [r Ha]] [c' [r' Hb]].
  assert (Hn : NoDup (map rid (lreqs m))) by (rewrite H; apply NoDup_rev, seq_NoDup).
  assert (E := nodup_map_inj rid _ _ _ Hn Ha Hb eq_refl). inversion E; auto.
Qed.

Lemma routing_send e r m : Routing m -> Routing (send e r m).
Proof.
  intros [H1 H2 H3 H4 H5]. unfold send. destruct (nth_error (execs m) e) as [x|] eqn:Ex; [|constructor; auto].
  assert (Hs : forall e' id', sent m e' id' ->
     exists c r0, In (c, e', id', r0) ((clock m, e, next_id m, r) :: lreqs m)).
  { intros e' id' [c [r0 Hin]]. exists c, r0. right; auto. }
  constructor; cbn [lreqs next_id subs wire pending ldones send set_next_id set_subs set_execs set_wire set_lreqs map].
  - rewrite H1. unfold rid at 1. cbn [fst snd]. rewrite seq_S, rev_app_distr. reflexivity.
  - intros id e' Hin. apply in_app_iff in Hin. destruct Hin as [Hin|[Hin|[]]].
    + apply Hs. auto.
    + inversion Hin; subst. exists (clock m), r. left; auto.
  - intros w Hin. apply in_app_iff in Hin. destruct Hin as [Hin|[Hin|[]]].
    + destruct (H3 w Hin) as [A B]. split; auto. apply Hs; auto.
    + subst w. simpl. split; auto. exists (clock m), r. left; auto.
  - intros id r0 Hin. apply Hs. auto.
  - exact H5.
Qed.

Lemma routing_finish e o m : Routing m -> (forall r, o <> OReturned r) -> Routing (finish e o m).
Proof.
  intros [H1 H2 H3 H4 H5] Ho. constructor; simpl; auto.
  intros c e' r [Hin|Hin]; eauto. inversion Hin; subst. exfalso; eapply Ho; eauto.
Qed.

Lemma routing_frame m m' : lreqs m' = lreqs m -> next_id m' = next_id m ->
  (forall x, In x (subs m') -> In x (subs m)) -> (forall x, In x (wire m') -> In x (wire m)) ->
  (forall x, In x (pending m') -> In x (pending m)) -> ldones m' = ldones m -> Routing m -> Routing m'.
Proof.
  intros E1 E2 E3 E4 E5 E6 [H1 H2 H3 H4 H5].
  constructor; unfold sent in *; rewrite ?E1, ?E2, ?E6; auto.
Qed.

Theorem routing_mrun pp pj fl evs : Routing (mrun pp pj fl evs).
Proof.
  unfold mrun. apply pres_mrun_from.
  - intros n m. apply routing_frame; auto.
  - apply routing_send.
  - intros e o m H _ Ho. apply routing_finish; auto. intros r ->. exact Ho.
  - intros e m H _. unfold cancel_exec.
    assert (H' : Routing (finish e OCancelled m)) by (apply routing_finish; [auto|discriminate]).
    revert H'. apply routing_frame; auto.
  - intros m [H1 H2 H3 H4 H5]. constructor; unfold sent in *; simpl; auto; try contradiction.
    intros w Hin. apply in_map_iff in Hin. destruct Hin as [w0 [<- Hin]]. simpl. apply H3; auto.
  - intros p m. apply routing_frame; auto.
  - intros k w rest m H E. destruct (take_nth_in _ _ _ _ E) as [Hw Hr].
    destruct (g_wire _ H w Hw) as [Hs Hj].
    assert (Hdead : forall m1, lreqs m1 = lreqs m -> next_id m1 = next_id m -> subs m1 = subs m -> wire m1 = rest ->
              pending m1 = pending m -> ldones m1 = ldones m -> Routing m1).
    { intros m1 E1 E2 E3 E4 E5 E6. revert H. apply routing_frame; auto; rewrite ?E3, ?E4, ?E5; auto. }
    assert (Hgen : forall m1 p, lreqs m1 = lreqs m -> next_id m1 = next_id m -> subs m1 = subs m -> wire m1 = rest ->
              pending m1 = pending m -> ldones m1 = ldones m -> clock m1 = clock m ->
              (forall r, p = MRes r -> job_of r = wjob w) -> Routing (reply (wid w) p m1)).
    { intros m1 p E1 E2 E3 E4 E5 E6 E7 Hp. destruct H as [H1 H2 H3 H4 H5].
      constructor; unfold sent in *; simpl; rewrite ?E1, ?E2, ?E3, ?E4, ?E5, ?E6; auto.
      intros id r Hin. apply in_app_iff in Hin. destruct Hin as [Hin|[Hin|[]]]; auto.
      inversion Hin; subst. rewrite (Hp r eq_refl), Hj. exact Hs. }
    unfold serve_m, create_job.
    destruct (wlive w);
    destruct (wkind w); repeat match goal with |- context [if ?b then _ else _] => destruct b end;
      try (apply Hdead; simpl; auto; fail);
      apply Hgen; simpl; auto; intros r Hr'; inversion Hr'; try discriminate; apply job_of_res.
  - intros k w rest c m H E. destruct (take_nth_in _ _ _ _ E) as [Hw Hr].
    destruct (wlive w); [|revert H; apply routing_frame; auto].
    destruct H as [H1 H2 H3 H4 H5]. constructor; unfold sent in *; simpl; auto.
    intros id r Hin. apply in_app_iff in Hin. destruct Hin as [Hin|[Hin|[]]]; auto. discriminate.
  - intros k id p rest m H E. destruct (take_nth_in _ _ _ _ E) as [_ Hr]. revert H. apply routing_frame; auto.
  - intros id m. apply routing_frame; simpl; auto. intros x. apply remove_sub_in.
  - intros k id r rest e m H E El _. destruct (take_nth_in _ _ _ _ E) as [Hp Hr].
    assert (He : job_of r = e).
    { apply (sent_unique m (job_of r) e id H).
      - apply (g_pend _ H); auto.
      - apply (g_subs _ H), lookup_in; auto. }
    destruct H as [H1 H2 H3 H4 H5]. constructor; unfold sent in *; simpl; auto.
    + intros id' e' Hin. apply H2. eapply remove_sub_in; eauto.
    + intros c e' r' [Hin|Hin]; eauto. inversion Hin; subst; auto.
  - constructor; simpl; auto; try contradiction.
Qed.

(* D5a: message ids are 0, 1, 2, ... in the order the requests are sent — never reused, in particular not after a
   stream restart *)
Theorem ids_fresh : forall pp pj fl evs,
  let m := mrun pp pj fl evs in map rid (obs_reqs m) = seq 0 (next_id m).
Proof.
  intros pp pj fl evs m. subst m. unfold obs_reqs. rewrite map_rev, (g_ids _ (routing_mrun pp pj fl evs)), rev_involutive. reflexivity.
Qed.

(* D5b/D7: whatever the interleaving, a submit future that completes with a result got the result of its own job *)
Theorem result_routed_to_submitter : forall pp pj fl evs c e r,
  In (c, e, OReturned r) (obs_dones (mrun pp pj fl evs)) -> job_of r = e.
Proof.
  intros pp pj fl evs c e r H. unfold obs_dones in H. apply in_rev in H.
  eapply (g_done _ (routing_mrun pp pj fl evs)); eauto.
Qed.

Ltac msimpl := cbn [next_id subs execs wire pending progs jobs failjobs creates clock lreqs lreplies ldones lcancels
  set_next_id set_subs set_execs set_wire set_pending set_progs set_jobs set_failjobs set_creates set_clock set_lreqs
  set_lreplies set_ldones set_lcancels reply finish cancel_exec drop_stream create_job fst snd].

(* ---- job creation ---- *)
Lemma mem_in : forall x l, mem x l = true <-> In x l.
Proof.
  induction l as [|y l IH]; simpl; [split; [discriminate|tauto]|].
  rewrite orb_true_iff, Nat.eqb_eq, IH. split; intros [H|H]; auto.
Qed.

Record Creation (pj : list nat) (m : mgr) : Prop := mkCreation {
  c_jobs : jobs m = creates m ++ pj;
  c_nodup : NoDup (creates m);
  c_disj : forall j, In j (creates m) -> ~ In j pj;
  c_pend : forall id r, In (id, MRes r) (pending m) -> In (job_of r) (jobs m);
  c_done : forall c e r, In (c, e, OReturned r) (ldones m) -> In (job_of r) (jobs m) }.

Lemma creation_frame pj m m' : jobs m' = jobs m -> creates m' = creates m ->
  (forall x, In x (pending m') -> In x (pending m)) -> ldones m' = ldones m -> Creation pj m -> Creation pj m'.
Proof. intros E1 E2 E3 E4 [H1 H2 H3 H4 H5]. constructor; rewrite ?E1, ?E2, ?E4; eauto. Qed.

Lemma creation_send pj e r m : Creation pj m -> Creation pj (send e r m).
Proof. unfold send. destruct (nth_error (execs m) e); auto. apply creation_frame; auto. Qed.

Lemma creation_finish pj e o m : Creation pj m -> (forall r, o <> OReturned r) -> Creation pj (finish e o m).
Proof.
  intros [H1 H2 H3 H4 H5] Ho. constructor; msimpl; auto.
  intros c e' r [Hin|Hin]; eauto. inversion Hin; subst. exfalso; eapply Ho; eauto.
Qed.

Theorem creation_mrun pp pj fl evs : Creation pj (mrun pp pj fl evs).
Proof.
  unfold mrun. apply pres_mrun_from.
  - intros n m. apply creation_frame; auto.
  - intros e r m. apply creation_send.
  - intros e o m H _ Ho. apply creation_finish; auto. intros r ->. exact Ho.
  - intros e m H _. unfold cancel_exec.
    assert (H' : Creation pj (finish e OCancelled m)) by (apply creation_finish; [auto|discriminate]).
    revert H'. apply creation_frame; auto.
  - intros m. apply creation_frame; simpl; auto; contradiction.
  - intros p m. apply creation_frame; auto.
  - intros k w rest m H E.
    assert (Hkeep : forall p, (forall r, p = MRes r -> In (job_of r) (jobs m)) ->
              Creation pj (reply (wid w) p (set_wire rest m))).
    { intros p Hp. destruct H as [H1 H2 H3 H4 H5]. constructor; msimpl; auto.
      intros id r Hin. apply in_app_iff in Hin. destruct Hin as [Hin|[Hin|[]]]; eauto. inversion Hin; subst; auto. }
    assert (Hnew : mem (wjob w) (jobs m) = false ->
              Creation pj (let (m1, p) := create_job w (set_wire rest m) in reply (wid w) p m1)).
    { intros Hm. assert (Hn : ~ In (wjob w) (jobs m)) by (rewrite <- mem_in; congruence).
      destruct H as [H1 H2 H3 H4 H5]. unfold create_job. constructor; msimpl.
      - rewrite H1. reflexivity.
      - constructor; auto. intros Hc. apply Hn. rewrite H1. apply in_app_iff; auto.
      - intros j [<-|Hj]; auto. intros Hc. apply Hn. rewrite H1. apply in_app_iff; auto.
      - intros id r Hin. apply in_app_iff in Hin. destruct Hin as [Hin|[Hin|[]]]; [right; eauto|].
        inversion Hin; subst. left. symmetry. apply job_of_res.
      - intros c e r Hin. right. eauto. }
    assert (Hkeep' : Creation pj (set_wire rest m)) by (revert H; apply creation_frame; auto).
    assert (Hnew' : mem (wjob w) (jobs m) = false -> Creation pj (fst (create_job w (set_wire rest m)))).
    { intros Hm. assert (Hn : ~ In (wjob w) (jobs m)) by (rewrite <- mem_in; congruence).
      destruct H as [H1 H2 H3 H4 H5]. unfold create_job. constructor; msimpl.
      - rewrite H1. reflexivity.
      - constructor; auto. intros Hc. apply Hn. rewrite H1. apply in_app_iff; auto.
      - intros j [<-|Hj]; auto. intros Hc. apply Hn. rewrite H1. apply in_app_iff; auto.
      - intros id r Hin. right; eauto.
      - intros c e r Hin. right. eauto. }
    unfold serve_m. destruct (wlive w).
    { destruct (wkind w).
      + destruct (mem (wprog w) (progs (set_wire rest m))); [apply Hkeep; discriminate|].
        destruct (mem (wjob w) (jobs (set_wire rest m))) eqn:Ej; [apply Hkeep; discriminate|]. apply Hnew. exact Ej.
      + destruct (negb (mem (wprog w) (progs (set_wire rest m)))); [apply Hkeep; discriminate|].
        destruct (mem (wjob w) (jobs (set_wire rest m))) eqn:Ej; [apply Hkeep; discriminate|]. apply Hnew. exact Ej.
      + destruct (mem (wjob w) (jobs (set_wire rest m))) eqn:Ej; [|apply Hkeep; discriminate].
        apply Hkeep. intros r Hr. inversion Hr. rewrite job_of_res. apply mem_in. exact Ej. }
    { destruct (wkind w).
      + destruct (mem (wprog w) (progs (set_wire rest m))); [exact Hkeep'|].
        destruct (mem (wjob w) (jobs (set_wire rest m))) eqn:Ej; [exact Hkeep'|]. apply Hnew'. exact Ej.
      + destruct (negb (mem (wprog w) (progs (set_wire rest m)))); [exact Hkeep'|].
        destruct (mem (wjob w) (jobs (set_wire rest m))) eqn:Ej; [exact Hkeep'|]. apply Hnew'. exact Ej.
      + destruct (mem (wjob w) (jobs (set_wire rest m))) eqn:Ej; exact Hkeep'. }
  - intros k w rest c m H E. destruct (wlive w); [|revert H; apply creation_frame; auto].
    destruct H as [H1 H2 H3 H4 H5]. constructor; msimpl; auto.
    intros id r Hin. apply in_app_iff in Hin. destruct Hin as [Hin|[Hin|[]]]; eauto. discriminate.
  - intros k id p rest m H E. destruct (take_nth_in _ _ _ _ E) as [_ Hr]. revert H. apply creation_frame; auto.
  - intros id m. apply creation_frame; auto.
  - intros k id r rest e m H E El _. destruct (take_nth_in _ _ _ _ E) as [Hp Hr].
    destruct H as [H1 H2 H3 H4 H5]. constructor; msimpl; auto.
    + intros id0 r0 Hin. eauto.
    + intros c e' r' [Hin|Hin]; eauto. inversion Hin; subst; eauto.
  - constructor; simpl; auto; try contradiction. constructor.
Qed.

(* D6 (manager): along every event sequence the server creates each job at most once; a submit future that completes
   with a result completes with the result of a job that existed before the run or was created exactly once *)
Theorem job_created_at_most_once_m : forall pp pj fl evs,
  let m := mrun pp pj fl evs in
  NoDup (creates m) /\
  (forall c e r, In (c, e, OReturned r) (obs_dones m) -> In e pj \/ count_occ Nat.eq_dec (creates m) e = 1).
Proof.
  intros pp pj fl evs m. subst m. pose proof (creation_mrun pp pj fl evs) as [H1 H2 H3 H4 H5].
  split; auto. intros c e r Hin.
  pose proof (result_routed_to_submitter _ _ _ _ _ _ _ Hin) as He.
  unfold obs_dones in Hin. apply in_rev in Hin. apply H5 in Hin. rewrite He, H1 in Hin.
  apply in_app_iff in Hin. destruct Hin as [Hin|Hin]; auto.
  right. apply NoDup_count_occ'; auto.
Qed.

(* ---- completion and cancellation ---- *)
Definition dexec (x : nat * nat * eoutcome) : nat := snd (fst x).
Definition is_cancelled (x : nat * nat * eoutcome) : bool := match snd x with OCancelled => true | _ => false end.

Definition finished (m : mgr) (e : nat) : Prop := exists y, nth_error (execs m) e = Some y /\ est y <> Running.

Record Completion (m : mgr) : Prop := mkCompletion {
  k_fin : forall x, In x (ldones m) -> finished m (dexec x);
  k_nodup : NoDup (map dexec (ldones m));
  k_cancel : lcancels m = map fst (filter is_cancelled (ldones m)) }.

Lemma finished_not_running m e : finished m e -> running m e -> False.
Proof. intros [y [Hy Hn]] [x [Hx Hr]]. rewrite Hy in Hx. inversion Hx; subst. contradiction. Qed.

Lemma completion_frame m m' : execs m' = execs m -> ldones m' = ldones m -> lcancels m' = lcancels m ->
  Completion m -> Completion m'.
Proof.
  intros E1 E2 E3 [H1 H2 H3]. constructor; rewrite ?E2, ?E3; auto.
  intros x Hx. unfold finished. rewrite E1. apply H1; auto.
Qed.

Lemma finished_update m e e' f : (forall x, est x <> Running -> est (f x) <> Running) ->
  finished m e' -> exists y, nth_error (update e f (execs m)) e' = Some y /\ est y <> Running.
Proof.
  intros Hf [y [Hy Hn]]. rewrite nth_error_update. destruct (e =? e').
  - rewrite Hy. simpl. exists (f y). auto.
  - exists y; auto.
Qed.

Lemma completion_finish e o m : Completion m -> running m e ->
  (forall x, In x (ldones (finish e o m)) -> finished (finish e o m) (dexec x)) /\
  NoDup (map dexec (ldones (finish e o m))).
Proof.
  intros [H1 H2 H3] Hr. split.
  - intros x [<-|Hx]; simpl.
    + unfold dexec, finished; simpl. destruct Hr as [y [Hy _]]. rewrite nth_error_update, Nat.eqb_refl, Hy. simpl.
      eexists; split; [reflexivity|]. simpl. discriminate.
    + unfold finished. simpl. apply finished_update; auto. intros; simpl; discriminate.
  - simpl. constructor; auto. unfold dexec at 1; simpl. intros Hin. apply in_map_iff in Hin.
    destruct Hin as [x [E Hx]]. apply (finished_not_running m e); auto. rewrite <- E. auto.
Qed.

Theorem completion_mrun pp pj fl evs : Completion (mrun pp pj fl evs).
Proof.
  unfold mrun. apply pres_mrun_from.
  - intros n m. apply completion_frame; auto.
  - intros e r m H. unfold send. destruct (nth_error (execs m) e) as [x|] eqn:Ex; auto.
    destruct H as [H1 H2 H3]. constructor; simpl; auto.
    intros y Hy. unfold finished. simpl. apply finished_update; auto.
  - intros e o m H Hr Ho. destruct (completion_finish e o m H Hr) as [A B]. constructor; auto.
    simpl. rewrite (k_cancel _ H). unfold is_cancelled at 1. simpl. destruct o; simpl in Ho; try contradiction; reflexivity.
  - intros e m H Hr. destruct (completion_finish e OCancelled m H Hr) as [A B]. unfold cancel_exec. constructor; auto.
    simpl. rewrite (k_cancel _ H). reflexivity.
  - intros m. apply completion_frame; auto.
  - intros p m [H1 H2 H3]. constructor; simpl; auto.
    intros x Hx. destruct (H1 x Hx) as [y [Hy Hn]]. exists y. split; auto. simpl.
    rewrite nth_error_app1; auto. apply nth_error_Some. congruence.
  - intros k w rest m H E. unfold serve_m, create_job.
    destruct (wlive w);
    destruct (wkind w); repeat match goal with |- context [if ?b then _ else _] => destruct b end;
      revert H; apply completion_frame; auto.
  - intros k w rest c m H E. destruct (wlive w); revert H; apply completion_frame; auto.
  - intros k id p rest m H E. revert H. apply completion_frame; auto.
  - intros id m. apply completion_frame; auto.
  - intros k id r rest e m H E El Hr.
    assert (H' : Completion (set_subs (remove_sub id (subs m)) (set_pending rest m))) by (revert H; apply completion_frame; auto).
    destruct (completion_finish e (OReturned r) _ H' Hr) as [A B]. constructor; auto.
    simpl. rewrite (k_cancel _ H). reflexivity.
  - constructor; simpl; auto; try contradiction. constructor.
Qed.

(* D8 and "exactly once": a submit future completes at most once, and cancel_quantum_job is sent exactly for the
   futures that end cancelled — once each, at the step they are cancelled, for the job of that submit *)
Theorem completes_once_and_cancel_once : forall pp pj fl evs,
  let m := mrun pp pj fl evs in
  NoDup (map dexec (obs_dones m)) /\ obs_cancels m = map fst (filter is_cancelled (obs_dones m)).
Proof.
  intros pp pj fl evs m. subst m. destruct (completion_mrun pp pj fl evs) as [H1 H2 H3]. unfold obs_dones, obs_cancels.
  split.
  - rewrite map_rev. apply NoDup_rev. exact H2.
  - rewrite H3, <- map_rev. f_equal.
    generalize (ldones (mrun pp pj fl evs)). intros l. induction l as [|x l IH]; simpl; auto.
    rewrite filter_app, <- IH. simpl. destruct (is_cancelled x); simpl; rewrite ?app_nil_r; reflexivity.
Qed.

(* ---- nothing is lost: every running execution is subscribed for its current request, which is in flight ---- *)
Definition waits (m : mgr) (e id : nat) : Prop :=
  exists x, nth_error (execs m) e = Some x /\ est x = Running /\ ewait x = Some id.
Definition live_ids (m : mgr) : list nat := map wid (filter wlive (wire m)).

Lemma waiting_on_iff m e id : waiting_on m e id = true <-> waits m e id.
Proof.
  unfold waiting_on, waits. destruct (nth_error (execs m) e) as [x|]; [|split; [discriminate|intros [? [? _]]; discriminate]].
  rewrite andb_true_iff. split.
  - intros [H1 H2]. exists x. repeat split; auto.
    + destruct (est x); auto; discriminate.
    + destruct (ewait x) as [i|]; simpl in H2; [|discriminate]. apply Nat.eqb_eq in H2. congruence.
  - intros [y [Hy [Hr Hw]]]. inversion Hy; subst. rewrite Hr, Hw. simpl. split; auto. apply Nat.eqb_refl.
Qed.

Lemma waits_running m e id : waits m e id -> running m e.
Proof. intros [x [H1 [H2 _]]]. exists x; auto. Qed.

Lemma waits_fun m e id id' : waits m e id -> waits m e id' -> id = id'.
Proof. intros [x [H1 [_ H3]]] [y [H1' [_ H3']]]. rewrite H1 in H1'. inversion H1'; subst. congruence. Qed.

(* ws: subscribers of a stream that just went away and whose wake-up is still to be processed (empty between events) *)
Record Wg (ws : list (nat * nat)) (m : mgr) : Prop := mkWg {
  w_nodup : NoDup (map fst (subs m));
  w_lt : forall id e, In (id, e) (subs m) -> id < next_id m;
  w_live : forall e id, waits m e id ->
           (In (id, e) (subs m) /\ (In id (live_ids m) \/ In id (map fst (pending m)))) \/ In (id, e) ws;
  w_run : forall e, running m e -> exists id, waits m e id }.

(* the same, except that nothing is claimed about execution e (which is about to act) *)
Record Wgx (ws : list (nat * nat)) (e : nat) (m : mgr) : Prop := mkWgx {
  x_nodup : NoDup (map fst (subs m));
  x_lt : forall id e', In (id, e') (subs m) -> id < next_id m;
  x_live : forall e' id, e' <> e -> waits m e' id ->
           (In (id, e') (subs m) /\ (In id (live_ids m) \/ In id (map fst (pending m)))) \/ In (id, e') ws;
  x_run : forall e', e' <> e -> running m e' -> exists id, waits m e' id }.

Definition W (m : mgr) : Prop := Wg [] m.

Lemma Wg_Wgx ws e m : Wg ws m -> Wgx ws e m.
Proof. intros [H1 H2 H3 H4]. constructor; auto. Qed.

Lemma waits_update_other m e e' f id : e' <> e ->
  (exists x, nth_error (update e f (execs m)) e' = Some x /\ est x = Running /\ ewait x = Some id) -> waits m e' id.
Proof.
  intros Hne [x [Hx H]]. rewrite nth_error_update in Hx.
  assert (E : (e =? e') = false) by (apply Nat.eqb_neq; auto). rewrite E in Hx. exists x; auto.
Qed.

Lemma running_update_other' m e e' f : e' <> e ->
  (exists x, nth_error (update e f (execs m)) e' = Some x /\ est x = Running) -> running m e'.
Proof.
  intros Hne [x [Hx H]]. rewrite nth_error_update in Hx.
  assert (E : (e =? e') = false) by (apply Nat.eqb_neq; auto). rewrite E in Hx. exists x; auto.
Qed.

Lemma Wg_send ws e r m : Wgx ws e m -> running m e -> Wg ws (send e r m).
Proof.
  intros [H1 H2 H3 H4] [x [Hx Hr]]. unfold send. rewrite Hx.
  constructor; unfold waits, running, live_ids; msimpl.
  - rewrite map_app. simpl. apply NoDup_rev in H1. rewrite <- (rev_involutive (map fst (subs m) ++ [next_id m])).
    apply NoDup_rev. rewrite rev_app_distr. simpl. constructor.
    + rewrite <- in_rev. intros Hin. apply in_map_iff in Hin. destruct Hin as [[i e'] [E Hin]]. simpl in E. subst i.
      apply H2 in Hin. lia.
    + exact H1.
  - intros id e' Hin. apply in_app_iff in Hin. destruct Hin as [Hin|[Hin|[]]].
    + apply H2 in Hin. lia.
    + inversion Hin. lia.
  - intros e' id Hw. destruct (Nat.eq_dec e' e) as [->|Hne].
    + destruct Hw as [y [Hy [_ Hw]]]. rewrite nth_error_update, Nat.eqb_refl, Hx in Hy. simpl in Hy.
      inversion Hy; subst y. simpl in Hw. inversion Hw; subst id. left.
      split; [apply in_app_iff; right; left; auto|]. left. rewrite filter_app, map_app. apply in_app_iff. right. simpl. auto.
    + apply waits_update_other in Hw; auto. destruct (H3 e' id Hne Hw) as [[A B]|C]; auto. left.
      split; [apply in_app_iff; auto|]. destruct B as [B|B]; auto. left. rewrite filter_app, map_app. apply in_app_iff. auto.
  - intros e' Hrun. destruct (Nat.eq_dec e' e) as [->|Hne].
    + exists (next_id m). rewrite nth_error_update, Nat.eqb_refl, Hx. simpl. eexists; repeat split; auto.
    + apply running_update_other' in Hrun; auto. destruct (H4 e' Hne Hrun) as [id [y [Hy Hw]]].
      exists id, y. rewrite nth_error_update. assert (E : (e =? e') = false) by (apply Nat.eqb_neq; auto). rewrite E. auto.
Qed.

Lemma Wg_finish ws e o m : Wgx ws e m -> Wg ws (finish e o m).
Proof.
  intros [H1 H2 H3 H4]. constructor; unfold waits, running, live_ids; msimpl; auto.
  - intros e' id Hw. destruct (Nat.eq_dec e' e) as [->|Hne].
    + destruct Hw as [y [Hy [Hr _]]]. rewrite nth_error_update, Nat.eqb_refl in Hy.
      destruct (nth_error (execs m) e); simpl in Hy; inversion Hy; subst y. discriminate.
    + apply (H3 e' id Hne). eapply waits_update_other; eauto.
  - intros e' Hrun. destruct (Nat.eq_dec e' e) as [->|Hne].
    + destruct Hrun as [y [Hy Hr]]. rewrite nth_error_update, Nat.eqb_refl in Hy.
      destruct (nth_error (execs m) e); simpl in Hy; inversion Hy; subst y. discriminate.
    + apply running_update_other' in Hrun; auto. destruct (H4 e' Hne Hrun) as [id [y [Hy Hw]]].
      exists id, y. rewrite nth_error_update. assert (E : (e =? e') = false) by (apply Nat.eqb_neq; auto). rewrite E. auto.
Qed.

Lemma Wg_cancel ws e m : Wgx ws e m -> Wg ws (cancel_exec e m).
Proof.
  intros H. apply Wg_finish with (o := OCancelled) in H. destruct H as [H1 H2 H3 H4]. unfold cancel_exec.
  constructor; auto.
Qed.

(* ---- list facts ---- *)
Lemma lookup_none_notin : forall id l, lookup id l = None -> ~ In id (map fst l).
Proof.
  induction l as [|[i e] l IH]; simpl; intros H; [tauto|].
  destruct (i =? id) eqn:E; [discriminate|]. apply Nat.eqb_neq in E. intros [H1|H1]; [congruence|]. apply IH; auto.
Qed.

Lemma lookup_nodup : forall id e l, NoDup (map fst l) -> In (id, e) l -> lookup id l = Some e.
Proof.
  induction l as [|[i e'] l IH]; simpl; intros Hn Hin; [contradiction|].
  inversion Hn as [|? ? Hx Hn']; subst. destruct Hin as [Hin|Hin].
  - inversion Hin; subst. rewrite Nat.eqb_refl. reflexivity.
  - destruct (i =? id) eqn:E; auto. apply Nat.eqb_eq in E. subst i. exfalso. apply Hx.
    apply in_map_iff. exists (id, e). auto.
Qed.

Lemma remove_sub_keep : forall id l i e, In (i, e) l -> i <> id -> In (i, e) (remove_sub id l).
Proof.
  induction l as [|[j e'] l IH]; simpl; intros i e Hin Hne; auto.
  destruct (j =? id) eqn:E.
  - apply Nat.eqb_eq in E. destruct Hin as [Hin|Hin]; auto. inversion Hin; subst. congruence.
  - destruct Hin as [Hin|Hin]; [left; auto|right; auto].
Qed.

Lemma remove_sub_nodup : forall id l, NoDup (map fst l) -> NoDup (map fst (remove_sub id l)).
Proof.
  induction l as [|[j e'] l IH]; simpl; intros Hn; auto. inversion Hn as [|? ? Hx Hn']; subst.
  destruct (j =? id); auto. simpl. constructor; auto.
  intros Hin. apply Hx. apply in_map_iff in Hin. destruct Hin as [[i e] [E Hin]]. simpl in E. subst i.
  apply in_map_iff. exists (j, e). split; auto. eapply remove_sub_in; eauto.
Qed.

Lemma take_nth_split {A} : forall k (l : list A) x rest, take_nth k l = Some (x, rest) ->
  forall y, In y l -> y = x \/ In y rest.
Proof.
  induction k as [|k IH]; intros [|a l] x rest H y Hy; simpl in H; try discriminate.
  - inversion H; subst. destruct Hy; auto.
  - destruct (take_nth k l) as [[z r']|] eqn:E; try discriminate. inversion H; subst.
    destruct Hy as [<-|Hy]; [right; left; auto|]. destruct (IH _ _ _ E y Hy); auto. right; right; auto.
Qed.

Lemma Wg_frame ws m m' : execs m' = execs m -> subs m' = subs m -> next_id m' = next_id m ->
  (forall id, In id (live_ids m) \/ In id (map fst (pending m)) -> In id (live_ids m') \/ In id (map fst (pending m'))) ->
  Wg ws m -> Wg ws m'.
Proof.
  intros E1 E2 E3 E4 [H1 H2 H3 H4]. constructor; unfold waits, running in *; rewrite ?E1, ?E2, ?E3; auto.
  intros e id Hw. destruct (H3 e id Hw) as [[A B]|C]; auto.
Qed.

Lemma live_after_take k w rest (m : mgr) : take_nth k (wire m) = Some (w, rest) ->
  forall id, In id (live_ids m) -> (wlive w = true /\ id = wid w) \/ In id (map wid (filter wlive rest)).
Proof.
  intros E id Hin. unfold live_ids in Hin. apply in_map_iff in Hin. destruct Hin as [y [Ey Hy]].
  apply filter_In in Hy. destruct Hy as [Hy Hl].
  destruct (take_nth_split _ _ _ _ E y Hy) as [->|Hr]; [left; auto|].
  right. apply in_map_iff. exists y. split; auto. apply filter_In; auto.
Qed.

Lemma pending_after_take k id p rest (m : mgr) : take_nth k (pending m) = Some ((id, p), rest) ->
  forall i, In i (map fst (pending m)) -> i <> id -> In i (map fst rest).
Proof.
  intros E i Hin Hne. apply in_map_iff in Hin. destruct Hin as [[i' p'] [Ei Hy]]. simpl in Ei. subst i'.
  destruct (take_nth_split _ _ _ _ E _ Hy) as [Heq|Hr]; [inversion Heq; congruence|].
  apply in_map_iff. exists (i, p'). auto.
Qed.

(* the k-th outstanding response is taken off and its subscriber (if any) unsubscribed *)
Lemma W_unsub m k id p rest : W m -> take_nth k (pending m) = Some ((id, p), rest) ->
  match lookup id (subs m) with
  | None => W (set_pending rest m)
  | Some e =>
    let m2 := set_subs (remove_sub id (subs m)) (set_pending rest m) in
    Wgx [] e m2 /\ (waiting_on m2 e id = false -> W m2)
  end.
Proof.
  intros HW E. pose proof HW as [H1 H2 H3 H4].
  assert (F : forall e' id', waits m e' id' -> id' <> id ->
            In (id', e') (remove_sub id (subs m)) /\ (In id' (live_ids m) \/ In id' (map fst rest))).
  { intros e' id' Hw Hne. destruct (H3 e' id' Hw) as [[A B]|[]]. split; [apply remove_sub_keep; auto|].
    destruct B as [B|B]; auto. right. eapply pending_after_take; eauto. }
  destruct (lookup id (subs m)) as [e|] eqn:El.
  - assert (Hother : forall e' id', e' <> e -> waits m e' id' -> id' <> id).
    { intros e' id' Hne Hw ->. destruct (H3 e' id Hw) as [[A _]|[]]. rewrite (lookup_nodup _ _ _ H1 A) in El. congruence. }
    split.
    + constructor; unfold waits, running, live_ids; msimpl; auto using remove_sub_nodup.
      * intros i e' Hin. apply H2 with e'. eapply remove_sub_in; eauto.
      * intros e' id' Hne Hw. left. apply F; auto. eapply Hother; eauto.
      * intros e' _ Hr. apply H4. exact Hr.
    + intros Hnw. constructor; unfold waits, running, live_ids; msimpl; auto using remove_sub_nodup.
      * intros i e' Hin. apply H2 with e'. eapply remove_sub_in; eauto.
      * intros e' id' Hw. left. apply F; auto. destruct (Nat.eq_dec e' e) as [->|Hne]; [|eapply Hother; eauto].
        intros ->. assert (Hc : waiting_on (set_subs (remove_sub id (subs m)) (set_pending rest m)) e id = true).
        { apply waiting_on_iff. exact Hw. } congruence.
  - constructor; unfold waits, running, live_ids; msimpl; auto.
    intros e' id' Hw. destruct (H3 e' id' Hw) as [[A B]|[]]. left. split; auto.
    destruct B as [B|B]; auto. right. eapply pending_after_take; eauto.
    intros ->. apply (lookup_none_notin _ _ El). apply in_map_iff. exists (id, e'). auto.
Qed.

Lemma W_on_payload e p m : Wgx [] e m -> running m e -> W (on_payload e p m).
Proof.
  intros H Hr. unfold on_payload, W. destruct p as [r|c]; [apply Wg_finish; auto|].
  pose proof Hr as [x [Hx _]]. rewrite Hx.
  destruct (retry c (ecur x)); [apply Wg_send|apply Wg_finish]; auto.
Qed.

(* the subscribers of a broken / stopped stream wake up one after the other *)
Lemma Wg_wake_broken x : forall ws m, Wg ws m -> W (fold_left (wake_broken x) ws m).
Proof.
  induction ws as [|[id e] ws IH]; intros m H; simpl; auto. apply IH.
  assert (Hx : Wgx ws e m).
  { destruct H as [H1 H2 H3 H4]. constructor; auto.
    intros e' id' Hne Hw. destruct (H3 e' id' Hw) as [A|[C|C]]; auto. inversion C; congruence. }
  unfold wake_broken. simpl. destruct (waiting_on m e id) eqn:Hw.
  - apply waiting_on_iff in Hw. destruct (retryable x); [apply Wg_send|apply Wg_finish]; eauto using waits_running.
  - destruct H as [H1 H2 H3 H4]. constructor; auto.
    intros e' id' Hw'. destruct (H3 e' id' Hw') as [A|[C|C]]; auto. inversion C; subst.
    apply waiting_on_iff in Hw'. congruence.
Qed.

Lemma Wg_wake_stopped : forall ws m, Wg ws m -> W (fold_left wake_stopped ws m).
Proof.
  induction ws as [|[id e] ws IH]; intros m H; simpl; auto. apply IH.
  assert (Hx : Wgx ws e m).
  { destruct H as [H1 H2 H3 H4]. constructor; auto.
    intros e' id' Hne Hw. destruct (H3 e' id' Hw) as [A|[C|C]]; auto. inversion C; congruence. }
  unfold wake_stopped. simpl. destruct (waiting_on m e id) eqn:Hw.
  - apply Wg_cancel; auto.
  - destruct H as [H1 H2 H3 H4]. constructor; auto.
    intros e' id' Hw'. destruct (H3 e' id' Hw') as [A|[C|C]]; auto. inversion C; subst.
    apply waiting_on_iff in Hw'. congruence.
Qed.

Lemma Wg_drop m : W m -> Wg (subs m) (drop_stream m).
Proof.
  intros [H1 H2 H3 H4]. constructor; msimpl; auto.
  - constructor.
  - intros id e [].
  - intros e id Hw. destruct (H3 e id Hw) as [[A _]|[]]. right. exact A.
Qed.

Lemma W_mstep m ev : W m -> W (mstep m ev).
Proof.
  intros H0. unfold mstep.
  assert (H : W (set_clock (S (clock m)) m)) by (revert H0; apply Wg_frame; auto).
  set (m' := set_clock (S (clock m)) m) in *. clearbody m'. clear H0.
  destruct ev as [p|k|k c|k|k|x|i| |x i].
  - (* Submit *)
    apply Wg_send.
    + destruct H as [H1 H2 H3 H4]. constructor; unfold waits, running; msimpl; auto.
      * intros e' id Hne [y [Hy Hw]]. apply H3. exists y. split; auto.
        rewrite nth_error_app1 in Hy; auto.
        assert (Hlt : e' < length (execs m' ++ [mkexec p CreateProgJob None Running])) by (apply nth_error_Some; congruence).
        rewrite app_length in Hlt. simpl in Hlt. lia.
      * intros e' Hne [y [Hy Hr]].
        assert (Hlt : e' < length (execs m' ++ [mkexec p CreateProgJob None Running])) by (apply nth_error_Some; congruence).
        rewrite app_length in Hlt. simpl in Hlt. rewrite nth_error_app1 in Hy by lia.
        destruct (H4 e' (ex_intro _ y (conj Hy Hr))) as [id [z [Hz Hw]]].
        exists id, z. split; auto. rewrite nth_error_app1; auto. lia.
    + exists (mkexec p CreateProgJob None Running). msimpl. split; auto.
      rewrite nth_error_app2, Nat.sub_diag; auto.
  - (* Process *)
    destruct (take_nth k (wire m')) as [[w rest]|] eqn:E; auto.
    assert (Hgen : forall m1 p, execs m1 = execs m' -> subs m1 = subs m' -> next_id m1 = next_id m' -> wire m1 = rest ->
              pending m1 = pending m' -> W (if wlive w then reply (wid w) p m1 else m1)).
    { intros m1 p E1 E2 E3 E4 E5. revert H. apply Wg_frame; destruct (wlive w) eqn:El; msimpl; auto.
      - intros id [Hin|Hin].
        + destruct (live_after_take _ _ _ _ E id Hin) as [[_ ->]|Hr].
          * right. rewrite map_app. apply in_app_iff. right. simpl. auto.
          * left. unfold live_ids. msimpl. rewrite E4. exact Hr.
        + right. rewrite E5, map_app. apply in_app_iff. auto.
      - intros id [Hin|Hin].
        + destruct (live_after_take _ _ _ _ E id Hin) as [[Hl _]|Hr]; [congruence|].
          left. unfold live_ids. rewrite E4. exact Hr.
        + right. rewrite E5. exact Hin. }
    unfold serve_m, create_job.
    destruct (wkind w); repeat match goal with |- context [if ?b then _ else _] =>
      lazymatch b with wlive _ => fail | _ => destruct b end end; apply Hgen; auto.
  - (* RejectReq *)
    destruct (take_nth k (wire m')) as [[w rest]|] eqn:E; auto.
    revert H. apply Wg_frame; destruct (wlive w) eqn:El; msimpl; auto.
    + intros id [Hin|Hin].
      * destruct (live_after_take _ _ _ _ E id Hin) as [[_ ->]|Hr].
        -- right. rewrite map_app. apply in_app_iff. right. simpl. auto.
        -- left. exact Hr.
      * right. rewrite map_app. apply in_app_iff. auto.
    + intros id [Hin|Hin]; auto.
      destruct (live_after_take _ _ _ _ E id Hin) as [[Hl _]|Hr]; [congruence|]. left. exact Hr.
  - (* Respond *)
    destruct (take_nth k (pending m')) as [[[id p] rest]|] eqn:E; auto.
    pose proof (W_unsub m' k id p rest H E) as HU. msimpl.
    destruct (lookup id (subs m')) as [e|]; auto. destruct HU as [HX HN].
    destruct (waiting_on _ e id) eqn:Hw; auto.
    apply W_on_payload; auto. eapply waiting_on_running; eauto.
  - (* RespondCancel *)
    destruct (take_nth k (pending m')) as [[[id p] rest]|] eqn:E; auto.
    pose proof (W_unsub m' k id p rest H E) as HU. msimpl.
    destruct (lookup id (subs m')) as [e|]; auto. destruct HU as [HX HN].
    destruct (waiting_on _ e id) eqn:Hw; auto. apply Wg_cancel; auto.
  - (* Break *)
    apply Wg_wake_broken. apply Wg_drop. exact H.
  - (* Cancel *)
    destruct (nth_error (execs m') i) as [y|]; auto. destruct (is_running (est y)); auto.
    apply Wg_cancel. apply Wg_Wgx. exact H.
  - (* Stop *)
    apply Wg_wake_stopped. apply Wg_drop. exact H.
  - (* BreakCancel *)
    apply Wg_wake_broken. apply Wg_drop. unfold cancel_if_running.
    destruct (nth_error (execs m') i) as [y|]; auto. destruct (is_running (est y)); auto.
    apply Wg_cancel. apply Wg_Wgx. exact H.
Qed.

Theorem W_mrun pp pj fl evs : W (mrun pp pj fl evs).
Proof.
  unfold mrun.
  assert (H : W (minit pp pj fl)).
  { constructor; simpl.
    - constructor.
    - intros id e [].
    - intros e id [x [Hx _]]. simpl in Hx. destruct e; discriminate.
    - intros e [x [Hx _]]. simpl in Hx. destruct e; discriminate. }
  revert H. generalize (minit pp pj fl). induction evs as [|ev evs IH]; intros m H; simpl; auto using W_mstep.
Qed.

(* D5c: along every event sequence, every execution that has not finished is subscribed in the demultiplexer under the
   message id of its current request, ids are subscribed at most once, and that request is on the wire of the current
   stream or its response is outstanding — nothing is lost, whatever breaks, cancellations and reorderings occurred *)
Theorem no_lost_request : forall pp pj fl evs,
  let m := mrun pp pj fl evs in
  NoDup (obs_subs m) /\
  forall e, running m e ->
    exists id, waits m e id /\ In (id, e) (subs m) /\ (In id (live_ids m) \/ In id (map fst (pending m))).
Proof.
  intros pp pj fl evs m. subst m. destruct (W_mrun pp pj fl evs) as [H1 H2 H3 H4]. split; auto.
  intros e Hr. destruct (H4 e Hr) as [id Hw]. exists id. split; auto.
  destruct (H3 e id Hw) as [[A B]|[]]. auto.
Qed.

(* ---- what a stream failure does to the executions that are waiting ---- *)
Lemma mrun_snoc pp pj fl evs ev : mrun pp pj fl (evs ++ [ev]) = mstep (mrun pp pj fl evs) ev.
Proof. unfold mrun. rewrite fold_left_app. reflexivity. Qed.

Lemma fold_broken_fatal x : retryable x = false -> forall ws m e,
  ((exists id, In (id, e) ws /\ waits m e id) \/
   (exists y, nth_error (execs m) e = Some y /\ est y = Finished (ORaisedExn x))) ->
  exists y, nth_error (execs (fold_left (wake_broken x) ws m)) e = Some y /\ est y = Finished (ORaisedExn x).
Proof.
  intros Hx. induction ws as [|[id0 e0] ws IH]; intros m e H; simpl.
  - destruct H as [[id [[] _]]|H]; auto.
  - apply IH. unfold wake_broken. simpl. rewrite Hx. destruct (waiting_on m e0 id0) eqn:Hw.
    + apply waiting_on_iff in Hw. destruct (Nat.eq_dec e e0) as [->|Hne].
      * right. destruct Hw as [y [Hy _]]. msimpl. rewrite nth_error_update, Nat.eqb_refl, Hy. simpl.
        eexists; split; [reflexivity|]. reflexivity.
      * assert (E : (e0 =? e) = false) by (apply Nat.eqb_neq; auto).
        destruct H as [[id [Hin Hwe]]|[y [Hy He]]].
        -- left. exists id. destruct Hin as [Hin|Hin]; [inversion Hin; congruence|]. split; auto.
           destruct Hwe as [y [Hy Hrest]]. exists y. msimpl. rewrite nth_error_update, E. auto.
        -- right. exists y. msimpl. rewrite nth_error_update, E. auto.
    + destruct H as [[id [Hin Hwe]]|H]; auto. left. exists id. destruct Hin as [Hin|Hin]; auto.
      inversion Hin; subst. apply waiting_on_iff in Hwe. congruence.
Qed.

Lemma fold_broken_retry_status x : retryable x = true -> forall ws m e y,
  nth_error (execs m) e = Some y ->
  exists y', nth_error (execs (fold_left (wake_broken x) ws m)) e = Some y' /\ est y' = est y.
Proof.
  intros Hx. induction ws as [|[id0 e0] ws IH]; intros m e y Hy; simpl; eauto.
  unfold wake_broken at 2. simpl. rewrite Hx. destruct (waiting_on m e0 id0); eauto.
  unfold send. destruct (nth_error (execs m) e0) as [x0|] eqn:E0; eauto.
  assert (Hn : exists y1, nth_error (update e0 (fun x1 => mkexec (eprog x1) GetResult (Some (next_id m)) (est x1)) (execs m)) e = Some y1
                          /\ est y1 = est y).
  { rewrite nth_error_update. destruct (e0 =? e); [rewrite Hy; simpl; eauto|eauto]. }
  destruct Hn as [y1 [Hy1 He1]].
  match goal with |- context [fold_left _ ws ?M] => destruct (IH M e y1) as [y' [A B]] end.
  - msimpl. exact Hy1.
  - exists y'. split; auto. congruence.
Qed.

(* D7 (manager): a non-retryable stream failure surfaces at every execution that was waiting, as that very failure;
   after a retryable one every such execution is still running, subscribed, with a request on the new stream *)
Theorem break_surfaces_m : forall pp pj fl evs x e,
  retryable x = false -> running (mrun pp pj fl evs) e ->
  exists y, nth_error (execs (mrun pp pj fl (evs ++ [Break x]))) e = Some y /\ est y = Finished (ORaisedExn x).
Proof.
  intros pp pj fl evs x e Hx Hr. rewrite mrun_snoc.
  destruct (W_mrun pp pj fl evs) as [H1 H2 H3 H4]. destruct (H4 e Hr) as [id Hw]. destruct (H3 e id Hw) as [[A _]|[]].
  unfold mstep. apply fold_broken_fatal; auto. left. exists id. split; auto.
Qed.

Theorem break_retries_m : forall pp pj fl evs x e,
  retryable x = true -> running (mrun pp pj fl evs) e ->
  let m' := mrun pp pj fl (evs ++ [Break x]) in
  running m' e /\ exists id, waits m' e id /\ In (id, e) (subs m') /\ In id (live_ids m').
Proof.
  intros pp pj fl evs x e Hx [y [Hy Hr]] m'.
  assert (Hrun : running m' e).
  { unfold m'. rewrite mrun_snoc. unfold mstep.
    destruct (fold_broken_retry_status x Hx (subs (set_clock (S (clock (mrun pp pj fl evs))) (mrun pp pj fl evs)))
               (drop_stream (set_clock (S (clock (mrun pp pj fl evs))) (mrun pp pj fl evs))) e y Hy) as [y' [A B]].
    exists y'. split; auto. congruence. }
  split; auto.
  destruct (no_lost_request pp pj fl (evs ++ [Break x])) as [_ H]. destruct (H e Hrun) as [id [Hw [Hs [Hl|Hp]]]].
  - exists id. auto.
  - exfalso. unfold m' in *. clear -Hp. rewrite mrun_snoc in Hp. unfold mstep in Hp.
    assert (Hnil : forall ws m, pending m = [] -> pending (fold_left (wake_broken x) ws m) = []).
    { induction ws as [|s ws IH]; intros m Hm; simpl; auto. apply IH. unfold wake_broken.
      destruct (waiting_on m (snd s) (fst s)); auto. destruct (retryable x); auto.
      unfold send. destruct (nth_error (execs m) (snd s)); auto. }
    rewrite Hnil in Hp; auto.
Qed.

(* D5b: a response with message id i is handed to the execution subscribed under i and changes no other execution *)
Lemma on_payload_other e p m e' : e' <> e -> nth_error (execs (on_payload e p m)) e' = nth_error (execs m) e'.
Proof.
  intros Hne. assert (E : (e =? e') = false) by (apply Nat.eqb_neq; auto).
  unfold on_payload. destruct p as [r|c].
  - msimpl. rewrite nth_error_update, E. reflexivity.
  - destruct (nth_error (execs m) e) as [x|] eqn:Ex; auto. destruct (retry c (ecur x)).
    + unfold send. rewrite Ex. msimpl. rewrite nth_error_update, E. reflexivity.
    + msimpl. rewrite nth_error_update, E. reflexivity.
Qed.

Theorem demux_routes : forall m k e',
  match take_nth k (pending m) with
  | Some ((id, _), _) => lookup id (subs m) <> Some e'
  | None => True
  end ->
  nth_error (execs (mstep m (Respond k))) e' = nth_error (execs m) e'.
Proof.
  intros m k e' H. unfold mstep. msimpl.
  destruct (take_nth k (pending m)) as [[[id p] rest]|]; auto. msimpl.
  destruct (lookup id (subs m)) as [e|] eqn:El; auto.
  destruct (waiting_on _ e id); auto.
  rewrite on_payload_other; auto; congruence.
Qed.

(* ==================================================================================================================== *)
(* The two models agree (bounded, by computation): Part A is Part B with one execution, the fault sequence compiled into
   manager events (d = number of overtaken requests still on the wire, they precede the current request).               *)
Fixpoint compile (d : nat) (fs : list fault) : list event :=
  match fs with
  | [] => []
  | NoFault :: r => Process d :: Respond 0 :: compile d r
  | Reject c :: r => RejectReq d c :: Respond 0 :: compile d r
  | BreakBefore x :: r => Break x :: compile (S d) r
  | BreakAfter x :: r => Process d :: Break x :: compile d r
  | Late k :: r => if k <? d then Process k :: compile (pred d) r else compile d r
  end.

Definition outcome_of_manager (m : mgr) : outcome :=
  match ldones m with
  | [(_, _, OReturned _)] => Returned
  | [(_, _, ORaisedStream c)] => RaisedStream c
  | [(_, _, ORaisedExn x)] => RaisedExn x
  | _ => OutOfFuel
  end.

Definition models_agree (p j : bool) (fs : list fault) : bool :=
  let m := mrun (if p then [0] else []) (if j then [0] else []) []
                (Submit 0 :: compile 0 (fs ++ [NoFault; NoFault; NoFault])) in
  match client (length fs + 4) (mkserver p j 0) [] CreateProgJob fs with
  | (_, o, reqs) =>
    outcome_eqb o (outcome_of_manager m) && leqb req_eqb reqs (map (fun x => snd x) (obs_reqs m))
  end.

Definition fault_alphabet : list fault :=
  [NoFault; BreakBefore XServiceUnavailable; BreakBefore XNotFound; BreakAfter XUnknown; BreakAfter XRuntimeError;
   Reject PROGRAM_ALREADY_EXISTS; Reject JOB_ALREADY_EXISTS; Reject PROGRAM_DOES_NOT_EXIST; Reject JOB_DOES_NOT_EXIST;
   Reject INTERNAL; Late 0; Late 1].

Fixpoint sequences (n : nat) : list (list fault) :=
  match n with
  | O => [[]]
  | S k => [] :: flat_map (fun s => map (fun a => a :: s) fault_alphabet) (sequences k)
  end.

Lemma models_agree_bounded :
  forallb (fun pj => forallb (models_agree (fst pj) (snd pj)) (sequences 3))
          [(false, false); (true, false); (true, true); (false, true)] = true.
Proof. vm_compute. reflexivity. Qed.
