(* C20 — models of cirq_google.engine.stream_manager (definitions only; proofs in StreamProofs.v).

   Part A (`client`): ONE execution coroutine (StreamManager._manage_execution) against a model Quantum Engine server,
   along an arbitrary fault sequence: each request either reaches the server and is answered (NoFault), is lost because
   the stream breaks before the server saw it (BreakBefore), is processed but its response is lost (BreakAfter), or is
   answered with an arbitrary error code (Reject).  The retry decisions come from Generated/RetryTable.v, which is
   re-evaluated from _get_retry_request_or_raise / _is_retryable_error on every run.

   Part B (`mstep`): the whole manager — several executions, the response demultiplexer (message id -> waiter), the
   message-id counter, the requests on the wire and the responses not yet delivered — driven by an arbitrary list of
   events (submit, server processes the k-th request, server rejects it with a code, the k-th response is delivered,
   the stream breaks with an exception, a submit future is cancelled - while idle, while a response or a stream failure
   is being delivered to it -, stop()). *)
From Coq Require Import List Bool Arith.
From VF Require Import Async.StreamTypes Generated.RetryTable.
Import ListNotations.

(* ==================================================================================================================== *)
(* Part A — one execution, one job, a fault sequence                                                                     *)

Record server := mkserver { sprog : bool; sjob : bool; screates : nat }.
Inductive payload := POk | PErr (c : code).

(* the server: creation is refused when the thing exists, lookups fail when it does not *)
Definition serve (s : server) (r : req) : server * payload :=
  match r with
  | CreateProgJob =>
      if sprog s then (s, PErr PROGRAM_ALREADY_EXISTS)
      else if sjob s then (s, PErr JOB_ALREADY_EXISTS)
      else (mkserver true true (S (screates s)), POk)
  | CreateJob =>
      if negb (sprog s) then (s, PErr PROGRAM_DOES_NOT_EXIST)
      else if sjob s then (s, PErr JOB_ALREADY_EXISTS)
      else (mkserver true true (S (screates s)), POk)
  | GetResult => if sjob s then (s, POk) else (s, PErr JOB_DOES_NOT_EXIST)
  end.

Inductive fault :=
| NoFault                  (* the request reaches the server and its response reaches the client *)
| BreakBefore (x : exn)    (* the stream raises x before the server handled the request; the request may still be
                              handled later (Late), its response is lost in any case *)
| BreakAfter (x : exn)     (* the server handled the request, then the stream raises x: the response is lost *)
| Reject (c : code)        (* the server answers with error code c, leaving its state unchanged *)
| Late (k : nat).          (* the server now handles the k-th request that was overtaken by a stream break *)
Inductive outcome := Returned | RaisedStream (c : code) | RaisedExn (x : exn) | OutOfFuel.

Definition retryable (x : exn) : bool := is_api x && is_retryable x.

Definition cons_req (r : req) (x : server * outcome * list req) : server * outcome * list req :=
  match x with (s, o, l) => (s, o, r :: l) end.

Fixpoint take_nth {A} (n : nat) (l : list A) : option (A * list A) :=
  match l, n with
  | [], _ => None
  | x :: r, O => Some (x, r)
  | x :: r, S k => match take_nth k r with Some (y, r') => Some (y, x :: r') | None => None end
  end.

(* `while True:` of _manage_execution; one iteration per fault-list entry: a request is sent and the entry says what
   happens to it (or, for Late, an overtaken request is handled first); zs = requests overtaken by a stream break *)
Fixpoint client (fuel : nat) (s : server) (zs : list req) (cur : req) (fs : list fault) : server * outcome * list req :=
  match fuel with
  | O => (s, OutOfFuel, [])
  | S f =>
    let flt := match fs with [] => NoFault | a :: _ => a end in
    let fs' := tl fs in
    match flt with
    | NoFault =>
        match serve s cur with
        | (s', POk) => (s', Returned, [cur])
        | (s', PErr c) =>
            match retry c cur with
            | Some r' => cons_req cur (client f s' zs r' fs')
            | None => (s', RaisedStream c, [cur])
            end
        end
    | Reject c =>
        match retry c cur with
        | Some r' => cons_req cur (client f s zs r' fs')
        | None => (s, RaisedStream c, [cur])
        end
    | BreakBefore x =>
        if retryable x then cons_req cur (client f s (zs ++ [cur]) GetResult fs') else (s, RaisedExn x, [cur])
    | BreakAfter x =>
        let s' := fst (serve s cur) in
        if retryable x then cons_req cur (client f s' zs GetResult fs') else (s', RaisedExn x, [cur])
    | Late k =>
        match take_nth k zs with
        | Some (z, zs') => client f (fst (serve s z)) zs' cur fs'
        | None => client f s zs cur fs'
        end
    end
  end.

Definition run_client (fuel : nat) (s : server) (fs : list fault) := client fuel s [] CreateProgJob fs.

(* ==================================================================================================================== *)
(* Part B — the manager                                                                                                  *)

Inductive result := RResult (j : nat) | RJob (j : nat).          (* response.result / response.job, of job j *)
Definition job_of (r : result) : nat := match r with RResult j | RJob j => j end.
Inductive mpayload := MRes (r : result) | MErr (c : code).
Inductive eoutcome := OReturned (r : result) | ORaisedStream (c : code) | ORaisedExn (x : exn) | OCancelled.
Inductive estatus := Running | Finished (o : eoutcome).

(* execution coroutine e submits job e of program eprog *)
Record exec := mkexec { eprog : nat; ecur : req; ewait : option nat; est : estatus }.
(* a request as seen by the stream: message id, (ghost) sender, kind, program and job it names *)
Record wreq := mkwreq { wid : nat; wexec : nat; wkind : req; wprog : nat; wjob : nat; wlive : bool }.
Definition kill (w : wreq) : wreq := mkwreq (wid w) (wexec w) (wkind w) (wprog w) (wjob w) false.

Record mgr := mkmgr {
  next_id : nat;
  subs : list (nat * nat);
  execs : list exec;
  wire : list wreq;
  pending : list (nat * mpayload);
  progs : list nat;
  jobs : list nat;
  failjobs : list nat;
  creates : list nat;
  clock : nat;
  lreqs : list (nat * nat * nat * req);
  lreplies : list (nat * nat * mpayload);
  ldones : list (nat * nat * eoutcome);
  lcancels : list (nat * nat) }.
Definition set_next_id (v : nat) (m : mgr) : mgr := mkmgr (v) (subs m) (execs m) (wire m) (pending m) (progs m) (jobs m) (failjobs m) (creates m) (clock m) (lreqs m) (lreplies m) (ldones m) (lcancels m).
Definition set_subs (v : list (nat * nat)) (m : mgr) : mgr := mkmgr (next_id m) (v) (execs m) (wire m) (pending m) (progs m) (jobs m) (failjobs m) (creates m) (clock m) (lreqs m) (lreplies m) (ldones m) (lcancels m).
Definition set_execs (v : list exec) (m : mgr) : mgr := mkmgr (next_id m) (subs m) (v) (wire m) (pending m) (progs m) (jobs m) (failjobs m) (creates m) (clock m) (lreqs m) (lreplies m) (ldones m) (lcancels m).
Definition set_wire (v : list wreq) (m : mgr) : mgr := mkmgr (next_id m) (subs m) (execs m) (v) (pending m) (progs m) (jobs m) (failjobs m) (creates m) (clock m) (lreqs m) (lreplies m) (ldones m) (lcancels m).
Definition set_pending (v : list (nat * mpayload)) (m : mgr) : mgr := mkmgr (next_id m) (subs m) (execs m) (wire m) (v) (progs m) (jobs m) (failjobs m) (creates m) (clock m) (lreqs m) (lreplies m) (ldones m) (lcancels m).
Definition set_progs (v : list nat) (m : mgr) : mgr := mkmgr (next_id m) (subs m) (execs m) (wire m) (pending m) (v) (jobs m) (failjobs m) (creates m) (clock m) (lreqs m) (lreplies m) (ldones m) (lcancels m).
Definition set_jobs (v : list nat) (m : mgr) : mgr := mkmgr (next_id m) (subs m) (execs m) (wire m) (pending m) (progs m) (v) (failjobs m) (creates m) (clock m) (lreqs m) (lreplies m) (ldones m) (lcancels m).
Definition set_failjobs (v : list nat) (m : mgr) : mgr := mkmgr (next_id m) (subs m) (execs m) (wire m) (pending m) (progs m) (jobs m) (v) (creates m) (clock m) (lreqs m) (lreplies m) (ldones m) (lcancels m).
Definition set_creates (v : list nat) (m : mgr) : mgr := mkmgr (next_id m) (subs m) (execs m) (wire m) (pending m) (progs m) (jobs m) (failjobs m) (v) (clock m) (lreqs m) (lreplies m) (ldones m) (lcancels m).
Definition set_clock (v : nat) (m : mgr) : mgr := mkmgr (next_id m) (subs m) (execs m) (wire m) (pending m) (progs m) (jobs m) (failjobs m) (creates m) (v) (lreqs m) (lreplies m) (ldones m) (lcancels m).
Definition set_lreqs (v : list (nat * nat * nat * req)) (m : mgr) : mgr := mkmgr (next_id m) (subs m) (execs m) (wire m) (pending m) (progs m) (jobs m) (failjobs m) (creates m) (clock m) (v) (lreplies m) (ldones m) (lcancels m).
Definition set_lreplies (v : list (nat * nat * mpayload)) (m : mgr) : mgr := mkmgr (next_id m) (subs m) (execs m) (wire m) (pending m) (progs m) (jobs m) (failjobs m) (creates m) (clock m) (lreqs m) (v) (ldones m) (lcancels m).
Definition set_ldones (v : list (nat * nat * eoutcome)) (m : mgr) : mgr := mkmgr (next_id m) (subs m) (execs m) (wire m) (pending m) (progs m) (jobs m) (failjobs m) (creates m) (clock m) (lreqs m) (lreplies m) (v) (lcancels m).
Definition set_lcancels (v : list (nat * nat)) (m : mgr) : mgr := mkmgr (next_id m) (subs m) (execs m) (wire m) (pending m) (progs m) (jobs m) (failjobs m) (creates m) (clock m) (lreqs m) (lreplies m) (ldones m) (v).

Inductive event :=
| Submit (p : nat)              (* StreamManager.submit for a new job of program p *)
| Process (k : nat)             (* the server handles the k-th request on the wire *)
| RejectReq (k : nat) (c : code)(* the server answers the k-th request with error code c, state unchanged *)
| Respond (k : nat)             (* the k-th outstanding response reaches the client *)
| RespondCancel (k : nat)       (* ... and its waiter is cancelled before it resumes *)
| Break (x : exn)               (* the stream raises x: outstanding responses are lost, unhandled requests become mute *)
| Cancel (i : nat)              (* the future returned by the i-th submit is cancelled *)
| Stop                          (* StreamManager.stop() *)
| BreakCancel (x : exn) (i : nat). (* the stream raises x and the i-th submit is cancelled before its execution resumes *)

Fixpoint mem (x : nat) (l : list nat) : bool := match l with [] => false | y :: r => (x =? y) || mem x r end.
Fixpoint lookup (id : nat) (l : list (nat * nat)) : option nat :=
  match l with [] => None | (i, e) :: r => if i =? id then Some e else lookup id r end.
Fixpoint remove_sub (id : nat) (l : list (nat * nat)) : list (nat * nat) :=
  match l with [] => [] | (i, e) :: r => if i =? id then r else (i, e) :: remove_sub id r end.
Fixpoint update {A} (n : nat) (f : A -> A) (l : list A) : list A :=
  match l, n with
  | [], _ => []
  | x :: r, O => f x :: r
  | x :: r, S k => x :: update k f r
  end.

Definition is_running (s : estatus) : bool := match s with Running => true | Finished _ => false end.
Definition opt_nat_eqb (a : option nat) (b : nat) : bool := match a with Some x => x =? b | None => false end.
(* the execution is suspended in `await response_future` for message id `id` *)
Definition waiting_on (m : mgr) (e id : nat) : bool :=
  match nth_error (execs m) e with
  | Some x => is_running (est x) && opt_nat_eqb (ewait x) id
  | None => false
  end.

(* current_request.message_id = _generate_message_id(); subscribe; request_queue.put *)
Definition send (e : nat) (r : req) (m : mgr) : mgr :=
  match nth_error (execs m) e with
  | None => m
  | Some x =>
    let id := next_id m in
    set_next_id (S id)
      (set_subs (subs m ++ [(id, e)])
        (set_execs (update e (fun x => mkexec (eprog x) r (Some id) (est x)) (execs m))
          (set_wire (wire m ++ [mkwreq id e r (eprog x) e true])
            (set_lreqs ((clock m, e, id, r) :: lreqs m) m))))
  end.

Definition finish (e : nat) (o : eoutcome) (m : mgr) : mgr :=
  set_execs (update e (fun x => mkexec (eprog x) (ecur x) (ewait x) (Finished o)) (execs m))
    (set_ldones ((clock m, e, o) :: ldones m) m).

(* except asyncio.CancelledError: response_future.cancel(); await self._cancel(job.name); raise *)
Definition cancel_exec (e : nat) (m : mgr) : mgr :=
  set_lcancels ((clock m, e) :: lcancels m) (finish e OCancelled m).

(* response handling of _manage_execution *)
Definition on_payload (e : nat) (p : mpayload) (m : mgr) : mgr :=
  match p with
  | MRes r => finish e (OReturned r) m
  | MErr c =>
    match nth_error (execs m) e with
    | None => m
    | Some x =>
      match retry c (ecur x) with
      | Some r' => send e r' m
      | None => finish e (ORaisedStream c) m
      end
    end
  end.

Definition res_of (m : mgr) (j : nat) : result := if mem j (failjobs m) then RJob j else RResult j.
Definition create_job (w : wreq) (m : mgr) : mgr * mpayload :=
  (set_progs (if mem (wprog w) (progs m) then progs m else wprog w :: progs m)
     (set_jobs (wjob w :: jobs m) (set_creates (wjob w :: creates m) m)), MRes (res_of m (wjob w))).
Definition serve_m (w : wreq) (m : mgr) : mgr * mpayload :=
  match wkind w with
  | CreateProgJob =>
      if mem (wprog w) (progs m) then (m, MErr PROGRAM_ALREADY_EXISTS)
      else if mem (wjob w) (jobs m) then (m, MErr JOB_ALREADY_EXISTS)
      else create_job w m
  | CreateJob =>
      if negb (mem (wprog w) (progs m)) then (m, MErr PROGRAM_DOES_NOT_EXIST)
      else if mem (wjob w) (jobs m) then (m, MErr JOB_ALREADY_EXISTS)
      else create_job w m
  | GetResult => if mem (wjob w) (jobs m) then (m, MRes (res_of m (wjob w))) else (m, MErr JOB_DOES_NOT_EXIST)
  end.

Definition reply (id : nat) (p : mpayload) (m : mgr) : mgr :=
  set_pending (pending m ++ [(id, p)]) (set_lreplies ((clock m, id, p) :: lreplies m) m).

(* publish_exception(e) then every woken execution either retries with GetResult or raises *)
Definition wake_broken (x : exn) (m : mgr) (s : nat * nat) : mgr :=
  if waiting_on m (snd s) (fst s) then
    if retryable x then send (snd s) GetResult m else finish (snd s) (ORaisedExn x) m
  else m.
Definition wake_stopped (m : mgr) (s : nat * nat) : mgr :=
  if waiting_on m (snd s) (fst s) then cancel_exec (snd s) m else m.

(* the stream is gone: nobody is subscribed any more, outstanding responses are lost, and the requests the server has
   not handled yet may still be handled later — but their responses go nowhere *)
Definition drop_stream (m : mgr) : mgr := set_subs [] (set_wire (map kill (wire m)) (set_pending [] m)).

(* future.cancel() of the i-th submit: nothing happens unless its execution is still running *)
Definition cancel_if_running (i : nat) (m : mgr) : mgr :=
  match nth_error (execs m) i with
  | Some x => if is_running (est x) then cancel_exec i m else m
  | None => m
  end.

Definition mstep (m0 : mgr) (ev : event) : mgr :=
  let m := set_clock (S (clock m0)) m0 in
  match ev with
  | Submit p =>
      let e := length (execs m) in
      send e CreateProgJob (set_execs (execs m ++ [mkexec p CreateProgJob None Running]) m)
  | Process k =>
      match take_nth k (wire m) with
      | None => m
      | Some (w, rest) =>
        let (m1, p) := serve_m w (set_wire rest m) in if wlive w then reply (wid w) p m1 else m1
      end
  | RejectReq k c =>
      match take_nth k (wire m) with
      | None => m
      | Some (w, rest) => if wlive w then reply (wid w) (MErr c) (set_wire rest m) else set_wire rest m
      end
  | Respond k =>
      match take_nth k (pending m) with
      | None => m
      | Some ((id, p), rest) =>
        let m1 := set_pending rest m in
        match lookup id (subs m1) with
        | None => m1
        | Some e =>
          let m2 := set_subs (remove_sub id (subs m1)) m1 in
          if waiting_on m2 e id then on_payload e p m2 else m2
        end
      end
  | RespondCancel k =>
      match take_nth k (pending m) with
      | None => m
      | Some ((id, p), rest) =>
        let m1 := set_pending rest m in
        match lookup id (subs m1) with
        | None => m1
        | Some e =>
          let m2 := set_subs (remove_sub id (subs m1)) m1 in
          if waiting_on m2 e id then cancel_exec e m2 else m2
        end
      end
  | Break x => fold_left (wake_broken x) (subs m) (drop_stream m)
  | Cancel i =>
      match nth_error (execs m) i with
      | Some x => if is_running (est x) then cancel_exec i m else m
      | None => m
      end
  | Stop => fold_left wake_stopped (subs m) (drop_stream m)
  | BreakCancel x i =>
      (* the waiter of i has been failed by publish_exception like everybody else's, but its coroutine resumes with
         CancelledError: it cancels the remote job and ends cancelled instead of retrying / raising x *)
      let m1 := cancel_if_running i m in fold_left (wake_broken x) (subs m1) (drop_stream m1)
  end.

Definition minit (pre_progs pre_jobs fails : list nat) : mgr :=
  mkmgr 0 [] [] [] [] pre_progs pre_jobs fails [] 0 [] [] [] [].
Definition mrun (pre_progs pre_jobs fails : list nat) (evs : list event) : mgr :=
  fold_left mstep evs (minit pre_progs pre_jobs fails).

(* what an observer of the real run records, grouped by the step (clock value) at which it happened *)
Definition obs_reqs (m : mgr) := rev (lreqs m).        (* (step, execution, message id, kind) *)
Definition obs_replies (m : mgr) := rev (lreplies m).  (* (step, message id, payload) *)
Definition obs_dones (m : mgr) := rev (ldones m).      (* (step, execution, outcome of the submit future) *)
Definition obs_cancels (m : mgr) := rev (lcancels m).  (* (step, execution): cancel_quantum_job(job of execution) *)
Definition obs_subs (m : mgr) := map fst (subs m).     (* ResponseDemux._subscribers keys *)

(* ---- decidable equality for the correspondence check ---- *)
Definition result_eqb (a b : result) : bool :=
  match a, b with RResult x, RResult y | RJob x, RJob y => x =? y | _, _ => false end.
Definition mpayload_eqb (a b : mpayload) : bool :=
  match a, b with MRes x, MRes y => result_eqb x y | MErr x, MErr y => code_eqb x y | _, _ => false end.
Definition eoutcome_eqb (a b : eoutcome) : bool :=
  match a, b with
  | OReturned x, OReturned y => result_eqb x y
  | ORaisedStream x, ORaisedStream y => code_eqb x y
  | ORaisedExn x, ORaisedExn y => exn_eqb x y
  | OCancelled, OCancelled => true
  | _, _ => false
  end.
Fixpoint leqb {A} (e : A -> A -> bool) (a b : list A) : bool :=
  match a, b with [], [] => true | x :: a', y :: b' => e x y && leqb e a' b' | _, _ => false end.
Definition req4_eqb (a b : nat * nat * nat * req) : bool :=
  match a, b with (s, e, i, r), (s', e', i', r') => (s =? s') && (e =? e') && (i =? i') && req_eqb r r' end.
Definition rep3_eqb (a b : nat * nat * mpayload) : bool :=
  match a, b with (s, i, p), (s', i', p') => (s =? s') && (i =? i') && mpayload_eqb p p' end.
Definition done3_eqb (a b : nat * nat * eoutcome) : bool :=
  match a, b with (s, e, o), (s', e', o') => (s =? s') && (e =? e') && eoutcome_eqb o o' end.
Definition can2_eqb (a b : nat * nat) : bool := (fst a =? fst b) && (snd a =? snd b).

(* per-step demux snapshots *)
Fixpoint mrun_subs (m : mgr) (evs : list event) : list (list nat) :=
  match evs with [] => [] | ev :: r => let m' := mstep m ev in obs_subs m' :: mrun_subs m' r end.

Record mcase := mkmcase {
  c_progs : list nat; c_jobs : list nat; c_fails : list nat; c_events : list event;
  c_reqs : list (nat * nat * nat * req); c_replies : list (nat * nat * mpayload);
  c_dones : list (nat * nat * eoutcome); c_cancels : list (nat * nat); c_subs : list (list nat); c_creates : list nat }.

Definition magrees (c : mcase) : bool :=
  let m := mrun (c_progs c) (c_jobs c) (c_fails c) (c_events c) in
  leqb req4_eqb (obs_reqs m) (c_reqs c) && leqb rep3_eqb (obs_replies m) (c_replies c) &&
  leqb done3_eqb (obs_dones m) (c_dones c) && leqb can2_eqb (obs_cancels m) (c_cancels c) &&
  leqb (leqb Nat.eqb) (mrun_subs (minit (c_progs c) (c_jobs c) (c_fails c)) (c_events c)) (c_subs c) &&
  leqb Nat.eqb (rev (creates m)) (c_creates c).

(* Part A cases: one submit, a fault sequence *)
Definition outcome_eqb (a b : outcome) : bool :=
  match a, b with
  | Returned, Returned | OutOfFuel, OutOfFuel => true
  | RaisedStream x, RaisedStream y => code_eqb x y
  | RaisedExn x, RaisedExn y => exn_eqb x y
  | _, _ => false
  end.
Definition cagrees (c : bool * bool * list fault * list req * outcome * nat) : bool :=
  match c with
  | (p, j, fs, reqs, o, ncreate) =>
    match run_client (length fs + 4) (mkserver p j 0) fs with
    | (s, o', reqs') => leqb req_eqb reqs' reqs && outcome_eqb o' o && (screates s =? ncreate)
    end
  end.
