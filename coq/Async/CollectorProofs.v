(* C20 — proofs about the collector model (Async/Collector.v): for EVERY concurrency, budget, next_job oracle and
   completion schedule.  Everything is stated on the trace. *)
From Coq Require Import ZArith List Bool Arith Lia Permutation.
From VF Require Import Async.Collector.
Import ListNotations.

(* ------------------------------------------------------------------------------------------------------------ *)
(* "at every point in time": a predicate holds of every suffix of the newest-first trace                         *)
Fixpoint always (P : list tev -> Prop) (rtr : list tev) : Prop :=
  match rtr with [] => P [] | e :: r => P (e :: r) /\ always P r end.

Lemma always_head P l : always P l -> P l.
Proof. destruct l; simpl; tauto. Qed.

Lemma always_suffix P : forall l a b, l = a ++ b -> always P l -> P b.
Proof.
  intros l a. revert l. induction a as [|x a IH]; intros l b -> H; simpl in *.
  - now apply always_head.
  - destruct H as [_ H]. eapply IH; eauto.
Qed.

Definition P_conc (conc : nat) (l : list tev) : Prop :=
  n_result l <= n_done l /\ n_done l <= n_start l /\ n_start l <= n_take l /\ n_take l <= n_result l + conc.
Definition P_budget (budget : option Z) (l : list tev) : Prop :=
  match budget, l with Some b, ETake _ _ _ :: l' => (charged l' < b)%Z | _, _ => True end.

Record Inv (conc : nat) (budget : option Z) (c : col) : Prop := mkInv {
  i_run : n_take (rtrace c) = n_result (rtrace c) + nrun c;
  i_spawn : n_take (rtrace c) = n_start (rtrace c) + length (spawned c);
  i_fly : n_start (rtrace c) = n_done (rtrace c) + length (inflight c);
  i_buf : n_result (rtrace c) + length (buffer c) <= n_done (rtrace c);
  i_bufx : err c = None -> n_done (rtrace c) = n_result (rtrace c) + length (buffer c);
  i_errx : err c <> None -> n_result (rtrace c) + length (buffer c) < n_done (rtrace c);
  i_conc : nrun c <= conc;
  i_always : always (P_conc conc) (rtrace c);
  i_rem : remaining c = match budget with None => None | Some b => Some (b - charged (rtrace c))%Z end;
  i_budget : always (P_budget budget) (rtrace c);
  i_sid : nsid c = n_take (rtrace c) }.

Lemma inv_init conc budget orc : Inv conc budget (init budget orc).
Proof.
  constructor; simpl; try lia; auto; try congruence.
  - unfold P_conc; simpl; lia.
  - destruct budget; simpl; auto. f_equal; lia.
  - destruct budget; simpl; auto.
Qed.

Lemma inv_set_st conc budget s c : Inv conc budget c -> Inv conc budget (set_st s c).
Proof. intros [? ? ? ? ? ? ? ? ? ? ?]; constructor; simpl; auto. Qed.

Lemma budget_cons_other budget e l :
  (forall s t r, e <> ETake s t r) -> P_budget budget (e :: l).
Proof. intros H. unfold P_budget. destruct budget; auto. destruct e; auto. exfalso; eapply H; eauto. Qed.

(* events that change no counter *)
Lemma inv_emit_neutral conc budget e c :
  (match e with EAsk _ | ERaise _ | EHalt => True | _ => False end) ->
  Inv conc budget c -> Inv conc budget (emit e c).
Proof.
  intros He [? ? ? ? ? ? ? Ha ? Hb ?].
  assert (Hc := always_head _ _ Ha).
  destruct e; try contradiction; constructor; simpl; auto;
    try (split; [unfold P_conc in *; simpl; exact Hc | exact Ha]);
    try (split; [apply budget_cons_other; congruence | exact Hb]).
Qed.

Lemma inv_ask conc budget c : Inv conc budget c -> Inv conc budget (ask c).
Proof.
  intros H. unfold ask. destruct (oracle c) as [|a o] eqn:E.
  - apply inv_emit_neutral; simpl; auto.
  - apply inv_emit_neutral; simpl; auto.
    destruct H as [? ? ? ? ? ? ? ? ? ? ?]; constructor; simpl; auto.
Qed.

Lemma inv_take conc budget j q c :
  Inv conc budget c -> budget_left (remaining c) = true -> nrun c < conc ->
  Inv conc budget (take j q c).
Proof.
  intros [H1 H2 H3 H4 H5 H5' H6 Ha Hr Hb Hs] Hbl Hlt.
  assert (Hc := always_head _ _ Ha). unfold P_conc in Hc.
  constructor; simpl; auto; try lia.
  - rewrite app_length; simpl; lia.
  - split; [|exact Ha]. unfold P_conc; simpl. lia.
  - rewrite Hr. destruct budget; simpl; auto. f_equal; lia.
  - split; [|exact Hb]. unfold P_budget. destruct budget as [b|]; auto.
    rewrite Hr in Hbl. simpl in Hbl. apply Z.ltb_lt in Hbl. lia.
Qed.

Lemma fill_st_le : forall fuel conc c, nrun c <= conc -> conc - nrun c < fuel ->
  st (fill fuel conc c) = st c.
Proof.
  induction fuel as [|f IH]; intros conc c Hle Hf; [lia|]. simpl.
  destruct (budget_left (remaining c) && (nrun c <? conc)) eqn:E; auto.
  apply andb_prop in E. destruct E as [_ E]. apply Nat.ltb_lt in E.
  destruct (queued c) as [|j q] eqn:Eq.
  - unfold ask. destruct (oracle c) as [|a o]; simpl; rewrite ?Eq; simpl; auto.
    destruct a as [|j q]; simpl; auto.
    rewrite IH; simpl; auto; lia.
  - rewrite Eq. rewrite IH; simpl; auto; lia.
Qed.

Lemma inv_fill : forall fuel conc budget c, conc - nrun c < fuel ->
  Inv conc budget c -> Inv conc budget (fill fuel conc c).
Proof.
  induction fuel as [|f IH]; intros conc budget c Hf H; [lia|]. simpl.
  destruct (budget_left (remaining c) && (nrun c <? conc)) eqn:E; auto.
  apply andb_prop in E. destruct E as [Eb E]. apply Nat.ltb_lt in E.
  assert (Hask : Inv conc budget (match queued c with [] => ask c | _ :: _ => c end)).
  { destruct (queued c); auto using inv_ask. }
  assert (Hn : nrun (match queued c with [] => ask c | _ :: _ => c end) = nrun c /\
               remaining (match queued c with [] => ask c | _ :: _ => c end) = remaining c).
  { destruct (queued c); auto. unfold ask. destruct (oracle c); simpl; auto. }
  destruct Hn as [Hn Hr].
  set (c1 := match queued c with [] => ask c | _ :: _ => c end) in *.
  destruct (queued c1) as [|j q] eqn:Eq; auto.
  apply IH.
  - simpl. lia.
  - apply inv_take; auto; try congruence; lia.
Qed.

Lemma inv_deliver conc budget x b c :
  buffer c = x :: b -> Inv conc budget c -> Inv conc budget (deliver x b c).
Proof.
  intros Eb [H1 H2 H3 H4 H5 H5' H6 Ha Hr Hb Hs]. rewrite Eb in *. simpl in *.
  assert (Hc := always_head _ _ Ha). unfold P_conc in Hc.
  assert (0 < nrun c) by lia.
  constructor; simpl; auto; try lia.
  - intros He. specialize (H5 He). lia.
  - intros He. specialize (H5' He). lia.
  - split; [|exact Ha]. unfold P_conc; simpl. lia.
  - split; [|exact Hb]. apply budget_cons_other; congruence.
Qed.

Lemma inv_resume : forall fuel conc budget c,
  Inv conc budget c -> Inv conc budget (resume fuel conc c).
Proof.
  induction fuel as [|f IH]; intros conc budget c H; simpl.
  - destruct (buffer c) eqn:Eb.
    + destruct (err c); [apply inv_emit_neutral; simpl; auto|]; apply inv_set_st; auto.
    + apply inv_set_st; auto.
  - destruct (buffer c) as [|x b] eqn:Eb.
    + destruct (err c); [apply inv_emit_neutral; simpl; auto|]; apply inv_set_st; auto.
    + assert (H2 : Inv conc budget (fill (S conc) conc (deliver x b c))).
      { apply inv_fill; [lia|]. apply inv_deliver; auto. }
      destruct (is_oof _); auto.
      destruct (nrun _ =? 0); auto.
      apply inv_emit_neutral; simpl; auto. apply inv_set_st; auto.
Qed.

Lemma inv_boot conc budget c : Inv conc budget c -> Inv conc budget (boot conc c).
Proof.
  intros H. unfold boot.
  assert (H2 : Inv conc budget (fill (S conc) conc c)) by (apply inv_fill; [lia|auto]).
  destruct (is_oof _); auto.
  destruct (nrun _ =? 0).
  - apply inv_emit_neutral; simpl; auto. apply inv_set_st; auto.
  - apply inv_resume; auto.
Qed.

Lemma inv_start_all : forall n conc budget c, Inv conc budget c -> Inv conc budget (start_all n c).
Proof.
  induction n as [|n IH]; intros conc budget c H; simpl; auto.
  destruct (spawned c) as [|x r] eqn:Es; auto.
  apply IH. destruct H as [H1 H2 H3 H4 H5 H5' H6 Ha Hr Hb Hs]. rewrite Es in *. simpl in *.
  assert (Hc := always_head _ _ Ha). unfold P_conc in Hc.
  constructor; simpl; auto; try lia.
  - rewrite app_length; simpl; lia.
  - split; [|exact Ha]. unfold P_conc; simpl. lia.
  - split; [|exact Hb]. apply budget_cons_other; congruence.
Qed.

Lemma inv_flush conc budget c : Inv conc budget c -> Inv conc budget (flush c).
Proof. intros H. unfold flush. destruct (st c); auto using inv_start_all. Qed.

Lemma remove_nth_length {A} : forall n (l : list A) x r, remove_nth n l = Some (x, r) -> length l = S (length r).
Proof.
  induction n as [|n IH]; intros [|y l] x r H; simpl in *; try discriminate.
  - inversion H; subst; auto.
  - destruct (remove_nth n l) as [[z r']|] eqn:E; try discriminate. inversion H; subst.
    simpl. erewrite IH; eauto.
Qed.

Lemma inv_complete conc budget c ev : Inv conc budget c -> Inv conc budget (complete c ev).
Proof.
  intros H. unfold complete. destruct (remove_nth (fst ev) (inflight c)) as [[x rest]|] eqn:E; auto.
  apply remove_nth_length in E.
  destruct H as [H1 H2 H3 H4 H5 H5' H6 Ha Hr Hb Hs].
  assert (Hc := always_head _ _ Ha). unfold P_conc in Hc.
  assert (Hal : always (P_conc conc) (EDone (fst x) (snd ev) :: rtrace c)).
  { split; [|exact Ha]. unfold P_conc; simpl. lia. }
  assert (Hbl : always (P_budget budget) (EDone (fst x) (snd ev) :: rtrace c)).
  { split; [|exact Hb]. apply budget_cons_other; congruence. }
  simpl. destruct (snd ev) as [p|e]; destruct (err c) eqn:Ee; constructor; simpl; auto; try lia;
    try rewrite app_length; simpl; try lia; try discriminate; try congruence;
    try (intros _; specialize (H5 eq_refl); lia);
    try (intros Hn; specialize (H5' Hn); lia).
Qed.

Lemma inv_fold_complete conc budget : forall batch c, Inv conc budget c -> Inv conc budget (fold_left complete batch c).
Proof. induction batch as [|ev b IH]; intros c H; simpl; auto using inv_complete. Qed.

Lemma inv_step conc budget c batch : Inv conc budget c -> Inv conc budget (step conc c batch).
Proof.
  intros H. unfold step. destruct (st c); auto.
  destruct (woken _); auto using inv_fold_complete, inv_flush, inv_resume.
Qed.

Lemma inv_run conc budget orc sched : Inv conc budget (run conc budget orc sched).
Proof.
  unfold run.
  assert (H : Inv conc budget (flush (boot conc (init budget orc)))) by auto using inv_flush, inv_boot, inv_init.
  revert H. generalize (flush (boot conc (init budget orc))).
  induction sched as [|b s IH]; intros c H; simpl; auto using inv_step.
Qed.

(* ------------------------------------------------------------------------------------------------------------ *)
(* chronological reading: every prefix of the trace                                                              *)
Ltac count_app f :=
  let a := fresh "a" in let e := fresh "e" in let IH := fresh "IH" in
  intros a; induction a as [|e a IH]; intros; simpl; auto; destruct e; simpl; rewrite ?IH; auto; try lia.

Lemma n_take_app : forall a b, n_take (a ++ b) = n_take a + n_take b. Proof. count_app n_take. Qed.
Lemma n_start_app : forall a b, n_start (a ++ b) = n_start a + n_start b. Proof. count_app n_start. Qed.
Lemma n_done_app : forall a b, n_done (a ++ b) = n_done a + n_done b. Proof. count_app n_done. Qed.
Lemma n_result_app : forall a b, n_result (a ++ b) = n_result a + n_result b. Proof. count_app n_result. Qed.
Lemma charged_app : forall a b, charged (a ++ b) = (charged a + charged b)%Z. Proof. count_app charged. Qed.

Lemma n_take_rev l : n_take (rev l) = n_take l.
Proof. induction l as [|e l IH]; simpl; auto. rewrite n_take_app, IH. destruct e; simpl; lia. Qed.
Lemma n_start_rev l : n_start (rev l) = n_start l.
Proof. induction l as [|e l IH]; simpl; auto. rewrite n_start_app, IH. destruct e; simpl; lia. Qed.
Lemma n_done_rev l : n_done (rev l) = n_done l.
Proof. induction l as [|e l IH]; simpl; auto. rewrite n_done_app, IH. destruct e; simpl; lia. Qed.
Lemma n_result_rev l : n_result (rev l) = n_result l.
Proof. induction l as [|e l IH]; simpl; auto. rewrite n_result_app, IH. destruct e; simpl; lia. Qed.
Lemma charged_rev l : charged (rev l) = charged l.
Proof. induction l as [|e l IH]; simpl; auto. rewrite charged_app, IH. destruct e; simpl; lia. Qed.

Lemma always_prefix P rtr p s : always P rtr -> rev rtr = p ++ s -> P (rev p).
Proof.
  intros H E. apply (always_suffix P rtr (rev s) (rev p)); auto.
  rewrite <- rev_app_distr, <- E, rev_involutive. reflexivity.
Qed.

(* D1: at every point of every run, the sampler calls in flight and the loop's running jobs are <= concurrency *)
Theorem collector_concurrency : forall conc budget orc sched p s,
  trace (run conc budget orc sched) = p ++ s ->
  n_start p <= n_done p + conc /\ n_take p <= n_result p + conc /\ n_result p <= n_done p <= n_start p.
Proof.
  intros conc budget orc sched p s E.
  pose proof (i_always _ _ _ (inv_run conc budget orc sched)) as Ha.
  apply (always_prefix _ _ p s) in Ha; auto.
  unfold P_conc in Ha. rewrite n_take_rev, n_start_rev, n_done_rev, n_result_rev in Ha. lia.
Qed.

(* D2: whenever a job is started, the samples requested by the jobs started before it are below the budget *)
Theorem collector_budget : forall conc b orc sched p sid tg r s,
  trace (run conc (Some b) orc sched) = p ++ ETake sid tg r :: s -> (charged p < b)%Z.
Proof.
  intros conc b orc sched p sid tg r s E.
  pose proof (i_budget _ _ _ (inv_run conc (Some b) orc sched)) as Ha.
  apply (always_prefix _ _ (p ++ [ETake sid tg r]) s) in Ha.
  - rewrite rev_app_distr in Ha. simpl in Ha. now rewrite charged_rev in Ha.
  - unfold trace in E. rewrite E, <- app_assoc. reflexivity.
Qed.
