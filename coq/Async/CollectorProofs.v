(* C20 — proofs about the collector model (Async/Collector.v): for EVERY concurrency, budget, next_job oracle and
   completion schedule.  Everything is stated on the trace. *)
From Coq Require Import ZArith List Bool Arith Lia Permutation.
From VF Require Import Async.Collector.
Import ListNotations.

(* ------------------------------------------------------------------------------------------------------------ *)
(* "at every point in time": a predicate holds of every suffix of the newest-first trace                         *)
Fixpoint always (P : list tev -> Prop) (rtr : list tev) : Prop :=
  match rtr with [] => P [] | e :: r => P (e :: r) /\ always P r end.

Lemma always_head P l : always P l -> P l.
Proof. destruct l; simpl; tauto. Qed.

Lemma always_suffix P : forall l a b, l = a ++ b -> always P l -> P b.
Proof.
  intros l a. revert l. induction a as [|x a IH]; intros l b -> H; simpl in *.
  - now apply always_head.
  - destruct H as [_ H]. eapply IH; eauto.
Qed.

Definition P_conc (conc : nat) (l : list tev) : Prop :=
  n_result l <= n_done l /\ n_done l <= n_start l /\ n_start l <= n_take l /\ n_take l <= n_result l + conc.
Definition P_budget (budget : option Z) (l : list tev) : Prop :=
  match budget, l with Some b, ETake _ _ _ :: l' => (charged l' < b)%Z | _, _ => True end.

Record Inv (conc : nat) (budget : option Z) (c : col) : Prop := mkInv {
  i_run : n_take (rtrace c) = n_result (rtrace c) + nrun c;
  i_spawn : n_take (rtrace c) = n_start (rtrace c) + length (spawned c);
  i_fly : n_start (rtrace c) = n_done (rtrace c) + length (inflight c);
  i_buf : n_result (rtrace c) + length (buffer c) <= n_done (rtrace c);
  i_bufx : err c = None -> n_done (rtrace c) = n_result (rtrace c) + length (buffer c);
  i_errx : err c <> None -> n_result (rtrace c) + length (buffer c) < n_done (rtrace c);
  i_conc : nrun c <= conc;
  i_always : always (P_conc conc) (rtrace c);
  i_rem : remaining c = match budget with None => None | Some b => Some (b - charged (rtrace c))%Z end;
  i_budget : always (P_budget budget) (rtrace c);
  i_sid : nsid c = n_take (rtrace c) }.

Lemma inv_init conc budget orc : Inv conc budget (init budget orc).
Proof.
  constructor; simpl; try lia; auto; try congruence.
  - unfold P_conc; simpl; lia.
  - destruct budget; simpl; auto. f_equal; lia.
  - destruct budget; simpl; auto.
Qed.

Lemma inv_set_st conc budget s c : Inv conc budget c -> Inv conc budget (set_st s c).
Proof. intros [? ? ? ? ? ? ? ? ? ? ?]; constructor; simpl; auto. Qed.

Lemma budget_cons_other budget e l :
  (forall s t r, e <> ETake s t r) -> P_budget budget (e :: l).
Proof. intros H. unfold P_budget. destruct budget; auto. destruct e; auto. exfalso; eapply H; eauto. Qed.

(* events that change no counter *)
Lemma inv_emit_neutral conc budget e c :
  (match e with EAsk _ | ERaise _ | EHalt => True | _ => False end) ->
  Inv conc budget c -> Inv conc budget (emit e c).
Proof.
  intros He [? ? ? ? ? ? ? Ha ? Hb ?].
  assert (Hc := always_head _ _ Ha).
  destruct e; try contradiction; constructor; simpl; auto;
    try (split; [unfold P_conc in *; simpl; exact Hc | exact Ha]);
    try (split; [apply budget_cons_other; congruence | exact Hb]).
Qed.

Lemma inv_ask conc budget c : Inv conc budget c -> Inv conc budget (ask c).
Proof.
  intros H. unfold ask. destruct (oracle c) as [|a o] eqn:E.
  - apply inv_emit_neutral; simpl; auto.
  - apply inv_emit_neutral; simpl; auto.
    destruct H as [? ? ? ? ? ? ? ? ? ? ?]; constructor; simpl; auto.
Qed.

Lemma inv_take conc budget j q c :
  Inv conc budget c -> budget_left (remaining c) = true -> nrun c < conc ->
  Inv conc budget (take j q c).
Proof.
  intros [H1 H2 H3 H4 H5 H5' H6 Ha Hr Hb Hs] Hbl Hlt.
  assert (Hc := always_head _ _ Ha). unfold P_conc in Hc.
  constructor; simpl; auto; try lia.
  - rewrite app_length; simpl; lia.
  - split; [|exact Ha]. unfold P_conc; simpl. lia.
  - rewrite Hr. destruct budget; simpl; auto. f_equal; lia.
  - split; [|exact Hb]. unfold P_budget. destruct budget as [b|]; auto.
    rewrite Hr in Hbl. simpl in Hbl. apply Z.ltb_lt in Hbl. lia.
Qed.

Lemma fill_st_le : forall fuel conc c, nrun c <= conc -> conc - nrun c < fuel ->
  st (fill fuel conc c) = st c.
Proof.
  induction fuel as [|f IH]; intros conc c Hle Hf; [lia|]. simpl.
  destruct (budget_left (remaining c) && (nrun c <? conc)) eqn:E; auto.
  apply andb_prop in E. destruct E as [_ E]. apply Nat.ltb_lt in E.
  destruct (queued c) as [|j q] eqn:Eq.
  - unfold ask. destruct (oracle c) as [|a o]; simpl; rewrite ?Eq; simpl; auto.
    destruct a as [|j q]; simpl; auto.
    rewrite IH; simpl; auto; lia.
  - rewrite Eq. rewrite IH; simpl; auto; lia.
Qed.

Lemma inv_fill : forall fuel conc budget c, conc - nrun c < fuel ->
  Inv conc budget c -> Inv conc budget (fill fuel conc c).
Proof.
  induction fuel as [|f IH]; intros conc budget c Hf H; [lia|]. simpl.
  destruct (budget_left (remaining c) && (nrun c <? conc)) eqn:E; auto.
  apply andb_prop in E. destruct E as [Eb E]. apply Nat.ltb_lt in E.
  assert (Hask : Inv conc budget (match queued c with [] => ask c | _ :: _ => c end)).
  { destruct (queued c); auto using inv_ask. }
  assert (Hn : nrun (match queued c with [] => ask c | _ :: _ => c end) = nrun c /\
               remaining (match queued c with [] => ask c | _ :: _ => c end) = remaining c).
  { destruct (queued c); auto. unfold ask. destruct (oracle c); simpl; auto. }
  destruct Hn as [Hn Hr].
  set (c1 := match queued c with [] => ask c | _ :: _ => c end) in *.
  destruct (queued c1) as [|j q] eqn:Eq; auto.
  apply IH.
  - simpl. lia.
  - apply inv_take; auto; try congruence; lia.
Qed.

Lemma inv_deliver conc budget x b c :
  buffer c = x :: b -> Inv conc budget c -> Inv conc budget (deliver x b c).
Proof.
  intros Eb [H1 H2 H3 H4 H5 H5' H6 Ha Hr Hb Hs]. rewrite Eb in *. simpl in *.
  assert (Hc := always_head _ _ Ha). unfold P_conc in Hc.
  assert (0 < nrun c) by lia.
  constructor; simpl; auto; try lia.
  - intros He. specialize (H5 He). lia.
  - intros He. specialize (H5' He). lia.
  - split; [|exact Ha]. unfold P_conc; simpl. lia.
  - split; [|exact Hb]. apply budget_cons_other; congruence.
Qed.

Lemma inv_resume : forall fuel conc budget c,
  Inv conc budget c -> Inv conc budget (resume fuel conc c).
Proof.
  induction fuel as [|f IH]; intros conc budget c H; simpl.
  - destruct (buffer c) eqn:Eb.
    + destruct (err c); [apply inv_emit_neutral; simpl; auto|]; apply inv_set_st; auto.
    + apply inv_set_st; auto.
  - destruct (buffer c) as [|x b] eqn:Eb.
    + destruct (err c); [apply inv_emit_neutral; simpl; auto|]; apply inv_set_st; auto.
    + assert (H2 : Inv conc budget (fill (S conc) conc (deliver x b c))).
      { apply inv_fill; [lia|]. apply inv_deliver; auto. }
      destruct (is_oof _); auto.
      destruct (nrun _ =? 0); auto.
      apply inv_emit_neutral; simpl; auto. apply inv_set_st; auto.
Qed.

Lemma inv_boot conc budget c : Inv conc budget c -> Inv conc budget (boot conc c).
Proof.
  intros H. unfold boot.
  assert (H2 : Inv conc budget (fill (S conc) conc c)) by (apply inv_fill; [lia|auto]).
  destruct (is_oof _); auto.
  destruct (nrun _ =? 0).
  - apply inv_emit_neutral; simpl; auto. apply inv_set_st; auto.
  - apply inv_resume; auto.
Qed.

Lemma inv_start_all : forall n conc budget c, Inv conc budget c -> Inv conc budget (start_all n c).
Proof.
  induction n as [|n IH]; intros conc budget c H; simpl; auto.
  destruct (spawned c) as [|x r] eqn:Es; auto.
  apply IH. destruct H as [H1 H2 H3 H4 H5 H5' H6 Ha Hr Hb Hs]. rewrite Es in *. simpl in *.
  assert (Hc := always_head _ _ Ha). unfold P_conc in Hc.
  constructor; simpl; auto; try lia.
  - rewrite app_length; simpl; lia.
  - split; [|exact Ha]. unfold P_conc; simpl. lia.
  - split; [|exact Hb]. apply budget_cons_other; congruence.
Qed.

Lemma inv_flush conc budget c : Inv conc budget c -> Inv conc budget (flush c).
Proof. intros H. unfold flush. destruct (st c); auto using inv_start_all. Qed.

Lemma remove_nth_length {A} : forall n (l : list A) x r, remove_nth n l = Some (x, r) -> length l = S (length r).
Proof.
  induction n as [|n IH]; intros [|y l] x r H; simpl in *; try discriminate.
  - inversion H; subst; auto.
  - destruct (remove_nth n l) as [[z r']|] eqn:E; try discriminate. inversion H; subst.
    simpl. erewrite IH; eauto.
Qed.

Lemma inv_complete conc budget c ev : Inv conc budget c -> Inv conc budget (complete c ev).
Proof.
  intros H. unfold complete. destruct (remove_nth (fst ev) (inflight c)) as [[x rest]|] eqn:E; auto.
  apply remove_nth_length in E.
  destruct H as [H1 H2 H3 H4 H5 H5' H6 Ha Hr Hb Hs].
  assert (Hc := always_head _ _ Ha). unfold P_conc in Hc.
  assert (Hal : always (P_conc conc) (EDone (fst x) (snd ev) :: rtrace c)).
  { split; [|exact Ha]. unfold P_conc; simpl. lia. }
  assert (Hbl : always (P_budget budget) (EDone (fst x) (snd ev) :: rtrace c)).
  { split; [|exact Hb]. apply budget_cons_other; congruence. }
  simpl. destruct (snd ev) as [p|e]; destruct (err c) eqn:Ee; constructor; simpl; auto; try lia;
    try rewrite app_length; simpl; try lia; try discriminate; try congruence;
    try (intros _; specialize (H5 eq_refl); lia);
    try (intros Hn; specialize (H5' Hn); lia).
Qed.

Lemma inv_fold_complete conc budget : forall batch c, Inv conc budget c -> Inv conc budget (fold_left complete batch c).
Proof. induction batch as [|ev b IH]; intros c H; simpl; auto using inv_complete. Qed.

Lemma inv_step conc budget c batch : Inv conc budget c -> Inv conc budget (step conc c batch).
Proof.
  intros H. unfold step. destruct (st c); auto.
  destruct (woken _); auto using inv_fold_complete, inv_flush, inv_resume.
Qed.

Lemma inv_run conc budget orc sched : Inv conc budget (run conc budget orc sched).
Proof.
  unfold run.
  assert (H : Inv conc budget (flush (boot conc (init budget orc)))) by auto using inv_flush, inv_boot, inv_init.
  revert H. generalize (flush (boot conc (init budget orc))).
  induction sched as [|b s IH]; intros c H; simpl; auto using inv_step.
Qed.

(* ------------------------------------------------------------------------------------------------------------ *)
(* chronological reading: every prefix of the trace                                                              *)
Ltac count_app f :=
  let a := fresh "a" in let e := fresh "e" in let IH := fresh "IH" in
  intros a; induction a as [|e a IH]; intros; simpl; auto; destruct e; simpl; rewrite ?IH; auto; try lia.

Lemma n_take_app : forall a b, n_take (a ++ b) = n_take a + n_take b. Proof. count_app n_take. Qed.
Lemma n_start_app : forall a b, n_start (a ++ b) = n_start a + n_start b. Proof. count_app n_start. Qed.
Lemma n_done_app : forall a b, n_done (a ++ b) = n_done a + n_done b. Proof. count_app n_done. Qed.
Lemma n_result_app : forall a b, n_result (a ++ b) = n_result a + n_result b. Proof. count_app n_result. Qed.
Lemma charged_app : forall a b, charged (a ++ b) = (charged a + charged b)%Z. Proof. count_app charged. Qed.

Lemma n_take_rev l : n_take (rev l) = n_take l.
Proof. induction l as [|e l IH]; simpl; auto. rewrite n_take_app, IH. destruct e; simpl; lia. Qed.
Lemma n_start_rev l : n_start (rev l) = n_start l.
Proof. induction l as [|e l IH]; simpl; auto. rewrite n_start_app, IH. destruct e; simpl; lia. Qed.
Lemma n_done_rev l : n_done (rev l) = n_done l.
Proof. induction l as [|e l IH]; simpl; auto. rewrite n_done_app, IH. destruct e; simpl; lia. Qed.
Lemma n_result_rev l : n_result (rev l) = n_result l.
Proof. induction l as [|e l IH]; simpl; auto. rewrite n_result_app, IH. destruct e; simpl; lia. Qed.
Lemma charged_rev l : charged (rev l) = charged l.
Proof. induction l as [|e l IH]; simpl; auto. rewrite charged_app, IH. destruct e; simpl; lia. Qed.

Lemma always_prefix P rtr p s : always P rtr -> rev rtr = p ++ s -> P (rev p).
Proof.
  intros H E. apply (always_suffix P rtr (rev s) (rev p)); auto.
  rewrite <- rev_app_distr, <- E, rev_involutive. reflexivity.
Qed.

(* D1: at every point of every run, the sampler calls in flight and the loop's running jobs are <= concurrency *)
Theorem collector_concurrency : forall conc budget orc sched p s,
  trace (run conc budget orc sched) = p ++ s ->
  n_start p <= n_done p + conc /\ n_take p <= n_result p + conc /\ n_result p <= n_done p <= n_start p.
Proof.
  intros conc budget orc sched p s E.
  pose proof (i_always _ _ _ (inv_run conc budget orc sched)) as Ha.
  apply (always_prefix _ _ p s) in Ha; auto.
  unfold P_conc in Ha. rewrite n_take_rev, n_start_rev, n_done_rev, n_result_rev in Ha. lia.
Qed.

(* D2: whenever a job is started, the samples requested by the jobs started before it are below the budget *)
Theorem collector_budget : forall conc b orc sched p sid tg r s,
  trace (run conc (Some b) orc sched) = p ++ ETake sid tg r :: s -> (charged p < b)%Z.
Proof.
  intros conc b orc sched p sid tg r s E.
  pose proof (i_budget _ _ _ (inv_run conc (Some b) orc sched)) as Ha.
  apply (always_prefix _ _ (p ++ [ETake sid tg r]) s) in Ha.
  - rewrite rev_app_distr in Ha. simpl in Ha. now rewrite charged_rev in Ha.
  - unfold trace in E. rewrite E, <- app_assoc. reflexivity.
Qed.

(* ------------------------------------------------------------------------------------------------------------ *)
(* who gets which result                                                                                         *)
Definition rp (x : nat * nat * Z) : nat * Z := (fst (fst x), snd x).
Definition bp (x : rjob * Z) : nat * Z := (fst (fst x), snd x).
Definition ids (c : col) : list nat := map fst (spawned c) ++ map fst (inflight c) ++ map fst (dones (rtrace c)).

Record Inv2 (c : col) : Prop := mkInv2 {
  j_fifo : map rp (rev (results (rtrace c))) ++ map bp (buffer c) = oks_pre (rev (dones (rtrace c)));
  j_err : err c = None <-> existsb is_err (dones (rtrace c)) = false;
  j_errin : forall e, err c = Some e -> exists s, In (s, Err e) (dones (rtrace c));
  j_nodup : NoDup (ids c);
  j_lt : forall s, In s (ids c) -> s < nsid c;
  j_job : forall s j, In (s, j) (spawned c ++ inflight c ++ map fst (buffer c)) -> In (s, tag j) (takes (rtrace c));
  j_res : forall s tg p, In (s, tg, p) (results (rtrace c)) -> In (s, tg) (takes (rtrace c));
  j_seq : map fst (rev (takes (rtrace c))) = seq 0 (nsid c) }.

Lemma inv2_ext c c' :
  spawned c' = spawned c -> inflight c' = inflight c -> buffer c' = buffer c -> err c' = err c -> nsid c' = nsid c ->
  results (rtrace c') = results (rtrace c) -> dones (rtrace c') = dones (rtrace c) ->
  takes (rtrace c') = takes (rtrace c) -> Inv2 c -> Inv2 c'.
Proof.
  intros E1 E2 E3 E4 E5 E6 E7 E8 [H1 H2 H3 H4 H5 H6 H7 H8].
  constructor; unfold ids in *; rewrite ?E1, ?E2, ?E3, ?E4, ?E5, ?E6, ?E7, ?E8; auto.
Qed.

Lemma inv2_init budget orc : Inv2 (init budget orc).
Proof.
  constructor; unfold ids; simpl; auto; try tauto; try discriminate; try constructor.
Qed.

Lemma inv2_set_st s c : Inv2 c -> Inv2 (set_st s c).
Proof. apply inv2_ext; reflexivity. Qed.

Lemma inv2_emit_neutral e c :
  (match e with EAsk _ | ERaise _ | EHalt => True | _ => False end) -> Inv2 c -> Inv2 (emit e c).
Proof. intros He. destruct e; try contradiction; apply inv2_ext; reflexivity. Qed.

Lemma inv2_ask c : Inv2 c -> Inv2 (ask c).
Proof.
  intros H. unfold ask. destruct (oracle c); apply inv2_emit_neutral; simpl; auto.
  revert H. apply inv2_ext; reflexivity.
Qed.

Lemma in_app3 {A} (x : A) a b c : In x (a ++ b ++ c) <-> In x a \/ In x b \/ In x c.
Proof. rewrite !in_app_iff. tauto. Qed.

Lemma inv2_take j q c : Inv2 c -> Inv2 (take j q c).
Proof.
  intros [H1 H2 H3 H4 H5 H6 H7 H8].
  assert (Hp : Permutation (ids (take j q c)) (nsid c :: ids c)).
  { unfold ids; simpl. rewrite map_app; simpl. rewrite <- app_assoc. simpl.
    apply Permutation_sym, Permutation_middle. }
  constructor; simpl; auto.
  - eapply Permutation_NoDup; [apply Permutation_sym, Hp|]. constructor; auto.
    intros Hin. apply H5 in Hin. lia.
  - intros s Hin. eapply Permutation_in in Hin; [|exact Hp]. destruct Hin as [<-|Hin]; [lia|].
    apply H5 in Hin. lia.
  - intros s j0 Hin. rewrite <- app_assoc in Hin. apply in_app_iff in Hin. destruct Hin as [Hin|Hin].
    + right. apply H6. apply in_app_iff; auto.
    + simpl in Hin. destruct Hin as [Hin|Hin].
      * inversion Hin; subst. left; auto.
      * right. apply H6. apply in_app_iff; auto.
  - intros s tg p Hin. right. eauto.
  - rewrite map_app, H8. change (0 :: seq 1 (nsid c)) with (seq 0 (S (nsid c))). rewrite seq_S. reflexivity.
Qed.

Lemma inv2_fill : forall fuel conc c, Inv2 c -> Inv2 (fill fuel conc c).
Proof.
  induction fuel as [|f IH]; intros conc c H; simpl; [apply inv2_set_st; auto|].
  destruct (budget_left (remaining c) && (nrun c <? conc)); auto.
  assert (Hask : Inv2 (match queued c with [] => ask c | _ :: _ => c end)).
  { destruct (queued c); auto using inv2_ask. }
  set (c1 := match queued c with [] => ask c | _ :: _ => c end) in *.
  destruct (queued c1) as [|j q]; auto using inv2_take.
Qed.

Lemma inv2_deliver x b c : buffer c = x :: b -> Inv2 c -> Inv2 (deliver x b c).
Proof.
  intros Eb [H1 H2 H3 H4 H5 H6 H7 H8]. rewrite Eb in *.
  constructor; simpl; auto.
  - rewrite <- H1. simpl. rewrite map_app, <- app_assoc. reflexivity.
  - intros s j Hin. apply H6. apply in_app3 in Hin. apply in_app3. simpl. tauto.
  - intros s tg p [Hin|Hin]; eauto.
    inversion Hin; subst. apply H6. apply in_app3. right; right. simpl. left.
    destruct x as [[s j] p]; reflexivity.
Qed.

Lemma inv2_resume : forall fuel conc c, Inv2 c -> Inv2 (resume fuel conc c).
Proof.
  induction fuel as [|f IH]; intros conc c H; simpl.
  - destruct (buffer c); [|apply inv2_set_st; auto].
    destruct (err c); [apply inv2_emit_neutral; simpl; auto|]; apply inv2_set_st; auto.
  - destruct (buffer c) as [|x b] eqn:Eb.
    + destruct (err c); [apply inv2_emit_neutral; simpl; auto|]; apply inv2_set_st; auto.
    + assert (H2 : Inv2 (fill (S conc) conc (deliver x b c))) by (apply inv2_fill, inv2_deliver; auto).
      destruct (is_oof _); auto. destruct (nrun _ =? 0); auto.
      apply inv2_emit_neutral; simpl; auto. apply inv2_set_st; auto.
Qed.

Lemma inv2_boot conc c : Inv2 c -> Inv2 (boot conc c).
Proof.
  intros H. unfold boot. assert (H2 : Inv2 (fill (S conc) conc c)) by (apply inv2_fill; auto).
  destruct (is_oof _); auto. destruct (nrun _ =? 0); auto using inv2_resume.
  apply inv2_emit_neutral; simpl; auto. apply inv2_set_st; auto.
Qed.

Lemma perm_move {A} (x : A) a b c : Permutation (a ++ (b ++ [x]) ++ c) (x :: a ++ b ++ c).
Proof.
  rewrite <- (app_assoc b). simpl. rewrite (app_assoc a b (x :: c)).
  apply Permutation_sym. rewrite (app_assoc a b c). apply Permutation_middle.
Qed.

Lemma inv2_start_all : forall n c, Inv2 c -> Inv2 (start_all n c).
Proof.
  induction n as [|n IH]; intros c H; simpl; auto.
  destruct (spawned c) as [|x r] eqn:Es; auto.
  apply IH. destruct H as [H1 H2 H3 H4 H5 H6 H7 H8].
  assert (Hp : Permutation (map fst r ++ map fst (inflight c ++ [x]) ++ map fst (dones (rtrace c))) (ids c)).
  { unfold ids. rewrite Es. simpl. rewrite map_app. simpl. apply perm_move. }
  constructor; unfold ids; simpl; auto.
  - eapply Permutation_NoDup; [apply Permutation_sym, Hp|]; auto.
  - intros s Hin. apply H5. eapply Permutation_in; eauto.
  - intros s j Hin. apply H6. rewrite Es. apply in_app3 in Hin. apply in_app3.
    rewrite in_app_iff in Hin. simpl in *. tauto.
Qed.

Lemma inv2_flush c : Inv2 c -> Inv2 (flush c).
Proof. intros H. unfold flush. destruct (st c); auto using inv2_start_all. Qed.

Lemma remove_nth_perm {A} : forall n (l : list A) x r, remove_nth n l = Some (x, r) -> Permutation l (x :: r).
Proof.
  induction n as [|n IH]; intros [|y l] x r H; simpl in *; try discriminate.
  - inversion H; subst; auto.
  - destruct (remove_nth n l) as [[z r']|] eqn:E; try discriminate. inversion H; subst.
    rewrite (IH _ _ _ E). apply perm_swap.
Qed.

Lemma existsb_rev {A} (f : A -> bool) l : existsb f (rev l) = existsb f l.
Proof.
  induction l as [|x l IH]; simpl; auto. rewrite existsb_app, IH. simpl. rewrite orb_false_r. apply orb_comm.
Qed.

Lemma oks_pre_app l d :
  oks_pre (l ++ [d]) =
  if existsb is_err l then oks_pre l
  else oks_pre l ++ match snd d with Ok p => [(fst d, p)] | Err _ => [] end.
Proof.
  induction l as [|[s o] l IH]; simpl.
  - destruct d as [s [p|e]]; reflexivity.
  - destruct o as [p|e]; unfold is_err at 1; simpl; auto. rewrite IH.
    destruct (existsb is_err l); reflexivity.
Qed.

Lemma inv2_complete c ev : Inv2 c -> Inv2 (complete c ev).
Proof.
  intros H. unfold complete. destruct (remove_nth (fst ev) (inflight c)) as [[x rest]|] eqn:E; auto.
  apply remove_nth_perm in E.
  destruct H as [H1 H2 H3 H4 H5 H6 H7 H8].
  assert (Hp : Permutation (map fst (spawned c) ++ map fst rest ++ fst x :: map fst (dones (rtrace c))) (ids c)).
  { unfold ids. apply Permutation_app_head. rewrite (Permutation_map fst E). simpl.
    apply Permutation_sym, Permutation_middle. }
  assert (Hnd : NoDup (map fst (spawned c) ++ map fst rest ++ fst x :: map fst (dones (rtrace c)))).
  { eapply Permutation_NoDup; [apply Permutation_sym, Hp|]; auto. }
  assert (Hlt : forall s, In s (map fst (spawned c) ++ map fst rest ++ fst x :: map fst (dones (rtrace c))) -> s < nsid c).
  { intros s Hin. apply H5. eapply Permutation_in; eauto. }
  assert (Hin_x : forall y, In y rest -> In y (inflight c)).
  { intros y Hy. eapply Permutation_in; [apply Permutation_sym, E|]. right; auto. }
  assert (Hx : In x (inflight c)).
  { eapply Permutation_in; [apply Permutation_sym, E|]. left; auto. }
  assert (Hex : existsb is_err (dones (rtrace c)) = match err c with None => false | Some _ => true end).
  { destruct (err c); [|apply H2; auto].
    destruct (existsb is_err (dones (rtrace c))) eqn:Ex; auto. destruct H2 as [_ H2]. specialize (H2 eq_refl). discriminate. }
  assert (Hjob : forall s j, In (s, j) (spawned c ++ rest ++ map fst (buffer c)) -> In (s, tag j) (takes (rtrace c))).
  { intros s j Hin. apply H6. apply in_app3 in Hin. apply in_app3. intuition. }
  simpl. destruct (snd ev) as [p|e] eqn:Eo; destruct (err c) as [e0|] eqn:Ee;
    constructor; unfold ids; simpl; auto; try discriminate.
  all: try solve [rewrite oks_pre_app, existsb_rev, Hex; exact H1].
  all: try solve [rewrite oks_pre_app, existsb_rev, Hex; simpl; rewrite map_app, app_assoc, H1; reflexivity].
  all: try solve [rewrite oks_pre_app, existsb_rev, Hex; simpl; rewrite app_nil_r; exact H1].
  all: try solve [split; discriminate].
  all: try solve [split; [discriminate | unfold is_err at 1; simpl; discriminate]].
  all: try solve [intros e1 He1; destruct (H3 _ He1) as [s Hs]; exists s; right; exact Hs].
  all: try solve [intros e1 He1; inversion He1; subst; exists (fst x); left; reflexivity].
  (* the job whose result enters the buffer *)
  intros s j Hin. apply in_app3 in Hin. rewrite map_app, in_app_iff in Hin. simpl in Hin.
  destruct Hin as [Hin|[Hin|[Hin|[Hin|[]]]]]; try (apply Hjob; apply in_app3; tauto).
  subst. apply H6. apply in_app3. right; left. exact Hx.
Qed.

Lemma inv2_fold_complete : forall batch c, Inv2 c -> Inv2 (fold_left complete batch c).
Proof. induction batch as [|ev b IH]; intros c H; simpl; auto using inv2_complete. Qed.

Lemma inv2_step conc c batch : Inv2 c -> Inv2 (step conc c batch).
Proof.
  intros H. unfold step. destruct (st c); auto.
  destruct (woken _); auto using inv2_fold_complete, inv2_flush, inv2_resume.
Qed.

Lemma inv2_run conc budget orc sched : Inv2 (run conc budget orc sched).
Proof.
  unfold run.
  assert (H : Inv2 (flush (boot conc (init budget orc)))) by auto using inv2_flush, inv2_boot, inv2_init.
  revert H. generalize (flush (boot conc (init budget orc))).
  induction sched as [|b s IH]; intros c H; simpl; auto using inv2_step.
Qed.

(* ------------------------------------------------------------------------------------------------------------ *)
(* quiescent states: what holds whenever the loop is suspended or finished                                       *)
Definition Sat (conc : nat) (c : col) : Prop :=
  budget_left (remaining c) = true -> nrun c < conc -> queued c = [] /\ starved (rtrace c) = true.

Record R (conc : nat) (c : col) : Prop := mkR {
  r_buf : buffer c = [];
  r_wait : st c = Waiting -> err c = None /\ 0 < nrun c;
  r_halt : st c = Halted -> nrun c = 0;
  r_raise : forall e, st c = Raised e -> err c = Some e;
  r_oof : st c <> OutOfFuel;
  r_sat : st c = Waiting \/ st c = Halted -> Sat conc c }.

Definition Q (conc : nat) (c : col) : Prop :=
  R conc c /\ (st c = Waiting \/ st c = Halted -> spawned c = []).

Lemma fill_frame : forall fuel conc c, buffer (fill fuel conc c) = buffer c /\ err (fill fuel conc c) = err c.
Proof.
  induction fuel as [|f IH]; intros conc c; simpl; auto.
  destruct (budget_left (remaining c) && (nrun c <? conc)); auto.
  assert (Ha : buffer (match queued c with [] => ask c | _ :: _ => c end) = buffer c /\
               err (match queued c with [] => ask c | _ :: _ => c end) = err c).
  { destruct (queued c); auto. unfold ask. destruct (oracle c); simpl; auto. }
  set (c1 := match queued c with [] => ask c | _ :: _ => c end) in *.
  destruct (queued c1) as [|j q]; auto.
  destruct (IH conc (take j q c1)) as [E1 E2]. rewrite E1, E2. simpl. exact Ha.
Qed.

Lemma fill_sat : forall fuel conc c, nrun c <= conc -> conc - nrun c < fuel -> Sat conc (fill fuel conc c).
Proof.
  induction fuel as [|f IH]; intros conc c Hle Hf; [lia|]. simpl.
  destruct (budget_left (remaining c) && (nrun c <? conc)) eqn:E.
  - apply andb_prop in E. destruct E as [Eb E]. apply Nat.ltb_lt in E.
    destruct (queued c) as [|j q] eqn:Eq.
    + unfold ask. destruct (oracle c) as [|a o].
      * simpl. rewrite Eq. intros _ _. simpl. auto.
      * simpl. rewrite Eq. simpl. destruct a as [|j q].
        -- intros _ _. simpl. auto.
        -- apply IH; simpl; lia.
    + rewrite Eq. apply IH; simpl; lia.
  - intros Hb Hn. apply Nat.ltb_lt in Hn. rewrite Hb, Hn in E. discriminate.
Qed.

Lemma idle_empty conc budget c : Inv conc budget c -> nrun c = 0 ->
  buffer c = [] /\ inflight c = [] /\ spawned c = [].
Proof.
  intros [H1 H2 H3 H4 _ _ _ _ _ _ _] Hn.
  repeat split; apply length_zero_iff_nil; lia.
Qed.

Lemma resume_cons f conc c x b : buffer c = x :: b ->
  resume (S f) conc c =
  let c2 := fill (S conc) conc (deliver x b c) in
  if is_oof (st c2) then c2 else if nrun c2 =? 0 then emit EHalt (set_st Halted c2) else resume f conc c2.
Proof. intros E. unfold resume at 1. rewrite E. reflexivity. Qed.

Lemma resume_nil f conc c : buffer c = [] ->
  resume f conc c = match err c with Some e => emit (ERaise e) (set_st (Raised e) c) | None => set_st Waiting c end.
Proof. intros E. destruct f; simpl; rewrite E; reflexivity. Qed.

Lemma resume_post : forall fuel conc budget c,
  Inv conc budget c -> length (buffer c) <= fuel -> st c <> OutOfFuel -> Sat conc c -> 0 < nrun c ->
  R conc (resume fuel conc c).
Proof.
  induction fuel as [|f IH]; intros conc budget c HI Hlen Hoof Hsat Hpos.
  - destruct (buffer c) as [|x b] eqn:Eb; [|simpl in Hlen; lia].
    rewrite resume_nil; auto.
    destruct (err c) as [e|] eqn:Ee; constructor; simpl; auto; try discriminate; try congruence.
    all: try (intros [H|H]; discriminate).
  - destruct (buffer c) as [|x b] eqn:Eb.
    + rewrite resume_nil; auto.
      destruct (err c) as [e|] eqn:Ee; constructor; simpl; auto; try discriminate; try congruence.
      all: try (intros [H|H]; discriminate).
    + rewrite (resume_cons f conc c x b Eb). cbv zeta.
      pose proof (inv_deliver conc budget x b c Eb HI) as HD.
      pose proof (i_conc _ _ _ HD) as Hc.
      assert (Hst : st (fill (S conc) conc (deliver x b c)) = st c).
      { rewrite fill_st_le; auto; lia. }
      assert (HI2 : Inv conc budget (fill (S conc) conc (deliver x b c))) by (apply inv_fill; [lia|auto]).
      assert (Hs2 : Sat conc (fill (S conc) conc (deliver x b c))) by (apply fill_sat; [auto|lia]).
      destruct (fill_frame (S conc) conc (deliver x b c)) as [Fb Fe].
      set (c2 := fill (S conc) conc (deliver x b c)) in *.
      assert (Hno : is_oof (st c2) = false) by (rewrite Hst; destruct (st c); auto; congruence).
      rewrite Hno.
      destruct (nrun c2 =? 0) eqn:En.
      * apply Nat.eqb_eq in En.
        constructor; simpl; auto; try discriminate.
        all: try (apply (idle_empty conc budget c2); auto).
        all: try (intros _; exact Hs2).
      * apply Nat.eqb_neq in En.
        apply (IH conc budget c2); auto.
        -- rewrite Fb. simpl in *. lia.
        -- rewrite Hst; auto.
        -- lia.
Qed.

Lemma boot_post conc budget orc : R conc (boot conc (init budget orc)).
Proof.
  unfold boot.
  pose proof (inv_init conc budget orc) as HI.
  assert (Hst : st (fill (S conc) conc (init budget orc)) = Waiting).
  { rewrite fill_st_le; simpl; auto; lia. }
  assert (HI2 : Inv conc budget (fill (S conc) conc (init budget orc))) by (apply inv_fill; [lia|auto]).
  assert (Hs2 : Sat conc (fill (S conc) conc (init budget orc))) by (apply fill_sat; simpl; lia).
  destruct (fill_frame (S conc) conc (init budget orc)) as [Fb Fe].
  set (c2 := fill (S conc) conc (init budget orc)) in *.
  rewrite Hst. simpl.
  destruct (nrun c2 =? 0) eqn:En.
  - apply Nat.eqb_eq in En. constructor; simpl; auto; try discriminate.
  - apply Nat.eqb_neq in En. apply (resume_post 0 conc budget c2); auto.
    + rewrite Fb. simpl. lia.
    + rewrite Hst. discriminate.
    + lia.
Qed.

Lemma start_all_frame : forall n c,
  buffer (start_all n c) = buffer c /\ err (start_all n c) = err c /\ nrun (start_all n c) = nrun c /\
  st (start_all n c) = st c /\ remaining (start_all n c) = remaining c /\ queued (start_all n c) = queued c /\
  starved (rtrace (start_all n c)) = starved (rtrace c) /\
  (length (spawned c) <= n -> spawned (start_all n c) = []).
Proof.
  induction n as [|n IH]; intros c; simpl.
  - repeat split; auto. destruct (spawned c); simpl; auto; lia.
  - destruct (spawned c) as [|x r] eqn:Es; [repeat split; auto|].
    specialize (IH (emit (EStart (fst x))
      (mkcol (queued c) r (inflight c ++ [x]) (buffer c) (nrun c) (remaining c) (oracle c) (nsid c) (err c) (st c) (rtrace c)))).
    simpl in IH. destruct IH as (A & B & C & D & E & F & G & H).
    repeat split; auto. intros Hl. apply H. simpl in Hl. lia.
Qed.

Lemma flush_post conc c : R conc c -> Q conc (flush c).
Proof.
  intros [H1 H2 H3 H4 H5 H6]. unfold flush, Q.
  destruct (start_all_frame (length (spawned c)) c) as (A & B & C & D & E & F & G & H).
  destruct (st c) eqn:Est.
  1,2: split; [constructor|]; rewrite ?A, ?B, ?C, ?D; auto;
       try (intros HH; unfold Sat; rewrite C, E, F, G; apply H6; auto);
       try (intros _; apply H; lia).
  - split; [constructor|]; rewrite ?Est; auto; try congruence.
    all: try (intros [X|X]; discriminate).
  - congruence.
Qed.

Lemma complete_frame c ev :
  nrun (complete c ev) = nrun c /\ remaining (complete c ev) = remaining c /\ queued (complete c ev) = queued c /\
  st (complete c ev) = st c /\ spawned (complete c ev) = spawned c /\
  starved (rtrace (complete c ev)) = starved (rtrace c) /\
  (woken c = true -> woken (complete c ev) = true) /\
  (woken (complete c ev) = false -> complete c ev = c).
Proof.
  unfold complete. destruct (remove_nth (fst ev) (inflight c)) as [[x rest]|]; [|tauto].
  simpl. destruct (snd ev) as [p|e]; destruct (err c) as [e0|] eqn:Ee; simpl; repeat split; auto;
    unfold woken; simpl; rewrite ?Ee; try congruence;
    destruct (buffer c); simpl; auto; try congruence.
Qed.

Lemma fold_complete_frame : forall batch c,
  nrun (fold_left complete batch c) = nrun c /\ remaining (fold_left complete batch c) = remaining c /\
  queued (fold_left complete batch c) = queued c /\ st (fold_left complete batch c) = st c /\
  spawned (fold_left complete batch c) = spawned c /\
  starved (rtrace (fold_left complete batch c)) = starved (rtrace c) /\
  (woken c = true -> woken (fold_left complete batch c) = true) /\
  (woken (fold_left complete batch c) = false -> fold_left complete batch c = c).
Proof.
  induction batch as [|ev b IH]; intros c; simpl; [tauto|].
  destruct (complete_frame c ev) as (A & B & C & D & E & F & G & H).
  destruct (IH (complete c ev)) as (A' & B' & C' & D' & E' & F' & G' & H').
  repeat split; try congruence; auto.
  intros Hw. assert (Hc : woken (complete c ev) = false).
  { destruct (woken (complete c ev)) eqn:W; auto. rewrite G' in Hw; auto. }
  rewrite H'; auto.
Qed.

Lemma step_post conc budget c batch : Inv conc budget c -> Q conc c -> Q conc (step conc c batch).
Proof.
  intros HI HQ. pose proof HQ as [HR Hsp]. unfold step. destruct (st c) eqn:Est; try exact HQ.
  destruct (fold_complete_frame batch c) as (A & B & C & D & E & F & G & H).
  destruct (woken (fold_left complete batch c)) eqn:W.
  - apply flush_post. destruct HR as [H1 H2 H3 H4 H5 H6].
    apply (resume_post _ conc budget); auto using inv_fold_complete.
    + rewrite D, Est. discriminate.
    + unfold Sat. rewrite A, B, C, F. apply H6; auto.
    + rewrite A. apply H2; auto.
  - rewrite H; auto.
Qed.

Lemma q_run conc budget orc sched : Q conc (run conc budget orc sched).
Proof.
  unfold run.
  assert (HI : Inv conc budget (flush (boot conc (init budget orc)))) by auto using inv_flush, inv_boot, inv_init.
  assert (HQ : Q conc (flush (boot conc (init budget orc)))) by (apply flush_post, boot_post).
  revert HI HQ. generalize (flush (boot conc (init budget orc))).
  induction sched as [|b s IH]; intros c HI HQ; simpl; auto.
  apply IH; [apply inv_step|eapply step_post]; eauto.
Qed.

(* ------------------------------------------------------------------------------------------------------------ *)
(* the theorems about delivery and progress, on the chronological trace                                          *)
Lemma results_app : forall a b, results (a ++ b) = results a ++ results b.
Proof. intros a; induction a as [|e a IH]; intros; simpl; auto; destruct e; simpl; rewrite ?IH; auto. Qed.
Lemma dones_app : forall a b, dones (a ++ b) = dones a ++ dones b.
Proof. intros a; induction a as [|e a IH]; intros; simpl; auto; destruct e; simpl; rewrite ?IH; auto. Qed.
Lemma takes_app : forall a b, takes (a ++ b) = takes a ++ takes b.
Proof. intros a; induction a as [|e a IH]; intros; simpl; auto; destruct e; simpl; rewrite ?IH; auto. Qed.
Lemma results_rev l : results (rev l) = rev (results l).
Proof. induction l as [|e l IH]; simpl; auto. rewrite results_app, IH. destruct e; simpl; rewrite ?app_nil_r; auto. Qed.
Lemma dones_rev l : dones (rev l) = rev (dones l).
Proof. induction l as [|e l IH]; simpl; auto. rewrite dones_app, IH. destruct e; simpl; rewrite ?app_nil_r; auto. Qed.
Lemma takes_rev l : takes (rev l) = rev (takes l).
Proof. induction l as [|e l IH]; simpl; auto. rewrite takes_app, IH. destruct e; simpl; rewrite ?app_nil_r; auto. Qed.
Lemma results_length l : length (results l) = n_result l.
Proof. induction l as [|e l IH]; simpl; auto. destruct e; simpl; auto. Qed.

Lemma oks_pre_incl : forall l x, In x (map fst (oks_pre l)) -> In x (map fst l).
Proof.
  induction l as [|[s o] l IH]; simpl; intros x H; auto.
  destruct o as [p|e]; simpl in H; [|contradiction]. destruct H; auto.
Qed.

Lemma oks_pre_nodup : forall l, NoDup (map fst l) -> NoDup (map fst (oks_pre l)).
Proof.
  induction l as [|[s o] l IH]; simpl; intros H; auto.
  inversion H; subst. destruct o as [p|e]; simpl; [|constructor].
  constructor; auto. intros Hin. apply oks_pre_incl in Hin. contradiction.
Qed.

Lemma nodup_app_r {A} : forall (a b : list A), NoDup (a ++ b) -> NoDup b.
Proof. induction a as [|x a IH]; simpl; intros b H; auto. inversion H; auto. Qed.

Definition sid_of (x : nat * nat * Z) : nat := fst (fst x).

(* D3: (1) on_job_result receives exactly the successful completions that precede the first failure, in completion
   order, each once; (2) a job completes at most once; (3) the job object handed to on_job_result is the job that was
   started under that sid; (4) sids number the started jobs; (5) when collect_async returns, every started job's result
   has been delivered exactly once *)
Theorem collector_exactly_once : forall conc budget orc sched,
  let c := run conc budget orc sched in
  let tr := trace c in
  map rp (results tr) = oks_pre (dones tr)
  /\ NoDup (map fst (dones tr))
  /\ (forall s tg p, In (s, tg, p) (results tr) -> In (s, tg) (takes tr))
  /\ map fst (takes tr) = seq 0 (n_take tr)
  /\ (st c = Halted -> Permutation (map sid_of (results tr)) (seq 0 (n_take tr))).
Proof.
  intros conc budget orc sched c tr.
  pose proof (inv_run conc budget orc sched) as HI.
  pose proof (inv2_run conc budget orc sched) as HJ.
  pose proof (q_run conc budget orc sched) as [HR HS].
  fold c in HI, HJ, HR, HS.
  destruct HJ as [J1 J2 J3 J4 J5 J6 J7 J8].
  assert (T1 : map rp (results tr) = oks_pre (dones tr)).
  { unfold tr, trace. rewrite results_rev, dones_rev, <- J1, (r_buf _ _ HR). simpl. now rewrite app_nil_r. }
  assert (T2 : NoDup (map fst (dones tr))).
  { unfold tr, trace. rewrite dones_rev, map_rev. apply NoDup_rev.
    unfold ids in J4. apply nodup_app_r in J4. apply nodup_app_r in J4. exact J4. }
  assert (T3 : forall s tg p, In (s, tg, p) (results tr) -> In (s, tg) (takes tr)).
  { unfold tr, trace. intros s tg p H. rewrite results_rev in H. apply in_rev in H.
    rewrite takes_rev. apply in_rev. rewrite rev_involutive. eauto. }
  assert (T4 : map fst (takes tr) = seq 0 (n_take tr)).
  { unfold tr, trace. rewrite takes_rev, n_take_rev, J8. f_equal. apply (i_sid _ _ _ HI). }
  repeat split; auto.
  intros Hh.
  assert (Hn : n_take tr = n_result tr).
  { unfold tr, trace. rewrite n_take_rev, n_result_rev. rewrite (i_run _ _ _ HI), (r_halt _ _ HR Hh). lia. }
  apply NoDup_Permutation_bis.
  - replace (map sid_of (results tr)) with (map fst (map rp (results tr))).
    + rewrite T1. apply oks_pre_nodup; auto.
    + rewrite map_map. reflexivity.
  - rewrite seq_length, map_length, results_length. lia.
  - intros s Hs. apply in_map_iff in Hs. destruct Hs as [[[s' tg] p] [E Hin]]. unfold sid_of in E. simpl in E. subst s'.
    rewrite <- T4. apply in_map_iff. exists (s, tg). split; auto. eapply T3; eauto.
Qed.

(* D4: the loop never runs out of fuel; it is suspended only while a sampler call is in flight (no lost wake-up),
   with nothing buffered and every spawned task started; it returns iff it is idle, and then everything that was
   started has been completed and delivered; while suspended or returned with spare capacity and budget, the queue is
   empty and the most recent next_job() answer was empty (it kept asking until no work was left); an exception raised
   by collect_async is the failure of one of its jobs *)
Theorem collector_progress : forall conc budget orc sched,
  let c := run conc budget orc sched in
  let tr := trace c in
  st c <> OutOfFuel
  /\ (st c = Waiting -> n_done tr < n_start tr /\ n_result tr = n_done tr /\ n_start tr = n_take tr)
  /\ (st c = Halted <-> n_take tr = n_result tr)
  /\ (st c = Halted -> n_result tr = n_done tr /\ n_done tr = n_start tr /\ n_start tr = n_take tr)
  /\ (st c = Waiting \/ st c = Halted ->
      match budget with Some b => (charged tr < b)%Z | None => True end ->
      n_take tr < n_result tr + conc -> queued c = [] /\ starved (rev tr) = true)
  /\ (forall e, st c = Raised e -> exists s, In (s, Err e) (dones tr)).
Proof.
  intros conc budget orc sched c tr.
  pose proof (inv_run conc budget orc sched) as HI.
  pose proof (inv2_run conc budget orc sched) as HJ.
  pose proof (q_run conc budget orc sched) as [HR HS].
  fold c in HI, HJ, HR, HS.
  destruct HI as [I1 I2 I3 I4 I5 I5' I6 I7 I8 I9 I10].
  destruct HR as [R1 R2 R3 R4 R5 R6].
  unfold tr, trace. rewrite n_take_rev, n_start_rev, n_done_rev, n_result_rev, charged_rev, rev_involutive, dones_rev.
  rewrite R1 in *. simpl in *.
  pose proof (always_head _ _ I7) as Hc. unfold P_conc in Hc.
  split; [exact R5|]. split; [|split; [|split; [|split]]].
  - intros Hw. destruct (R2 Hw) as [He Hp]. specialize (I5 He). rewrite (HS (or_introl Hw)) in I2. simpl in I2. lia.
  - split.
    + intros Hh. rewrite (R3 Hh) in I1. lia.
    + intros Hn. destruct (st c) eqn:Est; auto.
      * destruct (R2 eq_refl). lia.
      * assert (He : err c <> None) by (rewrite (R4 e eq_refl); discriminate). specialize (I5' He). lia.
      * congruence.
  - intros Hh. rewrite (R3 Hh) in I1. lia.
  - intros Hq Hb Hn. apply R6; auto.
    + rewrite I8. destruct budget; simpl; auto. apply Z.ltb_lt. lia.
    + lia.
  - intros e He. destruct (j_errin _ HJ e (R4 e He)) as [s Hs]. exists s. apply in_rev. rewrite rev_involutive. exact Hs.
Qed.

(* ------------------------------------------------------------------------------------------------------------ *)
(* termination: whatever happened so far, if the jobs in flight keep completing the loop finishes after at most
   (jobs in flight + queued + still to be handed out by next_job) further completions                             *)
Definition mu (c : col) : nat :=
  length (inflight c) + length (spawned c) + length (queued c) + length (concat (oracle c)).

Lemma mu_fill : forall fuel conc c, mu (fill fuel conc c) = mu c.
Proof.
  induction fuel as [|f IH]; intros conc c; simpl; auto.
  destruct (budget_left (remaining c) && (nrun c <? conc)); auto.
  assert (Ha : mu (match queued c with [] => ask c | _ :: _ => c end) = mu c).
  { destruct (queued c) eqn:Eq; auto. unfold ask. destruct (oracle c) as [|a o] eqn:Eo; unfold mu; simpl; rewrite ?Eq, ?Eo; auto.
    simpl. rewrite !app_length. lia. }
  set (c1 := match queued c with [] => ask c | _ :: _ => c end) in *.
  destruct (queued c1) as [|j q] eqn:Eq; auto.
  rewrite IH, <- Ha. unfold mu. simpl. rewrite Eq, app_length. simpl. lia.
Qed.

Lemma mu_resume : forall fuel conc c, mu (resume fuel conc c) = mu c.
Proof.
  induction fuel as [|f IH]; intros conc c.
  - simpl. destruct (buffer c); auto. destruct (err c); auto.
  - destruct (buffer c) as [|x b] eqn:Eb.
    + rewrite resume_nil; auto. destruct (err c); auto.
    + rewrite (resume_cons f conc c x b Eb). cbv zeta.
      assert (Hm : mu (fill (S conc) conc (deliver x b c)) = mu c) by (rewrite mu_fill; reflexivity).
      destruct (is_oof _); auto. destruct (nrun _ =? 0); auto. rewrite IH. exact Hm.
Qed.

Lemma mu_start_all : forall n c, mu (start_all n c) = mu c.
Proof.
  induction n as [|n IH]; intros c; simpl; auto.
  destruct (spawned c) as [|x r] eqn:Es; auto. rewrite IH. unfold mu. simpl. rewrite Es, app_length. simpl. lia.
Qed.

Lemma mu_flush c : mu (flush c) = mu c.
Proof. unfold flush. destruct (st c); auto using mu_start_all. Qed.

Lemma step_done : forall conc l c, st c <> Waiting -> fold_left (step conc) l c = c.
Proof.
  induction l as [|b l IH]; intros c H; simpl; auto.
  assert (E : step conc c b = c) by (unfold step; destruct (st c); congruence).
  rewrite E. auto.
Qed.

Lemma waiting_inflight conc budget c : Inv conc budget c -> Q conc c -> st c = Waiting -> inflight c <> [].
Proof.
  intros [I1 I2 I3 I4 I5 I5' I6 I7 I8 I9 I10] [[R1 R2 R3 R4 R5 R6] HS] Hw.
  destruct (R2 Hw) as [He Hp]. specialize (I5 He). rewrite (HS (or_introl Hw)) in I2. rewrite R1 in I5. simpl in *.
  intros E. rewrite E in I3. simpl in I3. lia.
Qed.

Lemma drain : forall n conc budget c, Inv conc budget c -> Q conc c -> mu c <= n ->
  st (fold_left (step conc) (repeat [(0, Ok 0%Z)] n) c) <> Waiting.
Proof.
  induction n as [|n IH]; intros conc budget c HI HQ Hm; simpl.
  - intros Hw. apply (waiting_inflight conc budget c HI HQ Hw). unfold mu in Hm.
    apply length_zero_iff_nil. lia.
  - destruct (st c) eqn:Est.
    2,3,4: rewrite step_done; unfold step; rewrite Est; congruence.
    apply (IH conc budget); auto using inv_step.
    + eapply step_post; eauto.
    + pose proof (waiting_inflight conc budget c HI HQ Est) as Hne.
      destruct HQ as [[R1 R2 R3 R4 R5 R6] HS]. destruct (R2 Est) as [He Hp].
      unfold step. rewrite Est.
      change (fold_left complete [(0, Ok 0%Z)] c) with (complete c (0, Ok 0%Z)).
      destruct (inflight c) as [|x rest] eqn:Ei; [congruence|].
      assert (Hc1 : woken (complete c (0, Ok 0%Z)) = true /\ S (mu (complete c (0, Ok 0%Z))) = mu c).
      { unfold complete. simpl. rewrite Ei. simpl. rewrite He. unfold woken, mu. simpl. rewrite R1, Ei. simpl. split; auto. }
      destruct Hc1 as [Hw1 Hm1]. rewrite Hw1, mu_flush, mu_resume. lia.
Qed.

Theorem collector_terminates : forall conc budget orc sched,
  exists k, st (run conc budget orc (sched ++ repeat [(0, Ok 0%Z)] k)) <> Waiting.
Proof.
  intros conc budget orc sched. exists (mu (run conc budget orc sched)).
  unfold run at 1. rewrite fold_left_app. fold (run conc budget orc sched).
  apply (drain _ conc budget); auto using inv_run, q_run.
Qed.
