(* C20 — proofs about the model of ProcessorSampler's max_concurrent_jobs throttle (Async/Limiter.v). *)
From Coq Require Import List Bool Arith Lia Permutation.
From VF Require Import Async.Limiter.
Import ListNotations.

Definition olist (o : option nat) : list nat := match o with Some i => [i] | None => [] end.
(* every caller that has called and not returned is in exactly one of these places, or its job has been created *)
Definition callers (s : lst) : list nat :=
  l_waiting s ++ l_woken s ++ olist (l_entering s) ++ map fst (l_created s).

Definition creates_of (tr : list lev) : list (nat * nat) :=
  flat_map (fun ev => match ev with LCreate i j => [(i, j)] | _ => [] end) tr.
Definition returns_of (tr : list lev) : list (nat * nat) :=
  flat_map (fun ev => match ev with LReturn i j _ => [(i, j)] | _ => [] end) tr.
Definition finishes_of (tr : list lev) : list (nat * bool) :=
  flat_map (fun ev => match ev with LFinish j ok => [(j, ok)] | _ => [] end) tr.
Definition ncalls_of (tr : list lev) : nat :=
  length (filter (fun ev => match ev with LCall _ => true | _ => false end) tr).

Record LI (cap : nat) (s : lst) : Prop := mkLI {
  i_count : l_count s = length (l_holding s) + length (olist (l_entering s));
  i_wc : l_waiting s <> [] -> cap <= l_count s + length (l_woken s);
  i_perm : Permutation (l_holding s ++ l_returned s) (l_created s);
  i_nodup : NoDup (callers s);
  i_lt : Forall (fun i => i < l_calls s) (callers s);
  i_len : length (callers s) = l_calls s;
  i_jobs_lt : Forall (fun p => snd p < l_jobs s) (l_created s);
  i_jobs_nodup : NoDup (map snd (l_created s));
  i_fin : forall x, In x (l_finished s) -> In x (l_finlog s) }.

Lemma LI_init cap : LI cap linit.
Proof.
  constructor; simpl; auto; try constructor. intros H; exfalso; apply H; reflexivity.
Qed.

(* ---- removal ---- *)
Lemma rm_hold_perm i j : forall l l', rm_hold i j l = Some l' -> Permutation l ((i, j) :: l').
Proof.
  induction l as [|[i' j'] r IH]; intros l' H; simpl in H; [discriminate|].
  destruct ((i =? i') && (j =? j')) eqn:E.
  - inversion H; subst. apply andb_true_iff in E. destruct E as [E1 E2].
    apply Nat.eqb_eq in E1. apply Nat.eqb_eq in E2. subst. apply Permutation_refl.
  - destruct (rm_hold i j r) as [r'|]; [|discriminate]. inversion H; subst.
    eapply Permutation_trans; [apply perm_skip; apply IH; reflexivity|]. apply perm_swap.
Qed.

Lemma rm_hold_complete i j : forall l, In (i, j) l -> rm_hold i j l <> None.
Proof.
  induction l as [|[i' j'] r IH]; intros H; simpl in *; [contradiction|].
  destruct ((i =? i') && (j =? j')) eqn:E; [discriminate|].
  destruct H as [H|H].
  - inversion H; subst. rewrite !Nat.eqb_refl in E. discriminate.
  - specialize (IH H). destruct (rm_hold i j r); [discriminate|contradiction].
Qed.

Lemma rm_fin_in j ok : forall l l', rm_fin j ok l = Some l' -> In (j, ok) l /\ forall x, In x l' -> In x l.
Proof.
  induction l as [|[j' ok'] r IH]; intros l' H; simpl in H; [discriminate|].
  destruct ((j =? j') && Bool.eqb ok ok') eqn:E.
  - inversion H; subst. apply andb_true_iff in E. destruct E as [E1 E2].
    apply Nat.eqb_eq in E1. apply eqb_prop in E2. subst. split; [left; reflexivity|intros x Hx; right; exact Hx].
  - destruct (rm_fin j ok r) as [r'|]; [|discriminate]. inversion H; subst.
    destruct (IH r' eq_refl) as [A B]. split; [right; exact A|].
    intros x [Hx|Hx]; [left; exact Hx|right; apply B; exact Hx].
Qed.

Lemma rm_fin_complete j ok : forall l, In (j, ok) l -> rm_fin j ok l <> None.
Proof.
  induction l as [|[j' ok'] r IH]; intros H; simpl in *; [contradiction|].
  destruct ((j =? j') && Bool.eqb ok ok') eqn:E; [discriminate|].
  destruct H as [H|H].
  - inversion H; subst. rewrite Nat.eqb_refl, eqb_reflx in E. discriminate.
  - specialize (IH H). destruct (rm_fin j ok r); [discriminate|contradiction].
Qed.

(* ---- the caller partition under a permutation ---- *)
Lemma part_perm (l l' : list nat) n :
  Permutation l l' -> NoDup l -> Forall (fun i => i < n) l -> length l = n ->
  NoDup l' /\ Forall (fun i => i < n) l' /\ length l' = n.
Proof.
  intros P N F L. split; [eapply Permutation_NoDup; eauto|]. split; [eapply Permutation_Forall; eauto|].
  rewrite <- L. symmetry. apply Permutation_length. exact P.
Qed.

Lemma part_new (l l' : list nat) n :
  Permutation (n :: l) l' -> NoDup l -> Forall (fun i => i < n) l -> length l = n ->
  NoDup l' /\ Forall (fun i => i < S n) l' /\ length l' = S n.
Proof.
  intros P N F L. apply part_perm with (l := n :: l); auto.
  - constructor; auto. intros Hin. rewrite Forall_forall in F. specialize (F n Hin). lia.
  - constructor; [lia|]. eapply Forall_impl; [|exact F]. simpl. intros; lia.
  - simpl. rewrite L. reflexivity.
Qed.

Lemma created_new (c : list (nat * nat)) i j :
  Forall (fun p => snd p < j) c -> NoDup (map snd c) ->
  Forall (fun p => snd p < S j) (c ++ [(i, j)]) /\ NoDup (map snd (c ++ [(i, j)])).
Proof.
  intros F N. split.
  - apply Forall_app. split; [eapply Forall_impl; [|exact F]; simpl; intros; lia|]. constructor; [simpl; lia|constructor].
  - rewrite map_app. simpl. eapply Permutation_NoDup; [apply Permutation_cons_append|].
    constructor; auto. intros Hin. apply in_map_iff in Hin. destruct Hin as [p [E Hp]].
    rewrite Forall_forall in F. specialize (F p Hp). lia.
Qed.

Lemma perm_created (h r c : list (nat * nat)) x :
  Permutation (h ++ r) c -> Permutation ((h ++ [x]) ++ r) (c ++ [x]).
Proof.
  intros P. rewrite <- app_assoc.
  eapply Permutation_trans; [apply Permutation_app_head; apply Permutation_app_comm|].
  rewrite app_assoc. apply Permutation_app_tail. exact P.
Qed.

Lemma LI_step cap s ev s' : LI cap s -> lstep cap s ev = Some s' -> LI cap s'.
Proof.
  intros [Hc Hw Hp Hn Hl Hlen Hj Hjn Hf] H. unfold lstep in H. unfold callers in *.
  destruct (l_entering s) as [i'|] eqn:En.
  - (* the caller that entered creates its job *)
    destruct ev as [i|i j|j ok|i j ok]; try discriminate.
    destruct ((i =? i') && (j =? l_jobs s)) eqn:E; [|discriminate]. inversion H; subst; clear H.
    apply andb_true_iff in E. destruct E as [E1 E2]. apply Nat.eqb_eq in E1. apply Nat.eqb_eq in E2. subst.
    simpl in *.
    assert (P : Permutation (l_waiting s ++ l_woken s ++ i' :: map fst (l_created s))
                            (l_waiting s ++ l_woken s ++ map fst (l_created s ++ [(i', l_jobs s)]))).
    { apply Permutation_app_head. apply Permutation_app_head. rewrite map_app. simpl. apply Permutation_cons_append. }
    destruct (part_perm _ _ _ P Hn Hl Hlen) as [A [B C]].
    destruct (created_new _ i' _ Hj Hjn) as [D F].
    constructor; simpl; auto.
    + rewrite app_length. simpl. lia.
    + apply perm_created. exact Hp.
  - destruct ev as [i|i j|j ok|i j ok].
    + (* call *)
      destruct (negb (i =? l_calls s)) eqn:E; [discriminate|]. apply negb_false_iff in E. apply Nat.eqb_eq in E. subst i.
      simpl in *.
      destruct (l_count s <? cap) eqn:Ea; inversion H; subst; clear H; simpl.
      * assert (P : Permutation (l_calls s :: l_waiting s ++ l_woken s ++ map fst (l_created s))
                                (l_waiting s ++ l_woken s ++ l_calls s :: map fst (l_created s))).
        { rewrite !app_assoc. apply Permutation_middle. }
        destruct (part_new _ _ _ P Hn Hl Hlen) as [A [B C]].
        constructor; simpl; auto; try lia; try (intros Hne; specialize (Hw Hne); lia).
      * apply Nat.ltb_ge in Ea.
        assert (P : Permutation (l_calls s :: l_waiting s ++ l_woken s ++ map fst (l_created s))
                                ((l_waiting s ++ [l_calls s]) ++ l_woken s ++ map fst (l_created s))).
        { rewrite <- app_assoc. simpl. apply Permutation_middle. }
        destruct (part_new _ _ _ P Hn Hl Hlen) as [A [B C]].
        constructor; simpl; auto; try lia.
    + (* a woken waiter resumes and creates its job *)
      destruct (l_woken s) as [|w ws] eqn:Ew; [discriminate|].
      destruct ((i =? w) && (j =? l_jobs s)) eqn:E; [|discriminate]. inversion H; subst; clear H.
      apply andb_true_iff in E. destruct E as [E1 E2]. apply Nat.eqb_eq in E1. apply Nat.eqb_eq in E2. subst.
      simpl in *.
      assert (P : Permutation (l_waiting s ++ w :: ws ++ map fst (l_created s))
                              (l_waiting s ++ ws ++ map fst (l_created s ++ [(w, l_jobs s)]))).
      { apply Permutation_app_head. rewrite map_app. simpl. rewrite app_assoc. apply Permutation_cons_append. }
      destruct (part_perm _ _ _ P Hn Hl Hlen) as [A [B C]].
      destruct (created_new _ w _ Hj Hjn) as [D F].
      constructor; simpl; auto.
      * rewrite app_length. simpl. lia.
      * intros Hne. specialize (Hw Hne). lia.
      * apply perm_created. exact Hp.
    + (* the engine finishes a job *)
      destruct (has_job j (l_holding s) && negb (has_fin j (l_finished s))); [|discriminate].
      inversion H; subst; clear H. simpl in *. constructor; simpl; auto.
      intros x Hx. apply in_app_or in Hx. apply in_or_app. destruct Hx as [Hx|Hx]; auto.
    + (* a caller gets its job's results and leaves the limiter *)
      destruct (rm_hold i j (l_holding s)) as [h'|] eqn:Eh; [|discriminate].
      destruct (rm_fin j ok (l_finished s)) as [f'|] eqn:Ef; [|discriminate].
      pose proof (rm_hold_perm _ _ _ _ Eh) as Ph. pose proof (Permutation_length Ph) as Lh. simpl in Lh.
      destruct (rm_fin_in _ _ _ _ Ef) as [_ Hsub].
      assert (Pr : Permutation (h' ++ l_returned s ++ [(i, j)]) (l_created s)).
      { eapply Permutation_trans; [|exact Hp]. rewrite app_assoc.
        eapply Permutation_trans; [apply Permutation_sym; apply Permutation_cons_append|].
        rewrite app_comm_cons. apply Permutation_app_tail. apply Permutation_sym. exact Ph. }
      simpl in *.
      destruct (l_waiting s) as [|w ws] eqn:Eq; inversion H; subst; clear H; simpl in *.
      * constructor; simpl; auto; try lia. intros Hne; exfalso; apply Hne; reflexivity.
      * assert (P : Permutation (w :: ws ++ l_woken s ++ map fst (l_created s))
                                (ws ++ (l_woken s ++ [w]) ++ map fst (l_created s))).
        { rewrite <- app_assoc. simpl. rewrite !app_assoc. apply Permutation_middle. }
        destruct (part_perm _ _ _ P Hn Hl Hlen) as [A [B C]].
        constructor; simpl; auto; try lia.
        intros _. rewrite app_length. simpl. assert (Hw' : cap <= l_count s + length (l_woken s)) by (apply Hw; discriminate). lia.
Qed.

Lemma LI_run_from cap : forall tr s s', LI cap s -> lrun_from cap s tr = Some s' -> LI cap s'.
Proof.
  induction tr as [|ev r IH]; intros s s' HI H; simpl in H.
  - inversion H; subst. exact HI.
  - destruct (lstep cap s ev) as [s1|] eqn:E; [|discriminate]. eapply IH; [|exact H]. eapply LI_step; eauto.
Qed.

Lemma LI_run cap tr s : lrun cap tr = Some s -> LI cap s.
Proof. apply LI_run_from. apply LI_init. Qed.

(* ---- the bound ---- *)
Definition LC (cap : nat) (s : lst) : Prop := l_count s + length (l_woken s) <= cap.

Lemma LC_step cap s ev s' : LI cap s -> LC cap s ->
  (match ev with LCall _ => match l_woken s with [] => true | _ => false end | _ => true end) = true ->
  lstep cap s ev = Some s' -> LC cap s'.
Proof.
  intros [Hc _ _ _ _ _ _ _ _] HL Hcalm H. unfold LC in *. unfold lstep in H.
  destruct (l_entering s) as [i'|] eqn:En.
  - destruct ev as [i|i j|j ok|i j ok]; try discriminate.
    destruct ((i =? i') && (j =? l_jobs s)); [|discriminate]. inversion H; subst; simpl. exact HL.
  - destruct ev as [i|i j|j ok|i j ok].
    + destruct (negb (i =? l_calls s)); [discriminate|].
      destruct (l_woken s) as [|w ws] eqn:Ew; [|discriminate]. rewrite ?Ew in HL. simpl in HL.
      destruct (l_count s <? cap) eqn:Ea; inversion H; subst; simpl; rewrite ?Ew; simpl in *.
      * apply Nat.ltb_lt in Ea. lia.
      * exact HL.
    + destruct (l_woken s) as [|w ws] eqn:Ew; [discriminate|]. rewrite ?Ew in HL. simpl in HL.
      destruct ((i =? w) && (j =? l_jobs s)); [|discriminate]. inversion H; subst; simpl in *. lia.
    + destruct (has_job j (l_holding s) && negb (has_fin j (l_finished s))); [|discriminate].
      inversion H; subst; simpl. exact HL.
    + destruct (rm_hold i j (l_holding s)) as [h'|] eqn:Eh; [|discriminate].
      destruct (rm_fin j ok (l_finished s)) as [f'|]; [|discriminate].
      pose proof (Permutation_length (rm_hold_perm _ _ _ _ Eh)) as Lh. simpl in Lh, Hc.
      destruct (l_waiting s) as [|w ws]; inversion H; subst; simpl.
      * lia.
      * rewrite app_length. simpl. lia.
Qed.

Lemma LC_run_from cap : forall tr s s', LI cap s -> LC cap s ->
  lrun_from cap s tr = Some s' -> calm_from cap s tr = true -> LC cap s'.
Proof.
  induction tr as [|ev r IH]; intros s s' HI HL H Hcalm; simpl in H, Hcalm.
  - inversion H; subst. exact HL.
  - apply andb_true_iff in Hcalm. destruct Hcalm as [C1 C2].
    destruct (lstep cap s ev) as [s1|] eqn:E; [|discriminate].
    eapply IH; [eapply LI_step; eauto|eapply LC_step; eauto|exact H|exact C2].
Qed.

Lemma filter_len_le {A} (f : A -> bool) : forall l, length (filter f l) <= length l.
Proof. induction l as [|x r IH]; simpl; [lia|]. destruct (f x); simpl; lia. Qed.

Lemma unfinished_le_holding s : unfinished s <= length (l_holding s).
Proof. unfold unfinished. apply filter_len_le. Qed.

(* B1: never more jobs in flight than max_concurrent_jobs — at every point of every run in which no caller arrives while
   a released waiter has not resumed yet (the accepted traces are closed under prefixes, so `s` is any point of the run) *)
Theorem limiter_bounded : forall cap tr s,
  lrun cap tr = Some s -> calm cap tr = true ->
  unfinished s <= cap /\ length (l_holding s) <= cap.
Proof.
  intros cap tr s H Hcalm.
  assert (HL : LC cap s).
  { eapply LC_run_from; [apply LI_init| |exact H|exact Hcalm]. unfold LC. simpl. lia. }
  pose proof (LI_run _ _ _ H) as [Hc _ _ _ _ _ _ _ _]. unfold LC in HL.
  pose proof (unfinished_le_holding s). lia.
Qed.

(* ... and the hypothesis is needed: duet.Limiter hands a slot over by waking the waiter, which counts itself only when it
   resumes; a caller arriving in between finds the limiter available *)
Theorem limiter_bounded_needs_calm : exists tr s,
  lrun 1 tr = Some s /\ calm 1 tr = false /\ unfinished s = 2.
Proof.
  exists [LCall 0; LCreate 0 0; LCall 1; LFinish 0 true; LReturn 0 0 true; LCall 2; LCreate 2 1; LCreate 1 2].
  eexists. split; [vm_compute; reflexivity|]. split; vm_compute; reflexivity.
Qed.

(* ---- the logs are the projections of the trace ---- *)
Lemma logs_step cap s ev s' : lstep cap s ev = Some s' ->
  l_created s' = l_created s ++ creates_of [ev] /\ l_returned s' = l_returned s ++ returns_of [ev] /\
  l_finlog s' = l_finlog s ++ finishes_of [ev].
Proof.
  intros H. unfold lstep in H. destruct (l_entering s) as [i'|].
  - destruct ev as [i|i j|j ok|i j ok]; try discriminate.
    destruct ((i =? i') && (j =? l_jobs s)); [|discriminate]. inversion H; subst; simpl. rewrite !app_nil_r. auto.
  - destruct ev as [i|i j|j ok|i j ok].
    + destruct (negb (i =? l_calls s)); [discriminate|].
      destruct (l_count s <? cap); inversion H; subst; simpl; rewrite !app_nil_r; auto.
    + destruct (l_woken s) as [|w ws]; [discriminate|].
      destruct ((i =? w) && (j =? l_jobs s)); [|discriminate]. inversion H; subst; simpl. rewrite !app_nil_r. auto.
    + destruct (has_job j (l_holding s) && negb (has_fin j (l_finished s))); [|discriminate].
      inversion H; subst; simpl. rewrite !app_nil_r. auto.
    + destruct (rm_hold i j (l_holding s)) as [h'|]; [|discriminate].
      destruct (rm_fin j ok (l_finished s)) as [f'|]; [|discriminate].
      destruct (l_waiting s) as [|w ws]; inversion H; subst; simpl; rewrite !app_nil_r; auto.
Qed.

Lemma logs_run_from cap : forall tr s s', lrun_from cap s tr = Some s' ->
  l_created s' = l_created s ++ creates_of tr /\ l_returned s' = l_returned s ++ returns_of tr /\
  l_finlog s' = l_finlog s ++ finishes_of tr.
Proof.
  induction tr as [|ev r IH]; intros s s' H; simpl in H.
  - inversion H; subst. simpl. rewrite !app_nil_r. auto.
  - destruct (lstep cap s ev) as [s1|] eqn:E; [|discriminate].
    destruct (logs_step _ _ _ _ E) as [A [B C]]. destruct (IH _ _ H) as [A' [B' C']].
    rewrite A', B', C', A, B, C. rewrite <- !app_assoc.
    change (ev :: r) with ([ev] ++ r). unfold creates_of, returns_of, finishes_of. rewrite !flat_map_app. auto.
Qed.

(* a return is accepted only for a job that was created for that caller and that the engine finished, with that outcome *)
Lemma return_own cap s i j ok s' : LI cap s -> lstep cap s (LReturn i j ok) = Some s' ->
  In (i, j) (l_created s) /\ In (j, ok) (l_finlog s).
Proof.
  intros [_ _ Hp _ _ _ _ _ Hf] H. unfold lstep in H. destruct (l_entering s); [discriminate|].
  destruct (rm_hold i j (l_holding s)) as [h'|] eqn:Eh; [|discriminate].
  destruct (rm_fin j ok (l_finished s)) as [f'|] eqn:Ef; [|discriminate].
  split.
  - eapply Permutation_in; [exact Hp|]. apply in_or_app. left.
    eapply Permutation_in; [apply Permutation_sym; eapply rm_hold_perm; exact Eh|]. left. reflexivity.
  - destruct (rm_fin_in _ _ _ _ Ef) as [A _]. apply Hf. exact A.
Qed.

Lemma returns_finished_from cap : forall tr s s', LI cap s -> lrun_from cap s tr = Some s' ->
  forall i j ok, In (LReturn i j ok) tr -> In (j, ok) (l_finlog s').
Proof.
  induction tr as [|ev r IH]; intros s s' HI H i j ok Hin; simpl in H; [contradiction|].
  destruct (lstep cap s ev) as [s1|] eqn:E; [|discriminate].
  destruct Hin as [Hin|Hin].
  - subst ev. destruct (return_own _ _ _ _ _ _ HI E) as [_ A].
    destruct (logs_step _ _ _ _ E) as [_ [_ C]]. destruct (logs_run_from _ _ _ _ H) as [_ [_ C']].
    rewrite C', C. apply in_or_app. left. apply in_or_app. left. exact A.
  - eapply IH; [eapply LI_step; eauto|exact H|exact Hin].
Qed.

Lemma NoDup_app_remove_l {A} : forall (l l' : list A), NoDup (l ++ l') -> NoDup l'.
Proof. induction l as [|x r IH]; simpl; intros l' H; [exact H|]. inversion H; subst. apply IH. assumption. Qed.

(* B2: every caller's job is created at most once and no job is created twice; every caller returns at most once, with
   the job that was created for it, and the outcome it receives is the outcome the engine produced for that job *)
Theorem limiter_exactly_once : forall cap tr s,
  lrun cap tr = Some s ->
  NoDup (map fst (creates_of tr)) /\ NoDup (map snd (creates_of tr)) /\
  NoDup (map fst (returns_of tr)) /\
  (forall i j, In (i, j) (returns_of tr) -> In (i, j) (creates_of tr)) /\
  (forall i j ok, In (LReturn i j ok) tr -> In (j, ok) (finishes_of tr)).
Proof.
  intros cap tr s H. pose proof (LI_run _ _ _ H) as HI. destruct HI as [_ _ Hp Hn _ _ _ Hjn _].
  destruct (logs_run_from _ _ _ _ H) as [A [B C]]. simpl in A, B, C. rewrite A in *. rewrite B in *.
  unfold callers in Hn. rewrite A in Hn.
  assert (N1 : NoDup (map fst (creates_of tr))).
  { apply NoDup_app_remove_l in Hn. apply NoDup_app_remove_l in Hn. apply NoDup_app_remove_l in Hn. exact Hn. }
  split; [exact N1|]. split; [exact Hjn|].
  split.
  - assert (N2 : NoDup (map fst (l_holding s ++ returns_of tr))).
    { eapply Permutation_NoDup; [apply Permutation_sym; apply Permutation_map; exact Hp|exact N1]. }
    rewrite map_app in N2. apply NoDup_app_remove_l in N2. exact N2.
  - split.
    + intros i j Hin. eapply Permutation_in; [exact Hp|]. apply in_or_app. right. exact Hin.
    + intros i j ok Hin. pose proof (returns_finished_from _ _ _ _ (LI_init cap) H i j ok Hin) as R.
      rewrite C in R. exact R.
Qed.

(* B3: nothing is lost — every caller that has called is waiting for a slot, has been woken, is creating its job, holds a
   slot with its job created, or has returned *)
Theorem limiter_no_loss : forall cap tr s,
  lrun cap tr = Some s ->
  l_calls s = length (l_waiting s) + length (l_woken s) + length (olist (l_entering s)) + length (l_holding s) +
              length (l_returned s).
Proof.
  intros cap tr s H. pose proof (LI_run _ _ _ H) as [_ _ Hp _ _ Hlen _ _ _].
  unfold callers in Hlen. rewrite !app_length, map_length in Hlen.
  apply Permutation_length in Hp. rewrite app_length in Hp. lia.
Qed.

(* B4: no lost wake-up — nobody waits for a slot while a slot is free and not already handed to a woken waiter; in
   particular, with nothing in flight nobody waits *)
Theorem limiter_work_conserving : forall cap tr s,
  lrun cap tr = Some s -> l_waiting s <> [] ->
  cap <= length (l_holding s) + length (olist (l_entering s)) + length (l_woken s).
Proof.
  intros cap tr s H Hne. pose proof (LI_run _ _ _ H) as [Hc Hw _ _ _ _ _ _ _]. specialize (Hw Hne). lia.
Qed.

Corollary limiter_no_deadlock : forall cap tr s,
  lrun cap tr = Some s -> 1 <= cap -> l_entering s = None -> l_holding s = [] -> l_woken s = [] -> l_waiting s = [].
Proof.
  intros cap tr s H Hcap En Eh Ew. destruct (l_waiting s) as [|w ws] eqn:Eq; [reflexivity|].
  assert (Hne : l_waiting s <> []) by (rewrite Eq; discriminate).
  pose proof (limiter_work_conserving _ _ _ H Hne) as Hw. rewrite En, Eh, Ew in Hw. simpl in Hw. lia.
Qed.

(* B5: the run can always go on — a woken waiter can create its job, an unfinished job can finish, a caller whose job is
   finished can return *)
Theorem limiter_enabled : forall cap s,
  l_entering s = None ->
  (forall w ws, l_woken s = w :: ws -> lstep cap s (LCreate w (l_jobs s)) <> None) /\
  (forall j ok, has_job j (l_holding s) = true -> has_fin j (l_finished s) = false -> lstep cap s (LFinish j ok) <> None) /\
  (forall i j ok, In (i, j) (l_holding s) -> In (j, ok) (l_finished s) -> lstep cap s (LReturn i j ok) <> None).
Proof.
  intros cap s En. unfold lstep. rewrite En. split; [|split].
  - intros w ws Ew. rewrite Ew. rewrite !Nat.eqb_refl. simpl. discriminate.
  - intros j ok A B. rewrite A, B. simpl. discriminate.
  - intros i j ok A B. pose proof (rm_hold_complete _ _ _ A) as RA. pose proof (rm_fin_complete _ _ _ B) as RB.
    destruct (rm_hold i j (l_holding s)); [|contradiction]. destruct (rm_fin j ok (l_finished s)); [|contradiction].
    destruct (l_waiting s); discriminate.
Qed.
