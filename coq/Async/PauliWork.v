(* C20 — model of cirq.work.pauli_sum_collector.PauliSumCollector as a source of work (definitions only; proofs in
   PauliWorkProofs.v).

     def next_job(self):
         i = self._total_samples_requested // self._samples_per_term
         if i >= len(self._pauli_coef_terms): return None
         remaining = self._samples_per_term * (i + 1) - self._total_samples_requested
         amount_to_request = min(remaining, self._samples_per_job)
         self._total_samples_requested += amount_to_request
         return CircuitSampleJob(circuit + measurement of term i, repetitions=amount_to_request, tag=term i)

   The only state next_job reads is the number of samples it has handed out itself: a unit of work is spent the moment it
   is handed out, whether or not (and in whatever order) the jobs in flight have completed.  The work list is therefore a
   function of (number of terms, samples_per_term, max_samples_per_job) alone; the collector loop of Collector.v is run on it
   as its next_job oracle.  Jobs are (term index, repetitions). *)
From Coq Require Import ZArith List Bool.
From VF Require Import Async.Collector.
Import ListNotations.
Local Open Scope Z_scope.

Definition pnext (n spt mj total : Z) : option (Z * Z) :=
  let i := total / spt in
  if n <=? i then None else Some (i, Z.min (spt * (i + 1) - total) mj).

(* successive answers of next_job from the state `total` on, until it answers None *)
Fixpoint pwork (fuel : nat) (n spt mj total : Z) : list (Z * Z) :=
  match fuel with
  | O => []
  | S f =>
    match pnext n spt mj total with
    | None => []
    | Some (i, a) => (i, a) :: pwork f n spt mj (total + a)
    end
  end.

Definition pfuel (n spt : Z) : nat := S (Z.to_nat (n * spt)).
Definition pjobs (n spt mj : Z) : list (Z * Z) := pwork (pfuel n spt) n spt mj 0.

(* samples requested for term t by a list of jobs *)
Fixpoint requested (t : Z) (l : list (Z * Z)) : Z :=
  match l with
  | [] => 0
  | x :: r => (if fst x =? t then snd x else 0) + requested t r
  end.
Fixpoint njobs_for (t : Z) (l : list (Z * Z)) : Z :=
  match l with
  | [] => 0
  | x :: r => (if fst x =? t then 1 else 0) + njobs_for t r
  end.

(* the same list as the next_job oracle of the collector loop: one job per answer *)
Definition panswers (n spt mj : Z) : list (list job) :=
  map (fun x => [mkjob (Z.to_nat (fst x)) (snd x)]) (pjobs n spt mj).

(* ---- correspondence: the answers recorded from the real next_job (one list per call; [] = None) are the model's first
   answers, followed by nothing but [] ---- *)
Definition job_eqb (a b : job) : bool := (tag a =? tag b)%nat && (reps a =? reps b).
Fixpoint jobl_eqb (a b : list job) : bool :=
  match a, b with [], [] => true | x :: a', y :: b' => job_eqb x y && jobl_eqb a' b' | _, _ => false end.
Fixpoint answers_prefix (rec model : list (list job)) : bool :=
  match rec with
  | [] => true
  | a :: r =>
    match model with
    | [] => match a with [] => answers_prefix r [] | _ => false end
    | m :: ms => jobl_eqb a m && answers_prefix r ms
    end
  end.
Definition pagrees (case : Z * Z * Z * list (list job)) : bool :=
  match case with (n, spt, mj, rec) => answers_prefix rec (panswers n spt mj) end.
