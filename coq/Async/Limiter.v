(* C20 — model of cirq_google.ProcessorSampler's client-side throttle (definitions only; proofs in LimiterProofs.v).

     async def _run_sweep_async(self, program, params, repetitions):
         async with self._concurrent_job_limiter:                     # duet.Limiter(max_concurrent_jobs)
             job = await self._processor.run_sweep_async(...)         # the job is created on the engine
             return await job.results_async()                         # ... and the slot is kept until its results are in

   duet.Limiter:  __aenter__: if _count >= capacity: append a future to _waiters and await it;  _count += 1
                  __aexit__ : _count -= 1; wake the first waiter (it re-enters, i.e. increments _count, when the
                              scheduler resumes it)

   The model is an acceptor of what an observer of the real run records, in the order in which it happens:
   LCall i      caller i invokes run_sweep_async (callers are numbered in call order)
   LCreate i j  processor.run_sweep_async is called for caller i and creates job j (jobs are numbered in creation order)
   LFinish j ok the engine finishes job j (ok) / the job fails (not ok): results_async() of job j can complete
   LReturn i j ok  run_sweep_async of caller i returns the results of job j / raises the failure of job j
   `lstep` returns None when the event cannot happen in the state. *)
From Coq Require Import List Bool Arith.
Import ListNotations.

Inductive lev :=
| LCall (i : nat)
| LCreate (i j : nat)
| LFinish (j : nat) (ok : bool)
| LReturn (i j : nat) (ok : bool).

Record lst := mklst {
  l_count : nat;                     (* Limiter._count *)
  l_entering : option nat;           (* a caller that found the limiter available; its job is created next *)
  l_waiting : list nat;              (* Limiter._waiters, first in first out *)
  l_woken : list nat;                (* waiters whose future _release has set; they have not resumed yet *)
  l_holding : list (nat * nat);      (* (caller, job): job created, run_sweep_async has not returned yet *)
  l_finished : list (nat * bool);    (* jobs the engine has finished whose caller has not resumed yet *)
  l_calls : nat;                     (* number of calls so far *)
  l_jobs : nat;                      (* number of jobs created so far *)
  l_created : list (nat * nat);      (* log: every (caller, job) created *)
  l_finlog : list (nat * bool);      (* log: every (job, ok) finished *)
  l_returned : list (nat * nat) }.   (* log: every (caller, job) returned / raised *)

Definition linit : lst := mklst 0 None [] [] [] [] 0 0 [] [] [].

Fixpoint has_job (j : nat) (l : list (nat * nat)) : bool :=
  match l with [] => false | (_, j') :: r => (j =? j') || has_job j r end.
Fixpoint has_fin (j : nat) (l : list (nat * bool)) : bool :=
  match l with [] => false | (j', _) :: r => (j =? j') || has_fin j r end.
(* remove the first occurrence; None when absent *)
Fixpoint rm_hold (i j : nat) (l : list (nat * nat)) : option (list (nat * nat)) :=
  match l with
  | [] => None
  | (i', j') :: r =>
      if (i =? i') && (j =? j') then Some r
      else match rm_hold i j r with Some r' => Some ((i', j') :: r') | None => None end
  end.
Fixpoint rm_fin (j : nat) (ok : bool) (l : list (nat * bool)) : option (list (nat * bool)) :=
  match l with
  | [] => None
  | (j', ok') :: r =>
      if (j =? j') && Bool.eqb ok ok' then Some r
      else match rm_fin j ok r with Some r' => Some ((j', ok') :: r') | None => None end
  end.

Definition lstep (cap : nat) (s : lst) (ev : lev) : option lst :=
  match l_entering s with
  | Some i' =>
      (* `async with` entered without suspension: the very next thing that happens is the creation of that caller's job *)
      match ev with
      | LCreate i j =>
          if (i =? i') && (j =? l_jobs s) then
            Some (mklst (l_count s) None (l_waiting s) (l_woken s) (l_holding s ++ [(i, j)]) (l_finished s) (l_calls s)
                        (S (l_jobs s)) (l_created s ++ [(i, j)]) (l_finlog s) (l_returned s))
          else None
      | _ => None
      end
  | None =>
      match ev with
      | LCall i =>
          if negb (i =? l_calls s) then None
          else if l_count s <? cap then
            Some (mklst (S (l_count s)) (Some i) (l_waiting s) (l_woken s) (l_holding s) (l_finished s) (S (l_calls s))
                        (l_jobs s) (l_created s) (l_finlog s) (l_returned s))
          else
            Some (mklst (l_count s) None (l_waiting s ++ [i]) (l_woken s) (l_holding s) (l_finished s) (S (l_calls s))
                        (l_jobs s) (l_created s) (l_finlog s) (l_returned s))
      | LCreate i j =>
          (* a released waiter resumes: _count += 1, then its job is created *)
          match l_woken s with
          | w :: ws =>
              if (i =? w) && (j =? l_jobs s) then
                Some (mklst (S (l_count s)) None (l_waiting s) ws (l_holding s ++ [(i, j)]) (l_finished s) (l_calls s)
                            (S (l_jobs s)) (l_created s ++ [(i, j)]) (l_finlog s) (l_returned s))
              else None
          | [] => None
          end
      | LFinish j ok =>
          if has_job j (l_holding s) && negb (has_fin j (l_finished s)) then
            Some (mklst (l_count s) None (l_waiting s) (l_woken s) (l_holding s) (l_finished s ++ [(j, ok)]) (l_calls s)
                        (l_jobs s) (l_created s) (l_finlog s ++ [(j, ok)]) (l_returned s))
          else None
      | LReturn i j ok =>
          (* results_async() completes, the `async with` block is left: _count -= 1, the first waiter is woken *)
          match rm_hold i j (l_holding s), rm_fin j ok (l_finished s) with
          | Some h', Some f' =>
              match l_waiting s with
              | w :: ws =>
                  Some (mklst (pred (l_count s)) None ws (l_woken s ++ [w]) h' f' (l_calls s) (l_jobs s) (l_created s)
                              (l_finlog s) (l_returned s ++ [(i, j)]))
              | [] =>
                  Some (mklst (pred (l_count s)) None [] (l_woken s) h' f' (l_calls s) (l_jobs s) (l_created s)
                              (l_finlog s) (l_returned s ++ [(i, j)]))
              end
          | _, _ => None
          end
      end
  end.

Fixpoint lrun_from (cap : nat) (s : lst) (tr : list lev) : option lst :=
  match tr with
  | [] => Some s
  | ev :: r => match lstep cap s ev with Some s' => lrun_from cap s' r | None => None end
  end.
Definition lrun (cap : nat) (tr : list lev) : option lst := lrun_from cap linit tr.

(* jobs created on the engine that the engine has not finished yet *)
Definition unfinished (s : lst) : nat :=
  length (filter (fun h => negb (has_fin (snd h) (l_finished s))) (l_holding s)).

(* no caller arrives while a released waiter has not resumed yet (between Limiter._release and the waiter's resumption
   _count does not account for the slot that was handed over) *)
Fixpoint calm_from (cap : nat) (s : lst) (tr : list lev) : bool :=
  match tr with
  | [] => true
  | ev :: r =>
      (match ev with LCall _ => match l_woken s with [] => true | _ => false end | _ => true end) &&
      match lstep cap s ev with Some s' => calm_from cap s' r | None => true end
  end.
Definition calm (cap : nat) (tr : list lev) : bool := calm_from cap linit tr.

(* ---- correspondence: the recorded run is accepted ---- *)
Definition lagrees (c : nat * list lev) : bool :=
  match lrun (fst c) (snd c) with Some _ => true | None => false end.
