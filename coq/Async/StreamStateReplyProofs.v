(* C20 — the server's 'already exists / does not exist' replies (Async/Stream.v, Generated/RetryTable.v): the client answers
   each of them with the right next request, so that a server that answers from its state never makes a submit end in a
   StreamError.  These are the statements the step oracle `state-reply` of vf/checks/c20.py judges the real run by. *)
From Coq Require Import List Bool Arith Lia.
From VF Require Import Async.StreamTypes Generated.RetryTable Async.Stream Async.StreamProofs Async.StreamProvenanceProofs.
Import ListNotations.

(* the replies about the existence of the program / the job that make sense for a request of each kind ... *)
Definition state_reply (r : req) (c : code) : bool :=
  match r, c with
  | CreateProgJob, PROGRAM_ALREADY_EXISTS | CreateProgJob, JOB_ALREADY_EXISTS
  | CreateJob, JOB_ALREADY_EXISTS | CreateJob, PROGRAM_DOES_NOT_EXIST
  | GetResult, JOB_DOES_NOT_EXIST => true
  | _, _ => false
  end.
(* ... and the requests that are right after them, by what the reply says: the job exists -> fetch its result; the program
   exists -> fetch the result (the job may exist as well) or create the job; the job does not exist -> create it; the program
   does not exist -> create program and job *)
Definition right_next (r : req) (c : code) (r' : req) : bool :=
  match r, c with
  | CreateProgJob, JOB_ALREADY_EXISTS | CreateJob, JOB_ALREADY_EXISTS => req_eqb r' GetResult
  | CreateProgJob, PROGRAM_ALREADY_EXISTS => req_eqb r' GetResult || req_eqb r' CreateJob
  | CreateJob, PROGRAM_DOES_NOT_EXIST => req_eqb r' CreateProgJob
  | GetResult, JOB_DOES_NOT_EXIST => req_eqb r' CreateJob || req_eqb r' CreateProgJob
  | _, _ => false
  end.

(* S1 (the regenerated table): none of these replies is raised; each is answered by a right request *)
Theorem state_reply_retry : forall r c, state_reply r c = true ->
  exists r', retry c r = Some r' /\ right_next r c r' = true.
Proof.
  intros r c H. destruct r, c; simpl in H; try discriminate; vm_compute; eexists; split; reflexivity.
Qed.

(* S2: the model server only ever answers with such replies *)
Theorem server_replies_sensible : forall w m m' c, serve_m w m = (m', MErr c) -> state_reply (wkind w) c = true.
Proof.
  intros w m m' c H. unfold serve_m, create_job in H. destruct (wkind w).
  - destruct (mem (wprog w) (progs m)); [inversion H; reflexivity|].
    destruct (mem (wjob w) (jobs m)); inversion H; reflexivity.
  - destruct (negb (mem (wprog w) (progs m))); [inversion H; reflexivity|].
    destruct (mem (wjob w) (jobs m)); inversion H; reflexivity.
  - destruct (mem (wjob w) (jobs m)); inversion H; reflexivity.
Qed.

(* S3: delivered to the execution that waits for it, such a reply makes that execution send a right next request in the same
   step (under a fresh message id) *)
Theorem state_reply_resent : forall pp pj fl evs k id c rest e x,
  let m := mrun pp pj fl evs in
  let m' := mrun pp pj fl (evs ++ [Respond k]) in
  take_nth k (pending m) = Some ((id, MErr c), rest) -> waits m e id ->
  nth_error (execs m) e = Some x -> state_reply (ecur x) c = true ->
  exists r', right_next (ecur x) c r' = true /\ In (S (clock m), e, next_id m, r') (obs_reqs m').
Proof.
  intros pp pj fl evs k id c rest e x m m' E Hw Hx Hs.
  destruct (state_reply_retry _ _ Hs) as [r' [Hr Hn]]. exists r'. split; [exact Hn|].
  pose proof (own_reply_delivered pp pj fl evs k id (MErr c) rest e E Hw) as H. simpl in H.
  destruct H as [y [Hy H]]. fold m in Hy. rewrite Hx in Hy. inversion Hy; subst y. rewrite Hr in H. exact H.
Qed.

(* ---- S4: a server that answers from its state never makes a submit raise a StreamError ---- *)

(* every request on the wire is the current request of whoever waits for its id; every error reply outstanding is a
   state reply to the current request of whoever waits for it; ids in use are below the counter *)
Record K (m : mgr) : Prop := mkK {
  k_wire : forall w e x, In w (wire m) -> nth_error (execs m) e = Some x -> ewait x = Some (wid w) -> ecur x = wkind w;
  k_pend : forall id c e x, In (id, MErr c) (pending m) -> nth_error (execs m) e = Some x -> ewait x = Some id ->
           state_reply (ecur x) c = true;
  k_wlt : forall w, In w (wire m) -> wid w < next_id m;
  k_plt : forall id p, In (id, p) (pending m) -> id < next_id m;
  k_elt : forall e x id, nth_error (execs m) e = Some x -> ewait x = Some id -> id < next_id m }.

Lemma K_weaken m m' :
  execs m' = execs m -> next_id m' = next_id m ->
  (forall w, In w (wire m') -> exists w0, In w0 (wire m) /\ wid w0 = wid w /\ wkind w0 = wkind w) ->
  (forall y, In y (pending m') -> In y (pending m)) -> K m -> K m'.
Proof.
  intros He Hn Hw Hp [K1 K2 K3 K4 K5]. constructor.
  - intros w e x Hin Hx Hwt. rewrite He in Hx. destruct (Hw w Hin) as [w0 [A [B C]]].
    rewrite <- C. apply (K1 w0 e x A Hx). rewrite B. exact Hwt.
  - intros id c e x Hin Hx Hwt. rewrite He in Hx. eapply K2; eauto.
  - intros w Hin. rewrite Hn. destruct (Hw w Hin) as [w0 [A [B C]]]. rewrite <- B. apply K3. exact A.
  - intros id p Hin. rewrite Hn. eapply K4. apply Hp. exact Hin.
  - intros e x id Hx Hwt. rewrite He in Hx. rewrite Hn. eapply K5; eauto.
Qed.

Lemma K_same m m' :
  execs m' = execs m -> next_id m' = next_id m -> wire m' = wire m -> pending m' = pending m -> K m -> K m'.
Proof.
  intros He Hn Hw Hp. apply K_weaken; auto.
  - intros w Hin. rewrite Hw in Hin. exists w. auto.
  - intros y Hin. rewrite Hp in Hin. exact Hin.
Qed.

Lemma K_send e r m : K m -> K (send e r m).
Proof.
  intros HK. unfold send. destruct (nth_error (execs m) e) as [x0|] eqn:E0; [|exact HK].
  destruct HK as [K1 K2 K3 K4 K5]. constructor; simpl.
  - intros w e' x Hin Hx Hwt. rewrite nth_error_update in Hx. apply in_app_or in Hin.
    destruct (e =? e') eqn:Ee.
    + apply Nat.eqb_eq in Ee. subst e'. rewrite E0 in Hx. simpl in Hx. inversion Hx; subst x. simpl in *.
      destruct Hin as [Hin|[Hin|[]]].
      * specialize (K3 w Hin). inversion Hwt. lia.
      * subst w. reflexivity.
    + destruct Hin as [Hin|[Hin|[]]].
      * eapply K1; eauto.
      * subst w. simpl in Hwt. specialize (K5 e' x _ Hx Hwt). lia.
  - intros id c e' x Hin Hx Hwt. rewrite nth_error_update in Hx.
    destruct (e =? e') eqn:Ee.
    + apply Nat.eqb_eq in Ee. subst e'. rewrite E0 in Hx. simpl in Hx. inversion Hx; subst x. simpl in *.
      specialize (K4 _ _ Hin). inversion Hwt. lia.
    + eapply K2; eauto.
  - intros w Hin. apply in_app_or in Hin. destruct Hin as [Hin|[Hin|[]]]; [specialize (K3 w Hin); lia|subst w; simpl; lia].
  - intros id p Hin. specialize (K4 _ _ Hin). lia.
  - intros e' x id Hx Hwt. rewrite nth_error_update in Hx.
    destruct (e =? e') eqn:Ee.
    + apply Nat.eqb_eq in Ee. subst e'. rewrite E0 in Hx. simpl in Hx. inversion Hx; subst x. simpl in Hwt.
      inversion Hwt. lia.
    + specialize (K5 _ _ _ Hx Hwt). lia.
Qed.

Lemma K_finish e o m : K m -> K (finish e o m).
Proof.
  intros [K1 K2 K3 K4 K5].
  assert (U : forall e' x, nth_error (execs (finish e o m)) e' = Some x ->
                exists x0, nth_error (execs m) e' = Some x0 /\ ecur x = ecur x0 /\ ewait x = ewait x0).
  { intros e' x Hx. unfold finish in Hx. simpl in Hx. rewrite nth_error_update in Hx.
    destruct (e =? e'); [|exists x; auto].
    destruct (nth_error (execs m) e') as [x0|]; simpl in Hx; [|discriminate]. inversion Hx; subst x. exists x0. auto. }
  constructor.
  - intros w e' x Hin Hx Hwt. destruct (U _ _ Hx) as [x0 [A [B C]]]. rewrite B. eapply K1; eauto. rewrite <- C. exact Hwt.
  - intros id c e' x Hin Hx Hwt. destruct (U _ _ Hx) as [x0 [A [B C]]]. rewrite B. eapply K2; eauto. rewrite <- C. exact Hwt.
  - exact K3.
  - exact K4.
  - intros e' x id Hx Hwt. destruct (U _ _ Hx) as [x0 [A [B C]]]. simpl. eapply K5; eauto. rewrite <- C. exact Hwt.
Qed.

Lemma K_cancel_exec e m : K m -> K (cancel_exec e m).
Proof. intros HK. unfold cancel_exec. eapply K_same; [| | | |apply K_finish; exact HK]; reflexivity. Qed.

Lemma K_cancel_if_running i m : K m -> K (cancel_if_running i m).
Proof.
  intros HK. unfold cancel_if_running. destruct (nth_error (execs m) i) as [x|]; [|exact HK].
  destruct (is_running (est x)); [apply K_cancel_exec|]; exact HK.
Qed.

Lemma K_on_payload e p m : K m -> K (on_payload e p m).
Proof.
  intros HK. unfold on_payload. destruct p as [r|c]; [apply K_finish; exact HK|].
  destruct (nth_error (execs m) e) as [x|]; [|exact HK].
  destruct (retry c (ecur x)); [apply K_send|apply K_finish]; exact HK.
Qed.

Lemma K_fold_broken x : forall ws m, K m -> K (fold_left (wake_broken x) ws m).
Proof.
  induction ws as [|s ws IH]; intros m HK; simpl; [exact HK|]. apply IH. unfold wake_broken.
  destruct (waiting_on m (snd s) (fst s)); [|exact HK].
  destruct (retryable x); [apply K_send|apply K_finish]; exact HK.
Qed.

Lemma K_fold_stopped : forall ws m, K m -> K (fold_left wake_stopped ws m).
Proof.
  induction ws as [|s ws IH]; intros m HK; simpl; [exact HK|]. apply IH. unfold wake_stopped.
  destruct (waiting_on m (snd s) (fst s)); [apply K_cancel_exec|]; exact HK.
Qed.

Lemma K_drop_stream m : K m -> K (drop_stream m).
Proof.
  apply K_weaken; try reflexivity.
  - intros w Hin. unfold drop_stream in Hin. simpl in Hin. apply in_map_iff in Hin. destruct Hin as [w0 [A B]].
    exists w0. subst w. auto.
  - intros y Hin. unfold drop_stream in Hin. simpl in Hin. contradiction.
Qed.

Lemma serve_m_frame w m : let m1 := fst (serve_m w m) in
  execs m1 = execs m /\ next_id m1 = next_id m /\ wire m1 = wire m /\ pending m1 = pending m.
Proof.
  unfold serve_m, create_job. destruct (wkind w).
  - destruct (mem (wprog w) (progs m)); [simpl; auto|]. destruct (mem (wjob w) (jobs m)); simpl; auto.
  - destruct (negb (mem (wprog w) (progs m))); [simpl; auto|]. destruct (mem (wjob w) (jobs m)); simpl; auto.
  - destruct (mem (wjob w) (jobs m)); simpl; auto.
Qed.

Definition honest (ev : event) : Prop := match ev with RejectReq _ _ => False | _ => True end.

Lemma K_step m ev : K m -> honest ev -> K (mstep m ev).
Proof.
  intros HK Hh. unfold mstep.
  assert (HK0 : K (set_clock (S (clock m)) m)) by (eapply K_same; [| | | |exact HK]; reflexivity).
  remember (set_clock (S (clock m)) m) as m0.
  destruct ev as [p|k|k cd|k|k|x|i| |x i]; simpl.
  - (* Submit *)
    apply K_send. destruct HK0 as [K1 K2 K3 K4 K5]. constructor; simpl; auto.
    + intros w e x Hin Hx Hwt. destruct (Nat.lt_ge_cases e (length (execs m0))) as [Hlt|Hge].
      * rewrite nth_error_app1 in Hx by exact Hlt. eapply K1; eauto.
      * rewrite nth_error_app2 in Hx by exact Hge. destruct (e - length (execs m0)) as [|n]; simpl in Hx.
        -- inversion Hx; subst x. simpl in Hwt. discriminate.
        -- destruct n; discriminate.
    + intros id c e x Hin Hx Hwt. destruct (Nat.lt_ge_cases e (length (execs m0))) as [Hlt|Hge].
      * rewrite nth_error_app1 in Hx by exact Hlt. eapply K2; eauto.
      * rewrite nth_error_app2 in Hx by exact Hge. destruct (e - length (execs m0)) as [|n]; simpl in Hx.
        -- inversion Hx; subst x. simpl in Hwt. discriminate.
        -- destruct n; discriminate.
    + intros e x id Hx Hwt. destruct (Nat.lt_ge_cases e (length (execs m0))) as [Hlt|Hge].
      * rewrite nth_error_app1 in Hx by exact Hlt. eapply K5; eauto.
      * rewrite nth_error_app2 in Hx by exact Hge. destruct (e - length (execs m0)) as [|n]; simpl in Hx.
        -- inversion Hx; subst x. simpl in Hwt. discriminate.
        -- destruct n; discriminate.
  - (* Process: the server answers from its state *)
    destruct (take_nth k (wire m0)) as [[w rest]|] eqn:E; [|exact HK0].
    destruct (take_nth_in _ _ _ _ E) as [Hw Hrest].
    pose proof (serve_m_frame w (set_wire rest m0)) as F. simpl in F.
    destruct (serve_m w (set_wire rest m0)) as [m1 pl] eqn:Es. simpl in F. destruct F as [F1 [F2 [F3 F4]]].
    assert (HK1 : K m1).
    { eapply K_weaken; [exact F1|exact F2| | |exact HK0].
      - intros w' Hin. rewrite F3 in Hin. simpl in Hin. exists w'. auto.
      - intros y Hin. rewrite F4 in Hin. exact Hin. }
    destruct (wlive w); [|exact HK1].
    destruct HK0 as [K1 K2 K3 K4 K5]. destruct HK1 as [L1 L2 L3 L4 L5].
    unfold reply. constructor; simpl; auto.
    + intros id c e x Hin Hx Hwt. apply in_app_or in Hin. destruct Hin as [Hin|[Hin|[]]]; [eapply L2; eauto|].
      inversion Hin; subst id pl. rewrite F1 in Hx. simpl in Hx.
      rewrite (K1 w e x Hw Hx Hwt). eapply server_replies_sensible. exact Es.
    + intros id p Hin. apply in_app_or in Hin. destruct Hin as [Hin|[Hin|[]]]; [eapply L4; eauto|].
      inversion Hin; subst id p. rewrite F2. simpl. apply K3. exact Hw.
  - contradiction.
  - (* Respond *)
    destruct (take_nth k (pending m0)) as [[[id pl] rest]|] eqn:E; [|exact HK0]. simpl.
    destruct (take_nth_in _ _ _ _ E) as [_ Hrest].
    assert (HK1 : K (set_pending rest m0)).
    { eapply (K_weaken m0); [reflexivity|reflexivity| | |exact HK0].
      - intros w Hin. exists w. auto.
      - intros y Hin. apply Hrest. exact Hin. }
    destruct (lookup id (subs m0)) as [e|]; [|exact HK1].
    assert (HK2 : K (set_subs (remove_sub id (subs m0)) (set_pending rest m0))) by (eapply K_same; [| | | |exact HK1]; reflexivity).
    destruct (waiting_on _ e id); [apply K_on_payload|]; exact HK2.
  - (* RespondCancel *)
    destruct (take_nth k (pending m0)) as [[[id pl] rest]|] eqn:E; [|exact HK0]. simpl.
    destruct (take_nth_in _ _ _ _ E) as [_ Hrest].
    assert (HK1 : K (set_pending rest m0)).
    { eapply (K_weaken m0); [reflexivity|reflexivity| | |exact HK0].
      - intros w Hin. exists w. auto.
      - intros y Hin. apply Hrest. exact Hin. }
    destruct (lookup id (subs m0)) as [e|]; [|exact HK1].
    assert (HK2 : K (set_subs (remove_sub id (subs m0)) (set_pending rest m0))) by (eapply K_same; [| | | |exact HK1]; reflexivity).
    destruct (waiting_on _ e id); [apply K_cancel_exec|]; exact HK2.
  - apply K_fold_broken. apply K_drop_stream. exact HK0.
  - destruct (nth_error (execs m0) i) as [y|]; [|exact HK0].
    destruct (is_running (est y)); [apply K_cancel_exec|]; exact HK0.
  - apply K_fold_stopped. apply K_drop_stream. exact HK0.
  - apply K_fold_broken. apply K_drop_stream. apply K_cancel_if_running. exact HK0.
Qed.

Lemma K_init pp pj fl : K (minit pp pj fl).
Proof. constructor; simpl; intros; try contradiction; destruct e; discriminate. Qed.

Lemma K_mrun pp pj fl : forall evs, Forall honest evs -> K (mrun pp pj fl evs).
Proof.
  induction evs as [|ev evs IH] using rev_ind; intros H.
  - apply K_init.
  - rewrite mrun_snoc. apply Forall_app in H. destruct H as [H1 H2]. inversion H2; subst.
    apply K_step; auto.
Qed.

(* one event adds no StreamError outcome when the outstanding error replies are state replies *)
Lemma stream_error_respond m k c0 e cd : K m ->
  In (c0, e, ORaisedStream cd) (ldones (mstep m (Respond k))) -> In (c0, e, ORaisedStream cd) (ldones m).
Proof.
  intros HK H. unfold mstep in H. simpl in H.
  destruct (take_nth k (pending m)) as [[[id pl] rest]|] eqn:E; [|exact H]. simpl in H.
  destruct (take_nth_in _ _ _ _ E) as [Hin _].
  destruct (lookup id (subs m)) as [e1|] eqn:El; [|exact H].
  destruct (waiting_on _ e1 id) eqn:Hw; [|exact H].
  apply waiting_on_iff in Hw. destruct Hw as [y [Hy [Hr Hwt]]]. simpl in Hy.
  unfold on_payload in H. destruct pl as [r|c].
  - simpl in H. destruct H as [H|H]; [discriminate|exact H].
  - simpl in H. rewrite Hy in H.
    pose proof (k_pend m HK id c e1 y Hin Hy Hwt) as Hs. destruct (state_reply_retry _ _ Hs) as [r' [Hr' _]].
    rewrite Hr' in H. rewrite ldones_send in H. exact H.
Qed.

Lemma stream_error_step m ev c0 e cd : K m -> honest ev ->
  In (c0, e, ORaisedStream cd) (ldones (mstep m ev)) -> In (c0, e, ORaisedStream cd) (ldones m).
Proof.
  intros HK Hh H.
  destruct ev as [p|k|k cd'|k|k|x|i| |x i]; try (eapply stream_error_respond; eassumption);
    apply outcome_provenance_step in H; destruct H as [H|[_ H]]; try exact H; simpl in H; try contradiction.
  - destruct H as [id [p [rest [_ [_ [_ H]]]]]]. discriminate.
  - destruct H as [H _]. discriminate.
  - destruct H as [_ H]. discriminate.
  - destruct H as [H _]. discriminate.
  - destruct H as [[_ H]|[H _]]; discriminate.
Qed.

Theorem honest_server_no_stream_error : forall pp pj fl evs, Forall honest evs ->
  forall c0 e cd, ~ In (c0, e, ORaisedStream cd) (obs_dones (mrun pp pj fl evs)).
Proof.
  intros pp pj fl evs. induction evs as [|ev evs IH] using rev_ind; intros H c0 e cd Hin.
  - vm_compute in Hin. exact Hin.
  - apply Forall_app in H. destruct H as [H1 H2]. inversion H2; subst.
    unfold obs_dones in Hin. apply in_rev in Hin. rewrite mrun_snoc in Hin.
    apply stream_error_step in Hin; [|apply K_mrun; exact H1|assumption].
    apply (IH H1 c0 e cd). unfold obs_dones. apply in_rev. rewrite rev_involutive. exact Hin.
Qed.
