(* C20 — "whatever way the stream fails": a failure of the response stream that is not a google API error at all
   (an unwrapped transport error, a failed credential refresh, an error of the client library, a BaseException) is never
   retried, whatever the regenerated `is_retryable` column says about it, and therefore reaches every submitter that was
   in flight, as that very failure; after any failure that is not retryable nobody is left waiting, nothing stays
   subscribed, no response is outstanding and no request is live — and the manager is usable again: the next submit
   is running, is the only subscriber and its request is the only live request (on a new stream).  These are the
   statements the step oracles `surface` / `orphan` and the drained grid `stream_fatal_break` of vf/checks/c20.py judge
   the real run by. *)
From Coq Require Import List Bool Arith Lia.
From VF Require Import Async.StreamTypes Generated.RetryTable Async.Stream Async.StreamProofs.
Import ListNotations.

(* independent of the table's is_retryable entries *)
Lemma foreign_not_retryable : forall x, is_api x = false -> retryable x = false.
Proof. intros x H. unfold retryable. rewrite H. reflexivity. Qed.

(* one execution: the failure surfaces whether the server had handled the request or not *)
Theorem foreign_failure_surfaces_client : forall f s zs cur fs x, is_api x = false ->
  out_of (client (S f) s zs cur (BreakBefore x :: fs)) = RaisedExn x /\
  out_of (client (S f) s zs cur (BreakAfter x :: fs)) = RaisedExn x.
Proof.
  intros f s zs cur fs x H. destruct (nonretryable_surfaces f s zs cur fs) as [A _]. apply A. apply foreign_not_retryable. exact H.
Qed.

(* the manager: every submit in flight ends with that failure *)
Theorem foreign_failure_surfaces : forall pp pj fl evs x e,
  is_api x = false -> running (mrun pp pj fl evs) e ->
  exists y, nth_error (execs (mrun pp pj fl (evs ++ [Break x]))) e = Some y /\ est y = Finished (ORaisedExn x).
Proof. intros pp pj fl evs x e H. apply break_surfaces_m. apply foreign_not_retryable. exact H. Qed.

(* ---- after a failure that is not retryable the manager is quiescent ---- *)
Lemma fold_broken_fatal_frame x : retryable x = false -> forall ws m,
  let m' := fold_left (wake_broken x) ws m in
  subs m' = subs m /\ pending m' = pending m /\ wire m' = wire m /\ next_id m' = next_id m /\
  length (execs m') = length (execs m).
Proof.
  intros Hx. induction ws as [|s ws IH]; intros m; simpl; [repeat split; reflexivity|].
  destruct (IH (wake_broken x m s)) as [A [B [C [D E]]]]. unfold wake_broken in A, B, C, D, E |- *. rewrite Hx in *.
  destruct (waiting_on m (snd s) (fst s)).
  - revert A B C D E. msimpl. intros A B C D E. repeat split; auto.
    rewrite E. clear. generalize (snd s). induction (execs m) as [|a l IHl]; intros [|n]; simpl; auto.
  - repeat split; auto.
Qed.

Lemma live_ids_kill : forall l, map wid (filter wlive (map kill l)) = [].
Proof. induction l as [|w l IH]; simpl; auto. Qed.

Theorem fatal_break_quiesces : forall pp pj fl evs x, retryable x = false ->
  let m' := mrun pp pj fl (evs ++ [Break x]) in
  (forall e, ~ running m' e) /\ subs m' = [] /\ pending m' = [] /\ live_ids m' = [].
Proof.
  intros pp pj fl evs x Hx m'.
  assert (F : subs m' = [] /\ pending m' = [] /\ live_ids m' = []).
  { unfold m'. rewrite mrun_snoc. unfold mstep.
    match goal with |- context [fold_left _ ?WS ?M] => destruct (fold_broken_fatal_frame x Hx WS M) as [A [B [C _]]] end.
    unfold live_ids. rewrite A, B, C. msimpl. repeat split; auto. apply live_ids_kill. }
  destruct F as [A [B C]]. repeat split; auto.
  intros e Hr. destruct (no_lost_request pp pj fl (evs ++ [Break x])) as [_ H].
  destruct (H e Hr) as [id [_ [Hs _]]]. fold m' in Hs. rewrite A in Hs. exact Hs.
Qed.

(* ---- ... and usable again: the next submit is alone on a new stream ---- *)
Lemma nth_error_snoc {A} (l : list A) (a : A) : nth_error (l ++ [a]) (length l) = Some a.
Proof. induction l as [|b l IH]; simpl; auto. Qed.

Lemma update_snoc {A} (f : A -> A) (l : list A) (a : A) : update (length l) f (l ++ [a]) = l ++ [f a].
Proof. induction l as [|b l IH]; simpl; auto. rewrite IH. reflexivity. Qed.

Theorem usable_after_fatal_break : forall pp pj fl evs x p, retryable x = false ->
  let m1 := mrun pp pj fl (evs ++ [Break x]) in
  let m2 := mrun pp pj fl (evs ++ [Break x; Submit p]) in
  let e := length (execs m1) in
  running m2 e /\ waits m2 e (next_id m1) /\ subs m2 = [(next_id m1, e)] /\ live_ids m2 = [next_id m1] /\ pending m2 = [] /\
  forall e', running m2 e' -> e' = e.
Proof.
  intros pp pj fl evs x p Hx m1 m2 e.
  destruct (fatal_break_quiesces pp pj fl evs x Hx) as [Hn [Hs [Hp Hl]]]. fold m1 in Hn, Hs, Hp, Hl.
  assert (E2 : m2 = mstep m1 (Submit p)).
  { unfold m2, m1. replace (evs ++ [Break x; Submit p]) with ((evs ++ [Break x]) ++ [Submit p]) by (rewrite <- app_assoc; reflexivity).
    apply mrun_snoc. }
  assert (S2 : subs m2 = [(next_id m1, e)] /\ live_ids m2 = [next_id m1] /\ pending m2 = [] /\
               execs m2 = execs m1 ++ [mkexec p CreateProgJob (Some (next_id m1)) Running]).
  { rewrite E2. unfold mstep, send. msimpl. rewrite nth_error_snoc. unfold live_ids. msimpl.
    rewrite Hs, Hp. rewrite filter_app, map_app. unfold live_ids in Hl. rewrite Hl. simpl.
    split; [reflexivity|]. split; [reflexivity|]. split; [reflexivity|]. unfold e. rewrite update_snoc. reflexivity. }
  destruct S2 as [A [B [C D]]].
  assert (W2 : waits m2 e (next_id m1)).
  { unfold waits. rewrite D. unfold e. rewrite nth_error_snoc. eexists; repeat split; reflexivity. }
  repeat split; auto.
  - eapply waits_running; eauto.
  - intros e' Hr. destruct (Nat.eq_dec e' e) as [|Hne]; auto. exfalso.
    destruct Hr as [y [Hy Hrun]]. rewrite D in Hy.
    destruct (Nat.lt_ge_cases e' (length (execs m1))) as [Hlt|Hge].
    + rewrite nth_error_app1 in Hy by exact Hlt. apply (Hn e'). exists y; auto.
    + assert (Hnone : nth_error (execs m1 ++ [mkexec p CreateProgJob (Some (next_id m1)) Running]) e' = None).
      { apply nth_error_None. rewrite app_length. simpl. unfold e in Hne. lia. }
      congruence.
Qed.
