(* C16 — deciding obligations. Statements only, closed by the lemmas proved elsewhere. *)
From Coq Require Import ZArith List Bool.
From VF Require Import Codec.PackBits Codec.PackBitsProofs.
Import ListNotations.
Open Scope Z_scope.

(* ---- bit packing of any number of repetitions ---- *)
Theorem C16_pack_unpack_bits : forall bits, unpack_bits (pack_bits bits) (length bits) = bits.
Proof. exact pack_unpack_bits. Qed.
Print Assumptions C16_pack_unpack_bits.

(* what reaches the wire beyond the data is zero padding up to the next byte, nothing else *)
Theorem C16_pack_padding_zero : forall bits,
  unpack_all (pack_bits bits) = bits ++ repeat false (pad_len (length bits)).
Proof. exact unpack_all_pack. Qed.
Print Assumptions C16_pack_padding_zero.

Theorem C16_pack_bits_length : forall bits,
  (8 * length (pack_bits bits) = length bits + pad_len (length bits))%nat.
Proof. exact pack_bits_length. Qed.
Print Assumptions C16_pack_bits_length.

Theorem C16_pack_bits_bytes : forall bits, Forall (fun b => 0 <= b < 256) (pack_bits bits).
Proof. exact pack_bits_bytes. Qed.
Print Assumptions C16_pack_bits_bytes.

(* little-endian within a byte: repetition i is bit (i mod 8) of byte (i / 8) *)
Theorem C16_pack_bits_little_endian : forall bits i, (i < length bits)%nat ->
  Z.testbit (nth (i / 8) (pack_bits bits) 0) (Z.of_nat (i mod 8)) = nth i bits false.
Proof. exact pack_bits_bit. Qed.
Print Assumptions C16_pack_bits_little_endian.

Example C16_pack_example : pack_bits [true; false; false; false; false; false; false; false; true; true] = [1; 3]
  /\ (1 < length [true; false])%nat.
Proof. split; [reflexivity|repeat constructor]. Qed.
