(* C16 — deciding obligations. Statements only, closed by the lemmas proved elsewhere. *)
From Coq Require Import ZArith List Bool.
From VF Require Import Codec.PackBits Codec.PackBitsProofs.
Import ListNotations.
Open Scope Z_scope.

(* ---- bit packing of any number of repetitions ---- *)
Theorem C16_pack_unpack_bits : forall bits, unpack_bits (pack_bits bits) (length bits) = bits.
Proof. exact pack_unpack_bits. Qed.
Print Assumptions C16_pack_unpack_bits.

(* what reaches the wire beyond the data is zero padding up to the next byte, nothing else *)
Theorem C16_pack_padding_zero : forall bits,
  unpack_all (pack_bits bits) = bits ++ repeat false (pad_len (length bits)).
Proof. exact unpack_all_pack. Qed.
Print Assumptions C16_pack_padding_zero.

Theorem C16_pack_bits_length : forall bits,
  (8 * length (pack_bits bits) = length bits + pad_len (length bits))%nat.
Proof. exact pack_bits_length. Qed.
Print Assumptions C16_pack_bits_length.

Theorem C16_pack_bits_bytes : forall bits, Forall (fun b => 0 <= b < 256) (pack_bits bits).
Proof. exact pack_bits_bytes. Qed.
Print Assumptions C16_pack_bits_bytes.

(* little-endian within a byte: repetition i is bit (i mod 8) of byte (i / 8) *)
Theorem C16_pack_bits_little_endian : forall bits i, (i < length bits)%nat ->
  Z.testbit (nth (i / 8) (pack_bits bits) 0) (Z.of_nat (i mod 8)) = nth i bits false.
Proof. exact pack_bits_bit. Qed.
Print Assumptions C16_pack_bits_little_endian.

(* ================= result messages (model: Codec/PackBitsResults.v) ================= *)
From VF Require Import Codec.PackBitsResults Codec.PackBitsResultsProofs.

(* results_from_proto(results_to_proto(r, m), m) gives back every key, instance, qubit and repetition in place *)
Theorem C16_results_proto_roundtrip : forall ms sweeps msg, ms_wf ms -> results_to_proto ms sweeps = Some msg ->
  results_from_proto (Some ms) msg = Some (map (map (restrict ms)) sweeps).
Proof. exact results_proto_roundtrip. Qed.
Print Assumptions C16_results_proto_roundtrip.

Theorem C16_mr_roundtrip : forall R m data mr,
  mr_to_proto R m data = Some mr -> NoDup (m_qubits m) -> (1 <= m_instances m)%nat ->
  mr_from_proto R (Some (m_qubits m)) mr = Some (m_key m, data).
Proof. exact mr_roundtrip. Qed.
Print Assumptions C16_mr_roundtrip.

(* without a measurement list: message order is the order the qubits were written in *)
Theorem C16_mr_roundtrip_message_order : forall R m data mr,
  mr_to_proto R m data = Some mr -> NoDup (m_qubits m) -> (1 <= m_instances m)%nat ->
  mr_from_proto R None mr = Some (m_key m, data).
Proof. exact mr_roundtrip_message_order. Qed.
Print Assumptions C16_mr_roundtrip_message_order.

(* decoding against a permuted qubit list permutes the columns accordingly, and nothing else *)
Theorem C16_mr_roundtrip_permuted : forall R m data mr (perm : list nat),
  mr_to_proto R m data = Some mr -> NoDup (m_qubits m) -> (1 <= m_instances m)%nat ->
  length perm = length (m_qubits m) -> (forall p, In p perm -> (p < length (m_qubits m))%nat) ->
  mr_from_proto R (Some (map (fun p => nth p (m_qubits m) 0) perm)) mr
  = Some (m_key m, map (map (fun row => map (fun p => nth p row false) perm)) data).
Proof. exact mr_roundtrip_perm. Qed.
Print Assumptions C16_mr_roundtrip_permuted.

(* ================= constants table (model: Codec/Intern.v) ================= *)
From VF Require Import Codec.Intern Codec.InternProofs.

Section C16_Intern.
  Variables Q G T P : Type.
  Variable eqQ : Q -> Q -> bool.
  Variable eqG : G -> G -> bool.
  Variable eqT : T -> T -> bool.
  Variable eqP : P -> P -> bool.
  Hypothesis eqQ_spec : forall a b, eqQ a b = true <-> a = b.
  Hypothesis eqG_spec : forall a b, eqG a b = true <-> a = b.
  Hypothesis eqT_spec : forall a b, eqT a b = true <-> a = b.
  Hypothesis eqP_spec : forall a b, eqP a b = true <-> a = b.

  (* deserialize(serialize(c)) = c for every circuit over abstract leaves with decidable equality; a deserialised
     moment lists its circuit operations first (canon), which Moment equality does not distinguish *)
  Theorem C16_intern_roundtrip : forall c : circuit Q G T P,
    deserialize (serialize eqQ eqG eqT eqP c) = Some (canon_circuit c).
  Proof. exact (intern_roundtrip Q G T P eqQ eqG eqT eqP eqQ_spec eqG_spec eqT_spec eqP_spec). Qed.

  Theorem C16_intern_roundtrip_exact : forall c : circuit Q G T P, cf_cir Q G T P c = true ->
    deserialize (serialize eqQ eqG eqT eqP c) = Some c.
  Proof. exact (intern_roundtrip_exact Q G T P eqQ eqG eqT eqP eqQ_spec eqG_spec eqT_spec eqP_spec). Qed.

  Theorem C16_canon_moment_partition : forall (ops : list (op Q G T P)) (ts : list T),
    canon_moment (Mom ops ts) =
    Mom (map canon_op (filter is_circ ops) ++ map canon_op (filter (fun o => negb (is_circ o)) ops)) ts.
  Proof. exact (canon_moment_partition Q G T P). Qed.

  (* every index refers backwards: constant i only mentions indices below i, the circuit only indices in the table *)
  Theorem C16_intern_indices_backward : forall c : circuit Q G T P,
    backward (serialize eqQ eqG eqT eqP c) = true.
  Proof. exact (intern_indices_backward Q G T P eqQ eqG eqT eqP eqQ_spec eqG_spec eqT_spec eqP_spec). Qed.

  (* equal things share an index, unequal things never do, and every index holds the decoded form of its item *)
  Theorem C16_intern_share : forall c : circuit Q G T P,
    let st := serialize_state eqQ eqG eqT eqP c in
    NoDup (map fst (raw st)) /\ NoDup (map snd (raw st)) /\
    exists vals, decode_consts (consts st) = Some vals /\
      forall k i, In (k, i) (raw st) -> nth_error vals i = Some (val_of_key Q G T P k).
  Proof. exact (intern_share Q G T P eqQ eqG eqT eqP eqQ_spec eqG_spec eqT_spec eqP_spec). Qed.

  Theorem C16_intern_equal_share : forall (c : circuit Q G T P) k i j,
    In (k, i) (raw (serialize_state eqQ eqG eqT eqP c)) -> In (k, j) (raw (serialize_state eqQ eqG eqT eqP c)) -> i = j.
  Proof. exact (intern_equal_share Q G T P eqQ eqG eqT eqP eqQ_spec eqG_spec eqT_spec eqP_spec). Qed.

  Theorem C16_intern_unequal_never_share : forall (c : circuit Q G T P) k k' i,
    In (k, i) (raw (serialize_state eqQ eqG eqT eqP c)) -> In (k', i) (raw (serialize_state eqQ eqG eqT eqP c)) -> k = k'.
  Proof. exact (intern_unequal_never_share Q G T P eqQ eqG eqT eqP eqQ_spec eqG_spec eqT_spec eqP_spec). Qed.
End C16_Intern.
Print Assumptions C16_intern_roundtrip.
Print Assumptions C16_intern_roundtrip_exact.
Print Assumptions C16_canon_moment_partition.
Print Assumptions C16_intern_indices_backward.
Print Assumptions C16_intern_share.
Print Assumptions C16_intern_equal_share.
Print Assumptions C16_intern_unequal_never_share.

Example C16_pack_example : pack_bits [true; false; false; false; false; false; false; false; true; true] = [1; 3]
  /\ (1 < length [true; false])%nat.
Proof. split; [reflexivity|repeat constructor]. Qed.

(* non-vacuity of the hypotheses: a well-formed measurement list / an encodable result / leaf equalities exist *)
Example C16_results_example :
  ms_wf [mkM 0 [5; 3] 2; mkM 1 [7] 1] /\
  results_to_proto [mkM 0 [5; 3] 2]
    [[mkT 3 [(0, [[[true; false]; [false; false]]; [[true; true]; [false; true]]; [[false; false]; [true; false]]])]]]
  = Some [mkSR 3 [[mkMR 0 2 [(5, [37]); (3, [12])]]]].
Proof.
  split; [|reflexivity]. split.
  - repeat constructor; simpl; intuition discriminate.
  - intros m [<-|[<-|[]]]; split; simpl; repeat constructor; simpl; intuition discriminate.
Qed.
Example C16_intern_example :
  (forall a b, Nat.eqb a b = true <-> a = b) /\
  cf_cir nat nat nat nat (Cir [Mom [Circ 3 (Cir [Mom [Gate 5 [0; 1] [7]] []] [9]); Gate 5 [0; 1] [7]] [8]] [7])%nat = true.
Proof. split; [apply Nat.eqb_eq|reflexivity]. Qed.

(* ================= qubit ids (model: Codec/QubitId.v) ================= *)
From VF Require Import Codec.QubitId Codec.QubitIdProofs.

(* qubit_from_proto_id(qubit_to_proto_id(q)) = q for every qubit of the documented vocabulary: grid and line qubits with
   any signed coordinates, named qubits whose name is not of another form, couplers between two line, two grid or two
   named qubits *)
Theorem C16_qubit_id_roundtrip : forall q, supported q -> from_id (to_id q) = q.
Proof. exact qubit_id_roundtrip. Qed.
Print Assumptions C16_qubit_id_roundtrip.

Theorem C16_qubit_id_grid : forall r c, from_id (to_id (Grid r c)) = Grid r c.
Proof. exact from_to_grid. Qed.
Print Assumptions C16_qubit_id_grid.

Theorem C16_qubit_id_line : forall x, from_id (to_id (Line x)) = Line x.
Proof. exact from_to_line. Qed.
Print Assumptions C16_qubit_id_line.

(* two qubits of the vocabulary never share an id *)
Theorem C16_qubit_id_injective : forall q1 q2, supported q1 -> supported q2 -> to_id q1 = to_id q2 -> q1 = q2.
Proof. exact qubit_id_injective. Qed.
Print Assumptions C16_qubit_id_injective.

(* outside the vocabulary the statement is false (finding circuit:qubit-id-ambiguous): NamedQubit('3') -> LineQubit(3) *)
Theorem C16_qubit_id_roundtrip_refuted : exists q, from_id (to_id q) <> q.
Proof. exact qubit_id_roundtrip_refuted. Qed.
Print Assumptions C16_qubit_id_roundtrip_refuted.

Example C16_qubit_id_example :
  supported (Coupler (Named [97]) (Named [120; 45; 49])) /\ supported (Line (-12)) /\
  to_id (Coupler (Grid (-3) 4) (Grid (-2) 4)) = [99; 95; 45; 51; 95; 52; 95; 45; 50; 95; 52].
Proof. split; [exact supported_example|split; [constructor|reflexivity]]. Qed.

(* ================= sweep values with units (model: Codec/UnitValues.v) ================= *)
From Coq Require Import QArith Qabs.
From VF Require Import Codec.UnitValues Codec.UnitValuesProofs.

(* the magnitudes travel in the unit of the first value; read back, every value is the same physical quantity,
   whatever units the end points of a Linspace / the points of a Points sweep were given in *)
Theorem C16_unit_values_roundtrip_exact : forall vs e, encode (fun x => x) vs = Some e ->
  Forall2 (fun v w => (phys w == phys v)%Q) vs (decode e).
Proof. exact encode_decode_exact. Qed.
Print Assumptions C16_unit_values_roundtrip_exact.

(* with a rounding of the stored magnitude of relative error eps (float32 / float64), the physical value has relative
   error eps as well: the unit conversion does not amplify it *)
Theorem C16_unit_values_roundtrip_rounded : forall (rnd : Q -> Q) (eps : Q) vs e,
  (forall x, (Qabs (rnd x - x) <= eps * Qabs x)%Q) -> encode rnd vs = Some e ->
  Forall2 (fun v w => (Qabs (phys w - phys v) <= eps * Qabs (phys v))%Q) vs (decode e).
Proof. exact encode_decode_rounded. Qed.
Print Assumptions C16_unit_values_roundtrip_rounded.

(* storing each magnitude as it stands next to the first unit is not a round trip: 500 ns .. 2 us -> 500 ns .. 2 ns *)
Theorem C16_unit_values_as_they_stand_refuted :
  exists vs, ~ Forall2 (fun v w => (phys w == phys v)%Q) vs (map (fun v => (fst v, snd (hd (0%Q, 0%Z) vs))) vs).
Proof. exact magnitudes_as_they_stand_refuted. Qed.
Print Assumptions C16_unit_values_as_they_stand_refuted.

Example C16_unit_values_example :
  (forall x, (Qabs ((fun y => y) x - x) <= 0 * Qabs x)%Q) /\
  encode (fun x => x) [(500 # 1, (-9)%Z); (2 # 1, (-6)%Z)] = Some ([500 # 1; ((2 # 1) * pow10 3)%Q], (-9)%Z).
Proof. exact rounding_example. Qed.

(* ================= device specifications: qubits and couplings (model: Codec/DeviceSpec.v) ================= *)
From VF Require Import Codec.DeviceSpec Codec.DeviceSpecProofs.

(* the device read from a specification holds a coupling between a and b exactly when the specification lists the target
   [a; b] or [b; a] in a target set whose ordering is SYMMETRIC (device.proto: "Two-qubit gates can be applied to all
   two-element targets in a TargetSet of this type"); targets of any other set, of any size, add nothing *)
Theorem C16_device_couplings_exact : forall s d, from_proto s = Some d ->
  forall a b, coupled d a b = true <-> coupling s a b.
Proof. exact from_proto_coupled. Qed.
Print Assumptions C16_device_couplings_exact.

(* validate_operation for a two-qubit gate other than measurement / wait accepts exactly the described couplings *)
Theorem C16_device_validate_two_qubit : forall s d, from_proto s = Some d ->
  forall a b, validate_op d false [a; b] = true <-> coupling s a b.
Proof. exact validate_two_qubit. Qed.
Print Assumptions C16_device_validate_two_qubit.

(* measurement / wait on any qubits, and gates on one or on three and more qubits, only need their qubits on the device *)
Theorem C16_device_validate_other : forall s d, from_proto s = Some d -> forall variadic qs,
  (variadic = true \/ length qs <> 2%nat) ->
  (validate_op d variadic qs = true <-> Forall (fun q => In q (valid_qubits s)) qs).
Proof. exact validate_other. Qed.
Print Assumptions C16_device_validate_other.

(* a specification without SYMMETRIC sets (measurement targets, sets of unspecified ordering) couples nothing *)
Theorem C16_device_no_symmetric_no_coupling : forall s d,
  (forall ts, In ts (valid_targets s) -> ts_ordering ts <> Symmetric) -> from_proto s = Some d ->
  d_pairs d = [] /\ forall a b, validate_op d false [a; b] = false.
Proof. exact no_symmetric_no_coupling. Qed.
Print Assumptions C16_device_no_symmetric_no_coupling.

(* GridDevice.from_proto(d.to_proto()) == d, for the device read from any accepted specification and for any device object *)
Theorem C16_device_spec_roundtrip : forall s d, from_proto s = Some d -> from_proto (to_proto d) = Some d.
Proof. exact spec_device_roundtrip. Qed.
Print Assumptions C16_device_spec_roundtrip.

Theorem C16_device_to_proto_roundtrip : forall d, wf_device d -> from_proto (to_proto d) = Some d.
Proof. exact from_to_proto. Qed.
Print Assumptions C16_device_to_proto_roundtrip.

Theorem C16_device_from_proto_wf : forall s d, from_proto s = Some d -> wf_device d.
Proof. exact from_proto_wf. Qed.
Print Assumptions C16_device_from_proto_wf.

(* the specification the device writes describes the qubits and couplings of the specification it was read from *)
Theorem C16_device_to_proto_same_meaning : forall s d, from_proto s = Some d ->
  (forall q, In q (valid_qubits (to_proto d)) <-> In q (valid_qubits s)) /\
  (forall a b, coupling (to_proto d) a b <-> coupling s a b).
Proof. exact to_proto_same_meaning. Qed.
Print Assumptions C16_device_to_proto_same_meaning.

Example C16_device_spec_examples :
  from_proto ex_meas_spec = Some {| d_qubits := [(0, 0); (2, 2)]; d_pairs := [] |} /\
  (forall ts, In ts (valid_targets ex_meas_spec) -> ts_ordering ts <> Symmetric) /\
  validate_op {| d_qubits := [(0, 0); (2, 2)]; d_pairs := [] |} true [(0, 0); (2, 2)] = true /\
  from_proto ex_pair_spec = Some {| d_qubits := [(0, 0); (0, 1); (1, 1)]; d_pairs := [((0, 0), (0, 1)); ((0, 1), (1, 1))] |} /\
  wf_device {| d_qubits := [(0, 0); (0, 1); (1, 1)]; d_pairs := [((0, 0), (0, 1)); ((0, 1), (1, 1))] |} /\
  coupling ex_pair_spec (0, 0) (0, 1) /\ ~ coupling ex_pair_spec (0, 0) (1, 1).
Proof. exact device_spec_examples. Qed.

(* ================= array-valued arguments (model: Codec/NdArray.v) ================= *)
From VF Require Import Codec.NdArray Codec.NdArrayProofs.

(* from_*_array(to_*_array(a)) has the shape of a and, at every index, the element a has there -- for every array with
   at least one axis, whatever its strides (C- or Fortran-contiguous, transposed, sliced, reversed, broadcast) and offset *)
Theorem C16_ndarray_roundtrip : forall (A : Type) (d : A) buf v, v_shape v <> [] ->
  exists flat, from_msg (to_msg d buf v) = Some (v_shape v, flat) /\
               forall idx, in_bounds (v_shape v) idx -> from_flat d (v_shape v) flat idx = NdArray.get d buf v idx.
Proof. exact @nd_roundtrip. Qed.
Print Assumptions C16_ndarray_roundtrip.

(* what is written depends on the shape and on the element at each index only, never on the memory layout *)
Theorem C16_ndarray_layout_independent : forall (A : Type) (d : A) buf1 v1 buf2 v2, v_shape v1 = v_shape v2 ->
  (forall idx, in_bounds (v_shape v1) idx -> NdArray.get d buf1 v1 idx = NdArray.get d buf2 v2 idx) ->
  to_msg d buf1 v1 = to_msg d buf2 v2.
Proof. exact @nd_layout_independent. Qed.
Print Assumptions C16_ndarray_layout_independent.

Theorem C16_ndarray_flat_length : forall (A : Type) (d : A) buf v, length (to_flat d buf v) = nd_size (v_shape v).
Proof. exact @to_flat_length. Qed.
Print Assumptions C16_ndarray_flat_length.

(* the statement without "at least one axis" is false of the code: a zero-dimensional array cannot be read back *)
Theorem C16_ndarray_roundtrip_zero_dim_refuted : exists (buf : list Z) v, from_msg (to_msg 0%Z buf v) = None.
Proof. exact nd_roundtrip_zero_dim_refuted. Qed.
Print Assumptions C16_ndarray_roundtrip_zero_dim_refuted.

(* bit arrays: packed most significant bit first in the C order of the indices, zero padded *)
Theorem C16_bitarray_roundtrip : forall (d : bool) buf v, v_shape v <> [] ->
  from_bitmsg (to_bitmsg d buf v) = Some (v_shape v, to_flat d buf v).
Proof. exact bitarray_roundtrip. Qed.
Print Assumptions C16_bitarray_roundtrip.

Example C16_ndarray_example :
  let buf := [10; 11; 12; 13; 14; 15]%Z in
  let c := mkV [2; 3]%nat [3; 1]%Z 0%Z in
  let t := mkV [3; 2]%nat [1; 3]%Z 0%Z in
  let r := mkV [2; 3]%nat [-3; -1]%Z 5%Z in
  to_msg 0%Z buf c = ([2; 3]%nat, [10; 11; 12; 13; 14; 15]%Z) /\
  to_msg 0%Z buf t = ([3; 2]%nat, [10; 13; 11; 14; 12; 15]%Z) /\
  to_msg 0%Z buf r = ([2; 3]%nat, [15; 14; 13; 12; 11; 10]%Z) /\
  from_flat 0%Z [3; 2]%nat (snd (to_msg 0%Z buf t)) [1; 1]%nat = 14%Z /\
  v_shape t <> [] /\ in_bounds (v_shape t) [1; 1]%nat.
Proof. exact nd_example. Qed.

(* ================= measurements of a program (model: Codec/FindMeasurements.v) ================= *)
From VF Require Import Codec.FindMeasurements Codec.FindMeasurementsProofs.

(* the measurement list of an accepted program has one entry per key, and every operation that writes to a key measures
   the entry's qubits in the entry's order with the entry's invert mask and tags *)
Theorem C16_find_measurements_sound : forall ops ms, find_measurements ops = Some ms ->
  NoDup (map x_key ms) /\ (forall m, In m ms -> describes ops m) /\
  (forall o, In o ops -> exists m, In m ms /\ x_key m = o_key o).
Proof. exact find_measurements_sound. Qed.
Print Assumptions C16_find_measurements_sound.

(* programs that measure a key alike every time (on grid qubits) are accepted *)
Theorem C16_find_measurements_defined : forall ops,
  (forall a b, In a ops -> In b ops -> o_key a = o_key b -> alike a b) ->
  (forall o, In o ops -> o_grid o = true) -> exists ms, find_measurements ops = Some ms.
Proof. exact find_measurements_defined. Qed.
Print Assumptions C16_find_measurements_defined.

(* the record of a key is data[r][j][c] = repetition r, j-th operation writing to the key, c-th qubit OF THAT OPERATION;
   the message of an accepted program holds that bit under the id of that very qubit, at position r * instances + j *)
Theorem C16_filed_under_measured_qubit : forall ops ms m R data mr,
  find_measurements ops = Some ms -> In m ms -> mr_to_proto R (x_info m) data = Some mr ->
  forall j o, nth_error (ops_with_key (x_key m) ops) j = Some o ->
  forall c q, nth_error (o_qubits o) c = Some q ->
  exists packed, In (q, packed) (mr_qubits mr) /\
    forall r, (r < R)%nat ->
      nth (r * m_instances (x_info m) + j) (unpack_bits packed (R * m_instances (x_info m))) false
      = nth c (nth j (nth r data []) []) false.
Proof. exact filed_under_measured_qubit. Qed.
Print Assumptions C16_filed_under_measured_qubit.

Example C16_find_measurements_example :
  let a := mkOp 1 [10; 11] [false; false] [] true in
  let b := mkOp 1 [11; 10] [false; false] [] true in
  find_measurements [a; a] = Some [mkMX (mkM 1 [10; 11] 2) [false; false] []] /\
  find_measurements [a; b] = None /\
  find_measurements [a; mkOp 2 [11; 10] [true; false] [5] true; a] =
    Some [mkMX (mkM 1 [10; 11] 2) [false; false] []; mkMX (mkM 2 [11; 10] 1) [true; false] [5]] /\
  find_measurements [mkOp 1 [10] [false] [] false] = None.
Proof. exact find_measurements_example. Qed.

(* ================= sequence-valued arguments (model: Codec/ArgSeq.v) ================= *)
From VF Require Import Codec.ArgSeq Codec.ArgSeqProofs.

(* a list / tuple / set argument of any mixture of bools, numpy bools, integers, floats, strings and other values, in any
   order, is read back with the same length, every number unchanged (a lone number inside a mixed tuple rounded once to
   single precision) and every other element as it was: the repeated numeric field is wide enough for EVERY element *)
Theorem C16_arg_seq_values : forall rnd k xs k' ys,
  ArgSeq.decode (ArgSeq.encode rnd k xs) = Some (k', ys) -> Forall2 (ArgSeq.same_value rnd) xs ys.
Proof. exact arg_seq_values. Qed.
Print Assumptions C16_arg_seq_values.

(* nothing but an integer (int or numpy integer) outside int64 is refused *)
Theorem C16_arg_seq_defined : forall rnd k xs,
  (forall z, In (EI z) xs \/ In (ENI z) xs -> ArgSeq.int64 z = true) -> exists r, ArgSeq.decode (ArgSeq.encode rnd k xs) = Some r.
Proof. exact arg_seq_defined. Qed.
Print Assumptions C16_arg_seq_defined.

(* a list comes back as a list *)
Theorem C16_arg_seq_list_kind : forall rnd xs k' ys,
  ArgSeq.decode (ArgSeq.encode rnd KList xs) = Some (k', ys) -> k' = KList.
Proof. exact arg_seq_list_kind. Qed.
Print Assumptions C16_arg_seq_list_kind.

(* the statement "a sequence comes back as the same kind of sequence" is false of the code: a numeric tuple (set,
   frozenset) is written into a repeated numeric field, which has no sequence type, and comes back as a list *)
Theorem C16_arg_seq_kind_refuted : exists k xs k' ys,
  ArgSeq.decode (ArgSeq.encode (fun q => q) k xs) = Some (k', ys) /\ k' <> k.
Proof. exact arg_seq_kind_refuted. Qed.
Print Assumptions C16_arg_seq_kind_refuted.

(* choosing the field from the leading element alone would not keep the numbers ([1, 2.5] -> [1, 2]) *)
Theorem C16_arg_seq_leading_rule_refuted : exists xs k' ys,
  ArgSeq.decode (ArgSeq.encode_leading KList xs) = Some (k', ys) /\
  ~ Forall2 (ArgSeq.same_value (fun q => q)) xs ys.
Proof. exact arg_seq_leading_rule_refuted. Qed.
Print Assumptions C16_arg_seq_leading_rule_refuted.

Example C16_arg_seq_example :
  let id := fun q : Q => q in
  ArgSeq.encode id KList [EI 1; EF (5 # 2); EB true] = WDoubles [1 # 1; 5 # 2; 1 # 1]%Q /\
  ArgSeq.encode id KList [EB true; EI 3; EB false] = WInts [1; 3; 0]%Z /\
  ArgSeq.encode id KTuple [EB true; ENB false] = WBools [true; false] /\
  ArgSeq.encode id KList [EI 3; ENB true] = WTuple KList [SFloat (3 # 1); SBool true] /\
  ArgSeq.encode id KList [ENI 4; EF (3 # 4)] = WDoubles [4 # 1; 3 # 4]%Q /\
  ArgSeq.encode id KList [EF (3 # 4); ENI 4] = WTuple KList [SFloat (3 # 4); SFloat (4 # 1)] /\
  ArgSeq.encode id KTuple [ES 7; ES 8] = WTuple KTuple [SStr 7; SStr 8] /\
  ArgSeq.encode id KList [ES 7; ES 8] = WStrings [7; 8]%Z /\
  ArgSeq.encode id KList [EI (2 ^ 63)] = WRefused /\
  (forall z, In (EI z) [EI 5; EF (1 # 2)] \/ In (ENI z) [EI 5; EF (1 # 2)] -> ArgSeq.int64 z = true) /\
  ArgSeq.decode (ArgSeq.encode id KSet [EI 1; EF (5 # 2)]) = Some (KList, [EF (1 # 1); EF (5 # 2)]).
Proof. exact arg_seq_example. Qed.

(* ================= device specifications: gates selected by tags, whole circuits (model: Codec/DeviceGates.v) ================= *)
From VF Require Import Codec.DeviceGates Codec.DeviceGatesProofs.

(* validate_circuit accepts exactly the circuits whose every operation validate_operation accepts *)
Theorem C16_device_circuit_all : forall d names ops,
  DeviceGates.validate_circuit d names ops = true <-> forall o, In o ops -> DeviceGates.validate_operation d names o = true.
Proof. exact validate_circuit_all. Qed.
Print Assumptions C16_device_circuit_all.

(* whatever stands before or after an operation of an accepted circuit (the same gate on the same qubits under other tags,
   say), the operation is valid by itself *)
Theorem C16_device_circuit_member : forall d names pre o post,
  DeviceGates.validate_circuit d names (pre ++ o :: post) = true -> DeviceGates.validate_operation d names o = true.
Proof. exact validate_circuit_member. Qed.
Print Assumptions C16_device_circuit_member.

Theorem C16_device_circuit_snoc : forall d names pre o,
  DeviceGates.validate_circuit d names (pre ++ [o]) = DeviceGates.validate_circuit d names pre && DeviceGates.validate_operation d names o.
Proof. exact validate_circuit_snoc. Qed.
Print Assumptions C16_device_circuit_snoc.

(* the decision does not depend on the order of the operations *)
Theorem C16_device_circuit_order : forall d names a b, Permutation.Permutation a b ->
  DeviceGates.validate_circuit d names a = DeviceGates.validate_circuit d names b.
Proof. exact validate_circuit_perm. Qed.
Print Assumptions C16_device_circuit_order.

(* a Z power is a gate of the specification exactly when the variant its tags select is listed *)
Theorem C16_device_zpow_variant : forall names o, o_kind o = KZPow ->
  gate_ok names o = has_name (if physical_z (o_tags o) then NPhysicalZ else NVirtualZ) names.
Proof. exact zpow_needs_its_name. Qed.
Print Assumptions C16_device_zpow_variant.

Theorem C16_device_fsim_variant : forall names o, o_kind o = KFSim ->
  gate_ok names o = (via_model (o_tags o) && has_name NFsimViaModel names) || (two_pulse (o_tags o) && has_name NTwoPulseFsim names).
Proof. exact fsim_needs_its_name. Qed.
Print Assumptions C16_device_fsim_variant.

Theorem C16_device_other_kinds_ignore_tags : forall names k t t' qs, k <> KZPow -> k <> KFSim ->
  gate_ok names {| o_kind := k; o_tags := t; o_qubits := qs |} = gate_ok names {| o_kind := k; o_tags := t'; o_qubits := qs |}.
Proof. exact other_kinds_ignore_tags. Qed.
Print Assumptions C16_device_other_kinds_ignore_tags.

(* a two-qubit gate other than measurement / wait: its variant is listed and the specification couples the pair *)
Theorem C16_device_validate_operation_two_qubit : forall s d names k t a b, from_proto s = Some d -> variadic k = false ->
  (DeviceGates.validate_operation d names {| o_kind := k; o_tags := t; o_qubits := [a; b] |} = true
   <-> gate_ok names {| o_kind := k; o_tags := t; o_qubits := [a; b] |} = true /\ coupling s a b).
Proof. exact validate_operation_two_qubit. Qed.
Print Assumptions C16_device_validate_operation_two_qubit.

(* "an operation is valid once the same gate on the same qubits was accepted under other tags" is false *)
Theorem C16_device_untagged_cover_refuted : exists d names o o',
  untagged o = untagged o' /\ DeviceGates.validate_operation d names o = true /\ DeviceGates.validate_circuit d names [o; o'] = false.
Proof. exact untagged_cover_refuted. Qed.
Print Assumptions C16_device_untagged_cover_refuted.

Example C16_device_gates_examples :
  DeviceGates.validate_circuit ex_dev [NVirtualZ; NFsimViaModel] [ex_z false; ex_fsim true; ex_z false] = true /\
  DeviceGates.validate_circuit ex_dev [NVirtualZ; NFsimViaModel] [ex_fsim true; ex_fsim false] = false /\
  DeviceGates.validate_circuit ex_dev [NPhysicalZ] [ex_z true; ex_z false] = false /\
  DeviceGates.validate_circuit ex_dev [NPhysicalZ; NVirtualZ] [ex_z true; ex_z false] = true /\
  variadic KFSim = false /\ from_proto (to_proto ex_dev) = Some ex_dev.
Proof. exact device_gates_examples. Qed.
