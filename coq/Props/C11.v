(* C11 — deciding obligations of the codec core (proof part of the property; the per-class part is explored
   by vf/checks/c11.py).  Statements only, closed by the lemmas proved in Codec/JsonMemoProofs.v. *)
From Coq Require Import ZArith List Bool String.
From VF Require Import Codec.JsonMemo Codec.JsonMemoProofs Codec.KeyPath Codec.KeyPathProofs Codec.MemoHash Codec.MemoHashProofs Codec.OptField Codec.OptFieldProofs Codec.CanonForm Codec.CanonFormProofs.
Import ListNotations.

(* reading back what the encoder wrote gives the value, for every finite value and every choice of by-key classes;
   equal by-key sub-objects are written once and all their occurrences decode to the one registered object *)
Theorem C11_json_memo_roundtrip : forall (bk : string -> bool) v, wf v = true -> decode (encode bk v) = Some v.
Proof. exact json_memo_roundtrip. Qed.
Print Assumptions C11_json_memo_roundtrip.

(* keys dense: the VAL keys read in document order are 0, 1, ..., (number of distinct by-key objects) - 1 *)
Theorem C11_keys_dense : forall (bk : string -> bool) v, wf v = true ->
  val_keys (doc_events (encode bk v)) = zseq 0 (n_keys bk v).
Proof. exact keys_dense. Qed.
Print Assumptions C11_keys_dense.

(* one VAL per distinct by-key object: the memo never holds an object twice *)
Theorem C11_one_val_per_object : forall (bk : string -> bool) v, NoDup (encode_memo bk v).
Proof. exact memo_nodup. Qed.
Print Assumptions C11_one_val_per_object.

(* every REF is met by the object hook after the VAL of the same key has been completed *)
Theorem C11_ref_after_val : forall (bk : string -> bool) v, wf v = true ->
  refs_ok [] (hook_events (encode bk v)) = true.
Proof. exact ref_after_val. Qed.
Print Assumptions C11_ref_after_val.

Theorem C11_refs_ok_meaning : forall evs done, refs_ok done evs = true ->
  forall pre k post, evs = pre ++ (false, k) :: post -> In k done \/ In (true, k) pre.
Proof. exact refs_ok_sound. Qed.
Print Assumptions C11_refs_ok_meaning.

(* equal values have equal hashes: PeriodicValue and @value_equality compare and hash one canonical form *)
Theorem C11_periodic_eq_hash : forall (h : Z * Z -> Z) a b,
  periodic_eqb a b = true -> periodic_hash h a = periodic_hash h b.
Proof. exact periodic_eq_hash. Qed.
Print Assumptions C11_periodic_eq_hash.

Theorem C11_periodic_shift_eq : forall value period n, period <> 0%Z ->
  periodic_eqb (value + n * period, period)%Z (value, period) = true.
Proof. exact periodic_shift_eq. Qed.
Print Assumptions C11_periodic_shift_eq.

Theorem C11_value_eq_hash : forall (C V : Type) (ceq : C -> C -> bool) (veq : V -> V -> bool) (h : C * V -> Z),
  (forall x y, ceq x y = true -> x = y) -> (forall x y, veq x y = true -> x = y) ->
  forall a b, ve_eqb ceq veq a b = true -> ve_hash h a = ve_hash h b.
Proof. exact value_eq_hash. Qed.
Print Assumptions C11_value_eq_hash.

(* Qid._cmp_tuple: total, antisymmetric up to equality of the tuple, irreflexive, transitive *)
Theorem C11_qid_order_total : forall a b c : qid,
  (cmp_ltb a b = true \/ cmp_eqb a b = true \/ cmp_ltb b a = true) /\
  (cmp_ltb a b = true -> cmp_ltb b a = false /\ cmp_eqb a b = false) /\
  (cmp_eqb a b = true <-> ck a = ck b) /\
  (cmp_ltb a a = false) /\
  (cmp_ltb a b = true -> cmp_ltb b c = true -> cmp_ltb a c = true).
Proof. exact qid_order_total. Qed.
Print Assumptions C11_qid_order_total.

(* the order the qubit classes really implement (family fast paths, else _cmp_tuple) *)
Theorem C11_qid_mixed_total : forall a b : qid,
  (qid_ltb a b = true \/ qid_eqb a b = true \/ qid_ltb b a = true) /\
  (qid_ltb a b = true -> qid_ltb b a = false /\ qid_eqb a b = false) /\
  (qid_eqb a b = true -> qid_ltb a b = false /\ qid_ltb b a = false) /\
  (qid_eqb a b = qid_eqb b a).
Proof. exact qid_mixed_total. Qed.
Print Assumptions C11_qid_mixed_total.

Theorem C11_qid_mixed_trans_table : forall tbl, fam_table_ok tbl = true ->
  forall a b c, In (qrow a) tbl -> In (qrow b) tbl -> In (qrow c) tbl ->
  qid_ltb a b = true -> qid_ltb b c = true -> qid_ltb a c = true.
Proof. exact qid_mixed_trans_table. Qed.
Print Assumptions C11_qid_mixed_trans_table.

(* kept at full strength: without the class-table condition transitivity fails (witness replayed by the check) *)
Theorem C11_qid_mixed_trans_refuted : exists a b c,
  qid_ltb a b = true /\ qid_ltb b c = true /\ qid_ltb a c = false.
Proof. exact qid_mixed_trans_refuted. Qed.
Print Assumptions C11_qid_mixed_trans_refuted.

(* ---------- measurement keys inside documents (Codec/KeyPath.v): a key field is written as the components joined by
   the separator and read by MeasurementKey.parse_serialized ---------- *)

(* the path itself comes back (not only the joined string, which is all that MeasurementKey.__eq__ looks at) *)
Theorem C11_key_parse_str : forall k, key_wf k = true -> key_parse (key_str k) = k.
Proof. exact key_parse_str. Qed.
Print Assumptions C11_key_parse_str.

(* a key inside any number of enclosing scopes survives with every scope kept apart *)
Theorem C11_key_roundtrip_nested : forall p k, forallb no_sep p = true -> key_wf k = true ->
  key_roundtrip (key_prefix p k) = key_prefix p k /\
  List.length (k_path (key_roundtrip (key_prefix p k))) = (List.length p + List.length (k_path k))%nat.
Proof. exact key_roundtrip_nested. Qed.
Print Assumptions C11_key_roundtrip_nested.

(* every key string, whatever it is, is written back unchanged after being parsed (old documents keep their text) *)
Theorem C11_key_str_parse : forall s, key_str (key_parse s) = s.
Proof. exact key_str_parse. Qed.
Print Assumptions C11_key_str_parse.

(* on the domain, equality of the joined strings (what the implementation compares and hashes) is structural equality *)
Theorem C11_key_eq_structural : forall a b, key_wf a = true -> key_wf b = true ->
  (key_eq_impl a b = true <-> a = b).
Proof. exact key_eq_impl_structural. Qed.
Print Assumptions C11_key_eq_structural.

(* kept at full strength: a path entry containing the separator (accepted by the constructor) does not come back,
   although the value read is == to the one written; witness replayed on the implementation by the check *)
Theorem C11_key_roundtrip_refuted : exists k, key_roundtrip k <> k /\ key_eq_impl (key_roundtrip k) k = true.
Proof. exact key_roundtrip_refuted. Qed.
Print Assumptions C11_key_roundtrip_refuted.

(* ---------- the memo as a Python dict (Codec/MemoHash.v): entries are found by hash, then == ---------- *)

(* whatever the hash function is and however many distinct by-key objects share one hash, a memo keyed by the objects
   writes each of them as itself: the document is the one of the reference encoder and reads back to the value *)
Theorem C11_dict_memo_is_reference : forall (bk : string -> bool) (h : value -> Z) v, encode_dict bk h v = encode bk v.
Proof. exact encode_dict_is_encode. Qed.
Print Assumptions C11_dict_memo_is_reference.

Theorem C11_dict_memo_roundtrip : forall (bk : string -> bool) (h : value -> Z) v,
  wf v = true -> decode (encode_dict bk h v) = Some v.
Proof. exact dict_memo_roundtrip. Qed.
Print Assumptions C11_dict_memo_roundtrip.

(* kept at full strength: a memo keyed by hash(o) alone does not — two circuits on the qubits -1 and -2 of a line
   (CPython: hash(-1) = hash(-2)) in one document read back as two copies of the first; documents of this shape are
   replayed on the implementation by the check (collision grid) *)
Theorem C11_memo_by_hash_refuted : exists (bk : string -> bool) (h : value -> Z) v,
  wf v = true /\ decode (encode_by_hash bk h v) <> Some v /\ decode (encode_dict bk h v) = Some v.
Proof. exact memo_by_hash_refuted. Qed.
Print Assumptions C11_memo_by_hash_refuted.

(* ---------- equal mappings have equal hashes (ParamResolver, ProductState: == is dict equality) ---------- *)
Theorem C11_dict_eq_hash : forall (hi : item -> Z) a b, keys_distinct a = true -> keys_distinct b = true ->
  dict_eqb a b = true -> items_hash hi a = items_hash hi b.
Proof. exact dict_eq_hash. Qed.
Print Assumptions C11_dict_eq_hash.

Theorem C11_name_eq_name_hash : forall (hi : item -> Z) a b,
  keys_distinct (map by_name a) = true -> keys_distinct (map by_name b) = true ->
  name_eqb a b = true -> items_hash hi (map by_name a) = items_hash hi (map by_name b).
Proof. exact name_eq_name_hash. Qed.
Print Assumptions C11_name_eq_name_hash.

(* kept at full strength: an equality that identifies a key written as a name with the key written as a symbol, next to
   a hash of the items as written, breaks the contract; so does a hash that reads the items in insertion order *)
Theorem C11_name_eq_raw_hash_refuted :
  name_eqb res_sym res_name = true /\ dict_eqb res_sym res_name = false /\
  keys_distinct res_sym = true /\ keys_distinct res_name = true /\
  forall hi : item -> Z, hi (KSym "a", 0%Z) <> hi (KName "a", 0%Z) -> items_hash hi res_sym <> items_hash hi res_name.
Proof. exact name_eq_raw_hash_refuted. Qed.
Print Assumptions C11_name_eq_raw_hash_refuted.

Theorem C11_dict_eq_sequence_hash_refuted :
  dict_eqb st_ab st_ba = true /\ keys_distinct st_ab = true /\ keys_distinct st_ba = true /\ st_ab <> st_ba.
Proof. exact dict_eq_sequence_hash_refuted. Qed.
Print Assumptions C11_dict_eq_sequence_hash_refuted.

(* ---------- fields a writer may leave out (Codec/OptField.v) ---------- *)
(* a field that is written under a condition and filled in by the reader otherwise comes back for every value exactly when
   every omission is one the reader's fill-in undoes; this is the whole content of any "omit when default / inferable" economy *)
Theorem C11_optional_field_roundtrip_iff :
  forall (C A : Type) (valid : C -> A -> Prop) (infer : C -> option A) (omit : C -> A -> bool),
  (forall c a, valid c a -> field_roundtrip infer omit c a = Some a) <->
  (forall c a, valid c a -> omit c a = true -> infer c = Some a).
Proof. exact opt_field_roundtrip_iff. Qed.
Print Assumptions C11_optional_field_roundtrip_iff.

(* the qid shape next to a square matrix (MatrixGate): always written (the code), or left out when it equals the shape the
   width implies - both come back for every width and every shape *)
Theorem C11_shape_always_written_roundtrip : forall w s, shape_roundtrip omit_never w s = Some s.
Proof. exact shape_never_roundtrip. Qed.
Print Assumptions C11_shape_always_written_roundtrip.

Theorem C11_shape_omitted_if_equal_roundtrip : forall w s, shape_roundtrip omit_if_equal w s = Some s.
Proof. exact shape_if_equal_roundtrip. Qed.
Print Assumptions C11_shape_omitted_if_equal_roundtrip.

(* what the width implies is a shape of qubits with that product, and for a gate on qubits it is the gate's shape *)
Theorem C11_infer_shape_sound : forall w s, infer_shape w = Some s -> gate_ok w s = true /\ all_qubits s = true.
Proof. exact infer_shape_sound. Qed.
Print Assumptions C11_infer_shape_sound.

Theorem C11_infer_shape_qubits : forall w s, gate_ok w s = true -> all_qubits s = true -> infer_shape w = Some s.
Proof. exact infer_shape_qubits. Qed.
Print Assumptions C11_infer_shape_qubits.

(* leaving the shape out whenever SOME shape can be inferred: exactly the gates whose width is no power of two and the gates
   on qubits survive; a single qudit of dimension 4 comes back as two qubits *)
Theorem C11_shape_omitted_if_inferable_char : forall w s,
  shape_roundtrip omit_if_inferable w s = Some s <-> (infer_shape w = None \/ infer_shape w = Some s).
Proof. exact shape_if_inferable_char. Qed.
Print Assumptions C11_shape_omitted_if_inferable_char.

Theorem C11_shape_omitted_if_inferable_refuted : exists w s,
  gate_ok w s = true /\ all_qubits s = false /\ shape_roundtrip omit_if_inferable w s = Some [2%N; 2%N] /\
  shape_roundtrip omit_if_inferable w s <> Some s.
Proof. exact shape_if_inferable_refuted. Qed.
Print Assumptions C11_shape_omitted_if_inferable_refuted.

(* the shape next to a count of qubits (IdentityGate, MeasurementGate, WaitGate): written only when some entry is not 2,
   read as (2,) * count when absent - comes back for every shape of that many entries *)
Theorem C11_count_shape_roundtrip : forall c s, count_ok c s = true -> count_roundtrip c s = Some s.
Proof. exact count_shape_roundtrip. Qed.
Print Assumptions C11_count_shape_roundtrip.

(* ---------- non-vacuity ---------- *)
Open Scope string_scope.
Definition ex_bk (t : string) : bool := String.eqb t "FrozenCircuit".
Definition ex_inner : value := VObj "FrozenCircuit" (VFCons "moments" (VArr (VCons (VNum 7) VNil)) VFNil).
Definition ex_outer : value :=
  VObj "FrozenCircuit" (VFCons "moments" (VArr (VCons (VObj "CircuitOperation" (VFCons "circuit" ex_inner VFNil))
                                               (VCons (VObj "CircuitOperation" (VFCons "circuit" ex_inner VFNil)) VNil))) VFNil).
Definition ex_doc : value :=
  VArr (VCons ex_outer (VCons (VDict (VFCons "a" ex_inner (VFCons "b" ex_outer VFNil))) VNil)).

(* a value with nested and repeated by-key objects meets the hypothesis, and the events are as the code emits them:
   outer VAL 0, inner VAL 1 inside it, then REF 1, REF 1, REF 0 *)
Example C11_example_shared : wf ex_doc = true /\
  doc_events (encode ex_bk ex_doc) = [(true, 0%Z); (true, 1%Z); (false, 1%Z); (false, 1%Z); (false, 0%Z)] /\
  hook_events (encode ex_bk ex_doc) = [(true, 1%Z); (false, 1%Z); (true, 0%Z); (false, 1%Z); (false, 0%Z)] /\
  decode (encode ex_bk ex_doc) = Some ex_doc /\ n_keys ex_bk ex_doc = 2.
Proof. repeat split; reflexivity. Qed.

(* a document whose REF comes before its VAL is rejected by the decoder (KeyError in the code) *)
Example C11_example_ref_before_val :
  decode (JArr (JCons (ref_json 0) (JCons (val_json 0 (typed_json "FrozenCircuit" JFNil)) JNil))) = None.
Proof. reflexivity. Qed.

(* the legacy context format still reads *)
Example C11_example_legacy :
  decode (JObj (JFCons "cirq_type" (JStr "_ContextualSerialization")
           (JFCons "object_dag" (JArr
              (JCons (JObj (JFCons "cirq_type" (JStr "_SerializedContext") (JFCons "key" (JNum 1)
                             (JFCons "obj" (typed_json "FrozenCircuit" JFNil) JFNil))))
              (JCons (typed_json "CircuitOperation"
                        (JFCons "circuit" (JObj (JFCons "cirq_type" (JStr "_SerializedKey") (JFCons "key" (JNum 1) JFNil))) JFNil))
               JNil))) JFNil)))
  = Some (VObj "CircuitOperation" (VFCons "circuit" (VObj "FrozenCircuit" VFNil) VFNil)).
Proof. reflexivity. Qed.

(* the class-table hypothesis is satisfiable: line (family 1), grid (family 2) and a foreign class *)
Example C11_example_table : fam_table_ok
  [ ([76;105;110;101;81;105;100]%Z, [1]%Z, 1%Z); ([76;105;110;101;81;117;98;105;116]%Z, [2]%Z, 1%Z);
    ([71;114;105;100;81;117;98;105;116]%Z, [3]%Z, 2%Z); ([71;114;105;100;81;105;100]%Z, [4]%Z, 2%Z);
    ([95;81;117;98;105;116;65;115;81;105;100]%Z, [5]%Z, 0%Z) ] = true.
Proof. reflexivity. Qed.

Example C11_example_periodic : periodic_eqb (7, 2)%Z (-1, 2)%Z = true /\ periodic_eqb (7, 2)%Z (0, 2)%Z = false.
Proof. split; reflexivity. Qed.

(* the hypotheses of the key theorems are satisfiable: a key two scopes deep *)
Example C11_example_key : key_wf (MKey ["a"; "b"] "m") = true /\ key_str (MKey ["a"; "b"] "m") = "a:b:m" /\
  key_parse "a:b:m" = MKey ["a"; "b"] "m" /\ key_parse "m" = MKey [] "m" /\ key_parse ":" = MKey [""] "".
Proof. repeat split; reflexivity. Qed.

(* distinct by-key objects with one hash exist, and the hypotheses of the mapping theorems are satisfiable *)
Example C11_example_collision :
  value_eqb (circuit_on (-1)) (circuit_on (-2)) = false /\
  py_value_hash (circuit_on (-1)) = py_value_hash (circuit_on (-2)) /\ wf two_circuits = true.
Proof. exact two_circuits_collide. Qed.

Example C11_example_mappings :
  keys_distinct st_ab = true /\ keys_distinct st_ba = true /\ dict_eqb st_ab st_ba = true /\
  keys_distinct (map by_name res_sym) = true /\ keys_distinct (map by_name res_name) = true.
Proof. exact dict_eq_hash_example. Qed.

(* the hypotheses of the shape theorems are satisfiable; widths 0 and 6 imply no shape *)
Example C11_example_shapes :
  gate_ok 4 [2%N; 2%N] = true /\ all_qubits [2%N; 2%N] = true /\ infer_shape 4 = Some [2%N; 2%N] /\ infer_shape 1 = Some [] /\
  infer_shape 0 = None /\ infer_shape 6 = None /\ gate_ok 6 [2%N; 3%N] = true /\
  shape_roundtrip omit_if_inferable 6 [2%N; 3%N] = Some [2%N; 3%N] /\
  shape_roundtrip omit_if_inferable 8 [2%N; 4%N] = Some [2%N; 2%N; 2%N].
Proof. exact opt_field_examples. Qed.

Example C11_example_counts : count_ok 2 [3%N; 2%N] = true /\ count_roundtrip 2 [3%N; 2%N] = Some [3%N; 2%N] /\
  count_ok 3 [2%N; 2%N; 2%N] = true /\ write_field omit_if_qubits 3%N [2%N; 2%N; 2%N] = None /\
  count_read 3 None = Some [2%N; 2%N; 2%N].
Proof. exact count_examples. Qed.

(* ---------- classes whose == is coarser than their behaviour (Codec/CanonForm.v) ---------- *)
(* a writer that puts a representative of the ==-class into the document: behaviour comes back for every value exactly when
   the representative behaves like the value *)
Theorem C11_representative_writer_behaviour : forall (V O : Type) (rep : V -> V) (obs : V -> O),
  (forall v, obs (doc_roundtrip rep v) = obs v) <-> (forall v, obs (rep v) = obs v).
Proof. exact rep_roundtrip_behaviour_iff. Qed.
Print Assumptions C11_representative_writer_behaviour.

(* PhasedXZGate._canonical yields exponents in its canonical ranges, leaves such exponents alone, and is idempotent *)
Theorem C11_pxz_canonical_in_range : forall D g, (0 < D)%Z -> pxz_in_range D (pxz_canon D g).
Proof. exact pxz_canon_in_range. Qed.
Print Assumptions C11_pxz_canonical_in_range.

Theorem C11_pxz_canonical_fixes_range : forall D g, (0 < D)%Z -> pxz_in_range D g -> pxz_canon D g = g.
Proof. exact pxz_canon_fixes_range. Qed.
Print Assumptions C11_pxz_canonical_fixes_range.

Theorem C11_pxz_canonical_idempotent : forall D g, (0 < D)%Z -> pxz_canon D (pxz_canon D g) = pxz_canon D g.
Proof. exact pxz_canon_idempotent. Qed.
Print Assumptions C11_pxz_canonical_idempotent.

(* the document of the code (the stored exponents) gives back the gate itself *)
Theorem C11_pxz_stored_roundtrip : forall D g, doc_roundtrip (pxz_write_stored D) g = g.
Proof. exact pxz_stored_roundtrip. Qed.
Print Assumptions C11_pxz_stored_roundtrip.

(* a document holding the canonical exponents reads to a gate == the one written, to the very gate when its exponents were
   canonical already (every stored example), and to a gate with another matrix for x_exponent = -1/2 *)
Theorem C11_pxz_canonical_writer_keeps_eq : forall D g, (0 < D)%Z ->
  pxz_same D (doc_roundtrip (pxz_write_canon D) g) g = true.
Proof. exact pxz_canon_writer_keeps_eq. Qed.
Print Assumptions C11_pxz_canonical_writer_keeps_eq.

Theorem C11_pxz_canonical_writer_exact_in_range : forall D g, (0 < D)%Z -> pxz_in_range D g ->
  doc_roundtrip (pxz_write_canon D) g = g.
Proof. exact pxz_canon_writer_exact_in_range. Qed.
Print Assumptions C11_pxz_canonical_writer_exact_in_range.

Theorem C11_pxz_canonical_writer_behaviour_refuted : exists D g, (0 < D)%Z /\
  pxz_same D (doc_roundtrip (pxz_write_canon D) g) g = true /\
  pxz_det_phase D (doc_roundtrip (pxz_write_canon D) g) <> pxz_det_phase D g.
Proof. exact pxz_canon_writer_behaviour_refuted. Qed.
Print Assumptions C11_pxz_canonical_writer_behaviour_refuted.

(* the hypotheses are satisfiable: D = 8 (exponents in eighths), a gate in range, gates out of range and their canonical forms *)
Example C11_example_canon_forms :
  pxz_in_range 8 (4, 2, 12)%Z /\ pxz_canon 8 (4, 2, 12)%Z = (4, 2, 12)%Z /\
  pxz_canon 8 (-4, 2, 2)%Z = (4, 2, -14)%Z /\ pxz_canon 8 (12, 2, 2)%Z = (4, 2, -14)%Z /\
  pxz_canon 8 (8, 4, 4)%Z = (8, 0, 8)%Z /\ pxz_canon 8 (16, 2, 5)%Z = (0, 2, 0)%Z /\
  pxz_det_phase 8 (-4, 2, 2)%Z = 14%Z /\ pxz_det_phase 8 (4, 2, -14)%Z = 6%Z.
Proof. exact canon_form_examples. Qed.
