(* C09 — deciding obligations (statements only). *)
From Coq Require Import List.
From VF Require Import Base.RingOps Base.Mat Base.Tensor Gates.Channels Gates.ChannelProofs Sim.Measure Sim.MeasureProofs Sim.Noise Base.K8.
Import ListNotations.

(* every library channel is trace preserving: sum_k K_k^dagger K_k = I for all parameter values *)
Theorem C09_tp_bit_flip : forall K (O : Ops K), Laws O -> forall a b, kconj O a = a -> kconj O b = b ->
  kadd O (kmul O a a) (kmul O b b) = k1 O -> kraus_gram O (kraus_bit_flip O a b) = mid O 2.
Proof. exact @tp_bit_flip. Qed.
Print Assumptions C09_tp_bit_flip.
Theorem C09_tp_phase_flip : forall K (O : Ops K), Laws O -> forall a b, kconj O a = a -> kconj O b = b ->
  kadd O (kmul O a a) (kmul O b b) = k1 O -> kraus_gram O (kraus_phase_flip O a b) = mid O 2.
Proof. exact @tp_phase_flip. Qed.
Print Assumptions C09_tp_phase_flip.
Theorem C09_tp_amp_damp : forall K (O : Ops K), Laws O -> forall a b, kconj O a = a -> kconj O b = b ->
  kadd O (kmul O a a) (kmul O b b) = k1 O -> kraus_gram O (kraus_amp_damp O a b) = mid O 2.
Proof. exact @tp_amp_damp. Qed.
Print Assumptions C09_tp_amp_damp.
Theorem C09_tp_phase_damp : forall K (O : Ops K), Laws O -> forall a b, kconj O a = a -> kconj O b = b ->
  kadd O (kmul O a a) (kmul O b b) = k1 O -> kraus_gram O (kraus_phase_damp O a b) = mid O 2.
Proof. exact @tp_phase_damp. Qed.
Print Assumptions C09_tp_phase_damp.
Theorem C09_tp_asym_depol : forall K (O : Ops K), Laws O -> forall a bx by_ bz,
  kconj O a = a -> kconj O bx = bx -> kconj O by_ = by_ -> kconj O bz = bz ->
  kadd O (kadd O (kadd O (kmul O a a) (kmul O bx bx)) (kmul O by_ by_)) (kmul O bz bz) = k1 O ->
  kraus_gram O (kraus_asym_depol O a bx by_ bz) = mid O 2.
Proof. exact @tp_asym_depol. Qed.
Print Assumptions C09_tp_asym_depol.
Theorem C09_tp_gen_amp_damp : forall K (O : Ops K), Laws O -> forall sp sq c s,
  kconj O sp = sp -> kconj O sq = sq -> kconj O c = c -> kconj O s = s ->
  kadd O (kmul O sp sp) (kmul O sq sq) = k1 O -> kadd O (kmul O c c) (kmul O s s) = k1 O ->
  kraus_gram O (kraus_gen_amp_damp O sp sq c s) = mid O 2.
Proof. exact @tp_gen_amp_damp. Qed.
Print Assumptions C09_tp_gen_amp_damp.
Theorem C09_tp_reset : forall K (O : Ops K), Laws O -> kraus_gram O (kraus_reset2 O) = mid O 2.
Proof. exact @tp_reset. Qed.
Print Assumptions C09_tp_reset.

(* so the density evolution rho -> sum K rho K^dagger keeps the trace, for every rho *)
Theorem C09_trace_amp_damp : forall K (O : Ops K), Laws O -> forall a b, kconj O a = a -> kconj O b = b ->
  kadd O (kmul O a a) (kmul O b b) = k1 O -> forall r00 r01 r10 r11,
  mtrace O (kraus_apply O (kraus_amp_damp O a b) [[r00; r01]; [r10; r11]]) = kadd O r00 r11.
Proof. exact @trace_amp_damp. Qed.
Print Assumptions C09_trace_amp_damp.
Theorem C09_trace_bit_flip : forall K (O : Ops K), Laws O -> forall a b, kconj O a = a -> kconj O b = b ->
  kadd O (kmul O a a) (kmul O b b) = k1 O -> forall r00 r01 r10 r11,
  mtrace O (kraus_apply O (kraus_bit_flip O a b) [[r00; r01]; [r10; r11]]) = kadd O r00 r11.
Proof. exact @trace_bit_flip. Qed.
Print Assumptions C09_trace_bit_flip.

(* measurement as a channel: the outcome branches carry the whole mass of the measured branch *)
Theorem C09_measure_mass : forall K (O : Ops K), Laws O -> forall sh ax (psi : list K),
  length psi = length (enum sh) ->
  ksum O (map (fun v => norm2 O (project O sh ax v psi)) (enum (map (fun a => nth a sh 2) ax))) = norm2 O psi.
Proof. exact @measure_mass. Qed.
Print Assumptions C09_measure_mass.

(* constant per-qubit noise model: one noise moment per non-virtual moment, original moments kept *)
Theorem C09_noisy_moments_length : forall prepend system c,
  length (noisy_moments prepend system c) = length c + length (filter (fun m => negb (is_virtual_moment m)) c).
Proof. exact noisy_moments_length. Qed.
Print Assumptions C09_noisy_moments_length.
Theorem C09_noisy_moments_only : forall prepend system c m,
  In m (noisy_moments prepend system c) -> In m c \/ m = noise_moment system.
Proof. exact noisy_moments_only. Qed.
Print Assumptions C09_noisy_moments_only.

(* hypotheses are satisfiable in the exact instance: a = 3/5, b = 4/5 *)
From Coq Require Import QArith Qcanon.
Example C09_params_exist : exists a b : K8, kconj K8Ops a = a /\ kconj K8Ops b = b /\
  kadd K8Ops (kmul K8Ops a a) (kmul K8Ops b b) = k1 K8Ops.
Proof.
  exists (mk8 (Q2Qc (3 # 5)) 0 0 0), (mk8 (Q2Qc (4 # 5)) 0 0 0).
  repeat split; vm_compute; f_equal; apply Qc_is_canon; reflexivity.
Qed.

(* ---- the two reference semantics are one (Sim/DensLinkProofs.v) ----
   The checks compare Cirq with the ensemble semantics `exec` (pure-state branches) and with the density semantics `dexec`
   (Kraus operators do not branch).  For every operation list over any register shape the density semantics is the
   ensemble semantics averaged: the final density operator is the weighted sum of the outer products of the branches ... *)
From VF Require Import Sim.Ref Sim.DensLink Sim.DensLinkProofs.
Theorem C09_dexec_rho_ensemble : forall K (O : Ops K), Laws O -> forall sh ops init,
  Forall (op_ok sh) ops -> length init = size sh ->
  dexec_rho O sh ops init = concat (ensemble_rho O (size sh) (exec O sh ops init)).
Proof. exact @dexec_rho_ensemble. Qed.
Print Assumptions C09_dexec_rho_ensemble.
(* ... branch group by branch group (same weights and records, density = sum of the group's outer products) *)
Theorem C09_dexec_tracks_exec : forall K (O : Ops K), Laws O -> forall sh ops init,
  Forall (op_ok sh) ops -> length init = length (enum sh) ->
  tracks O sh (dexec O sh ops init) (exec O sh ops init).
Proof. exact @dexec_tracks_exec. Qed.
Print Assumptions C09_dexec_tracks_exec.
(* the key step: conjugating |psi><psi| by M on the row axes and conj M on the column axes is |M psi><M psi| *)
Theorem C09_dm_apply_outer : forall K (O : Ops K), Laws O -> forall m dims ax sh (psi : list K),
  length psi = length (enum sh) -> axes_ok sh dims ax ->
  dm_apply O m dims ax sh (concat (outer O psi)) = concat (outer O (apply_tab O m dims ax sh psi)).
Proof. exact @dm_apply_outer. Qed.
Print Assumptions C09_dm_apply_outer.
(* a channel on a pure state gives the sum over its Kraus operators *)
Theorem C09_dm_kraus_outer : forall K (O : Ops K), Laws O -> forall ks dims ax sh (psi : list K),
  length psi = length (enum sh) -> axes_ok sh dims ax ->
  dm_kraus O ks dims ax sh (concat (outer O psi))
  = vsum O (map (fun _ => k0 O) (concat (outer O psi))) (map (fun k => concat (outer O (apply_tab O k dims ax sh psi))) ks).
Proof. exact @dm_kraus_outer. Qed.
Print Assumptions C09_dm_kraus_outer.

(* ---- Choi description (Gates/Choi.v): Cirq's sum_k vec(K) vec(K)^dagger is the Choi matrix of the definition
   J = sum_ij E(|i><j|) (x) |i><j|, is the reshuffled superoperator (and back), is Hermitian, and acts on operators as the
   Kraus operators do; for a channel with two generic single-qubit Kraus operators (eight free ring elements) ---- *)
From VF Require Import Gates.Choi Gates.ChoiProofs.
Theorem C09_choi_is_definition : forall K (O : Ops K), Laws O -> forall a b c d a' b' c' d',
  kraus_choi O 4 [[[a; b]; [c; d]]; [[a'; b']; [c'; d']]] = choi_def O 2 [[[a; b]; [c; d]]; [[a'; b']; [c'; d']]].
Proof. exact @choi_is_definition. Qed.
Print Assumptions C09_choi_is_definition.
Theorem C09_choi_reshuffles_superop : forall K (O : Ops K), Laws O -> forall a b c d a' b' c' d',
  kraus_choi O 4 [[[a; b]; [c; d]]; [[a'; b']; [c'; d']]] = reshuffle O 2 (kraus_superop O 4 [[[a; b]; [c; d]]; [[a'; b']; [c'; d']]]).
Proof. exact @choi_reshuffles_superop. Qed.
Print Assumptions C09_choi_reshuffles_superop.
Theorem C09_superop_reshuffles_choi : forall K (O : Ops K), Laws O -> forall a b c d a' b' c' d',
  kraus_superop O 4 [[[a; b]; [c; d]]; [[a'; b']; [c'; d']]] = reshuffle O 2 (kraus_choi O 4 [[[a; b]; [c; d]]; [[a'; b']; [c'; d']]]).
Proof. exact @superop_reshuffles_choi. Qed.
Print Assumptions C09_superop_reshuffles_choi.
Theorem C09_choi_hermitian : forall K (O : Ops K), Laws O -> forall a b c d a' b' c' d',
  mdagger O (kraus_choi O 4 [[[a; b]; [c; d]]; [[a'; b']; [c'; d']]]) = kraus_choi O 4 [[[a; b]; [c; d]]; [[a'; b']; [c'; d']]].
Proof. exact @choi_hermitian. Qed.
Print Assumptions C09_choi_hermitian.
Theorem C09_choi_acts_as_kraus : forall K (O : Ops K), Laws O -> forall a b c d a' b' c' d' r00 r01 r10 r11,
  choi_apply O 2 (kraus_choi O 4 [[[a; b]; [c; d]]; [[a'; b']; [c'; d']]]) [[r00; r01]; [r10; r11]]
  = kraus_apply O [[[a; b]; [c; d]]; [[a'; b']; [c'; d']]] [[r00; r01]; [r10; r11]].
Proof. exact @choi_acts_as_kraus. Qed.
Print Assumptions C09_choi_acts_as_kraus.
(* the entrywise conjugate (= transpose) of a Choi matrix is in general the Choi matrix of another channel (witness: S) *)
Theorem C09_choi_conj_differs : exists k : list (list K8),
  mconj K8Ops (kraus_choi K8Ops 4 [k]) <> kraus_choi K8Ops 4 [k].
Proof. exact choi_conj_differs. Qed.
Print Assumptions C09_choi_conj_differs.

(* ---- noise models defined on the whole moment sequence (Sim/NoiseSeq.v): the circuit such a model produces keeps every
   moment and follows the moment at position i by the noise moment of level i; presenting the moments one at a time is a
   different circuit as soon as there are two moments and a system qubit ---- *)
From VF Require Import Sim.NoiseSeq Sim.NoiseSeqProofs.
Theorem C09_seq_noisy_length : forall system c, (length (seq_noisy_moments system c) = 2 * length c)%nat.
Proof. exact seq_noisy_length. Qed.
Print Assumptions C09_seq_noisy_length.
Theorem C09_seq_noisy_nth : forall system c i d, (i < length c)%nat ->
  nth (2 * i)%nat (seq_noisy_moments system c) d = nth i c d /\
  nth (2 * i + 1)%nat (seq_noisy_moments system c) d = noise_at i system.
Proof. exact seq_noisy_nth. Qed.
Print Assumptions C09_seq_noisy_nth.
Theorem C09_seq_per_moment_differs : forall system c q, In q system -> (2 <= length c)%nat ->
  seq_noisy_per_moment system c <> seq_noisy_moments system c.
Proof. exact seq_per_moment_differs. Qed.
Print Assumptions C09_seq_per_moment_differs.
Example C09_seq_per_moment_hyps : exists (system : list nat) (c : list nmoment) (q : nat), In q system /\ (2 <= length c)%nat.
Proof. exists [0%nat], [[]; []], 0%nat. split; simpl; auto. Qed.
