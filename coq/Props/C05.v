(* C05 — deciding obligations. Statements only, closed by the lemmas proved in Circ/*Proofs.v. *)
From Coq Require Import ZArith List Bool Permutation.
From VF Require Import Circ.Moments Circ.Placement Circ.Insert Circ.History
  Circ.MomentsProofs Circ.InsertProofs Circ.HistoryProofs.
Import ListNotations.
Open Scope Z_scope.

(* D1: after any history of modelled public calls (operands being objects Cirq accepted) every moment
   holds operations on pairwise disjoint qubits *)
Theorem C05_wf_preserved : forall h, Forall call_wf h -> wf (moms (run empty_circuit h)).
Proof. exact history_wf. Qed.
Print Assumptions C05_wf_preserved.
