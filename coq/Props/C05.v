(* C05 — deciding obligations. Statements only, closed by the lemmas proved in Circ/*Proofs.v. *)
From Coq Require Import ZArith List Bool Permutation.
From VF Require Import Circ.Moments Circ.Placement Circ.Insert Circ.BatchEdit Circ.History
  Circ.MomentsProofs Circ.InsertProofs Circ.PlacementProofs Circ.CacheProofs Circ.BatchProofs Circ.HistoryProofs.
Import ListNotations.
Open Scope Z_scope.

(* D1 wf_preserved: after any history of modelled public calls (37 call forms; operands being objects
   Cirq accepted) every moment holds operations on pairwise disjoint qubits — also when calls raise *)
Theorem C05_wf_preserved : forall h, Forall call_wf h -> wf (moms (run empty_circuit h)).
Proof. exact history_wf. Qed.
Print Assumptions C05_wf_preserved.

(* D2 no_loss_no_dup: insert with any strategy / index, cached or not: the uids afterwards are a
   permutation of the old ones plus the inserted ones; a failing insert loses and invents nothing *)
Theorem C05_no_loss_no_dup : forall c i its s c' z,
  insert c i its s = (c', inl z) -> Permutation (uids (moms c')) (uids (moms c) ++ map uid (items_ops its)).
Proof. exact insert_no_loss. Qed.
Print Assumptions C05_no_loss_no_dup.

Theorem C05_no_loss_on_failure : forall c i its s c' e u,
  insert c i its s = (c', inr e) ->
  (ccnt u (moms c) <= ccnt u (moms c') <= ccnt u (moms c) + icnt u its)%nat.
Proof. exact insert_failure_bounds. Qed.
Print Assumptions C05_no_loss_on_failure.

Theorem C05_no_loss_constructor : forall its s c' z,
  construct its s = (c', inl z) -> Permutation (uids (moms c')) (map uid (items_ops its)).
Proof. exact construct_no_loss. Qed.
Print Assumptions C05_no_loss_constructor.

(* D3 cache_refines: in every history without with_tags the placement cache, whenever present, equals
   the summary recomputed from the moments ... *)
Theorem C05_cache_refines : forall h, Forall not_with_tags h -> cache_ok (run empty_circuit h).
Proof. exact history_cache_ok. Qed.
Print Assumptions C05_cache_refines.

(* ... one cached placement succeeds and keeps that agreement ... *)
Theorem C05_cache_step : forall pc ms it idx pc',
  cache_matches pc ms -> cache_append pc it = (idx, pc') ->
  exists ms', place ms idx it = inl ms' /\ cache_matches pc' ms'.
Proof. exact cache_place_ok. Qed.
Print Assumptions C05_cache_step.

(* ... and a cached append cannot raise *)
Theorem C05_cached_append_succeeds : forall c its pc,
  cache c = Some pc -> cache_matches pc (moms c) -> exists c' z, append c its EARLIEST = (c', inl z).
Proof. exact cached_append_succeeds. Qed.
Print Assumptions C05_cached_append_succeeds.

(* with_tags breaks it (genuine defect of /repo, known finding order:with_tags): statements kept refuted *)
Theorem C05_cache_refines_with_tags_refuted : exists h, Forall call_wf h /\ ~ cache_ok (run empty_circuit h).
Proof. exact with_tags_cache_refuted. Qed.
Print Assumptions C05_cache_refines_with_tags_refuted.

Theorem C05_append_last_with_tags_refuted :
  exists h m, Forall call_wf (h ++ [CAppend [IMom m] EARLIEST]) /\
              moms (run empty_circuit (h ++ [CAppend [IMom m] EARLIEST])) <> moms (run empty_circuit h) ++ [m].
Proof. exact with_tags_append_refuted. Qed.
Print Assumptions C05_append_last_with_tags_refuted.

(* D6 summaries_valid: in a history in which no exception escaped insert half-way, every lazily cached
   summary that is marked valid equals its recomputation from the moments *)
Theorem C05_summaries_valid : forall h, clean empty_circuit h -> sums_ok (run empty_circuit h).
Proof. exact history_sums_ok. Qed.
Print Assumptions C05_summaries_valid.

(* non-vacuity of the hypotheses *)
Example C05_hypotheses_example :
  let h := [CAppend [IOp (mkop 1 [0; 1] [] [] [] true); IMom [mkop 2 [0] [3] [] [] false]] EARLIEST;
            QAllQubits; CInsert (-1) [IOp (mkop 3 [1] [] [3] [] false)] LATEST; CBatchRemove [(0, mkop 1 [0; 1] [] [] [] true)]] in
  Forall call_wf h /\ Forall not_with_tags h /\ clean empty_circuit h /\
  uid_moms (moms (run empty_circuit h)) = [[]; [3]; [2]].
Proof.
  cbv zeta. split; [|split; [|split]].
  - repeat constructor; simpl; intuition discriminate.
  - repeat constructor.
  - vm_compute. tauto.
  - vm_compute. reflexivity.
Qed.
