(* C05 — deciding obligations. Statements only, closed by the lemmas proved in Circ/*Proofs.v. *)
From Coq Require Import ZArith List Bool Permutation.
From VF Require Import Circ.Moments Circ.MomentCalls Circ.Placement Circ.Insert Circ.BatchEdit Circ.History
  Circ.MomentsProofs Circ.InsertProofs Circ.PlacementProofs Circ.CacheProofs Circ.BatchProofs Circ.OrderProofs Circ.TotalProofs Circ.EquivProofs Circ.HistoryProofs Circ.ReturnIndexProofs Circ.RangeOrderProofs Circ.Store Circ.StoreProofs.
Import ListNotations.
Open Scope Z_scope.

(* D1 wf_preserved: after any history of modelled public calls (37 call forms; operands being objects
   Cirq accepted) every moment holds operations on pairwise disjoint qubits — also when calls raise *)
Theorem C05_wf_preserved : forall h, Forall call_wf h -> wf (moms (run empty_circuit h)).
Proof. exact history_wf. Qed.
Print Assumptions C05_wf_preserved.

(* D1 on the Moment class itself: every chain of with_operation / with_operations / + /
   without_operations_touching / Moment(...) calls keeps the operations on pairwise disjoint qubits *)
Theorem C05_moment_wf_preserved : forall h m, moment_wf m -> Forall mcall_wf h -> moment_wf (mrun m h).
Proof. exact moment_history_wf. Qed.
Print Assumptions C05_moment_wf_preserved.

(* D2 no_loss_no_dup: insert with any strategy / index, cached or not: the uids afterwards are a
   permutation of the old ones plus the inserted ones; a failing insert loses and invents nothing *)
Theorem C05_no_loss_no_dup : forall c i its s c' z,
  insert c i its s = (c', inl z) -> Permutation (uids (moms c')) (uids (moms c) ++ map uid (items_ops its)).
Proof. exact insert_no_loss. Qed.
Print Assumptions C05_no_loss_no_dup.

Theorem C05_no_loss_on_failure : forall c i its s c' e u,
  insert c i its s = (c', inr e) ->
  (ccnt u (moms c) <= ccnt u (moms c') <= ccnt u (moms c) + icnt u its)%nat.
Proof. exact insert_failure_bounds. Qed.
Print Assumptions C05_no_loss_on_failure.

Theorem C05_no_loss_constructor : forall its s c' z,
  construct its s = (c', inl z) -> Permutation (uids (moms c')) (map uid (items_ops its)).
Proof. exact construct_no_loss. Qed.
Print Assumptions C05_no_loss_constructor.

(* D2, the other mutators (counts of every uid u; icnt = occurrences among the given items) *)
Theorem C05_no_loss_other_mutators : forall u c,
  (forall its c' z, add c its = (c', inl z) -> ccnt u (moms c') = (ccnt u (moms c) + icnt u its)%nat) /\
  (forall its c' z, radd c its = (c', inl z) -> ccnt u (moms c') = (icnt u its + ccnt u (moms c))%nat) /\
  (forall its s e c' z, insert_into_range c its s e = (c', inl z) -> ccnt u (moms c') = (ccnt u (moms c) + icnt u its)%nat) /\
  (forall ins c' z, batch_insert c ins = (c', inl z) -> ccnt u (moms c') = (ccnt u (moms c) + icnt u (flat_map snd ins))%nat) /\
  (forall n, ccnt u (moms (mul c n)) = (Z.to_nat n * ccnt u (moms c))%nat) /\
  (forall n, ccnt u (moms (imul c n)) = (Z.to_nat n * ccnt u (moms c))%nat) /\
  (forall c' z, inverse c = (c', inl z) -> ccnt (- u) (moms c') = ccnt u (moms c)) /\
  (forall qubits idxs c' r, clear_touching c qubits idxs = (c', r) -> (ccnt u (moms c') <= ccnt u (moms c))%nat).
Proof.
  intros u c. repeat split.
  - exact (add_cnt u c).
  - exact (radd_cnt u c).
  - exact (insert_into_range_cnt u c).
  - exact (batch_insert_cnt u c).
  - exact (mul_cnt u c).
  - exact (imul_cnt u c).
  - exact (inverse_cnt u c).
  - exact (clear_touching_cnt u c).
Qed.
Print Assumptions C05_no_loss_other_mutators.

Theorem C05_no_loss_item_edits : forall u c,
  (forall i m c' z j old, setitem c i m = (c', inl z) -> py_index i (length (moms c)) = Some j -> nth_error (moms c) j = Some old ->
     (ccnt u (moms c') + cnt u old = cnt u m + ccnt u (moms c))%nat) /\
  (forall i c' z j old, delitem c i = (c', inl z) -> py_index i (length (moms c)) = Some j -> nth_error (moms c) j = Some old ->
     (ccnt u (moms c') + cnt u old = ccnt u (moms c))%nat) /\
  (forall a b ms c' z s e, setslice c a b ms = (c', inl z) -> slice_range a b (length (moms c)) = (s, e) ->
     (ccnt u (moms c') + ccnt u (firstn (e - s) (skipn s (moms c))) = ccnt u ms + ccnt u (moms c))%nat).
Proof.
  intros u c. repeat split.
  - exact (setitem_cnt u c).
  - exact (delitem_cnt u c).
  - exact (setslice_cnt u c).
Qed.
Print Assumptions C05_no_loss_item_edits.

(* transform_qubits keeps every operation (uid) in its moment and position *)
Theorem C05_transform_keeps_structure : forall c f c' z,
  transform_qubits c f = (c', inl z) -> map (map uid) (moms c') = map (map uid) (moms c).
Proof. exact transform_keeps_uids. Qed.
Print Assumptions C05_transform_keeps_structure.

(* the batch_* edits are all-or-nothing, as their docstrings promise *)
Theorem C05_batch_edits_atomic : forall c,
  (forall rs c' e, batch_remove c rs = (c', inr e) -> c' = c) /\
  (forall rs c' e, batch_replace c rs = (c', inr e) -> c' = c) /\
  (forall rs c' e, batch_insert_into c rs = (c', inr e) -> c' = c) /\
  (forall ins c' e, batch_insert c ins = (c', inr e) -> c' = c).
Proof. exact batch_edits_atomic. Qed.
Print Assumptions C05_batch_edits_atomic.

(* D3 cache_refines: in every history (with_tags included, since fix 7550ee0) the placement cache,
   whenever present, equals the summary recomputed from the moments ... *)
Theorem C05_cache_refines : forall h, cache_ok (run empty_circuit h).
Proof. exact history_cache_ok. Qed.
Print Assumptions C05_cache_refines.

(* ... one cached placement succeeds and keeps that agreement ... *)
Theorem C05_cache_step : forall pc ms it idx pc',
  cache_matches pc ms -> cache_append pc it = (idx, pc') ->
  exists ms', place ms idx it = inl ms' /\ cache_matches pc' ms'.
Proof. exact cache_place_ok. Qed.
Print Assumptions C05_cache_step.

(* ... and a cached append cannot raise *)
Theorem C05_cached_append_succeeds : forall c its pc,
  cache c = Some pc -> cache_matches pc (moms c) -> exists c' z, append c its EARLIEST = (c', inl z).
Proof. exact cached_append_succeeds. Qed.
Print Assumptions C05_cached_append_succeeds.

(* ... hence the cached append builds exactly the moments of the uncached insert(len, EARLIEST), for any
   operation tree; the index read from the cache is the result of the backward scan *)
Theorem C05_cached_append_eq_uncached : forall c its pc,
  cache c = Some pc -> cache_matches pc (moms c) ->
  moms (fst (append c its EARLIEST)) = moms (fst (append (mkc (moms c) None (sm c)) its EARLIEST)).
Proof. exact cached_append_eq_uncached. Qed.
Print Assumptions C05_cached_append_eq_uncached.

Theorem C05_cache_index_is_scan : forall pc ms o, cache_matches pc ms ->
  gea_index pc (IOp o) = earliest_available_moment ms o (length ms).
Proof. exact gea_eq_eam. Qed.
Print Assumptions C05_cache_index_is_scan.

(* ... so after any history an appended Moment ends up last (refuted before with_tags was repaired) *)
Theorem C05_append_moment_last : forall h m,
  moms (run empty_circuit (h ++ [CAppend [IMom m] EARLIEST])) = moms (run empty_circuit h) ++ [m].
Proof. exact history_append_moment_last. Qed.
Print Assumptions C05_append_moment_last.

(* ... and, generally, an insert / append after any history (a clear, a deletion, a batch edit ... in between) builds
   the moments the same call builds on a freshly rebuilt equal circuit: the edit cannot see the circuit's past *)
Theorem C05_insert_as_rebuilt : forall h i its s,
  moms (run empty_circuit (h ++ [CInsert i its s])) =
  moms (fst (insert (from_moments (moms (run empty_circuit h))) i its s)).
Proof. exact history_insert_as_rebuilt. Qed.
Print Assumptions C05_insert_as_rebuilt.

Theorem C05_append_as_rebuilt : forall h its s,
  moms (run empty_circuit (h ++ [CAppend its s])) =
  moms (fst (append (from_moments (moms (run empty_circuit h))) its s)).
Proof. exact history_append_as_rebuilt. Qed.
Print Assumptions C05_append_as_rebuilt.

(* D6 summaries_valid: after any history every lazily cached summary that is marked valid equals its
   recomputation from the moments (no exception can escape insert half-way, see C05_insert_never_raises) *)
Theorem C05_summaries_valid : forall h, sums_ok (run empty_circuit h).
Proof. exact history_sums_ok_unconditional. Qed.
Print Assumptions C05_summaries_valid.

(* D5 strategy_placement: closed forms for one operation / one Moment (k = the clamped index) *)
Theorem C05_strategy_new : forall c i o s, is_new s = true ->
  insert c i [IOp o] s =
    (mkc (insert_at (clamp_index i (length (moms c))) [o] (moms c)) None no_sums,
     inl (Z.of_nat (S (clamp_index i (length (moms c)))))).
Proof. exact insert_single_new. Qed.
Print Assumptions C05_strategy_new.

Theorem C05_strategy_inline : forall c i o,
  let k := clamp_index i (length (moms c)) in
  insert c i [IOp o] INLINE =
    match k with
    | S k' =>
        match nth_error (moms c) k' with
        | Some m => if blocks m o
                    then (mkc (insert_at k [o] (moms c)) None no_sums, inl (Z.of_nat (S k)))
                    else (mkc (replace_nth k' (m ++ [o]) (moms c)) None no_sums, inl (Z.of_nat k))
        | None => (mkc (insert_at k [o] (moms c)) None no_sums, inl (Z.of_nat (S k)))
        end
    | O => (mkc (insert_at O [o] (moms c)) None no_sums, inl 1)
    end.
Proof. exact insert_single_inline. Qed.
Print Assumptions C05_strategy_inline.

(* the two scans return what the strategy texts say: just after the last / just before the first
   moment holding an operation that conflicts (shared qubit, key-key, key-control) *)
Theorem C05_earliest_scan : forall ms o k, (k <= length ms)%nat ->
  let p := earliest_available_moment ms o k in
  (p <= k)%nat /\ (forall j, (p <= j < k)%nat -> free_at ms o j) /\ (p = O \/ blocked_at ms o (Nat.pred p)).
Proof. exact eam_spec. Qed.
Print Assumptions C05_earliest_scan.

Theorem C05_latest_scan : forall ms o k, (k < length ms)%nat ->
  let p := latest_available_moment ms o k in
  Z.of_nat k - 1 <= p < Z.of_nat (length ms) /\
  (forall j, (k <= j)%nat -> Z.of_nat j <= p -> free_at ms o j) /\
  (p = Z.of_nat (length ms) - 1 \/ blocked_at ms o (Z.to_nat (p + 1))).
Proof. exact lam_spec. Qed.
Print Assumptions C05_latest_scan.

Theorem C05_conflict_rule : forall m o ms i,
  (blocks m o = true <-> exists x, In x m /\ conflicts x o = true) /\
  can_add_op_at ms i o = match nth_error ms i with None => true | Some m => negb (blocks m o) end.
Proof. intros m o ms i. split; [apply blocks_spec|apply can_add_spec]. Qed.
Print Assumptions C05_conflict_rule.

(* D4 order_preserved, one inserted operation, any of the five strategies, no live cache: the call
   succeeds, existing operations stay in place (up to one new moment) and the operation either gets a
   new moment at the insertion point or joins the end of a moment p such that no moment between p and
   the insertion point (p included) holds an operation that conflicts with it *)
Theorem C05_order_preserved_single : forall c i o s, cache c = None ->
  exists c' z, insert c i [IOp o] s = (c', inl z) /\ lands (moms c) (moms c') o (clamp_index i (length (moms c))).
Proof. exact insert_single_lands. Qed.
Print Assumptions C05_order_preserved_single.

(* the same on Circuit.all_operations(): existing operations keep their order, and among the operations
   conflicting with o those before the insertion point precede it, those from it on follow it *)
Theorem C05_order_preserved_single_lin : forall c i o s, cache c = None ->
  let k := clamp_index i (length (moms c)) in
  exists c' z l1 l2, insert c i [IOp o] s = (c', inl z) /\
    lin (moms c) = l1 ++ l2 /\ lin (moms c') = l1 ++ o :: l2 /\
    filter (fun x => conflicts x o) l1 = filter (fun x => conflicts x o) (lin (firstn k (moms c))) /\
    filter (fun x => conflicts x o) l2 = filter (fun x => conflicts x o) (lin (skipn k (moms c))).
Proof. exact insert_single_order. Qed.
Print Assumptions C05_order_preserved_single_lin.

(* ... and the cached EARLIEST append lands the same way at the end *)
Theorem C05_order_preserved_cached_append : forall pc ms o idx pc',
  cache_matches pc ms -> cache_append pc (IOp o) = (idx, pc') ->
  exists ms', place ms idx (IOp o) = inl ms' /\ lands ms ms' o (length ms).
Proof. exact cached_append_lands. Qed.
Print Assumptions C05_order_preserved_cached_append.

(* D4, existing operations among themselves, every insert (any strategy, index, operation tree, cached or
   not, succeeding or raising): the old linearisation is a subsequence of the new one *)
Theorem C05_existing_order_kept : forall c i its s c' r,
  insert c i its s = (c', r) -> sub (lin (moms c)) (lin (moms c')).
Proof. exact insert_keeps_existing_order. Qed.
Print Assumptions C05_existing_order_kept.

(* D4 for append / += / Circuit(tree) with the default strategy, any operation tree, cached or not: the
   items are taken in order, each operation is put at a place behind which nothing conflicts with it (so it
   follows every conflicting operation that was there or was inserted before it), each Moment goes last *)
Theorem C05_order_preserved_append : forall c its, cache_ok c ->
  exists c' z, append c its EARLIEST = (c', inl z) /\ reach (lin (moms c)) its (lin (moms c')).
Proof. exact append_order. Qed.
Print Assumptions C05_order_preserved_append.

Theorem C05_order_preserved_constructor : forall its,
  exists c', construct its EARLIEST = (c', inl 0) /\ reach [] its (lin (moms c')).
Proof. exact construct_order. Qed.
Print Assumptions C05_order_preserved_constructor.

(* the returned index ("the insertion index that will place operations just after the operations that were inserted
   by this method"), every strategy, any index, any tree, cached or not: the returned index z is not in front of the
   insertion point k, and the moments from z on are, unchanged, the moments that stood from some j >= k on before the
   call: nothing the call inserted or touched lies at or behind z, so whatever is inserted at z afterwards is placed
   against (C05_order_preserved_single) a prefix that holds every inserted operation *)
Theorem C05_insert_returns_index_behind_inserted : forall c i its s c' z,
  cache_ok c -> insert c i its s = (c', inl z) ->
  let k := clamp_index i (length (moms c)) in
  Z.of_nat k <= z /\ exists j, (k <= j)%nat /\ skipn (Z.to_nat z) (moms c') = skipn j (moms c).
Proof. exact insert_returns_behind. Qed.
Print Assumptions C05_insert_returns_index_behind_inserted.

(* ... under LATEST it is moreover not past the end of the circuit *)
Theorem C05_latest_returns_index_behind_inserted : forall c i its c' z,
  insert c i its LATEST = (c', inl z) ->
  let k := clamp_index i (length (moms c)) in
  Z.of_nat k <= z <= Z.of_nat (length (moms c')) /\
  exists j, (k <= j)%nat /\ skipn (Z.to_nat z) (moms c') = skipn j (moms c).
Proof. exact insert_latest_returns_behind. Qed.
Print Assumptions C05_latest_returns_index_behind_inserted.

(* ... in counts: the first z moments hold what stood in the first j moments plus every inserted operation *)
Theorem C05_inserted_before_returned_index : forall u c i its s c' z,
  cache_ok c -> insert c i its s = (c', inl z) ->
  exists j, (clamp_index i (length (moms c)) <= j)%nat /\
    ccnt u (firstn (Z.to_nat z) (moms c')) = (ccnt u (firstn j (moms c)) + icnt u its)%nat /\
    ccnt u (skipn (Z.to_nat z) (moms c')) = ccnt u (skipn j (moms c)).
Proof. exact insert_inserted_before_returned. Qed.
Print Assumptions C05_inserted_before_returned_index.

(* ... and after any history *)
Theorem C05_insert_returns_index_behind_inserted_in_history : forall h i its s c' z,
  insert (run empty_circuit h) i its s = (c', inl z) ->
  let c := run empty_circuit h in
  let k := clamp_index i (length (moms c)) in
  Z.of_nat k <= z /\ exists j, (k <= j)%nat /\ skipn (Z.to_nat z) (moms c') = skipn j (moms c).
Proof. exact history_insert_returns_behind. Qed.
Print Assumptions C05_insert_returns_index_behind_inserted_in_history.

(* D4 for insert_into_range, inserted operations among themselves: the call writes its operations with one
   forward-moving cursor, so the operations written into the range are, in the order given, a subsequence of
   all_operations() of the result - for every occupancy of the range, whether or not an earlier moment is
   blocked for an earlier operation and free for a later one; operations that do not fit are handed to
   insert(end, rest), which does not disturb them; if all fit the call returns `end` *)
Theorem C05_insert_into_range_keeps_given_order : forall c its s e c' z,
  insert_into_range c its s e = (c', inl z) ->
  exists placed rest ms1,
    range_loop (moms c) (Z.to_nat s) (Z.to_nat e) (items_ops its) = (ms1, rest, None) /\
    items_ops its = placed ++ rest /\ sub placed (lin (moms c')) /\
    (rest = [] -> moms c' = ms1 /\ z = e).
Proof. exact insert_into_range_given_order. Qed.
Print Assumptions C05_insert_into_range_keeps_given_order.

(* ... read pairwise: of two operations written into the range the one given first comes first *)
Theorem C05_insert_into_range_pairs_in_given_order : forall c its s e c' z,
  insert_into_range c its s e = (c', inl z) ->
  exists placed rest, items_ops its = placed ++ rest /\
    (rest = [] -> z = e) /\
    forall x y, sub [x; y] placed -> sub [x; y] (lin (moms c')).
Proof. exact insert_into_range_pairs_in_given_order. Qed.
Print Assumptions C05_insert_into_range_pairs_in_given_order.

(* the loop itself, for every cursor position: moments in front of the cursor untouched, written operations in
   the order given behind it *)
Theorem C05_range_loop_keeps_given_order : forall ops ms i e ms' rest,
  (e <= length ms)%nat -> range_loop ms i e ops = (ms', rest, None) ->
  exists placed, ops = placed ++ rest /\ firstn i ms' = firstn i ms /\ sub placed (lin (skipn i ms')).
Proof. exact range_loop_given_order. Qed.
Print Assumptions C05_range_loop_keeps_given_order.

(* the order clause is refuted for two calls (open defects of /repo, known findings order:concat and
   order:frontier); batch_insert was a third until fix b5fcbdd, see batch_insert_repaired_example *)
Theorem C05_concat_ragged_order_refuted :
  exists c others c', Forall wf (moms c :: others) /\ concat_ragged c others LEFT = (c', inl 0) /\
    conflicts (wM 2 0 0) (wC 3 1 0) = true /\
    uid_moms (moms c) = [[1]; [2]] /\ uid_moms (moms c') = [[1; 3]; [2]].
Proof. exact concat_ragged_order_refuted. Qed.
Print Assumptions C05_concat_ragged_order_refuted.

Theorem C05_insert_at_frontier_order_refuted :
  exists its c' f, insert_at_frontier empty_circuit its 0 [] = (c', inl f) /\
    its = [IOp (wX 1 3); IOp (wM 2 3 0); IOp (wM 3 2 0)] /\ conflicts (wM 2 3 0) (wM 3 2 0) = true /\
    uid_moms (moms c') = [[1; 3]; [2]].
Proof. exact insert_at_frontier_order_refuted. Qed.
Print Assumptions C05_insert_at_frontier_order_refuted.

(* insert never raises: any strategy, index, operation tree, on a circuit whose cache (if any) agrees
   with its moments - which is the case after every history *)
Theorem C05_insert_never_raises : forall c i its s, cache_ok c -> exists c' z, insert c i its s = (c', inl z).
Proof. exact insert_total. Qed.
Print Assumptions C05_insert_never_raises.

Theorem C05_insert_never_raises_in_history : forall h i its s,
  exists c' z, insert (run empty_circuit h) i its s = (c', inl z).
Proof. exact history_insert_never_raises. Qed.
Print Assumptions C05_insert_never_raises_in_history.

(* batches produced by _group_into_moment_compatible: a Moment alone, or pairwise non-conflicting operations *)
Theorem C05_grouping_compatible : forall its, Forall batch_ok (group_into_moment_compatible its).
Proof. exact group_batches_ok. Qed.
Print Assumptions C05_grouping_compatible.

(* several circuit objects (Circ/Store.v): expressions such as c.copy(), c[a:b], c.untagged, c.with_tags(t), c + tree make
   a new object; `main` is the circuit under edit, `aside` the objects put aside (sources of construction expressions the
   variable was rebound by, and results of construction expressions taken while the variable kept the source).
   The circuit under edit is what its own calls build: objects derived from it and objects it was derived from have no
   influence on it *)
Theorem C05_edited_circuit_is_its_own_history : forall h st, main (srun st h) = run (main st) (main_calls h).
Proof. exact main_own_history. Qed.
Print Assumptions C05_edited_circuit_is_its_own_history.

(* an object put aside is never changed by later calls on the circuit under edit (nor by later derivations) *)
Theorem C05_object_put_aside_is_kept : forall h st i o,
  nth_error (aside st) i = Some o -> nth_error (aside (srun st h)) i = Some o.
Proof. exact aside_object_kept. Qed.
Print Assumptions C05_object_put_aside_is_kept.

(* every object put aside during a history is the circuit the variable's own calls had built up to some point of the
   history, or the result of one construction expression on that circuit *)
Theorem C05_object_put_aside_is_determined : forall h st o, In o (aside (srun st h)) ->
  In o (aside st) \/
  exists h1 h2, h = h1 ++ h2 /\
    (o = run (main st) (main_calls h1) \/ exists x, o = fst (step (run (main st) (main_calls h1)) x)).
Proof. exact aside_determined. Qed.
Print Assumptions C05_object_put_aside_is_determined.

(* non-vacuity of the hypotheses *)
Example C05_hypotheses_example :
  let h := [CAppend [IOp (mkop 1 [0; 1] [] [] [] true); IMom [mkop 2 [0] [3] [] [] false]] EARLIEST;
            QAllQubits; CInsert (-1) [IOp (mkop 3 [1] [] [3] [] false)] LATEST; CBatchRemove [(0, mkop 1 [0; 1] [] [] [] true)]] in
  Forall call_wf h /\ clean empty_circuit h /\
  uid_moms (moms (run empty_circuit h)) = [[]; [3]; [2]].
Proof.
  cbv zeta. split; [|split].
  - repeat constructor; simpl; intuition discriminate.
  - vm_compute. tauto.
  - vm_compute. reflexivity.
Qed.

(* the hypotheses of C05_insert_returns_index_behind_inserted are satisfiable, with a tree whose operations conflict:
   LATEST insert of two operations on qubit 0 between [X(0)] and [X(0) H(1)] [H(1)] returns 3 *)
Example C05_returned_index_example :
  let c := from_moments [[mkop 1 [0] [] [] [] true]; [mkop 2 [0] [] [] [] true; mkop 3 [1] [] [] [] true]; [mkop 4 [1] [] [] [] true]] in
  let its := [IOp (mkop 5 [0] [] [] [] true); IOp (mkop 6 [0] [] [] [] true)] in
  cache_ok c /\ exists c', insert c 1 its LATEST = (c', inl 3) /\ uid_moms (moms c') = [[1]; [5]; [6]; [2; 3]; [4]].
Proof.
  cbv zeta. split; [intros p Hp; discriminate|]. eexists. split; vm_compute; reflexivity.
Qed.

(* the hypotheses of C05_insert_into_range_keeps_given_order are satisfiable on the critical shape: the first moment
   of the range is blocked for the first operation (shared qubit 0) and free for the second, which shares qubit 1 with
   the first: [Z(0)] [] [] ; insert_into_range([CZ(0,1), X(1)], 0, 3) gives [Z(0)] [CZ(0,1)] [X(1)] and returns 3 *)
Example C05_insert_into_range_order_example :
  let c := from_moments [[mkop 1 [0] [] [] [] true]; []; []] in
  let its := [IOp (mkop 2 [0; 1] [] [] [] true); IOp (mkop 3 [1] [] [] [] true)] in
  exists c', insert_into_range c its 0 3 = (c', inl 3) /\ uid_moms (moms c') = [[1]; [2]; [3]].
Proof. exact insert_into_range_order_example. Qed.

(* the store statements are not vacuous: c = Circuit(); c.append(X(0)); d = c.copy(); c.append(Y(0)); c = c[1:]; c.append(X(0))
   leaves d = [X], the circuit that was sliced = [X] [Y], and c = [Y] [X] *)
Example C05_store_example :
  let x := mkop 1 [0] [] [] [] true in
  let y := mkop 2 [0] [] [] [] true in
  let st := srun sinit [SMain (CAppend [IOp x] EARLIEST); SSide CCopy; SMain (CAppend [IOp y] EARLIEST);
                        SMain (CSlice (Some 1) None); SMain (CAppend [IOp x] EARLIEST)] in
  map (fun c => uid_moms (moms c)) (aside st) = [[[1]]; [[1]; [2]]] /\ uid_moms (moms (main st)) = [[2]; [1]].
Proof. vm_compute. split; reflexivity. Qed.
