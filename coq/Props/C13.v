(* C13 — obligations.  Statements only, closed by the lemmas proved in Cliff/. *)
From Coq Require Import List Bool ZArith.
From VF Require Import Base.RingOps Base.Mat Cliff.Tableau Generated.TableauRules Cliff.TableauProofs.
Import ListNotations.

(* every regenerated rule table of CliffordTableau (apply_x/y/z/h/cz/cx, _swap, g, _rowsum) is the model's rule *)
Theorem C13_tableau_tables_ok : tables_match_model.
Proof. exact tableau_tables_ok. Qed.
Print Assumptions C13_tableau_tables_ok.
