(* C13 — obligations.  Statements only, closed by the lemmas proved in Cliff/. *)
From Coq Require Import List Bool ZArith Arith Lia.
From VF Require Import Base.RingOps Base.Mat Base.Tensor Base.K8 Gates.GateSpecs
  Cliff.Tableau Cliff.TableauSem Cliff.TableauCircuit Generated.TableauRules
  Cliff.TableauProofs Cliff.TableauConjProofs Cliff.TableauTrackProofs Cliff.TableauCircuitProofs
  Cliff.TableauThen Cliff.TableauThenProofs Cliff.CliffGroup Cliff.CliffGroupProofs
  Cliff.CHForm Cliff.CHFormHarness Cliff.CHFormProofs Cliff.TableauRowsumProofs
  Cliff.TableauPad Cliff.TableauPadProofs Cliff.CHFormJoin Cliff.CHFormJoinProofs.
Import ListNotations.

(* every regenerated rule table of CliffordTableau (apply_x/y/z/h/cz/cx, _swap, g, _rowsum) is the model's rule *)
Theorem C13_tableau_tables_ok : tables_match_model.
Proof. exact tableau_tables_ok. Qed.
Print Assumptions C13_tableau_tables_ok.

(* D1: each local rule is conjugation by the documented gate matrix: G P = P' G, G P G^-1 = P', G G^-1 = 1, for the
   signed Pauli P on the gate's qubits and P' the rule's output; e = 2 * exponent, any global-shift phase g *)
Theorem C13_rule_is_conjugation_X : forall K (O : Ops K), Laws O -> forall g gc, kmul O g gc = k1 O ->
  forall e, e < 8 -> conj1_ok O (gate_x O e g) (gate_x_inv O e gc) (rule_x (eff e)).
Proof. exact @rule_is_conjugation_X. Qed.
Print Assumptions C13_rule_is_conjugation_X.

Theorem C13_rule_is_conjugation_Y : forall K (O : Ops K), Laws O -> forall g gc, kmul O g gc = k1 O ->
  forall e, e < 8 -> conj1_ok O (gate_y O e g) (gate_y_inv O e gc) (rule_y (eff e)).
Proof. exact @rule_is_conjugation_Y. Qed.
Print Assumptions C13_rule_is_conjugation_Y.

Theorem C13_rule_is_conjugation_Z : forall K (O : Ops K), Laws O -> forall g gc, kmul O g gc = k1 O ->
  forall e, e < 8 -> conj1_ok O (gate_z O e g) (gate_z_inv O e gc) (rule_z (eff e)).
Proof. exact @rule_is_conjugation_Z. Qed.
Print Assumptions C13_rule_is_conjugation_Z.

Theorem C13_rule_is_conjugation_H : forall K (O : Ops K), Laws O -> forall g gc, kmul O g gc = k1 O ->
  forall e, In e evens -> conj1_ok O (gate_h O e g) (gate_h_inv O e gc) (fun p => if odd_e e then rule_h p else p).
Proof. exact @rule_is_conjugation_H. Qed.
Print Assumptions C13_rule_is_conjugation_H.

Theorem C13_rule_is_conjugation_CZ : forall K (O : Ops K), Laws O -> forall g gc, kmul O g gc = k1 O ->
  forall e, In e evens -> conj2_ok O (gate_cz O e g) (gate_cz_inv O e gc) (fun p => if odd_e e then rule_cz p else p).
Proof. exact @rule_is_conjugation_CZ. Qed.
Print Assumptions C13_rule_is_conjugation_CZ.

Theorem C13_rule_is_conjugation_CX : forall K (O : Ops K), Laws O -> forall g gc, kmul O g gc = k1 O ->
  forall e, In e evens -> conj2_ok O (gate_cx O e g) (gate_cx_inv O e gc) (fun p => if odd_e e then rule_cx p else p).
Proof. exact @rule_is_conjugation_CX. Qed.
Print Assumptions C13_rule_is_conjugation_CX.

Theorem C13_rule_is_conjugation_SWAP : forall K (O : Ops K), Laws O -> forall g gc, kmul O g gc = k1 O ->
  forall e, In e evens -> conj2_ok O (gate_swap O e g) (gate_swap_inv O e gc) (rule_swap (odd_e e)).
Proof. exact @rule_is_conjugation_SWAP. Qed.
Print Assumptions C13_rule_is_conjugation_SWAP.

(* D2: for any n and any circuit of gates satisfying the local lemma, U (P psi) = P' (U psi) where P' is the row the
   tableau rules produce from P — i.e. every row is U (initial row) U^dagger — for every state psi and index i *)
Theorem C13_tableau_tracks : forall K (O : Ops K), Laws O -> forall n gs, Forall (lg_ok O n) gs ->
  forall row psi i, length (rbits row) = n -> wf n i ->
  lg_run O gs (pauli_act O row psi) i = pauli_act O (rows_after gs row) (lg_run O gs psi) i.
Proof. exact @tableau_tracks. Qed.
Print Assumptions C13_tableau_tracks.

Theorem C13_stabilizers_stabilize : forall K (O : Ops K), Laws O -> forall n bits gs,
  length bits = n -> Forall (lg_ok O n) gs ->
  forall row, In row (skipn n (tab_after gs (init_tableau n bits))) ->
  forall i, wf n i -> pauli_act O row (lg_run O gs (ket O bits)) i = lg_run O gs (ket O bits) i.
Proof. exact @stabilizers_stabilize. Qed.
Print Assumptions C13_stabilizers_stabilize.

(* the same for the model function the correspondence run compares with CliffordTableau after every gate:
   apply_gates on the vocabulary X/Y/Z (half-integer powers), H/CZ/CX/SWAP (integer powers), global phase,
   every exponent q/4 and every global-shift phase *)
Theorem C13_sem_of_sound : forall K (O : Ops K), Laws O -> forall n g ph phc lg,
  kmul O ph phc = k1 O -> axes_ok n g -> sem_of O g ph = Some lg ->
  lg_ok O n lg /\ forall t, apply_gate g t = Some (lg_tab lg t).
Proof. exact @sem_of_sound. Qed.
Print Assumptions C13_sem_of_sound.

Theorem C13_model_tableau_tracks : forall K (O : Ops K), Laws O -> forall n gs lgs,
  Forall (fun gp => axes_ok n (fst gp) /\ exists phc, kmul O (snd gp) phc = k1 O) gs ->
  sem_circuit O gs = Some lgs ->
  forall t, apply_gates (map fst gs) t = Some (map (rows_after lgs) t) /\
  forall row psi i, length (rbits row) = n -> wf n i ->
    lg_run O lgs (pauli_act O row psi) i = pauli_act O (rows_after lgs row) (lg_run O lgs psi) i.
Proof. exact @model_tableau_tracks. Qed.
Print Assumptions C13_model_tableau_tracks.

Theorem C13_model_stabilizers_stabilize : forall K (O : Ops K), Laws O -> forall n bits gs lgs t',
  length bits = n ->
  Forall (fun gp => axes_ok n (fst gp) /\ exists phc, kmul O (snd gp) phc = k1 O) gs ->
  sem_circuit O gs = Some lgs ->
  apply_gates (map fst gs) (init_tableau n bits) = Some t' ->
  forall row, In row (skipn n t') -> forall i, wf n i ->
    pauli_act O row (lg_run O lgs (ket O bits)) i = lg_run O lgs (ket O bits) i.
Proof. exact @model_stabilizers_stabilize. Qed.
Print Assumptions C13_model_stabilizers_stabilize.


(* what pauli_act means: a string with one non-identity factor acts as that signed Pauli matrix on that axis *)
Theorem C13_pauli_act_single : forall K (O : Ops K), Laws O -> forall n a x z r (P : list pbit) psi i,
  a < n -> length P = n -> (forall k, nth k P (false, false) = (false, false)) -> wf n i ->
  pauli_act O (mkRow (set_nth P a (x, z)) r) psi i = apply O (mat_of O [2] (pms1 O (x, z, r))) [2] [a] psi i.
Proof. exact @pauli_act_single. Qed.
Print Assumptions C13_pauli_act_single.

(* D5: the 24 single-qubit Cliffords, exhaustively in the exact field Q(zeta_8): distinct tableaux; each decompose_gate()
   matrix is unitary and conjugates X, Z to its tableau rows; merged_with = matrix product and the inverse table =
   inverse, up to a power of zeta_8; named elements equal the named matrices; and the regenerated merged_with /
   inverse tables are the model's then / inverse *)
Theorem C13_clifford24_group_ok : group24_check = true.
Proof. exact clifford24_group_ok. Qed.
Print Assumptions C13_clifford24_group_ok.

Theorem C13_clifford24_tables_ok : map (map Some) c24_merged = model_merged /\ map Some c24_inv = model_inv.
Proof. exact (conj c24_merged_ok c24_inv_ok). Qed.
Print Assumptions C13_clifford24_tables_ok.

(* D4 (partial: n <= 2, exhaustive): then / inverse as coded agree with "substitute rows for generators and multiply" *)
Theorem C13_tableau_then_ok_partial : then_check 1 = true /\ then_check 2 = true.
Proof. exact tableau_then_ok_partial. Qed.
Print Assumptions C13_tableau_then_ok_partial.

Theorem C13_tableau_inverse_ok_partial : inverse_check 1 = true /\ inverse_check 2 = true.
Proof. exact tableau_inverse_ok_partial. Qed.
Print Assumptions C13_tableau_inverse_ok_partial.


(* D6/D7 (partial): the CH-form tables are the model's functions, and the model's state vector equals the reference
   state-vector semantics exactly (phase included) for all short circuits over generator sets covering the vocabulary *)
Theorem C13_chform_tables_ok :
  (length (tbl_hdec K8Ops) = 32 /\
   forallb (fun row => let '((v, y, z, d), out) := row in hdec_eqb (H_decompose K8Ops v y z d) out) (tbl_hdec K8Ops) = true) /\
  forallb (fun row => k8_eqb (snd row) (kpow K8Ops (zeta K8Ops) (Z.to_nat (fst row mod 8)))) (tbl_phase K8Ops) = true.
Proof. exact (conj tbl_hdec_ok tbl_phase_ok). Qed.
Print Assumptions C13_chform_tables_ok.

Theorem C13_chform_small_ok_partial :
  small_ok 1 gens1 4 = true /\ small_ok 2 gens2 3 = true /\ small_ok 3 gens3 2 = true /\ long_ok = true.
Proof. exact chform_small_ok_partial. Qed.
Print Assumptions C13_chform_small_ok_partial.


(* D3 (support): _rowsum multiplies commuting rows (all pairs of one- and two-qubit rows, exact) *)
Theorem C13_rowsum_is_product_small :
  forallb rowsum_pair_ok (model_rowsum 1) = true /\ forallb rowsum_pair_ok (model_rowsum 2) = true.
Proof. exact rowsum_is_product_small. Qed.
Print Assumptions C13_rowsum_is_product_small.

(* D8: a multi-qubit CliffordGate object acting on a tableau state (CliffordGate._act_on_ = then(_pad_tableau(gate, n, axes))).
   For every k, n and every list of k distinct axes below n, padding commutes with every rule of the vocabulary: the gate on
   axis a of the k-qubit tableau is the gate on axis axes[a] of the padded one *)
Theorem C13_pad_commutes_with_rules : forall k n axes g t, axes_wf k n axes -> gate_axes_ok k g -> tab_shape k t ->
  apply_gate (remap_gate axes g) (pad_tab k n axes t) = option_map (pad_tab k n axes) (apply_gate g t).
Proof. exact pad_apply_gate. Qed.
Print Assumptions C13_pad_commutes_with_rules.

(* hence the padded tableau of a circuit on k qubits is the tableau of the circuit placed on the axes, in the order given *)
Theorem C13_pad_tab_of_circuit : forall k n axes gs t, axes_wf k n axes -> Forall (gate_axes_ok k) gs ->
  apply_gates gs (init_tableau k []) = Some t ->
  apply_gates (map (remap_gate axes) gs) (init_tableau n []) = Some (pad_tab k n axes t).
Proof. exact pad_tab_of_circuit. Qed.
Print Assumptions C13_pad_tab_of_circuit.

(* and its rows are U P U^dagger for the unitary U of that placed circuit *)
Theorem C13_padded_tableau_tracks : forall K (O : Ops K), Laws O -> forall k n axes (gs : list (cgate * K)) lgs t,
  axes_wf k n axes -> 0 < n ->
  Forall (fun gp => gate_axes_ok k (fst gp) /\ exists phc, kmul O (snd gp) phc = k1 O) gs ->
  apply_gates (map fst gs) (init_tableau k []) = Some t ->
  sem_circuit O (map (fun gp => (remap_gate axes (fst gp), snd gp)) gs) = Some lgs ->
  pad_tab k n axes t = map (rows_after lgs) (init_tableau n []) /\
  forall row psi i, length (rbits row) = n -> wf n i ->
    lg_run O lgs (pauli_act O row psi) i = pauli_act O (rows_after lgs row) (lg_run O lgs psi) i.
Proof. exact @padded_tableau_tracks. Qed.
Print Assumptions C13_padded_tableau_tracks.

(* the inputs the model's act_cgate accepts meet the hypotheses; the order of the axes matters (CNOT on [1;0] is the CNOT
   with control 1, not the canonical-order one); the hypotheses are satisfiable *)
Theorem C13_pad_inputs_and_order :
  (forall k n axes, axes_valid k n axes = true -> axes_wf k n axes) /\
  (let cx := match apply_gate (CCX_ 4 0 1) (init_tableau 2 []) with Some t => t | None => [] end in
   apply_gate (CCX_ 4 1 0) (init_tableau 2 []) = Some (pad_tab 2 2 [1; 0] cx) /\
   tab_eqb (pad_tab 2 2 [1; 0] cx) (pad_tab 2 2 [0; 1] cx) = false /\ pad_tab 2 2 [0; 1] cx = cx) /\
  (axes_wf 2 3 [2; 0] /\ Forall (gate_axes_ok 2) [CH_ 4 0; CCX_ 4 0 1; CZ_ 2 1] /\
   (exists t, apply_gates [CH_ 4 0; CCX_ 4 0 1; CZ_ 2 1] (init_tableau 2 []) = Some t) /\ axes_valid 2 3 [2; 0] = true).
Proof. exact (conj axes_valid_wf (conj pad_order_matters pad_hypotheses_satisfiable)). Qed.
Print Assumptions C13_pad_inputs_and_order.

(* D9 (partial, exact in Q(zeta_8)): kron and reindex of the CH form.  For every state reached by a short circuit, every
   permutation axes of its qubits and every basis state y: <y| reindex(axes) c> = <y'| c> with y'[axes[i]] = y[i];
   <y1 y2| a.kron(b)> = <y1|a> <y2|b>; a reindex that reads through the inverse permutation fails this for a 3-cycle *)
Theorem C13_chform_reindex_ok_partial :
  length st2 = 211 /\ length st3 = 160 /\ reindex_ok 2 st2 = true /\ reindex_ok 3 st3 = true.
Proof. exact chform_reindex_ok_partial. Qed.
Print Assumptions C13_chform_reindex_ok_partial.

Theorem C13_chform_kron_ok_partial :
  kron_ok 1 1 st1s st1 = true /\ kron_ok 1 2 st1s st2 = true /\ kron_ok 2 1 st2 st1s = true /\ kron_ok 2 2 st2s st2s = true /\
  kron_ok 1 3 st1s st3 = true /\ kron_ok 3 1 st3 st1s = true.
Proof. exact chform_kron_ok_partial. Qed.
Print Assumptions C13_chform_kron_ok_partial.

Theorem C13_chform_reindex_direction_matters :
  exists c y, In c st3 /\
    k8_eqb (ch_amp K8Ops (scatter_reindex [1; 2; 0] c) y) (ch_amp K8Ops c (old_digits 3 [1; 2; 0] y)) = false.
Proof. exact chform_reindex_direction_matters. Qed.
Print Assumptions C13_chform_reindex_direction_matters.

(* for every n: reindexing twice is reindexing by the composed order; the identity order changes nothing *)
Theorem C13_ch_reindex_structure :
  (forall K (a b : list nat) (c : chst (K:=K)), Forall (fun x => x < length a) b ->
     ch_reindex b (ch_reindex a c) = ch_reindex (sel 0 b a) c) /\
  (forall K n (c : chst (K:=K)), ch_shape n c -> ch_reindex (seq 0 n) c = c) /\ ch_shape 3 (ch_zero K8Ops 3).
Proof. exact (conj (@ch_reindex_compose) (conj (@ch_reindex_id) ch_shape_zero)). Qed.
Print Assumptions C13_ch_reindex_structure.

(* non-vacuity: the laws are inhabited (exact field Q(zeta_8)) and a Bell-pair circuit with an S gate meets every hypothesis *)
Example C13_hypotheses_satisfiable :
  Laws K8Ops /\
  let gs := [(CH_ 4 0, k1 K8Ops); (CCX_ 4 0 1, k1 K8Ops); (CZ_ 2 1, ki K8Ops)] in
  Forall (fun gp => axes_ok 2 (fst gp) /\ exists phc, kmul K8Ops (snd gp) phc = k1 K8Ops) gs /\
  (exists lgs, sem_circuit K8Ops gs = Some lgs) /\
  (exists t', apply_gates (map fst gs) (init_tableau 2 [false; true]) = Some t') /\ wf 2 [1; 0].
Proof.
  split; [exact K8Laws|]. simpl. repeat split.
  - repeat constructor; simpl; try lia; try (exists (k1 K8Ops); vm_compute; reflexivity).
    exists (kopp K8Ops (ki K8Ops)); vm_compute; reflexivity.
  - eexists; reflexivity.
  - eexists; reflexivity.
  - repeat constructor.
Qed.
