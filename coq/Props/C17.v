(* C17 — deciding obligations. Statements only, closed by the lemmas proved in Vendor/ and Codec/. *)
From Coq Require Import String List ZArith Bool.
From VF Require Import Base.RingOps Base.Mat Base.K8 Gates.EigenGate Gates.GateSpecs Gates.Families
  Vendor.IonQ Vendor.IonQProofs.
Import ListNotations.

(* ---- D1: every dispatch branch of the IonQ serializer, for every exponent of the branch's class ----
   r = exp(i pi e/2), rc its inverse, g = exp(i pi e s) the global-shift phase; the factor in front of the
   vendor matrix is the explicit global phase (a unit: g and r are). *)
Theorem C17_ionq_branch_rx : forall K (O : Ops K), Laws O -> forall r rc g, kmul O r rc = k1 O ->
  gate_model O (GEig EXPow r rc g) = mscale O (kmul O g r) (ionq_gate_matrix O Nrx [r; rc]).
Proof. exact @ionq_branch_rx. Qed.
Print Assumptions C17_ionq_branch_rx.

Theorem C17_ionq_branch_ry : forall K (O : Ops K), Laws O -> forall r rc g, kmul O r rc = k1 O ->
  gate_model O (GEig EYPow r rc g) = mscale O (kmul O g r) (ionq_gate_matrix O Nry [r; rc]).
Proof. exact @ionq_branch_ry. Qed.
Print Assumptions C17_ionq_branch_ry.

Theorem C17_ionq_branch_rz : forall K (O : Ops K), Laws O -> forall r rc g, kmul O r rc = k1 O ->
  gate_model O (GEig EZPow r rc g) = mscale O (kmul O g r) (ionq_gate_matrix O Nrz [r; rc]).
Proof. exact @ionq_branch_rz. Qed.
Print Assumptions C17_ionq_branch_rz.

Theorem C17_ionq_branch_xx : forall K (O : Ops K), Laws O -> forall r rc g, kmul O r rc = k1 O ->
  gate_model O (GEig EXXPow r rc g) = mscale O (kmul O g r) (ionq_gate_matrix O Nxx [r; rc]).
Proof. exact @ionq_branch_xx. Qed.
Print Assumptions C17_ionq_branch_xx.

Theorem C17_ionq_branch_yy : forall K (O : Ops K), Laws O -> forall r rc g, kmul O r rc = k1 O ->
  gate_model O (GEig EYYPow r rc g) = mscale O (kmul O g r) (ionq_gate_matrix O Nyy [r; rc]).
Proof. exact @ionq_branch_yy. Qed.
Print Assumptions C17_ionq_branch_yy.

Theorem C17_ionq_branch_zz : forall K (O : Ops K), Laws O -> forall r rc g, kmul O r rc = k1 O ->
  gate_model O (GEig EZZPow r rc g) = mscale O (kmul O g r) (ionq_gate_matrix O Nzz [r; rc]).
Proof. exact @ionq_branch_zz. Qed.
Print Assumptions C17_ionq_branch_zz.

Theorem C17_ionq_branch_x : forall K (O : Ops K), Laws O -> forall r rc g, kmul O r rc = k1 O ->
  kmul O r r = kopp O (k1 O) ->
  gate_model O (GEig EXPow r rc g) = mscale O g (ionq_gate_matrix O Nx []).
Proof. exact @ionq_branch_x. Qed.
Print Assumptions C17_ionq_branch_x.

Theorem C17_ionq_branch_y : forall K (O : Ops K), Laws O -> forall r rc g, kmul O r rc = k1 O ->
  kmul O r r = kopp O (k1 O) ->
  gate_model O (GEig EYPow r rc g) = mscale O g (ionq_gate_matrix O Ny []).
Proof. exact @ionq_branch_y. Qed.
Print Assumptions C17_ionq_branch_y.

Theorem C17_ionq_branch_z : forall K (O : Ops K), Laws O -> forall r rc g, kmul O r rc = k1 O ->
  kmul O r r = kopp O (k1 O) ->
  gate_model O (GEig EZPow r rc g) = mscale O g (ionq_gate_matrix O Nz []).
Proof. exact @ionq_branch_z. Qed.
Print Assumptions C17_ionq_branch_z.

Theorem C17_ionq_branch_h : forall K (O : Ops K), Laws O -> forall r rc g, kmul O r rc = k1 O ->
  kmul O r r = kopp O (k1 O) ->
  gate_model O (GEig EHPow r rc g) = mscale O g (ionq_gate_matrix O Nh []).
Proof. exact @ionq_branch_h. Qed.
Print Assumptions C17_ionq_branch_h.

Theorem C17_ionq_branch_cnot : forall K (O : Ops K), Laws O -> forall r rc g, kmul O r rc = k1 O ->
  kmul O r r = kopp O (k1 O) ->
  gate_model O (GEig ECXPow r rc g) = mscale O g (ionq_gate_matrix O Ncnot []).
Proof. exact @ionq_branch_cnot. Qed.
Print Assumptions C17_ionq_branch_cnot.

Theorem C17_ionq_branch_swap : forall K (O : Ops K), Laws O -> forall r rc g, kmul O r rc = k1 O ->
  kmul O r r = kopp O (k1 O) ->
  gate_model O (GEig ESwapPow r rc g) = mscale O g (ionq_gate_matrix O Nswap []).
Proof. exact @ionq_branch_swap. Qed.
Print Assumptions C17_ionq_branch_swap.

Theorem C17_ionq_branch_v : forall K (O : Ops K), Laws O -> forall r rc g, kmul O r rc = k1 O ->
  kmul O r r = ki O ->
  gate_model O (GEig EXPow r rc g) = mscale O g (ionq_gate_matrix O Nv []).
Proof. exact @ionq_branch_v. Qed.
Print Assumptions C17_ionq_branch_v.

Theorem C17_ionq_branch_s : forall K (O : Ops K), Laws O -> forall r rc g, kmul O r rc = k1 O ->
  kmul O r r = ki O ->
  gate_model O (GEig EZPow r rc g) = mscale O g (ionq_gate_matrix O Ns []).
Proof. exact @ionq_branch_s. Qed.
Print Assumptions C17_ionq_branch_s.

Theorem C17_ionq_branch_vi : forall K (O : Ops K), Laws O -> forall r rc g, kmul O r rc = k1 O ->
  kmul O r r = kopp O (ki O) ->
  gate_model O (GEig EXPow r rc g) = mscale O g (ionq_gate_matrix O Nvi []).
Proof. exact @ionq_branch_vi. Qed.
Print Assumptions C17_ionq_branch_vi.

Theorem C17_ionq_branch_si : forall K (O : Ops K), Laws O -> forall r rc g, kmul O r rc = k1 O ->
  kmul O r r = kopp O (ki O) ->
  gate_model O (GEig EZPow r rc g) = mscale O g (ionq_gate_matrix O Nsi []).
Proof. exact @ionq_branch_si. Qed.
Print Assumptions C17_ionq_branch_si.

Theorem C17_ionq_branch_t : forall K (O : Ops K), Laws O -> forall r rc g, kmul O r rc = k1 O ->
  kmul O r r = kmul O (ks2 O) (kadd O (k1 O) (ki O)) ->
  gate_model O (GEig EZPow r rc g) = mscale O g (ionq_gate_matrix O Nt []).
Proof. exact @ionq_branch_t. Qed.
Print Assumptions C17_ionq_branch_t.

Theorem C17_ionq_branch_ti : forall K (O : Ops K), Laws O -> forall r rc g, kmul O r rc = k1 O ->
  kmul O r r = kmul O (ks2 O) (ksub O (k1 O) (ki O)) ->
  gate_model O (GEig EZPow r rc g) = mscale O g (ionq_gate_matrix O Nti []).
Proof. exact @ionq_branch_ti. Qed.
Print Assumptions C17_ionq_branch_ti.

(* non-vacuity: the ring laws hold in the exact instance Q(zeta_8), which contains a unit r for each of the
   classes e = 1, 1/2, -1/2 (mod 2) (r = i, zeta_8, zeta_8^-1) and for the rotation branches (any unit). *)
From Coq Require Import Qcanon.
Open Scope Qc_scope.
Example C17_class_one_inhabited : Laws K8Ops /\ exists r rc : K8,
  kmul K8Ops r rc = k1 K8Ops /\ kmul K8Ops r r = kopp K8Ops (k1 K8Ops).
Proof. split; [exact K8Laws|]. exists (mk8 0 0 1 0), (mk8 0 0 (-(1)) 0). split; vm_compute; reflexivity. Qed.
Example C17_class_half_inhabited : exists r rc : K8, kmul K8Ops r rc = k1 K8Ops /\ kmul K8Ops r r = ki K8Ops.
Proof. exists (mk8 0 1 0 0), (mk8 0 0 0 (-(1))). split; vm_compute; reflexivity. Qed.
Example C17_class_mhalf_inhabited : exists r rc : K8, kmul K8Ops r rc = k1 K8Ops /\ kmul K8Ops r r = kopp K8Ops (ki K8Ops).
Proof. exists (mk8 0 0 0 (-(1))), (mk8 0 1 0 0). split; vm_compute; reflexivity. Qed.
Close Scope Qc_scope.

(* ---- D2: the measurement-metadata codec (key US targets RS ..., split into chunks) ---- *)
From VF Require Import Base.Digits Codec.MetaChunks Codec.MetaChunksProofs.
Open Scope Z_scope.

Theorem C17_metadata_chunks_roundtrip : forall (size : nat) (rs : list record), (1 <= size)%nat ->
  Forall (fun r => key_ok (fst r) = true /\ snd r <> []) rs ->
  parse_chunks (chunks size (full_str rs)) = Some rs.
Proof. exact metadata_chunks_roundtrip. Qed.
Print Assumptions C17_metadata_chunks_roundtrip.

(* whenever the serializer accepts, what it wrote parses back to what was measured, in <= 9 chunks of <= size characters *)
Theorem C17_serialize_parse : forall (size : nat) rs cs, (1 <= size)%nat -> Forall (fun r => snd r <> []) rs ->
  serialize_measurements size rs = SerOk cs ->
  parse_chunks cs = Some rs /\ (length cs <= 9)%nat /\ forall c, In c cs -> (length c <= size)%nat.
Proof. exact serialize_parse. Qed.
Print Assumptions C17_serialize_parse.

Theorem C17_dict_of_nodup : forall rs : list record, NoDup (map fst rs) -> dict_of rs = rs.
Proof. exact dict_of_nodup. Qed.
Print Assumptions C17_dict_of_nodup.

Example C17_metadata_example :
  (Forall (fun r : record => key_ok (fst r) = true /\ snd r <> []) [([109; 44; 49], [3; 10]%N); ([], [0]%N)])
  /\ serialize_measurements 4 [([109; 44; 49], [3; 10]%N); ([], [0]%N)]
     = SerOk [[109; 44; 49; 31]; [51; 44; 49; 48]; [30; 31; 48]].
Proof. split; [repeat constructor; discriminate | reflexivity]. Qed.

(* ---- D3: bit order ---- *)
Theorem C17_endian_reverse_invol : forall v (n : nat), 0 <= v < 2 ^ Z.of_nat n -> le_to_big (le_to_big v n) n = v.
Proof. exact endian_reverse_invol. Qed.
Print Assumptions C17_endian_reverse_invol.

Theorem C17_endian_reverse_mod : forall v (n : nat), le_to_big (le_to_big v n) n = v mod 2 ^ Z.of_nat n.
Proof. exact endian_reverse_mod. Qed.
Print Assumptions C17_endian_reverse_mod.

(* the vendor's outcome integer b gives qubit targets[i] its bit number targets[i]; the Cirq row is in measurement order *)
Theorem C17_result_bits_ok : forall (n : nat) (ts : list N) b, Forall (fun t => (N.to_nat t < n)%nat) ts ->
  qpu_row n ts (le_to_big b n) = Some (map (fun t => Z.b2z (Z.testbit b (Z.of_N t))) ts)
  /\ sim_row n ts (le_to_big b n) = Some (map (fun t => Z.b2z (Z.testbit b (Z.of_N t))) ts).
Proof. exact result_bits_ok. Qed.
Print Assumptions C17_result_bits_ok.

Example C17_result_bits_example : qpu_row 3 [2; 0]%N (le_to_big 4 3) = Some [1; 0] /\ le_to_big 6 3 = 3.
Proof. split; reflexivity. Qed.
Close Scope Z_scope.

(* ---- D1 (cont.): the dispatch as a whole, the regenerated dispatch table, native gates ---- *)
From VF Require Import Generated.IonqDispatch Vendor.IonQDispatchProofs.

Theorem C17_ionq_dispatch_sound : forall K (O : Ops K), Laws O -> forall (f : ifam) (c : eclass) (r rc g : K),
  kmul O r rc = k1 O -> class_hyp O c r -> forall m, ionq_emit_matrix O f c r rc = Some m ->
  gate_model O (GEig (ifam_eig f) r rc g) = mscale O (emit_phase O f c r g) m.
Proof. exact ionq_dispatch_sound. Qed.
Print Assumptions C17_ionq_dispatch_sound.

(* what the working tree's serializer emits (regenerated on every run: every family at the special exponents, just inside and
   outside the 1e-8 window, generic exponents) is the model's decision function: mnemonic, rotation = exponent * pi, wire layout *)
Theorem C17_ionq_dispatch_table_ok : forallb dispatch_row_ok ionq_dispatch_rows = true.
Proof. exact ionq_dispatch_table_ok. Qed.
Print Assumptions C17_ionq_dispatch_table_ok.

Theorem C17_ionq_dispatch_table_covers :
  forallb (fun fc => existsb (fun r => let '(f, e, _) := r in
                                       match f, fst fc with
                                       | FX, FX | FY, FY | FZ, FZ | FXX, FXX | FYY, FYY | FZZ, FZZ | FCNOT, FCNOT | FH, FH | FSWAP, FSWAP =>
                                           match eclass_of e, snd fc with
                                           | COne, COne | CHalf, CHalf | CMHalf, CMHalf | CQuarter, CQuarter
                                           | CMQuarter, CMQuarter | COther, COther => true
                                           | _, _ => false
                                           end
                                       | _, _ => false
                                       end) ionq_dispatch_rows)
          (list_prod [FX; FY; FZ; FXX; FYY; FZZ; FCNOT; FH; FSWAP] [COne; CHalf; CMHalf; CQuarter; CMQuarter; COther]) = true.
Proof. exact ionq_dispatch_table_covers. Qed.
Print Assumptions C17_ionq_dispatch_table_covers.

Theorem C17_ionq_native_table_ok : forallb native_row_ok ionq_native_rows = true /\ ionq_serializer_atol = ATOL.
Proof. exact (conj ionq_native_table_ok ionq_atol_ok). Qed.
Print Assumptions C17_ionq_native_table_ok.

Theorem C17_ionq_native_gpi : forall K (O : Ops K), Laws O -> forall p pc,
  gate_model O (GGPI p pc) = ionq_gate_matrix O Ngpi [p; pc].
Proof. exact @ionq_native_gpi. Qed.
Print Assumptions C17_ionq_native_gpi.
Theorem C17_ionq_native_gpi2 : forall K (O : Ops K), Laws O -> forall p pc,
  gate_model O (GGPI2 p pc) = ionq_gate_matrix O Ngpi2 [p; pc].
Proof. exact @ionq_native_gpi2. Qed.
Print Assumptions C17_ionq_native_gpi2.
Theorem C17_ionq_native_ms : forall K (O : Ops K), Laws O -> forall p0 p0c p1 p1c t tc,
  gate_model O (GIonqMS (kmul O p0 p1) (kmul O p0c p1c) (kmul O p0 p1c) (kmul O p0c p1) t tc)
  = ionq_gate_matrix O Nms [p0; p0c; p1; p1c; t; tc].
Proof. exact @ionq_native_ms. Qed.
Print Assumptions C17_ionq_native_ms.
Theorem C17_ionq_native_zz : forall K (O : Ops K), Laws O -> forall t tc,
  gate_model O (GIonqZZ t tc) = ionq_gate_matrix O Nnzz [t; tc].
Proof. exact @ionq_native_zz. Qed.
Print Assumptions C17_ionq_native_zz.

(* ---- D4: pauliexp term endianness and the coefficient / time convention, for strings of any length ---- *)
Theorem C17_pauliexp_endianness : forall K (O : Ops K), Laws O -> forall x xc y yc,
  kmul O x xc = k1 O -> kmul O y yc = k1 O -> forall (codes : list nat) (neg : bool),
  cirq_psp_matrix O codes neg x y
  = mscale O (kmul O x y) (ionq_pauliexp_matrix O (rev codes) (if neg then kmul O x yc else kmul O y xc)
                                                             (if neg then kmul O y xc else kmul O x yc)).
Proof. exact @pauliexp_endianness. Qed.
Print Assumptions C17_pauliexp_endianness.

(* ---- D5: the AQT mapping ---- *)
From VF Require Import Sim.Ref Vendor.AQT Vendor.AQTProofs.

(* one operation: AQT's definition of what is emitted is the Cirq gate up to the unit factor g*r, for every exponent,
   phase exponent and global shift *)
Theorem C17_aqt_op_sem : forall K (O : Ops K), Laws O -> forall o : aqt_cirq_op (K:=K), aqt_cirq_unit O o ->
  gate_model O (fst (aqt_cirq_gop o)) = mscale O (aqt_cirq_phase O o) (aqt_vendor_matrix O o).
Proof. exact @aqt_op_sem. Qed.
Print Assumptions C17_aqt_op_sem.

(* a whole circuit: _generate_json then _parse_legacy_circuit_json translate operation by operation, append exactly one
   MEASURE, and the v1 payload's gates act on the same wires with matrices equal to Cirq's up to a unit factor *)
Theorem C17_aqt_ops_sem : forall K (O : Ops K), Laws O -> forall (nq : nat) (os : list (aqt_cirq_op (K:=K))),
  os <> [] -> forallb (aqt_cirq_wires_ok nq) os = true ->
  parse_legacy (map aqt_generate os) = Some (map aqt_emit_v1 os ++ [VMEASURE])%list
  /\ v1_gops O nq (map aqt_emit_v1 os ++ [VMEASURE])%list = Some (map (aqt_vendor_gop O) os)
  /\ Forall2 (fun o v => snd v = snd (aqt_cirq_gop o)
                        /\ (aqt_cirq_unit O o ->
                            gate_model O (fst (aqt_cirq_gop o)) = mscale O (aqt_cirq_phase O o) (gate_model O (fst v))))
             os (map (aqt_vendor_gop O) os).
Proof. exact @aqt_ops_sem. Qed.
Print Assumptions C17_aqt_ops_sem.

Open Scope Qc_scope.
Example C17_aqt_example : exists o : aqt_cirq_op (K:=K8), aqt_cirq_unit K8Ops o /\ aqt_cirq_wires_ok 3 o = true.
Proof. exists (CXXPow (mk8 0 1 0 0) (mk8 0 0 0 (-(1))) (mk8 1 0 0 0) 2%nat 0%nat). split; vm_compute; reflexivity. Qed.
Close Scope Qc_scope.

(* non-vacuity of the classes e = +-1/4 (mod 2) (gates t, ti): Q(zeta_16) satisfies the laws and contains r = zeta_16 with
   r^2 = (1 + i)/sqrt 2, and its inverse with r^2 = (1 - i)/sqrt 2 *)
From VF Require Import Vendor.K16.
Example C17_class_quarter_inhabited : Laws K16Ops /\ exists r rc : K16,
  kmul K16Ops r rc = k1 K16Ops /\ kmul K16Ops r r = kmul K16Ops (ks2 K16Ops) (kadd K16Ops (k1 K16Ops) (ki K16Ops)).
Proof. split; [exact K16Laws|]. exists w16, w16c. split; vm_compute; reflexivity. Qed.
Example C17_class_mquarter_inhabited : exists r rc : K16,
  kmul K16Ops r rc = k1 K16Ops /\ kmul K16Ops r r = kmul K16Ops (ks2 K16Ops) (ksub K16Ops (k1 K16Ops) (ki K16Ops)).
Proof. exists w16c, w16. split; vm_compute; reflexivity. Qed.

(* the tolerance window: a special-cased gate is emitted exactly for exponents within atol = 1e-8 of the class value modulo 2
   (exponents in units of 1e-10), so the window widens each class by at most atol *)
Theorem C17_near_mod2_spec : forall e t : Z,
  near_mod2 e t = true <-> exists k : Z, (Z.abs (e - t - 2 * EUNIT * k) <= ATOL)%Z.
Proof. exact near_mod2_spec. Qed.
Print Assumptions C17_near_mod2_spec.

(* ---- histories of calls on one sampler / service object (Vendor/History.v) ----
   `expected` = at every call, the content of the submitted object AS IT IS THEN, resolved at the call's resolver.
   The vendor samplers of the working tree keep nothing between calls (checked on real histories on every run:
   the decoded request bodies of PasqalSampler / AQTSampler / cirq_ionq.Service histories against `history_ok`). *)
From VF Require Import Vendor.History Vendor.HistoryProofs.

Theorem C17_history_stateless_faithful : forall params evs h,
  run (stateless params) tt h evs = expected params h evs.
Proof. exact stateless_faithful. Qed.
Print Assumptions C17_history_stateless_faithful.

Theorem C17_history_ok_spec : forall params evs posted,
  history_ok params evs posted = true <-> posted = expected params empty_heap evs.
Proof. exact history_ok_spec. Qed.
Print Assumptions C17_history_ok_spec.

(* a sampler may remember the last request body if it remembers the VALUE it was made from ... *)
Theorem C17_history_value_cache_faithful : forall params evs h,
  run (value_cache params) None h evs = expected params h evs.
Proof. exact value_cache_faithful. Qed.
Print Assumptions C17_history_value_cache_faithful.

(* ... but not the caller's mutable object (refuted; the witness history — submit, insert in place, submit again —
   is among the fixed histories the check replays on every vendor sampler) *)
Theorem C17_history_alias_cache_refuted : exists params evs,
  run (alias_cache params) None empty_heap evs <> expected params empty_heap evs.
Proof. exact alias_cache_refuted. Qed.
Print Assumptions C17_history_alias_cache_refuted.

(* in-place mutation is the only way to see the difference: fresh objects, frozen circuits, other resolvers and sweeps
   cannot tell an aliasing sampler from a faithful one *)
Theorem C17_history_alias_cache_faithful_without_mutation : forall params evs,
  immutable_history [] evs -> run (alias_cache params) None empty_heap evs = expected params empty_heap evs.
Proof. exact alias_cache_faithful_without_mutation. Qed.
Print Assumptions C17_history_alias_cache_faithful_without_mutation.

Example C17_history_immutable_inhabited :
  immutable_history [] [ENew 0 [2; 5]; ESubmit 0 1; ENew 1 [2; 4; 5]; ESubmit 1 1; ESubmit 0 2; ESubmit 1 1].
Proof. exact immutable_history_inhabited. Qed.

(* ---- AQT jobs and the measurements of the submitted circuit (Vendor/AQTMeas.v) ----
   An AQT job can say one thing about measuring: all qubits, at the end, in index order, reported under 'm'.  The
   sampler of the working tree refuses every circuit that holds a measurement operation (checked on every run: circuits
   with measurements in the middle / under other keys / on subsets / in another order / with invert masks are submitted
   to AQTSampler and AQTSamplerLocalSimulator; what comes back must equal `aqt_sampler`, and, judged numerically, the
   distribution of the circuit's own records). *)
From VF Require Import Vendor.AQTMeas Vendor.AQTMeasProofs.

Theorem C17_aqt_sampler_faithful : forall n c r, aqt_sampler n c = Some r -> r = circuit_records n c.
Proof. exact aqt_sampler_faithful. Qed.
Print Assumptions C17_aqt_sampler_faithful.

Example C17_aqt_sampler_accepts_something : aqt_sampler 2 [AFlip [0]; AFlip [0; 1]] = Some [(key_m, [false; true])].
Proof. reflexivity. Qed.

Theorem C17_aqt_sampler_refuses : forall n c, aqt_sampler n c = None <-> existsb is_meas c = true \/ c = [].
Proof. exact aqt_sampler_refuses. Qed.
Print Assumptions C17_aqt_sampler_refuses.

(* the only measurement a job can express is the vendor's own readout *)
Theorem C17_aqt_terminal_readout_is_the_job : forall n g, existsb is_meas g = false ->
  circuit_records n (g ++ [AMeas key_m (seq 0 n) []]) = job_records n (gates_of g).
Proof. exact aqt_terminal_readout_is_the_job. Qed.
Print Assumptions C17_aqt_terminal_readout_is_the_job.

Example C17_aqt_terminal_readout_example :
  existsb is_meas [AFlip [0]; AFlip [0; 1]] = false
  /\ circuit_records 2 ([AFlip [0]; AFlip [0; 1]] ++ [AMeas key_m (seq 0 2) []]) = [(key_m, [false; true])].
Proof. exact aqt_terminal_readout_example. Qed.

(* posting the gates alone and letting the vendor read everything out does not mean a circuit whose measurements are
   anything else (refuted; every witness is replayed on the implementation, which must refuse it) *)
Theorem C17_aqt_gates_alone_refuted :
  Forall (fun nc => existsb is_meas (snd nc) = true
                    /\ job_records (fst nc) (gates_of (snd nc)) <> circuit_records (fst nc) (snd nc)) aqt_meas_witnesses.
Proof. exact aqt_gates_alone_refuted. Qed.
Print Assumptions C17_aqt_gates_alone_refuted.

Theorem C17_aqt_sampler_refuses_witnesses :
  Forall (fun nc => aqt_sampler (fst nc) (snd nc) = None) aqt_meas_witnesses.
Proof. exact aqt_sampler_refuses_witnesses. Qed.
Print Assumptions C17_aqt_sampler_refuses_witnesses.

(* what the check asks of every answer of the implementation on a basis-state circuit (`aqt_answer_ok`: accepted => the
   circuit's records; refused => refused by the model too) holds of the model sampler, and fails on every witness for the
   readout of the gates alone *)
Theorem C17_aqt_model_answer_ok : forall n c, aqt_answer_ok n c (aqt_sampler n c) = true.
Proof. exact aqt_model_answer_ok. Qed.
Print Assumptions C17_aqt_model_answer_ok.

Theorem C17_aqt_answer_ok_rejects_gates_alone :
  Forall (fun nc => aqt_answer_ok (fst nc) (snd nc) (Some (job_records (fst nc) (gates_of (snd nc)))) = false) aqt_meas_witnesses.
Proof. exact aqt_answer_ok_rejects_gates_alone. Qed.
Print Assumptions C17_aqt_answer_ok_rejects_gates_alone.

(* ---- D6: `control` / `controls` on a gate of the qis gateset (any gate may be listed with control wires) ----
   what such an op means, which controlled phase gates are Cirq's CZPowGate exactly, and why a controlled rz is not *)
From VF Require Import Vendor.IonQCtrlProofs.

Theorem C17_ionq_ctrl_x_is_cnot : forall K (O : Ops K), Laws O ->
  ionq_ctrl_matrix O 1 (ionq_gate_matrix O Nx []) = ionq_gate_matrix O Ncnot [].
Proof. exact @ionq_ctrl_x_is_cnot. Qed.
Print Assumptions C17_ionq_ctrl_x_is_cnot.

Theorem C17_ionq_ctrl_nest : forall K (O : Ops K), Laws O -> forall a b c d : K,
  ionq_ctrl_matrix O 2 [[a; b]; [c; d]] = ionq_ctrl_matrix O 1 (ionq_ctrl_matrix O 1 [[a; b]; [c; d]]).
Proof. exact @ionq_ctrl_nest. Qed.
Print Assumptions C17_ionq_ctrl_nest.

Theorem C17_ionq_ctrl_cnot_is_ctrl2_x : forall K (O : Ops K), Laws O ->
  ionq_ctrl_gate_matrix O 1 Ncnot [] = ionq_ctrl_matrix O 2 (ionq_gate_matrix O Nx []).
Proof. exact @ionq_ctrl_cnot_is_ctrl2_x. Qed.
Print Assumptions C17_ionq_ctrl_cnot_is_ctrl2_x.

Theorem C17_ionq_ctrl_z_is_cz : forall K (O : Ops K), Laws O -> forall r rc, kmul O r rc = k1 O ->
  kmul O r r = kopp O (k1 O) ->
  gate_model O (GEig ECZPow r rc (k1 O)) = ionq_ctrl_matrix O 1 (ionq_gate_matrix O Nz []).
Proof. exact @ionq_ctrl_z_is_cz. Qed.
Print Assumptions C17_ionq_ctrl_z_is_cz.

Theorem C17_ionq_ctrl_s_is_cz_half : forall K (O : Ops K), Laws O -> forall r rc, kmul O r rc = k1 O ->
  kmul O r r = ki O ->
  gate_model O (GEig ECZPow r rc (k1 O)) = ionq_ctrl_matrix O 1 (ionq_gate_matrix O Ns []).
Proof. exact @ionq_ctrl_s_is_cz_half. Qed.
Print Assumptions C17_ionq_ctrl_s_is_cz_half.

Theorem C17_ionq_ctrl_si_is_cz_mhalf : forall K (O : Ops K), Laws O -> forall r rc, kmul O r rc = k1 O ->
  kmul O r r = kopp O (ki O) ->
  gate_model O (GEig ECZPow r rc (k1 O)) = ionq_ctrl_matrix O 1 (ionq_gate_matrix O Nsi []).
Proof. exact @ionq_ctrl_si_is_cz_mhalf. Qed.
Print Assumptions C17_ionq_ctrl_si_is_cz_mhalf.

Theorem C17_ionq_ctrl_t_is_cz_quarter : forall K (O : Ops K), Laws O -> forall r rc, kmul O r rc = k1 O ->
  kmul O r r = kmul O (ks2 O) (kadd O (k1 O) (ki O)) ->
  gate_model O (GEig ECZPow r rc (k1 O)) = ionq_ctrl_matrix O 1 (ionq_gate_matrix O Nt []).
Proof. exact @ionq_ctrl_t_is_cz_quarter. Qed.
Print Assumptions C17_ionq_ctrl_t_is_cz_quarter.

Theorem C17_ionq_ctrl_ti_is_cz_mquarter : forall K (O : Ops K), Laws O -> forall r rc, kmul O r rc = k1 O ->
  kmul O r r = kmul O (ks2 O) (ksub O (k1 O) (ki O)) ->
  gate_model O (GEig ECZPow r rc (k1 O)) = ionq_ctrl_matrix O 1 (ionq_gate_matrix O Nti []).
Proof. exact @ionq_ctrl_ti_is_cz_mquarter. Qed.
Print Assumptions C17_ionq_ctrl_ti_is_cz_mquarter.

(* controlled rz(pi e) = (Z**(-e/2) on the control) . CZ**e, for every exponent *)
Theorem C17_ionq_ctrl_rz_decomp : forall K (O : Ops K), Laws O -> forall r rc, kmul O r rc = k1 O ->
  ionq_ctrl_matrix O 1 (ionq_gate_matrix O Nrz [r; rc])
  = mmul O (mdiag O [k1 O; k1 O; rc; rc]) (gate_model O (GEig ECZPow r rc (k1 O))).
Proof. exact @ionq_ctrl_rz_decomp. Qed.
Print Assumptions C17_ionq_ctrl_rz_decomp.

(* ... so it is a scalar multiple of CZ**e (any global shift g, any factor f) only if exp(i pi e/2) = 1 *)
Theorem C17_ionq_ctrl_rz_is_czpow_only_if : forall K (O : Ops K), Laws O -> forall r rc g, kmul O r rc = k1 O -> forall f,
  ionq_ctrl_matrix O 1 (ionq_gate_matrix O Nrz [r; rc]) = mscale O f (gate_model O (GEig ECZPow r rc g)) ->
  r = k1 O.
Proof. exact @ionq_ctrl_rz_is_czpow_only_if. Qed.
Print Assumptions C17_ionq_ctrl_rz_is_czpow_only_if.

Example C17_ionq_ctrl_rz_is_czpow_trivial_case :
  ionq_ctrl_matrix K8Ops 1 (ionq_gate_matrix K8Ops Nrz [k1 K8Ops; k1 K8Ops])
  = mscale K8Ops (k1 K8Ops) (gate_model K8Ops (GEig ECZPow (k1 K8Ops) (k1 K8Ops) (k1 K8Ops))).
Proof. exact ionq_ctrl_rz_is_czpow_trivial_case. Qed.

(* "a controlled rz(pi e) encodes CZ**e up to phase" is refuted at e = 1/2 (r = zeta_8); the witness circuit
   CZ**0.5 is replayed on the implementation by the edge stream of the check, which must refuse it or send controlled s *)
Theorem C17_ionq_ctrl_rz_is_czpow_refuted : exists r rc : K8,
  kmul K8Ops r rc = k1 K8Ops /\ kmul K8Ops r r = ki K8Ops
  /\ forall f g, ionq_ctrl_matrix K8Ops 1 (ionq_gate_matrix K8Ops Nrz [r; rc]) <> mscale K8Ops f (gate_model K8Ops (GEig ECZPow r rc g)).
Proof. exact ionq_ctrl_rz_is_czpow_refuted. Qed.
Print Assumptions C17_ionq_ctrl_rz_is_czpow_refuted.

Example C17_ionq_op_ctrl_z_example :
  ionq_op_gop K8Ops false 2 (IGate "z"%string [] [0%nat] [1%nat])
  = Some (GMat [2%nat; 2%nat] (ionq_ctrl_matrix K8Ops 1 (ionq_gate_matrix K8Ops Nz [])), [0%nat; 1%nat])
  /\ ionq_op_gop K8Ops true 2 (IGate "gpi"%string [k1 K8Ops; k1 K8Ops] [0%nat] [1%nat]) = None
  /\ ionq_op_gop K8Ops false 2 (IGate "cnot"%string [] [0%nat] [1%nat])
     = Some (GMat [2%nat; 2%nat] (ionq_gate_matrix K8Ops Ncnot []), [0%nat; 1%nat])
  /\ ionq_op_gop K8Ops false 2 (IGate "cnot"%string [] [] [1%nat]) = None.
Proof. exact ionq_op_ctrl_z_example. Qed.

(* ---- results of a BATCH job (Vendor/IonQBatch.v): the answer holds one histogram per child circuit in submission order,
   each under an opaque child id; position k is read with entry k of the metadata ---- *)
From VF Require Import Codec.MetaChunks Vendor.IonQBatch Vendor.IonQBatchProofs.

Theorem C17_batch_qpu_length : forall metas answer,
  length (batch_qpu metas answer) = Nat.min (length metas) (length answer).
Proof. exact batch_qpu_length. Qed.
Print Assumptions C17_batch_qpu_length.

Theorem C17_batch_qpu_nth : forall metas answer k dm dh, (k < length metas)%nat -> (k < length answer)%nat ->
  nth k (batch_qpu metas answer) [] = child_qpu (nth k metas dm) (snd (nth k answer dh)).
Proof. exact batch_qpu_nth. Qed.
Print Assumptions C17_batch_qpu_nth.

Theorem C17_batch_sim_nth : forall metas answer picks k dm dh dp,
  (k < length metas)%nat -> (k < length answer)%nat -> (k < length picks)%nat ->
  nth k (batch_sim metas answer picks) [] = child_sim (nth k metas dm) (snd (nth k answer dh)) (nth k picks dp).
Proof. exact batch_sim_nth. Qed.
Print Assumptions C17_batch_sim_nth.

(* the child ids are opaque: the same histograms in the same order decode alike under any ids *)
Theorem C17_batch_qpu_ids_opaque : forall metas a a', map snd a = map snd a' -> batch_qpu metas a = batch_qpu metas a'.
Proof. exact batch_qpu_ids_opaque. Qed.
Print Assumptions C17_batch_qpu_ids_opaque.

Theorem C17_batch_sim_ids_opaque : forall metas a a' picks,
  map snd a = map snd a' -> batch_sim metas a picks = batch_sim metas a' picks.
Proof. exact batch_sim_ids_opaque. Qed.
Print Assumptions C17_batch_sim_ids_opaque.

(* reading the answer in the order of the ids is the vendor's reading when the ids ascend in submission order ... *)
Theorem C17_batch_by_id_ascending : forall metas answer,
  ascending (map fst answer) = true -> batch_qpu_by_id metas answer = batch_qpu metas answer.
Proof. exact batch_by_id_ascending. Qed.
Print Assumptions C17_batch_by_id_ascending.

Example C17_batch_by_id_ascending_example :
  ascending (map fst (witness_answer [97%Z] [98%Z])) = true
  /\ batch_qpu witness_metas (witness_answer [97%Z] [98%Z]) = [[Some [[1%Z; 0%Z]]]; [Some [[0%Z; 1%Z]]]].
Proof. exact batch_by_id_ascending_example. Qed.

(* ... and gives every circuit the outcomes of another one otherwise: two circuits on two qubits measuring both, the first
   flips qubit 0, the second qubit 1, children named "b" and "a" (replayed on the implementation by the batch-results stream) *)
Theorem C17_batch_by_id_refuted : exists metas answer,
  batch_qpu metas answer = [[Some [[1%Z; 0%Z]]]; [Some [[0%Z; 1%Z]]]]
  /\ batch_qpu_by_id metas answer = [[Some [[0%Z; 1%Z]]]; [Some [[1%Z; 0%Z]]]].
Proof. exact batch_by_id_refuted. Qed.
Print Assumptions C17_batch_by_id_refuted.
