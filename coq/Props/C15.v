(* C15 — deciding obligations (statements only). *)
From Coq Require Import ZArith List Bool.
From VF Require Import Base.RingOps Base.Mat Base.Tensor Base.Harness Base.K8 Gates.Families Sim.Ref
  Xform.KakCanon Xform.KakCanonProofs Xform.KakCount Xform.KakCountProofs Xform.KakStruct Xform.KakStructProofs
  Xform.KakTab Xform.KakTabProofs Xform.CtrlSynth Xform.CtrlSynthProofs.
From Coq Require Import NArith.
Import ListNotations.

(* kak_canonicalize_vector reaches the canonical Weyl chamber for EVERY input (any rational multiple of pi/4:
   D is the denominator, any atol A > 0 in the same units): |z| <= y <= x < pi/4 + atol, and z >= 0 whenever
   x > pi/4 - atol *)
Theorem C15_kak_canon_in_chamber : forall D A v, (0 < D)%Z -> (0 < A)%Z -> in_chamber D (A - 1) A (kak_canon_v D A v).
Proof. exact kak_canon_in_chamber. Qed.
Print Assumptions C15_kak_canon_in_chamber.
Example C15_chamber_example : in_chamber 1000%Z 0%Z 1%Z (kak_canon_v 1000%Z 1%Z (3700, -1000, 2250)%Z).
Proof. exact chamber_example. Qed.

(* the documented form exactly (x <= pi/4; x = pi/4 -> z >= 0) when atol is below the resolution of the inputs *)
Theorem C15_kak_canon_in_chamber_exact : forall D v, (0 < D)%Z ->
  let '(x, y, z) := kak_canon_v D 1 v in
  (0 <= Z.abs z /\ Z.abs z <= y /\ y <= x /\ x <= D /\ (x = D -> 0 <= z))%Z.
Proof. exact kak_canon_in_chamber_exact. Qed.
Print Assumptions C15_kak_canon_in_chamber_exact.

(* refuted as documented ("x2 <= pi/4" for every atol): the sign fix can leave x in (pi/4, pi/4 + atol) *)
Theorem C15_kak_canon_x_le_quarter_pi_refuted : exists D A v, (0 < D /\ 0 < A /\ D < vget (kak_canon_v D A v) 0)%Z.
Proof. exact kak_canon_x_le_quarter_pi_refuted. Qed.
Print Assumptions C15_kak_canon_x_le_quarter_pi_refuted.

(* the final sign fix is necessary for the documented form *)
Theorem C15_sign_fix_is_needed : exists D A v, (0 < D)%Z /\ (0 < A)%Z /\ ~ in_chamber D (A - 1) A (kak_canon_nofix D v).
Proof. exact sign_fix_is_needed. Qed.
Print Assumptions C15_sign_fix_is_needed.

(* the emitted trace is a faithful record of what happened to the vector, and only contains steps the
   single-qubit bookkeeping understands *)
Theorem C15_kak_canon_trace_replays : forall D A v, run_v D (kak_canon_steps D A v) v = kak_canon_v D A v.
Proof. exact kak_canon_trace_replays. Qed.
Print Assumptions C15_kak_canon_trace_replays.
Theorem C15_kak_canon_steps_wf : forall D A v, forallb well_formed_step (kak_canon_steps D A v) = true.
Proof. exact kak_canon_steps_wf. Qed.
Print Assumptions C15_kak_canon_steps_wf.
Theorem C15_in_chamber_b_sound : forall D s A v, in_chamber_b D s A v = true -> in_chamber D s A v.
Proof. exact in_chamber_b_sound. Qed.
Print Assumptions C15_in_chamber_b_sound.

(* each primitive step of the canonicaliser keeps the implied two-qubit matrix
   g * kron(after) * exp(i(x XX + y YY + z ZZ)) * kron(before), for all cos/sin values (generic ring); numpy's
   elementwise ** on the flippers is modelled as such *)
Theorem C15_kak_canon_step_local : forall K (O : Ops K), Laws O -> forall s b t,
  well_formed_step s = true -> lit_book b -> implied O (step_book O s b) (step_trig O s t) = implied O b t.
Proof. exact @step_local. Qed.
Print Assumptions C15_kak_canon_step_local.
(* hence for EVERY input the recorded decomposition has the same matrix as the input interaction, for any assignment
   of (cos, sin) pairs that respects shift-by-pi/2 and negation *)
Theorem C15_kak_canon_steps_local : forall K (O : Ops K), Laws O -> forall D A f v, trig_respects O D f ->
  implied O (run_book O (kak_canon_steps D A v) (book0 O)) (tv f (kak_canon_v D A v)) = interaction O (tv f v).
Proof. exact kak_canon_steps_local. Qed.
Print Assumptions C15_kak_canon_steps_local.
Example C15_trig_respects_example : trig_respects K8Ops 1 f8.
Proof. exact trig_respects_example. Qed.

(* validators: a passing comparison of the recomposed operations / factors is an equality of matrices *)
Theorem C15_reconstructs_sound : forall K (O : Ops K) (eqb : K -> K -> bool), (forall a b, eqb a b = true -> a = b) ->
  forall sh ops U, reconstructs_b O eqb sh ops U = true -> reconstructs O sh ops U.
Proof. exact @reconstructs_sound. Qed.
Print Assumptions C15_reconstructs_sound.
Theorem C15_reconstructs_phase_sound : forall K (O : Ops K) (eqb : K -> K -> bool), (forall a b, eqb a b = true -> a = b) ->
  forall g sh ops U, reconstructs_phase_b O eqb g sh ops U = true -> reconstructs_phase O sh ops U.
Proof. exact @reconstructs_phase_sound. Qed.
Print Assumptions C15_reconstructs_phase_sound.
Theorem C15_factors_sound : forall K (O : Ops K) (eqb : K -> K -> bool), (forall a b, eqb a b = true -> a = b) ->
  forall n fs U, factors_b O eqb n fs U = true -> mprod O n fs = U.
Proof. exact @factors_sound. Qed.
Print Assumptions C15_factors_sound.
Theorem C15_k8_eqb_sound : forall a b, k8_eqb a b = true -> a = b.
Proof. exact k8_eqb_sound. Qed.
Print Assumptions C15_k8_eqb_sound.
Example C15_reconstructs_example : reconstructs K8Ops [2; 2]%nat ex_ops (gate_model K8Ops ex_CZ).
Proof. exact reconstructs_example. Qed.
Example C15_reconstructs_example_rejects :
  reconstructs_b K8Ops k8_eqb [2; 2]%nat [(ex_H, [1]); (ex_CNOT, [1; 0]); (ex_H, [1])]%nat (gate_model K8Ops ex_CZ) = false.
Proof. exact reconstructs_example_rejects. Qed.

Theorem C15_count_2q_sound : forall ops bound, within_count ops bound = true ->
  count_2q ops <= bound /\ Forall (fun o => 2 <= od_arity o -> od_native o = true) ops.
Proof. exact count_2q_sound. Qed.
Print Assumptions C15_count_2q_sound.
Theorem C15_count_2q_spec : forall ops, count_2q ops + length (filter (fun o => Nat.ltb (od_arity o) 2) ops) = length ops.
Proof. exact count_2q_spec. Qed.
Print Assumptions C15_count_2q_spec.
Example C15_count_example :
  within_count [mkOp 1 false; mkOp 2 true; mkOp 1 false; mkOp 2 true; mkOp 1 false] 3 = true /\
  within_count [mkOp 2 true; mkOp 2 true; mkOp 2 true; mkOp 2 true] 3 = false /\
  within_count [mkOp 2 false] 3 = false.
Proof. exact count_example. Qed.

(* ---- minimal CNOT/CZ count (cirq.num_cnots_required) ---- *)
(* the classes of the model on a canonical point, as Shende-Bullock-Markov Prop. III.1-III.3 read in Weyl coordinates *)
Theorem C15_cz_class_spec : forall D x y z, (0 < D)%Z ->
  (cz_class D (x, y, z) = 0%nat <-> (x = 0 /\ y = 0 /\ z = 0)%Z) /\
  (cz_class D (x, y, z) = 1%nat <-> (x = D /\ y = 0 /\ z = 0)%Z) /\
  (cz_class D (x, y, z) = 2%nat <-> (z = 0 /\ ~ (x = 0 /\ y = 0) /\ ~ (x = D /\ y = 0))%Z) /\
  (cz_class D (x, y, z) = 3%nat <-> z <> 0%Z).
Proof. exact cz_class_spec. Qed.
Print Assumptions C15_cz_class_spec.
(* the tolerance-aware validator the check applies to num_cnots_required: without tolerance it accepts exactly the class *)
Theorem C15_cz_count_ok_exact : forall D v n, cz_count_ok D 0 0 0 v n = true <-> n = cz_class D v.
Proof. exact cz_count_ok_exact. Qed.
Print Assumptions C15_cz_count_ok_exact.
(* any interaction built from two of the three Pauli pairs canonicalises onto the face z = 0: at most two CNOT/CZ *)
Theorem C15_min_cz_count_zero_coord : forall D A a b c, (0 < D)%Z -> (0 < A)%Z -> (a = 0 \/ b = 0 \/ c = 0)%Z ->
  min_cz_count D A (a, b, c) <= 2.
Proof. exact min_cz_count_zero_coord. Qed.
Print Assumptions C15_min_cz_count_zero_coord.
Example C15_min_cz_count_examples :
  min_cz_count 8 1 (0, 0, 0)%Z = 0 /\ min_cz_count 8 1 (16, -32, 0)%Z = 0 /\
  min_cz_count 8 1 (8, 0, 0)%Z = 1 /\ min_cz_count 8 1 (0, -8, 16)%Z = 1 /\
  min_cz_count 8 1 (8, 8, 0)%Z = 2 /\ min_cz_count 8 1 (8, 3, 0)%Z = 2 /\
  min_cz_count 8 1 (4, 4, 0)%Z = 2 /\ min_cz_count 8 1 (3, 0, 0)%Z = 2 /\
  min_cz_count 8 1 (8, 8, 8)%Z = 3 /\ min_cz_count 8 1 (8, 3, 1)%Z = 3 /\ min_cz_count 8 1 (5, 3, -1)%Z = 3.
Proof. exact min_cz_count_examples. Qed.
(* and two CNOTs do suffice there, for all (cos, sin) values: CNOT (exp(i x X) (x) exp(i z Z)) CNOT = exp(i(x XX + z ZZ)) *)
Theorem C15_two_cnot_witness : forall K (O : Ops K), Laws O -> forall px pz : K * K,
  two_cnot_circuit O px pz = interaction O (px, (k1 O, k0 O), pz).
Proof. exact @two_cnot_witness. Qed.
Print Assumptions C15_two_cnot_witness.
(* what num_cnots_required looks at: trace(gamma(u)), gamma(u) = u YY u^T YY.  On exp(i(x XX + y YY + z ZZ)) it is
   4 (cos 2x cos 2y cos 2z + i sin 2x sin 2y sin 2z), and single-qubit gates only contribute their determinants *)
Theorem C15_gamma_trace_interaction : forall K (O : Ops K), Laws O -> forall px py pz : K * K,
  trace4 O (gamma_m O (interaction O (px, py, pz)))
  = kmul O (four O) (kadd O (kmul O (kmul O (cos2 O px) (cos2 O py)) (cos2 O pz))
                            (kmul O (ki O) (kmul O (kmul O (sin2 O px) (sin2 O py)) (sin2 O pz)))).
Proof. exact @gamma_trace_interaction. Qed.
Print Assumptions C15_gamma_trace_interaction.
Theorem C15_gamma_right_local : forall K (O : Ops K), Laws O -> forall u b1 b0 : matrix (K:=K), is44 u -> is22 b1 -> is22 b0 ->
  gamma_m O (mmul O u (kron O b1 b0)) = mscale O (kmul O (det2 O b1) (det2 O b0)) (gamma_m O u).
Proof. exact @gamma_right_local. Qed.
Print Assumptions C15_gamma_right_local.
Theorem C15_gamma_left_local_trace : forall K (O : Ops K), Laws O -> forall u a1 a0 : matrix (K:=K), is44 u -> is22 a1 -> is22 a0 ->
  trace4 O (gamma_m O (mmul O (kron O a1 a0) u)) = kmul O (kmul O (det2 O a1) (det2 O a0)) (trace4 O (gamma_m O u)).
Proof. exact @gamma_left_local_trace. Qed.
Print Assumptions C15_gamma_left_local_trace.

(* ---- structured inputs (Xform/KakStruct.v) ---- *)
(* two_qubit_matrix_to_cz_isometry: with the first qubit in |0>, D = diag(a, b, c, d) applied before any circuit acts on the columns
   |00>, |01> as I (x) diag(a, b); the other half diag(a, c) agrees only when b = c (generic inputs), and differs on mat = I (x) Z *)
Theorem C15_iso_restrict_sound : forall K (O : Ops K), Laws O -> forall (m : matrix (K:=K)) a b c d, is44 m ->
  first_cols2 (mmul O m (diag4 O a b c d)) = first_cols2 (mmul O m (iso_restrict O a b c d)).
Proof. exact @iso_restrict_sound. Qed.
Print Assumptions C15_iso_restrict_sound.
Theorem C15_iso_other_half_symmetric : forall K (O : Ops K), Laws O -> forall (m : matrix (K:=K)) a b d, is44 m ->
  first_cols2 (mmul O m (diag4 O a b b d)) = first_cols2 (mmul O m (iso_restrict_other_half O a b b d)).
Proof. exact @iso_other_half_symmetric. Qed.
Print Assumptions C15_iso_other_half_symmetric.
Example C15_iso_hypothesis_satisfiable : is44 (mid K8Ops 4).
Proof. repeat eexists; reflexivity. Qed.
Example C15_iso_other_half_refuted :
  let m1 := kopp K8Ops (k1 K8Ops) in
  meqb k8_eqb (first_cols2 (mmul K8Ops (mid K8Ops 4) (diag4 K8Ops (k1 K8Ops) m1 (k1 K8Ops) m1)))
              (first_cols2 (mmul K8Ops (mid K8Ops 4) (iso_restrict_other_half K8Ops (k1 K8Ops) m1 (k1 K8Ops) m1))) = false
  /\ meqb k8_eqb (first_cols2 (mmul K8Ops (mid K8Ops 4) (diag4 K8Ops (k1 K8Ops) m1 (k1 K8Ops) m1)))
                 (first_cols2 (mmul K8Ops (mid K8Ops 4) (iso_restrict K8Ops (k1 K8Ops) m1 (k1 K8Ops) m1))) = true.
Proof. exact iso_other_half_refuted. Qed.
(* the known-gate dispatch at exponent -1: SWAP**-1 is SWAP; ISWAP**-1 is the inverse of ISWAP and no phase multiple of it *)
Theorem C15_swap_pow_m1_is_swap : forall K (O : Ops K), Laws O -> swap_pow_m1 O = swap_pow_1 O.
Proof. exact @swap_pow_m1_is_swap. Qed.
Print Assumptions C15_swap_pow_m1_is_swap.
Theorem C15_iswap_pow_m1_inverse : forall K (O : Ops K), Laws O -> mmul O (iswap_pow_1 O) (iswap_pow_m1 O) = mid O 4.
Proof. exact @iswap_pow_m1_inverse. Qed.
Print Assumptions C15_iswap_pow_m1_inverse.
Theorem C15_iswap_pow_1_square : forall K (O : Ops K), Laws O ->
  mmul O (iswap_pow_1 O) (iswap_pow_1 O) = diag4 O (k1 O) (kopp O (k1 O)) (kopp O (k1 O)) (k1 O).
Proof. exact @iswap_pow_1_square. Qed.
Print Assumptions C15_iswap_pow_1_square.
Theorem C15_iswap_pow_m1_not_iswap_up_to_phase : forall g : K8, mscale K8Ops g (iswap_pow_1 K8Ops) <> iswap_pow_m1 K8Ops.
Proof. exact iswap_pow_m1_not_iswap_up_to_phase. Qed.
Print Assumptions C15_iswap_pow_m1_not_iswap_up_to_phase.

(* ---- the tabulation decomposition (Xform/KakTab.v): TwoQubitGateTabulation.compile_two_qubit_gate ---- *)
(* the returned list (kR, k_1, ..., k_n, kL), multiplied out in the documented order k_N . A . k_{N-1} ... A . k_0, is
   kL . (A . k_n ... A . k_1 . A) . kR: the reduce the outer locals are solved against, dressed with them — for any number of layers *)
Theorem C15_tab_product_outer : forall K (O : Ops K), Laws O -> forall (A kR kL : matrix (K:=K)) (inner : list (matrix (K:=K))),
  is44 A -> is44 kR -> is44 kL -> Forall is44 inner ->
  tab_product O A (tab_result kR kL inner) = mmul O kL (mmul O (inner_product O A inner) kR).
Proof. exact @tab_product_outer. Qed.
Print Assumptions C15_tab_product_outer.
(* three base gates, two inner layers: k_1 (listed first) acts first *)
Theorem C15_tab_product_three_bases : forall K (O : Ops K), Laws O -> forall A kR k1 k2 kL : matrix (K:=K),
  is44 A -> is44 kR -> is44 k1 -> is44 k2 -> is44 kL ->
  tab_product O A [kR; k1; k2; kL] = mmul O kL (mmul O (mmul O A (mmul O k2 (mmul O A (mmul O k1 A)))) kR).
Proof. exact @tab_product_three_bases. Qed.
Print Assumptions C15_tab_product_three_bases.
(* equal inner layers (the "same single qubit" entries) may be listed in either time order ... *)
Theorem C15_inner_product_rev_repeat : forall K (O : Ops K) (A k : matrix (K:=K)) n,
  inner_product O A (rev (repeat k n)) = inner_product O A (repeat k n).
Proof. exact @inner_product_rev_repeat. Qed.
Print Assumptions C15_inner_product_rev_repeat.
(* ... different ones may not: base gate CNOT, layers H (x) I and I (x) S *)
Example C15_inner_order_matters :
  let A := cnot_m K8Ops in
  let ka := kron K8Ops h8 (mid K8Ops 2) in
  let kb := kron K8Ops (mid K8Ops 2) s8 in
  meqb k8_eqb (inner_product K8Ops A [ka; kb]) (inner_product K8Ops A [kb; ka]) = false
  /\ meqb k8_eqb (inner_product K8Ops A [ka; kb]) (mmul K8Ops A (mmul K8Ops kb (mmul K8Ops A (mmul K8Ops ka A)))) = true.
Proof. exact inner_order_matters. Qed.
(* the closeness measure: tr(U^dagger (g V)) = g tr(U^dagger V), so |overlap|^2/16 ignores a global phase (|g| = 1), and a unitary
   overlaps with itself in 4 (fidelity 1) *)
Theorem C15_overlap_phase : forall K (O : Ops K), Laws O -> forall g (U V : matrix (K:=K)), is44 U -> is44 V ->
  overlap O U (mscale O g V) = kmul O g (overlap O U V).
Proof. exact @overlap_phase. Qed.
Print Assumptions C15_overlap_phase.
Theorem C15_overlap_self : forall K (O : Ops K), Laws O -> forall U : matrix (K:=K),
  mmul O (mdagger O U) U = id4 O -> overlap O U U = four O.
Proof. exact @overlap_self. Qed.
Print Assumptions C15_overlap_self.
Example C15_overlap_self_hypothesis_satisfiable : mmul K8Ops (mdagger K8Ops (cnot_m K8Ops)) (cnot_m K8Ops) = id4 K8Ops.
Proof. vm_compute. reflexivity. Qed.

(* ---- multi-controlled synthesis on many qubits (Xform/CtrlSynth.v): the sparse state-vector semantics the returned operation lists are run in ---- *)
(* a one-qubit gate [[a, b], [c, d]] on bit bt acts on the meaning (amplitude of |i>) of a sparse vector by the textbook rule of Base/Tensor.apply *)
Theorem C15_sget_app1 : forall K (O : Ops K), Laws O -> forall (u : matrix (K:=K)) bt (v : sv (K:=K)) i,
  sget O (app1 O u bt v) i =
  if N.testbit i bt then kadd O (kmul O (mget O u 1 0) (sget O v (N.clearbit i bt))) (kmul O (mget O u 1 1) (sget O v i))
  else kadd O (kmul O (mget O u 0 0) (sget O v i)) (kmul O (mget O u 0 1) (sget O v (N.setbit i bt))).
Proof. exact @sget_app1. Qed.
Print Assumptions C15_sget_app1.
(* CNOT / CCNOT: the amplitude of |i> afterwards is that of the basis state the gate maps to |i> *)
Theorem C15_sget_appcx : forall K (O : Ops K) c t (v : sv (K:=K)) i, c <> t ->
  sget O (appcx c t v) i = sget O v (if N.testbit i c then flipb i t else i).
Proof. exact @sget_appcx. Qed.
Print Assumptions C15_sget_appcx.
Theorem C15_sget_appccx : forall K (O : Ops K) c0 c1 t (v : sv (K:=K)) i, c0 <> t -> c1 <> t ->
  sget O (appccx c0 c1 t v) i = sget O v (if N.testbit i c0 && N.testbit i c1 then flipb i t else i).
Proof. exact @sget_appccx. Qed.
Print Assumptions C15_sget_appccx.
Example C15_sget_appcx_hypothesis_satisfiable : (1 <> 0)%N /\ (2 <> 0)%N.
Proof. split; discriminate. Qed.
(* sorting / merging equal indices keeps the meaning; what pruning drops is exactly the complement of what it keeps *)
Theorem C15_sget_merge : forall K (O : Ops K), Laws O -> forall (v : sv (K:=K)) i, sget O (merge O v) i = sget O v i.
Proof. exact @sget_merge. Qed.
Print Assumptions C15_sget_merge.
Theorem C15_sget_prune_split : forall K (O : Ops K), Laws O -> forall keep (v : sv (K:=K)) i,
  sget O v i = kadd O (sget O (prune keep v) i) (sget O (prune (fun x => negb (keep x)) v) i).
Proof. exact @sget_prune_split. Qed.
Print Assumptions C15_sget_prune_split.
(* the reference column of "u on the target iff every control is 1": the basis state itself off the all-ones pattern, the gate on the target bit on it *)
Theorem C15_mcu_col_off : forall K (O : Ops K) cbits tb (u : matrix (K:=K)) k,
  forallb (N.testbit k) cbits = false -> mcu_col O cbits tb u k = sbasis O k.
Proof. exact @mcu_col_off. Qed.
Print Assumptions C15_mcu_col_off.
Theorem C15_mcu_col_on : forall K (O : Ops K), Laws O -> forall cbits tb (u : matrix (K:=K)) k i,
  forallb (N.testbit k) cbits = true ->
  sget O (mcu_col O cbits tb u k) i =
  if N.testbit i tb then kadd O (kmul O (mget O u 1 0) (sget O (sbasis O k) (N.clearbit i tb))) (kmul O (mget O u 1 1) (sget O (sbasis O k) i))
  else kadd O (kmul O (mget O u 0 0) (sget O (sbasis O k) i)) (kmul O (mget O u 0 1) (sget O (sbasis O k) (N.setbit i tb))).
Proof. exact @mcu_col_on. Qed.
Print Assumptions C15_mcu_col_on.
Example C15_mcu_col_hypotheses_satisfiable : forallb (N.testbit 6) [2; 1]%N = true /\ forallb (N.testbit 5) [2; 1]%N = false.
Proof. split; reflexivity. Qed.
(* the validator is sound in exact arithmetic: if only zero counts as small, every column k < 2^n of the circuit has the amplitudes of the controlled gate *)
Theorem C15_ctrl_synth_ok_sound : forall K (O : Ops K), Laws O -> forall keep small n cbits tb (u : matrix (K:=K)) ops,
  (forall x, small x = true -> x = k0 O) -> ctrl_synth_ok O keep small n cbits tb u ops = true ->
  forall k, In k (indices n) -> forall i, sget O (srun O keep ops (sbasis O k)) i = sget O (mcu_col O cbits tb u k) i.
Proof. exact @ctrl_synth_ok_sound. Qed.
Print Assumptions C15_ctrl_synth_ok_sound.
Example C15_ctrl_synth_ok_sound_hypotheses_satisfiable :
  (forall x, k8_eqb x (k0 K8Ops) = true -> x = k0 K8Ops) /\ ladder_ok ladder_down 4 = true.
Proof. split; [intros x H; apply k8_eqb_sound; exact H | vm_compute; reflexivity]. Qed.
(* Barenco et al. Lemma 7.2 (exact Toffolis, exact arithmetic, all 2^(2m-1) basis states): the ladder of borrowed qubits traversed from the target downwards
   and back, twice, is C^m X (x) I for m = 3..6; traversed the other way it is the same gate only while there are fewer than two rungs (m = 3, 4) *)
Theorem C15_ladder72_descending_ok : forallb (ladder_ok ladder_down) [3; 4; 5; 6] = true.
Proof. exact ladder72_descending_ok. Qed.
Print Assumptions C15_ladder72_descending_ok.
Theorem C15_ladder72_ascending : map (ladder_ok ladder_up) [3; 4; 5; 6] = [true; true; false; false].
Proof. exact ladder72_ascending. Qed.
Print Assumptions C15_ladder72_ascending.
