(* C19 — obligations: what each `_qasm_` rule emits, read with the standard library of the OpenQASM version,
   is the gate's documented matrix up to an explicit unit factor, for every exponent of the rule's guard. *)
From Coq Require Import List ZArith.
From VF Require Import Base.RingOps Base.Mat Gates.GateSpecs Vendor.Qasm Vendor.QasmProofs.
Import ListNotations.

Theorem C19_rule_rx : forall K (O : Ops K), Laws O -> forall r rc g, kmul O r rc = k1 O ->
  spec_XPow O r rc g = mscale O (kmul O g r) (q_rx O r rc).
Proof. exact @qasm_rule_rx. Qed.
Print Assumptions C19_rule_rx.

Theorem C19_rule_ry : forall K (O : Ops K), Laws O -> forall r rc g, kmul O r rc = k1 O ->
  spec_YPow O r rc g = mscale O (kmul O g r) (q_ry O r rc).
Proof. exact @qasm_rule_ry. Qed.
Print Assumptions C19_rule_ry.

Theorem C19_rule_rz : forall K (O : Ops K), Laws O -> forall r rc g, kmul O r rc = k1 O ->
  spec_ZPow O r rc g = mscale O g (q_rz O r rc).
Proof. exact @qasm_rule_rz. Qed.
Print Assumptions C19_rule_rz.

Theorem C19_rule_x : forall K (O : Ops K), Laws O -> spec_XPow O (ki O) (kopp O (ki O)) (k1 O) = q_x O.
Proof. exact @qasm_rule_x. Qed.
Print Assumptions C19_rule_x.

Theorem C19_rule_sx : forall K (O : Ops K), Laws O -> spec_XPow O (w8 O) (w8c O) (k1 O) = mscale O (w8 O) (q_sx O).
Proof. exact @qasm_rule_sx. Qed.
Print Assumptions C19_rule_sx.

Theorem C19_rule_sxdg : forall K (O : Ops K), Laws O -> spec_XPow O (w8c O) (w8 O) (k1 O) = mscale O (w8c O) (q_sxdg O).
Proof. exact @qasm_rule_sxdg. Qed.
Print Assumptions C19_rule_sxdg.
