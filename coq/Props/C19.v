(* C19 — obligations (statements only; proofs in Vendor/Qasm*Proofs.v).  Deciding: what each `_qasm_` rule emits, read with
   the standard library of the OpenQASM version, is the documented matrix of the gate up to an explicit unit factor, for
   every exponent of the rule's guard; the regenerated mnemonic table is the emission model; the register layout.
   Units: r = exp(i pi e/2), g = exp(i pi e s), w8 = exp(i pi/4); symbolic units carry their defining equations. *)
From Coq Require Import List ZArith QArith Qcanon.
From VF Require Import Base.RingOps Base.Mat Base.Tensor Base.K8 Base.Harness Gates.GateSpecs Gates.Families Sim.Ref Sim.Measure
  Vendor.Qasm Vendor.QasmRegs Vendor.QasmEmit Generated.QasmMnemonics Vendor.QasmProofs Vendor.QasmLibProofs Vendor.QasmRegsProofs Vendor.QasmSemProofs Vendor.QasmEmitProofs Vendor.QasmK16 Vendor.QasmK16Proofs Vendor.QasmKak Vendor.QasmKakProofs.

(* ---- rules of the one-qubit EigenGate families ---- *)
Theorem C19_qasm_rule_x : forall (K : Type) (O : Ops K), Laws O -> spec_XPow O (ki O) (kopp O (ki O)) (k1 O) = q_x O.
Proof. exact @qasm_rule_x. Qed.
Print Assumptions C19_qasm_rule_x.

Theorem C19_qasm_rule_sx : forall (K : Type) (O : Ops K), Laws O -> spec_XPow O (w8 O) (w8c O) (k1 O) = mscale O (w8 O) (q_sx O).
Proof. exact @qasm_rule_sx. Qed.
Print Assumptions C19_qasm_rule_sx.

Theorem C19_qasm_rule_sxdg : forall (K : Type) (O : Ops K), Laws O -> spec_XPow O (w8c O) (w8 O) (k1 O) = mscale O (w8c O) (q_sxdg O).
Proof. exact @qasm_rule_sxdg. Qed.
Print Assumptions C19_qasm_rule_sxdg.

Theorem C19_qasm_rule_rx : forall (K : Type) (O : Ops K), Laws O -> forall r rc g : K, kmul O r rc = k1 O -> spec_XPow O r rc g = mscale O (kmul O g r) (q_rx O r rc).
Proof. exact @qasm_rule_rx. Qed.
Print Assumptions C19_qasm_rule_rx.

Theorem C19_qasm_rule_y : forall (K : Type) (O : Ops K), Laws O -> forall g : K, spec_YPow O (ki O) (kopp O (ki O)) g = mscale O g (q_y O).
Proof. exact @qasm_rule_y. Qed.
Print Assumptions C19_qasm_rule_y.

Theorem C19_qasm_rule_ry : forall (K : Type) (O : Ops K), Laws O -> forall r rc g : K, kmul O r rc = k1 O -> spec_YPow O r rc g = mscale O (kmul O g r) (q_ry O r rc).
Proof. exact @qasm_rule_ry. Qed.
Print Assumptions C19_qasm_rule_ry.

Theorem C19_qasm_rule_z : forall (K : Type) (O : Ops K), Laws O -> spec_ZPow O (ki O) (kopp O (ki O)) (k1 O) = q_z O.
Proof. exact @qasm_rule_z. Qed.
Print Assumptions C19_qasm_rule_z.

Theorem C19_qasm_rule_s : forall (K : Type) (O : Ops K), Laws O -> spec_ZPow O (w8 O) (w8c O) (k1 O) = q_s O.
Proof. exact @qasm_rule_s. Qed.
Print Assumptions C19_qasm_rule_s.

Theorem C19_qasm_rule_sdg : forall (K : Type) (O : Ops K), Laws O -> spec_ZPow O (w8c O) (w8 O) (k1 O) = q_sdg O.
Proof. exact @qasm_rule_sdg. Qed.
Print Assumptions C19_qasm_rule_sdg.

Theorem C19_qasm_rule_t : forall (K : Type) (O : Ops K), Laws O -> forall r rc : K, kmul O r rc = k1 O -> kmul O r r = w8 O -> spec_ZPow O r rc (k1 O) = q_t O.
Proof. exact @qasm_rule_t. Qed.
Print Assumptions C19_qasm_rule_t.

Theorem C19_qasm_rule_tdg : forall (K : Type) (O : Ops K), Laws O -> forall r rc : K, kmul O r rc = k1 O -> kmul O r r = w8c O -> spec_ZPow O r rc (k1 O) = q_tdg O.
Proof. exact @qasm_rule_tdg. Qed.
Print Assumptions C19_qasm_rule_tdg.

Theorem C19_qasm_rule_rz : forall (K : Type) (O : Ops K), Laws O -> forall r rc g : K, kmul O r rc = k1 O -> spec_ZPow O r rc g = mscale O g (q_rz O r rc).
Proof. exact @qasm_rule_rz. Qed.
Print Assumptions C19_qasm_rule_rz.

Theorem C19_qasm_rule_h : forall (K : Type) (O : Ops K), Laws O -> spec_HPow O (ki O) (kopp O (ki O)) (k1 O) = q_h O.
Proof. exact @qasm_rule_h. Qed.
Print Assumptions C19_qasm_rule_h.

Theorem C19_qasm_rule_h0 : forall (K : Type) (O : Ops K), Laws O -> spec_HPow O (k1 O) (k1 O) (k1 O) = q_id O.
Proof. exact @qasm_rule_h0. Qed.
Print Assumptions C19_qasm_rule_h0.

Theorem C19_qasm_rule_hpow : forall (K : Type) (O0 : Ops K), Laws O0 -> forall r rc g : K, kmul O0 r rc = k1 O0 -> forall q qc : K, kmul O0 q qc = k1 O0 -> kmul O0 q q = w8 O0 -> spec_HPow O0 r rc g = mscale O0 (kmul O0 g r) (mprod O0 2 (q_ry O0 q qc :: q_rx O0 r rc :: q_ry O0 qc q :: nil)).
Proof. exact @qasm_rule_hpow. Qed.
Print Assumptions C19_qasm_rule_hpow.

Theorem C19_qasm_rule_identity : forall (K : Type) (O0 : Ops K), Laws O0 -> mid O0 2 = q_id O0.
Proof. exact @qasm_rule_identity. Qed.
Print Assumptions C19_qasm_rule_identity.

(* ---- two- and three-qubit rules ---- *)
Theorem C19_qasm_rule_cz : forall (K : Type) (O : Ops K), Laws O -> forall r rc g : K, kmul O r rc = k1 O -> kmul O r r = kopp O (k1 O) -> spec_CZPow O r rc g = mscale O g (q_cz O).
Proof. exact @qasm_rule_cz. Qed.
Print Assumptions C19_qasm_rule_cz.

Theorem C19_qasm_rule_cx : forall (K : Type) (O : Ops K), Laws O -> forall r rc g : K, kmul O r rc = k1 O -> kmul O r r = kopp O (k1 O) -> spec_CXPow O r rc g = mscale O g (q_CX O).
Proof. exact @qasm_rule_cx. Qed.
Print Assumptions C19_qasm_rule_cx.

Theorem C19_qasm_rule_cy : forall (K : Type) (O : Ops K), Laws O -> forall r rc g : K, kmul O r rc = k1 O -> kmul O r r = kopp O (k1 O) -> spec_CYPow O r rc g = mscale O g (q_cy O).
Proof. exact @qasm_rule_cy. Qed.
Print Assumptions C19_qasm_rule_cy.

Theorem C19_qasm_rule_swap : forall (K : Type) (O : Ops K), Laws O -> forall g : K, spec_SwapPow O (ki O) (kopp O (ki O)) g = mscale O g (q_swap O).
Proof. exact @qasm_rule_swap. Qed.
Print Assumptions C19_qasm_rule_swap.

Theorem C19_qasm_rule_ccx : forall (K : Type) (O : Ops K), Laws O -> forall g : K, spec_CCXPow O (ki O) (kopp O (ki O)) g = mscale O g (q_ccx O).
Proof. exact @qasm_rule_ccx. Qed.
Print Assumptions C19_qasm_rule_ccx.

Theorem C19_qasm_rule_ccz : forall (K : Type) (O0 : Ops K), Laws O0 -> forall g : K, spec_CCZPow O0 (ki O0) (kopp O0 (ki O0)) g = mscale O0 g (body_unitary O0 3 ((q_h O0, 2%nat :: nil) :: (q_ccx O0, 0%nat :: 1%nat :: 2%nat :: nil) :: (q_h O0, 2%nat :: nil) :: nil)).
Proof. exact @qasm_rule_ccz. Qed.
Print Assumptions C19_qasm_rule_ccz.

Theorem C19_qasm_rule_ccy : forall (K : Type) (O0 : Ops K), Laws O0 -> forall g : K, spec_CCYPow O0 (ki O0) (kopp O0 (ki O0)) g = mscale O0 g (body_unitary O0 3 ((q_sdg O0, 2%nat :: nil) :: (q_ccx O0, 0%nat :: 1%nat :: 2%nat :: nil) :: (q_s O0, 2%nat :: nil) :: nil)).
Proof. exact @qasm_rule_ccy. Qed.
Print Assumptions C19_qasm_rule_ccy.

Theorem C19_qasm_rule_cswap : forall (K : Type) (O : Ops K), spec_CSwap O = q_cswap O.
Proof. exact @qasm_rule_cswap. Qed.
Print Assumptions C19_qasm_rule_cswap.

Theorem C19_qasm_rule_ctrl_x : forall (K : Type) (O0 : Ops K), Laws O0 -> ctrl_matrix O0 (2%nat :: nil) ((1%nat :: nil) :: nil) (spec_XPow O0 (ki O0) (kopp O0 (ki O0)) (k1 O0)) = q_CX O0.
Proof. exact @qasm_rule_ctrl_x. Qed.
Print Assumptions C19_qasm_rule_ctrl_x.

Theorem C19_qasm_rule_ctrl_y : forall (K : Type) (O0 : Ops K), Laws O0 -> ctrl_matrix O0 (2%nat :: nil) ((1%nat :: nil) :: nil) (spec_YPow O0 (ki O0) (kopp O0 (ki O0)) (k1 O0)) = q_cy O0.
Proof. exact @qasm_rule_ctrl_y. Qed.
Print Assumptions C19_qasm_rule_ctrl_y.

Theorem C19_qasm_rule_ctrl_z : forall (K : Type) (O0 : Ops K), Laws O0 -> ctrl_matrix O0 (2%nat :: nil) ((1%nat :: nil) :: nil) (spec_ZPow O0 (ki O0) (kopp O0 (ki O0)) (k1 O0)) = q_cz O0.
Proof. exact @qasm_rule_ctrl_z. Qed.
Print Assumptions C19_qasm_rule_ctrl_z.

Theorem C19_qasm_rule_ctrl_h : ctrl_matrix O8 (2%nat :: nil) ((1%nat :: nil) :: nil) (spec_HPow O8 (ki O8) (kopp O8 (ki O8)) (k1 O8)) = mscale O8 (w8c O8) (q_ch O8).
Proof. exact @qasm_rule_ctrl_h. Qed.
Print Assumptions C19_qasm_rule_ctrl_h.

(* ---- u3 conventions: QasmUGate, PhasedXPowGate, PhasedXZGate (and through it one-qubit MatrixGate) ---- *)
Theorem C19_qasm_rule_u3 : forall (K : Type) (O0 : Ops K), Laws O0 -> forall a ac bh bhc ch chc : K, kmul O0 a ac = k1 O0 -> kmul O0 bh bhc = k1 O0 -> kmul O0 ch chc = k1 O0 -> mscale O0 (kmul O0 bh ch) (mprod O0 2 (spec_ZPow O0 ch chc chc :: spec_YPow O0 a ac ac :: spec_ZPow O0 bh bhc bhc :: nil)) = q_u3 O0 a ac (kmul O0 bh bh) (kmul O0 ch ch).
Proof. exact @qasm_rule_u3. Qed.
Print Assumptions C19_qasm_rule_u3.

Theorem C19_qasm_u3_theta_period : forall (K : Type) (O : Ops K), Laws O -> forall a ac b c : K, q_u3 O (kopp O a) (kopp O ac) b c = mscale O (kopp O (k1 O)) (q_u3 O a ac b c).
Proof. exact @qasm_u3_theta_period. Qed.
Print Assumptions C19_qasm_u3_theta_period.

Theorem C19_qasm_rule_phasedx : forall (K : Type) (O : Ops K), Laws O -> forall f fc r rc g : K, kmul O f fc = k1 O -> kmul O r rc = k1 O -> spec_PhasedX O f fc r rc g = mscale O (kmul O g r) (q_u3 O rc r (kmul O (ki O) f) (kmul O (kopp O (ki O)) fc)).
Proof. exact @qasm_rule_phasedx. Qed.
Print Assumptions C19_qasm_rule_phasedx.

Theorem C19_qasm_rule_phasedx_half : forall (K : Type) (O : Ops K), Laws O -> forall f fc r rc g : K, kmul O f fc = k1 O -> kmul O r rc = k1 O -> spec_PhasedX O f fc (w8 O) (w8c O) g = mscale O (kmul O g (w8 O)) (q_u2 O (kmul O (kopp O (ki O)) f) (kmul O (ki O) fc)).
Proof. exact @qasm_rule_phasedx_half. Qed.
Print Assumptions C19_qasm_rule_phasedx_half.

Theorem C19_qasm_rule_phasedx_mhalf : forall (K : Type) (O : Ops K), Laws O -> forall f fc r rc g : K, kmul O f fc = k1 O -> kmul O r rc = k1 O -> spec_PhasedX O f fc (w8c O) (w8 O) g = mscale O (kmul O g (w8c O)) (q_u2 O (kmul O (ki O) f) (kmul O (kopp O (ki O)) fc)).
Proof. exact @qasm_rule_phasedx_mhalf. Qed.
Print Assumptions C19_qasm_rule_phasedx_mhalf.

Theorem C19_qasm_rule_phasedxz : forall (K : Type) (O : Ops K), Laws O -> forall f fc r rc : K, kmul O f fc = k1 O -> kmul O r rc = k1 O -> forall fz fzc : K, kmul O fz fzc = k1 O -> spec_PhasedXZ O f fc fz fzc r rc = mscale O r (q_u3 O r rc (kmul O (kmul O (kopp O (ki O)) f) fz) (kmul O (ki O) fc)).
Proof. exact @qasm_rule_phasedxz. Qed.
Print Assumptions C19_qasm_rule_phasedxz.

(* ---- register layout and program semantics ---- *)
Theorem C19_qasm_registers_spec : forall ms : list meas, (forall n i : nat, (i < n)%nat -> nth i (qubit_ids n) 0%nat = i) /\ NoDup (creg_keys ms) /\ (forall k : nat, In k (creg_keys ms) -> exists m : meas, In m ms /\ mkey m = k) /\ (forall m : meas, In m ms -> nth (reg_of ms (mkey m)) (creg_keys ms) 0%nat = mkey m /\ (reg_of ms (mkey m) < length (cregs ms))%nat /\ (length (mqubits m) <= creg_size ms (mkey m))%nat /\ (exists m' : meas, In m' ms /\ mkey m' = mkey m /\ length (mqubits m') = creg_size ms (mkey m)) /\ only_measures (measure_stmts ms m) = map (fun p : nat * nat => (snd p, reg_of ms (mkey m), fst p)) (combine (seq 0 (length (mqubits m))) (mqubits m))) /\ (forall m1 m2 : meas, In m1 ms -> In m2 ms -> reg_of ms (mkey m1) = reg_of ms (mkey m2) -> mkey m1 = mkey m2).
Proof. exact @qasm_registers_spec. Qed.
Print Assumptions C19_qasm_registers_spec.

Theorem C19_qexec_is_exec : forall (K : Type) (O : Ops K) (sh : list nat) (prog : list qstmt) (mops : list mop) (init : list K), map qstmt_mop prog = map Some mops -> qexec O sh prog init = exec O sh mops init.
Proof. exact @qexec_is_exec. Qed.
Print Assumptions C19_qexec_is_exec.

Theorem C19_qcond_one_bit : forall (r : list recd) (reg : nat), qcond_eval r (QCond reg 1 1 true) = match eval_cond (CKey (bit_key reg 0) None false) r with | Some b => b | None => false end \/ (exists e : recd, pick (key_records (bit_key reg 0) r) None false = Some e /\ (2 <= rec_value e)%nat).
Proof. exact @qcond_one_bit. Qed.
Print Assumptions C19_qcond_one_bit.

Theorem C19_qasm_measure_invert_1q : forall (K : Type) (O0 : Ops K), Laws O0 -> forall (w : K) (rcd : list recd) (p0 p1 : K) (key : nat), let b := {| bw := w; brec := rcd; bpsi := p0 :: p1 :: nil |} in Forall2 branch_eq (rev (flat_map (step O0 (2%nat :: nil) (MGate (Xg O0))) (flat_map (step O0 (2%nat :: nil) (MMeasure key (0%nat :: nil) (false :: nil) nil)) (step O0 (2%nat :: nil) (MGate (Xg O0)) b)))) (step O0 (2%nat :: nil) (MMeasure key (0%nat :: nil) (true :: nil) nil) b).
Proof. exact @qasm_measure_invert_1q. Qed.
Print Assumptions C19_qasm_measure_invert_1q.

Theorem C19_qasm_measure_invert_2q : forall (K : Type) (O0 : Ops K), Laws O0 -> forall (w : K) (rcd : list recd) (p0 p1 p2 p3 : K) (key : nat), let b := {| bw := w; brec := rcd; bpsi := p0 :: p1 :: p2 :: p3 :: nil |} in Forall2 branch_eq (rev (flat_map (step O0 (2%nat :: 2%nat :: nil) (MGate (Xg1 O0))) (flat_map (step O0 (2%nat :: 2%nat :: nil) (MMeasure key (1%nat :: nil) (false :: nil) nil)) (step O0 (2%nat :: 2%nat :: nil) (MGate (Xg1 O0)) b)))) (step O0 (2%nat :: 2%nat :: nil) (MMeasure key (1%nat :: nil) (true :: nil) nil) b).
Proof. exact @qasm_measure_invert_2q. Qed.
Print Assumptions C19_qasm_measure_invert_2q.

(* ---- the library transcription: bodies of qelib1.inc, stdgates.inc versus qelib1.inc ---- *)
Theorem C19_qelib_ccx_body : body_unitary O8 3 (ccx_body O8) = q_ccx O8.
Proof. exact @qelib_ccx_body. Qed.
Print Assumptions C19_qelib_ccx_body.

Theorem C19_qelib_cswap_body : body_unitary O8 3 (cswap_body O8) = q_cswap O8.
Proof. exact @qelib_cswap_body. Qed.
Print Assumptions C19_qelib_cswap_body.

Theorem C19_qelib_ch_body : q_ch O8 = mscale O8 (w8 O8) (ctrl1 O8 ((ks2 O8 :: ks2 O8 :: nil) :: (ks2 O8 :: kopp O8 (ks2 O8) :: nil) :: nil)).
Proof. exact @qelib_ch_body. Qed.
Print Assumptions C19_qelib_ch_body.

Theorem C19_stdgates_const_same : forallb (fun g : qgate => k8m_eqb (qmat3 O8 g) (qmat2 O8 g)) const_gates = true.
Proof. exact @stdgates_const_same. Qed.
Print Assumptions C19_stdgates_const_same.

Theorem C19_stdgates_sx : qmat3 O8 QSx = mscale O8 (w8 O8) (qmat2 O8 QSx).
Proof. exact @stdgates_sx. Qed.
Print Assumptions C19_stdgates_sx.

Theorem C19_stdgates_ch : qmat3 O8 QCh = mscale O8 (w8c O8) (qmat2 O8 QCh).
Proof. exact @stdgates_ch. Qed.
Print Assumptions C19_stdgates_ch.

Theorem C19_stdgates_u3 : forall (K : Type) (O : Ops K), Laws O -> forall a ac bh bhc ch chc : K, kmul O a ac = k1 O -> kmul O bh bhc = k1 O -> kmul O ch chc = k1 O -> qmat3 O (QU3 a ac bh bhc ch chc) = mscale O (kmul O bhc chc) (qmat2 O (QU3 a ac bh bhc ch chc)).
Proof. exact @stdgates_u3. Qed.
Print Assumptions C19_stdgates_u3.

Theorem C19_stdgates_u2 : forall (K : Type) (O : Ops K), Laws O -> forall a ac bh bhc ch chc : K, kmul O a ac = k1 O -> kmul O bh bhc = k1 O -> kmul O ch chc = k1 O -> qmat3 O (QU2 bh bhc ch chc) = mscale O (kmul O bhc chc) (qmat2 O (QU2 bh bhc ch chc)).
Proof. exact @stdgates_u2. Qed.
Print Assumptions C19_stdgates_u2.

Theorem C19_stdgates_u1 : forall (K : Type) (O : Ops K), Laws O -> forall a ac bh bhc ch chc : K, kmul O a ac = k1 O -> kmul O bh bhc = k1 O -> kmul O ch chc = k1 O -> qmat3 O (QU1 ch chc) = qmat2 O (QU1 ch chc).
Proof. exact @stdgates_u1. Qed.
Print Assumptions C19_stdgates_u1.

Theorem C19_stdgates_rx : forall (K : Type) (O : Ops K), Laws O -> forall a ac bh bhc ch chc : K, kmul O a ac = k1 O -> kmul O bh bhc = k1 O -> kmul O ch chc = k1 O -> qmat3 O (QRx a ac) = qmat2 O (QRx a ac).
Proof. exact @stdgates_rx. Qed.
Print Assumptions C19_stdgates_rx.

Theorem C19_stdgates_ry : forall (K : Type) (O : Ops K), Laws O -> forall a ac bh bhc ch chc : K, kmul O a ac = k1 O -> kmul O bh bhc = k1 O -> kmul O ch chc = k1 O -> qmat3 O (QRy a ac) = qmat2 O (QRy a ac).
Proof. exact @stdgates_ry. Qed.
Print Assumptions C19_stdgates_ry.

Theorem C19_stdgates_rz : forall (K : Type) (O : Ops K), Laws O -> forall a ac bh bhc ch chc : K, kmul O a ac = k1 O -> kmul O bh bhc = k1 O -> kmul O ch chc = k1 O -> qmat3 O (QRz a ac) = mscale O ac (qmat2 O (QRz a ac)).
Proof. exact @stdgates_rz. Qed.
Print Assumptions C19_stdgates_rz.

Theorem C19_stdgates_crz : forall (K : Type) (O : Ops K), Laws O -> forall a ac bh bhc ch chc : K, kmul O a ac = k1 O -> kmul O bh bhc = k1 O -> kmul O ch chc = k1 O -> qmat3 O (QCrz a ac) = qmat2 O (QCrz a ac).
Proof. exact @stdgates_crz. Qed.
Print Assumptions C19_stdgates_crz.

(* ---- the regenerated mnemonic table is the emission model; every key of the model means the documented matrix ---- *)
Theorem C19_qasm_table_is_model : table_ok qasm_table = true.
Proof. exact @qasm_table_is_model. Qed.
Print Assumptions C19_qasm_table_is_model.

Theorem C19_emit_sound_X : forall (K : Type) (O0 : Ops K), Laws O0 -> forall q qc : K, kmul O0 q qc = k1 O0 -> kmul O0 q q = w8 O0 -> forall r rc g gc : K, kmul O0 r rc = k1 O0 -> kmul O0 g gc = k1 O0 -> forall (v3 : bool) (s : scls) (e : ecls), let u := eunit O0 e r rc q qc in shift_ok O0 s g gc (fst u) (snd u) -> rows_mean O0 1 ((r, rc) :: nil) q qc (emit_shape (v3, FX, s, e)) (spec_XPow O0 (fst u) (snd u) g).
Proof. exact @emit_sound_X. Qed.
Print Assumptions C19_emit_sound_X.

Theorem C19_emit_sound_Y : forall (K : Type) (O0 : Ops K), Laws O0 -> forall q qc : K, kmul O0 q qc = k1 O0 -> kmul O0 q q = w8 O0 -> forall r rc g gc : K, kmul O0 r rc = k1 O0 -> kmul O0 g gc = k1 O0 -> forall (v3 : bool) (s : scls) (e : ecls), let u := eunit O0 e r rc q qc in rows_mean O0 1 ((r, rc) :: nil) q qc (emit_shape (v3, FY, s, e)) (spec_YPow O0 (fst u) (snd u) g).
Proof. exact @emit_sound_Y. Qed.
Print Assumptions C19_emit_sound_Y.

Theorem C19_emit_sound_Z : forall (K : Type) (O0 : Ops K), Laws O0 -> forall q qc : K, kmul O0 q qc = k1 O0 -> kmul O0 q q = w8 O0 -> forall r rc g gc : K, kmul O0 r rc = k1 O0 -> kmul O0 g gc = k1 O0 -> forall (v3 : bool) (s : scls) (e : ecls), let u := eunit O0 e r rc q qc in shift_ok O0 s g gc (fst u) (snd u) -> rows_mean O0 1 ((r, rc) :: nil) q qc (emit_shape (v3, FZ, s, e)) (spec_ZPow O0 (fst u) (snd u) g).
Proof. exact @emit_sound_Z. Qed.
Print Assumptions C19_emit_sound_Z.

Theorem C19_emit_sound_H : forall (K : Type) (O0 : Ops K), Laws O0 -> forall q qc : K, kmul O0 q qc = k1 O0 -> kmul O0 q q = w8 O0 -> forall r rc g gc : K, kmul O0 r rc = k1 O0 -> kmul O0 g gc = k1 O0 -> forall (v3 : bool) (s : scls) (e : ecls), let u := eunit O0 e r rc q qc in shift_ok O0 s g gc (fst u) (snd u) -> rows_mean O0 1 ((r, rc) :: nil) q qc (emit_shape (v3, FH, s, e)) (spec_HPow O0 (fst u) (snd u) g).
Proof. exact @emit_sound_H. Qed.
Print Assumptions C19_emit_sound_H.

Theorem C19_emit_sound_Rx : forall (K : Type) (O0 : Ops K), Laws O0 -> forall q qc : K, kmul O0 q qc = k1 O0 -> kmul O0 q q = w8 O0 -> forall r rc g gc : K, kmul O0 r rc = k1 O0 -> kmul O0 g gc = k1 O0 -> forall (v3 : bool) (s : scls) (e : ecls), let u := eunit O0 e r rc q qc in rows_mean O0 1 ((r, rc) :: nil) q qc (emit_shape (v3, FRx, s, e)) (spec_XPow O0 (fst u) (snd u) g).
Proof. exact @emit_sound_Rx. Qed.
Print Assumptions C19_emit_sound_Rx.

Theorem C19_emit_sound_Ry : forall (K : Type) (O0 : Ops K), Laws O0 -> forall q qc : K, kmul O0 q qc = k1 O0 -> kmul O0 q q = w8 O0 -> forall r rc g gc : K, kmul O0 r rc = k1 O0 -> kmul O0 g gc = k1 O0 -> forall (v3 : bool) (s : scls) (e : ecls), let u := eunit O0 e r rc q qc in rows_mean O0 1 ((r, rc) :: nil) q qc (emit_shape (v3, FRy, s, e)) (spec_YPow O0 (fst u) (snd u) g).
Proof. exact @emit_sound_Ry. Qed.
Print Assumptions C19_emit_sound_Ry.

Theorem C19_emit_sound_Rz : forall (K : Type) (O0 : Ops K), Laws O0 -> forall q qc : K, kmul O0 q qc = k1 O0 -> kmul O0 q q = w8 O0 -> forall r rc g gc : K, kmul O0 r rc = k1 O0 -> kmul O0 g gc = k1 O0 -> forall (v3 : bool) (s : scls) (e : ecls), let u := eunit O0 e r rc q qc in rows_mean O0 1 ((r, rc) :: nil) q qc (emit_shape (v3, FRz, s, e)) (spec_ZPow O0 (fst u) (snd u) g).
Proof. exact @emit_sound_Rz. Qed.
Print Assumptions C19_emit_sound_Rz.

Theorem C19_emit_sound_CZ : forall (K : Type) (O0 : Ops K), Laws O0 -> forall q qc : K, kmul O0 q qc = k1 O0 -> forall r rc g gc : K, kmul O0 r rc = k1 O0 -> kmul O0 g gc = k1 O0 -> forall (v3 : bool) (s : scls) (e : ecls), let u := eunit O0 e r rc q qc in (is_odd e = true -> kmul O0 (fst u) (fst u) = kopp O0 (k1 O0)) -> rows_mean O0 2 ((r, rc) :: nil) q qc (emit_shape (v3, FCZ, s, e)) (spec_CZPow O0 (fst u) (snd u) g).
Proof. exact @emit_sound_CZ. Qed.
Print Assumptions C19_emit_sound_CZ.

Theorem C19_emit_sound_CX : forall (K : Type) (O0 : Ops K), Laws O0 -> forall q qc : K, kmul O0 q qc = k1 O0 -> forall r rc g gc : K, kmul O0 r rc = k1 O0 -> kmul O0 g gc = k1 O0 -> forall (v3 : bool) (s : scls) (e : ecls), let u := eunit O0 e r rc q qc in (is_odd e = true -> kmul O0 (fst u) (fst u) = kopp O0 (k1 O0)) -> rows_mean O0 2 ((r, rc) :: nil) q qc (emit_shape (v3, FCX, s, e)) (spec_CXPow O0 (fst u) (snd u) g).
Proof. exact @emit_sound_CX. Qed.
Print Assumptions C19_emit_sound_CX.

Theorem C19_emit_sound_CY : forall (K : Type) (O0 : Ops K), Laws O0 -> forall q qc : K, kmul O0 q qc = k1 O0 -> forall r rc g gc : K, kmul O0 r rc = k1 O0 -> kmul O0 g gc = k1 O0 -> forall (v3 : bool) (s : scls) (e : ecls), let u := eunit O0 e r rc q qc in (is_odd e = true -> kmul O0 (fst u) (fst u) = kopp O0 (k1 O0)) -> rows_mean O0 2 ((r, rc) :: nil) q qc (emit_shape (v3, FCY, s, e)) (spec_CYPow O0 (fst u) (snd u) g).
Proof. exact @emit_sound_CY. Qed.
Print Assumptions C19_emit_sound_CY.

Theorem C19_emit_sound_Swap : forall (K : Type) (O0 : Ops K), Laws O0 -> forall q qc : K, kmul O0 q qc = k1 O0 -> kmul O0 q q = w8 O0 -> forall r rc g gc : K, kmul O0 g gc = k1 O0 -> forall (v3 : bool) (s : scls) (e : ecls), let u := eunit O0 e r rc q qc in rows_mean O0 2 ((r, rc) :: nil) q qc (emit_shape (v3, FSwap, s, e)) (spec_SwapPow O0 (fst u) (snd u) g).
Proof. exact @emit_sound_Swap. Qed.
Print Assumptions C19_emit_sound_Swap.

Theorem C19_emit_sound_CCZ : forall (K : Type) (O0 : Ops K), Laws O0 -> forall q qc : K, kmul O0 q qc = k1 O0 -> kmul O0 q q = w8 O0 -> forall r rc g gc : K, kmul O0 g gc = k1 O0 -> forall (v3 : bool) (s : scls) (e : ecls), let u := eunit O0 e r rc q qc in rows_mean O0 3 ((r, rc) :: nil) q qc (emit_shape (v3, FCCZ, s, e)) (spec_CCZPow O0 (fst u) (snd u) g).
Proof. exact @emit_sound_CCZ. Qed.
Print Assumptions C19_emit_sound_CCZ.

Theorem C19_emit_sound_CCX : forall (K : Type) (O0 : Ops K), Laws O0 -> forall q qc : K, kmul O0 q qc = k1 O0 -> kmul O0 q q = w8 O0 -> forall r rc g gc : K, kmul O0 g gc = k1 O0 -> forall (v3 : bool) (s : scls) (e : ecls), let u := eunit O0 e r rc q qc in rows_mean O0 3 ((r, rc) :: nil) q qc (emit_shape (v3, FCCX, s, e)) (spec_CCXPow O0 (fst u) (snd u) g).
Proof. exact @emit_sound_CCX. Qed.
Print Assumptions C19_emit_sound_CCX.

Theorem C19_emit_sound_CCY : forall (K : Type) (O0 : Ops K), Laws O0 -> forall q qc : K, kmul O0 q qc = k1 O0 -> kmul O0 q q = w8 O0 -> forall r rc g gc : K, kmul O0 g gc = k1 O0 -> forall (v3 : bool) (s : scls) (e : ecls), let u := eunit O0 e r rc q qc in rows_mean O0 3 ((r, rc) :: nil) q qc (emit_shape (v3, FCCY, s, e)) (spec_CCYPow O0 (fst u) (snd u) g).
Proof. exact @emit_sound_CCY. Qed.
Print Assumptions C19_emit_sound_CCY.

Theorem C19_emit_sound_CSwap : forall (K : Type) (O0 : Ops K), Laws O0 -> forall (q qc : K) (v3 : bool) (s : scls) (e : ecls), rows_mean O0 3 nil q qc (emit_shape (v3, FCSwap, s, e)) (spec_CSwap O0).
Proof. exact @emit_sound_CSwap. Qed.
Print Assumptions C19_emit_sound_CSwap.

Theorem C19_emit_sound_Id1 : forall (K : Type) (O0 : Ops K), Laws O0 -> forall q qc : K, kmul O0 q qc = k1 O0 -> kmul O0 q q = w8 O0 -> forall (v3 : bool) (s : scls) (e : ecls), rows_mean O0 1 nil q qc (emit_shape (v3, FId1, s, e)) (mid O0 2).
Proof. exact @emit_sound_Id1. Qed.
Print Assumptions C19_emit_sound_Id1.

Theorem C19_emit_sound_Id2 : forall (K : Type) (O0 : Ops K), Laws O0 -> forall q qc : K, kmul O0 q qc = k1 O0 -> kmul O0 q q = w8 O0 -> forall (v3 : bool) (s : scls) (e : ecls), rows_mean O0 2 nil q qc (emit_shape (v3, FId2, s, e)) (mid O0 4).
Proof. exact @emit_sound_Id2. Qed.
Print Assumptions C19_emit_sound_Id2.

Theorem C19_emit_sound_PhasedX : forall (K : Type) (O0 : Ops K), Laws O0 -> forall q qc : K, kmul O0 q qc = k1 O0 -> kmul O0 q q = w8 O0 -> forall r rc g gc : K, kmul O0 r rc = k1 O0 -> kmul O0 g gc = k1 O0 -> forall fh fhc : K, kmul O0 fh fhc = k1 O0 -> forall (v3 : bool) (s : scls) (e : ecls), let u := eunit O0 e r rc q qc in rows_mean O0 1 ((r, rc) :: (fh, fhc) :: nil) q qc (emit_shape (v3, FPhasedX, s, e)) (spec_PhasedX O0 (kmul O0 fh fh) (kmul O0 fhc fhc) (fst u) (snd u) g).
Proof. exact @emit_sound_PhasedX. Qed.
Print Assumptions C19_emit_sound_PhasedX.

Theorem C19_emit_sound_PhasedXZ : forall (K : Type) (O0 : Ops K), Laws O0 -> forall q qc : K, kmul O0 q qc = k1 O0 -> kmul O0 q q = w8 O0 -> forall r rc : K, kmul O0 r rc = k1 O0 -> forall fh fhc zh zhc : K, kmul O0 fh fhc = k1 O0 -> kmul O0 zh zhc = k1 O0 -> forall (v3 : bool) (s : scls) (e : ecls), rows_mean O0 1 ((r, rc) :: (fh, fhc) :: (zh, zhc) :: nil) q qc (emit_shape (v3, FPhasedXZ, s, e)) (spec_PhasedXZ O0 (kmul O0 zh zh) (kmul O0 zhc zhc) (kmul O0 fh fh) (kmul O0 fhc fhc) r rc).
Proof. exact @emit_sound_PhasedXZ. Qed.
Print Assumptions C19_emit_sound_PhasedXZ.

Theorem C19_emit_sound_QasmU : forall (K : Type) (O0 : Ops K), Laws O0 -> forall q qc : K, kmul O0 q qc = k1 O0 -> kmul O0 q q = w8 O0 -> forall r rc : K, kmul O0 r rc = k1 O0 -> forall fh fhc zh zhc : K, kmul O0 fh fhc = k1 O0 -> kmul O0 zh zhc = k1 O0 -> forall (v3 : bool) (s : scls) (e : ecls), rows_mean O0 1 ((r, rc) :: (fh, fhc) :: (zh, zhc) :: nil) q qc (emit_shape (v3, FQasmU, s, e)) (mscale O0 (kmul O0 fh zh) (mprod O0 2 (spec_ZPow O0 zh zhc zhc :: spec_YPow O0 r rc rc :: spec_ZPow O0 fh fhc fhc :: nil))).
Proof. exact @emit_sound_QasmU. Qed.
Print Assumptions C19_emit_sound_QasmU.

Theorem C19_emit_sound_CtrlX : forall (K : Type) (O0 : Ops K), Laws O0 -> forall (q qc : K) (v3 : bool) (s : scls) (e : ecls), rows_mean O0 2 nil q qc (emit_shape (v3, FCtrlX, s, e)) (ctrl_matrix O0 (2%nat :: nil) ((1%nat :: nil) :: nil) (spec_XPow O0 (ki O0) (kopp O0 (ki O0)) (k1 O0))).
Proof. exact @emit_sound_CtrlX. Qed.
Print Assumptions C19_emit_sound_CtrlX.

Theorem C19_emit_sound_CtrlY : forall (K : Type) (O0 : Ops K), Laws O0 -> forall (q qc : K) (v3 : bool) (s : scls) (e : ecls), rows_mean O0 2 nil q qc (emit_shape (v3, FCtrlY, s, e)) (ctrl_matrix O0 (2%nat :: nil) ((1%nat :: nil) :: nil) (spec_YPow O0 (ki O0) (kopp O0 (ki O0)) (k1 O0))).
Proof. exact @emit_sound_CtrlY. Qed.
Print Assumptions C19_emit_sound_CtrlY.

Theorem C19_emit_sound_CtrlZ : forall (K : Type) (O0 : Ops K), Laws O0 -> forall (q qc : K) (v3 : bool) (s : scls) (e : ecls), rows_mean O0 2 nil q qc (emit_shape (v3, FCtrlZ, s, e)) (ctrl_matrix O0 (2%nat :: nil) ((1%nat :: nil) :: nil) (spec_ZPow O0 (ki O0) (kopp O0 (ki O0)) (k1 O0))).
Proof. exact @emit_sound_CtrlZ. Qed.
Print Assumptions C19_emit_sound_CtrlZ.

Theorem C19_emit_sound_CtrlH : forall (v3 : bool) (s : scls) (e : ecls), rows_mean O8 2 nil (k1 O8) (k1 O8) (emit_shape (v3, FCtrlH, s, e)) (ctrl_matrix O8 (2%nat :: nil) ((1%nat :: nil) :: nil) (spec_HPow O8 (ki O8) (kopp O8 (ki O8)) (k1 O8))).
Proof. exact @emit_sound_CtrlH. Qed.
Print Assumptions C19_emit_sound_CtrlH.

(* ---- version awareness: the rows of every key use only gates of the key's include file (stdgates.inc has no sxdg);
   X**-0.5 is sxdg for 2.0 and rx(pi*-0.5) for 3.0, which read with stdgates.inc is the documented matrix up to exp(-i pi/4) ---- *)
Theorem C19_emit_uses_defined_gates : forall (v3 : bool) (f : qfam) (s : scls) (e : ecls), rows_defined v3 (emit_shape (v3, f, s, e)) = true.
Proof. exact @emit_uses_defined_gates. Qed.
Print Assumptions C19_emit_uses_defined_gates.

Theorem C19_mnem_defined_is_qdefined : forall (K : Type) (O : Ops K) (v3 : bool) (us : list (K * K)) (q qc : K) (r : srow) (g : qgate), row_gate O us q qc r = Some g -> qdefined v3 g = mnem_defined v3 (fst (fst r)).
Proof. exact @mnem_defined_is_qdefined. Qed.
Print Assumptions C19_mnem_defined_is_qdefined.

Theorem C19_emit_sxdg_only_v2 : emit_shape (false, FX, S0, ESpec (-2)) = Some ((Msxdg, nil, 0%nat :: nil) :: nil) /\ emit_shape (true, FX, S0, ESpec (-2)) = Some ((Mrx, const_angle (-2) :: nil, 0%nat :: nil) :: nil).
Proof. exact @emit_sxdg_only_v2. Qed.
Print Assumptions C19_emit_sxdg_only_v2.

Theorem C19_qasm_rule_x_mhalf_v3 : forall (K : Type) (O : Ops K), Laws O -> spec_XPow O (w8c O) (w8 O) (k1 O) = mscale O (w8c O) (qmat O true (QRx (w8c O) (w8 O))).
Proof. exact @qasm_rule_x_mhalf_v3. Qed.
Print Assumptions C19_qasm_rule_x_mhalf_v3.

(* ---- the KAK-based two-qubit fallback: the emitted core sequence is the interaction exp(i(x XX + y YY + z ZZ)) up to a unit ---- *)
Theorem C19_qasm_two_qubit_kak : forall (K : Type) (O : Ops K), Laws O -> forall ux uxc uy uyc uz uzc : K, kmul O ux uxc = k1 O -> kmul O uy uyc = k1 O -> kmul O uz uzc = k1 O -> kak_core O ux uxc uy uyc uz uzc = mscale O uzc (kak_interaction O ux uxc uy uyc uz uzc).
Proof. exact @qasm_two_qubit_kak. Qed.
Print Assumptions C19_qasm_two_qubit_kak.

Theorem C19_qasm_two_qubit_kak_v3 : forall (K : Type) (O : Ops K), Laws O -> forall ux uxc uy uyc uz uzc : K, kmul O ux uxc = k1 O -> kmul O uy uyc = k1 O -> kmul O uz uzc = k1 O -> kak_core_v3 O ux uxc uy uyc uz uzc = kak_interaction O ux uxc uy uyc uz uzc.
Proof. exact @qasm_two_qubit_kak_v3. Qed.
Print Assumptions C19_qasm_two_qubit_kak_v3.

Theorem C19_pp_sq_x : forall (K : Type) (O0 : Ops K), Laws O0 -> mmul O0 (pp O0 0) (pp O0 0) = mid O0 4.
Proof. exact @pp_sq_x. Qed.
Print Assumptions C19_pp_sq_x.

Theorem C19_pp_sq_y : forall (K : Type) (O0 : Ops K), Laws O0 -> mmul O0 (pp O0 1) (pp O0 1) = mid O0 4.
Proof. exact @pp_sq_y. Qed.
Print Assumptions C19_pp_sq_y.

Theorem C19_pp_sq_z : forall (K : Type) (O0 : Ops K), Laws O0 -> mmul O0 (pp O0 2) (pp O0 2) = mid O0 4.
Proof. exact @pp_sq_z. Qed.
Print Assumptions C19_pp_sq_z.

(* ---- non-vacuity: a model of the Laws containing the symbolic units the theorems quantify over ---- *)
Example C19_K16Laws : Laws O16.
Proof. exact @K16Laws. Qed.
Print Assumptions C19_K16Laws.

Example C19_units_pi8 : kmul O16 zeta16 zeta16c = k1 O16 /\ kmul O16 zeta16 zeta16 = w8 O16.
Proof. exact @units_pi8. Qed.
Print Assumptions C19_units_pi8.

Example C19_units_mpi8 : kmul O16 zeta16c zeta16 = k1 O16 /\ kmul O16 zeta16c zeta16c = w8c O16.
Proof. exact @units_mpi8. Qed.
Print Assumptions C19_units_mpi8.

Example C19_units_odd : kmul O16 (ki O16) (kopp O16 (ki O16)) = k1 O16 /\ kmul O16 (ki O16) (ki O16) = kopp O16 (k1 O16).
Proof. exact @units_odd. Qed.
Print Assumptions C19_units_odd.

Example C19_units_generic : kmul O16 pyth (kconj O16 pyth) = k1 O16.
Proof. exact @units_generic. Qed.
Print Assumptions C19_units_generic.

Example C19_hpow_instance : spec_HPow O16 pyth (kconj O16 pyth) (k1 O16) = mscale O16 (kmul O16 (k1 O16) pyth) (mprod O16 2 (q_ry O16 zeta16 zeta16c :: q_rx O16 pyth (kconj O16 pyth) :: q_ry O16 zeta16c zeta16 :: nil)).
Proof. exact @hpow_instance. Qed.
Print Assumptions C19_hpow_instance.

Example C19_row_gate_sxdg_instance : row_gate O8 nil (k1 O8) (k1 O8) (Msxdg, nil, 0%nat :: nil) = Some QSxdg /\ qdefined (K:=K8) true QSxdg = false /\ qdefined (K:=K8) false QSxdg = true.
Proof. exact @row_gate_sxdg_instance. Qed.
Print Assumptions C19_row_gate_sxdg_instance.

Example C19_odd_class_units : forallb (fun k : Z => k16_eqb (kmul O16 (kpowZ O16 zeta16 zeta16c k) (kpowZ O16 zeta16 zeta16c k)) (kopp O16 (k1 O16))) (4%Z :: (-4)%Z :: 12%Z :: 20%Z :: nil) = true.
Proof. exact @odd_class_units. Qed.
Print Assumptions C19_odd_class_units.


(* ---- the whole sequence of the KAK-based fallback: order of the one-qubit factors; vanishing interaction (tensor products) ---- *)
From VF Require Import Vendor.QasmKakSeq Vendor.QasmKakSeqProofs Vendor.QasmKakSeqExamples.

Theorem C19_kak_sequence_order : forall (K : Type) (O : Ops K), Laws O -> forall p0 p1 p2 p3 q0 q1 q2 q3 r0 r1 r2 r3 t0 t1 t2 t3 c00 c01 c02 c03 c10 c11 c12 c13 c20 c21 c22 c23 c30 c31 c32 c33 : K, let core := m4 c00 c01 c02 c03 c10 c11 c12 c13 c20 c21 c22 c23 c30 c31 c32 c33 in kak_sequence O core (m2 p0 p1 p2 p3) (m2 q0 q1 q2 q3) (m2 r0 r1 r2 r3) (m2 t0 t1 t2 t3) = kak_unitary O core (m2 p0 p1 p2 p3) (m2 q0 q1 q2 q3) (m2 r0 r1 r2 r3) (m2 t0 t1 t2 t3).
Proof. exact @kak_sequence_order. Qed.
Print Assumptions C19_kak_sequence_order.

Theorem C19_kak_sequence_separable : forall (K : Type) (O : Ops K), Laws O -> forall p0 p1 p2 p3 q0 q1 q2 q3 r0 r1 r2 r3 t0 t1 t2 t3 : K, kak_sequence O (mid O 4) (m2 p0 p1 p2 p3) (m2 q0 q1 q2 q3) (m2 r0 r1 r2 r3) (m2 t0 t1 t2 t3) = local_product O (m2 p0 p1 p2 p3) (m2 q0 q1 q2 q3) (m2 r0 r1 r2 r3) (m2 t0 t1 t2 t3).
Proof. exact @kak_sequence_separable. Qed.
Print Assumptions C19_kak_sequence_separable.

Theorem C19_qasm_two_qubit_separable : forall (K : Type) (O : Ops K), Laws O -> forall p0 p1 p2 p3 q0 q1 q2 q3 r0 r1 r2 r3 t0 t1 t2 t3 : K, kak_sequence O (kak_core O (k1 O) (k1 O) (k1 O) (k1 O) (k1 O) (k1 O)) (m2 p0 p1 p2 p3) (m2 q0 q1 q2 q3) (m2 r0 r1 r2 r3) (m2 t0 t1 t2 t3) = local_product O (m2 p0 p1 p2 p3) (m2 q0 q1 q2 q3) (m2 r0 r1 r2 r3) (m2 t0 t1 t2 t3).
Proof. exact @qasm_two_qubit_separable. Qed.
Print Assumptions C19_qasm_two_qubit_separable.

Theorem C19_qasm_two_qubit_separable_v3 : forall (K : Type) (O : Ops K), Laws O -> forall p0 p1 p2 p3 q0 q1 q2 q3 r0 r1 r2 r3 t0 t1 t2 t3 : K, kak_sequence O (kak_core_v3 O (k1 O) (k1 O) (k1 O) (k1 O) (k1 O) (k1 O)) (m2 p0 p1 p2 p3) (m2 q0 q1 q2 q3) (m2 r0 r1 r2 r3) (m2 t0 t1 t2 t3) = local_product O (m2 p0 p1 p2 p3) (m2 q0 q1 q2 q3) (m2 r0 r1 r2 r3) (m2 t0 t1 t2 t3).
Proof. exact @qasm_two_qubit_separable_v3. Qed.
Print Assumptions C19_qasm_two_qubit_separable_v3.

(* the other order of the factors is a different unitary (not a multiple): before = S, after = X in Q(zeta_16) *)
Example C19_separable_order_matters : k16_eqb (mget O16 (local_product O16 ex_S ex_I ex_X ex_I) 0 2) (ki O16) = true /\ k16_eqb (mget O16 (local_product O16 ex_S ex_I ex_X ex_I) 2 0) (k1 O16) = true /\ k16_eqb (mget O16 (local_product O16 ex_X ex_I ex_S ex_I) 0 2) (k1 O16) = true /\ k16_eqb (mget O16 (local_product O16 ex_X ex_I ex_S ex_I) 2 0) (ki O16) = true /\ k16_eqb (mget O16 (kak_sequence O16 (mid O16 4) ex_S ex_I ex_X ex_I) 0 2) (ki O16) = true.
Proof. exact @separable_order_matters. Qed.
Print Assumptions C19_separable_order_matters.
