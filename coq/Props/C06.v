(* C06 — deciding obligations (statements only). *)
From Coq Require Import List Permutation.
From VF Require Import Base.RingOps Base.Mat Base.Tensor Base.TensorProofs Base.Trace Base.TraceProofs.
Import ListNotations.

(* the validator run on the real output of every "move, never change" transformer is sound:
   what it accepts is obtained from the input by exchanging adjacent independent operations *)
Theorem C06_trace_equiv_b_sound : forall w w', trace_equiv_b w w' = true -> teq top_dep w' w.
Proof. exact trace_equiv_b_sound. Qed.
Print Assumptions C06_trace_equiv_b_sound.

(* ... and complete: with distinct identities it accepts every trace-equivalent reordering, so a rejection always names
   a real exchange of dependent operations or a different multiset of operations *)
Theorem C06_trace_equiv_b_complete : forall w w', NoDup (map t_uid w) -> teq top_dep w' w -> trace_equiv_b w w' = true.
Proof. exact trace_equiv_b_complete. Qed.
Print Assumptions C06_trace_equiv_b_complete.

Theorem C06_trace_equiv_b_iff : forall w w', NoDup (map t_uid w) -> (trace_equiv_b w w' = true <-> teq top_dep w' w).
Proof. exact trace_equiv_b_iff. Qed.
Print Assumptions C06_trace_equiv_b_iff.

(* the projection lemma: same identified operations + equal per-resource subsequences => trace equivalent *)
Theorem C06_projection_lemma : forall (op : Type) (uid : op -> nat) (res : op -> list nat) (w w' : list op),
  NoDup (map uid w) -> NoDup (map uid w') -> Permutation w w' ->
  (forall r, pproj op res r w = pproj op res r w') -> teq (pshares op res) w' w.
Proof. exact projection_lemma. Qed.
Print Assumptions C06_projection_lemma.

Theorem C06_proj_equiv_b_sound : forall w w', proj_equiv_b w w' = true -> teq top_dep w' w.
Proof. exact proj_equiv_b_sound. Qed.
Print Assumptions C06_proj_equiv_b_sound.

(* semantic consequence: trace-equivalent operation lists compute the same tensor, pointwise, for every
   ring, rank, shape and input, whenever independent operations act on disjoint axes *)
Theorem C06_teq_run_equal : forall K (O : Ops K), Laws O -> forall (op : Type) (dep : op -> op -> bool) (sem : op -> rop (K:=K)),
  (forall a b, indep dep a b -> disjoint_ops (sem a) (sem b)) ->
  forall w w', teq dep w w' -> forall (psi : tensor (K:=K)) i, run O (map sem w) psi i = run O (map sem w') psi i.
Proof. exact @teq_run_equal. Qed.
Print Assumptions C06_teq_run_equal.

Theorem C06_validated_run_equal : forall K (O : Ops K), Laws O -> forall (sem : top -> rop (K:=K)),
  (forall a x, In x (rop_ax (sem a)) -> In x (t_wr a)) ->
  forall w w', trace_equiv_b w w' = true ->
  forall (psi : tensor (K:=K)) i, run O (map sem w') psi i = run O (map sem w) psi i.
Proof. exact @validated_run_equal. Qed.
Print Assumptions C06_validated_run_equal.

(* trace equivalence keeps, for every qubit and every measurement key, the sequence of operations using it:
   the per-key order of measurement records cannot change *)
Theorem C06_teq_wr_projection : forall w w', teq top_dep w w' ->
  forall r, filter (fun o => nmem r (t_wr o)) w = filter (fun o => nmem r (t_wr o)) w'.
Proof. exact teq_wr_projection. Qed.
Print Assumptions C06_teq_wr_projection.

Theorem C06_teq_perm : forall (op : Type) (dep : op -> op -> bool) l l', teq dep l l' -> Permutation l l'.
Proof. exact teq_perm. Qed.
Print Assumptions C06_teq_perm.

(* ---- gauge compiling: every constant gauge of the regenerated table is an identity up to a unit scalar ---- *)
From Coq Require Import Bool PrimFloat.
From VF Require Import Base.K8 Base.FloatInst Generated.GaugeTables Xform.Gauges Xform.GaugesProofs.

(* (post0 (x) post1) . G' . (pre0 (x) pre1) = c . G with |c| = 1, decided exactly in Q(zeta_8), for every entry
   regenerated from cz / sqrt_cz / cphase / spin-inversion / iswap / sqrt_iswap gauges *)
Theorem C06_gauge_table_ok : forallb gauge_ok_exact (gauge_exact K8Ops) = true.
Proof. exact gauge_table_ok. Qed.
Print Assumptions C06_gauge_table_ok.

Theorem C06_gauge_ok_exact_sound : forall e : gauge_entry (K:=K8),
  gauge_ok_exact e = true -> proportional_unit_spec 4 (gauge_lhs K8Ops e) (g_target e).
Proof. exact gauge_ok_exact_sound. Qed.
Print Assumptions C06_gauge_ok_exact_sound.

Theorem C06_gauge_table_spec : forall e, In e (gauge_exact K8Ops) ->
  proportional_unit_spec 4 (gauge_lhs K8Ops e) (g_target e).
Proof. exact gauge_table_spec. Qed.
Print Assumptions C06_gauge_table_spec.

(* entries outside the field (sycamore, generic angles): float instance, equality up to global phase within 2^-30 *)
Theorem C06_gauge_table_float_ok : forallb (gauge_ok_float 0x1p-30%float) gauge_float = true.
Proof. exact gauge_table_float_ok. Qed.
Print Assumptions C06_gauge_table_float_ok.

(* every dynamical-decoupling base sequence multiplies to a non-zero scalar *)
Theorem C06_dd_sequences_ok : forallb dd_ok (dd_sequences K8Ops) = true.
Proof. exact dd_sequences_ok. Qed.
Print Assumptions C06_dd_sequences_ok.

(* ---- eject_z: the phase-tracking loop keeps  Phi(tracked) . emitted = original prefix  and emits an equal circuit ---- *)
From Coq Require Import ZArith.
From VF Require Import Xform.EjectZ Xform.EjectZProofs.

Theorem C06_eject_z_loop_invariant : forall (G M : Type) (mul : M -> M -> M) (one : M),
  (forall a b c, mul a (mul b c) = mul (mul a b) c) -> (forall a, mul one a = a) -> (forall a, mul a one = a) ->
  forall (zden : nat -> Z -> M) (gden : G -> list nat -> list Z -> M) (sden : G -> nat -> nat -> M) (mden oden : G -> list nat -> M)
         (period : Z) (allq : list nat), NoDup allq ->
  (forall q, zden q 0%Z = one) -> (forall q k, (k mod period)%Z = 0%Z -> zden q k = one) ->
  (forall q p p', zden q (p + p')%Z = mul (zden q p) (zden q p')) ->
  (forall q q' p p', q <> q' -> mul (zden q p) (zden q' p') = mul (zden q' p') (zden q p)) ->
  (forall g qs ph, mul (gden g qs (map (fun _ => 0%Z) qs)) (Phi M mul one zden allq ph) = mul (Phi M mul one zden allq ph) (gden g qs (map ph qs))) ->
  (forall g a b ph, mul (sden g a b) (Phi M mul one zden allq ph) = mul (Phi M mul one zden allq (pswap ph a b)) (sden g a b)) ->
  (forall g qs ph, mul (mden g qs) (Phi M mul one zden allq ph) = mul (Phi M mul one zden allq (preset ph qs)) (mden g qs)) ->
  (forall g qs ph, (forall q, In q qs -> ph q = 0%Z) -> mul (oden g qs) (Phi M mul one zden allq ph) = mul (Phi M mul one zden allq ph) (oden g qs)) ->
  forall l (st : state G), Forall (wf G allq) l -> marks_ok G (st_mk G st) (st_out G st) ->
    mul (Phi M mul one zden allq (st_ph G (loop period st l))) (ocomp G M mul one zden gden sden mden oden (st_out G (loop period st l)))
    = mul (icomp G M mul one zden gden sden mden oden l) (mul (Phi M mul one zden allq (st_ph G st)) (ocomp G M mul one zden gden sden mden oden (st_out G st)))
    /\ marks_ok G (st_mk G (loop period st l)) (st_out G (loop period st l)).
Proof. exact loop_invariant. Qed.
Print Assumptions C06_eject_z_loop_invariant.

(* a PhasedXZ gate denotes (z rotation) . (x part); the last hypothesis is locality: a Z rotation of a qubit commutes with every
   emitted operation that does not act on that qubit - what makes "write the final phase into the PhasedXZ gate that is still
   the last operation on its qubit" the same as appending the Z gate *)
Theorem C06_eject_z_correct : forall (G M : Type) (mul : M -> M -> M) (one : M),
  (forall a b c, mul a (mul b c) = mul (mul a b) c) -> (forall a, mul one a = a) -> (forall a, mul a one = a) ->
  forall (zden : nat -> Z -> M) (gden : G -> list nat -> list Z -> M) (sden : G -> nat -> nat -> M) (mden oden : G -> list nat -> M)
         (period : Z) (allq : list nat), NoDup allq ->
  (forall q, zden q 0%Z = one) -> (forall q k, (k mod period)%Z = 0%Z -> zden q k = one) ->
  (forall q p p', zden q (p + p')%Z = mul (zden q p) (zden q p')) ->
  (forall q q' p p', q <> q' -> mul (zden q p) (zden q' p') = mul (zden q' p') (zden q p)) ->
  (forall g qs ph, mul (gden g qs (map (fun _ => 0%Z) qs)) (Phi M mul one zden allq ph) = mul (Phi M mul one zden allq ph) (gden g qs (map ph qs))) ->
  (forall g a b ph, mul (sden g a b) (Phi M mul one zden allq ph) = mul (Phi M mul one zden allq (pswap ph a b)) (sden g a b)) ->
  (forall g qs ph, mul (mden g qs) (Phi M mul one zden allq ph) = mul (Phi M mul one zden allq (preset ph qs)) (mden g qs)) ->
  (forall g qs ph, (forall q, In q qs -> ph q = 0%Z) -> mul (oden g qs) (Phi M mul one zden allq ph) = mul (Phi M mul one zden allq ph) (oden g qs)) ->
  (forall (o : oop G) q v, ~ touches G o q ->
     mul (zden q v) (oden' G M mul zden gden sden mden oden o) = mul (oden' G M mul zden gden sden mden oden o) (zden q v)) ->
  forall l, Forall (wf G allq) l ->
    ocomp G M mul one zden gden sden mden oden (eject_z period allq l) = icomp G M mul one zden gden sden mden oden l.
Proof. exact eject_z_correct. Qed.
Print Assumptions C06_eject_z_correct.

(* the side condition of the marks is needed: a phase written into a PhasedXZ gate that is followed by another operation on
   its qubit is not a Z rotation after everything emitted (2x2 integer witness: shear for the rotation, diag(1,-1) behind it) *)
Theorem C06_eject_z_setz_behind_operation_refuted : exists (out : list (oop nat)) (k q : nat) (v : Z),
  nth_error out k = Some (OPhXZ 7%nat q 0%Z 0%Z) /\
  demo_ocomp (setz k v out) <> ezm_mul (demo_zden q v) (demo_ocomp out).
Proof. exact setz_behind_operation_refuted. Qed.
Print Assumptions C06_eject_z_setz_behind_operation_refuted.

(* ---- what acceptance by the validator MEANS (Sim/TraceSem.v, Sim/ExecCommProofs.v) ----
   For ANY assignment of matrices to the operations that acts only on an operation's own qubits, the accepted output
   computes the same state map as the input ... *)
From VF Require Import Sim.Measure Sim.TraceSem Sim.ExecComm Sim.ExecCommProofs.
Theorem C06_trace_equiv_b_same_map : forall K (O : Ops K), Laws O -> forall den : top -> rop (K:=K),
  (forall o x, In x (rop_ax (den o)) -> In x (t_wr o)) ->
  forall w w', trace_equiv_b w w' = true ->
  forall psi i, run O (map den w') psi i = run O (map den w) psi i.
Proof. exact @trace_equiv_b_same_map. Qed.
Print Assumptions C06_trace_equiv_b_same_map.

(* ... and, with measurements, classical control and channels (the ensemble semantics the checks compare Cirq's simulators
   with), the same ensemble of (weight, state, per-key records) branches up to order: same distribution over the records of
   every key and same post-measurement states.  den may be any denotation that keeps an operation's qubits and written keys
   inside its exclusive resources and the keys it reads inside its resources. *)
Theorem C06_trace_equiv_b_exec : forall K (O : Ops K), Laws O -> forall (den : top -> mop (K:=K)) (qres kres : nat -> nat),
  (forall o x, In x (mop_axes (den o)) -> In (qres x) (t_wr o)) ->
  (forall o k, In k (mop_writes (den o)) -> In (kres k) (t_wr o)) ->
  (forall o k, In k (mop_reads (den o)) -> In (kres k) (t_rd o) \/ In (kres k) (t_wr o)) ->
  forall sh w w' init, Forall (mop_wf sh) (map den w') -> length init = length (enum sh) ->
  trace_equiv_b w w' = true -> ens_equiv (exec O sh (map den w') init) (exec O sh (map den w) init).
Proof. exact @trace_equiv_b_exec. Qed.
Print Assumptions C06_trace_equiv_b_exec.

(* exchanging independent operations of a circuit with measurements keeps the probability of every assignment of
   records to keys, and the weighted post-measurement states that go with it *)
Theorem C06_exec_teq_keyrec_mass : forall K (O : Ops K), Laws O -> forall sh ops ops' init kvs,
  Forall (mop_wf sh) ops -> length init = length (enum sh) -> teq mop_dep ops ops' ->
  keyrec_mass O kvs (exec O sh ops init) = keyrec_mass O kvs (exec O sh ops' init).
Proof. exact @exec_teq_keyrec_mass. Qed.
Print Assumptions C06_exec_teq_keyrec_mass.
Theorem C06_exec_teq_keyrec_states : forall K (O : Ops K), Laws O -> forall sh ops ops' init kvs,
  Forall (mop_wf sh) ops -> length init = length (enum sh) -> teq mop_dep ops ops' ->
  Permutation (keyrec_states kvs (exec O sh ops init)) (keyrec_states kvs (exec O sh ops' init)).
Proof. exact @exec_teq_keyrec_states. Qed.
Print Assumptions C06_exec_teq_keyrec_states.
(* plain list equality of the ensembles is too strong (two measurements into different keys): kept as a refutation *)
Theorem C06_step_comm_eq_refuted : forall K (O : Ops K), exists sh a b br,
  mop_indep a b /\ mop_wf sh a /\ mop_wf sh b /\ wsh sh br /\
  flat_map (step O sh b) (step O sh a br) <> flat_map (step O sh a) (step O sh b br).
Proof. exact @step_comm_eq_refuted. Qed.
Print Assumptions C06_step_comm_eq_refuted.

(* ---- measurement-like operations beyond the computational-basis measurement (Xform/PauliMeas.v) ----
   A Pauli-basis measurement enters the reference semantics through its signed observable s.P as the keyed pair
   [(I + sP)/2 ; (I - sP)/2]: for every string over {I,X,Y,Z} of length <= 3 and both signs the pair is the
   complementary, orthogonal, self-adjoint, idempotent resolution of s.P (exactly, in Q(zeta_8)) *)
From VF Require Import Xform.PauliMeas Xform.PauliMeasProofs.
Theorem C06_pauli_proj_table_ok :
  forallb (fun l => pauli_proj_ok false l && pauli_proj_ok true l) (pauli_strings_upto 3) = true.
Proof. exact pauli_proj_table_ok. Qed.
Print Assumptions C06_pauli_proj_table_ok.

Theorem C06_pauli_proj_table_spec : forall neg l, In l (pauli_strings_upto 3) -> pauli_proj_spec neg l.
Proof. exact pauli_proj_table_spec. Qed.
Print Assumptions C06_pauli_proj_table_spec.

(* ---- IdleMomentsGauge (Xform/IdleGauge.v): G at the start of an idle window merged AFTER the gate that opens it, G^-1 at its end
   merged BEFORE the gate that closes it.  A sound window (free moments strictly inside, free or mergeable ends) keeps the
   operator of the circuit up to the central scalar G^-1 . G, for every denotation in a monoid in which single-qubit gates of
   the wire commute with what the other qubits do; so does a whole run whose windows are sound one after the other; merging
   the inverse after the closing gate instead is refuted.  On every run the model's windows (`get_structure`) are decided
   sound by `idle_gauge_ok` and the model's output is compared with the real transformer's. ---- *)
From VF Require Import Xform.IdleGauge Xform.IdleGaugeProofs.

Theorem C06_idle_window_preserved : forall (G R F M : Type) (gmul : G -> G -> G) (mul : M -> M -> M) (one : M),
  (forall a b c : M, mul a (mul b c) = mul (mul a b) c) ->
  forall (emb : G -> M) (rden : R -> M) (fden : F -> M),
  (forall b a : G, emb (gmul b a) = mul (emb b) (emb a)) ->
  (forall (g : G) (r : R), mul (emb g) (rden r) = mul (rden r) (emb g)) ->
  forall (g gi : G) (z : M), mul (emb gi) (emb g) = z -> mul (emb g) (emb gi) = z -> central M mul z ->
  forall (w : list (moment G R F)) (s e : nat), window_ok w s e = true ->
    den G R F M mul one emb rden fden (apply_window gmul w s e g gi) = mul z (den G R F M mul one emb rden fden w).
Proof. exact window_preserved. Qed.
Print Assumptions C06_idle_window_preserved.

Theorem C06_idle_window_preserved_nonvacuous :
  window_ok demo_wire 0 3 = true /\ m2mul shearUinv shearU = m2one /\ m2mul shearU shearUinv = m2one /\
  demo_den (apply_window m2mul demo_wire 0 3 shearU shearUinv) = demo_den demo_wire.
Proof. exact window_preserved_nonvacuous. Qed.
Print Assumptions C06_idle_window_preserved_nonvacuous.

Theorem C06_idle_gauge_preserved : forall (G R F M : Type) (gmul : G -> G -> G) (mul : M -> M -> M) (one : M),
  (forall a b c : M, mul a (mul b c) = mul (mul a b) c) -> (forall a : M, mul one a = a) -> (forall a : M, mul a one = a) ->
  forall (emb : G -> M) (rden : R -> M) (fden : F -> M),
  (forall b a : G, emb (gmul b a) = mul (emb b) (emb a)) ->
  (forall (g : G) (r : R), mul (emb g) (rden r) = mul (rden r) (emb g)) ->
  forall (min_length : nat) (gb ge : bool) (gs gis : list G), inverse_pairs G M mul emb gs gis ->
  forall (w : list (moment G R F)) (script : list nat) (w' : list (moment G R F)) (rest : list nat),
    windows_ok gmul w (wire_windows min_length gb ge w) script gs gis = true ->
    idle_gauge_wire gmul min_length gb ge gs gis w script = Some (w', rest) ->
    exists z : M, central M mul z /\ den G R F M mul one emb rden fden w' = mul z (den G R F M mul one emb rden fden w).
Proof. exact idle_gauge_preserved. Qed.
Print Assumptions C06_idle_gauge_preserved.

Theorem C06_idle_window_ok_spec : forall (G R F : Type) (w : list (moment G R F)) (s e : nat), window_ok w s e = true ->
  s <= e /\ e < length w /\
  (forall i : nat, s < i -> i < e -> exists x : R, List.nth_error w i = Some (MIdle x)) /\
  (exists m : moment G R F, List.nth_error w s = Some m /\ is_fixed m = false) /\
  (exists m : moment G R F, List.nth_error w e = Some m /\ is_fixed m = false) /\
  (s = e -> exists x : R, List.nth_error w s = Some (MIdle x)).
Proof. exact window_ok_spec. Qed.
Print Assumptions C06_idle_window_ok_spec.

Theorem C06_idle_merge_after_refuted : exists (w : list (moment m2 unit unit)) (s e : nat) (g gi : m2),
  window_ok w s e = true /\ m2mul gi g = m2one /\ m2mul g gi = m2one /\
  demo_den (apply_window_after m2mul w s e g gi) <> demo_den w.
Proof. exact merge_after_refuted. Qed.
Print Assumptions C06_idle_merge_after_refuted.
