(* C14 — deciding obligations. Statements only, closed by the lemmas proved in Cliff/PauliProofs.v.
   K is any ring with i*i = -1 (PLaws; every RingOps.Laws instance, in particular C, is one: PLaws_of_Laws);
   qs is the ordered qubit list the matrices are taken over (PauliString.matrix(qubits)). *)
From Coq Require Import List ZArith Bool.
From VF Require Import Base.RingOps Base.Mat Cliff.Pauli Cliff.PauliProofs Cliff.PauliHist Cliff.PauliHistProofs Generated.PauliTables.
Import ListNotations.
Close Scope Z_scope.

(* ---- the regenerated tables cover their whole finite domain and are the model's decision functions ---- *)
Theorem C14_atom_table_domain :
  map (fun r => match r with (l, o, s, _, _) => (l, o, s) end) atom_table = atom_domain.
Proof. exact atom_table_domain. Qed.
Print Assumptions C14_atom_table_domain.

Theorem C14_atom_table_model :
  forallb (fun r => match r with (l, o, s, n, ret) =>
     (pcode (pxor (pauli_of_code l) (pauli_of_code o)) =? n)%Z
     && (atom_phase (pauli_of_code l) (pauli_of_code o) s =? ret)%Z end) atom_table = true.
Proof. exact atom_table_model. Qed.
Print Assumptions C14_atom_table_model.

Theorem C14_vphase_table_model :
  map (fun r => match r with (l, r', _) => (l, r') end) vphase_table
    = flat_map (fun l => map (fun o => (l, o)) [0; 1; 2; 3]%Z) [0; 1; 2; 3]%Z
  /\ forallb (fun r => match r with (l, r', k) =>
       ((vphase1 (pauli_of_code l) (pauli_of_code r')) mod 4 =? k)%Z end) vphase_table = true.
Proof. exact vphase_table_model. Qed.
Print Assumptions C14_vphase_table_model.

Theorem C14_ppp_table_model :
  map (fun r => match r with (a, b, _, _) => (a, b) end) ppp_table
    = flat_map (fun l => map (fun o => (l, o)) [0; 1; 2; 3]%Z) [1; 2; 3]%Z
  /\ forallb (fun r => match r with (a, b, k, c) =>
       ((ppp_phase (pauli_of_code a) (pauli_of_code b)) mod 4 =? k)%Z
       && (pcode (ppp_letter (pauli_of_code a) (pauli_of_code b)) =? c)%Z end) ppp_table = true.
Proof. exact ppp_table_model. Qed.
Print Assumptions C14_ppp_table_model.

(* the letter <-> matrix dictionary is the one of the working tree: cirq.unitary of the gate behind each index *)
Theorem C14_letter_matrix : forall {K} (O : Ops K), Laws O -> forall p, pauli_mat O p = letter_matrix O (pcode p).
Proof. exact @letter_matrix_model. Qed.
Print Assumptions C14_letter_matrix.

(* every row of the regenerated _imul_atom_helper table is a true equation between 2x2 matrices *)
Theorem C14_atom_table_sound : forall {K} (O : Ops K), PLaws O -> Forall (atom_row_ok O) atom_table.
Proof. exact @atom_table_sound. Qed.
Print Assumptions C14_atom_table_sound.

Theorem C14_pauli_mul_sound_1q : forall {K} (O : Ops K), PLaws O -> forall a b,
  mmul O (pauli_mat O a) (pauli_mat O b) = mscale O (ipow O (mul_phase a b)) (pauli_mat O (pxor a b)).
Proof. exact @pauli_mul_sound_1q. Qed.
Print Assumptions C14_pauli_mul_sound_1q.

(* ---- D1: products, any number of qubits, coefficient and phase included ---- *)
(* PauliString.__mul__ *)
Theorem C14_pauli_mul_sound : forall {K} (O : Ops K), PLaws O -> forall qs (a b : pstr),
  NoDup qs -> keys_ok qs (pm b) ->
  ps_matrix O qs (ps_mul O a b) = mmul O (ps_matrix O qs a) (ps_matrix O qs b).
Proof. exact @pauli_mul_sound. Qed.
Print Assumptions C14_pauli_mul_sound.

(* _imul_helper with sign -1 (inplace_left_multiply_by: self . other) and +1 (inplace_right_multiply_by, *=: other . self) *)
Theorem C14_imul_sound_right : forall {K} (O : Ops K), PLaws O -> forall qs (P Q : pstr),
  NoDup qs -> keys_ok qs (pm Q) ->
  ps_matrix O qs (imul O (-1) P Q) = mmul O (ps_matrix O qs P) (ps_matrix O qs Q).
Proof. exact @imul_sound_right. Qed.
Print Assumptions C14_imul_sound_right.

Theorem C14_imul_sound_left : forall {K} (O : Ops K), PLaws O -> forall qs (P Q : pstr),
  NoDup qs -> keys_ok qs (pm Q) ->
  ps_matrix O qs (imul O 1 P Q) = mmul O (ps_matrix O qs Q) (ps_matrix O qs P).
Proof. exact @imul_sound_left. Qed.
Print Assumptions C14_imul_sound_left.

(* mutable strings, any PAULI_STRING_LIKE atom: specified through the immutable product they implement *)
Theorem C14_mps_inplace_left_sound : forall {K} (O : Ops K) (L : PLaws O) qs (P : pstr) x,
  NoDup qs -> plike_ok qs x ->
  ps_matrix O qs (mps_inplace_left O P x) = mmul O (ps_matrix O qs P) (plike_matrix O qs x).
Proof. exact @mps_inplace_left_sound. Qed.
Print Assumptions C14_mps_inplace_left_sound.

Theorem C14_mps_inplace_right_sound : forall {K} (O : Ops K) (L : PLaws O) qs (P : pstr) x,
  NoDup qs -> plike_ok qs x ->
  ps_matrix O qs (mps_inplace_right O P x) = mmul O (plike_matrix O qs x) (ps_matrix O qs P).
Proof. exact @mps_inplace_right_sound. Qed.
Print Assumptions C14_mps_inplace_right_sound.

(* PauliString(contents..., qubit_pauli_map, coefficient): contents are right-multiplied in order *)
Theorem C14_contents_sound_right : forall {K} (O : Ops K) (L : PLaws O) qs (P : pstr) l,
  NoDup qs -> Forall (plike_ok qs) l ->
  ps_matrix O qs (imul_contents O (-1) P l)
  = mmul O (ps_matrix O qs P) (fold_left (fun M x => mmul O M (plike_matrix O qs x)) l (id_matrix O qs)).
Proof. exact @imul_contents_sound_right. Qed.
Print Assumptions C14_contents_sound_right.

Theorem C14_contents_sound_left : forall {K} (O : Ops K) (L : PLaws O) qs (P : pstr) l,
  NoDup qs -> Forall (plike_ok qs) l ->
  ps_matrix O qs (imul_contents O 1 P l)
  = mmul O (fold_left (fun M x => mmul O (plike_matrix O qs x) M) (rev l) (id_matrix O qs)) (ps_matrix O qs P).
Proof. exact @imul_contents_sound_left. Qed.
Print Assumptions C14_contents_sound_left.

(* the product keeps keys distinct and invents none (so products can be chained) *)
Theorem C14_ps_mul_keys_ok : forall {K} (O : Ops K) qs (t u : pstr),
  keys_ok qs (pm t) -> keys_ok qs (pm u) -> keys_ok qs (pm (ps_mul O t u)).
Proof. exact @ps_mul_keys_ok. Qed.
Print Assumptions C14_ps_mul_keys_ok.

(* dense strings: pauli_mask xor + _vectorized_pauli_mul_phase; shorter masks act as (...) (x) I *)
Theorem C14_dense_mul_sound : forall {K} (O : Ops K), PLaws O -> forall (a b : dstr),
  ds_matrix O (ds_mul O a b)
  = mmul O (dense_matrix O (dcoef a) (pad (length (dmask b)) (dmask a)))
           (dense_matrix O (dcoef b) (pad (length (dmask a)) (dmask b))).
Proof. exact @dense_mul_sound. Qed.
Print Assumptions C14_dense_mul_sound.

Theorem C14_dense_mul_sound_eqlen : forall {K} (O : Ops K), PLaws O -> forall (a b : dstr),
  length (dmask a) = length (dmask b) -> ds_matrix O (ds_mul O a b) = mmul O (ds_matrix O a) (ds_matrix O b).
Proof. exact @dense_mul_sound_eqlen. Qed.
Print Assumptions C14_dense_mul_sound_eqlen.

Theorem C14_dense_imul_sound : forall {K} (O : Ops K), PLaws O -> forall (a b r : dstr), ds_imul O a b = Some r ->
  ds_matrix O r = mmul O (ds_matrix O a) (dense_matrix O (dcoef b) (pad (length (dmask a)) (dmask b))).
Proof. exact @dense_imul_sound. Qed.
Print Assumptions C14_dense_imul_sound.

(* ---- D2: commutation tests decide the sign in P Q = +- Q P ---- *)
Theorem C14_pauli_commute_iff : forall {K} (O : Ops K), PLaws O -> forall qs (a b : pstr),
  NoDup qs -> keys_ok qs (pm a) -> no_I (pm a) -> no_I (pm b) ->
  (ps_commutes (pm a) (pm b) = true ->
     mmul O (ps_matrix O qs a) (ps_matrix O qs b) = mmul O (ps_matrix O qs b) (ps_matrix O qs a))
  /\ (ps_commutes (pm a) (pm b) = false ->
     mmul O (ps_matrix O qs a) (ps_matrix O qs b)
     = mscale O (kopp O (k1 O)) (mmul O (ps_matrix O qs b) (ps_matrix O qs a))).
Proof. exact @pauli_commute_iff. Qed.
Print Assumptions C14_pauli_commute_iff.

Theorem C14_dense_commute_iff : forall {K} (O : Ops K), PLaws O -> forall ca cb la lb, length la = length lb ->
  (ds_commutes la lb = true ->
     mmul O (dense_matrix O ca la) (dense_matrix O cb lb) = mmul O (dense_matrix O cb lb) (dense_matrix O ca la))
  /\ (ds_commutes la lb = false ->
     mmul O (dense_matrix O ca la) (dense_matrix O cb lb)
     = mscale O (kopp O (k1 O)) (mmul O (dense_matrix O cb lb) (dense_matrix O ca la))).
Proof. exact @ds_commute_iff. Qed.
Print Assumptions C14_dense_commute_iff.

(* converse: commuting matrices force the test to say so, unless 2 ca cb = 0 (then every product vanishes or char = 2) *)
Theorem C14_pauli_commute_conv : forall {K} (O : Ops K), PLaws O -> forall qs (a b : pstr),
  NoDup qs -> keys_ok qs (pm a) -> no_I (pm a) -> no_I (pm b) ->
  kadd O (kmul O (coef a) (coef b)) (kmul O (coef a) (coef b)) <> k0 O ->
  mmul O (ps_matrix O qs a) (ps_matrix O qs b) = mmul O (ps_matrix O qs b) (ps_matrix O qs a) ->
  ps_commutes (pm a) (pm b) = true.
Proof. exact @pauli_commute_conv. Qed.
Print Assumptions C14_pauli_commute_conv.

(* ---- D3: scalars, negation, squares and inverses, qubit remapping, dense <-> sparse, Pauli sums ---- *)
Theorem C14_ps_scale_sound : forall {K} (O : Ops K), PLaws O -> forall qs (a : pstr) c,
  ps_matrix O qs (ps_scale O a c) = mscale O c (ps_matrix O qs a).
Proof. exact @ps_scale_sound. Qed.
Print Assumptions C14_ps_scale_sound.

Theorem C14_ps_mul_num_sound : forall {K} (O : Ops K), PLaws O -> forall qs (a : pstr) c, NoDup qs ->
  ps_matrix O qs (ps_mul_num O a c) = mscale O c (ps_matrix O qs a).
Proof. exact @ps_mul_num_sound. Qed.
Print Assumptions C14_ps_mul_num_sound.

Theorem C14_ps_neg_sound : forall {K} (O : Ops K), PLaws O -> forall qs (a : pstr),
  ps_matrix O qs (ps_neg O a) = mscale O (kopp O (k1 O)) (ps_matrix O qs a).
Proof. exact @ps_neg_sound. Qed.
Print Assumptions C14_ps_neg_sound.

Theorem C14_ps_square : forall {K} (O : Ops K), PLaws O -> forall qs (a : pstr),
  mmul O (ps_matrix O qs a) (ps_matrix O qs a) = mscale O (kmul O (coef a) (coef a)) (id_matrix O qs).
Proof. exact @ps_square. Qed.
Print Assumptions C14_ps_square.

(* P ** -1 keeps the letters and inverts the coefficient *)
Theorem C14_ps_inverse : forall {K} (O : Ops K), PLaws O -> forall qs c cinv m, kmul O c cinv = k1 O ->
  mmul O (ps_matrix O qs (mkP cinv m)) (ps_matrix O qs (mkP c m)) = id_matrix O qs
  /\ mmul O (ps_matrix O qs (mkP c m)) (ps_matrix O qs (mkP cinv m)) = id_matrix O qs.
Proof. exact @ps_inverse. Qed.
Print Assumptions C14_ps_inverse.

Theorem C14_ps_map_qubits_sound : forall {K} (O : Ops K) f qs qs' (a a' : pstr),
  ps_map_qubits f a = Some a' -> map (assoc f) qs = map Some qs' ->
  (forall k q, In k (pm_keys (pm a)) -> In q qs -> assoc f k = assoc f q -> k = q) ->
  ps_matrix O qs' a' = ps_matrix O qs a.
Proof. exact @ps_map_qubits_sound. Qed.
Print Assumptions C14_ps_map_qubits_sound.

Theorem C14_ds_on_sound : forall {K} (O : Ops K) qs (d : dstr) (p : pstr),
  NoDup qs -> ds_on qs d = Some p -> ps_matrix O qs p = ds_matrix O d.
Proof. exact @ds_on_sound. Qed.
Print Assumptions C14_ds_on_sound.

Theorem C14_ps_dense_sound : forall {K} (O : Ops K) qs (a : pstr) (d : dstr),
  ps_dense qs a = Some d -> ds_matrix O d = ps_matrix O qs a.
Proof. exact @ps_dense_sound. Qed.
Print Assumptions C14_ps_dense_sound.

Theorem C14_paulisum_ring_hom : forall {K} (O : Ops K), PLaws O -> forall qs a b c,
  NoDup qs -> psum_ok qs a -> psum_ok qs b ->
  psum_matrix O qs (psum_add O a b) = madd O (psum_matrix O qs a) (psum_matrix O qs b)
  /\ psum_matrix O qs (psum_sub O a b) = madd O (psum_matrix O qs a) (mscale O (kopp O (k1 O)) (psum_matrix O qs b))
  /\ psum_matrix O qs (psum_scale O a c) = mscale O c (psum_matrix O qs a)
  /\ psum_matrix O qs (psum_mul O a b) = mmul O (psum_matrix O qs a) (psum_matrix O qs b).
Proof. exact @paulisum_ring_hom. Qed.
Print Assumptions C14_paulisum_ring_hom.

Theorem C14_psum_neg_sound : forall {K} (O : Ops K), PLaws O -> forall qs a,
  psum_matrix O qs (psum_neg O a) = mscale O (kopp O (k1 O)) (psum_matrix O qs a).
Proof. exact @psum_neg_sound. Qed.
Print Assumptions C14_psum_neg_sound.

(* ---- D5 (algebraic core of PauliStringPhasor): P.P = I makes { a I + b P } a commutative algebra; in the eigenvalue
   parametrisation phases multiply (exponents add), and (wn, wp) = (-1, +1) is P ---- *)
Theorem C14_phasor_algebra : forall {K} (O : Ops K), PLaws O -> forall l a b a' b',
  mmul O (lin_ip O l a b) (lin_ip O l a' b')
  = lin_ip O l (kadd O (kmul O a a') (kmul O b b')) (kadd O (kmul O a b') (kmul O b a')).
Proof. exact @phasor_algebra. Qed.
Print Assumptions C14_phasor_algebra.

Theorem C14_phasor_compose : forall {K} (O : Ops K), Laws O -> forall l wn wp wn' wp',
  mmul O (phasor_mat O l wn wp) (phasor_mat O l wn' wp') = phasor_mat O l (kmul O wn wn') (kmul O wp wp').
Proof. exact @phasor_compose. Qed.
Print Assumptions C14_phasor_compose.

Theorem C14_phasor_minus_one : forall {K} (O : Ops K), Laws O -> forall l,
  phasor_mat O l (kopp O (k1 O)) (k1 O) = dense_matrix O (k1 O) l.
Proof. exact @phasor_minus_one. Qed.
Print Assumptions C14_phasor_minus_one.

(* ---- histories of in-place operations on one mutable object (Cliff/PauliHist.v): whatever was observed of the
   object before, its state after a sequence of *= / /= steps has as matrix the same sequence of operations on the
   starting matrix; a rejected step (ValueError / IndexError) changes nothing; assignments replace exactly the
   addressed letters; the number of positions never changes ---- *)
Theorem C14_ds_step_accepts : forall {K} (O : Ops K) (a : dstr) (s : dstep),
  (exists r, ds_step O a s = Some r) <-> accepts (length (dmask a)) s = true.
Proof. exact @ds_step_accepts. Qed.
Print Assumptions C14_ds_step_accepts.

Theorem C14_ds_final_length : forall {K} (O : Ops K) (l : list dstep) (a : dstr),
  length (dmask (ds_final O a l)) = length (dmask a).
Proof. exact @ds_final_length. Qed.
Print Assumptions C14_ds_final_length.

Theorem C14_ds_step_sound : forall {K} (O : Ops K), PLaws O -> forall (a r : dstr) (s : dstep),
  algebraic s = true -> ds_step O a s = Some r ->
  ds_matrix O r = dstep_mat O (length (dmask a)) (ds_matrix O a) s.
Proof. exact @ds_step_sound. Qed.
Print Assumptions C14_ds_step_sound.

Theorem C14_ds_final_sound : forall {K} (O : Ops K), PLaws O -> forall (l : list dstep) (a : dstr),
  forallb algebraic l = true ->
  ds_matrix O (ds_final O a l) = fold_left (dstep_mat O (length (dmask a))) l (ds_matrix O a).
Proof. exact @ds_final_sound. Qed.
Print Assumptions C14_ds_final_sound.

Theorem C14_ds_trace_final : forall {K} (O : Ops K) (l : list dstep) (a : dstr),
  last (map snd (ds_trace O a l)) a = ds_final O a l.
Proof. exact @ds_trace_final. Qed.
Print Assumptions C14_ds_trace_final.

Theorem C14_ds_trace_prefix : forall {K} (O : Ops K) (l1 l2 : list dstep) (a : dstr),
  ds_trace O a (l1 ++ l2) = ds_trace O a l1 ++ ds_trace O (ds_final O a l1) l2.
Proof. exact @ds_trace_prefix. Qed.
Print Assumptions C14_ds_trace_prefix.

Theorem C14_ds_set_sound : forall {K} (O : Ops K) (a r : dstr) i p, ds_step O a (DSet i p) = Some r ->
  dcoef r = dcoef a /\ forall j, nth j (dmask r) pI = if Nat.eqb j i then p else nth j (dmask a) pI.
Proof. exact @ds_set_sound. Qed.
Print Assumptions C14_ds_set_sound.

Theorem C14_ds_slice_sound : forall {K} (O : Ops K) (a r : dstr) lo v, ds_step O a (DSlice lo v) = Some r ->
  dcoef r = dcoef a /\ forall j, nth j (dmask r) pI
    = if Nat.leb lo j && Nat.ltb j (lo + length v) then nth (j - lo) v pI else nth j (dmask a) pI.
Proof. exact @ds_slice_sound. Qed.
Print Assumptions C14_ds_slice_sound.

Theorem C14_psum_final_sound : forall {K} (O : Ops K), PLaws O -> forall qs (l : list sstep) (a : psum),
  forallb (slinear) l = true ->
  psum_matrix O qs (psum_final O a l) = fold_left (sstep_mat O qs) l (psum_matrix O qs a).
Proof. exact @psum_final_sound. Qed.
Print Assumptions C14_psum_final_sound.

Theorem C14_psum_trace_final : forall {K} (O : Ops K) (l : list sstep) (a : psum),
  last (psum_trace O a l) a = psum_final O a l.
Proof. exact @psum_trace_final. Qed.
Print Assumptions C14_psum_trace_final.

(* ---- the default register of a sum (PauliSum.qubits; used by matrix(), sparse_matrix(), with_qubits, PauliSumExponential
   when no qubits are given): strictly increasing, exactly the qubits of the terms, wide enough for every term; the product
   of two sums taken on the qubits of both operands is the product of the matrices ---- *)
Theorem C14_psum_support_sorted : forall {K} (s : psum (K:=K)), Sorted.Sorted Z.lt (psum_support s).
Proof. exact @psum_support_sorted. Qed.
Print Assumptions C14_psum_support_sorted.

Theorem C14_psum_support_nodup : forall {K} (s : psum (K:=K)), NoDup (psum_support s).
Proof. exact @psum_support_nodup. Qed.
Print Assumptions C14_psum_support_nodup.

Theorem C14_psum_support_in : forall {K} (s : psum (K:=K)) q,
  In q (psum_support s) <-> exists e, In e s /\ In q (pm_keys (fst e)).
Proof. exact @psum_support_in. Qed.
Print Assumptions C14_psum_support_in.

Theorem C14_psum_support_ok : forall {K} (s : psum (K:=K)),
  Forall (fun e => NoDup (pm_keys (fst e))) s -> psum_ok (psum_support s) s.
Proof. exact @psum_support_ok. Qed.
Print Assumptions C14_psum_support_ok.

Theorem C14_psum_mul_on_support : forall {K} (O : Ops K), PLaws O -> forall a b : psum (K:=K),
  Forall (fun e => NoDup (pm_keys (fst e))) (a ++ b) ->
  psum_matrix O (psum_support (a ++ b)) (psum_mul O a b)
  = mmul O (psum_matrix O (psum_support (a ++ b)) a) (psum_matrix O (psum_support (a ++ b)) b).
Proof. exact @psum_mul_on_support. Qed.
Print Assumptions C14_psum_mul_on_support.

(* the exact instance the correspondence run evaluates satisfies the hypotheses of every theorem above *)
Theorem C14_GQ_PLaws : PLaws GQOps.
Proof. exact GQ_PLaws. Qed.
Print Assumptions C14_GQ_PLaws.

(* ---- non-vacuity: concrete instances of the hypotheses, and the model computing a known product ---- *)
Example C14_ex_keys_ok : keys_ok [0; 1; 2]%Z [(2, pY); (0, pX)]%Z /\ NoDup [0; 1; 2]%Z /\ no_I [(2, pY); (0, pX)]%Z.
Proof.
  split; [split|split].
  - repeat constructor; simpl; intuition discriminate.
  - intros x [<-|[<-|[]]]; simpl; tauto.
  - repeat constructor; simpl; intuition discriminate.
  - intros e [<-|[<-|[]]]; discriminate.
Qed.
(* X(0) Y(1) * Y(0) Z(1) = (iZ)(iX) = -Z(0) X(1);  X*Y anticommute on one shared position *)
Example C14_ex_product :
  ps_eqb (ps_mul GQOps (mkP (gq 1 1 0 1) [(0, pX); (1, pY)]%Z) (mkP (gq 1 1 0 1) [(0, pY); (1, pZ)]%Z))
         (mkP (gq (-1) 1 0 1) [(0, pZ); (1, pX)]%Z) = true
  /\ ps_commutes [(0, pX)]%Z [(0, pY)]%Z = false /\ ps_commutes [(0, pX); (1, pY)]%Z [(0, pY); (1, pZ)]%Z = true.
Proof. vm_compute. repeat split. Qed.
Example C14_ex_ds_imul : exists r, ds_imul GQOps (mkD (gq 1 1 0 1) [pX; pY]) (mkD (gq 0 1 1 1) [pZ]) = Some r.
Proof. eexists. reflexivity. Qed.
Example C14_ex_map_qubits :
  ps_map_qubits [(0, 5); (1, 7)]%Z (mkP (gq 1 1 0 1) [(1, pZ); (0, pX)]%Z) = Some (mkP (gq 1 1 0 1) [(7, pZ); (5, pX)]%Z).
Proof. reflexivity. Qed.
Example C14_ex_nondegenerate :
  kadd GQOps (kmul GQOps (gq 1 1 0 1) (gq 0 1 1 2)) (kmul GQOps (gq 1 1 0 1) (gq 0 1 1 2)) <> k0 GQOps.
Proof. vm_compute. intros H. discriminate H. Qed.
(* a history: X Y, *= Z on the first position, a rejected *= by a longer string, *= i, [1] = Z *)
Example C14_ex_ds_history :
  dtrace_eqb (ds_trace GQOps (mkD (gq 1 1 0 1) [pX; pY])
                [DMul (mkD (gq 1 1 0 1) [pZ]); DMul (mkD (gq 1 1 0 1) [pX; pX; pX]); DScale (gq 0 1 1 1); DSet 1 pZ])
             [(true, mkD (gq 0 1 (-1) 1) [pY; pY]); (false, mkD (gq 0 1 (-1) 1) [pY; pY]);
              (true, mkD (gq 1 1 0 1) [pY; pY]); (true, mkD (gq 1 1 0 1) [pY; pZ])] = true
  /\ forallb (algebraic (K:=GQ)) [DMul (mkD (gq 1 1 0 1) [pZ]); DScale (gq 0 1 1 1)] = true
  /\ (exists r, ds_step GQOps (mkD (gq 1 1 0 1) [pX; pY]) (DSet 1 pZ) = Some r)
  /\ (exists r, ds_step GQOps (mkD (gq 1 1 0 1) [pX; pY]) (DSlice 0 [pZ; pZ]) = Some r)
  /\ forallb (slinear (K:=GQ)) [SAdd []; SScale (gq 2 1 0 1)] = true.
Proof. vm_compute. repeat split; eexists; reflexivity. Qed.
(* (X0 + Z0) *= Y1: the hypothesis of C14_psum_mul_on_support holds, the product reports both qubits, and a term whose
   coefficient cancelled no longer counts *)
Example C14_ex_psum_support :
  Forall (fun e => NoDup (pm_keys (fst e)))
         ([([(0, pX)], gq 1 1 0 1); ([(0, pZ)], gq 1 1 0 1)] ++ [([(1, pY)], gq 1 1 0 1)])%Z
  /\ psum_qubitsG (psum_mul GQOps [([(0, pX)], gq 1 1 0 1); ([(0, pZ)], gq 1 1 0 1)] [([(1, pY)], gq 1 1 0 1)])%Z = [0; 1]%Z
  /\ psum_qubitsG (psum_sub GQOps [([(0, pX)], gq 1 1 0 1); ([(1, pZ)], gq 1 1 0 1)] [([(1, pZ)], gq 1 1 0 1)])%Z = [0]%Z.
Proof. split; [repeat constructor; simpl; intuition discriminate|split; vm_compute; reflexivity]. Qed.
