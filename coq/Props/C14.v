(* C14 — deciding obligations. Statements only, closed by the lemmas proved in Cliff/PauliProofs.v. *)
From Coq Require Import List ZArith Bool.
From VF Require Import Base.RingOps Base.Mat Cliff.Pauli Cliff.PauliProofs Generated.PauliTables.
Import ListNotations.
Close Scope Z_scope.

(* the regenerated tables cover their whole finite domain and are the model's decision functions *)
Theorem C14_atom_table_domain :
  map (fun r => match r with (l, o, s, _, _) => (l, o, s) end) atom_table = atom_domain.
Proof. exact atom_table_domain. Qed.
Print Assumptions C14_atom_table_domain.

Theorem C14_atom_table_model :
  forallb (fun r => match r with (l, o, s, n, ret) =>
     (pcode (pxor (pauli_of_code l) (pauli_of_code o)) =? n)%Z
     && (atom_phase (pauli_of_code l) (pauli_of_code o) s =? ret)%Z end) atom_table = true.
Proof. exact atom_table_model. Qed.
Print Assumptions C14_atom_table_model.

(* every row of the regenerated _imul_atom_helper table is a true equation between 2x2 matrices, in any ring with i^2 = -1 *)
Theorem C14_atom_table_sound : forall {K} (O : Ops K), PLaws O -> Forall (atom_row_ok O) atom_table.
Proof. exact @atom_table_sound. Qed.
Print Assumptions C14_atom_table_sound.

Theorem C14_pauli_mul_sound_1q : forall {K} (O : Ops K), PLaws O -> forall a b,
  mmul O (pauli_mat O a) (pauli_mat O b) = mscale O (ipow O (mul_phase a b)) (pauli_mat O (pxor a b)).
Proof. exact @pauli_mul_sound_1q. Qed.
Print Assumptions C14_pauli_mul_sound_1q.
