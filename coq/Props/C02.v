(* C02 — deciding obligations (statements only). *)
From Coq Require Import List.
From VF Require Import Base.RingOps Base.Mat Base.Tensor Sim.Measure Sim.MeasureProofs Base.K8.
Import ListNotations.

(* Born rule bookkeeping: the masses of the outcome branches of a measurement add up to the mass of the
   measured branch (so the outcome probabilities are the squared norms of the projections and sum to one) *)
Theorem C02_measure_mass : forall K (O : Ops K), Laws O -> forall sh ax (psi : list K),
  length psi = length (enum sh) ->
  ksum O (map (fun v => norm2 O (project O sh ax v psi)) (enum (map (fun a => nth a sh 2) ax))) = norm2 O psi.
Proof. exact @measure_mass. Qed.
Print Assumptions C02_measure_mass.

(* projecting twice on the same outcome changes nothing; different outcomes are orthogonal (collapse) *)
Theorem C02_project_idem : forall K (O : Ops K) sh ax v (psi : list K),
  project O sh ax v (project O sh ax v psi) = project O sh ax v psi.
Proof. exact @project_idem. Qed.
Print Assumptions C02_project_idem.
Theorem C02_project_orth : forall K (O : Ops K) sh ax v w (psi : list K), v <> w ->
  length psi = length (enum sh) ->
  project O sh ax w (project O sh ax v psi) = map (fun _ => k0 O) psi.
Proof. exact @project_orth. Qed.
Print Assumptions C02_project_orth.

Theorem C02_laws_inhabited : Laws K8Ops.
Proof. exact K8Laws. Qed.
Print Assumptions C02_laws_inhabited.
