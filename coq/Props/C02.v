(* C02 — deciding obligations (statements only). *)
From Coq Require Import List.
From VF Require Import Base.RingOps Base.Mat Base.Tensor Sim.Measure Sim.MeasureProofs Base.K8.
Import ListNotations.

(* Born rule bookkeeping: the masses of the outcome branches of a measurement add up to the mass of the
   measured branch (so the outcome probabilities are the squared norms of the projections and sum to one) *)
Theorem C02_measure_mass : forall K (O : Ops K), Laws O -> forall sh ax (psi : list K),
  length psi = length (enum sh) ->
  ksum O (map (fun v => norm2 O (project O sh ax v psi)) (enum (map (fun a => nth a sh 2) ax))) = norm2 O psi.
Proof. exact @measure_mass. Qed.
Print Assumptions C02_measure_mass.

(* projecting twice on the same outcome changes nothing; different outcomes are orthogonal (collapse) *)
Theorem C02_project_idem : forall K (O : Ops K) sh ax v (psi : list K),
  project O sh ax v (project O sh ax v psi) = project O sh ax v psi.
Proof. exact @project_idem. Qed.
Print Assumptions C02_project_idem.
Theorem C02_project_orth : forall K (O : Ops K) sh ax v w (psi : list K), v <> w ->
  length psi = length (enum sh) ->
  project O sh ax w (project O sh ax v psi) = map (fun _ => k0 O) psi.
Proof. exact @project_orth. Qed.
Print Assumptions C02_project_orth.

Theorem C02_laws_inhabited : Laws K8Ops.
Proof. exact K8Laws. Qed.
Print Assumptions C02_laws_inhabited.

(* measuring qubit sets one after the other projects exactly as one joint measurement: the lemma behind the
   terminal-measurement fast path (one whole-system sample, columns extracted per measurement operation) *)
Theorem C02_seq_measure_joint : forall K (O : Ops K) sh ax1 ax2 v1 v2 (psi : list K), length v1 = length ax1 ->
  project O sh ax2 v2 (project O sh ax1 v1 psi) = project O sh (ax1 ++ ax2) (v1 ++ v2) psi.
Proof. exact @seq_measure_joint. Qed.
Print Assumptions C02_seq_measure_joint.
Theorem C02_project_comm : forall K (O : Ops K) sh ax1 ax2 v1 v2 (psi : list K),
  project O sh ax2 v2 (project O sh ax1 v1 psi) = project O sh ax1 v1 (project O sh ax2 v2 psi).
Proof. exact @project_comm. Qed.
Print Assumptions C02_project_comm.
(* a measurement step of the ensemble semantics conserves the probability mass of the branch it splits *)
Theorem C02_step_measure_mass : forall K (O : Ops K), Laws O -> forall sh key ax inv (b : branch (K:=K)),
  length (bpsi b) = length (enum sh) ->
  total_mass O (step O sh (MMeasure key ax inv []) b) = mass O b.
Proof. exact @step_measure_mass. Qed.
Print Assumptions C02_step_measure_mass.

(* ---- measuring one factor of a product state (Sim/KronStateProofs.v) ----
   projecting axes inside the first factor projects that factor only, and squared norms multiply: the outcome
   probabilities of a measurement inside one factor do not depend on the other factors (what the product-state
   simulator relies on when it measures and samples factor by factor) *)
From VF Require Import Sim.KronState Sim.KronStateProofs.
Theorem C02_tproject_tprod_first : forall K (O : Ops K), Laws O -> forall ax v n1 (p q : tensor (K:=K)),
  (forall a, In a ax -> a < n1) ->
  forall i, tproject O ax v (tprod O n1 p q) i = tprod O n1 (tproject O ax v p) q i.
Proof. exact @tproject_tprod_first. Qed.
Print Assumptions C02_tproject_tprod_first.
Theorem C02_tnorm2_tprod : forall K (O : Ops K), Laws O -> forall sh1 sh2 (p q : tensor (K:=K)),
  tnorm2 O (sh1 ++ sh2) (tprod O (length sh1) p q) = kmul O (tnorm2 O sh1 p) (tnorm2 O sh2 q).
Proof. exact @tnorm2_tprod. Qed.
Print Assumptions C02_tnorm2_tprod.
(* the function-tensor projection is the list projection of Sim/Measure.v *)
Theorem C02_project_tab : forall K (O : Ops K) sh ax v (psi : tensor (K:=K)),
  project O sh ax v (tab sh psi) = tab sh (tproject O ax v psi).
Proof. exact @project_tab. Qed.
Print Assumptions C02_project_tab.
