(* C02 — deciding obligations (statements only). *)
From Coq Require Import List.
From VF Require Import Base.RingOps Base.Mat Base.Tensor Sim.Measure Sim.MeasureProofs Base.K8.
Import ListNotations.

(* Born rule bookkeeping: the masses of the outcome branches of a measurement add up to the mass of the
   measured branch (so the outcome probabilities are the squared norms of the projections and sum to one) *)
Theorem C02_measure_mass : forall K (O : Ops K), Laws O -> forall sh ax (psi : list K),
  length psi = length (enum sh) ->
  ksum O (map (fun v => norm2 O (project O sh ax v psi)) (enum (map (fun a => nth a sh 2) ax))) = norm2 O psi.
Proof. exact @measure_mass. Qed.
Print Assumptions C02_measure_mass.

(* projecting twice on the same outcome changes nothing; different outcomes are orthogonal (collapse) *)
Theorem C02_project_idem : forall K (O : Ops K) sh ax v (psi : list K),
  project O sh ax v (project O sh ax v psi) = project O sh ax v psi.
Proof. exact @project_idem. Qed.
Print Assumptions C02_project_idem.
Theorem C02_project_orth : forall K (O : Ops K) sh ax v w (psi : list K), v <> w ->
  length psi = length (enum sh) ->
  project O sh ax w (project O sh ax v psi) = map (fun _ => k0 O) psi.
Proof. exact @project_orth. Qed.
Print Assumptions C02_project_orth.

Theorem C02_laws_inhabited : Laws K8Ops.
Proof. exact K8Laws. Qed.
Print Assumptions C02_laws_inhabited.

(* measuring qubit sets one after the other projects exactly as one joint measurement: the lemma behind the
   terminal-measurement fast path (one whole-system sample, columns extracted per measurement operation) *)
Theorem C02_seq_measure_joint : forall K (O : Ops K) sh ax1 ax2 v1 v2 (psi : list K), length v1 = length ax1 ->
  project O sh ax2 v2 (project O sh ax1 v1 psi) = project O sh (ax1 ++ ax2) (v1 ++ v2) psi.
Proof. exact @seq_measure_joint. Qed.
Print Assumptions C02_seq_measure_joint.
Theorem C02_project_comm : forall K (O : Ops K) sh ax1 ax2 v1 v2 (psi : list K),
  project O sh ax2 v2 (project O sh ax1 v1 psi) = project O sh ax1 v1 (project O sh ax2 v2 psi).
Proof. exact @project_comm. Qed.
Print Assumptions C02_project_comm.
(* a measurement step of the ensemble semantics conserves the probability mass of the branch it splits *)
Theorem C02_step_measure_mass : forall K (O : Ops K), Laws O -> forall sh key ax inv (b : branch (K:=K)),
  length (bpsi b) = length (enum sh) ->
  total_mass O (step O sh (MMeasure key ax inv []) b) = mass O b.
Proof. exact @step_measure_mass. Qed.
Print Assumptions C02_step_measure_mass.

(* ---- measuring one factor of a product state (Sim/KronStateProofs.v) ----
   projecting axes inside the first factor projects that factor only, and squared norms multiply: the outcome
   probabilities of a measurement inside one factor do not depend on the other factors (what the product-state
   simulator relies on when it measures and samples factor by factor) *)
From VF Require Import Sim.KronState Sim.KronStateProofs.
Theorem C02_tproject_tprod_first : forall K (O : Ops K), Laws O -> forall ax v n1 (p q : tensor (K:=K)),
  (forall a, In a ax -> a < n1) ->
  forall i, tproject O ax v (tprod O n1 p q) i = tprod O n1 (tproject O ax v p) q i.
Proof. exact @tproject_tprod_first. Qed.
Print Assumptions C02_tproject_tprod_first.
Theorem C02_tnorm2_tprod : forall K (O : Ops K), Laws O -> forall sh1 sh2 (p q : tensor (K:=K)),
  tnorm2 O (sh1 ++ sh2) (tprod O (length sh1) p q) = kmul O (tnorm2 O sh1 p) (tnorm2 O sh2 q).
Proof. exact @tnorm2_tprod. Qed.
Print Assumptions C02_tnorm2_tprod.
(* the function-tensor projection is the list projection of Sim/Measure.v *)
Theorem C02_project_tab : forall K (O : Ops K) sh ax v (psi : tensor (K:=K)),
  project O sh ax v (tab sh psi) = tab sh (tproject O ax v psi).
Proof. exact @project_tab. Qed.
Print Assumptions C02_project_tab.

(* ---- terminal measurements (Sim/TerminalMeasProofs.v): the simulators' fast path ----
   A circuit of gates followed by measurements only (invert masks, repeated keys and qudits allowed) gives exactly one
   branch per joint outcome: the projection of the final state; its probability is the squared norm of that projection
   (joint Born rule), and the probabilities add up to the norm of the final state. *)
From VF Require Import Sim.Ref Sim.ExecComm Sim.TerminalMeas Sim.TerminalMeasProofs Base.Trace.
Theorem C02_exec_terminal : forall K (O : Ops K), Laws O -> forall sh gs ms (init : list K),
  length init = length (enum sh) -> exec O sh (terminal_ops gs ms) init = terminal_ensemble O sh gs ms init.
Proof. exact @exec_terminal. Qed.
Print Assumptions C02_exec_terminal.
Theorem C02_exec_terminal_born : forall K (O : Ops K), Laws O -> forall sh gs ms (init : list K) vs,
  length init = length (enum sh) -> NoDup (map ms_key ms) -> In vs (joint_outcomes sh ms) ->
  keyrec_mass O (term_kvs sh ms vs) (exec O sh (terminal_ops gs ms) init) = born O sh gs ms init vs.
Proof. exact @exec_terminal_keyrec_mass. Qed.
Print Assumptions C02_exec_terminal_born.
Theorem C02_exec_terminal_total_mass : forall K (O : Ops K), Laws O -> forall sh gs ms (init : list K),
  length init = length (enum sh) ->
  total_mass O (exec O sh (terminal_ops gs ms) init) = norm2 O (circ_state O sh gs init).
Proof. exact @exec_terminal_total_mass. Qed.
Print Assumptions C02_exec_terminal_total_mass.
(* deferred measurement: when no later operation touches a measurement's qubits or key (terminal_b, a boolean evaluated
   on real circuits), the measurements can be moved to the end by exchanges of independent operations, so the circuit
   has the joint Born distribution of the final state of its gates - for every operation list, register shape and state *)
Theorem C02_defer_teq : forall K (ops : list (mop (K:=K))), terminal_b ops = true -> teq mop_dep ops (defer ops).
Proof. exact @defer_teq. Qed.
Print Assumptions C02_defer_teq.
Theorem C02_deferred_born : forall K (O : Ops K), Laws O -> forall sh ops (init : list K) vs,
  terminal_b ops = true -> simple_b ops = true -> Forall (mop_wf sh) ops -> length init = length (enum sh) ->
  NoDup (map ms_key (meas_of ops)) -> In vs (joint_outcomes sh (meas_of ops)) ->
  keyrec_mass O (term_kvs sh (meas_of ops) vs) (exec O sh ops init) = born O sh (gates_of ops) (meas_of ops) init vs.
Proof. exact @deferred_born. Qed.
Print Assumptions C02_deferred_born.
(* the condition is needed: measuring and then acting on the measured qubit is not its deferred form (exact witness) *)
Theorem C02_deferred_needs_terminal_refuted : exists sh ops (init : list K8) kvs,
  simple_b ops = true /\ Forall (mop_wf sh) ops /\ length init = length (enum sh) /\ terminal_b ops = false /\
  keyrec_mass K8Ops kvs (exec K8Ops sh ops init) <> keyrec_mass K8Ops kvs (exec K8Ops sh (defer ops) init).
Proof. exact deferred_needs_terminal_refuted. Qed.
Print Assumptions C02_deferred_needs_terminal_refuted.

(* ---- re-keying (Sim/Rekey.v): key maps, key-path prefixes and sub-circuit scoping rename keys without merging them ---- *)
From VF Require Import Sim.Rekey Sim.RekeyProofs.
Theorem C02_rekey_preserves_ensemble : forall K (O : Ops K) (f : nat -> nat), (forall a b, f a = f b -> a = b) ->
  forall sh ops init, exec O sh (map (ren_mop f) ops) init = map (ren_branch f) (exec O sh ops init).
Proof. exact @exec_rename. Qed.
Print Assumptions C02_rekey_preserves_ensemble.
Theorem C02_rekey_preserves_distribution : forall K (O : Ops K) (f : nat -> nat), (forall a b, f a = f b -> a = b) ->
  forall sh ops init r, rec_mass O (exec O sh (map (ren_mop f) ops) init) r = rec_mass O (exec O sh ops init) r.
Proof. exact @exec_rename_mass. Qed.
Print Assumptions C02_rekey_preserves_distribution.
Theorem C02_rekey_merging_keys_refuted : exists (g : nat -> nat),
  exec K8Ops [2; 2; 2] (map (ren_mop g) ex_merge_ops) ex_merge_init
  <> map (ren_branch g) (exec K8Ops [2; 2; 2] ex_merge_ops ex_merge_init).
Proof. exact rename_merging_keys_refuted. Qed.
Print Assumptions C02_rekey_merging_keys_refuted.
