(* C08 — deciding obligations (statements only). *)
From Coq Require Import List ZArith Qcanon.
From VF Require Import Base.RingOps Base.Mat Base.Tensor Base.K8 Gates.EigenGate Gates.GateSpecs Generated.EigenTables
  Gates.Families Gates.AlgebraProofs.
Import ListNotations.
Close Scope Qc_scope. Close Scope Q_scope.

(* powers add, for every pair of exponents and shifts: U(r1,g1) U(r2,g2) = U(r1 r2, g1 g2) *)
Theorem C08_pow_XPow : forall K (O : Ops K), Laws O -> forall r1 rc1 g1 r2 rc2 g2, pow_law O r1 rc1 g1 r2 rc2 g2 (tbl_XPow O).
Proof. exact @pow_XPow. Qed.
Print Assumptions C08_pow_XPow.
Theorem C08_pow_YPow : forall K (O : Ops K), Laws O -> forall r1 rc1 g1 r2 rc2 g2, pow_law O r1 rc1 g1 r2 rc2 g2 (tbl_YPow O).
Proof. exact @pow_YPow. Qed.
Print Assumptions C08_pow_YPow.
Theorem C08_pow_ZPow : forall K (O : Ops K), Laws O -> forall r1 rc1 g1 r2 rc2 g2, pow_law O r1 rc1 g1 r2 rc2 g2 (tbl_ZPow O).
Proof. exact @pow_ZPow. Qed.
Print Assumptions C08_pow_ZPow.
Theorem C08_pow_HPow : forall K (O : Ops K), Laws O -> forall r1 rc1 g1 r2 rc2 g2, pow_law O r1 rc1 g1 r2 rc2 g2 (tbl_HPow O).
Proof. exact @pow_HPow. Qed.
Print Assumptions C08_pow_HPow.
Theorem C08_pow_CZPow : forall K (O : Ops K), Laws O -> forall r1 rc1 g1 r2 rc2 g2, pow_law O r1 rc1 g1 r2 rc2 g2 (tbl_CZPow O).
Proof. exact @pow_CZPow. Qed.
Print Assumptions C08_pow_CZPow.
Theorem C08_pow_CXPow : forall K (O : Ops K), Laws O -> forall r1 rc1 g1 r2 rc2 g2, pow_law O r1 rc1 g1 r2 rc2 g2 (tbl_CXPow O).
Proof. exact @pow_CXPow. Qed.
Print Assumptions C08_pow_CXPow.
Theorem C08_pow_CYPow : forall K (O : Ops K), Laws O -> forall r1 rc1 g1 r2 rc2 g2, pow_law O r1 rc1 g1 r2 rc2 g2 (tbl_CYPow O).
Proof. exact @pow_CYPow. Qed.
Print Assumptions C08_pow_CYPow.
Theorem C08_pow_SwapPow : forall K (O : Ops K), Laws O -> forall r1 rc1 g1 r2 rc2 g2, pow_law O r1 rc1 g1 r2 rc2 g2 (tbl_SwapPow O).
Proof. exact @pow_SwapPow. Qed.
Print Assumptions C08_pow_SwapPow.
Theorem C08_pow_ISwapPow : forall K (O : Ops K), Laws O -> forall r1 rc1 g1 r2 rc2 g2, pow_law O r1 rc1 g1 r2 rc2 g2 (tbl_ISwapPow O).
Proof. exact @pow_ISwapPow. Qed.
Print Assumptions C08_pow_ISwapPow.
Theorem C08_pow_XXPow : forall K (O : Ops K), Laws O -> forall r1 rc1 g1 r2 rc2 g2, pow_law O r1 rc1 g1 r2 rc2 g2 (tbl_XXPow O).
Proof. exact @pow_XXPow. Qed.
Print Assumptions C08_pow_XXPow.
Theorem C08_pow_YYPow : forall K (O : Ops K), Laws O -> forall r1 rc1 g1 r2 rc2 g2, pow_law O r1 rc1 g1 r2 rc2 g2 (tbl_YYPow O).
Proof. exact @pow_YYPow. Qed.
Print Assumptions C08_pow_YYPow.
Theorem C08_pow_ZZPow : forall K (O : Ops K), Laws O -> forall r1 rc1 g1 r2 rc2 g2, pow_law O r1 rc1 g1 r2 rc2 g2 (tbl_ZZPow O).
Proof. exact @pow_ZZPow. Qed.
Print Assumptions C08_pow_ZZPow.

(* exponent 0 is the identity (with the power law: inverse undoes) *)
Theorem C08_pow0_XPow : forall K (O : Ops K), Laws O -> eig_unitary O (tbl_XPow O) (k1 O) (k1 O) (k1 O) = mid O 2.
Proof. exact @pow0_XPow. Qed.
Print Assumptions C08_pow0_XPow.
Theorem C08_pow0_HPow : forall K (O : Ops K), Laws O -> eig_unitary O (tbl_HPow O) (k1 O) (k1 O) (k1 O) = mid O 2.
Proof. exact @pow0_HPow. Qed.
Print Assumptions C08_pow0_HPow.
Theorem C08_pow0_CXPow : forall K (O : Ops K), Laws O -> eig_unitary O (tbl_CXPow O) (k1 O) (k1 O) (k1 O) = mid O 4.
Proof. exact @pow0_CXPow. Qed.
Print Assumptions C08_pow0_CXPow.
Theorem C08_pow0_ISwapPow : forall K (O : Ops K), Laws O -> eig_unitary O (tbl_ISwapPow O) (k1 O) (k1 O) (k1 O) = mid O 4.
Proof. exact @pow0_ISwapPow. Qed.
Print Assumptions C08_pow0_ISwapPow.

(* the controlled() overrides: controlling X^t, Y^t, Z^t, CZ^t, CX^t by one qubit at value 1 gives the named gate (shift 0) *)
Theorem C08_ctrl_X_is_CX : forall K (O : Ops K), Laws O -> forall r rc,
  ctrl_matrix O [2] [[1]] (eig_unitary O (tbl_XPow O) r rc (k1 O)) = eig_unitary O (tbl_CXPow O) r rc (k1 O).
Proof. exact @ctrl_X_is_CX. Qed.
Print Assumptions C08_ctrl_X_is_CX.
Theorem C08_ctrl_Y_is_CY : forall K (O : Ops K), Laws O -> forall r rc,
  ctrl_matrix O [2] [[1]] (eig_unitary O (tbl_YPow O) r rc (k1 O)) = eig_unitary O (tbl_CYPow O) r rc (k1 O).
Proof. exact @ctrl_Y_is_CY. Qed.
Print Assumptions C08_ctrl_Y_is_CY.
Theorem C08_ctrl_Z_is_CZ : forall K (O : Ops K), Laws O -> forall r rc,
  ctrl_matrix O [2] [[1]] (eig_unitary O (tbl_ZPow O) r rc (k1 O)) = eig_unitary O (tbl_CZPow O) r rc (k1 O).
Proof. exact @ctrl_Z_is_CZ. Qed.
Print Assumptions C08_ctrl_Z_is_CZ.
Theorem C08_ctrl_CZ_is_CCZ : forall K (O : Ops K), Laws O -> forall r rc,
  ctrl_matrix O [2] [[1]] (eig_unitary O (tbl_CZPow O) r rc (k1 O)) = eig_unitary O (tbl_CCZPow O) r rc (k1 O).
Proof. exact @ctrl_CZ_is_CCZ. Qed.
Print Assumptions C08_ctrl_CZ_is_CCZ.
Theorem C08_ctrl_CX_is_CCX : forall K (O : Ops K), Laws O -> forall r rc,
  ctrl_matrix O [2] [[1]] (eig_unitary O (tbl_CXPow O) r rc (k1 O)) = eig_unitary O (tbl_CCXPow O) r rc (k1 O).
Proof. exact @ctrl_CX_is_CCX. Qed.
Print Assumptions C08_ctrl_CX_is_CCX.

(* the zero-shift guard on those overrides is necessary: with a global shift the identity fails *)
Open Scope Qc_scope.
Theorem C08_ctrl_X_shift_refuted : exists r rc g : K8, kmul K8Ops r rc = k1 K8Ops /\
  ctrl_matrix K8Ops [2%nat] [[1%nat]] (eig_unitary K8Ops (tbl_XPow K8Ops) r rc g) <> eig_unitary K8Ops (tbl_CXPow K8Ops) r rc g.
Proof.
  exists (mk8 1 0 0 0), (mk8 1 0 0 0), (mk8 (-(1)) 0 0 0). split; [vm_compute; reflexivity|].
  intro H. apply (f_equal (fun m => c0 (mget K8Ops m 0 0))) in H. vm_compute in H. discriminate H.
Qed.
Print Assumptions C08_ctrl_X_shift_refuted.
Close Scope Qc_scope.

(* control of a product is the product of controls *)
Theorem C08_ctrl_mmul_1_1 : forall K (O : Ops K), Laws O -> forall a b c d a' b' c' d',
  ctrl_matrix O [2] [[1]] (mmul O [[a; b]; [c; d]] [[a'; b']; [c'; d']])
  = mmul O (ctrl_matrix O [2] [[1]] [[a; b]; [c; d]]) (ctrl_matrix O [2] [[1]] [[a'; b']; [c'; d']]).
Proof. exact @ctrl_mmul_1_1. Qed.
Print Assumptions C08_ctrl_mmul_1_1.
Theorem C08_ctrl_mmul_q3 : forall K (O : Ops K), Laws O -> forall a b c d a' b' c' d',
  ctrl_matrix O [3] [[1]; [2]] (mmul O [[a; b]; [c; d]] [[a'; b']; [c'; d']])
  = mmul O (ctrl_matrix O [3] [[1]; [2]] [[a; b]; [c; d]]) (ctrl_matrix O [3] [[1]; [2]] [[a'; b']; [c'; d']]).
Proof. exact @ctrl_mmul_q3. Qed.
Print Assumptions C08_ctrl_mmul_q3.

(* phasing a qubit conjugates by the Z rotation *)
Theorem C08_phase_by_X : forall K (O : Ops K), Laws O -> forall f fc r rc g, kmul O f fc = k1 O ->
  mmul O (mdiag O [k1 O; f]) (mmul O (spec_XPow O r rc g) (mdiag O [k1 O; fc])) = spec_PhasedX O f fc r rc g.
Proof. exact @phase_by_X. Qed.
Print Assumptions C08_phase_by_X.
Theorem C08_phase_by_Z : forall K (O : Ops K), Laws O -> forall f fc r rc g, kmul O f fc = k1 O ->
  mmul O (mdiag O [k1 O; f]) (mmul O (spec_ZPow O r rc g) (mdiag O [k1 O; fc])) = spec_ZPow O r rc g.
Proof. exact @phase_by_Z. Qed.
Print Assumptions C08_phase_by_Z.
Theorem C08_phase_by_CZ_q0 : forall K (O : Ops K), Laws O -> forall f fc r rc g, kmul O f fc = k1 O ->
  mmul O (mdiag O [k1 O; k1 O; f; f]) (mmul O (spec_CZPow O r rc g) (mdiag O [k1 O; k1 O; fc; fc])) = spec_CZPow O r rc g.
Proof. exact @phase_by_CZ_q0. Qed.
Print Assumptions C08_phase_by_CZ_q0.
