(* C08 — deciding obligations (statements only). *)
From Coq Require Import List ZArith Qcanon.
From VF Require Import Base.RingOps Base.Mat Base.Tensor Base.K8 Gates.EigenGate Gates.GateSpecs Generated.EigenTables
  Gates.Families Gates.AlgebraProofs.
Import ListNotations.
Close Scope Qc_scope. Close Scope Q_scope.

(* powers add, for every pair of exponents and shifts: U(r1,g1) U(r2,g2) = U(r1 r2, g1 g2) *)
Theorem C08_pow_XPow : forall K (O : Ops K), Laws O -> forall r1 rc1 g1 r2 rc2 g2, pow_law O r1 rc1 g1 r2 rc2 g2 (tbl_XPow O).
Proof. exact @pow_XPow. Qed.
Print Assumptions C08_pow_XPow.
Theorem C08_pow_YPow : forall K (O : Ops K), Laws O -> forall r1 rc1 g1 r2 rc2 g2, pow_law O r1 rc1 g1 r2 rc2 g2 (tbl_YPow O).
Proof. exact @pow_YPow. Qed.
Print Assumptions C08_pow_YPow.
Theorem C08_pow_ZPow : forall K (O : Ops K), Laws O -> forall r1 rc1 g1 r2 rc2 g2, pow_law O r1 rc1 g1 r2 rc2 g2 (tbl_ZPow O).
Proof. exact @pow_ZPow. Qed.
Print Assumptions C08_pow_ZPow.
Theorem C08_pow_HPow : forall K (O : Ops K), Laws O -> forall r1 rc1 g1 r2 rc2 g2, pow_law O r1 rc1 g1 r2 rc2 g2 (tbl_HPow O).
Proof. exact @pow_HPow. Qed.
Print Assumptions C08_pow_HPow.
Theorem C08_pow_CZPow : forall K (O : Ops K), Laws O -> forall r1 rc1 g1 r2 rc2 g2, pow_law O r1 rc1 g1 r2 rc2 g2 (tbl_CZPow O).
Proof. exact @pow_CZPow. Qed.
Print Assumptions C08_pow_CZPow.
Theorem C08_pow_CXPow : forall K (O : Ops K), Laws O -> forall r1 rc1 g1 r2 rc2 g2, pow_law O r1 rc1 g1 r2 rc2 g2 (tbl_CXPow O).
Proof. exact @pow_CXPow. Qed.
Print Assumptions C08_pow_CXPow.
Theorem C08_pow_CYPow : forall K (O : Ops K), Laws O -> forall r1 rc1 g1 r2 rc2 g2, pow_law O r1 rc1 g1 r2 rc2 g2 (tbl_CYPow O).
Proof. exact @pow_CYPow. Qed.
Print Assumptions C08_pow_CYPow.
Theorem C08_pow_SwapPow : forall K (O : Ops K), Laws O -> forall r1 rc1 g1 r2 rc2 g2, pow_law O r1 rc1 g1 r2 rc2 g2 (tbl_SwapPow O).
Proof. exact @pow_SwapPow. Qed.
Print Assumptions C08_pow_SwapPow.
Theorem C08_pow_ISwapPow : forall K (O : Ops K), Laws O -> forall r1 rc1 g1 r2 rc2 g2, pow_law O r1 rc1 g1 r2 rc2 g2 (tbl_ISwapPow O).
Proof. exact @pow_ISwapPow. Qed.
Print Assumptions C08_pow_ISwapPow.
Theorem C08_pow_XXPow : forall K (O : Ops K), Laws O -> forall r1 rc1 g1 r2 rc2 g2, pow_law O r1 rc1 g1 r2 rc2 g2 (tbl_XXPow O).
Proof. exact @pow_XXPow. Qed.
Print Assumptions C08_pow_XXPow.
Theorem C08_pow_YYPow : forall K (O : Ops K), Laws O -> forall r1 rc1 g1 r2 rc2 g2, pow_law O r1 rc1 g1 r2 rc2 g2 (tbl_YYPow O).
Proof. exact @pow_YYPow. Qed.
Print Assumptions C08_pow_YYPow.
Theorem C08_pow_ZZPow : forall K (O : Ops K), Laws O -> forall r1 rc1 g1 r2 rc2 g2, pow_law O r1 rc1 g1 r2 rc2 g2 (tbl_ZZPow O).
Proof. exact @pow_ZZPow. Qed.
Print Assumptions C08_pow_ZZPow.

(* exponent 0 is the identity (with the power law: inverse undoes) *)
Theorem C08_pow0_XPow : forall K (O : Ops K), Laws O -> eig_unitary O (tbl_XPow O) (k1 O) (k1 O) (k1 O) = mid O 2.
Proof. exact @pow0_XPow. Qed.
Print Assumptions C08_pow0_XPow.
Theorem C08_pow0_HPow : forall K (O : Ops K), Laws O -> eig_unitary O (tbl_HPow O) (k1 O) (k1 O) (k1 O) = mid O 2.
Proof. exact @pow0_HPow. Qed.
Print Assumptions C08_pow0_HPow.
Theorem C08_pow0_CXPow : forall K (O : Ops K), Laws O -> eig_unitary O (tbl_CXPow O) (k1 O) (k1 O) (k1 O) = mid O 4.
Proof. exact @pow0_CXPow. Qed.
Print Assumptions C08_pow0_CXPow.
Theorem C08_pow0_ISwapPow : forall K (O : Ops K), Laws O -> eig_unitary O (tbl_ISwapPow O) (k1 O) (k1 O) (k1 O) = mid O 4.
Proof. exact @pow0_ISwapPow. Qed.
Print Assumptions C08_pow0_ISwapPow.

(* the controlled() overrides: controlling X^t, Y^t, Z^t, CZ^t, CX^t by one qubit at value 1 gives the named gate (shift 0) *)
Theorem C08_ctrl_X_is_CX : forall K (O : Ops K), Laws O -> forall r rc,
  ctrl_matrix O [2] [[1]] (eig_unitary O (tbl_XPow O) r rc (k1 O)) = eig_unitary O (tbl_CXPow O) r rc (k1 O).
Proof. exact @ctrl_X_is_CX. Qed.
Print Assumptions C08_ctrl_X_is_CX.
Theorem C08_ctrl_Y_is_CY : forall K (O : Ops K), Laws O -> forall r rc,
  ctrl_matrix O [2] [[1]] (eig_unitary O (tbl_YPow O) r rc (k1 O)) = eig_unitary O (tbl_CYPow O) r rc (k1 O).
Proof. exact @ctrl_Y_is_CY. Qed.
Print Assumptions C08_ctrl_Y_is_CY.
Theorem C08_ctrl_Z_is_CZ : forall K (O : Ops K), Laws O -> forall r rc,
  ctrl_matrix O [2] [[1]] (eig_unitary O (tbl_ZPow O) r rc (k1 O)) = eig_unitary O (tbl_CZPow O) r rc (k1 O).
Proof. exact @ctrl_Z_is_CZ. Qed.
Print Assumptions C08_ctrl_Z_is_CZ.
Theorem C08_ctrl_CZ_is_CCZ : forall K (O : Ops K), Laws O -> forall r rc,
  ctrl_matrix O [2] [[1]] (eig_unitary O (tbl_CZPow O) r rc (k1 O)) = eig_unitary O (tbl_CCZPow O) r rc (k1 O).
Proof. exact @ctrl_CZ_is_CCZ. Qed.
Print Assumptions C08_ctrl_CZ_is_CCZ.
Theorem C08_ctrl_CX_is_CCX : forall K (O : Ops K), Laws O -> forall r rc,
  ctrl_matrix O [2] [[1]] (eig_unitary O (tbl_CXPow O) r rc (k1 O)) = eig_unitary O (tbl_CCXPow O) r rc (k1 O).
Proof. exact @ctrl_CX_is_CCX. Qed.
Print Assumptions C08_ctrl_CX_is_CCX.

(* the zero-shift guard on those overrides is necessary: with a global shift the identity fails *)
Open Scope Qc_scope.
Theorem C08_ctrl_X_shift_refuted : exists r rc g : K8, kmul K8Ops r rc = k1 K8Ops /\
  ctrl_matrix K8Ops [2%nat] [[1%nat]] (eig_unitary K8Ops (tbl_XPow K8Ops) r rc g) <> eig_unitary K8Ops (tbl_CXPow K8Ops) r rc g.
Proof.
  exists (mk8 1 0 0 0), (mk8 1 0 0 0), (mk8 (-(1)) 0 0 0). split; [vm_compute; reflexivity|].
  intro H. apply (f_equal (fun m => c0 (mget K8Ops m 0 0))) in H. vm_compute in H. discriminate H.
Qed.
Print Assumptions C08_ctrl_X_shift_refuted.
Close Scope Qc_scope.

(* control of a product is the product of controls *)
Theorem C08_ctrl_mmul_1_1 : forall K (O : Ops K), Laws O -> forall a b c d a' b' c' d',
  ctrl_matrix O [2] [[1]] (mmul O [[a; b]; [c; d]] [[a'; b']; [c'; d']])
  = mmul O (ctrl_matrix O [2] [[1]] [[a; b]; [c; d]]) (ctrl_matrix O [2] [[1]] [[a'; b']; [c'; d']]).
Proof. exact @ctrl_mmul_1_1. Qed.
Print Assumptions C08_ctrl_mmul_1_1.
Theorem C08_ctrl_mmul_q3 : forall K (O : Ops K), Laws O -> forall a b c d a' b' c' d',
  ctrl_matrix O [3] [[1]; [2]] (mmul O [[a; b]; [c; d]] [[a'; b']; [c'; d']])
  = mmul O (ctrl_matrix O [3] [[1]; [2]] [[a; b]; [c; d]]) (ctrl_matrix O [3] [[1]; [2]] [[a'; b']; [c'; d']]).
Proof. exact @ctrl_mmul_q3. Qed.
Print Assumptions C08_ctrl_mmul_q3.

(* phasing a qubit conjugates by the Z rotation *)
Theorem C08_phase_by_X : forall K (O : Ops K), Laws O -> forall f fc r rc g, kmul O f fc = k1 O ->
  mmul O (mdiag O [k1 O; f]) (mmul O (spec_XPow O r rc g) (mdiag O [k1 O; fc])) = spec_PhasedX O f fc r rc g.
Proof. exact @phase_by_X. Qed.
Print Assumptions C08_phase_by_X.
Theorem C08_phase_by_Z : forall K (O : Ops K), Laws O -> forall f fc r rc g, kmul O f fc = k1 O ->
  mmul O (mdiag O [k1 O; f]) (mmul O (spec_ZPow O r rc g) (mdiag O [k1 O; fc])) = spec_ZPow O r rc g.
Proof. exact @phase_by_Z. Qed.
Print Assumptions C08_phase_by_Z.
Theorem C08_phase_by_CZ_q0 : forall K (O : Ops K), Laws O -> forall f fc r rc g, kmul O f fc = k1 O ->
  mmul O (mdiag O [k1 O; k1 O; f; f]) (mmul O (spec_CZPow O r rc g) (mdiag O [k1 O; k1 O; fc; fc])) = spec_CZPow O r rc g.
Proof. exact @phase_by_CZ_q0. Qed.
Print Assumptions C08_phase_by_CZ_q0.

(* ---- control-value specifications (control_values.py): expand / & / | / validate / equality / is_trivial ---- *)
From Coq Require Import Bool.
From VF Require Import Sim.CtrlApply Gates.CtrlValues Gates.CtrlValuesProofs.
Open Scope bool_scope.
Theorem C08_cv_expand_selects_product_of_sums : forall s c, cactive (pos_expand s) c = pos_active s c.
Proof. exact pos_expand_active. Qed.
Print Assumptions C08_cv_expand_selects_product_of_sums.
Theorem C08_cv_and_shortcut_is_general_and : forall a b, pos_expand (pos_and a b) = sop_and (pos_expand a) (pos_expand b).
Proof. exact pos_and_expand. Qed.
Print Assumptions C08_cv_and_shortcut_is_general_and.
Theorem C08_cv_and_active : forall a b n c, (forall x, In x a -> length x = n) ->
  cactive (sop_and a b) c = cactive a (firstn n c) && cactive b (skipn n c).
Proof. exact sop_and_active. Qed.
Print Assumptions C08_cv_and_active.
Theorem C08_cv_or_active : forall a b c, cactive (sop_or a b) c = cactive a c || cactive b c.
Proof. exact sop_or_active. Qed.
Print Assumptions C08_cv_or_active.
Theorem C08_cv_pos_or_contains_union : forall a b c, length a = length b ->
  pos_active a c || pos_active b c = true -> pos_active (pos_or a b) c = true.
Proof. exact pos_or_contains. Qed.
Print Assumptions C08_cv_pos_or_contains_union.
Theorem C08_cv_pos_or_one_qudit : forall va vb c, pos_active (pos_or [va] [vb]) c = pos_active [va] c || pos_active [vb] c.
Proof. exact pos_or_one_qudit. Qed.
Print Assumptions C08_cv_pos_or_one_qudit.
(* the ProductOfSums short-cut of `|` is not the documented union (finding cv:or:pos-pos-multi-qudit) *)
Theorem C08_cv_pos_or_is_union_refuted : exists a b c, length a = length b /\
  pos_active (pos_or a b) c = true /\ pos_active a c || pos_active b c = false.
Proof. exact pos_or_is_union_refuted. Qed.
Print Assumptions C08_cv_pos_or_is_union_refuted.
Theorem C08_cv_validate_pos_sound : forall s shape c, length s = length shape -> pos_valid s shape = true ->
  pos_active s c = true -> digits_lt c shape = true.
Proof. exact pos_valid_sound. Qed.
Print Assumptions C08_cv_validate_pos_sound.
Theorem C08_cv_validate_pos_complete : forall s shape, length s = length shape ->
  (forall c, pos_active s c = true -> digits_lt c shape = true) -> (forall vs, In vs s -> vs <> []) -> pos_valid s shape = true.
Proof. exact pos_valid_complete. Qed.
Print Assumptions C08_cv_validate_pos_complete.
Theorem C08_cv_validate_sop_sound : forall a shape c, sop_valid a shape = true -> cactive a c = true -> digits_lt c shape = true.
Proof. exact sop_valid_sound. Qed.
Print Assumptions C08_cv_validate_sop_sound.
Theorem C08_cv_equal_iff_same_selection : forall a b, cv_same a b = true <-> (forall c, cactive a c = cactive b c).
Proof. exact cv_same_iff. Qed.
Print Assumptions C08_cv_equal_iff_same_selection.
Theorem C08_cv_equal_same_block_matrix : forall K (O : Ops K) cdims a b m,
  (forall c, cactive a c = cactive b c) -> ctrl_matrix O cdims a m = ctrl_matrix O cdims b m.
Proof. exact cv_same_ctrl_matrix. Qed.
Print Assumptions C08_cv_equal_same_block_matrix.
Theorem C08_cv_trivial_is_all_ones : forall s c, pos_trivial s = true -> pos_active s c = list_eqb_nat c (repeat 1 (length s)).
Proof. exact pos_trivial_active. Qed.
Print Assumptions C08_cv_trivial_is_all_ones.
Example C08_cv_example : cv_same (pos_expand (pos_and [[0; 1]; [2]] [[1]])) [[0; 2; 1]; [1; 2; 1]] = true
  /\ pos_valid [[0; 1]; [2]] [2; 3] = true /\ pos_valid [[0; 1]; [2]] [2; 2] = false.
Proof. vm_compute. auto. Qed.
