(* C04 — deciding obligations (statements only). *)
From Coq Require Import List ZArith.
From VF Require Import Base.RingOps Base.Mat Base.Tensor Base.TensorProofs Gates.EigenGate Gates.GateSpecs Generated.EigenTables
  Gates.Families Gates.AlgebraProofs Gates.DecompProofs Sim.Buffers.
Import ListNotations.

(* in-place application on any axes is the matrix action: linear, and independent of the order of disjoint operations *)
Theorem C04_apply_linear : forall K (O : Ops K), Laws O ->
  forall U d ax (p q : tensor (K:=K)) c i,
  apply O U d ax (fun j => kadd O (kmul O c (p j)) (q j)) i
  = kadd O (kmul O c (apply O U d ax p i)) (apply O U d ax q i).
Proof. exact @apply_linear. Qed.
Print Assumptions C04_apply_linear.
Theorem C04_apply_commute_disjoint : forall K (O : Ops K), Laws O ->
  forall U V d1 d2 a1 a2 (psi : tensor (K:=K)), (forall x, In x a1 -> ~ In x a2) ->
  forall i, apply O U d1 a1 (apply O V d2 a2 psi) i = apply O V d2 a2 (apply O U d1 a1 psi) i.
Proof. exact @apply_commute_disjoint. Qed.
Print Assumptions C04_apply_commute_disjoint.

(* controlled wrappers: control of a product (a decomposition) is the product of the controlled pieces *)
Theorem C04_ctrl_mmul_1_1 : forall K (O : Ops K), Laws O -> forall a b c d a' b' c' d',
  ctrl_matrix O [2] [[1]] (mmul O [[a; b]; [c; d]] [[a'; b']; [c'; d']])
  = mmul O (ctrl_matrix O [2] [[1]] [[a; b]; [c; d]]) (ctrl_matrix O [2] [[1]] [[a'; b']; [c'; d']]).
Proof. exact @ctrl_mmul_1_1. Qed.
Print Assumptions C04_ctrl_mmul_1_1.
Theorem C04_ctrl_mmul_0_1 : forall K (O : Ops K), Laws O -> forall a b c d a' b' c' d',
  ctrl_matrix O [2] [[0]] (mmul O [[a; b]; [c; d]] [[a'; b']; [c'; d']])
  = mmul O (ctrl_matrix O [2] [[0]] [[a; b]; [c; d]]) (ctrl_matrix O [2] [[0]] [[a'; b']; [c'; d']]).
Proof. exact @ctrl_mmul_0_1. Qed.
Print Assumptions C04_ctrl_mmul_0_1.

(* standard decompositions as identities over the regenerated tables *)
Theorem C04_swap_is_three_cnots : forall K (O : Ops K), Laws O ->
  mmul O (CNOTm O) (mmul O (CNOTrev O) (CNOTm O)) = SWAPm O.
Proof. exact @swap_is_three_cnots. Qed.
Print Assumptions C04_swap_is_three_cnots.
Theorem C04_cz_is_h_cnot_h : forall K (O : Ops K), Laws O ->
  mmul O (kron O (mid O 2) (Hm O)) (mmul O (CNOTm O) (kron O (mid O 2) (Hm O))) = CZm O.
Proof. exact @cz_is_h_cnot_h. Qed.
Print Assumptions C04_cz_is_h_cnot_h.
Theorem C04_h_is_involution : forall K (O : Ops K), Laws O -> mmul O (Hm O) (Hm O) = mid O 2.
Proof. exact @h_is_involution. Qed.
Print Assumptions C04_h_is_involution.
