(* C04 — deciding obligations (statements only). *)
From Coq Require Import List ZArith.
From VF Require Import Base.RingOps Base.Mat Base.Tensor Base.TensorProofs Gates.EigenGate Gates.GateSpecs Generated.EigenTables
  Gates.Families Gates.AlgebraProofs Gates.DecompProofs Sim.Buffers.
Import ListNotations.

(* in-place application on any axes is the matrix action: linear, and independent of the order of disjoint operations *)
Theorem C04_apply_linear : forall K (O : Ops K), Laws O ->
  forall U d ax (p q : tensor (K:=K)) c i,
  apply O U d ax (fun j => kadd O (kmul O c (p j)) (q j)) i
  = kadd O (kmul O c (apply O U d ax p i)) (apply O U d ax q i).
Proof. exact @apply_linear. Qed.
Print Assumptions C04_apply_linear.
Theorem C04_apply_commute_disjoint : forall K (O : Ops K), Laws O ->
  forall U V d1 d2 a1 a2 (psi : tensor (K:=K)), (forall x, In x a1 -> ~ In x a2) ->
  forall i, apply O U d1 a1 (apply O V d2 a2 psi) i = apply O V d2 a2 (apply O U d1 a1 psi) i.
Proof. exact @apply_commute_disjoint. Qed.
Print Assumptions C04_apply_commute_disjoint.

(* controlled wrappers: control of a product (a decomposition) is the product of the controlled pieces *)
Theorem C04_ctrl_mmul_1_1 : forall K (O : Ops K), Laws O -> forall a b c d a' b' c' d',
  ctrl_matrix O [2] [[1]] (mmul O [[a; b]; [c; d]] [[a'; b']; [c'; d']])
  = mmul O (ctrl_matrix O [2] [[1]] [[a; b]; [c; d]]) (ctrl_matrix O [2] [[1]] [[a'; b']; [c'; d']]).
Proof. exact @ctrl_mmul_1_1. Qed.
Print Assumptions C04_ctrl_mmul_1_1.
Theorem C04_ctrl_mmul_0_1 : forall K (O : Ops K), Laws O -> forall a b c d a' b' c' d',
  ctrl_matrix O [2] [[0]] (mmul O [[a; b]; [c; d]] [[a'; b']; [c'; d']])
  = mmul O (ctrl_matrix O [2] [[0]] [[a; b]; [c; d]]) (ctrl_matrix O [2] [[0]] [[a'; b']; [c'; d']]).
Proof. exact @ctrl_mmul_0_1. Qed.
Print Assumptions C04_ctrl_mmul_0_1.

(* standard decompositions as identities over the regenerated tables *)
Theorem C04_swap_is_three_cnots : forall K (O : Ops K), Laws O ->
  mmul O (CNOTm O) (mmul O (CNOTrev O) (CNOTm O)) = SWAPm O.
Proof. exact @swap_is_three_cnots. Qed.
Print Assumptions C04_swap_is_three_cnots.
Theorem C04_cz_is_h_cnot_h : forall K (O : Ops K), Laws O ->
  mmul O (kron O (mid O 2) (Hm O)) (mmul O (CNOTm O) (kron O (mid O 2) (Hm O))) = CZm O.
Proof. exact @cz_is_h_cnot_h. Qed.
Print Assumptions C04_cz_is_h_cnot_h.
Theorem C04_h_is_involution : forall K (O : Ops K), Laws O -> mmul O (Hm O) (Hm O) = mid O 2.
Proof. exact @h_is_involution. Qed.
Print Assumptions C04_h_is_involution.

(* ---- controlled application (Sim/CtrlApplyProofs.v): how Cirq applies a ControlledGate / controlled_by operation ----
   It never builds the big matrix: it applies the sub-gate to the slice of the state in which the control qudits hold one
   of the control-value tuples and leaves the rest alone (capply).  That IS the action of the documented block matrix,
   for any number and dimension of controls and targets and any sum-of-products control values ... *)
From VF Require Import Gates.Families Sim.CtrlApply Sim.CtrlApplyProofs.
Theorem C04_apply_ctrl_matrix : forall K (O : Ops K), Laws O -> forall cdims cvals dims (M : matrix (K:=K)) cax ax psi i,
  sq (size dims) M -> Forall2 lt (gets i cax) cdims -> Forall2 lt (gets i ax) dims ->
  apply O (mat_of O (cdims ++ dims) (ctrl_matrix O cdims cvals M)) (cdims ++ dims) (cax ++ ax) psi i
  = capply O (mat_of O dims M) dims ax cax cvals psi i.
Proof. exact @apply_ctrl_matrix. Qed.
Print Assumptions C04_apply_ctrl_matrix.
(* ... the loop over the control-value tuples that _apply_unitary_ runs is that one-pass slice application when the
   tuples are distinct (SumOfProducts deduplicates them) ... *)
Theorem C04_capply_loop_eq : forall K (O : Ops K) U dims ax cax cvals, NoDup cvals -> (forall x, In x ax -> ~ In x cax) ->
  forall psi i, capply_loop O U dims ax cax cvals psi i = capply O U dims ax cax cvals psi i.
Proof. exact @capply_loop_eq. Qed.
Print Assumptions C04_capply_loop_eq.
(* ... control of a composition is the composition of the controls, on states and on matrices ... *)
Theorem C04_capply_mcomp : forall K (O : Ops K), Laws O -> forall U V dims ax cax cvals (psi : tensor (K:=K)) i,
  (forall x, In x ax -> ~ In x cax) -> NoDup ax -> (forall a, In a ax -> a < length i) -> length ax = length dims ->
  capply O (mcomp O dims U V) dims ax cax cvals psi i = capply O U dims ax cax cvals (capply O V dims ax cax cvals psi) i.
Proof. exact @capply_mcomp. Qed.
Print Assumptions C04_capply_mcomp.
Theorem C04_cmat_mcomp : forall K (O : Ops K), Laws O -> forall (U V : mat (K:=K)) cdims dims cvals r c,
  Forall2 lt (firstn (length cdims) r) cdims ->
  (cactive cvals (firstn (length cdims) r) = false -> Forall2 lt (skipn (length cdims) r) dims) ->
  cmat O (length cdims) cvals (mcomp O dims U V) r c
  = mcomp O (cdims ++ dims) (cmat O (length cdims) cvals U) (cmat O (length cdims) cvals V) r c.
Proof. exact @cmat_mcomp. Qed.
Print Assumptions C04_cmat_mcomp.
(* ... and a controlled operation commutes with anything on other axes *)
Theorem C04_capply_commute_apply : forall K (O : Ops K), Laws O -> forall U V dims ax cax cvals d2 a2 (psi : tensor (K:=K)) i,
  (forall x, In x a2 -> ~ In x (cax ++ ax)) ->
  capply O U dims ax cax cvals (apply O V d2 a2 psi) i = apply O V d2 a2 (capply O U dims ax cax cvals psi) i.
Proof. exact @capply_commute_apply. Qed.
Print Assumptions C04_capply_commute_apply.

(* ---- application to subspaces of wider axes (Sim/SubspaceApply.v): ApplyUnitaryArgs.subspaces ---- *)
From VF Require Import Base.K8 Sim.CtrlApply Sim.SubspaceApply Sim.SubspaceApplyProofs.
Theorem C04_subspace_outside_untouched : forall K (O : Ops K) U ax subs (psi : tensor (K:=K)) i,
  poss subs (gets i ax) = None -> sapply O U ax subs psi i = psi i.
Proof. intros. apply sapply_outside. assumption. Qed.
Print Assumptions C04_subspace_outside_untouched.
Theorem C04_subspace_full_is_apply : forall K (O : Ops K) U dims ax (psi : tensor (K:=K)) i, Forall2 lt (gets i ax) dims ->
  sapply O U ax (full_subs dims) psi i = apply O U dims ax psi i.
Proof. exact @sapply_full. Qed.
Print Assumptions C04_subspace_full_is_apply.
(* a product of gates on the subspace = the gates one after the other on the subspace: running a decomposition on the slice is sound *)
Theorem C04_subspace_product : forall K (O : Ops K), Laws O -> forall ax subs, NoDup ax -> (forall s, In s subs -> NoDup s) ->
  length subs = length ax -> forall U V (psi : tensor (K:=K)) i, (forall a, In a ax -> a < length i) ->
  sapply O (mcomp O (sub_dims subs) U V) ax subs psi i = sapply O U ax subs (sapply O V ax subs psi) i.
Proof. exact @sapply_mcomp. Qed.
Print Assumptions C04_subspace_product.
Theorem C04_ignoring_subspaces_refuted :
  sapply K8Ops ex_Xf [0] [[1; 2]] ex_psi3 [1] <> sapply K8Ops ex_Xf [0] [[0; 1]] ex_psi3 [1].
Proof. exact sapply_ignoring_subspaces_refuted. Qed.
Print Assumptions C04_ignoring_subspaces_refuted.
