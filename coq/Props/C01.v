(* C01 — deciding obligations (statements only). *)
From Coq Require Import List.
From VF Require Import Base.RingOps Base.Mat Base.Tensor.
Import ListNotations.

(* placeholder-free: the first obligation is the fold structure of the reference semantics:
   running a concatenation is running the parts in order (so the result is the ordered product). *)
Theorem C01_run_app : forall K (O : Ops K) sh (a b : list (rop (K:=K))) l,
  run_tab O sh (a ++ b) l = run_tab O sh b (run_tab O sh a l).
Proof. intros. unfold run_tab. apply fold_left_app. Qed.
Print Assumptions C01_run_app.
