(* C01 — deciding obligations (statements only, closed by lemmas proved elsewhere). *)
From Coq Require Import List.
From VF Require Import Base.RingOps Base.Mat Base.Tensor Base.TensorProofs Base.K8 Sim.Buffers.
Import ListNotations.

(* running a concatenation is running the parts in order: the result is the ordered product *)
Theorem C01_run_app : forall K (O : Ops K) sh (a b : list (rop (K:=K))) l,
  run_tab O sh (a ++ b) l = run_tab O sh b (run_tab O sh a l).
Proof. intros. unfold run_tab. apply fold_left_app. Qed.
Print Assumptions C01_run_app.

(* operations on disjoint axes commute — any rank, any dimensions, any index *)
Theorem C01_apply_commute_disjoint : forall K (O : Ops K), Laws O ->
  forall U V d1 d2 a1 a2 (psi : tensor (K:=K)), (forall x, In x a1 -> ~ In x a2) ->
  forall i, apply O U d1 a1 (apply O V d2 a2 psi) i = apply O V d2 a2 (apply O U d1 a1 psi) i.
Proof. exact @apply_commute_disjoint. Qed.
Print Assumptions C01_apply_commute_disjoint.

(* hence the order inside a moment is irrelevant: adjacent independent operations may be swapped *)
Theorem C01_run_swap_adjacent : forall K (O : Ops K), Laws O ->
  forall l1 a b l2 (psi : tensor (K:=K)), disjoint_ops a b ->
  forall i, run O (l1 ++ a :: b :: l2) psi i = run O (l1 ++ b :: a :: l2) psi i.
Proof. exact @run_swap_adjacent. Qed.
Print Assumptions C01_run_swap_adjacent.

(* every operation acts linearly on the state (so its matrix determines it) *)
Theorem C01_apply_linear : forall K (O : Ops K), Laws O ->
  forall U d ax (p q : tensor (K:=K)) c i,
  apply O U d ax (fun j => kadd O (kmul O c (p j)) (q j)) i
  = kadd O (kmul O c (apply O U d ax p i)) (apply O U d ax q i).
Proof. exact @apply_linear. Qed.
Print Assumptions C01_apply_linear.

(* the buffer-swapping loop of cirq.apply_unitaries returns the ordered product for every choice each
   kernel makes between writing in place, into the scratch buffer or into a fresh array *)
Theorem C01_buffers_refine_run : forall (T cell : Type) (cell_eqb : cell -> cell -> bool),
  (forall a b, cell_eqb a b = true <-> a = b) ->
  forall fs ks (m : mem T cell), Forall2 (kernel_ok T cell) fs ks -> state m <> buffer m ->
  at_ (loop T cell cell_eqb ks m) (state (loop T cell cell_eqb ks m)) = fold_left (fun x f => f x) fs (at_ m (state m))
  /\ state (loop T cell cell_eqb ks m) <> buffer (loop T cell cell_eqb ks m).
Proof. exact buffers_refine_run. Qed.
Print Assumptions C01_buffers_refine_run.

(* the ring laws assumed above are satisfiable: the exact instance Q(zeta_8) *)
Theorem C01_laws_inhabited : Laws K8Ops.
Proof. exact K8Laws. Qed.
Print Assumptions C01_laws_inhabited.

(* the slicing kernels (`_apply_unitary_` fast paths) equal the matrix action of the documented matrix at
   exponent 1 with global-shift factor p, on any axis of any tensor *)
From VF Require Import Gates.GateSpecs Sim.Kernels Sim.KernelProofs.
Theorem C01_kernel_X_sound : forall K (O : Ops K), Laws O -> forall p a (psi : tensor (K:=K)) i,
  a < length i -> get i a < 2 ->
  kernel_X O p a psi i = apply O (mat_of O [2] (spec_XPow O (ki O) (kopp O (ki O)) p)) [2] [a] psi i.
Proof. exact @kernel_X_sound. Qed.
Print Assumptions C01_kernel_X_sound.
Theorem C01_kernel_Y_sound : forall K (O : Ops K), Laws O -> forall p a (psi : tensor (K:=K)) i,
  a < length i -> get i a < 2 ->
  kernel_Y O p a psi i = apply O (mat_of O [2] (spec_YPow O (ki O) (kopp O (ki O)) p)) [2] [a] psi i.
Proof. exact @kernel_Y_sound. Qed.
Print Assumptions C01_kernel_Y_sound.
Theorem C01_kernel_Z_sound : forall K (O : Ops K), Laws O -> forall p a (psi : tensor (K:=K)) i,
  a < length i -> get i a < 2 -> forall r rc,
  kernel_Z O (kmul O r r) p a psi i = apply O (mat_of O [2] (spec_ZPow O r rc p)) [2] [a] psi i.
Proof. exact @kernel_Z_sound. Qed.
Print Assumptions C01_kernel_Z_sound.
Theorem C01_kernel_H_sound : forall K (O : Ops K), Laws O -> forall p a (psi : tensor (K:=K)) i,
  a < length i -> get i a < 2 ->
  kernel_H O p a psi i = apply O (mat_of O [2] (spec_HPow O (ki O) (kopp O (ki O)) p)) [2] [a] psi i.
Proof. exact @kernel_H_sound. Qed.
Print Assumptions C01_kernel_H_sound.
Theorem C01_kernel_CZ_sound : forall K (O : Ops K), Laws O -> forall p a0 a1 (psi : tensor (K:=K)) i,
  a0 < length i -> a1 < length i -> a0 <> a1 -> get i a0 < 2 -> get i a1 < 2 -> forall r rc,
  kernel_CZ O (kmul O r r) p a0 a1 psi i = apply O (mat_of O [2; 2] (spec_CZPow O r rc p)) [2; 2] [a0; a1] psi i.
Proof. exact @kernel_CZ_sound. Qed.
Print Assumptions C01_kernel_CZ_sound.
Theorem C01_kernel_CX_sound : forall K (O : Ops K), Laws O -> forall p a0 a1 (psi : tensor (K:=K)) i,
  a0 < length i -> a1 < length i -> a0 <> a1 -> get i a0 < 2 -> get i a1 < 2 ->
  kernel_CX O p a0 a1 psi i = apply O (mat_of O [2; 2] (spec_CXPow O (ki O) (kopp O (ki O)) p)) [2; 2] [a0; a1] psi i.
Proof. exact @kernel_CX_sound. Qed.
Print Assumptions C01_kernel_CX_sound.

(* the tabulated tensors that are actually executed refine the function semantics the theorems speak about *)
From VF Require Import Base.TabProofs.
Theorem C01_untab_tab : forall K (O : Ops K) sh (psi : tensor (K:=K)) i, Forall2 lt i sh ->
  untab O sh (tab sh psi) i = psi i.
Proof. exact @untab_tab. Qed.
Print Assumptions C01_untab_tab.
Theorem C01_apply_tab_refines : forall K (O : Ops K) (M : matrix (K:=K)) dims ax sh l i, Forall2 lt i sh ->
  untab O sh (apply_tab O M dims ax sh l) i = apply O (mat_of O dims M) dims ax (untab O sh l) i.
Proof. exact @apply_tab_refines. Qed.
Print Assumptions C01_apply_tab_refines.

(* ---- product states (Sim/KronStateProofs.v): why split_untangled_states may keep independent factors ----
   An operation whose axes lie in one factor of a product state acts on that factor only; so a run whose operations each
   lie in one factor is the product of the two separate runs. *)
From VF Require Import Sim.KronState Sim.KronStateProofs.
Theorem C01_apply_tprod_first : forall K (O : Ops K), Laws O -> forall U dims ax n1 (p q : tensor (K:=K)),
  (forall a, In a ax -> a < n1) ->
  forall i, apply O U dims ax (tprod O n1 p q) i = tprod O n1 (apply O U dims ax p) q i.
Proof. exact @apply_tprod_first. Qed.
Print Assumptions C01_apply_tprod_first.
Theorem C01_apply_tprod_second : forall K (O : Ops K), Laws O -> forall U dims ax n1 (p q : tensor (K:=K)) i,
  apply O U dims (shift_ax n1 ax) (tprod O n1 p q) i = tprod O n1 p (apply O U dims ax q) i.
Proof. exact @apply_tprod_second. Qed.
Print Assumptions C01_apply_tprod_second.
Theorem C01_run_tprod : forall K (O : Ops K), Laws O -> forall n1 (ops : list (rop (K:=K))),
  factored n1 ops = true ->
  forall p q i, run O ops (tprod O n1 p q) i = tprod O n1 (run O (ops_first n1 ops) p) (run O (ops_second n1 ops) q) i.
Proof. exact @run_tprod. Qed.
Print Assumptions C01_run_tprod.

(* ---- the remaining slicing fast paths (Sim/Kernels2Proofs.v): each `_apply_unitary_` kernel, modelled statement by
   statement (subspace_index slices, buffers, final multiplication by the global-shift phase p), IS the action of the
   documented matrix on the chosen axes, for every register size, axis placement and initial buffer content ---- *)
From VF Require Import Gates.GateSpecs Gates.Families Sim.Kernels2 Sim.Kernels2Proofs Sim.Classical Sim.ClassicalProofs Sim.Permute Sim.PermuteProofs.
Theorem C01_kernel_SWAP_sound : forall K (O : Ops K), Laws O -> forall a0 a1 (psi buf : tensor (K:=K)) i,
  a0 < length i -> a1 < length i -> a0 <> a1 -> get i a0 < 2 -> get i a1 < 2 -> forall p,
  kernel_SWAP O buf p a0 a1 psi i = apply O (mat_of O [2; 2] (spec_SwapPow O (ki O) (kopp O (ki O)) p)) [2; 2] [a0; a1] psi i.
Proof. exact @kernel_SWAP_sound. Qed.
Print Assumptions C01_kernel_SWAP_sound.
Theorem C01_kernel_ISWAP_sound : forall K (O : Ops K), Laws O -> forall a0 a1 (psi buf : tensor (K:=K)) i,
  a0 < length i -> a1 < length i -> a0 <> a1 -> get i a0 < 2 -> get i a1 < 2 -> forall p,
  kernel_ISWAP O buf p a0 a1 psi i = apply O (mat_of O [2; 2] (spec_ISwapPow O (ki O) (kopp O (ki O)) p)) [2; 2] [a0; a1] psi i.
Proof. exact @kernel_ISWAP_sound. Qed.
Print Assumptions C01_kernel_ISWAP_sound.
Theorem C01_kernel_CCZ_sound : forall K (O : Ops K), Laws O -> forall a0 a1 a2 (psi : tensor (K:=K)) i,
  a0 < length i -> a1 < length i -> a2 < length i -> a0 <> a1 -> a0 <> a2 -> a1 <> a2 ->
  get i a0 < 2 -> get i a1 < 2 -> get i a2 < 2 -> forall r rc p,
  kernel_CCZ O (kmul O r r) p a0 a1 a2 psi i = apply O (mat_of O [2; 2; 2] (spec_CCZPow O r rc p)) [2; 2; 2] [a0; a1; a2] psi i.
Proof. exact @kernel_CCZ_sound. Qed.
Print Assumptions C01_kernel_CCZ_sound.
Theorem C01_kernel_CCX_sound : forall K (O : Ops K), Laws O -> forall a0 a1 a2 (psi : tensor (K:=K)) i,
  a0 < length i -> a1 < length i -> a2 < length i -> a0 <> a1 -> a0 <> a2 -> a1 <> a2 ->
  get i a0 < 2 -> get i a1 < 2 -> get i a2 < 2 -> forall r rc p,
  kernel_CC1 O (apply O (mat_of O [2] (spec_XPow O r rc (k1 O))) [2] [a2]) p a0 a1 psi i
  = apply O (mat_of O [2; 2; 2] (spec_CCXPow O r rc p)) [2; 2; 2] [a0; a1; a2] psi i.
Proof. exact @kernel_CCX_sound. Qed.
Print Assumptions C01_kernel_CCX_sound.
Theorem C01_kernel_CSWAP_sound : forall K (O : Ops K), Laws O -> forall a0 a1 a2 (psi buf : tensor (K:=K)) i,
  a0 < length i -> a1 < length i -> a2 < length i -> a0 <> a1 -> a0 <> a2 -> a1 <> a2 ->
  get i a0 < 2 -> get i a1 < 2 -> get i a2 < 2 ->
  kernel_CSWAP buf a0 a1 a2 psi i = apply O (mat_of O [2; 2; 2] (spec_CSwap O)) [2; 2; 2] [a0; a1; a2] psi i.
Proof. exact @kernel_CSWAP_sound. Qed.
Print Assumptions C01_kernel_CSWAP_sound.
Theorem C01_kernel_FSim_sound : forall K (O : Ops K), Laws O -> forall a0 a1 (psi : tensor (K:=K)) i,
  a0 < length i -> a1 < length i -> a0 <> a1 -> get i a0 < 2 -> get i a1 < 2 -> forall (th ph : bool) u uc v vc,
  (th = false -> u = k1 O /\ uc = k1 O) -> (ph = false -> vc = k1 O) ->
  kernel_FSim O th ph u uc vc a0 a1 psi i = apply O (mat_of O [2; 2] (spec_FSim O u uc v vc)) [2; 2] [a0; a1] psi i.
Proof. exact @kernel_FSim_sound. Qed.
Print Assumptions C01_kernel_FSim_sound.
Theorem C01_kernel_Zd_sound : forall K (O : Ops K), Laws O -> forall w p d a (psi : tensor (K:=K)) i, get i a < d ->
  kernel_Zd O (fun k => kpow O w k) p d a psi i = apply O (mat_of O [d] (spec_ZdPow O d w p)) [d] [a] psi i.
Proof. exact @kernel_Zd_sound. Qed.
Print Assumptions C01_kernel_Zd_sound.
Theorem C01_kernel_DiagN_sound : forall K (O : Ops K), Laws O -> forall ds ax (psi : tensor (K:=K)) i,
  length ds = Nat.pow 2 (length ax) -> Forall2 lt (gets i ax) (repeat 2 (length ax)) ->
  kernel_Diag O ds ax psi i = apply O (mat_of O (repeat 2 (length ax)) (spec_Diagonal O ds)) (repeat 2 (length ax)) ax psi i.
Proof. exact @kernel_DiagN_sound. Qed.
Print Assumptions C01_kernel_DiagN_sound.
Theorem C01_kernel_Perm_sound : forall K (O : Ops K), Laws O -> forall perm ax (psi : tensor (K:=K)) j,
  NoDup perm -> (forall p, In p perm -> p < length perm) -> length ax = length perm ->
  Forall2 lt (gets j ax) (repeat 2 (length perm)) ->
  kernel_Perm perm ax psi j = apply O (mat_of O (repeat 2 (length perm)) (perm_matrix O perm)) (repeat 2 (length perm)) ax psi j.
Proof. exact @kernel_Perm_sound. Qed.
Print Assumptions C01_kernel_Perm_sound.

(* ---- the classical basis-state simulator (Sim/ClassicalProofs.v): whenever its update rule accepts an operation, the
   documented matrix maps the tracked basis state to a phase times the updated basis state - for every register size,
   axis placement and control-value set; lifted to operation lists ---- *)
Theorem C01_classical_tracks : forall K (O : Ops K), Laws O -> forall o b b',
  classical_step o b = Some b' -> cop_ok O (length b) o -> bits b -> forall i, cop_at o i ->
  qstep O o b (basis_tensor O b) i = kmul O (cop_phase O o b) (basis_tensor O b' i).
Proof. exact @classical_tracks. Qed.
Print Assumptions C01_classical_tracks.
Theorem C01_classical_run_tracks : forall K (O : Ops K), Laws O -> forall n ops b b',
  classical_run ops b = Some b' -> Forall (cop_ok O n) ops -> Forall cop_qubit ops -> length b = n -> bits b ->
  forall i, Forall2 lt i (repeat 2 n) ->
  qrun O ops b (basis_tensor O b) i = kmul O (run_phase O ops b) (basis_tensor O b' i).
Proof. exact @classical_run_tracks. Qed.
Print Assumptions C01_classical_run_tracks.
(* the even-exponent identity test is right for qubits only: for a 4-level X an even exponent is not the identity (exact
   witness; the defect this exposed in /repo - the test ignored XPowGate.dimension - is repaired) *)
Theorem C01_is_identity_ignores_dimension_refuted :
  let r := kopp K8Ops (k1 K8Ops) in kmul K8Ops r r = k1 K8Ops /\
  exists i, apply K8Ops (mat_of K8Ops [4] (spec_X4Pow K8Ops r r (k1 K8Ops))) [4] [0] (basis_tensor K8Ops [0]) i
            <> kmul K8Ops (k1 K8Ops) (basis_tensor K8Ops [0] i).
Proof. exact is_identity_ignores_dimension_refuted. Qed.
Print Assumptions C01_is_identity_ignores_dimension_refuted.

(* ---- axis permutations (Sim/PermuteProofs.v): qubit_order arguments and transpose_to_qubit_order ---- *)
Theorem C01_apply_permute : forall K (O : Ops K) U dims pi ax' (psi : tensor (K:=K)) i,
  NoDup pi -> (forall a, In a ax' -> a < length pi) -> (forall p, In p pi -> p < length i) ->
  apply O U dims (gets pi ax') (tperm pi psi) i = tperm pi (apply O U dims ax' psi) i.
Proof. exact @apply_permute. Qed.
Print Assumptions C01_apply_permute.
Theorem C01_run_permute : forall K (O : Ops K) pi (ops : list (rop (K:=K))) psi i,
  NoDup pi -> (forall p, In p pi -> p < length i) ->
  (forall o, In o ops -> forall a, In a (rop_ax o) -> a < length pi) ->
  run O (map (rop_relabel pi) ops) (tperm pi psi) i = tperm pi (run O ops psi) i.
Proof. exact @run_permute. Qed.
Print Assumptions C01_run_permute.

(* ---- repeated sub-circuits and the SWAP relabelling short-cut (Sim/SubBlock.v) ---- *)
From VF Require Import Sim.CtrlApply Sim.SubBlock Sim.SubBlockProofs Gates.GateSpecs Gates.EigenGate Generated.EigenTables.
(* r written-out copies of a block = the block iterated r times *)
Theorem C01_run_repeat : forall K (O : Ops K) sh (ops : list (rop (K:=K))) r l,
  run_tab O sh (concat (repeat ops r)) l = Nat.iter r (run_tab O sh ops) l.
Proof. exact @run_repeat_tab. Qed.
Print Assumptions C01_run_repeat.
(* CircuitOperation._unitary_'s one-qudit fast path: matrix_power(ordered product with the scalars folded in, n) acts as n runs of the block *)
Theorem C01_block_fast_path_sound : forall K (O : Ops K), Laws O -> forall sh ax, NoDup ax -> (forall a, In a ax -> a < length sh) ->
  forall ps n (psi : tensor (K:=K)) i, Forall2 lt i sh ->
  apply O (mpow_f O (adims sh ax) (fold_pieces O (adims sh ax) ps) n) (adims sh ax) ax psi i
  = Nat.iter n (run_pieces O (adims sh ax) ax ps) psi i.
Proof. exact @block_fast_path_sound. Qed.
Print Assumptions C01_block_fast_path_sound.
Theorem C01_block_phase_outside_power_refuted : exists (ps : list (piece (K:=K8))) n r q,
  phase_outside K8Ops [2] ps n r q <> mpow_f K8Ops [2] (fold_pieces K8Ops [2] ps) n r q.
Proof. exact phase_outside_refuted. Qed.
Print Assumptions C01_block_phase_outside_power_refuted.
(* SwapPowGate at an odd exponent is (global phase) * SWAP, in the documented closed form and in the regenerated eigen table ... *)
Theorem C01_swap_pow_odd : forall K (O : Ops K), Laws O -> forall r rc g, kmul O r rc = k1 O -> kmul O r r = kopp O (k1 O) ->
  spec_SwapPow O r rc g = mscale O g (SWAPm O) /\ eig_unitary O (tbl_SwapPow O) r rc g = mscale O g (SWAPm O).
Proof. intros K O L r rc g Hu Ho. split; [exact (swap_pow_odd O L r rc g Hu Ho) | exact (swap_pow_odd_table O L r rc g Hu Ho)]. Qed.
Print Assumptions C01_swap_pow_odd.
(* ... so it exchanges the two target digits and multiplies by the global phase: relabelling the factors is exact iff that phase is 1 *)
Theorem C01_swap_pow_odd_relabels : forall K (O : Ops K), Laws O -> forall r rc g, kmul O r rc = k1 O -> kmul O r r = kopp O (k1 O) ->
  forall a0 a1 (psi : tensor (K:=K)) i, a0 < length i -> a1 < length i -> a0 <> a1 -> get i a0 < 2 -> get i a1 < 2 ->
  apply O (mat_of O [2; 2] (spec_SwapPow O r rc g)) [2; 2] [a0; a1] psi i = kmul O g (psi (upd (upd i a0 (get i a1)) a1 (get i a0))).
Proof. exact @swap_pow_odd_relabels. Qed.
Print Assumptions C01_swap_pow_odd_relabels.
Theorem C01_swap_relabel_phase_refuted : exists r rc g : K8,
  kmul K8Ops r rc = k1 K8Ops /\ kmul K8Ops r r = kopp K8Ops (k1 K8Ops) /\ spec_SwapPow K8Ops r rc g <> SWAPm K8Ops.
Proof. exact swap_relabel_phase_refuted. Qed.
Print Assumptions C01_swap_relabel_phase_refuted.
