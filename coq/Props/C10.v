(* C10 — deciding obligations. Statements only, closed by the lemmas proved elsewhere. *)
From Coq Require Import String ZArith QArith List Bool.
From VF Require Import Codec.Sweeps Codec.SweepsProofs Codec.Resolver Codec.ResolverProofs.
Import ListNotations.
Local Open Scope nat_scope.

(* ================= sweeps (D3): length, iteration, indexing and slicing tell the same story ================= *)
Theorem C10_sweep_len_iter : forall s, length (iter s) = len s.
Proof. exact sweep_len_iter. Qed.
Print Assumptions C10_sweep_len_iter.

(* sweep[i] for -n <= i < n is the (i mod n)-th element of the iteration; outside that range it is an IndexError *)
Theorem C10_sweep_getitem : forall s (i : Z) d,
  (- Z.of_nat (len s) <= i < Z.of_nat (len s))%Z ->
  getitem s i = Some (nth (Z.to_nat (i mod Z.of_nat (len s))) (iter s) d).
Proof. exact sweep_getitem. Qed.
Print Assumptions C10_sweep_getitem.

Theorem C10_sweep_getitem_out_of_range : forall s (i : Z),
  (i < - Z.of_nat (len s) \/ Z.of_nat (len s) <= i)%Z <-> getitem s i = None.
Proof. exact sweep_getitem_out_of_range. Qed.
Print Assumptions C10_sweep_getitem_out_of_range.

(* the dictionary walk of Sweep.__getitem__(slice) = ListSweep of the positions range(len)[slice], in slice order *)
Theorem C10_sweep_slice : forall s sl s',
  getslice s sl = Some s' ->
  exists idxs, slice_indices (len s) sl = Some idxs /\
               s' = ListSweep (pick [] (iter s) idxs) /\
               iter s' = pick [] (iter s) idxs /\ len s' = length idxs.
Proof. exact sweep_slice. Qed.
Print Assumptions C10_sweep_slice.

Theorem C10_sweep_slice_zero_step : forall s sl, getslice s sl = None <-> sl_step sl = Some 0%Z.
Proof. exact sweep_slice_zero_step. Qed.
Print Assumptions C10_sweep_slice_zero_step.

Theorem C10_slice_indices_prefix : forall n a b, a <= b <= n ->
  slice_indices n (mkSlice (Some (Z.of_nat a)) (Some (Z.of_nat b)) None) = Some (seq a (b - a)).
Proof. exact slice_indices_prefix. Qed.
Print Assumptions C10_slice_indices_prefix.

Theorem C10_sweep_slice_all : forall s, getslice s (mkSlice None None None) = Some (ListSweep (iter s)).
Proof. exact sweep_slice_all. Qed.
Print Assumptions C10_sweep_slice_all.

(* Product is the lexicographic product, the last factor varying fastest *)
Theorem C10_product_lex : forall s l i j,
  i < len s -> j < len (Product l) ->
  nth (i * len (Product l) + j) (iter (Product (s :: l))) [] = nth i (iter s) [] ++ nth j (iter (Product l)) [].
Proof. exact product_lex. Qed.
Print Assumptions C10_product_lex.

(* Zip stops with its shortest factor and pairs the i-th elements *)
Theorem C10_zip_prefix : forall l i, i < len (Zip l) ->
  nth i (iter (Zip l)) [] = concat (map (fun s => nth i (iter s) []) l).
Proof. exact zip_prefix. Qed.
Print Assumptions C10_zip_prefix.

Theorem C10_zip_len_shortest : forall l s, In s l -> len (Zip l) <= len s.
Proof. exact zip_len_shortest. Qed.
Print Assumptions C10_zip_len_shortest.

(* ZipLongest repeats the last value of the shorter factors *)
Theorem C10_ziplongest_repeats_last : forall l i,
  (forall s, In s l -> 0 < len s) -> i < len (ZipLongest l) ->
  nth i (iter (ZipLongest l)) [] = concat (map (fun s => nth (Nat.min i (len s - 1)) (iter s) []) l).
Proof. exact ziplongest_repeats_last. Qed.
Print Assumptions C10_ziplongest_repeats_last.

Theorem C10_concat_app : forall s l, iter (Concat (s :: l)) = iter s ++ iter (Concat l).
Proof. exact concat_app. Qed.
Print Assumptions C10_concat_app.

(* Linspace: start, ..., stop, equally spaced (exact rationals) *)
Theorem C10_linspace_endpoints : forall a b n, 2 <= n ->
  (lin_value a b n 0 == a)%Q /\ (lin_value a b n (n - 1) == b)%Q.
Proof. exact linspace_endpoints. Qed.
Print Assumptions C10_linspace_endpoints.

Theorem C10_linspace_formula : forall a b n i, 2 <= n ->
  (lin_value a b n i == a + inject_Z (Z.of_nat i) * ((b - a) / inject_Z (Z.of_nat (n - 1))))%Q.
Proof. exact linspace_formula. Qed.
Print Assumptions C10_linspace_formula.

Theorem C10_linspace_iter : forall k a b n i, i < n ->
  nth i (iter (Linspace k a b n)) [] = [(k, lin_value a b n i)].
Proof. exact linspace_iter. Qed.
Print Assumptions C10_linspace_iter.

(* every assignment a (well-formed) sweep enumerates assigns exactly sweep.keys, in that order *)
Theorem C10_sweep_keys_iter : forall s, wf s = true -> uniform s = true -> keyed (keys s) (iter s).
Proof. exact sweep_keys_iter. Qed.
Print Assumptions C10_sweep_keys_iter.

Example C10_sweep_keys_example :
  let s := Product [Linspace "a"%string 0 1 3; Zip [Points "b"%string [1; 2]%Q; Points "c"%string [3; 4; 5]%Q]] in
  wf s = true /\ uniform s = true /\ keys s = ["a"; "b"; "c"]%string /\ len s = 6.
Proof. repeat split. Qed.

(* ================= resolver (D1): value_of = substitution iterated to a fixed point ========================== *)
(* an answer of value_of (fast paths, slow path, recursion sentinel) is the fixed point of simultaneous substitution;
   hence, for every interpretation of the arithmetic, its value is the value of the substituted expression *)
Theorem C10_value_of_is_subst : forall r fuel e e', value_of fuel r [] e = Ok e' ->
  exists n, (forall k, n <= k -> subst_iter k r e = e') /\ subst r e' = e'.
Proof. exact value_of_is_subst. Qed.
Print Assumptions C10_value_of_is_subst.

Theorem C10_value_of_eval : forall r fuel e e', value_of fuel r [] e = Ok e' ->
  exists n, forall V (I : interp V) env, eval I env e' = eval I env (subst_iter n r e).
Proof. exact value_of_eval. Qed.
Print Assumptions C10_value_of_eval.

(* whatever substitution resolves, value_of returns (given fuel); a reported loop is a real one; cyclic ones never answer *)
Theorem C10_value_of_complete : forall r e e', resolves_to r e e' -> exists fuel, value_of fuel r [] e = Ok e'.
Proof. exact value_of_complete. Qed.
Print Assumptions C10_value_of_complete.

Theorem C10_value_of_loop_sound : forall r fuel e, value_of fuel r [] e = Loop -> forall e', ~ resolves_to r e e'.
Proof. exact value_of_loop_sound. Qed.
Print Assumptions C10_value_of_loop_sound.

Theorem C10_value_of_cyclic : forall r fuel e, (forall e', ~ resolves_to r e e') -> forall e', value_of fuel r [] e <> Ok e'.
Proof. exact value_of_cyclic. Qed.
Print Assumptions C10_value_of_cyclic.

Theorem C10_resolves_to_functional : forall r e e1 e2, resolves_to r e e1 -> resolves_to r e e2 -> e1 = e2.
Proof. exact resolves_to_functional. Qed.
Print Assumptions C10_resolves_to_functional.

(* memoisation (_deep_eval_map kept between calls on one resolver object) does not change an answer *)
Theorem C10_value_of_m_sound : forall r fuel memo vis e e' memo',
  memo_ok r memo -> value_of_m fuel r memo vis e = (Ok e', memo') -> resolves_to r e e' /\ memo_ok r memo'.
Proof. exact value_of_m_sound. Qed.
Print Assumptions C10_value_of_m_sound.

Theorem C10_memo_does_not_change_answers : forall r fuel fuel' es memo e e' e'',
  memo_ok r memo -> In (e, Ok e') (combine es (value_of_seq fuel r memo es)) ->
  value_of fuel' r [] e = Ok e'' -> e' = e''.
Proof. exact memo_does_not_change_answers. Qed.
Print Assumptions C10_memo_does_not_change_answers.

(* recursive=False is exactly one simultaneous substitution *)
Theorem C10_value_of_once_subst : forall r e, value_of_once r e = subst r e.
Proof. exact value_of_once_subst. Qed.
Print Assumptions C10_value_of_once_subst.

(* unrelated symbols are left alone; what remains mentions only symbols the dictionary cannot change *)
Theorem C10_value_of_unrelated : forall r e, (forall s, In s (free_syms e) -> lookup r s = None) ->
  forall fuel, size e <= fuel -> value_of fuel r [] e = Ok e.
Proof. exact value_of_unrelated. Qed.
Print Assumptions C10_value_of_unrelated.

Theorem C10_resolves_to_syms : forall r e e', resolves_to r e e' ->
  forall u, In u (free_syms e') -> settled r u /\ (In u (free_syms e) \/ In u (range_syms r)).
Proof. exact resolves_to_syms. Qed.
Print Assumptions C10_resolves_to_syms.

(* ================= composition (D2) =========================================================================== *)
Theorem C10_resolver_compose : forall fuel r1 r2 r12, compose fuel r1 r2 = Ok r12 -> no_reintro r1 r2 ->
  forall e e1 e2, resolves_to r1 e e1 -> resolves_to r2 e1 e2 -> resolves_to r12 e e2.
Proof. exact resolver_compose. Qed.
Print Assumptions C10_resolver_compose.

(* the full-strength law (without no_reintro) is false of the model; the witness is replayed on the implementation *)
Theorem C10_resolver_compose_refuted : exists fuel r1 r2 r12 e e1 e2,
  compose fuel r1 r2 = Ok r12 /\ resolves_to r1 e e1 /\ resolves_to r2 e1 e2 /\ ~ resolves_to r12 e e2.
Proof. exact resolver_compose_refuted. Qed.
Print Assumptions C10_resolver_compose_refuted.

(* ================= flatten (D4) ================================================================================ *)
(* for every naming function (sympy's printer, injective or not) and every suffixing function: each parameter of the
   flattened circuit, under the transformed assignment, has the value of the original parameter *)
Theorem C10_flatten_preserves_eval : forall name suffix fuel es es' m,
  flatten_all name suffix fuel [] es = Some (es', m) ->
  forall V (I : interp V) env, Forall2 (fun e e' => eval I (transform_env I env m) e' = eval I env e) es es'.
Proof. exact flatten_preserves_eval. Qed.
Print Assumptions C10_flatten_preserves_eval.

Theorem C10_flatten_is_flat : forall name suffix fuel es m es' m', flatten_all name suffix fuel m es = Some (es', m') ->
  Forall (fun e' => (exists q, e' = Num q) \/ (exists s, e' = Sym s)) es'.
Proof. exact flatten_is_flat. Qed.
Print Assumptions C10_flatten_is_flat.

(* ================= non-vacuity ================================================================================== *)
Example C10_value_of_example :
  value_of 10 [("a", App HAdd [Sym "b"; Num 1]); ("b", App HMul [Sym "c"; Num 2]); ("c", Num (1#2))]%string [] (Sym "a"%string)
  = Ok (App HAdd [App HMul [Num (1#2); Num 2]; Num 1]).
Proof. exact value_of_is_subst_example. Qed.

Example C10_compose_example :
  compose 10 [("a", Sym "b")]%string [("b", App HAdd [Sym "c"; Sym "d"])]%string
  = Ok [("b", App HAdd [Sym "c"; Sym "d"]); ("a", App HAdd [Sym "c"; Sym "d"])]%string
  /\ no_reintro [("a", Sym "b")]%string [("b", App HAdd [Sym "c"; Sym "d"])]%string.
Proof. exact resolver_compose_example. Qed.

Example C10_loop_example : value_of 10 [("a", App HAdd [Sym "b"; Num 1]); ("b", App HMul [Sym "a"; Num 2])]%string [] (Sym "a"%string) = Loop.
Proof. reflexivity. Qed.

Example C10_slice_example :
  option_map iter (getslice (Points "a"%string [1; 2; 3; 4]%Q) (mkSlice (Some (-1)%Z) None (Some (-2)%Z)))
  = Some [[("a"%string, 4%Q)]; [("a"%string, 2%Q)]].
Proof. reflexivity. Qed.
