(* C10 — deciding obligations. Statements only, closed by the lemmas proved elsewhere. *)
From Coq Require Import String ZArith QArith List Bool.
From VF Require Import Codec.Sweeps Codec.SweepsProofs.
Import ListNotations.
Local Open Scope nat_scope.

(* ---- sweeps (D3) ---- *)
Theorem C10_sweep_len_iter : forall s, length (iter s) = len s.
Proof. exact sweep_len_iter. Qed.
Print Assumptions C10_sweep_len_iter.
