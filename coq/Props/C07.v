(* C07 -- deciding obligations. Statements only, closed by the lemmas proved in Xform/*Proofs.v. *)
From Coq Require Import List Arith Bool.
From VF Require Import Base.RingOps Base.Mat Base.Tensor Base.TensorProofs.
From VF Require Import Xform.Routing Xform.RoutingProofs Xform.RoutingSem Xform.RoutingSemProofs Xform.Gateset Xform.GatesetProofs Xform.DeviceSpec Xform.DeviceSpecProofs Base.K8.
Import ListNotations.

(* ---- MappingManager: for every swap sequence the two arrays stay inverse bijections ---- *)
Theorem C07_mapping_inverse_inv : forall n m (sw : list (nat * nat)),
  mm_ok n m -> Forall (fun s => fst s < n /\ snd s < n) sw ->
  mm_ok n (apply_swaps m sw) /\
  (forall lq, lq < n -> nth (nth lq (l2p (apply_swaps m sw)) 0) (p2l (apply_swaps m sw)) 0 = lq).
Proof. exact mapping_inverse_inv. Qed.
Print Assumptions C07_mapping_inverse_inv.

(* RouteCQC._cost applies a candidate swap, measures, and applies it again: that restores the mapping *)
Theorem C07_apply_swap_twice : forall n m lq1 lq2, mm_ok n m -> lq1 < n -> lq2 < n ->
  apply_swap (apply_swap m lq1 lq2) lq1 lq2 = m.
Proof. exact apply_swap_twice. Qed.
Print Assumptions C07_apply_swap_twice.

(* ---- the routing certificate ---- *)
(* replay accepts a routed list only if it is exactly what the emission model (mapped_op / apply_swap)
   produces for the logical stream it reconstructs; every two-qubit operation is on an edge *)
Theorem C07_replay_sound : forall n g d routed m ls, mm_ok n m -> replay n g d m routed = Some ls ->
  emit m ls = routed /\ forallb (rop_on_edge g d) routed = true /\ mm_ok n (final_mm m ls).
Proof. exact replay_sound. Qed.
Print Assumptions C07_replay_sound.

(* the trace-equivalence checker is sound *)
Theorem C07_trace_equiv_b_sound : forall w w', trace_equiv_b w w' = true -> teq w' w.
Proof. exact trace_equiv_b_sound. Qed.
Print Assumptions C07_trace_equiv_b_sound.

(* trace-equivalent streams denote the same map on states, for every denotation of the operations as
   matrices on their own qubits, over every ring satisfying the laws *)
Theorem C07_teq_same_run : forall (K : Type) (O : Ops K) (L : Laws O) (den : oop -> Tensor.rop (K:=K)),
  (forall o, rop_ax (den o) = o_qs o) ->
  forall l l', teq l l' -> forall (psi : tensor (K:=K)) i, run O (map den l) psi i = run O (map den l') psi i.
Proof. exact @teq_same_run. Qed.
Print Assumptions C07_teq_same_run.

Theorem C07_route_ok_sound : forall n orig routed init final g d,
  route_ok n orig routed init final g d = true ->
  exists routed' ls,
    collapse [] routed = Some routed' /\
    emit (mm_init init) ls = routed' /\
    teq (ops_of ls) orig /\
    forallb (rop_on_edge g d) routed = true /\
    forallb (rop_on_edge g d) routed' = true /\
    mm_ok n (final_mm (mm_init init) ls) /\
    (forall k, k < length init ->
       nth k (l2p (final_mm (mm_init init) ls)) 0 = nth (nth k init 0) final 0).
Proof. exact route_ok_sound. Qed.
Print Assumptions C07_route_ok_sound.

Theorem C07_route_ok_sound_plain : forall n orig routed init final g d,
  forallb plain routed = true ->
  route_ok n orig routed init final g d = true ->
  exists ls,
    emit (mm_init init) ls = routed /\ teq (ops_of ls) orig /\
    forallb (rop_on_edge g d) routed = true /\
    (forall k, k < length init -> nth k (l2p (final_mm (mm_init init) ls)) 0 = nth (nth k init 0) final 0).
Proof. exact route_ok_sound_plain. Qed.
Print Assumptions C07_route_ok_sound_plain.

(* the swap map of an accepted certificate is a permutation of ALL placed physical qubits, used by the circuit or not *)
Theorem C07_route_ok_final_perm : forall n orig routed init final g d,
  route_ok n orig routed init final g d = true ->
  length init = n /\
  (forall p, p < n -> nth p final 0 < n) /\
  (forall p q, p < n -> q < n -> nth p final 0 = nth q final 0 -> p = q).
Proof. exact route_ok_final_perm. Qed.
Print Assumptions C07_route_ok_final_perm.

(* ---- meaning on states (any ring with the laws, any number of qubits, any matrices for the operations) ---- *)
(* the emission model: emitted operations read through the final mapping = the logical stream on the initial reading *)
Theorem C07_emit_sem : forall (K : Type) (O : Ops K) (L : Laws O) (mat_of_id : nat -> matrix (K:=K)) n ls m (phi : tensor (K:=K)),
  mm_ok n m -> wf_ls n ls -> forall i, length i = n -> bits i ->
  view n (p2l (final_mm m ls)) (run O (map (den_p O mat_of_id) (emit m ls)) phi) i
  = run O (map (den_l mat_of_id) (ops_of ls)) (view n (p2l m) phi) i.
Proof. exact @emit_sem. Qed.
Print Assumptions C07_emit_sem.

(* route_ok_sound with semantics (DESIGN A.6 orientation): an accepted certificate (no directed-graph pieces) means the
   routed circuit, read through the reported final mapping, computes the original circuit on the initial reading *)
Theorem C07_route_ok_sem : forall (K : Type) (O : Ops K) (L : Laws O) (mat_of_id : nat -> matrix (K:=K))
  n orig routed init final g d,
  forallb plain routed = true ->
  route_ok n orig routed init final g d = true ->
  exists mfin : mm,
    mm_ok n mfin /\
    (forall k, k < length init -> nth k (l2p mfin) 0 = nth (nth k init 0) final 0) /\
    forall (phi : tensor (K:=K)) i, length i = n -> bits i ->
      view n (p2l mfin) (run O (map (den_p O mat_of_id) routed) phi) i
      = run O (map (den_l mat_of_id) orig) (view n (p2l (mm_init init)) phi) i.
Proof. exact @route_ok_sem. Qed.
Print Assumptions C07_route_ok_sem.

(* the block RouteCQC emits for a swap on a one-way edge is a SWAP: CNOT (H x H) CNOT (H x H) CNOT = SWAP, exactly *)
Theorem C07_directed_swap_block : Harness.list_eqb (Harness.list_eqb k8_eqb) block8 (swap_matrix K8Ops) = true.
Proof. exact directed_swap_block. Qed.
Print Assumptions C07_directed_swap_block.

(* ---- Gateset / GateFamily membership ---- *)
(* type families follow isinstance (any position along the mro), instance families the phase class *)
Theorem C07_type_family_spec : forall ty g tags,
  family_contains (mkF (FBase (BType ty)) [] []) (IOp (Some g) tags) = true <-> In ty (g_mro g).
Proof. exact type_family_spec. Qed.
Print Assumptions C07_type_family_spec.

Theorem C07_inst_family_spec : forall v p g tags,
  family_contains (mkF (FBase (BInst v p true)) [] []) (IOp (Some g) tags) = true <-> In p (g_phase g).
Proof. exact inst_family_spec. Qed.
Print Assumptions C07_inst_family_spec.

Theorem C07_family_contains_tags : forall f i, family_contains f i = true ->
  (forall t, In t (f_ignore f) -> ~ In t (item_tags i)) /\
  (f_accept f <> [] -> item_is_op i = true /\ exists t, In t (f_accept f) /\ In t (item_tags i)) /\
  (forall tags, i <> IOp None tags).
Proof. exact family_contains_tags. Qed.
Print Assumptions C07_family_contains_tags.

(* Gateset.__contains__ (dictionary look-ups, then linear scans) = "some family accepts the item" *)
Theorem C07_gateset_membership_spec : forall gs g i, consistent (gs_families gs) g -> item_of g i ->
  gateset_contains_gate gs g i = gateset_contains_spec gs i.
Proof. exact gateset_membership_spec. Qed.
Print Assumptions C07_gateset_membership_spec.

Theorem C07_validate_spec : forall gs ops, validate gs ops = true <-> Forall (fun o => validate_op gs o = true) ops.
Proof. exact validate_spec. Qed.
Print Assumptions C07_validate_spec.

Theorem C07_validate_circuit_op : forall gs tags inner,
  validate_op gs (OCircuit tags inner) = true <->
  gs_unroll gs = true /\ (forall t, In t (gs_banned gs) -> ~ In t tags) /\ Forall (fun o => validate_op gs o = true) inner.
Proof. exact validate_circuit_op. Qed.
Print Assumptions C07_validate_circuit_op.

(* one iteration of the mapped (resolved, possibly inverted) body decides every positive number of repetitions; zero repetitions
   stand for no operation; an untagged nested CircuitOperation may be spliced in *)
Theorem C07_validate_circuit_op_repeat : forall gs tags n b,
  validate_op gs (OCircuit tags (repeat_ops (S n) b)) = validate_op gs (OCircuit tags b).
Proof. exact validate_circuit_op_repeat. Qed.
Print Assumptions C07_validate_circuit_op_repeat.

Theorem C07_validate_circuit_op_zero : forall gs tags b,
  validate_op gs (OCircuit tags (repeat_ops 0 b)) = disjoint (gs_banned gs) tags && gs_unroll gs.
Proof. exact validate_circuit_op_zero. Qed.
Print Assumptions C07_validate_circuit_op_zero.

Theorem C07_validate_circuit_op_splice : forall gs tags pre inner post,
  validate_op gs (OCircuit tags (pre ++ OCircuit [] inner :: post)) = validate_op gs (OCircuit tags (pre ++ inner ++ post)).
Proof. exact validate_circuit_op_splice. Qed.
Print Assumptions C07_validate_circuit_op_splice.

(* ---- devices ---- *)
Theorem C07_device_accepts_iff : forall d o,
  device_accepts d o = true <->
  (d_gate_ops_only d = true -> dop_is_gate_op o = true) /\
  op_in_gateset (d_gateset d) (dop_op o) = true /\
  (forall q, In q (dop_qs o) -> In q (d_qubits d)) /\
  (needs_pairs d o = true -> forall a b, In a (dop_qs o) -> In b (dop_qs o) -> a <> b -> pair_mem (d_pairs d) a b = true).
Proof. exact device_accepts_iff. Qed.
Print Assumptions C07_device_accepts_iff.

Theorem C07_grid_device_pair_rule : forall d o a b, d_rule d = PairsTwoQubit -> dop_qs o = [a; b] -> a <> b ->
  op_variadic (dop_op o) = false -> device_accepts d o = true -> pair_mem (d_pairs d) a b = true.
Proof. exact grid_device_pair_rule. Qed.
Print Assumptions C07_grid_device_pair_rule.

Theorem C07_device_accepts_circuit_spec : forall d ops,
  device_accepts_circuit d ops = true <-> Forall (fun o => device_accepts d o = true) ops.
Proof. exact device_accepts_circuit_spec. Qed.
Print Assumptions C07_device_accepts_circuit_spec.

(* ---- non-vacuity ---- *)
(* a mapping satisfying the invariant, and a swap sequence within range *)
Example C07_mm_example : mm_ok 3 (mm_init [2; 0; 1]) /\ Forall (fun s => fst s < 3 /\ snd s < 3) [(0, 1); (1, 2)].
Proof. split; [apply mm_ok_b_sound; reflexivity|repeat constructor]. Qed.
(* a certificate that is accepted: line 0-1-2, CZ(l0,l2) needs one swap; logical 0,1,2 start on physical 0,1,2 *)
Example C07_route_ok_example :
  route_ok 3 [mkO 7 [0; 2] []; mkO 5 [1] []]
           [ROp (mkO 5 [1] []); RSwap 0 1; ROp (mkO 7 [1; 2] [])]
           [0; 1; 2] [1; 0; 2] [(0, 1); (1, 2)] false = true.
Proof. reflexivity. Qed.
(* the ring laws assumed by the semantic theorems are satisfiable (exact instance Q(zeta_8)) *)
Example C07_laws_inhabited : Laws K8Ops.
Proof. exact K8Laws. Qed.
(* and certificates that are rejected: operation off the edge / wrong reported map / reordered dependent operations *)
Example C07_route_ok_rejects :
  route_ok 3 [mkO 7 [0; 2] []] [ROp (mkO 7 [0; 2] [])] [0; 1; 2] [0; 1; 2] [(0, 1); (1, 2)] false = false
  /\ route_ok 3 [mkO 7 [0; 2] []] [RSwap 0 1; ROp (mkO 7 [1; 2] [])] [0; 1; 2] [0; 1; 2] [(0, 1); (1, 2)] false = false
  /\ route_ok 2 [mkO 1 [0] []; mkO 2 [0] []] [ROp (mkO 2 [0] []); ROp (mkO 1 [0] [])] [0; 1] [0; 1] [(0, 1)] false = false.
Proof. repeat split. Qed.
(* an idle placement (logical 1 is not used by the circuit) displaced by the inserted swap: the full map is accepted, a map
   that leaves the displaced idle placement where it was (so that two placed qubits share an image) is rejected *)
Example C07_route_ok_idle_placement :
  route_ok 3 [mkO 7 [0; 2] []] [RSwap 0 1; ROp (mkO 7 [1; 2] [])] [0; 1; 2] [1; 0; 2] [(0, 1); (1, 2)] false = true
  /\ route_ok 3 [mkO 7 [0; 2] []] [RSwap 0 1; ROp (mkO 7 [1; 2] [])] [0; 1; 2] [1; 1; 2] [(0, 1); (1, 2)] false = false.
Proof. split; reflexivity. Qed.
(* the directed-graph block is recognised (one-way edge 0 -> 1), with an operation on another qubit interleaved *)
Example C07_route_ok_directed :
  route_ok 3 [mkO 7 [1; 0] []; mkO 5 [2] []]
           [RCx 0 1; RHd 0; ROp (mkO 5 [2] []); RHd 1; RCx 0 1; RHd 1; RHd 0; RCx 0 1; ROp (mkO 7 [0; 1] [])]
           [0; 1; 2] [1; 0; 2] [(0, 1); (1, 2)] true = true.
Proof. reflexivity. Qed.
(* a gateset with a type family (type 1), an instance family (class 7) and a tagged family; a gate whose most derived
   type is 3 with base type 1 is accepted through the mro; consistency holds for it *)
Example C07_gateset_example :
  let gs := mkGS [mkF (FBase (BType 1)) [] []; mkF (FBase (BInst 7 7 true)) [] []; mkF (FBase (BType 2)) [9] []] true [5] in
  let g := GD [3; 1; 0] 4 [] false false 1 true false None in
  consistent (gs_families gs) g /\ item_of g (IOp (Some g) []) /\
  gateset_contains_gate gs g (IOp (Some g) []) = true /\
  validate_op gs (OGate g [5]) = false /\
  validate_op gs (OCircuit [] [OGate g []; OGate (GD [2; 0] 6 [] false false 1 true false None) [9]]) = true /\
  validate_op gs (OCircuit [] [OGate (GD [2; 0] 6 [] false false 1 true false None) []]) = false.
Proof.
  simpl. repeat split; try reflexivity.
  - intros f v p ign Hf Hk Hv. destruct Hf as [<-|[<-|[<-|[]]]]; simpl in Hk; try discriminate.
    injection Hk as <- <- _. simpl in Hv. discriminate.
  - right. exists []. reflexivity.
Qed.
(* the raw body of a CircuitOperation is not what it stands for.  Gateset: the instance family of one gate (value class 7, say CZ).
   The body gate CZ**s is parameterized (class 9, equal to no instance up to phase); the resolver sets s = 1, so the mapped circuit
   holds CZ itself (twice for two repetitions): validation of the mapped circuit accepts, validation of the raw body refuses.
   Second part: a body gate of the family (say SQRT_ISWAP) under negative repetitions stands for its inverse (class 8), which is refused. *)
Example C07_resolved_vs_raw_body :
  let gs := mkGS [mkF (FBase (BInst 7 0 true)) [] []] true [] in
  let raw := GD [3; 0] 9 [] true false 2 false false None in
  let resolved := GD [3; 0] 7 [0] false true 2 true false None in
  let inverted := GD [3; 0] 8 [] false false 2 true false None in
  validate_op gs (OCircuit [] (repeat_ops 2 [OGate resolved []])) = true /\ validate_op gs (OCircuit [] [OGate raw []]) = false /\
  validate_op gs (OCircuit [] [OGate resolved []]) = true /\ validate_op gs (OCircuit [] [OGate inverted []]) = false.
Proof. repeat split. Qed.
(* a grid-like device: qubits 0..2, pairs (0,1) (1,2); a two-qubit operation on the pair (0,2) is rejected, on (1,0) accepted *)
Example C07_device_example :
  let gs := mkGS [mkF (FBase (BType 1)) [] []] true [] in
  let d := mkDev gs [0; 1; 2] [(0, 1); (1, 2)] PairsTwoQubit false in
  let g := GD [1; 0] 4 [] false false 2 true false None in
  device_accepts d (mkDop (OGate g []) [1; 0] true) = true /\
  device_accepts d (mkDop (OGate g []) [0; 2] true) = false /\
  device_accepts d (mkDop (OGate g []) [0; 3] true) = false.
Proof. repeat split. Qed.

(* ---- devices built from a device specification (GridDevice.from_proto) ---- *)
(* a pair is a coupling of the specified device exactly when SOME symmetric target set lists it, in either order: neither the name of
   the set nor the way the couplings are distributed over several sets matters *)
Theorem C07_spec_pair_allowed_iff : forall sp a b, pair_mem (spec_pairs sp) a b = true <->
  exists ts, In ts (sp_targets sp) /\ ts_ordering ts = OrdSymmetric /\ (In [a; b] (ts_targets ts) \/ In [b; a] (ts_targets ts)).
Proof. exact spec_pair_allowed_iff. Qed.
Print Assumptions C07_spec_pair_allowed_iff.

Theorem C07_device_of_spec_rename : forall f sp, device_of_spec (rename_sets f sp) = device_of_spec sp.
Proof. exact device_of_spec_rename. Qed.
Print Assumptions C07_device_of_spec_rename.

Theorem C07_spec_pairs_split : forall qs l1 l2 n n1 n2 t1 t2 g,
  spec_pairs (mkSpec qs (l1 ++ mkTS n OrdSymmetric (t1 ++ t2) :: l2) g) =
  spec_pairs (mkSpec qs (l1 ++ mkTS n1 OrdSymmetric t1 :: mkTS n2 OrdSymmetric t2 :: l2) g).
Proof. exact spec_pairs_split. Qed.
Print Assumptions C07_spec_pairs_split.

Theorem C07_ts_pairs_not_symmetric : forall ts, ts_ordering ts <> OrdSymmetric -> ts_pairs ts = [].
Proof. exact ts_pairs_not_symmetric. Qed.
Print Assumptions C07_ts_pairs_not_symmetric.

Theorem C07_spec_device_accepts_iff : forall sp d o a b,
  device_of_spec sp = Some d -> dop_qs o = [a; b] -> a <> b -> op_variadic (dop_op o) = false ->
  (device_accepts d o = true <->
   op_in_gateset (sp_gateset sp) (dop_op o) = true /\ In a (sp_qubits sp) /\ In b (sp_qubits sp) /\
   exists ts, In ts (sp_targets sp) /\ ts_ordering ts = OrdSymmetric /\ (In [a; b] (ts_targets ts) \/ In [b; a] (ts_targets ts))).
Proof. exact spec_device_accepts_iff. Qed.
Print Assumptions C07_spec_device_accepts_iff.

Theorem C07_spec_device_no_pair_needed : forall sp d o,
  device_of_spec sp = Some d -> (length (dop_qs o) <> 2 \/ op_variadic (dop_op o) = true) ->
  (device_accepts d o = true <->
   op_in_gateset (sp_gateset sp) (dop_op o) = true /\ forall q, In q (dop_qs o) -> In q (sp_qubits sp)).
Proof. exact spec_device_no_pair_needed. Qed.
Print Assumptions C07_spec_device_no_pair_needed.

Theorem C07_same_pairs_spec : forall a b, same_pairs a b = true <-> forall x y, pair_mem a x y = pair_mem b x y.
Proof. exact same_pairs_spec. Qed.
Print Assumptions C07_same_pairs_spec.

(* qubits 0..3 in a square 0-1, 2-3 (horizontal), 0-2, 1-3 (vertical, listed larger qubit first).  The same couplings written as one
   conventionally named set (name 0), one set under another name, two sets, with a measurement group of two qubits (no coupling) and a
   three-qubit symmetric target (no coupling): always the same device; a two-qubit gate on (2, 0) is accepted, on the diagonal (0, 3) and on
   the measurement group (1, 2) refused.  The hypotheses of the two acceptance theorems are satisfiable (device_of_spec = Some). *)
Example C07_spec_layouts :
  let gs := mkGS [mkF (FBase (BType 1)) [] []] true [] in
  let g := GD [1; 0] 4 [] false false 2 true false None in
  let meas := mkTS 1 OrdSubsetPermutation [[1; 2]; [0]; [3]] in
  let one := mkSpec [0; 1; 2; 3] [mkTS 0 OrdSymmetric [[0; 1]; [2; 3]; [2; 0]; [3; 1]]; meas] gs in
  let renamed := mkSpec [0; 1; 2; 3] [mkTS 7 OrdSymmetric [[0; 1]; [2; 3]; [2; 0]; [3; 1]]; meas] gs in
  let split := mkSpec [0; 1; 2; 3] [mkTS 0 OrdSymmetric [[0; 1]; [2; 3]]; meas; mkTS 8 OrdSymmetric [[2; 0]; [3; 1]; [0; 1; 2]]] gs in
  same_pairs (spec_pairs one) (spec_pairs renamed) = true /\ same_pairs (spec_pairs one) (spec_pairs split) = true /\
  (exists d, device_of_spec split = Some d /\
     device_accepts d (mkDop (OGate g []) [2; 0] true) = true /\ device_accepts d (mkDop (OGate g []) [0; 2] true) = true /\
     device_accepts d (mkDop (OGate g []) [0; 3] true) = false /\ device_accepts d (mkDop (OGate g []) [1; 2] true) = false) /\
  ts_ordering meas <> OrdSymmetric /\
  device_of_spec (mkSpec [0; 1] [mkTS 0 OrdSymmetric [[0; 0]]] gs) = None /\
  device_of_spec (mkSpec [0; 1] [mkTS 0 OrdSymmetric [[0; 2]]] gs) = None.
Proof. repeat split; try reflexivity. - eexists. repeat split. - discriminate. Qed.
