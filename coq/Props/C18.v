(* C18 — deciding obligations. Statements only, closed by the lemmas proved elsewhere. *)
From Coq Require Import ZArith List Bool.
From VF Require Import Base.Digits Base.DigitsProofs.
Import ListNotations.
Open Scope Z_scope.

(* mixed-radix digits <-> integer are mutual inverses, any width (Z is unbounded) *)
Theorem C18_digits_int_roundtrip : forall ds bs v,
  digits_to_int ds bs = Some v -> int_to_digits v bs = Some ds.
Proof. exact digits_int_roundtrip. Qed.
Print Assumptions C18_digits_int_roundtrip.

Theorem C18_int_digits_roundtrip : forall v bs ds, all_pos bs ->
  int_to_digits v bs = Some ds -> digits_to_int ds bs = Some v.
Proof. exact int_digits_roundtrip. Qed.
Print Assumptions C18_int_digits_roundtrip.

Theorem C18_int_to_digits_defined : forall v bs, all_pos bs ->
  (int_to_digits v bs <> None <-> 0 <= v < prodZ bs).
Proof. exact int_to_digits_defined. Qed.
Print Assumptions C18_int_to_digits_defined.

Theorem C18_bits_int_roundtrip : forall bits,
  int_to_bits (bits_to_int bits) (length bits) = map Z.b2z bits.
Proof. exact bits_int_roundtrip. Qed.
Print Assumptions C18_bits_int_roundtrip.

Theorem C18_int_bits_roundtrip : forall v n,
  bits_to_int (map (Z.eqb 1) (int_to_bits v n)) = v mod 2 ^ Z.of_nat n.
Proof. exact int_bits_roundtrip. Qed.
Print Assumptions C18_int_bits_roundtrip.

(* non-vacuity: a concrete mixed-radix instance meets the hypotheses *)
Example C18_digits_example : digits_to_int [1; 2; 3] [2; 3; 4] = Some 23 /\ all_pos [2; 3; 4].
Proof. split; [reflexivity|repeat constructor]. Qed.
