(* C18 — deciding obligations. Statements only, closed by the lemmas proved elsewhere. *)
From Coq Require Import ZArith List Bool.
From VF Require Import Base.Digits Base.DigitsProofs.
Import ListNotations.
Open Scope Z_scope.

(* mixed-radix digits <-> integer are mutual inverses, any width (Z is unbounded) *)
Theorem C18_digits_int_roundtrip : forall ds bs v,
  digits_to_int ds bs = Some v -> int_to_digits v bs = Some ds.
Proof. exact digits_int_roundtrip. Qed.
Print Assumptions C18_digits_int_roundtrip.

Theorem C18_int_digits_roundtrip : forall v bs ds, all_pos bs ->
  int_to_digits v bs = Some ds -> digits_to_int ds bs = Some v.
Proof. exact int_digits_roundtrip. Qed.
Print Assumptions C18_int_digits_roundtrip.

Theorem C18_int_to_digits_defined : forall v bs, all_pos bs ->
  (int_to_digits v bs <> None <-> 0 <= v < prodZ bs).
Proof. exact int_to_digits_defined. Qed.
Print Assumptions C18_int_to_digits_defined.

Theorem C18_bits_int_roundtrip : forall bits,
  int_to_bits (bits_to_int bits) (length bits) = map Z.b2z bits.
Proof. exact bits_int_roundtrip. Qed.
Print Assumptions C18_bits_int_roundtrip.

Theorem C18_int_bits_roundtrip : forall v n,
  bits_to_int (map (Z.eqb 1) (int_to_bits v n)) = v mod 2 ^ Z.of_nat n.
Proof. exact int_bits_roundtrip. Qed.
Print Assumptions C18_int_bits_roundtrip.

(* non-vacuity: a concrete mixed-radix instance meets the hypotheses *)
Example C18_digits_example : digits_to_int [1; 2; 3] [2; 3; 4] = Some 23 /\ all_pos [2; 3; 4].
Proof. split; [reflexivity|repeat constructor]. Qed.

(* ================= result views (model: Codec/ResultViews.v) ================= *)
From VF Require Import Codec.ResultViews Codec.ResultViewsProofs.

(* a Counter built from a sequence holds, for every value, the number of its occurrences *)
Theorem C18_counter_of_count : forall (A : Type) (eqb : A -> A -> bool),
  (forall a b, eqb a b = true <-> a = b) ->
  forall v l, count eqb v (counter_of eqb l) = occurrences eqb v l.
Proof. exact @counter_of_count. Qed.
Print Assumptions C18_counter_of_count.

(* the vectorised histogram counts in batches of hist_batch_size repetitions and merges the batch counts by
   Counter.update (which adds): for any positive batch size and any number of repetitions the merged Counter
   holds, for every value, the number of its occurrences (the histogram theorems below are stated for the
   batched model, so they cover results on both sides of the batch boundary) *)
Theorem C18_counter_batched_count : forall (A : Type) (eqb : A -> A -> bool),
  (forall a b, eqb a b = true <-> a = b) ->
  forall size v l, (0 < size)%nat -> count eqb v (counter_batched eqb size l) = occurrences eqb v l.
Proof. exact @counter_batched_count. Qed.
Print Assumptions C18_counter_batched_count.

(* non-vacuity: three batches of size 2 with values recurring across batches; the default batch size is positive *)
Example C18_counter_batched_example :
  batches 5 2 [5; 3; 5; 5; 3] = [[5; 3]; [5; 5]; [3]] /\
  counter_batched Z.eqb 2 [5; 3; 5; 5; 3] = [(5, 3%nat); (3, 2%nat)] /\ (0 < hist_batch_size)%nat.
Proof. repeat split; try reflexivity. exact hist_batch_size_pos. Qed.

(* the flattened views exist exactly when every key is measured once per repetition *)
Theorem C18_measurements_defined : forall res, measurements res <> None <-> all_single res = true.
Proof. exact measurements_defined. Qed.
Print Assumptions C18_measurements_defined.

Theorem C18_meas_of_rec_of_meas : forall nq m, meas_of (rec_of_meas nq m) = Some m.
Proof. exact meas_of_rec_of_meas. Qed.
Print Assumptions C18_meas_of_rec_of_meas.

(* measurements, data frame, default histogram and histogram with any fold function are the stated
   functions of the same rows (the single instance of every repetition), and the data frame entry is the
   big-endian integer of the row *)
Theorem C18_result_views_agree : forall res k r,
  all_single res = true -> lookup k res = Some r -> rec_wf r = true ->
  let rows := rows_of r in
  rows = map (fun rep => hd [] rep) (r_data r) /\
  (exists ms, measurements res = Some ms /\ lookup k ms = Some (r_nq r, rows)) /\
  (exists df, dataframe res = Some df /\ lookup k df = Some (map df_value rows)) /\
  (forall row, In row rows -> binary_row row ->
     df_value row = bits_to_int (map truthy row) /\ digits_to_int row (repeat 2 (length row)) = Some (df_value row)) /\
  (Forall binary_row rows -> exists h, histogram res k BaseNone = Some h /\
     forall v, count Z.eqb v h = occurrences Z.eqb v (map df_value rows)) /\
  (forall A (eqb : A -> A -> bool), (forall a b, eqb a b = true <-> a = b) ->
     forall (f : list Z -> option A) vals, mapM f rows = Some vals ->
     exists h, histogram_fold eqb res k f = Some h /\ forall v, count eqb v h = occurrences eqb v vals).
Proof. exact result_views_agree. Qed.
Print Assumptions C18_result_views_agree.

(* histogram(key, fold_base): both the vectorised and the generic path count the positional value of each row *)
Theorem C18_histogram_base_list_counts : forall res k r bs vals,
  all_single res = true -> lookup k res = Some r -> rec_wf r = true -> length bs = r_nq r ->
  mapM (fun row => digits_to_int row bs) (rows_of r) = Some vals ->
  exists h, histogram res k (BaseList bs) = Some h /\ forall v, count Z.eqb v h = occurrences Z.eqb v vals.
Proof. exact histogram_base_list_counts. Qed.
Print Assumptions C18_histogram_base_list_counts.

Theorem C18_histogram_base_int_counts : forall res k r b vals,
  all_single res = true -> lookup k res = Some r -> rec_wf r = true ->
  mapM (fun row => digits_to_int row (repeat b (r_nq r))) (rows_of r) = Some vals ->
  exists h, histogram res k (BaseInt b) = Some h /\ forall v, count Z.eqb v h = occurrences Z.eqb v vals.
Proof. exact histogram_base_int_counts. Qed.
Print Assumptions C18_histogram_base_int_counts.

(* multi_measurement_histogram: sample i is the tuple of the i-th rows of the keys, in argument order *)
Theorem C18_multi_samples_spec : forall res ks (rowsf : Z -> list (list Z)) n,
  all_single res = true -> ks <> [] ->
  (forall k, In k ks -> exists r, lookup k res = Some r /\ rows_of r = rowsf k /\ length (rowsf k) = n) ->
  exists samples, multi_samples res ks = Some samples /\ length samples = n /\
    forall i, (i < n)%nat -> nth i samples [] = map (fun k => nth i (rowsf k) []) ks.
Proof. exact multi_samples_spec. Qed.
Print Assumptions C18_multi_samples_spec.

Theorem C18_multi_hist_counts : forall (A : Type) (eqb : A -> A -> bool),
  (forall a b, eqb a b = true <-> a = b) ->
  forall res ks (fold : list (list Z) -> option A) samples vals,
  multi_samples res ks = Some samples -> mapM fold samples = Some vals ->
  exists h, multi_hist eqb res ks fold = Some h /\ forall v, count eqb v h = occurrences eqb v vals.
Proof. exact @multi_hist_counts. Qed.
Print Assumptions C18_multi_hist_counts.

(* r1 + r2: every view of the sum is the concatenation / sum of counts of the views *)
Theorem C18_result_add_views : forall a b c k ra rb,
  result_add a b = Some c -> lookup k a = Some ra -> lookup k b = Some rb ->
  exists rc, lookup k c = Some rc /\
    r_data rc = r_data ra ++ r_data rb /\ r_inst rc = r_inst ra /\ r_inst rc = r_inst rb /\
    r_nq rc = r_nq ra /\ r_nq rc = r_nq rb /\
    rows_of rc = rows_of ra ++ rows_of rb /\
    map df_value (rows_of rc) = map df_value (rows_of ra) ++ map df_value (rows_of rb) /\
    (forall ma mb, meas_of ra = Some ma -> meas_of rb = Some mb -> meas_of rc = Some (ma ++ mb)) /\
    (forall A (eqb : A -> A -> bool), (forall x y, eqb x y = true <-> x = y) ->
       forall (f : list Z -> A) v,
       count eqb v (counter_of eqb (map f (rows_of rc))) =
       (count eqb v (counter_of eqb (map f (rows_of ra))) + count eqb v (counter_of eqb (map f (rows_of rb))))%nat).
Proof. exact result_add_views. Qed.
Print Assumptions C18_result_add_views.

Theorem C18_result_add_repetitions : forall a b c k0 r0 rest,
  result_add a b = Some c -> b = (k0, r0) :: rest ->
  exists ra, lookup k0 a = Some ra /\ repetitions c = (length (r_data ra) + length (r_data r0))%nat.
Proof. exact result_add_repetitions. Qed.
Print Assumptions C18_result_add_repetitions.

(* JSON storage: bit-packed and general digit packing round-trip; whole records keep shape and order *)
Theorem C18_pack_digits_roundtrip : forall itemsize flat, (0 < itemsize)%nat ->
  Forall (fun d => 0 <= d < 256 ^ Z.of_nat itemsize) flat ->
  unpack_digits itemsize (length flat) (pack_digits itemsize flat) = flat.
Proof. exact pack_digits_roundtrip. Qed.
Print Assumptions C18_pack_digits_roundtrip.

Theorem C18_rec_json_roundtrip : forall itemsize r, (0 < itemsize)%nat -> rec_wf r = true ->
  Forall (fun d => 0 <= d < 256 ^ Z.of_nat itemsize) (flatten (r_data r)) ->
  rec_of_json itemsize (rec_to_json itemsize r) = r.
Proof. exact rec_json_roundtrip. Qed.
Print Assumptions C18_rec_json_roundtrip.

(* sampler defaults as list functions over an abstract run_sweep *)
Theorem C18_normalize_batch_args_spec : forall (Sweep : Type) n (none : Sweep) params reps ps rs,
  normalize_batch_args n none params reps = Some (ps, rs) <->
  ps = match params with None => repeat none n | Some l => l end /\
  rs = match reps with inl r => repeat r n | inr l => l end /\
  length ps = n /\ length rs = n.
Proof. exact @normalize_batch_args_spec. Qed.
Print Assumptions C18_normalize_batch_args_spec.

Theorem C18_run_batch_spec : forall (Prog Sweep Res : Type) (run_sweep : Prog -> Sweep -> nat -> list Res)
  none programs params reps out dp ds,
  run_batch run_sweep none programs params reps = Some out ->
  length out = length programs /\
  exists ps rs, normalize_batch_args (length programs) none params reps = Some (ps, rs) /\
    forall i, (i < length programs)%nat ->
      nth i out [] = run_sweep (nth i programs dp) (nth i ps ds) (nth i rs 0%nat).
Proof. exact @run_batch_spec. Qed.
Print Assumptions C18_run_batch_spec.

Theorem C18_sample_rows_app : forall (Prog Sweep Res : Type) (run_sweep : Prog -> Sweep -> nat -> list Res)
  (Row PV : Type) (resolvers : Sweep -> list PV) (rows_of : Res -> list Row) program s1 s2 reps,
  sample_rows run_sweep resolvers rows_of program (s1 ++ s2) reps =
  sample_rows run_sweep resolvers rows_of program s1 reps ++ sample_rows run_sweep resolvers rows_of program s2 reps.
Proof. exact @sample_rows_app. Qed.
Print Assumptions C18_sample_rows_app.

(* non-vacuity: an asymmetric result (two keys, mixed radix, 3 repetitions) meets the hypotheses *)
Definition C18_ex_res : result :=
  [(0, mkRec 1 3 [[[1; 0; 1]]; [[0; 1; 1]]; [[1; 0; 1]]]); (1, mkRec 1 2 [[[2; 1]]; [[0; 4]]; [[2; 1]]])].
Example C18_views_example :
  all_single C18_ex_res = true /\ res_wf C18_ex_res = true /\
  dataframe C18_ex_res = Some [(0, [5; 3; 5]); (1, [5; 4; 5])] /\
  histogram C18_ex_res 0 BaseNone = Some [(5, 2%nat); (3, 1%nat)] /\
  histogram C18_ex_res 1 (BaseList [3; 5]) = Some [(11, 2%nat); (4, 1%nat)] /\
  multi_samples C18_ex_res [1; 0] = Some [[[2; 1]; [1; 0; 1]]; [[0; 4]; [0; 1; 1]]; [[2; 1]; [1; 0; 1]]] /\
  (exists c, result_add C18_ex_res C18_ex_res = Some c /\ repetitions c = 6%nat) /\
  pack_digits 1 [1; 0; 1; 1; 0; 0; 0; 0; 1] = ([11; 0; 8; 0], true) /\
  pack_digits 1 [2; 1] = ([0; 2; 0; 1], false) /\
  run_batch (fun (c p r : nat) => [(c, p, r)]) 7%nat [10; 20]%nat None (inl 3%nat)
    = Some [[(10, 7, 3)]; [(20, 7, 3)]]%nat.
Proof. repeat split; try reflexivity. eexists. split; reflexivity. Qed.

(* ================= sampler record shapes (model: Codec/SamplerShapes.v) ================= *)
From VF Require Import Codec.SamplerShapes Codec.SamplerShapesProofs.

(* Sampler._get_measurement_shapes lists every key once, with the number of measurement operations that carry it
   (in one moment or in several) and the qid shape they all have *)
Theorem C18_measurement_shapes_spec : forall c l, measurement_shapes c = Some l ->
  NoDup (map fst l) /\
  (forall k n s, In (k, (n, s)) l ->
     n = instances k (all_operations c) /\ (0 < n)%nat /\
     forall s', In s' (key_ops k (all_operations c)) -> s' = s) /\
  (forall k, (0 < instances k (all_operations c))%nat -> exists n s, In (k, (n, s)) l).
Proof. exact measurement_shapes_spec. Qed.
Print Assumptions C18_measurement_shapes_spec.

Theorem C18_measurement_shapes_defined : forall c,
  measurement_shapes c <> None <-> shapes_consistent (all_operations c).
Proof. exact measurement_shapes_defined. Qed.
Print Assumptions C18_measurement_shapes_defined.

Theorem C18_measurement_shapes_regroup : forall c1 c2,
  all_operations c1 = all_operations c2 -> measurement_shapes c1 = measurement_shapes c2.
Proof. exact measurement_shapes_regroup. Qed.
Print Assumptions C18_measurement_shapes_regroup.

Theorem C18_instances_moments : forall k c,
  instances k (all_operations c) = list_sum (map (instances k) c).
Proof. exact instances_moments. Qed.
Print Assumptions C18_instances_moments.

Theorem C18_instances_parallel_readout : forall k shapes,
  instances k (map (fun s => Some (k, s)) shapes) = length shapes.
Proof. exact instances_parallel_readout. Qed.
Print Assumptions C18_instances_parallel_readout.

(* ZerosSampler: documented shape (repetitions, instances, qubits), all digits zero ... *)
Theorem C18_zeros_result_shape : forall reps c r k rc, zeros_result reps c = Some r -> In (k, rc) r ->
  rec_wf rc = true /\ length (r_data rc) = reps /\
  r_inst rc = instances k (all_operations c) /\ (0 < r_inst rc)%nat /\
  (forall s, In s (key_ops k (all_operations c)) -> r_nq rc = length s) /\
  (forall rep row d, In rep (r_data rc) -> In row rep -> In d row -> d = 0).
Proof. exact zeros_result_shape. Qed.
Print Assumptions C18_zeros_result_shape.

(* ... and the same records as a run in which every measurement operation in turn yields zeros *)
Theorem C18_zeros_result_is_reference : forall reps c r,
  zeros_result reps c = Some r -> r = reference_result reps c.
Proof. exact zeros_result_is_reference. Qed.
Print Assumptions C18_zeros_result_is_reference.

(* non-vacuity: two moments; the first holds two measurements under key 0 (parallel readout), the second a third
   one next to key 1 and an operation that measures nothing *)
Definition C18_ex_circuit : mcircuit :=
  [[Some (0, [2; 2]); Some (0, [2; 2])]; [Some (0, [2; 2]); None; Some (1, [3])]].
Example C18_shapes_example :
  measurement_shapes C18_ex_circuit = Some [(0, (3%nat, [2; 2])); (1, (1%nat, [3]))] /\
  shapes_consistent (all_operations C18_ex_circuit) /\
  zeros_result 2 C18_ex_circuit
    = Some [(0, mkRec 3 2 [[[0; 0]; [0; 0]; [0; 0]]; [[0; 0]; [0; 0]; [0; 0]]]); (1, mkRec 1 1 [[[0]]; [[0]]])] /\
  measurement_shapes [[Some (0, [2; 2]); Some (0, [2])]] = None.
Proof.
  split; [reflexivity|]. split; [|split; reflexivity].
  apply measurement_shapes_defined. discriminate.
Qed.

(* ================= ProcessorSampler.run_batch with jobs_per_batch (model: Codec/BatchedSampler.v) ================= *)
From VF Require Import Codec.BatchedSampler Codec.BatchedSamplerProofs.

(* however the batch is cut into API calls, run_batch returns what one call per program returns ... *)
Theorem C18_run_batch_jobs_is_run_batch : forall (Prog Sweep Res : Type) (sweep_eqb : Sweep -> Sweep -> bool)
  (run_sweep : Prog -> Sweep -> nat -> list Res),
  (forall a b, sweep_eqb a b = true -> a = b) ->
  forall points : Sweep -> nat, (forall p s r, length (run_sweep p s r) = points s) ->
  forall jpb none programs params reps,
  run_batch_jobs sweep_eqb run_sweep jpb none programs params reps = run_batch run_sweep none programs params reps.
Proof. exact @run_batch_jobs_is_run_batch. Qed.
Print Assumptions C18_run_batch_jobs_is_run_batch.

(* ... that is: the results of programs[i], run with its own sweep and repetition count, at position i *)
Theorem C18_run_batch_jobs_spec : forall (Prog Sweep Res : Type) (sweep_eqb : Sweep -> Sweep -> bool)
  (run_sweep : Prog -> Sweep -> nat -> list Res),
  (forall a b, sweep_eqb a b = true -> a = b) ->
  forall points : Sweep -> nat, (forall p s r, length (run_sweep p s r) = points s) ->
  forall jpb none programs params reps out dp ds,
  run_batch_jobs sweep_eqb run_sweep jpb none programs params reps = Some out ->
  length out = length programs /\
  exists ps rs, normalize_batch_args (length programs) none params reps = Some (ps, rs) /\
    forall i, (i < length programs)%nat ->
      nth i out [] = run_sweep (nth i programs dp) (nth i ps ds) (nth i rs 0%nat).
Proof. exact @run_batch_jobs_spec. Qed.
Print Assumptions C18_run_batch_jobs_spec.

(* the API calls: never empty, never more than jobs_per_batch programs, together the programs in the order given *)
Theorem C18_batches_shape : forall (Prog Sweep : Type) (sweep_eqb : Sweep -> Sweep -> bool) jpb
  (items : list (Prog * Sweep * nat)),
  Forall (fun j : job => fst (fst j) <> [] /\ (length (fst (fst j)) <= Nat.max 1 jpb)%nat) (batches sweep_eqb jpb items) /\
  concat (map (fun j : job => fst (fst j)) (batches sweep_eqb jpb items)) = map (fun cpr => fst (fst cpr)) items.
Proof. exact @batches_shape. Qed.
Print Assumptions C18_batches_shape.

(* non-vacuity: a sweep is its number of points; programs 10 and 30 share their settings, 20 between them does not *)
Definition C18_ex_rs (c p r : nat) : list (nat * nat * nat) := map (fun j => (c, j, r)) (seq 0 p).
Example C18_batched_example :
  (forall a b, Nat.eqb a b = true -> a = b) /\
  (forall p s r, length (C18_ex_rs p s r) = (fun s : nat => s) s) /\
  batches Nat.eqb 2 [(10, 2, 5); (20, 2, 7); (30, 2, 5); (40, 2, 5); (50, 2, 5); (60, 1, 5)]%nat
    = [([10], 2, 5); ([20], 2, 7); ([30; 40], 2, 5); ([50], 2, 5); ([60], 1, 5)]%nat /\
  run_batch_jobs Nat.eqb C18_ex_rs 2 1%nat [10; 20; 30]%nat (Some [2; 2; 2]%nat) (inr [5; 7; 5]%nat)
    = Some [[(10, 0, 5); (10, 1, 5)]; [(20, 0, 7); (20, 1, 7)]; [(30, 0, 5); (30, 1, 5)]]%nat /\
  run_batch_jobs Nat.eqb C18_ex_rs 3 1%nat [10; 20; 30]%nat None (inl 4%nat)
    = Some [[(10, 0, 4)]; [(20, 0, 4)]; [(30, 0, 4)]]%nat.
Proof.
  split; [intros a b H; apply Nat.eqb_eq; exact H|].
  split; [intros p s r; unfold C18_ex_rs; rewrite map_length, seq_length; reflexivity|].
  repeat split; reflexivity.
Qed.

(* ---- simulators on circuits that keep a basis state (Codec/BasisRun.v): records of a key measured several times ---- *)
From VF Require Import Codec.BasisRun Codec.BasisRunProofs.

(* the one-shot path (stack per key, swap the first two axes): repetition r of a key holds, instance by instance,
   what each measurement carrying the key cut out of the r-th sample; one entry per repetition *)
Theorem C18_one_shot_spec : forall reps k sample ops r, (r < reps)%nat ->
  nth r (one_shot_records reps k sample ops) [] = map (read (sample r)) (key_measurements k ops).
Proof. exact one_shot_spec. Qed.
Print Assumptions C18_one_shot_spec.

Theorem C18_one_shot_length : forall reps k sample ops, length (one_shot_records reps k sample ops) = reps.
Proof. exact one_shot_length. Qed.
Print Assumptions C18_one_shot_length.

(* the general path: every repetition holds the rows the walk through the operations logs for the key,
   one row per measurement carrying the key *)
Theorem C18_general_records_spec : forall reps k dims ops r, (r < reps)%nat ->
  nth r (general_records reps k dims ops) [] = rows_of k (run_once dims (zero_state dims) ops).
Proof. exact general_records_spec. Qed.
Print Assumptions C18_general_records_spec.

Theorem C18_rows_instances : forall dims k ops st,
  length (rows_of k (run_once dims st ops)) = length (key_measurements k ops).
Proof. exact rows_instances. Qed.
Print Assumptions C18_rows_instances.

(* when all measurements are terminal the two paths give the same records *)
Theorem C18_terminal_paths_agree : forall reps k dims ops, terminal ops = true ->
  one_shot_records reps k (fun _ => final_state dims ops) ops = general_records reps k dims ops.
Proof. exact terminal_paths_agree. Qed.
Print Assumptions C18_terminal_paths_agree.

(* non-vacuity: registers (q0 q1) and (q2 q3) under key 0 reading 01 and 11, key 1 measured once; 3 repetitions *)
Example C18_basis_example :
  let ops := [Shift 1 1; Shift 2 1; Shift 3 1; Meas 0 [(0, false); (1, false)]%nat; Meas 0 [(2, false); (3, false)]%nat; Meas 1 [(1, true)]%nat] in
  terminal ops = true /\ (1 < 3)%nat /\
  one_shot_records 3 0 (fun _ => final_state [2; 2; 2; 2] ops) ops = repeat [[0; 1]; [1; 1]] 3 /\
  general_records 3 1 [2; 2; 2; 2] ops = repeat [[0]] 3.
Proof. split; [reflexivity|]. split; [apply Nat.ltb_lt; reflexivity|]. split; reflexivity. Qed.
