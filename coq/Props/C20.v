(* C20 — deciding obligations. Statements only, closed by the lemmas proved in Async/*Proofs.v. *)
From Coq Require Import ZArith List Bool.
From VF Require Import Async.Collector Async.CollectorProofs.
Import ListNotations.

(* ---- Collector.collect_async: for every concurrency, budget, next_job oracle and completion schedule ---- *)

(* at every point of the run (every prefix p of the trace): sampler calls in flight <= concurrency, and the loop's own
   count of running jobs (taken, result not yet consumed) <= concurrency *)
Theorem C20_collector_concurrency : forall conc budget orc sched p s,
  trace (run conc budget orc sched) = p ++ s ->
  n_start p <= n_done p + conc /\ n_take p <= n_result p + conc /\ n_result p <= n_done p <= n_start p.
Proof. exact collector_concurrency. Qed.
Print Assumptions C20_collector_concurrency.

(* a job is started only while the samples requested by the jobs started before it are below max_total_samples *)
Theorem C20_collector_budget : forall conc b orc sched p sid tg r s,
  trace (run conc (Some b) orc sched) = p ++ ETake sid tg r :: s -> (charged p < b)%Z.
Proof. exact collector_budget. Qed.
Print Assumptions C20_collector_budget.

(* on_job_result receives exactly the successful completions that precede the first failure, in completion order and
   each once, with the job object that was started under that sid; when collect_async returns every started job's result
   has been delivered exactly once *)
Theorem C20_collector_exactly_once : forall conc budget orc sched,
  let c := run conc budget orc sched in
  let tr := trace c in
  map rp (results tr) = oks_pre (dones tr)
  /\ NoDup (map fst (dones tr))
  /\ (forall s tg p, In (s, tg, p) (results tr) -> In (s, tg) (takes tr))
  /\ map fst (takes tr) = seq 0 (n_take tr)
  /\ (st c = Halted -> Permutation.Permutation (map sid_of (results tr)) (seq 0 (n_take tr))).
Proof. exact collector_exactly_once. Qed.
Print Assumptions C20_collector_exactly_once.

(* no fuel exhaustion; suspended only while a sampler call is in flight; returns iff idle, with everything started
   completed and delivered; spare capacity and budget are left unused only when the queue is empty and the last next_job()
   answer was empty; the exception raised is the failure of one of the jobs *)
Theorem C20_collector_progress : forall conc budget orc sched,
  let c := run conc budget orc sched in
  let tr := trace c in
  st c <> OutOfFuel
  /\ (st c = Waiting -> n_done tr < n_start tr /\ n_result tr = n_done tr /\ n_start tr = n_take tr)
  /\ (st c = Halted <-> n_take tr = n_result tr)
  /\ (st c = Halted -> n_result tr = n_done tr /\ n_done tr = n_start tr /\ n_start tr = n_take tr)
  /\ (st c = Waiting \/ st c = Halted ->
      match budget with Some b => (charged tr < b)%Z | None => True end ->
      n_take tr < n_result tr + conc -> queued c = [] /\ starved (rev tr) = true)
  /\ (forall e, st c = Raised e -> exists s, In (s, Err e) (dones tr)).
Proof. exact collector_progress. Qed.
Print Assumptions C20_collector_progress.

(* if the jobs in flight keep completing, the loop finishes *)
Theorem C20_collector_terminates : forall conc budget orc sched,
  exists k, st (run conc budget orc (sched ++ repeat [(0, Ok 0%Z)] k)) <> Waiting.
Proof. exact collector_terminates. Qed.
Print Assumptions C20_collector_terminates.

(* non-vacuity: a run that starts three jobs under concurrency 2 and budget 5, completing out of order *)
Example C20_collector_example :
  trace (run 2 (Some 5%Z) [[mkjob 10 2%Z; mkjob 11 2%Z]; [mkjob 12 2%Z; mkjob 13 2%Z]] [[(1, Ok 7%Z)]; [(0, Ok 8%Z); (0, Ok 9%Z)]])
  = [EAsk [10; 11]; ETake 0 10 2%Z; ETake 1 11 2%Z; EStart 0; EStart 1; EDone 1 (Ok 7%Z); EResult 1 11 7%Z;
     EAsk [12; 13]; ETake 2 12 2%Z; EStart 2; EDone 0 (Ok 8%Z); EDone 2 (Ok 9%Z); EResult 0 10 8%Z; EResult 2 12 9%Z; EHalt].
Proof. vm_compute. reflexivity. Qed.

(* non-vacuity of the conditional clauses: a halted run, a suspended run with spare capacity, a raising run *)
Example C20_collector_example_halted : st (run 2 None [[mkjob 1 1%Z]] [[(0, Ok 5%Z)]]) = Halted.
Proof. vm_compute. reflexivity. Qed.
Example C20_collector_example_waiting :
  let c := run 3 (Some 9%Z) [[mkjob 1 1%Z]; []] [] in
  st c = Waiting /\ (charged (trace c) < 9)%Z /\ n_take (trace c) < n_result (trace c) + 3.
Proof. vm_compute. repeat split; repeat constructor. Qed.
Example C20_collector_example_raised : st (run 2 None [[mkjob 1 1%Z; mkjob 2 1%Z]] [[(1, Err 4%Z); (0, Ok 5%Z)]]) = Raised 4%Z.
Proof. vm_compute. reflexivity. Qed.
