(* C20 — deciding obligations (stub, being built). *)
From Coq Require Import ZArith List Bool.
From VF Require Import Async.Collector.
