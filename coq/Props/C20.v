(* C20 — deciding obligations. Statements only, closed by the lemmas proved in Async/*Proofs.v. *)
From Coq Require Import ZArith List Bool.
From VF Require Import Async.Collector Async.CollectorProofs.
Import ListNotations.

(* ---- Collector.collect_async: for every concurrency, budget, next_job oracle and completion schedule ---- *)

(* at every point of the run (every prefix p of the trace): sampler calls in flight <= concurrency, and the loop's own
   count of running jobs (taken, result not yet consumed) <= concurrency *)
Theorem C20_collector_concurrency : forall conc budget orc sched p s,
  trace (run conc budget orc sched) = p ++ s ->
  n_start p <= n_done p + conc /\ n_take p <= n_result p + conc /\ n_result p <= n_done p <= n_start p.
Proof. exact collector_concurrency. Qed.
Print Assumptions C20_collector_concurrency.

(* a job is started only while the samples requested by the jobs started before it are below max_total_samples *)
Theorem C20_collector_budget : forall conc b orc sched p sid tg r s,
  trace (run conc (Some b) orc sched) = p ++ ETake sid tg r :: s -> (charged p < b)%Z.
Proof. exact collector_budget. Qed.
Print Assumptions C20_collector_budget.

(* non-vacuity: a run that starts three jobs under concurrency 2 and budget 5, completing out of order *)
Example C20_collector_example :
  trace (run 2 (Some 5%Z) [[mkjob 10 2%Z; mkjob 11 2%Z]; [mkjob 12 2%Z; mkjob 13 2%Z]] [[(1, Ok 7%Z)]; [(0, Ok 8%Z); (0, Ok 9%Z)]])
  = [EAsk [10; 11]; ETake 0 10 2%Z; ETake 1 11 2%Z; EStart 0; EStart 1; EDone 1 (Ok 7%Z); EResult 1 11 7%Z;
     EAsk [12; 13]; ETake 2 12 2%Z; EStart 2; EDone 0 (Ok 8%Z); EDone 2 (Ok 9%Z); EResult 0 10 8%Z; EResult 2 12 9%Z; EHalt].
Proof. vm_compute. reflexivity. Qed.
