(* C20 — deciding obligations. Statements only, closed by the lemmas proved in Async/*Proofs.v. *)
From Coq Require Import ZArith List Bool.
From VF Require Import Async.Collector Async.CollectorProofs.
From VF Require Import Async.StreamTypes Generated.RetryTable Async.Stream Async.StreamProofs Async.StreamProvenanceProofs
  Async.StreamCancelProofs Async.StreamStateReplyProofs Async.StreamFatalProofs.
From VF Require Import Async.Limiter Async.LimiterProofs.
From VF Require Import Async.PauliWork Async.PauliWorkProofs.
Import ListNotations.

(* ---- Collector.collect_async: for every concurrency, budget, next_job oracle and completion schedule ---- *)

(* at every point of the run (every prefix p of the trace): sampler calls in flight <= concurrency, and the loop's own
   count of running jobs (taken, result not yet consumed) <= concurrency *)
Theorem C20_collector_concurrency : forall conc budget orc sched p s,
  trace (run conc budget orc sched) = p ++ s ->
  n_start p <= n_done p + conc /\ n_take p <= n_result p + conc /\ n_result p <= n_done p <= n_start p.
Proof. exact collector_concurrency. Qed.
Print Assumptions C20_collector_concurrency.

(* a job is started only while the samples requested by the jobs started before it are below max_total_samples *)
Theorem C20_collector_budget : forall conc b orc sched p sid tg r s,
  trace (run conc (Some b) orc sched) = p ++ ETake sid tg r :: s -> (charged p < b)%Z.
Proof. exact collector_budget. Qed.
Print Assumptions C20_collector_budget.

(* on_job_result receives exactly the successful completions that precede the first failure, in completion order and
   each once, with the job object that was started under that sid; when collect_async returns every started job's result
   has been delivered exactly once *)
Theorem C20_collector_exactly_once : forall conc budget orc sched,
  let c := run conc budget orc sched in
  let tr := trace c in
  map rp (results tr) = oks_pre (dones tr)
  /\ NoDup (map fst (dones tr))
  /\ (forall s tg p, In (s, tg, p) (results tr) -> In (s, tg) (takes tr))
  /\ map fst (takes tr) = seq 0 (n_take tr)
  /\ (st c = Halted -> Permutation.Permutation (map sid_of (results tr)) (seq 0 (n_take tr))).
Proof. exact collector_exactly_once. Qed.
Print Assumptions C20_collector_exactly_once.

(* no fuel exhaustion; suspended only while a sampler call is in flight; returns iff idle, with everything started
   completed and delivered; spare capacity and budget are left unused only when the queue is empty and the last next_job()
   answer was empty; the exception raised is the failure of one of the jobs *)
Theorem C20_collector_progress : forall conc budget orc sched,
  let c := run conc budget orc sched in
  let tr := trace c in
  st c <> Collector.OutOfFuel
  /\ (st c = Waiting -> n_done tr < n_start tr /\ n_result tr = n_done tr /\ n_start tr = n_take tr)
  /\ (st c = Halted <-> n_take tr = n_result tr)
  /\ (st c = Halted -> n_result tr = n_done tr /\ n_done tr = n_start tr /\ n_start tr = n_take tr)
  /\ (st c = Waiting \/ st c = Halted ->
      match budget with Some b => (charged tr < b)%Z | None => True end ->
      n_take tr < n_result tr + conc -> queued c = [] /\ starved (rev tr) = true)
  /\ (forall e, st c = Raised e -> exists s, In (s, Err e) (dones tr)).
Proof. exact collector_progress. Qed.
Print Assumptions C20_collector_progress.

(* if the jobs in flight keep completing, the loop finishes *)
Theorem C20_collector_terminates : forall conc budget orc sched,
  exists k, st (run conc budget orc (sched ++ repeat [(0, Ok 0%Z)] k)) <> Waiting.
Proof. exact collector_terminates. Qed.
Print Assumptions C20_collector_terminates.

(* non-vacuity: a run that starts three jobs under concurrency 2 and budget 5, completing out of order *)
Example C20_collector_example :
  trace (run 2 (Some 5%Z) [[mkjob 10 2%Z; mkjob 11 2%Z]; [mkjob 12 2%Z; mkjob 13 2%Z]] [[(1, Ok 7%Z)]; [(0, Ok 8%Z); (0, Ok 9%Z)]])
  = [EAsk [10; 11]; ETake 0 10 2%Z; ETake 1 11 2%Z; EStart 0; EStart 1; EDone 1 (Ok 7%Z); EResult 1 11 7%Z;
     EAsk [12; 13]; ETake 2 12 2%Z; EStart 2; EDone 0 (Ok 8%Z); EDone 2 (Ok 9%Z); EResult 0 10 8%Z; EResult 2 12 9%Z; EHalt].
Proof. vm_compute. reflexivity. Qed.

(* non-vacuity of the conditional clauses: a halted run, a suspended run with spare capacity, a raising run *)
Example C20_collector_example_halted : st (run 2 None [[mkjob 1 1%Z]] [[(0, Ok 5%Z)]]) = Halted.
Proof. vm_compute. reflexivity. Qed.
Example C20_collector_example_waiting :
  let c := run 3 (Some 9%Z) [[mkjob 1 1%Z]; []] [] in
  st c = Waiting /\ (charged (trace c) < 9)%Z /\ n_take (trace c) < n_result (trace c) + 3.
Proof. vm_compute. repeat split; repeat constructor. Qed.
Example C20_collector_example_raised : st (run 2 None [[mkjob 1 1%Z; mkjob 2 1%Z]] [[(1, Err 4%Z); (0, Ok 5%Z)]]) = Raised 4%Z.
Proof. vm_compute. reflexivity. Qed.

(* ---- StreamManager: one execution coroutine along EVERY fault sequence (retry decisions = regenerated table) ---- *)

(* the job is created at most once, whatever happens to the requests *)
Theorem C20_job_created_at_most_once : forall fuel s fs,
  screates (srv_of (run_client fuel s fs)) <= screates s + (if sjob s then 0 else 1).
Proof. exact job_created_at_most_once. Qed.
Print Assumptions C20_job_created_at_most_once.

(* if submit returns, the job exists on the server and — unless it existed before — was created exactly once *)
Theorem C20_result_is_jobs : forall fuel s fs,
  out_of (run_client fuel s fs) = Returned ->
  sjob (srv_of (run_client fuel s fs)) = true /\
  (sjob s = false -> screates (srv_of (run_client fuel s fs)) = S (screates s)).
Proof. exact result_is_jobs. Qed.
Print Assumptions C20_result_is_jobs.

(* the retry loop ends: three requests after the last fault at the latest (OutOfFuel is unreachable with that fuel) *)
Theorem C20_terminates_after_faults : forall fs s zs cur fuel,
  length fs + 3 <= fuel -> out_of (client fuel s zs cur fs) <> OutOfFuel.
Proof. exact terminates_after_faults. Qed.
Print Assumptions C20_terminates_after_faults.

(* after any finite sequence of retryable stream failures (before / after the server processed the request; requests
   overtaken by a break being handled later at arbitrary points, or never) the execution returns the job's result, the
   job having been created at most once *)
Theorem C20_returns_after_retryable_faults : forall fs s, Forall benign fs ->
  exists fuel,
    out_of (run_client fuel s fs) = Returned /\
    sjob (srv_of (run_client fuel s fs)) = true /\
    screates (srv_of (run_client fuel s fs)) <= screates s + (if sjob s then 0 else 1).
Proof. exact returns_after_retryable_faults. Qed.
Print Assumptions C20_returns_after_retryable_faults.

(* non-retryable stream exceptions and non-retryable error codes surface to the caller *)
Theorem C20_nonretryable_surfaces : forall f s zs cur fs,
  (forall x, retryable x = false ->
     out_of (client (S f) s zs cur (BreakBefore x :: fs)) = RaisedExn x /\
     out_of (client (S f) s zs cur (BreakAfter x :: fs)) = RaisedExn x) /\
  (forall c, retry c cur = None -> out_of (client (S f) s zs cur (Reject c :: fs)) = RaisedStream c) /\
  (forall s' c, serve s cur = (s', PErr c) -> retry c cur = None ->
     out_of (client (S f) s zs cur (NoFault :: fs)) = RaisedStream c).
Proof. exact nonretryable_surfaces. Qed.
Print Assumptions C20_nonretryable_surfaces.

Theorem C20_other_codes_raise : forall c cur,
  c <> PROGRAM_ALREADY_EXISTS -> c <> JOB_ALREADY_EXISTS -> c <> PROGRAM_DOES_NOT_EXIST -> c <> JOB_DOES_NOT_EXIST ->
  retry c cur = None.
Proof. exact other_codes_raise. Qed.
Print Assumptions C20_other_codes_raise.

(* ---- StreamManager: the whole manager along EVERY event sequence ---- *)

(* message ids are 0,1,2,... in sending order: never reused, also not across stream restarts *)
Theorem C20_ids_fresh : forall pp pj fl evs,
  let m := mrun pp pj fl evs in map rid (obs_reqs m) = seq 0 (next_id m).
Proof. exact ids_fresh. Qed.
Print Assumptions C20_ids_fresh.

(* a submit future that completes with a result got the result of its own job, whatever the interleaving *)
Theorem C20_demux_routes : forall pp pj fl evs c e r,
  In (c, e, OReturned r) (obs_dones (mrun pp pj fl evs)) -> job_of r = e.
Proof. exact result_routed_to_submitter. Qed.
Print Assumptions C20_demux_routes.

Theorem C20_job_created_at_most_once_m : forall pp pj fl evs,
  let m := mrun pp pj fl evs in
  NoDup (creates m) /\
  (forall c e r, In (c, e, OReturned r) (obs_dones m) -> In e pj \/ count_occ PeanoNat.Nat.eq_dec (creates m) e = 1).
Proof. exact job_created_at_most_once_m. Qed.
Print Assumptions C20_job_created_at_most_once_m.

(* every submit future completes at most once; cancel_quantum_job is sent exactly once for exactly the futures that end
   cancelled *)
Theorem C20_cancel_once : forall pp pj fl evs,
  let m := mrun pp pj fl evs in
  NoDup (map dexec (obs_dones m)) /\ obs_cancels m = map fst (filter is_cancelled (obs_dones m)).
Proof. exact completes_once_and_cancel_once. Qed.
Print Assumptions C20_cancel_once.

(* cancellation cancels the remote job: along every event sequence submit e ends cancelled at step c iff
   cancel_quantum_job for its job reaches the server at step c *)
Theorem C20_cancelled_iff_remote_cancel : forall pp pj fl evs c e,
  let m := mrun pp pj fl evs in
  In (c, e, OCancelled) (obs_dones m) <-> In (c, e) (obs_cancels m).
Proof. exact cancelled_iff_remote_cancel. Qed.
Print Assumptions C20_cancelled_iff_remote_cancel.

(* ... at every cancellation point of a running submit (cancelled_at m c e = e's future ended cancelled at step c and its
   cancel RPC was sent at step c): cancel() while the execution idles; *)
Theorem C20_cancel_point_idle : forall pp pj fl evs i,
  let m := mrun pp pj fl evs in
  running m i -> cancelled_at (mrun pp pj fl (evs ++ [Cancel i])) (S (clock m)) i.
Proof. exact cancel_point_idle. Qed.
Print Assumptions C20_cancel_point_idle.

(* cancel() while the reply to its current request is being delivered, whatever the reply (result, failed job, a code the
   client would have answered by a retry request, a fatal code); *)
Theorem C20_cancel_point_reply : forall pp pj fl evs k id p rest e,
  let m := mrun pp pj fl evs in
  take_nth k (pending m) = Some ((id, p), rest) -> waits m e id ->
  cancelled_at (mrun pp pj fl (evs ++ [RespondCancel k])) (S (clock m)) e.
Proof. exact cancel_point_reply. Qed.
Print Assumptions C20_cancel_point_reply.

(* cancel() while a stream failure is being delivered, retryable or not; *)
Theorem C20_cancel_point_break : forall pp pj fl evs x i,
  let m := mrun pp pj fl evs in
  running m i -> cancelled_at (mrun pp pj fl (evs ++ [BreakCancel x i])) (S (clock m)) i.
Proof. exact cancel_point_break. Qed.
Print Assumptions C20_cancel_point_break.

(* stop() with the job in flight *)
Theorem C20_cancel_point_stop : forall pp pj fl evs e,
  let m := mrun pp pj fl evs in
  running m e -> cancelled_at (mrun pp pj fl (evs ++ [Stop])) (S (clock m)) e.
Proof. exact cancel_point_stop. Qed.
Print Assumptions C20_cancel_point_stop.

(* a response changes the execution subscribed under its message id and no other *)
Theorem C20_demux_only_registered_waiter : forall m k e',
  match take_nth k (pending m) with
  | Some ((id, _), _) => lookup id (subs m) <> Some e'
  | None => True
  end ->
  nth_error (execs (mstep m (Respond k))) e' = nth_error (execs m) e'.
Proof. exact demux_routes. Qed.
Print Assumptions C20_demux_only_registered_waiter.

(* an outcome reaches a submitter only through an event that concerns its own job: after one more event the completed
   futures are the earlier ones plus those `caused` by the event — the response to the waiting execution's own current
   request (with that response's content), a non-retryable failure of the stream it is subscribed on (that failure), its
   own cancellation (idle, or while a reply / a stream failure is being delivered to it), or stop() *)
Theorem C20_outcome_provenance : forall pp pj fl evs ev c e o,
  In (c, e, o) (obs_dones (mrun pp pj fl (evs ++ [ev]))) ->
  In (c, e, o) (obs_dones (mrun pp pj fl evs)) \/
  (c = S (clock (mrun pp pj fl evs)) /\ caused (mrun pp pj fl evs) ev e o).
Proof. exact outcome_provenance. Qed.
Print Assumptions C20_outcome_provenance.

(* the server's reply to a request nobody waits for any more (its submitter cancelled: the subscription is still there, the
   waiter is gone) completes no future at all — in particular not another submitter's *)
Theorem C20_late_reply_is_inert : forall pp pj fl evs k id p rest c e o,
  let m := mrun pp pj fl evs in
  take_nth k (pending m) = Some ((id, p), rest) ->
  (forall e', lookup id (subs m) = Some e' -> ~ waits m e' id) ->
  In (c, e, o) (obs_dones (mrun pp pj fl (evs ++ [Respond k]))) -> In (c, e, o) (obs_dones m).
Proof. exact late_reply_is_inert. Qed.
Print Assumptions C20_late_reply_is_inert.

(* the response to the current request of a waiting execution takes effect at that execution in the same step: a result /
   failed job is what its submit returns; an error code is answered by the request the retry table prescribes, or raised *)
Theorem C20_own_reply_delivered : forall pp pj fl evs k id p rest e,
  let m := mrun pp pj fl evs in
  let m' := mrun pp pj fl (evs ++ [Respond k]) in
  take_nth k (pending m) = Some ((id, p), rest) -> waits m e id ->
  match p with
  | MRes r => In (S (clock m), e, OReturned r) (obs_dones m')
  | MErr c =>
      exists x, nth_error (execs m) e = Some x /\
        match retry c (ecur x) with
        | Some r' => In (S (clock m), e, next_id m, r') (obs_reqs m')
        | None => In (S (clock m), e, ORaisedStream c) (obs_dones m')
        end
  end.
Proof. exact own_reply_delivered. Qed.
Print Assumptions C20_own_reply_delivered.

(* nothing is lost: every execution that has not finished is subscribed (ids subscribed at most once) under the id of its
   current request, and that request is on the wire of the current stream or its response is outstanding *)
Theorem C20_no_lost_request : forall pp pj fl evs,
  let m := mrun pp pj fl evs in
  NoDup (obs_subs m) /\
  forall e, running m e ->
    exists id, waits m e id /\ In (id, e) (subs m) /\ (In id (live_ids m) \/ In id (map fst (pending m))).
Proof. exact no_lost_request. Qed.
Print Assumptions C20_no_lost_request.

(* a non-retryable stream failure surfaces, as that failure, at every execution that was waiting *)
Theorem C20_break_surfaces : forall pp pj fl evs x e,
  retryable x = false -> running (mrun pp pj fl evs) e ->
  exists y, nth_error (execs (mrun pp pj fl (evs ++ [Break x]))) e = Some y /\ est y = Finished (ORaisedExn x).
Proof. exact break_surfaces_m. Qed.
Print Assumptions C20_break_surfaces.

(* after a retryable one every such execution is still running, subscribed, with a request on the new stream *)
Theorem C20_break_retries : forall pp pj fl evs x e,
  retryable x = true -> running (mrun pp pj fl evs) e ->
  let m' := mrun pp pj fl (evs ++ [Break x]) in
  running m' e /\ exists id, waits m' e id /\ In (id, e) (subs m') /\ In id (live_ids m').
Proof. exact break_retries_m. Qed.
Print Assumptions C20_break_retries.

(* supporting: the one-execution model is the manager model with one execution (all fault sequences of length <= 3 over
   12 fault kinds x 4 initial server states, by computation) *)
Theorem C20_models_agree_bounded :
  forallb (fun pj => forallb (models_agree (fst pj) (snd pj)) (sequences 3))
          [(false, false); (true, false); (true, true); (false, true)] = true.
Proof. exact models_agree_bounded. Qed.
Print Assumptions C20_models_agree_bounded.

(* non-vacuity *)
Example C20_stream_example_benign :
  Forall benign [BreakBefore XServiceUnavailable; NoFault; BreakAfter XUnknown] /\
  run_client 8 (mkserver false false 0) [BreakBefore XServiceUnavailable; NoFault; BreakAfter XUnknown]
  = (mkserver true true 1, Returned, [CreateProgJob; GetResult; CreateJob; GetResult; CreateJob; CreateProgJob]).
Proof. split; [repeat apply Forall_cons; try apply Forall_nil; simpl; auto|vm_compute; reflexivity]. Qed.
(* the race the JOB_ALREADY_EXISTS rule exists for: the create request overtaken by a break is handled late *)
Example C20_stream_example_late :
  Forall benign [BreakBefore XUnknown; NoFault; Late 0] /\
  run_client 8 (mkserver false false 0) [BreakBefore XUnknown; NoFault; Late 0]
  = (mkserver true true 1, Returned, [CreateProgJob; GetResult; CreateJob; GetResult]).
Proof. split; [repeat apply Forall_cons; try apply Forall_nil; simpl; auto|vm_compute; reflexivity]. Qed.
Example C20_stream_example_raises :
  out_of (run_client 8 (mkserver false false 0) [BreakAfter XNotFound]) = RaisedExn XNotFound /\
  out_of (run_client 8 (mkserver false false 0) [Reject INTERNAL]) = RaisedStream INTERNAL.
Proof. split; vm_compute; reflexivity. Qed.
Example C20_stream_example_manager :
  let m := mrun [] [] [] [Submit 0; Submit 0; Process 1; Process 0; Break XServiceUnavailable; Process 1; Respond 0; Cancel 0] in
  obs_dones m = [(7, 1, OReturned (RResult 1)); (8, 0, OCancelled)] /\ obs_cancels m = [(8, 0)] /\ creates m = [1].
Proof. vm_compute. repeat split; reflexivity. Qed.
Example C20_stream_example_running :
  running (mrun [] [] [] [Submit 0; Submit 1]) 1 /\ retryable XNotFound = false /\ retryable XUnknown = true.
Proof. split; [unfold running; vm_compute; eexists; split; reflexivity|split; vm_compute; reflexivity]. Qed.
(* the race behind C20_late_reply_is_inert: submit 0 is cancelled after the server handled its request, the reply arrives
   while submit 1 is in flight; the hypotheses of the theorem hold there, submit 1 keeps running and later gets its result *)
Example C20_stream_example_late_reply :
  let m := mrun [] [] [] [Submit 0; Submit 0; Process 0; Cancel 0] in
  take_nth 0 (pending m) = Some ((0, MRes (RResult 0)), []) /\ lookup 0 (subs m) = Some 0 /\ waiting_on m 0 0 = false /\
  obs_dones (mrun [] [] [] [Submit 0; Submit 0; Process 0; Cancel 0; Respond 0]) = [(4, 0, OCancelled)] /\
  obs_dones (mrun [] [] [] [Submit 0; Submit 0; Process 0; Cancel 0; Respond 0; Process 0; Respond 0; Process 0; Respond 0;
                         Process 0; Respond 0])
  = [(4, 0, OCancelled); (11, 1, OReturned (RResult 1))].
Proof. vm_compute. repeat split; reflexivity. Qed.
(* hypotheses of C20_own_reply_delivered: a handled request, its submitter waiting *)
Example C20_stream_example_own_reply :
  let m := mrun [] [] [] [Submit 0; Process 0] in
  take_nth 0 (pending m) = Some ((0, MRes (RResult 0)), []) /\ waiting_on m 0 0 = true.
Proof. vm_compute. split; reflexivity. Qed.
(* hypotheses of the cancellation-point theorems: submit 1 is running with its reply (an already-exists code, which the client
   would answer with a retry request) outstanding; a cancel racing with that reply, with a retryable and with a fatal stream
   failure, and stop(): submit 1 ends cancelled and its remote job is cancelled, submit 0 retries / raises / is cancelled *)
Example C20_stream_example_cancel_points :
  let evs := [Submit 0; Submit 0; RejectReq 1 PROGRAM_ALREADY_EXISTS] in
  let m := mrun [] [] [] evs in
  running m 1 /\ take_nth 0 (pending m) = Some ((1, MErr PROGRAM_ALREADY_EXISTS), []) /\ waiting_on m 1 1 = true /\
  (let m' := mrun [] [] [] (evs ++ [RespondCancel 0]) in obs_dones m' = [(4, 1, OCancelled)] /\ obs_cancels m' = [(4, 1)]) /\
  (let m' := mrun [] [] [] (evs ++ [BreakCancel XServiceUnavailable 1]) in
   obs_dones m' = [(4, 1, OCancelled)] /\ obs_cancels m' = [(4, 1)] /\ obs_reqs m' = [(1, 0, 0, CreateProgJob); (2, 1, 1, CreateProgJob); (4, 0, 2, GetResult)]) /\
  (let m' := mrun [] [] [] (evs ++ [BreakCancel XNotFound 1]) in
   obs_dones m' = [(4, 1, OCancelled); (4, 0, ORaisedExn XNotFound)] /\ obs_cancels m' = [(4, 1)]) /\
  (let m' := mrun [] [] [] (evs ++ [Stop]) in
   obs_dones m' = [(4, 0, OCancelled); (4, 1, OCancelled)] /\ obs_cancels m' = [(4, 0); (4, 1)]).
Proof. vm_compute. split; [eexists; split; reflexivity|]. repeat split; reflexivity. Qed.

(* ---- the server's 'already exists / does not exist' replies ---- *)

(* none of the replies about the existence of the program / job that make sense for the request they answer is raised: each
   is answered by a right next request (JOB_ALREADY_EXISTS to either create request -> fetch the result;
   PROGRAM_ALREADY_EXISTS to create-program-and-job -> fetch the result or create the job; JOB_DOES_NOT_EXIST to get-result ->
   create; PROGRAM_DOES_NOT_EXIST to create-job -> create program and job) *)
Theorem C20_state_reply_retry : forall r c, state_reply r c = true ->
  exists r', retry c r = Some r' /\ right_next r c r' = true.
Proof. exact state_reply_retry. Qed.
Print Assumptions C20_state_reply_retry.

(* the model server answers with nothing else *)
Theorem C20_server_replies_sensible : forall w m m' c, serve_m w m = (m', MErr c) -> state_reply (wkind w) c = true.
Proof. exact server_replies_sensible. Qed.
Print Assumptions C20_server_replies_sensible.

(* delivered to the execution that waits for it, such a reply makes that execution send a right next request in that step *)
Theorem C20_state_reply_resent : forall pp pj fl evs k id c rest e x,
  let m := mrun pp pj fl evs in
  let m' := mrun pp pj fl (evs ++ [Respond k]) in
  take_nth k (pending m) = Some ((id, MErr c), rest) -> waits m e id ->
  nth_error (execs m) e = Some x -> state_reply (ecur x) c = true ->
  exists r', right_next (ecur x) c r' = true /\ In (S (clock m), e, next_id m, r') (obs_reqs m').
Proof. exact state_reply_resent. Qed.
Print Assumptions C20_state_reply_resent.

(* along every event sequence in which the server answers from its state (no arbitrary error codes): whatever the
   interleaving of submits, stream failures, late handling of overtaken requests, cancellations and stop(), no submit ever
   ends in a StreamError *)
Theorem C20_honest_server_no_stream_error : forall pp pj fl evs, Forall honest evs ->
  forall c0 e cd, ~ In (c0, e, ORaisedStream cd) (obs_dones (mrun pp pj fl evs)).
Proof. exact honest_server_no_stream_error. Qed.
Print Assumptions C20_honest_server_no_stream_error.

(* non-vacuity: the job exists when the create-program-and-job request arrives (submitted before); the reply is outstanding,
   its submitter waits, and after delivery and an undisturbed exchange the submitter has the existing job's result *)
Example C20_stream_example_state_reply :
  let evs := [Submit 0; Process 0] in
  let m := mrun [] [0] [] evs in
  Forall honest (evs ++ [Respond 0; Process 0; Respond 0]) /\
  take_nth 0 (pending m) = Some ((0, MErr JOB_ALREADY_EXISTS), []) /\ waiting_on m 0 0 = true /\
  state_reply CreateProgJob JOB_ALREADY_EXISTS = true /\
  obs_reqs (mrun [] [0] [] (evs ++ [Respond 0])) = [(1, 0, 0, CreateProgJob); (3, 0, 1, GetResult)] /\
  obs_dones (mrun [] [0] [] (evs ++ [Respond 0; Process 0; Respond 0])) = [(5, 0, OReturned (RResult 0))].
Proof. vm_compute. repeat split; repeat constructor. Qed.

(* ---- whatever way the stream fails ---- *)

(* a failure of the response stream that is not a google API error at all is never retried - whatever the regenerated
   is_retryable column says about it - and reaches the submitter, whether the server had handled the request or not ... *)
Theorem C20_foreign_failure_surfaces_client : forall f s zs cur fs x, is_api x = false ->
  out_of (client (S f) s zs cur (BreakBefore x :: fs)) = RaisedExn x /\
  out_of (client (S f) s zs cur (BreakAfter x :: fs)) = RaisedExn x.
Proof. exact foreign_failure_surfaces_client. Qed.
Print Assumptions C20_foreign_failure_surfaces_client.

(* ... and, in the manager, every submitter that was in flight, as that very failure *)
Theorem C20_foreign_failure_surfaces : forall pp pj fl evs x e,
  is_api x = false -> running (mrun pp pj fl evs) e ->
  exists y, nth_error (execs (mrun pp pj fl (evs ++ [Break x]))) e = Some y /\ est y = Finished (ORaisedExn x).
Proof. exact foreign_failure_surfaces. Qed.
Print Assumptions C20_foreign_failure_surfaces.

(* after a failure that is not retryable nobody is left waiting, nothing stays subscribed, no response is outstanding and
   no request is live *)
Theorem C20_fatal_break_quiesces : forall pp pj fl evs x, retryable x = false ->
  let m' := mrun pp pj fl (evs ++ [Break x]) in
  (forall e, ~ running m' e) /\ subs m' = [] /\ pending m' = [] /\ live_ids m' = [].
Proof. exact fatal_break_quiesces. Qed.
Print Assumptions C20_fatal_break_quiesces.

(* and the manager is usable again: the next submit is running, the only subscriber, its request the only live one *)
Theorem C20_usable_after_fatal_break : forall pp pj fl evs x p, retryable x = false ->
  let m1 := mrun pp pj fl (evs ++ [Break x]) in
  let m2 := mrun pp pj fl (evs ++ [Break x; Submit p]) in
  let e := length (execs m1) in
  running m2 e /\ waits m2 e (next_id m1) /\ subs m2 = [(next_id m1, e)] /\ live_ids m2 = [next_id m1] /\ pending m2 = [] /\
  forall e', running m2 e' -> e' = e.
Proof. exact usable_after_fatal_break. Qed.
Print Assumptions C20_usable_after_fatal_break.

(* non-vacuity: the exception that is not an API error; two jobs in flight when it strikes, a third one afterwards *)
Example C20_stream_example_foreign_failure :
  is_api XRuntimeError = false /\ retryable XRuntimeError = false /\
  running (mrun [] [] [] [Submit 0; Submit 1; Process 0]) 0 /\ running (mrun [] [] [] [Submit 0; Submit 1; Process 0]) 1 /\
  let m := mrun [] [] [] [Submit 0; Submit 1; Process 0; Break XRuntimeError; Submit 2; Process 1; Respond 0] in
  obs_dones m = [(4, 0, ORaisedExn XRuntimeError); (4, 1, ORaisedExn XRuntimeError); (7, 2, OReturned (RResult 2))].
Proof.
  split; [reflexivity|]. split; [reflexivity|].
  split; [eexists; split; [vm_compute; reflexivity|reflexivity]|]. split; [eexists; split; [vm_compute; reflexivity|reflexivity]|].
  vm_compute. reflexivity.
Qed.

(* ---- ProcessorSampler(max_concurrent_jobs): every run of callers, job creations, job completions and returns ---- *)

(* never more unfinished jobs on the processor (and never more slots held) than max_concurrent_jobs, at every point of every
   run in which no caller arrives while a released waiter has not resumed yet *)
Theorem C20_limiter_bounded : forall cap tr s,
  lrun cap tr = Some s -> calm cap tr = true -> unfinished s <= cap /\ length (l_holding s) <= cap.
Proof. exact limiter_bounded. Qed.
Print Assumptions C20_limiter_bounded.

(* the hypothesis is needed (kept as a refutation of the unconditional statement; the witness is replayed on the
   implementation by the check, stream sampler_race) *)
Theorem C20_limiter_bounded_needs_calm : exists tr s,
  lrun 1 tr = Some s /\ calm 1 tr = false /\ unfinished s = 2.
Proof. exact limiter_bounded_needs_calm. Qed.
Print Assumptions C20_limiter_bounded_needs_calm.

(* every caller's job is created at most once, no job is created twice, every caller returns at most once - with the job
   created for it and the outcome the engine produced for that job *)
Theorem C20_limiter_exactly_once : forall cap tr s,
  lrun cap tr = Some s ->
  NoDup (map fst (creates_of tr)) /\ NoDup (map snd (creates_of tr)) /\
  NoDup (map fst (returns_of tr)) /\
  (forall i j, In (i, j) (returns_of tr) -> In (i, j) (creates_of tr)) /\
  (forall i j ok, In (LReturn i j ok) tr -> In (j, ok) (finishes_of tr)).
Proof. exact limiter_exactly_once. Qed.
Print Assumptions C20_limiter_exactly_once.

(* no caller is lost *)
Theorem C20_limiter_no_loss : forall cap tr s,
  lrun cap tr = Some s ->
  l_calls s = length (l_waiting s) + length (l_woken s) + length (olist (l_entering s)) + length (l_holding s) +
              length (l_returned s).
Proof. exact limiter_no_loss. Qed.
Print Assumptions C20_limiter_no_loss.

(* no lost wake-up: nobody waits while a slot is free and not handed to a woken waiter *)
Theorem C20_limiter_work_conserving : forall cap tr s,
  lrun cap tr = Some s -> l_waiting s <> [] ->
  cap <= length (l_holding s) + length (olist (l_entering s)) + length (l_woken s).
Proof. exact limiter_work_conserving. Qed.
Print Assumptions C20_limiter_work_conserving.

Theorem C20_limiter_no_deadlock : forall cap tr s,
  lrun cap tr = Some s -> 1 <= cap -> l_entering s = None -> l_holding s = [] -> l_woken s = [] -> l_waiting s = [].
Proof. exact limiter_no_deadlock. Qed.
Print Assumptions C20_limiter_no_deadlock.

(* the run can always go on: a woken waiter can create its job, an unfinished job can finish, a caller whose job is finished
   can return *)
Theorem C20_limiter_enabled : forall cap s,
  l_entering s = None ->
  (forall w ws, l_woken s = w :: ws -> lstep cap s (LCreate w (l_jobs s)) <> None) /\
  (forall j ok, has_job j (l_holding s) = true -> has_fin j (l_finished s) = false -> lstep cap s (LFinish j ok) <> None) /\
  (forall i j ok, In (i, j) (l_holding s) -> In (j, ok) (l_finished s) -> lstep cap s (LReturn i j ok) <> None).
Proof. exact limiter_enabled. Qed.
Print Assumptions C20_limiter_enabled.

(* non-vacuity: three callers under max_concurrent_jobs = 2, the third waits until a job finishes; the run is calm; then the
   idle end state *)
Example C20_limiter_example :
  let tr := [LCall 0; LCreate 0 0; LCall 1; LCreate 1 1; LCall 2; LFinish 1 true; LReturn 1 1 true; LCreate 2 2] in
  calm 2 tr = true /\
  (exists s, lrun 2 [LCall 0; LCreate 0 0; LCall 1; LCreate 1 1; LCall 2] = Some s /\ l_waiting s = [2] /\ unfinished s = 2) /\
  (exists s, lrun 2 tr = Some s /\ l_holding s = [(0, 0); (2, 2)] /\ l_returned s = [(1, 1)] /\ unfinished s = 2 /\
             l_entering s = None) /\
  (exists s, lrun 2 (tr ++ [LFinish 0 false; LFinish 2 true; LReturn 0 0 false; LReturn 2 2 true]) = Some s /\
             l_entering s = None /\ l_holding s = [] /\ l_woken s = [] /\ l_calls s = 3).
Proof. vm_compute. repeat split; eexists; repeat split; reflexivity. Qed.

(* ---- PauliSumCollector as the source of work: next_job reads nothing but its own count of samples handed out ---- *)

(* every term of the observable is handed out exactly samples_per_term samples - a unit of work is spent when it is handed
   out, not when its result arrives, so nothing is handed out twice however many jobs are in flight *)
Theorem C20_pauli_work_exact : forall n spt mj t, (0 < spt)%Z -> (0 < mj)%Z -> (0 <= t < n)%Z ->
  requested t (pjobs n spt mj) = spt.
Proof. exact pauli_work_exact. Qed.
Print Assumptions C20_pauli_work_exact.

(* every job measures a term of the observable and asks for 1..max_samples_per_job samples *)
Theorem C20_pauli_work_chunks : forall n spt mj, (0 < spt)%Z -> (0 < mj)%Z ->
  Forall (fun x => (0 <= fst x < n)%Z /\ (0 < snd x <= mj)%Z) (pjobs n spt mj).
Proof. exact pauli_work_chunks. Qed.
Print Assumptions C20_pauli_work_chunks.

(* the list ends because all the work (n * samples_per_term samples) was handed out, and next_job then answers None *)
Theorem C20_pauli_work_total : forall n spt mj, (0 < spt)%Z -> (0 < mj)%Z -> (0 <= n)%Z ->
  fold_right (fun x s => (snd x + s)%Z) 0%Z (pjobs n spt mj) = (n * spt)%Z /\ pnext n spt mj (n * spt) = None.
Proof. exact pauli_work_total. Qed.
Print Assumptions C20_pauli_work_total.

(* non-vacuity, and the work list under the collector loop: 3 terms x 5 samples in jobs of 2, three jobs in flight completing
   youngest first - the loop starts the seven jobs of the list, each once *)
Example C20_pauli_work_example :
  pjobs 3 5 2 = [(0, 2); (0, 2); (0, 1); (1, 2); (1, 2); (1, 1); (2, 2); (2, 2); (2, 1)]%Z
  /\ let c := run 3 None (panswers 3 5 2) (repeat [(2, Ok 1%Z)] 6 ++ [[(2, Ok 1%Z); (1, Ok 1%Z); (0, Ok 1%Z)]]) in
     st c = Halted /\ map snd (takes (trace c)) = [0; 0; 0; 1; 1; 1; 2; 2; 2] /\ charged (trace c) = 15%Z.
Proof. vm_compute. repeat split; reflexivity. Qed.
