(* C12 — deciding obligations. Statements only, closed by the lemmas proved in Circ/*Proofs.v. *)
From Coq Require Import ZArith List Bool String.
From VF Require Import Circ.Keys Circ.KeysProofs Circ.SubCircuit Circ.SubCircuitProofs Circ.CtlSub Circ.CtlSubProofs Circ.CondBlock Circ.CondBlockProofs Generated.CondTables.
Import ListNotations.
Open Scope Z_scope.

(* D1: prefixing composes by concatenation *)
Theorem C12_key_prefix_assoc : forall p q k, key_prefix p (key_prefix q k) = key_prefix (p ++ q) k.
Proof. exact key_prefix_assoc. Qed.
Print Assumptions C12_key_prefix_assoc.

(* D1: key maps compose, with the dict rule CircuitOperation.with_measurement_key_mapping uses *)
Theorem C12_key_map_compose : forall dom m1 m2 k, In (kname k) dom ->
  key_map (kmap_compose dom m1 m2) k = key_map m2 (key_map m1 k).
Proof. exact key_map_compose. Qed.
Print Assumptions C12_key_map_compose.

Theorem C12_key_map_prefix_commute : forall m p k, key_map m (key_prefix p k) = key_prefix p (key_map m k).
Proof. exact key_map_prefix_commute. Qed.
Print Assumptions C12_key_map_prefix_commute.

(* D1: a control key resolves to the innermost enclosing scope that binds it *)
Theorem C12_rescope_innermost : forall path b k nk,
  rescope_key path b k = Some nk ->
  exists j, (j <= List.length path)%nat /\ nk = key_prefix (firstn j path) k /\ In nk b /\
            forall j', (j < j' <= List.length path)%nat -> ~ In (key_prefix (firstn j' path) k) b.
Proof. exact rescope_innermost. Qed.
Print Assumptions C12_rescope_innermost.

Theorem C12_rescope_finds : forall path b k j, (j <= List.length path)%nat -> In (key_prefix (firstn j path) k) b ->
  exists nk, rescope_key path b k = Some nk.
Proof. exact rescope_finds. Qed.
Print Assumptions C12_rescope_finds.

(* D3: remapping a key inside a condition changes only the key  <->  both replace_key implementations keep the
   other fields.  The two booleans are read off the working tree (Generated/CondTables.v): both true since the F2 fix. *)
Theorem C12_condition_remap_iff : forall kK kM,
  (forall f c, cond_payload (cond_apply kK kM f c) = cond_payload c) <-> (kK = true /\ kM = true).
Proof. exact condition_remap_iff. Qed.
Print Assumptions C12_condition_remap_iff.

Theorem C12_condition_remap_faithful : forall f c,
  cond_payload (cond_apply true true f c) = cond_payload c /\
  cond_eid (cond_apply true true f c) = cond_eid c /\
  cond_slots (cond_apply true true f c) = map f (cond_slots c).
Proof. exact condition_remap_faithful. Qed.
Print Assumptions C12_condition_remap_faithful.

(* D3, live: on the working tree (both booleans regenerated from /repo on every run) remapping a key inside a condition
   changes only the key.  The proof term needs both regenerated flags to be `true`: if replace_key drops fields again
   this theorem stops compiling and the check reports the broken obligation. *)
Theorem C12_condition_remap_faithful_on_tree : forall f c,
  cond_payload (cond_apply keycond_replace_keeps maskcond_replace_keeps f c) = cond_payload c.
Proof. exact (proj2 (condition_remap_iff keycond_replace_keeps maskcond_replace_keeps) (conj eq_refl eq_refl)). Qed.
Print Assumptions C12_condition_remap_faithful_on_tree.

Theorem C12_condition_rescope_faithful : forall path b c,
  cond_payload (cond_rescope true true path b c) = cond_payload c /\
  cond_eid (cond_rescope true true path b c) = cond_eid c.
Proof. exact condition_rescope_faithful. Qed.
Print Assumptions C12_condition_rescope_faithful.

(* sensitivity (supporting): a replace_key that rebuilds a BitMaskKeyCondition from the key alone (the behaviour repaired
   by the F2 fix) does change what the condition tests: (a & 2) == 2 under the identity remapping, at record value 1 *)
Theorem C12_condition_remap_sensitive : forall kK,
  cond_payload (cond_apply kK false (fun k => k) remap_witness) <> cond_payload remap_witness /\
  cond_test (cond_apply kK false (fun k => k) remap_witness) 1 <> cond_test remap_witness 1.
Proof. exact condition_remap_refuted_mask. Qed.
Print Assumptions C12_condition_remap_sensitive.

(* D1: rescoping never captures a key bound later: a prefix of a circuit is rescoped independently of what follows,
   and what follows sees the extern keys plus exactly the keys measured before it *)
Theorem C12_rescope_never_captures_later : forall kK kM path c1 c2 b,
  circ_rescope kK kM path b (c1 ++ c2) =
  circ_rescope kK kM path b c1 ++ circ_rescope kK kM path (b ++ List.concat (map moment_mkeys (circ_rescope kK kM path b c1))) c2.
Proof. exact rescope_app. Qed.
Print Assumptions C12_rescope_never_captures_later.

(* D2: the measurement keys / qubits a nested CircuitOperation reports are exactly those of its completely unrolled
   circuit (the model of mapped_circuit(deep=True)), for every nesting depth, repetition count (positive or negative),
   repetition ids, qubit/key/parameter maps and parent paths; kK kM range over both behaviours of replace_key *)
Theorem C12_unroll_correct_keys : forall kK kM n c f ms,
  mapped_circuit kK kM n true c f = Ok ms -> op_ok (OSub c f) = true ->
  forall k, In k (keys_flat ms) <-> In k (op_mkeys (OSub c f)).
Proof. exact unroll_keys. Qed.
Print Assumptions C12_unroll_correct_keys.

Theorem C12_unroll_correct_qubits : forall kK kM n c f ms,
  mapped_circuit kK kM n true c f = Ok ms -> op_ok (OSub c f) = true ->
  forall q, In q (qubits_flat ms) <-> In q (op_qubits (OSub c f)).
Proof. exact unroll_qubits. Qed.
Print Assumptions C12_unroll_correct_qubits.

(* D2, operation sequence: moment by moment, the completely unrolled circuit consists of exactly the leaves the
   compositional semantics ops_nested prescribes (which operation, inverted or not, on which qubits; zipping of
   sibling sub-circuits, reversal under negative repetitions, composed qubit maps included) *)
Theorem C12_unroll_correct_ops : forall kK kM n c f ms,
  mapped_circuit kK kM n true c f = Ok ms -> op_ok (OSub c f) = true ->
  strip_circ ms = ops_nested false (fun q => q) (OSub c f).
Proof. exact unroll_ops. Qed.
Print Assumptions C12_unroll_correct_ops.

(* the domain restriction is necessary on today's code (F7): zero repetitions *)
Theorem C12_unroll_keys_refuted_zero : forall kK kM,
  mapped_circuit kK kM 2 true [[OLeaf (Leaf 10 false [0] [MK [] "a"] [] [])]] (SubF (RInt 0) None false [] [] [] [] [] None) = Ok []
  /\ op_mkeys zero_rep_witness = [MK [] "a"] /\ op_is_meas zero_rep_witness = true.
Proof. exact unroll_keys_refuted_zero. Qed.
Print Assumptions C12_unroll_keys_refuted_zero.

(* D4: constructor compositions *)
Theorem C12_with_qubit_mapping_twice : forall g1 g2 o, t_qmap g2 (t_qmap g1 o) = t_qmap (fun q => g2 (g1 q)) o.
Proof. exact qmap_twice. Qed.
Print Assumptions C12_with_qubit_mapping_twice.

Theorem C12_with_key_mapping_twice : forall kK kM m1 m2 o k,
  In k (op_mkeys (t_kmap kK kM m2 (t_kmap kK kM m1 o))) <-> exists k0, In k0 (op_mkeys o) /\ k = key_map m2 (key_map m1 k0).
Proof. exact kmap_twice. Qed.
Print Assumptions C12_with_key_mapping_twice.

Theorem C12_key_dict_twice : forall dom km m1 m2 s, In s dom ->
  name_map (kmap_compose dom (kmap_compose dom km m1) m2) s = name_map m2 (name_map m1 (name_map km s)).
Proof. exact kmap_dict_twice. Qed.
Print Assumptions C12_key_dict_twice.

(* repeat_until: a further key map renames every name the loop condition reads, also a key of an enclosing scope that
   the loop body never mentions; composing the dict over the body's names only (today's code, F20) does not *)
Theorem C12_until_names_under_key_map : forall kK kM m c f,
  exists f', t_kmap kK kM m (OSub c f) = OSub c f' /\ until f' = until f /\
             until_read_names f' = map (name_map m) (until_read_names f).
Proof. exact until_names_kmap. Qed.
Print Assumptions C12_until_names_under_key_map.

Theorem C12_until_names_body_only_refuted : forall kK kM,
  exists f', t_kmap_body_only kK kM [("a", "z")]%string (OSub f20_body f20_fields) = OSub f20_body f' /\
             until_read_names f' = ["a"; "b"]%string /\
             map (name_map [("a", "z")]%string) (until_read_names f20_fields) = ["z"; "b"]%string.
Proof. exact until_names_kmap_body_only_refuted. Qed.
Print Assumptions C12_until_names_body_only_refuted.

(* the repeat_until condition is scoped exactly like a classical control in a new last moment of the loop body: one
   pass over body ++ [probe] is the pass over the body followed by the probe carrying the mapped loop condition
   (so a loop may be replaced by plain repetitions of body ++ [probe] to observe, loop-free, what its condition reads) *)
Theorem C12_until_scoped_as_last_control : forall kK kM c f u qs s,
  until f = Some u -> rep_negative (reps f) = false -> (ids f = None \/ use_ids f = false) ->
  single_loop kK kM (c ++ [[probe_leaf u qs]]) f None = Ok s ->
  exists s0 u' qs', single_loop kK kM c f None = Ok s0 /\ s = s0 ++ [[probe_leaf u' qs']] /\
                    mapped_until kK kM f (op_mkeys (OSub c f)) = Some u'.
Proof. exact until_is_last_control. Qed.
Print Assumptions C12_until_scoped_as_last_control.

Theorem C12_inverse_twice : forall o o1 o2, t_inv o = Ok o1 -> t_inv o1 = Ok o2 -> o2 = o.
Proof. exact inv_twice. Qed.
Print Assumptions C12_inverse_twice.

Theorem C12_rescope_twice : forall kK kM p1 b1 p2 b2 o,
  op_mkeys (t_rescope kK kM p1 b1 (t_rescope kK kM p2 b2 o)) = map (key_prefix (p1 ++ p2)) (op_mkeys o).
Proof. exact rescope_twice. Qed.
Print Assumptions C12_rescope_twice.

Theorem C12_with_params_twice : forall dom m1 m2 s, In s dom ->
  presolve (pmap_compose dom m1 m2) (PSym s) = presolve m2 (presolve m1 (PSym s)).
Proof. exact plookup_compose. Qed.
Print Assumptions C12_with_params_twice.

(* remapping commutes with what the operation reports *)
Theorem C12_keys_under_rescope : forall kK kM path b o,
  op_mkeys (t_rescope kK kM path b o) = map (key_prefix path) (op_mkeys o).
Proof. exact mkeys_rescope. Qed.
Print Assumptions C12_keys_under_rescope.

Theorem C12_qubits_under_qubit_map : forall g o, op_qubits (t_qmap g o) = map g (op_qubits o).
Proof. exact qubits_qmap. Qed.
Print Assumptions C12_qubits_under_qubit_map.

(* D5: repeat_until = the least positive number of passes after which the condition holds (under fuel) *)
Theorem C12_repeat_until_unroll : forall St body cond fuel (s t : St),
  act_until St body cond fuel s = Ok t ->
  exists k, (1 <= k <= fuel)%nat /\ t = Nat.iter k body s /\ cond t = true /\
            forall j, (1 <= j < k)%nat -> cond (Nat.iter j body s) = false.
Proof. exact repeat_until_unroll. Qed.
Print Assumptions C12_repeat_until_unroll.

Theorem C12_repeat_until_complete : forall St body cond k (s : St), (1 <= k)%nat -> cond (Nat.iter k body s) = true ->
  (forall j, (1 <= j < k)%nat -> cond (Nat.iter j body s) = false) ->
  forall fuel, (k <= fuel)%nat -> act_until St body cond fuel s = Ok (Nat.iter k body s).
Proof. exact repeat_until_complete. Qed.
Print Assumptions C12_repeat_until_complete.

(* non-vacuity *)
Example C12_rescope_example :
  rescope_key ["p"; "0"]%string [MK ["p"]%string "a"; MK [] "a"] (MK [] "a") = Some (MK ["p"]%string "a").
Proof. reflexivity. Qed.
Example C12_compose_example :
  key_map (kmap_compose ["a"; "b"]%string [("a", "b"); ("b", "a")]%string [("a", "c"); ("b", "a")]%string) (MK [] "a")
  = MK [] "a".
Proof. reflexivity. Qed.

(* the hypotheses of unroll_correct are satisfiable by a two-level nest with repetition ids, maps and a parent path *)
Definition C12_example_op : op :=
  OSub [[OSub [[OLeaf (Leaf 10 false [0] [MK [] "a"] [] [])]; [OLeaf (Leaf 1 false [0] [] [CKey (MK [] "a") (-1)] [])]]
              (SubF (RInt 2) (Some ["0"; "1"]%string) true [(0, 1)] [("a", "b")]%string [] [] [] None)]]
       (SubF (RInt 2) (Some ["x"; "y"]%string) true [(1, 2)] [("b", "c")]%string [] ["p"]%string [] None).
Example C12_unroll_example :
  op_ok C12_example_op = true /\
  exists ms, match C12_example_op with OSub c f => mapped_circuit false false 4 true c f | _ => ErrValue end = Ok ms /\
             keyset_eqb (keys_flat ms) [MK ["p"; "x"; "0"]%string "c"; MK ["p"; "x"; "1"]%string "c"; MK ["p"; "y"; "0"]%string "c"; MK ["p"; "y"; "1"]%string "c"] = true /\
             qubits_flat ms = [2] /\ strip_circ ms = ops_nested false (fun q => q) C12_example_op.
Proof. split; [reflexivity|]. eexists. split; [vm_compute; reflexivity|]. repeat split; reflexivity. Qed.
Example C12_until_example : act_until nat S (fun n => Nat.eqb n 3) 5 0%nat = Ok 3%nat.
Proof. reflexivity. Qed.
(* further non-vacuity: the hypotheses of the implication theorems are met by concrete data *)
Example C12_inverse_twice_example :
  exists o1 o2, t_inv (OSub [[OLeaf (Leaf 0 false [0] [] [] [])]] (SubF (RInt 2) None false [] [] [] [] [] None)) = Ok o1 /\
                t_inv o1 = Ok o2.
Proof. eexists. eexists. split; reflexivity. Qed.
Example C12_rescope_finds_example :
  (1 <= List.length ["p"; "0"]%string)%nat /\
  In (key_prefix (firstn 1 ["p"; "0"]%string) (MK [] "a")) [MK ["p"]%string "a"; MK [] "a"].
Proof. split; [simpl; auto | left; reflexivity]. Qed.
Example C12_key_dict_twice_example :
  In "a"%string ["a"; "b"]%string /\
  name_map (kmap_compose ["a"; "b"]%string (kmap_compose ["a"; "b"]%string [] [("a", "b"); ("b", "a")]%string) [("a", "c")]%string) "b"%string = "c"%string.
Proof. split; [left; reflexivity | reflexivity]. Qed.
Example C12_with_params_twice_example :
  presolve (pmap_compose ["t"]%string [("t", PSym "s")]%string [("s", PVal 2)]%string) (PSym "t") = PVal 2.
Proof. reflexivity. Qed.
Example C12_repeat_until_complete_example :
  (1 <= 3)%nat /\ Nat.eqb (Nat.iter 3 S 0%nat) 3 = true /\ (forall j, (1 <= j < 3)%nat -> Nat.eqb (Nat.iter j S 0%nat) 3 = false).
Proof.
  split; [auto|]. split; [reflexivity|]. intros j [H1 H2].
  destruct j as [|[|[|j]]]; try reflexivity; exfalso; inversion H1; repeat (apply le_S_n in H2); inversion H2.
Qed.
Example C12_zero_rep_not_ok : op_ok zero_rep_witness = false.
Proof. reflexivity. Qed.
(* a loop until a == b under parent path p whose enclosing scope has bound p:a: hypotheses of
   C12_until_scoped_as_last_control are met, and the condition reads p:a (the enclosing scope's key) and its own p:b *)
Example C12_until_scoped_example :
  let u := CSym 5 [MK [] "a"; MK [] "b"] in
  let f := SubF (RInt 1) None false [] [] [] ["p"]%string [MK ["p"]%string "a"] (Some u) in
  until f = Some u /\ rep_negative (reps f) = false /\ ids f = None /\
  (exists s, single_loop true true (f20_body ++ [[probe_leaf u [4]]]) f None = Ok s) /\
  mapped_until true true f (op_mkeys (OSub f20_body f)) = Some (CSym 5 [MK ["p"]%string "a"; MK ["p"]%string "b"]).
Proof. cbv zeta. repeat split; try reflexivity. eexists. reflexivity. Qed.

(* ---- classically controlled sub-circuits (ClassicallyControlledOperation over a CircuitOperation), Circ/CtlSub.v ---- *)

(* the flat form of a controlled sub-circuit (the unrolled sub-circuit, the conditions of the control on every operation)
   under rescoping: every operation carries the rescoped conditions of the control and its own rescoped conditions *)
Theorem C12_ctl_flat_rescope : forall kK kM path b cs ms, flat_nomeas ms = true ->
  circ_rescope kK kM path b (circ_add_ctl cs ms)
  = circ_add_ctl (map (cond_rescope kK kM path b) cs) (circ_rescope kK kM path b ms).
Proof. exact ctl_flat_rescope. Qed.
Print Assumptions C12_ctl_flat_rescope.

Theorem C12_ctl_flat_key_map : forall kK kM m cs ms,
  map (map (t_kmap kK kM m)) (circ_add_ctl cs ms)
  = circ_add_ctl (map (cond_key_map kK kM m) cs) (map (map (t_kmap kK kM m)) ms).
Proof. exact ctl_flat_kmap. Qed.
Print Assumptions C12_ctl_flat_key_map.

Theorem C12_ctl_flat_prefix : forall kK kM p cs ms,
  map (map (t_prefix kK kM p)) (circ_add_ctl cs ms)
  = circ_add_ctl (map (cond_prefix kK kM p) cs) (map (map (t_prefix kK kM p)) ms).
Proof. exact ctl_flat_prefix. Qed.
Print Assumptions C12_ctl_flat_prefix.

Theorem C12_ctl_flat_control_keys : forall cs l,
  conds_keys (lcs (leaf_add_ctl cs l)) = conds_keys cs ++ conds_keys (lcs l).
Proof. exact ctl_leaf_ckeys. Qed.
Print Assumptions C12_ctl_flat_control_keys.

(* a user-level control key looked up from inside an operation rescoped by its enclosing scope (longer path, bindable keys
   cut to the enclosing path length) finds exactly the binding the enclosing scope itself gives it *)
Theorem C12_ctl_inner_key_binding : forall path pp b k, kpath k = [] ->
  rescope_key (path ++ pp) (short_keys (List.length path) b) k = rescope_key path b k.
Proof. exact rescope_key_sub. Qed.
Print Assumptions C12_ctl_inner_key_binding.

(* rescoping reaches the conditions INSIDE a controlled sub-circuit: transforming the control and the operation it
   controls piecewise and then unrolling = unrolling and then rescoping the flat form *)
Theorem C12_ctl_rescope_then_unroll : forall kK kM n path b cs c f r ms,
  flat_nomeas c = true -> circ_user_level c = true -> ext f = [] -> until f = None -> reps f = RInt r -> 0 < r ->
  ctl_flat kK kM (S n) (cs, OSub c f) = Ok ms ->
  ctl_flat kK kM (S n) (ctl_rescope kK kM path b (cs, OSub c f)) = Ok (circ_rescope kK kM path b ms).
Proof. exact ctl_rescope_then_unroll. Qed.
Print Assumptions C12_ctl_rescope_then_unroll.

(* ... and a rescoping that stops at the conditions of the control does not (the gate inside keeps the bare key m) *)
Theorem C12_ctl_rescope_conds_only_refuted : forall kK kM,
  ctl_flat kK kM 2 (ctl_rescope_conds_only kK kM ["0"%string] [MK ["0"%string] "m"; MK [] "c"] ctl_witness)
  = Ok [[OLeaf (Leaf 5 false [1] [] [CKey (MK [] "c") (-1); CKey (MK [] "m") (-1)] [])]] /\
  (do ms <- ctl_flat kK kM 2 ctl_witness; Ok (circ_rescope kK kM ["0"%string] [MK ["0"%string] "m"; MK [] "c"] ms))
  <> ctl_flat kK kM 2 (ctl_rescope_conds_only kK kM ["0"%string] [MK ["0"%string] "m"; MK [] "c"] ctl_witness).
Proof. exact ctl_rescope_conds_only_refuted. Qed.
Print Assumptions C12_ctl_rescope_conds_only_refuted.

(* non-vacuity of the implication theorems above *)
Example C12_ctl_flat_rescope_example : flat_nomeas [[OLeaf (Leaf 5 false [1] [] [CKey (MK [] "m") (-1)] [])]] = true.
Proof. reflexivity. Qed.
Example C12_ctl_inner_key_binding_example :
  kpath (MK [] "m") = [] /\
  rescope_key (["0"%string] ++ ["s"%string]) (short_keys 1 [MK ["0"%string] "m"; MK [] "m"]) (MK [] "m") = Some (MK ["0"%string] "m").
Proof. split; reflexivity. Qed.
Example C12_ctl_rescope_then_unroll_example :
  flat_nomeas ctl_witness_body = true /\ circ_user_level ctl_witness_body = true /\ ext ctl_witness_fields = [] /\
  until ctl_witness_fields = None /\ reps ctl_witness_fields = RInt 1 /\
  ctl_flat true true 2 ctl_witness
  = Ok [[OLeaf (Leaf 5 false [1] [] [CKey (MK [] "c") (-1); CKey (MK [] "m") (-1)] [])]] /\
  ctl_flat true true 2 (ctl_rescope true true ["0"%string] [MK ["0"%string] "m"; MK [] "c"] ctl_witness)
  = Ok [[OLeaf (Leaf 5 false [1] [] [CKey (MK [] "c") (-1); CKey (MK ["0"%string] "m") (-1)] [])]].
Proof. exact ctl_rescope_then_unroll_sat. Qed.

(* ---- conditional blocks: cirq.If(conditions, sub_operation) (Circ/CondBlock.v) ---- *)

(* the constructor folds If(cs1, If(cs, o)) / If(cs1, ClassicallyControlledOperation(o, cs)) into If(cs1 ++ cs, o): the flat
   form of the folded operation is the flat form of the inner one with cs1 put in front on every operation, its control
   keys are those of cs1 and of the inner one, and the three key transformations commute with the folding *)
Theorem C12_if_fold_flat : forall kK kM n cs1 x,
  ctl_flat kK kM n (ctl_fold cs1 x) = (do ms <- ctl_flat kK kM n x; Ok (circ_add_ctl cs1 ms)).
Proof. exact ctl_fold_flat. Qed.
Print Assumptions C12_if_fold_flat.

Theorem C12_if_fold_control_keys : forall kK kM n cs1 x,
  ctl_ckeys kK kM n (ctl_fold cs1 x) = (do ks <- ctl_ckeys kK kM n x; Ok (conds_keys cs1 ++ ks)).
Proof. exact ctl_fold_ckeys. Qed.
Print Assumptions C12_if_fold_control_keys.

Theorem C12_if_fold_rescope : forall kK kM path b cs1 x,
  ctl_rescope kK kM path b (ctl_fold cs1 x) = ctl_fold (map (cond_rescope kK kM path b) cs1) (ctl_rescope kK kM path b x).
Proof. exact ctl_fold_rescope. Qed.
Print Assumptions C12_if_fold_rescope.

Theorem C12_if_fold_key_map : forall kK kM m cs1 x,
  ctl_kmap kK kM m (ctl_fold cs1 x) = ctl_fold (map (cond_key_map kK kM m) cs1) (ctl_kmap kK kM m x).
Proof. exact ctl_fold_kmap. Qed.
Print Assumptions C12_if_fold_key_map.

Theorem C12_if_fold_prefix : forall kK kM p cs1 x,
  ctl_prefix kK kM p (ctl_fold cs1 x) = ctl_fold (map (cond_prefix kK kM p) cs1) (ctl_prefix kK kM p x).
Proof. exact ctl_fold_prefix. Qed.
Print Assumptions C12_if_fold_prefix.

(* a conditional block (If / ClassicallyControlledOperation over a sub-circuit) over a non-empty body of gates that measure
   nothing reports, as a set, exactly the keys the operations of its flat form read: the keys of its own conditions AND
   the keys the classical controls inside the body read (any qubit / key / parameter maps, ids, parent path, r > 0) *)
Theorem C12_block_control_keys_are_flat_reads : forall kK kM n cs c f r ms,
  flat_nomeas c = true -> circ_user_level c = true -> List.concat c <> [] ->
  ext f = [] -> until f = None -> reps f = RInt r -> 0 < r ->
  ctl_flat kK kM (S n) (cs, OSub c f) = Ok ms ->
  exists ks, ctl_ckeys kK kM (S (S n)) (cs, OSub c f) = Ok ks /\ forall k, In k ks <-> In k (flat_reads ms).
Proof. exact block_ckeys_are_flat_reads. Qed.
Print Assumptions C12_block_control_keys_are_flat_reads.

(* control keys taken from the conditions of the block alone lose the key its body reads (witness: If(c, [X(q1) if m])) *)
Theorem C12_block_control_keys_conds_only_refuted : forall kK kM,
  exists ms, ctl_flat kK kM 2 ctl_witness = Ok ms /\ In (MK [] "m") (flat_reads ms) /\
             ~ In (MK [] "m") (ctl_ckeys_conds_only ctl_witness).
Proof. exact ctl_ckeys_conds_only_refuted. Qed.
Print Assumptions C12_block_control_keys_conds_only_refuted.

Example C12_block_control_keys_example :
  flat_nomeas ctl_witness_body = true /\ circ_user_level ctl_witness_body = true /\ List.concat ctl_witness_body <> [] /\
  ext ctl_witness_fields = [] /\ until ctl_witness_fields = None /\ reps ctl_witness_fields = RInt 1 /\
  ctl_flat true true 2 ctl_witness = Ok [[OLeaf (Leaf 5 false [1] [] [CKey (MK [] "c") (-1); CKey (MK [] "m") (-1)] [])]] /\
  ctl_ckeys true true 3 ctl_witness = Ok [MK [] "c"; MK [] "m"].
Proof. exact block_ckeys_sat. Qed.
