(* C12 — deciding obligations. Statements only, closed by the lemmas proved in Circ/*Proofs.v. *)
From Coq Require Import ZArith List Bool String.
From VF Require Import Circ.Keys Circ.KeysProofs Generated.CondTables.
Import ListNotations.
Open Scope Z_scope.

(* D1: prefixing composes by concatenation *)
Theorem C12_key_prefix_assoc : forall p q k, key_prefix p (key_prefix q k) = key_prefix (p ++ q) k.
Proof. exact key_prefix_assoc. Qed.
Print Assumptions C12_key_prefix_assoc.

(* D1: key maps compose, with the dict rule CircuitOperation.with_measurement_key_mapping uses *)
Theorem C12_key_map_compose : forall dom m1 m2 k, In (kname k) dom ->
  key_map (kmap_compose dom m1 m2) k = key_map m2 (key_map m1 k).
Proof. exact key_map_compose. Qed.
Print Assumptions C12_key_map_compose.

Theorem C12_key_map_prefix_commute : forall m p k, key_map m (key_prefix p k) = key_prefix p (key_map m k).
Proof. exact key_map_prefix_commute. Qed.
Print Assumptions C12_key_map_prefix_commute.

(* D1: a control key resolves to the innermost enclosing scope that binds it *)
Theorem C12_rescope_innermost : forall path b k nk,
  rescope_key path b k = Some nk ->
  exists j, (j <= List.length path)%nat /\ nk = key_prefix (firstn j path) k /\ In nk b /\
            forall j', (j < j' <= List.length path)%nat -> ~ In (key_prefix (firstn j' path) k) b.
Proof. exact rescope_innermost. Qed.
Print Assumptions C12_rescope_innermost.

Theorem C12_rescope_finds : forall path b k j, (j <= List.length path)%nat -> In (key_prefix (firstn j path) k) b ->
  exists nk, rescope_key path b k = Some nk.
Proof. exact rescope_finds. Qed.
Print Assumptions C12_rescope_finds.

(* D3: remapping a key inside a condition changes only the key  <->  both replace_key implementations keep the
   other fields.  The two booleans are read off the working tree (Generated/CondTables.v). *)
Theorem C12_condition_remap_iff : forall kK kM,
  (forall f c, cond_payload (cond_apply kK kM f c) = cond_payload c) <-> (kK = true /\ kM = true).
Proof. exact condition_remap_iff. Qed.
Print Assumptions C12_condition_remap_iff.

Theorem C12_condition_remap_faithful : forall f c,
  cond_payload (cond_apply true true f c) = cond_payload c /\
  cond_eid (cond_apply true true f c) = cond_eid c /\
  cond_slots (cond_apply true true f c) = map f (cond_slots c).
Proof. exact condition_remap_faithful. Qed.
Print Assumptions C12_condition_remap_faithful.

(* the witness (a & 2) == 2 under the identity remapping, for a tree whose BitMaskKeyCondition.replace_key drops fields *)
Theorem C12_condition_remap_refuted : forall kK,
  cond_payload (cond_apply kK false (fun k => k) remap_witness) <> cond_payload remap_witness /\
  cond_test (cond_apply kK false (fun k => k) remap_witness) 1 <> cond_test remap_witness 1.
Proof. exact condition_remap_refuted_mask. Qed.
Print Assumptions C12_condition_remap_refuted.

(* non-vacuity *)
Example C12_rescope_example :
  rescope_key ["p"; "0"]%string [MK ["p"]%string "a"; MK [] "a"] (MK [] "a") = Some (MK ["p"]%string "a").
Proof. reflexivity. Qed.
Example C12_compose_example :
  key_map (kmap_compose ["a"; "b"]%string [("a", "b"); ("b", "a")]%string [("a", "c"); ("b", "a")]%string) (MK [] "a")
  = MK [] "a".
Proof. reflexivity. Qed.
