(* C03 — deciding obligations: for each EigenGate family the regenerated eigen-decomposition,
   summed as EigenGate._unitary_ does, is the documented matrix, for all exponents and shifts. *)
From Coq Require Import List ZArith.
From VF Require Import Base.RingOps Base.Mat Gates.EigenGate Gates.GateSpecs Generated.EigenTables Gates.GateProofs.
Import ListNotations.

Theorem C03_XPow : forall K (O : Ops K), Laws O -> forall r rc g, kmul O r rc = k1 O ->
  eig_unitary O (tbl_XPow O) r rc g = spec_XPow O r rc g.
Proof. exact @eig_XPow. Qed.
Print Assumptions C03_XPow.

Theorem C03_YPow : forall K (O : Ops K), Laws O -> forall r rc g, kmul O r rc = k1 O ->
  eig_unitary O (tbl_YPow O) r rc g = spec_YPow O r rc g.
Proof. exact @eig_YPow. Qed.
Print Assumptions C03_YPow.

Theorem C03_ZPow : forall K (O : Ops K), Laws O -> forall r rc g, kmul O r rc = k1 O ->
  eig_unitary O (tbl_ZPow O) r rc g = spec_ZPow O r rc g.
Proof. exact @eig_ZPow. Qed.
Print Assumptions C03_ZPow.

Theorem C03_HPow : forall K (O : Ops K), Laws O -> forall r rc g, kmul O r rc = k1 O ->
  eig_unitary O (tbl_HPow O) r rc g = spec_HPow O r rc g.
Proof. exact @eig_HPow. Qed.
Print Assumptions C03_HPow.

Theorem C03_CZPow : forall K (O : Ops K), Laws O -> forall r rc g, kmul O r rc = k1 O ->
  eig_unitary O (tbl_CZPow O) r rc g = spec_CZPow O r rc g.
Proof. exact @eig_CZPow. Qed.
Print Assumptions C03_CZPow.

Theorem C03_CXPow : forall K (O : Ops K), Laws O -> forall r rc g, kmul O r rc = k1 O ->
  eig_unitary O (tbl_CXPow O) r rc g = spec_CXPow O r rc g.
Proof. exact @eig_CXPow. Qed.
Print Assumptions C03_CXPow.

Theorem C03_CYPow : forall K (O : Ops K), Laws O -> forall r rc g, kmul O r rc = k1 O ->
  eig_unitary O (tbl_CYPow O) r rc g = spec_CYPow O r rc g.
Proof. exact @eig_CYPow. Qed.
Print Assumptions C03_CYPow.

Theorem C03_SwapPow : forall K (O : Ops K), Laws O -> forall r rc g, kmul O r rc = k1 O ->
  eig_unitary O (tbl_SwapPow O) r rc g = spec_SwapPow O r rc g.
Proof. exact @eig_SwapPow. Qed.
Print Assumptions C03_SwapPow.

Theorem C03_ISwapPow : forall K (O : Ops K), Laws O -> forall r rc g, kmul O r rc = k1 O ->
  eig_unitary O (tbl_ISwapPow O) r rc g = spec_ISwapPow O r rc g.
Proof. exact @eig_ISwapPow. Qed.
Print Assumptions C03_ISwapPow.

Theorem C03_XXPow : forall K (O : Ops K), Laws O -> forall r rc g, kmul O r rc = k1 O ->
  eig_unitary O (tbl_XXPow O) r rc g = spec_XXPow O r rc g.
Proof. exact @eig_XXPow. Qed.
Print Assumptions C03_XXPow.

Theorem C03_YYPow : forall K (O : Ops K), Laws O -> forall r rc g, kmul O r rc = k1 O ->
  eig_unitary O (tbl_YYPow O) r rc g = spec_YYPow O r rc g.
Proof. exact @eig_YYPow. Qed.
Print Assumptions C03_YYPow.

Theorem C03_ZZPow : forall K (O : Ops K), Laws O -> forall r rc g, kmul O r rc = k1 O ->
  eig_unitary O (tbl_ZZPow O) r rc g = spec_ZZPow O r rc g.
Proof. exact @eig_ZZPow. Qed.
Print Assumptions C03_ZZPow.

Theorem C03_CCZPow : forall K (O : Ops K), Laws O -> forall r rc g, kmul O r rc = k1 O ->
  eig_unitary O (tbl_CCZPow O) r rc g = spec_CCZPow O r rc g.
Proof. exact @eig_CCZPow. Qed.
Print Assumptions C03_CCZPow.

Theorem C03_CCXPow : forall K (O : Ops K), Laws O -> forall r rc g, kmul O r rc = k1 O ->
  eig_unitary O (tbl_CCXPow O) r rc g = spec_CCXPow O r rc g.
Proof. exact @eig_CCXPow. Qed.
Print Assumptions C03_CCXPow.

Theorem C03_CCYPow : forall K (O : Ops K), Laws O -> forall r rc g, kmul O r rc = k1 O ->
  eig_unitary O (tbl_CCYPow O) r rc g = spec_CCYPow O r rc g.
Proof. exact @eig_CCYPow. Qed.
Print Assumptions C03_CCYPow.

Theorem C03_Z4Pow : forall K (O : Ops K), Laws O -> forall r rc g, kmul O r rc = k1 O ->
  eig_unitary O (tbl_Z4Pow O) r rc g = spec_Z4Pow O r rc g.
Proof. exact @eig_Z4Pow. Qed.
Print Assumptions C03_Z4Pow.

Theorem C03_X4Pow : forall K (O : Ops K), Laws O -> forall r rc g, kmul O r rc = k1 O ->
  eig_unitary O (tbl_X4Pow O) r rc g = spec_X4Pow O r rc g.
Proof. exact @eig_X4Pow. Qed.
Print Assumptions C03_X4Pow.

Theorem C03_PI_X0X0 : forall K (O : Ops K), Laws O -> forall r rc g, kmul O r rc = k1 O ->
  eig_unitary O (tbl_PI_X0X0 O) r rc g = spec_PI O 0 false 0 false r rc g.
Proof. exact @eig_PI_X0X0. Qed.
Print Assumptions C03_PI_X0X0.

Theorem C03_PI_X0X1 : forall K (O : Ops K), Laws O -> forall r rc g, kmul O r rc = k1 O ->
  eig_unitary O (tbl_PI_X0X1 O) r rc g = spec_PI O 0 false 0 true r rc g.
Proof. exact @eig_PI_X0X1. Qed.
Print Assumptions C03_PI_X0X1.

Theorem C03_PI_X1X0 : forall K (O : Ops K), Laws O -> forall r rc g, kmul O r rc = k1 O ->
  eig_unitary O (tbl_PI_X1X0 O) r rc g = spec_PI O 0 true 0 false r rc g.
Proof. exact @eig_PI_X1X0. Qed.
Print Assumptions C03_PI_X1X0.

Theorem C03_PI_X1X1 : forall K (O : Ops K), Laws O -> forall r rc g, kmul O r rc = k1 O ->
  eig_unitary O (tbl_PI_X1X1 O) r rc g = spec_PI O 0 true 0 true r rc g.
Proof. exact @eig_PI_X1X1. Qed.
Print Assumptions C03_PI_X1X1.

Theorem C03_PI_X0Y0 : forall K (O : Ops K), Laws O -> forall r rc g, kmul O r rc = k1 O ->
  eig_unitary O (tbl_PI_X0Y0 O) r rc g = spec_PI O 0 false 1 false r rc g.
Proof. exact @eig_PI_X0Y0. Qed.
Print Assumptions C03_PI_X0Y0.

Theorem C03_PI_X0Y1 : forall K (O : Ops K), Laws O -> forall r rc g, kmul O r rc = k1 O ->
  eig_unitary O (tbl_PI_X0Y1 O) r rc g = spec_PI O 0 false 1 true r rc g.
Proof. exact @eig_PI_X0Y1. Qed.
Print Assumptions C03_PI_X0Y1.

Theorem C03_PI_X1Y0 : forall K (O : Ops K), Laws O -> forall r rc g, kmul O r rc = k1 O ->
  eig_unitary O (tbl_PI_X1Y0 O) r rc g = spec_PI O 0 true 1 false r rc g.
Proof. exact @eig_PI_X1Y0. Qed.
Print Assumptions C03_PI_X1Y0.

Theorem C03_PI_X1Y1 : forall K (O : Ops K), Laws O -> forall r rc g, kmul O r rc = k1 O ->
  eig_unitary O (tbl_PI_X1Y1 O) r rc g = spec_PI O 0 true 1 true r rc g.
Proof. exact @eig_PI_X1Y1. Qed.
Print Assumptions C03_PI_X1Y1.

Theorem C03_PI_X0Z0 : forall K (O : Ops K), Laws O -> forall r rc g, kmul O r rc = k1 O ->
  eig_unitary O (tbl_PI_X0Z0 O) r rc g = spec_PI O 0 false 2 false r rc g.
Proof. exact @eig_PI_X0Z0. Qed.
Print Assumptions C03_PI_X0Z0.

Theorem C03_PI_X0Z1 : forall K (O : Ops K), Laws O -> forall r rc g, kmul O r rc = k1 O ->
  eig_unitary O (tbl_PI_X0Z1 O) r rc g = spec_PI O 0 false 2 true r rc g.
Proof. exact @eig_PI_X0Z1. Qed.
Print Assumptions C03_PI_X0Z1.

Theorem C03_PI_X1Z0 : forall K (O : Ops K), Laws O -> forall r rc g, kmul O r rc = k1 O ->
  eig_unitary O (tbl_PI_X1Z0 O) r rc g = spec_PI O 0 true 2 false r rc g.
Proof. exact @eig_PI_X1Z0. Qed.
Print Assumptions C03_PI_X1Z0.

Theorem C03_PI_X1Z1 : forall K (O : Ops K), Laws O -> forall r rc g, kmul O r rc = k1 O ->
  eig_unitary O (tbl_PI_X1Z1 O) r rc g = spec_PI O 0 true 2 true r rc g.
Proof. exact @eig_PI_X1Z1. Qed.
Print Assumptions C03_PI_X1Z1.

Theorem C03_PI_Y0X0 : forall K (O : Ops K), Laws O -> forall r rc g, kmul O r rc = k1 O ->
  eig_unitary O (tbl_PI_Y0X0 O) r rc g = spec_PI O 1 false 0 false r rc g.
Proof. exact @eig_PI_Y0X0. Qed.
Print Assumptions C03_PI_Y0X0.

Theorem C03_PI_Y0X1 : forall K (O : Ops K), Laws O -> forall r rc g, kmul O r rc = k1 O ->
  eig_unitary O (tbl_PI_Y0X1 O) r rc g = spec_PI O 1 false 0 true r rc g.
Proof. exact @eig_PI_Y0X1. Qed.
Print Assumptions C03_PI_Y0X1.

Theorem C03_PI_Y1X0 : forall K (O : Ops K), Laws O -> forall r rc g, kmul O r rc = k1 O ->
  eig_unitary O (tbl_PI_Y1X0 O) r rc g = spec_PI O 1 true 0 false r rc g.
Proof. exact @eig_PI_Y1X0. Qed.
Print Assumptions C03_PI_Y1X0.

Theorem C03_PI_Y1X1 : forall K (O : Ops K), Laws O -> forall r rc g, kmul O r rc = k1 O ->
  eig_unitary O (tbl_PI_Y1X1 O) r rc g = spec_PI O 1 true 0 true r rc g.
Proof. exact @eig_PI_Y1X1. Qed.
Print Assumptions C03_PI_Y1X1.

Theorem C03_PI_Y0Y0 : forall K (O : Ops K), Laws O -> forall r rc g, kmul O r rc = k1 O ->
  eig_unitary O (tbl_PI_Y0Y0 O) r rc g = spec_PI O 1 false 1 false r rc g.
Proof. exact @eig_PI_Y0Y0. Qed.
Print Assumptions C03_PI_Y0Y0.

Theorem C03_PI_Y0Y1 : forall K (O : Ops K), Laws O -> forall r rc g, kmul O r rc = k1 O ->
  eig_unitary O (tbl_PI_Y0Y1 O) r rc g = spec_PI O 1 false 1 true r rc g.
Proof. exact @eig_PI_Y0Y1. Qed.
Print Assumptions C03_PI_Y0Y1.

Theorem C03_PI_Y1Y0 : forall K (O : Ops K), Laws O -> forall r rc g, kmul O r rc = k1 O ->
  eig_unitary O (tbl_PI_Y1Y0 O) r rc g = spec_PI O 1 true 1 false r rc g.
Proof. exact @eig_PI_Y1Y0. Qed.
Print Assumptions C03_PI_Y1Y0.

Theorem C03_PI_Y1Y1 : forall K (O : Ops K), Laws O -> forall r rc g, kmul O r rc = k1 O ->
  eig_unitary O (tbl_PI_Y1Y1 O) r rc g = spec_PI O 1 true 1 true r rc g.
Proof. exact @eig_PI_Y1Y1. Qed.
Print Assumptions C03_PI_Y1Y1.

Theorem C03_PI_Y0Z0 : forall K (O : Ops K), Laws O -> forall r rc g, kmul O r rc = k1 O ->
  eig_unitary O (tbl_PI_Y0Z0 O) r rc g = spec_PI O 1 false 2 false r rc g.
Proof. exact @eig_PI_Y0Z0. Qed.
Print Assumptions C03_PI_Y0Z0.

Theorem C03_PI_Y0Z1 : forall K (O : Ops K), Laws O -> forall r rc g, kmul O r rc = k1 O ->
  eig_unitary O (tbl_PI_Y0Z1 O) r rc g = spec_PI O 1 false 2 true r rc g.
Proof. exact @eig_PI_Y0Z1. Qed.
Print Assumptions C03_PI_Y0Z1.

Theorem C03_PI_Y1Z0 : forall K (O : Ops K), Laws O -> forall r rc g, kmul O r rc = k1 O ->
  eig_unitary O (tbl_PI_Y1Z0 O) r rc g = spec_PI O 1 true 2 false r rc g.
Proof. exact @eig_PI_Y1Z0. Qed.
Print Assumptions C03_PI_Y1Z0.

Theorem C03_PI_Y1Z1 : forall K (O : Ops K), Laws O -> forall r rc g, kmul O r rc = k1 O ->
  eig_unitary O (tbl_PI_Y1Z1 O) r rc g = spec_PI O 1 true 2 true r rc g.
Proof. exact @eig_PI_Y1Z1. Qed.
Print Assumptions C03_PI_Y1Z1.

Theorem C03_PI_Z0X0 : forall K (O : Ops K), Laws O -> forall r rc g, kmul O r rc = k1 O ->
  eig_unitary O (tbl_PI_Z0X0 O) r rc g = spec_PI O 2 false 0 false r rc g.
Proof. exact @eig_PI_Z0X0. Qed.
Print Assumptions C03_PI_Z0X0.

Theorem C03_PI_Z0X1 : forall K (O : Ops K), Laws O -> forall r rc g, kmul O r rc = k1 O ->
  eig_unitary O (tbl_PI_Z0X1 O) r rc g = spec_PI O 2 false 0 true r rc g.
Proof. exact @eig_PI_Z0X1. Qed.
Print Assumptions C03_PI_Z0X1.

Theorem C03_PI_Z1X0 : forall K (O : Ops K), Laws O -> forall r rc g, kmul O r rc = k1 O ->
  eig_unitary O (tbl_PI_Z1X0 O) r rc g = spec_PI O 2 true 0 false r rc g.
Proof. exact @eig_PI_Z1X0. Qed.
Print Assumptions C03_PI_Z1X0.

Theorem C03_PI_Z1X1 : forall K (O : Ops K), Laws O -> forall r rc g, kmul O r rc = k1 O ->
  eig_unitary O (tbl_PI_Z1X1 O) r rc g = spec_PI O 2 true 0 true r rc g.
Proof. exact @eig_PI_Z1X1. Qed.
Print Assumptions C03_PI_Z1X1.

Theorem C03_PI_Z0Y0 : forall K (O : Ops K), Laws O -> forall r rc g, kmul O r rc = k1 O ->
  eig_unitary O (tbl_PI_Z0Y0 O) r rc g = spec_PI O 2 false 1 false r rc g.
Proof. exact @eig_PI_Z0Y0. Qed.
Print Assumptions C03_PI_Z0Y0.

Theorem C03_PI_Z0Y1 : forall K (O : Ops K), Laws O -> forall r rc g, kmul O r rc = k1 O ->
  eig_unitary O (tbl_PI_Z0Y1 O) r rc g = spec_PI O 2 false 1 true r rc g.
Proof. exact @eig_PI_Z0Y1. Qed.
Print Assumptions C03_PI_Z0Y1.

Theorem C03_PI_Z1Y0 : forall K (O : Ops K), Laws O -> forall r rc g, kmul O r rc = k1 O ->
  eig_unitary O (tbl_PI_Z1Y0 O) r rc g = spec_PI O 2 true 1 false r rc g.
Proof. exact @eig_PI_Z1Y0. Qed.
Print Assumptions C03_PI_Z1Y0.

Theorem C03_PI_Z1Y1 : forall K (O : Ops K), Laws O -> forall r rc g, kmul O r rc = k1 O ->
  eig_unitary O (tbl_PI_Z1Y1 O) r rc g = spec_PI O 2 true 1 true r rc g.
Proof. exact @eig_PI_Z1Y1. Qed.
Print Assumptions C03_PI_Z1Y1.

Theorem C03_PI_Z0Z0 : forall K (O : Ops K), Laws O -> forall r rc g, kmul O r rc = k1 O ->
  eig_unitary O (tbl_PI_Z0Z0 O) r rc g = spec_PI O 2 false 2 false r rc g.
Proof. exact @eig_PI_Z0Z0. Qed.
Print Assumptions C03_PI_Z0Z0.

Theorem C03_PI_Z0Z1 : forall K (O : Ops K), Laws O -> forall r rc g, kmul O r rc = k1 O ->
  eig_unitary O (tbl_PI_Z0Z1 O) r rc g = spec_PI O 2 false 2 true r rc g.
Proof. exact @eig_PI_Z0Z1. Qed.
Print Assumptions C03_PI_Z0Z1.

Theorem C03_PI_Z1Z0 : forall K (O : Ops K), Laws O -> forall r rc g, kmul O r rc = k1 O ->
  eig_unitary O (tbl_PI_Z1Z0 O) r rc g = spec_PI O 2 true 2 false r rc g.
Proof. exact @eig_PI_Z1Z0. Qed.
Print Assumptions C03_PI_Z1Z0.

Theorem C03_PI_Z1Z1 : forall K (O : Ops K), Laws O -> forall r rc g, kmul O r rc = k1 O ->
  eig_unitary O (tbl_PI_Z1Z1 O) r rc g = spec_PI O 2 true 2 true r rc g.
Proof. exact @eig_PI_Z1Z1. Qed.
Print Assumptions C03_PI_Z1Z1.

(* non-vacuity: the ring laws assumed by every theorem above hold in the exact instance Q(zeta_8),
   and a unit parameter exists there (r = zeta_8, i.e. exponent t = 1/2). *)
From VF Require Import Base.K8.
From Coq Require Import Qcanon.
Open Scope Qc_scope.
Theorem C03_laws_inhabited : Laws K8Ops /\ kmul K8Ops (mk8 0 1 0 0) (mk8 0 0 0 (-(1))) = k1 K8Ops.
Proof. split; [exact K8Laws | vm_compute; reflexivity]. Qed.
Print Assumptions C03_laws_inhabited.

(* closed-form families are tied to the eigen families by the identities their docstrings state *)
From VF Require Import Gates.DocIdentities.
Theorem C03_fsim_is_iswap_cz : forall K (O : Ops K), Laws O -> forall u uc v vc q qc : K,
  kmul O u uc = k1 O -> kmul O q q = vc ->
  spec_FSim O u uc v vc = mmul O (spec_ISwapPow O uc u (k1 O)) (spec_CZPow O q qc (k1 O)).
Proof. exact @fsim_is_iswap_cz. Qed.
Print Assumptions C03_fsim_is_iswap_cz.
Theorem C03_phased_xz_is_product : forall K (O : Ops K), Laws O -> forall fa fac fz fzc r rc : K,
  kmul O fa fac = k1 O -> kmul O r rc = k1 O ->
  spec_PhasedXZ O fa fac fz fzc r rc
  = mmul O (mdiag O [k1 O; fz]) (mmul O (mdiag O [k1 O; fa]) (mmul O (spec_XPow O r rc (k1 O)) (mdiag O [k1 O; fac]))).
Proof. exact @phased_xz_is_product. Qed.
Print Assumptions C03_phased_xz_is_product.
Theorem C03_phased_iswap_is_conjugated_iswap : forall K (O : Ops K), Laws O -> forall e ec r rc g : K,
  kmul O e ec = k1 O ->
  spec_PhasedISwap O (kmul O e e) (kmul O ec ec) r rc g
  = mmul O (kron O (mdiag O [k1 O; ec]) (mdiag O [k1 O; e]))
           (mmul O (spec_ISwapPow O r rc g) (kron O (mdiag O [k1 O; e]) (mdiag O [k1 O; ec]))).
Proof. exact @phased_iswap_is_conjugated_iswap. Qed.
Print Assumptions C03_phased_iswap_is_conjugated_iswap.

(* ======================================================================================================== *)
(* second batch (Gates/MoreSpecs.v, Gates/MoreProofs.v): diagonal gates, BooleanHamiltonianGate, ParallelGate,
   ArithmeticGate, the 24 single-qubit Cliffords, DensePauliString, UniformSuperpositionGate, PauliInteractionGate
   constants, StatePreparationChannel / ResetChannel(d) / RandomGateChannel / MeasurementGate Kraus operators.
   Sizes are universally quantified (any diagonal length, any number of copies, any register sizes, any string
   length, any qudit dimension); the Clifford table is a finite domain (24 cases). *)
From Coq Require Import Arith Bool.
From VF Require Import Base.Tensor Gates.MoreSpecs Gates.MoreProofs.
Close Scope Qc_scope.

(* ---- TwoQubitDiagonalGate / ThreeQubitDiagonalGate / DiagonalGate ---- *)
Theorem C03_diag_mul : forall K (O : Ops K), Laws O -> forall a b : list K, length a = length b ->
  mmul O (spec_Diagonal O a) (spec_Diagonal O b) = spec_Diagonal O (vmul O a b).
Proof. exact @diag_mul. Qed.
Print Assumptions C03_diag_mul.
Theorem C03_diag_commute : forall K (O : Ops K), Laws O -> forall a b : list K, length a = length b ->
  mmul O (spec_Diagonal O a) (spec_Diagonal O b) = mmul O (spec_Diagonal O b) (spec_Diagonal O a).
Proof. exact @diag_commute. Qed.
Print Assumptions C03_diag_commute.
Theorem C03_diag_unitary : forall K (O : Ops K), Laws O -> forall d : list K,
  Forall (fun x => kmul O x (kconj O x) = k1 O) d ->
  mmul O (spec_Diagonal O d) (mdagger O (spec_Diagonal O d)) = mid O (length d).
Proof. exact @diag_unitary. Qed.
Print Assumptions C03_diag_unitary.

(* ---- BooleanHamiltonianGate ---- *)
Theorem C03_bh_entries : forall K (O : Ops K) n es (u : K) i j,
  i < length (enum (repeat 2 n)) -> j < length (enum (repeat 2 n)) ->
  mget O (spec_BoolHam O n es u) i j
  = if Nat.eqb i j then kpow O u (bh_count es (nth i (enum (repeat 2 n)) [])) else k0 O.
Proof. exact @bh_entries. Qed.
Print Assumptions C03_bh_entries.
Theorem C03_bh_compose : forall K (O : Ops K), Laws O -> forall n es (u v : K),
  mmul O (spec_BoolHam O n es u) (spec_BoolHam O n es v) = spec_BoolHam O n es (kmul O u v).
Proof. exact @bh_compose. Qed.
Print Assumptions C03_bh_compose.
Theorem C03_bh_clauses_add : forall K (O : Ops K), Laws O -> forall n es1 es2 (u : K),
  spec_BoolHam O n (es1 ++ es2) u = mmul O (spec_BoolHam O n es1 u) (spec_BoolHam O n es2 u).
Proof. exact @bh_clauses_add. Qed.
Print Assumptions C03_bh_clauses_add.
Theorem C03_bh_commute : forall K (O : Ops K), Laws O -> forall n es1 es2 (u v : K),
  mmul O (spec_BoolHam O n es1 u) (spec_BoolHam O n es2 v) = mmul O (spec_BoolHam O n es2 v) (spec_BoolHam O n es1 u).
Proof. exact @bh_commute. Qed.
Print Assumptions C03_bh_commute.
Theorem C03_bh_unitary : forall K (O : Ops K), Laws O -> forall n es (u uc : K),
  kmul O u uc = k1 O -> kconj O u = uc ->
  mmul O (spec_BoolHam O n es u) (mdagger O (spec_BoolHam O n es u)) = mid O (length (enum (repeat 2 n))).
Proof. exact @bh_unitary. Qed.
Print Assumptions C03_bh_unitary.

(* ---- ParallelGate ---- *)
Theorem C03_parallel_is_kron_power : forall K (O : Ops K) n (u : matrix (K:=K)),
  spec_Parallel O 0 u = [[k1 O]] /\ spec_Parallel O (S n) u = kron O u (spec_Parallel O n u).
Proof. intros K O n u. split; [exact (parallel_zero O u) | exact (parallel_succ O n u)]. Qed.
Print Assumptions C03_parallel_is_kron_power.
Theorem C03_parallel_one : forall K (O : Ops K), Laws O -> forall d (u : matrix (K:=K)), sq d u -> spec_Parallel O 1 u = u.
Proof. exact @parallel_one. Qed.
Print Assumptions C03_parallel_one.
Theorem C03_parallel_mul : forall K (O : Ops K), Laws O -> forall n d (u v : matrix (K:=K)), 0 < d -> sq d u -> sq d v ->
  mmul O (spec_Parallel O n u) (spec_Parallel O n v) = spec_Parallel O n (mmul O u v).
Proof. exact @parallel_mul. Qed.
Print Assumptions C03_parallel_mul.
Theorem C03_parallel_dagger : forall K (O : Ops K), Laws O -> forall n d (u : matrix (K:=K)), 0 < d -> sq d u ->
  mdagger O (spec_Parallel O n u) = spec_Parallel O n (mdagger O u).
Proof. exact @parallel_dagger. Qed.
Print Assumptions C03_parallel_dagger.
Theorem C03_parallel_unitary : forall K (O : Ops K), Laws O -> forall n d (u : matrix (K:=K)), 0 < d -> sq d u ->
  mmul O u (mdagger O u) = mid O d ->
  mmul O (spec_Parallel O n u) (mdagger O (spec_Parallel O n u)) = spec_Parallel O n (mid O d).
Proof. exact @parallel_unitary. Qed.
Print Assumptions C03_parallel_unitary.

(* ---- DensePauliString / MutableDensePauliString as a gate ---- *)
Theorem C03_pauli4_mul : forall K (O : Ops K), Laws O -> forall x y,
  mmul O (pauli4 O x) (pauli4 O y) = mscale O (kpow O (ki O) (pmul_phase x y)) (pauli4 O (pmul_code x y)).
Proof. exact @pauli4_mul. Qed.
Print Assumptions C03_pauli4_mul.
Theorem C03_dense_pauli_mul : forall K (O : Ops K), Laws O -> forall (c c' : K) a b, length a = length b ->
  mmul O (spec_DensePauli O c a) (spec_DensePauli O c' b)
  = spec_DensePauli O (kmul O (kmul O c c') (kpow O (ki O) (dp_phase a b))) (dp_code a b).
Proof. exact @dense_pauli_mul. Qed.
Print Assumptions C03_dense_pauli_mul.

(* ---- ArithmeticGate ---- *)
Theorem C03_perm_compose : forall K (O : Ops K), Laws O -> forall N (f g : nat -> nat), (forall k, k < N -> g k < N) ->
  mmul O (spec_BasisPerm O N f) (spec_BasisPerm O N g) = spec_BasisPerm O N (fun k => f (g k)).
Proof. exact @perm_compose. Qed.
Print Assumptions C03_perm_compose.
Theorem C03_perm_unitary_iff : forall K (O : Ops K), Laws O -> forall N (f : nat -> nat), k1 O <> k0 O ->
  (forall j, j < N -> f j < N) ->
  (mmul O (mdagger O (spec_BasisPerm O N f)) (spec_BasisPerm O N f) = mid O N
   <-> (forall j k, j < N -> k < N -> f j = f k -> j = k)).
Proof. exact @perm_unitary_iff. Qed.
Print Assumptions C03_perm_unitary_iff.
Theorem C03_arith_target_lt : forall regs apply j t, j < size (arith_sizes regs) ->
  arith_target regs apply j = Some t -> t < size (arith_sizes regs).
Proof. exact arith_target_lt. Qed.
Print Assumptions C03_arith_target_lt.
Theorem C03_arith_unitary_iff : forall K (O : Ops K), Laws O -> forall regs apply (M : matrix (K:=K)), k1 O <> k0 O ->
  spec_Arith O regs apply = Some M ->
  (mmul O (mdagger O M) M = mid O (size (arith_sizes regs))
   <-> (forall j k, j < size (arith_sizes regs) -> k < size (arith_sizes regs) ->
                    arith_tgt regs apply j = arith_tgt regs apply k -> j = k)).
Proof. exact @arith_unitary_iff. Qed.
Print Assumptions C03_arith_unitary_iff.
Theorem C03_arith_compose : forall K (O : Ops K), Laws O -> forall regs ap1 ap2 (M1 M2 : matrix (K:=K)),
  spec_Arith O regs ap1 = Some M1 -> spec_Arith O regs ap2 = Some M2 ->
  mmul O M1 M2 = spec_BasisPerm O (size (arith_sizes regs)) (fun j => arith_tgt regs ap1 (arith_tgt regs ap2 j)).
Proof. exact @arith_compose. Qed.
Print Assumptions C03_arith_compose.
Theorem C03_arith_add_const : forall dims c j, j < size dims ->
  arith_target [RQu dims; RConst c] (aop_apply OpAdd) j = Some (Z.to_nat ((Z.of_nat j + c) mod Z.of_nat (size dims))).
Proof. exact arith_add_const. Qed.
Print Assumptions C03_arith_add_const.
Theorem C03_arith_doc_example : forall K (O : Ops K),
  spec_Arith O [RQu [2; 2]; RConst 1] (aop_apply OpAdd)
  = Some [[k0 O; k0 O; k0 O; k1 O]; [k1 O; k0 O; k0 O; k0 O]; [k0 O; k1 O; k0 O; k0 O]; [k0 O; k0 O; k1 O; k0 O]].
Proof. exact @arith_doc_example. Qed.
Print Assumptions C03_arith_doc_example.

(* ---- SingleQubitCliffordGate: all_single_qubit_cliffords (finite domain, 24 cases) ---- *)
Theorem C03_cliff_conj : forall K (O : Ops K), Laws O -> forall k, k < 24 ->
  conj_by O (cliff_unitary O k) (pauli_mat O 0) = signed_pauli O (fst (nth k cliff_images cliff_dflt)) /\
  conj_by O (cliff_unitary O k) (pauli_mat O 2) = signed_pauli O (snd (nth k cliff_images cliff_dflt)).
Proof. exact @cliff_conj. Qed.
Print Assumptions C03_cliff_conj.
Theorem C03_cliff_unitary : forall K (O : Ops K), Laws O -> forall k, k < 24 ->
  mmul O (cliff_unitary O k) (mdagger O (cliff_unitary O k)) = mid O 2.
Proof. exact @cliff_unitary_ok. Qed.
Print Assumptions C03_cliff_unitary.
Theorem C03_cliff_conj_k8 : forall k, In k (seq 0 24) -> cliff_ok_k8 k = true.
Proof. exact cliff_conj_k8. Qed.
Print Assumptions C03_cliff_conj_k8.
Theorem C03_cliff_images_distinct : NoDup cliff_images /\ length cliff_images = 24.
Proof. split; [exact cliff_images_distinct | reflexivity]. Qed.
Print Assumptions C03_cliff_images_distinct.

(* ---- PauliInteractionGate.CZ / .CNOT ---- *)
Theorem C03_pi_ZZ_is_CZPow : forall K (O : Ops K), Laws O -> forall r rc g : K,
  spec_PI O 2 false 2 false r rc g = spec_CZPow O r rc g.
Proof. exact @pi_ZZ_is_CZPow. Qed.
Print Assumptions C03_pi_ZZ_is_CZPow.
Theorem C03_pi_ZX_is_CXPow : forall K (O : Ops K), Laws O -> forall r rc g : K, kmul O r rc = k1 O ->
  spec_PI O 2 false 0 false r rc g = spec_CXPow O r rc g.
Proof. exact @pi_ZX_is_CXPow. Qed.
Print Assumptions C03_pi_ZX_is_CXPow.

(* ---- UniformSuperpositionGate ---- *)
Theorem C03_uniform_length : forall K (O : Ops K) (s : K) M n, M <= Nat.pow 2 n ->
  length (spec_UniformSup_col O s M n) = Nat.pow 2 n.
Proof. exact @uniform_length. Qed.
Print Assumptions C03_uniform_length.
Theorem C03_uniform_norm : forall K (O : Ops K), Laws O -> forall (s : K) M n,
  ksum O (map (fun x => kmul O x (kconj O x)) (spec_UniformSup_col O s M n)) = kmuln O M (kmul O s (kconj O s)).
Proof. exact @uniform_norm. Qed.
Print Assumptions C03_uniform_norm.

(* ---- channels: StatePreparationChannel, ResetChannel(d), MeasurementGate, RandomGateChannel ---- *)
Theorem C03_ketbra_tp : forall K (O : Ops K), Laws O -> forall psi : list K,
  ksum O (map (fun x => kmul O (kconj O x) x) psi) = k1 O ->
  kraus_gram_n O (length psi) (ketbra_ops O psi) = mid O (length psi).
Proof. exact @ketbra_tp. Qed.
Print Assumptions C03_ketbra_tp.
Theorem C03_reset_tp : forall K (O : Ops K), Laws O -> forall d, 0 < d -> kraus_gram_n O d (spec_Reset O d) = mid O d.
Proof. exact @reset_tp. Qed.
Print Assumptions C03_reset_tp.
Theorem C03_measure_tp : forall K (O : Ops K), Laws O -> forall N, kraus_gram_n O N (spec_Measure O N) = mid O N.
Proof. exact @measure_tp. Qed.
Print Assumptions C03_measure_tp.
Theorem C03_random_gate_tp : forall K (O : Ops K), Laws O -> forall n (sp sq_ : K) (ks : list (matrix (K:=K))),
  0 < n -> Forall (sq n) ks -> kconj O sp = sp -> kconj O sq_ = sq_ ->
  kadd O (kmul O sp sp) (kmul O sq_ sq_) = k1 O -> kraus_gram_n O n ks = mid O n ->
  kraus_gram_n O n (spec_RandomGate_kraus O sp sq_ n ks) = mid O n.
Proof. exact @random_gate_tp. Qed.
Print Assumptions C03_random_gate_tp.

(* non-vacuity of the hypotheses used above, in the exact instance Q(zeta_8) *)
Theorem C03_more_hyps_inhabited :
  kmul K8Ops zeta8 zeta8c = k1 K8Ops /\ kconj K8Ops zeta8 = zeta8c
  /\ Forall (fun x => kmul K8Ops x (kconj K8Ops x) = k1 K8Ops) [k1 K8Ops; ki K8Ops; zeta8]
  /\ ksum K8Ops (map (fun x => kmul K8Ops (kconj K8Ops x) x) [ks2 K8Ops; kmul K8Ops (ki K8Ops) (ks2 K8Ops)]) = k1 K8Ops
  /\ kconj K8Ops (ks2 K8Ops) = ks2 K8Ops
  /\ kadd K8Ops (kmul K8Ops (ks2 K8Ops) (ks2 K8Ops)) (kmul K8Ops (ks2 K8Ops) (ks2 K8Ops)) = k1 K8Ops
  /\ kraus_gram_n K8Ops 2 [mid K8Ops 2] = mid K8Ops 2 /\ sq 2 (mid K8Ops 2)
  /\ k1 K8Ops <> k0 K8Ops.
Proof. exact more_hyps_inhabited. Qed.
Print Assumptions C03_more_hyps_inhabited.

(* ---- unitarity of the documented closed forms, for every exponent and global shift (Gates/UnitaryProofs.v):
        r = exp(i pi t / 2), the global phase g and the other unit parameters come with their conjugate-and-inverse ---- *)
From VF Require Import Gates.UnitaryProofs.
Theorem C03_unitary_XPow : forall K (O : Ops K), Laws O -> forall r rc g gc, unit_pair O r rc -> unit_pair O g gc ->
  mmul O (spec_XPow O r rc g) (mdagger O (spec_XPow O r rc g)) = mid O 2.
Proof. exact @unitary_XPow. Qed.
Print Assumptions C03_unitary_XPow.
Theorem C03_unitary_YPow : forall K (O : Ops K), Laws O -> forall r rc g gc, unit_pair O r rc -> unit_pair O g gc ->
  mmul O (spec_YPow O r rc g) (mdagger O (spec_YPow O r rc g)) = mid O 2.
Proof. exact @unitary_YPow. Qed.
Print Assumptions C03_unitary_YPow.
Theorem C03_unitary_ZPow : forall K (O : Ops K), Laws O -> forall r rc g gc, unit_pair O r rc -> unit_pair O g gc ->
  mmul O (spec_ZPow O r rc g) (mdagger O (spec_ZPow O r rc g)) = mid O 2.
Proof. exact @unitary_ZPow. Qed.
Print Assumptions C03_unitary_ZPow.
Theorem C03_unitary_HPow : forall K (O : Ops K), Laws O -> forall r rc g gc, unit_pair O r rc -> unit_pair O g gc ->
  mmul O (spec_HPow O r rc g) (mdagger O (spec_HPow O r rc g)) = mid O 2.
Proof. exact @unitary_HPow. Qed.
Print Assumptions C03_unitary_HPow.
Theorem C03_unitary_CZPow : forall K (O : Ops K), Laws O -> forall r rc g gc, unit_pair O r rc -> unit_pair O g gc ->
  mmul O (spec_CZPow O r rc g) (mdagger O (spec_CZPow O r rc g)) = mid O 4.
Proof. exact @unitary_CZPow. Qed.
Print Assumptions C03_unitary_CZPow.
Theorem C03_unitary_CXPow : forall K (O : Ops K), Laws O -> forall r rc g gc, unit_pair O r rc -> unit_pair O g gc ->
  mmul O (spec_CXPow O r rc g) (mdagger O (spec_CXPow O r rc g)) = mid O 4.
Proof. exact @unitary_CXPow. Qed.
Print Assumptions C03_unitary_CXPow.
Theorem C03_unitary_CYPow : forall K (O : Ops K), Laws O -> forall r rc g gc, unit_pair O r rc -> unit_pair O g gc ->
  mmul O (spec_CYPow O r rc g) (mdagger O (spec_CYPow O r rc g)) = mid O 4.
Proof. exact @unitary_CYPow. Qed.
Print Assumptions C03_unitary_CYPow.
Theorem C03_unitary_SwapPow : forall K (O : Ops K), Laws O -> forall r rc g gc, unit_pair O r rc -> unit_pair O g gc ->
  mmul O (spec_SwapPow O r rc g) (mdagger O (spec_SwapPow O r rc g)) = mid O 4.
Proof. exact @unitary_SwapPow. Qed.
Print Assumptions C03_unitary_SwapPow.
Theorem C03_unitary_ISwapPow : forall K (O : Ops K), Laws O -> forall r rc g gc, unit_pair O r rc -> unit_pair O g gc ->
  mmul O (spec_ISwapPow O r rc g) (mdagger O (spec_ISwapPow O r rc g)) = mid O 4.
Proof. exact @unitary_ISwapPow. Qed.
Print Assumptions C03_unitary_ISwapPow.
Theorem C03_unitary_XXPow : forall K (O : Ops K), Laws O -> forall r rc g gc, unit_pair O r rc -> unit_pair O g gc ->
  mmul O (spec_XXPow O r rc g) (mdagger O (spec_XXPow O r rc g)) = mid O 4.
Proof. exact @unitary_XXPow. Qed.
Print Assumptions C03_unitary_XXPow.
Theorem C03_unitary_YYPow : forall K (O : Ops K), Laws O -> forall r rc g gc, unit_pair O r rc -> unit_pair O g gc ->
  mmul O (spec_YYPow O r rc g) (mdagger O (spec_YYPow O r rc g)) = mid O 4.
Proof. exact @unitary_YYPow. Qed.
Print Assumptions C03_unitary_YYPow.
Theorem C03_unitary_ZZPow : forall K (O : Ops K), Laws O -> forall r rc g gc, unit_pair O r rc -> unit_pair O g gc ->
  mmul O (spec_ZZPow O r rc g) (mdagger O (spec_ZZPow O r rc g)) = mid O 4.
Proof. exact @unitary_ZZPow. Qed.
Print Assumptions C03_unitary_ZZPow.
Theorem C03_unitary_CCZPow : forall K (O : Ops K), Laws O -> forall r rc g gc, unit_pair O r rc -> unit_pair O g gc ->
  mmul O (spec_CCZPow O r rc g) (mdagger O (spec_CCZPow O r rc g)) = mid O 8.
Proof. exact @unitary_CCZPow. Qed.
Print Assumptions C03_unitary_CCZPow.
Theorem C03_unitary_CCXPow : forall K (O : Ops K), Laws O -> forall r rc g gc, unit_pair O r rc -> unit_pair O g gc ->
  mmul O (spec_CCXPow O r rc g) (mdagger O (spec_CCXPow O r rc g)) = mid O 8.
Proof. exact @unitary_CCXPow. Qed.
Print Assumptions C03_unitary_CCXPow.
Theorem C03_unitary_CCYPow : forall K (O : Ops K), Laws O -> forall r rc g gc, unit_pair O r rc -> unit_pair O g gc ->
  mmul O (spec_CCYPow O r rc g) (mdagger O (spec_CCYPow O r rc g)) = mid O 8.
Proof. exact @unitary_CCYPow. Qed.
Print Assumptions C03_unitary_CCYPow.
Theorem C03_unitary_Z4Pow : forall K (O : Ops K), Laws O -> forall r rc g gc, unit_pair O r rc -> unit_pair O g gc ->
  mmul O (spec_Z4Pow O r rc g) (mdagger O (spec_Z4Pow O r rc g)) = mid O 4.
Proof. exact @unitary_Z4Pow. Qed.
Print Assumptions C03_unitary_Z4Pow.
Theorem C03_unitary_FSim : forall K (O : Ops K), Laws O -> forall u uc v vc, unit_pair O u uc -> unit_pair O v vc ->
  mmul O (spec_FSim O u uc v vc) (mdagger O (spec_FSim O u uc v vc)) = mid O 4.
Proof. exact @unitary_FSim. Qed.
Print Assumptions C03_unitary_FSim.
Theorem C03_unitary_PhasedX : forall K (O : Ops K), Laws O -> forall f fc r rc g gc, unit_pair O f fc -> unit_pair O r rc -> unit_pair O g gc ->
  mmul O (spec_PhasedX O f fc r rc g) (mdagger O (spec_PhasedX O f fc r rc g)) = mid O 2.
Proof. exact @unitary_PhasedX. Qed.
Print Assumptions C03_unitary_PhasedX.
Theorem C03_unitary_PhasedXZ : forall K (O : Ops K), Laws O -> forall a ac fz fzc r rc, unit_pair O a ac -> unit_pair O fz fzc -> unit_pair O r rc ->
  mmul O (spec_PhasedXZ O a ac fz fzc r rc) (mdagger O (spec_PhasedXZ O a ac fz fzc r rc)) = mid O 2.
Proof. exact @unitary_PhasedXZ. Qed.
Print Assumptions C03_unitary_PhasedXZ.
Theorem C03_unitary_PhasedISwap : forall K (O : Ops K), Laws O -> forall f fc r rc g gc, unit_pair O f fc -> unit_pair O r rc -> unit_pair O g gc ->
  mmul O (spec_PhasedISwap O f fc r rc g) (mdagger O (spec_PhasedISwap O f fc r rc g)) = mid O 4.
Proof. exact @unitary_PhasedISwap. Qed.
Print Assumptions C03_unitary_PhasedISwap.
Theorem C03_unitary_GPI : forall K (O : Ops K), Laws O -> forall p pc, unit_pair O p pc ->
  mmul O (spec_GPI O p pc) (mdagger O (spec_GPI O p pc)) = mid O 2.
Proof. exact @unitary_GPI. Qed.
Print Assumptions C03_unitary_GPI.
Theorem C03_unitary_GPI2 : forall K (O : Ops K), Laws O -> forall p pc, unit_pair O p pc ->
  mmul O (spec_GPI2 O p pc) (mdagger O (spec_GPI2 O p pc)) = mid O 2.
Proof. exact @unitary_GPI2. Qed.
Print Assumptions C03_unitary_GPI2.
Theorem C03_unitary_IonqMS : forall K (O : Ops K), Laws O -> forall a ac b bc r rc, unit_pair O a ac -> unit_pair O b bc -> unit_pair O r rc ->
  mmul O (spec_IonqMS O a ac b bc r rc) (mdagger O (spec_IonqMS O a ac b bc r rc)) = mid O 4.
Proof. exact @unitary_IonqMS. Qed.
Print Assumptions C03_unitary_IonqMS.
Theorem C03_unitary_IonqZZ : forall K (O : Ops K), Laws O -> forall r rc, unit_pair O r rc ->
  mmul O (spec_IonqZZ O r rc) (mdagger O (spec_IonqZZ O r rc)) = mid O 4.
Proof. exact @unitary_IonqZZ. Qed.
Print Assumptions C03_unitary_IonqZZ.
Theorem C03_unitary_PhasedFSim : forall K (O : Ops K), Laws O -> forall u uc ze zec ch chc ga gac ph phc, unit_pair O u uc -> unit_pair O ze zec -> unit_pair O ch chc -> unit_pair O ga gac -> unit_pair O ph phc ->
  mmul O (spec_PhasedFSim O u uc ze zec ch chc ga gac ph phc) (mdagger O (spec_PhasedFSim O u uc ze zec ch chc ga gac ph phc)) = mid O 4.
Proof. exact @unitary_PhasedFSim. Qed.
Print Assumptions C03_unitary_PhasedFSim.
Theorem C03_unitary_X4Pow : forall K (O : Ops K), Laws O -> forall r rc g gc, unit_pair O r rc -> unit_pair O g gc ->
  mmul O (spec_X4Pow O r rc g) (mdagger O (spec_X4Pow O r rc g)) = mid O 4.
Proof. exact @unitary_X4Pow. Qed.
Print Assumptions C03_unitary_X4Pow.
(* the hypotheses are satisfiable: i is a unit whose conjugate is its inverse (exponent 1), in the exact instance *)
Example C03_unit_pair_inhabited : unit_pair K8Ops (ki K8Ops) (kopp K8Ops (ki K8Ops)).
Proof. repeat split; vm_compute; reflexivity. Qed.
