(* C03 — deciding obligations: for each EigenGate family the regenerated eigen-decomposition,
   summed as EigenGate._unitary_ does, is the documented matrix, for all exponents and shifts. *)
From Coq Require Import List ZArith.
From VF Require Import Base.RingOps Base.Mat Gates.EigenGate Gates.GateSpecs Generated.EigenTables Gates.GateProofs.
Import ListNotations.

Theorem C03_XPow : forall K (O : Ops K), Laws O -> forall r rc g, kmul O r rc = k1 O ->
  eig_unitary O (tbl_XPow O) r rc g = spec_XPow O r rc g.
Proof. exact @eig_XPow. Qed.
Print Assumptions C03_XPow.

Theorem C03_YPow : forall K (O : Ops K), Laws O -> forall r rc g, kmul O r rc = k1 O ->
  eig_unitary O (tbl_YPow O) r rc g = spec_YPow O r rc g.
Proof. exact @eig_YPow. Qed.
Print Assumptions C03_YPow.

Theorem C03_ZPow : forall K (O : Ops K), Laws O -> forall r rc g, kmul O r rc = k1 O ->
  eig_unitary O (tbl_ZPow O) r rc g = spec_ZPow O r rc g.
Proof. exact @eig_ZPow. Qed.
Print Assumptions C03_ZPow.

Theorem C03_HPow : forall K (O : Ops K), Laws O -> forall r rc g, kmul O r rc = k1 O ->
  eig_unitary O (tbl_HPow O) r rc g = spec_HPow O r rc g.
Proof. exact @eig_HPow. Qed.
Print Assumptions C03_HPow.

Theorem C03_CZPow : forall K (O : Ops K), Laws O -> forall r rc g, kmul O r rc = k1 O ->
  eig_unitary O (tbl_CZPow O) r rc g = spec_CZPow O r rc g.
Proof. exact @eig_CZPow. Qed.
Print Assumptions C03_CZPow.

Theorem C03_CXPow : forall K (O : Ops K), Laws O -> forall r rc g, kmul O r rc = k1 O ->
  eig_unitary O (tbl_CXPow O) r rc g = spec_CXPow O r rc g.
Proof. exact @eig_CXPow. Qed.
Print Assumptions C03_CXPow.

Theorem C03_CYPow : forall K (O : Ops K), Laws O -> forall r rc g, kmul O r rc = k1 O ->
  eig_unitary O (tbl_CYPow O) r rc g = spec_CYPow O r rc g.
Proof. exact @eig_CYPow. Qed.
Print Assumptions C03_CYPow.

Theorem C03_SwapPow : forall K (O : Ops K), Laws O -> forall r rc g, kmul O r rc = k1 O ->
  eig_unitary O (tbl_SwapPow O) r rc g = spec_SwapPow O r rc g.
Proof. exact @eig_SwapPow. Qed.
Print Assumptions C03_SwapPow.

Theorem C03_ISwapPow : forall K (O : Ops K), Laws O -> forall r rc g, kmul O r rc = k1 O ->
  eig_unitary O (tbl_ISwapPow O) r rc g = spec_ISwapPow O r rc g.
Proof. exact @eig_ISwapPow. Qed.
Print Assumptions C03_ISwapPow.

Theorem C03_XXPow : forall K (O : Ops K), Laws O -> forall r rc g, kmul O r rc = k1 O ->
  eig_unitary O (tbl_XXPow O) r rc g = spec_XXPow O r rc g.
Proof. exact @eig_XXPow. Qed.
Print Assumptions C03_XXPow.

Theorem C03_YYPow : forall K (O : Ops K), Laws O -> forall r rc g, kmul O r rc = k1 O ->
  eig_unitary O (tbl_YYPow O) r rc g = spec_YYPow O r rc g.
Proof. exact @eig_YYPow. Qed.
Print Assumptions C03_YYPow.

Theorem C03_ZZPow : forall K (O : Ops K), Laws O -> forall r rc g, kmul O r rc = k1 O ->
  eig_unitary O (tbl_ZZPow O) r rc g = spec_ZZPow O r rc g.
Proof. exact @eig_ZZPow. Qed.
Print Assumptions C03_ZZPow.

Theorem C03_CCZPow : forall K (O : Ops K), Laws O -> forall r rc g, kmul O r rc = k1 O ->
  eig_unitary O (tbl_CCZPow O) r rc g = spec_CCZPow O r rc g.
Proof. exact @eig_CCZPow. Qed.
Print Assumptions C03_CCZPow.

Theorem C03_CCXPow : forall K (O : Ops K), Laws O -> forall r rc g, kmul O r rc = k1 O ->
  eig_unitary O (tbl_CCXPow O) r rc g = spec_CCXPow O r rc g.
Proof. exact @eig_CCXPow. Qed.
Print Assumptions C03_CCXPow.

Theorem C03_CCYPow : forall K (O : Ops K), Laws O -> forall r rc g, kmul O r rc = k1 O ->
  eig_unitary O (tbl_CCYPow O) r rc g = spec_CCYPow O r rc g.
Proof. exact @eig_CCYPow. Qed.
Print Assumptions C03_CCYPow.

Theorem C03_Z4Pow : forall K (O : Ops K), Laws O -> forall r rc g, kmul O r rc = k1 O ->
  eig_unitary O (tbl_Z4Pow O) r rc g = spec_Z4Pow O r rc g.
Proof. exact @eig_Z4Pow. Qed.
Print Assumptions C03_Z4Pow.

Theorem C03_X4Pow : forall K (O : Ops K), Laws O -> forall r rc g, kmul O r rc = k1 O ->
  eig_unitary O (tbl_X4Pow O) r rc g = spec_X4Pow O r rc g.
Proof. exact @eig_X4Pow. Qed.
Print Assumptions C03_X4Pow.

Theorem C03_PI_X0X0 : forall K (O : Ops K), Laws O -> forall r rc g, kmul O r rc = k1 O ->
  eig_unitary O (tbl_PI_X0X0 O) r rc g = spec_PI O 0 false 0 false r rc g.
Proof. exact @eig_PI_X0X0. Qed.
Print Assumptions C03_PI_X0X0.

Theorem C03_PI_X0X1 : forall K (O : Ops K), Laws O -> forall r rc g, kmul O r rc = k1 O ->
  eig_unitary O (tbl_PI_X0X1 O) r rc g = spec_PI O 0 false 0 true r rc g.
Proof. exact @eig_PI_X0X1. Qed.
Print Assumptions C03_PI_X0X1.

Theorem C03_PI_X1X0 : forall K (O : Ops K), Laws O -> forall r rc g, kmul O r rc = k1 O ->
  eig_unitary O (tbl_PI_X1X0 O) r rc g = spec_PI O 0 true 0 false r rc g.
Proof. exact @eig_PI_X1X0. Qed.
Print Assumptions C03_PI_X1X0.

Theorem C03_PI_X1X1 : forall K (O : Ops K), Laws O -> forall r rc g, kmul O r rc = k1 O ->
  eig_unitary O (tbl_PI_X1X1 O) r rc g = spec_PI O 0 true 0 true r rc g.
Proof. exact @eig_PI_X1X1. Qed.
Print Assumptions C03_PI_X1X1.

Theorem C03_PI_X0Y0 : forall K (O : Ops K), Laws O -> forall r rc g, kmul O r rc = k1 O ->
  eig_unitary O (tbl_PI_X0Y0 O) r rc g = spec_PI O 0 false 1 false r rc g.
Proof. exact @eig_PI_X0Y0. Qed.
Print Assumptions C03_PI_X0Y0.

Theorem C03_PI_X0Y1 : forall K (O : Ops K), Laws O -> forall r rc g, kmul O r rc = k1 O ->
  eig_unitary O (tbl_PI_X0Y1 O) r rc g = spec_PI O 0 false 1 true r rc g.
Proof. exact @eig_PI_X0Y1. Qed.
Print Assumptions C03_PI_X0Y1.

Theorem C03_PI_X1Y0 : forall K (O : Ops K), Laws O -> forall r rc g, kmul O r rc = k1 O ->
  eig_unitary O (tbl_PI_X1Y0 O) r rc g = spec_PI O 0 true 1 false r rc g.
Proof. exact @eig_PI_X1Y0. Qed.
Print Assumptions C03_PI_X1Y0.

Theorem C03_PI_X1Y1 : forall K (O : Ops K), Laws O -> forall r rc g, kmul O r rc = k1 O ->
  eig_unitary O (tbl_PI_X1Y1 O) r rc g = spec_PI O 0 true 1 true r rc g.
Proof. exact @eig_PI_X1Y1. Qed.
Print Assumptions C03_PI_X1Y1.

Theorem C03_PI_X0Z0 : forall K (O : Ops K), Laws O -> forall r rc g, kmul O r rc = k1 O ->
  eig_unitary O (tbl_PI_X0Z0 O) r rc g = spec_PI O 0 false 2 false r rc g.
Proof. exact @eig_PI_X0Z0. Qed.
Print Assumptions C03_PI_X0Z0.

Theorem C03_PI_X0Z1 : forall K (O : Ops K), Laws O -> forall r rc g, kmul O r rc = k1 O ->
  eig_unitary O (tbl_PI_X0Z1 O) r rc g = spec_PI O 0 false 2 true r rc g.
Proof. exact @eig_PI_X0Z1. Qed.
Print Assumptions C03_PI_X0Z1.

Theorem C03_PI_X1Z0 : forall K (O : Ops K), Laws O -> forall r rc g, kmul O r rc = k1 O ->
  eig_unitary O (tbl_PI_X1Z0 O) r rc g = spec_PI O 0 true 2 false r rc g.
Proof. exact @eig_PI_X1Z0. Qed.
Print Assumptions C03_PI_X1Z0.

Theorem C03_PI_X1Z1 : forall K (O : Ops K), Laws O -> forall r rc g, kmul O r rc = k1 O ->
  eig_unitary O (tbl_PI_X1Z1 O) r rc g = spec_PI O 0 true 2 true r rc g.
Proof. exact @eig_PI_X1Z1. Qed.
Print Assumptions C03_PI_X1Z1.

Theorem C03_PI_Y0X0 : forall K (O : Ops K), Laws O -> forall r rc g, kmul O r rc = k1 O ->
  eig_unitary O (tbl_PI_Y0X0 O) r rc g = spec_PI O 1 false 0 false r rc g.
Proof. exact @eig_PI_Y0X0. Qed.
Print Assumptions C03_PI_Y0X0.

Theorem C03_PI_Y0X1 : forall K (O : Ops K), Laws O -> forall r rc g, kmul O r rc = k1 O ->
  eig_unitary O (tbl_PI_Y0X1 O) r rc g = spec_PI O 1 false 0 true r rc g.
Proof. exact @eig_PI_Y0X1. Qed.
Print Assumptions C03_PI_Y0X1.

Theorem C03_PI_Y1X0 : forall K (O : Ops K), Laws O -> forall r rc g, kmul O r rc = k1 O ->
  eig_unitary O (tbl_PI_Y1X0 O) r rc g = spec_PI O 1 true 0 false r rc g.
Proof. exact @eig_PI_Y1X0. Qed.
Print Assumptions C03_PI_Y1X0.

Theorem C03_PI_Y1X1 : forall K (O : Ops K), Laws O -> forall r rc g, kmul O r rc = k1 O ->
  eig_unitary O (tbl_PI_Y1X1 O) r rc g = spec_PI O 1 true 0 true r rc g.
Proof. exact @eig_PI_Y1X1. Qed.
Print Assumptions C03_PI_Y1X1.

Theorem C03_PI_Y0Y0 : forall K (O : Ops K), Laws O -> forall r rc g, kmul O r rc = k1 O ->
  eig_unitary O (tbl_PI_Y0Y0 O) r rc g = spec_PI O 1 false 1 false r rc g.
Proof. exact @eig_PI_Y0Y0. Qed.
Print Assumptions C03_PI_Y0Y0.

Theorem C03_PI_Y0Y1 : forall K (O : Ops K), Laws O -> forall r rc g, kmul O r rc = k1 O ->
  eig_unitary O (tbl_PI_Y0Y1 O) r rc g = spec_PI O 1 false 1 true r rc g.
Proof. exact @eig_PI_Y0Y1. Qed.
Print Assumptions C03_PI_Y0Y1.

Theorem C03_PI_Y1Y0 : forall K (O : Ops K), Laws O -> forall r rc g, kmul O r rc = k1 O ->
  eig_unitary O (tbl_PI_Y1Y0 O) r rc g = spec_PI O 1 true 1 false r rc g.
Proof. exact @eig_PI_Y1Y0. Qed.
Print Assumptions C03_PI_Y1Y0.

Theorem C03_PI_Y1Y1 : forall K (O : Ops K), Laws O -> forall r rc g, kmul O r rc = k1 O ->
  eig_unitary O (tbl_PI_Y1Y1 O) r rc g = spec_PI O 1 true 1 true r rc g.
Proof. exact @eig_PI_Y1Y1. Qed.
Print Assumptions C03_PI_Y1Y1.

Theorem C03_PI_Y0Z0 : forall K (O : Ops K), Laws O -> forall r rc g, kmul O r rc = k1 O ->
  eig_unitary O (tbl_PI_Y0Z0 O) r rc g = spec_PI O 1 false 2 false r rc g.
Proof. exact @eig_PI_Y0Z0. Qed.
Print Assumptions C03_PI_Y0Z0.

Theorem C03_PI_Y0Z1 : forall K (O : Ops K), Laws O -> forall r rc g, kmul O r rc = k1 O ->
  eig_unitary O (tbl_PI_Y0Z1 O) r rc g = spec_PI O 1 false 2 true r rc g.
Proof. exact @eig_PI_Y0Z1. Qed.
Print Assumptions C03_PI_Y0Z1.

Theorem C03_PI_Y1Z0 : forall K (O : Ops K), Laws O -> forall r rc g, kmul O r rc = k1 O ->
  eig_unitary O (tbl_PI_Y1Z0 O) r rc g = spec_PI O 1 true 2 false r rc g.
Proof. exact @eig_PI_Y1Z0. Qed.
Print Assumptions C03_PI_Y1Z0.

Theorem C03_PI_Y1Z1 : forall K (O : Ops K), Laws O -> forall r rc g, kmul O r rc = k1 O ->
  eig_unitary O (tbl_PI_Y1Z1 O) r rc g = spec_PI O 1 true 2 true r rc g.
Proof. exact @eig_PI_Y1Z1. Qed.
Print Assumptions C03_PI_Y1Z1.

Theorem C03_PI_Z0X0 : forall K (O : Ops K), Laws O -> forall r rc g, kmul O r rc = k1 O ->
  eig_unitary O (tbl_PI_Z0X0 O) r rc g = spec_PI O 2 false 0 false r rc g.
Proof. exact @eig_PI_Z0X0. Qed.
Print Assumptions C03_PI_Z0X0.

Theorem C03_PI_Z0X1 : forall K (O : Ops K), Laws O -> forall r rc g, kmul O r rc = k1 O ->
  eig_unitary O (tbl_PI_Z0X1 O) r rc g = spec_PI O 2 false 0 true r rc g.
Proof. exact @eig_PI_Z0X1. Qed.
Print Assumptions C03_PI_Z0X1.

Theorem C03_PI_Z1X0 : forall K (O : Ops K), Laws O -> forall r rc g, kmul O r rc = k1 O ->
  eig_unitary O (tbl_PI_Z1X0 O) r rc g = spec_PI O 2 true 0 false r rc g.
Proof. exact @eig_PI_Z1X0. Qed.
Print Assumptions C03_PI_Z1X0.

Theorem C03_PI_Z1X1 : forall K (O : Ops K), Laws O -> forall r rc g, kmul O r rc = k1 O ->
  eig_unitary O (tbl_PI_Z1X1 O) r rc g = spec_PI O 2 true 0 true r rc g.
Proof. exact @eig_PI_Z1X1. Qed.
Print Assumptions C03_PI_Z1X1.

Theorem C03_PI_Z0Y0 : forall K (O : Ops K), Laws O -> forall r rc g, kmul O r rc = k1 O ->
  eig_unitary O (tbl_PI_Z0Y0 O) r rc g = spec_PI O 2 false 1 false r rc g.
Proof. exact @eig_PI_Z0Y0. Qed.
Print Assumptions C03_PI_Z0Y0.

Theorem C03_PI_Z0Y1 : forall K (O : Ops K), Laws O -> forall r rc g, kmul O r rc = k1 O ->
  eig_unitary O (tbl_PI_Z0Y1 O) r rc g = spec_PI O 2 false 1 true r rc g.
Proof. exact @eig_PI_Z0Y1. Qed.
Print Assumptions C03_PI_Z0Y1.

Theorem C03_PI_Z1Y0 : forall K (O : Ops K), Laws O -> forall r rc g, kmul O r rc = k1 O ->
  eig_unitary O (tbl_PI_Z1Y0 O) r rc g = spec_PI O 2 true 1 false r rc g.
Proof. exact @eig_PI_Z1Y0. Qed.
Print Assumptions C03_PI_Z1Y0.

Theorem C03_PI_Z1Y1 : forall K (O : Ops K), Laws O -> forall r rc g, kmul O r rc = k1 O ->
  eig_unitary O (tbl_PI_Z1Y1 O) r rc g = spec_PI O 2 true 1 true r rc g.
Proof. exact @eig_PI_Z1Y1. Qed.
Print Assumptions C03_PI_Z1Y1.

Theorem C03_PI_Z0Z0 : forall K (O : Ops K), Laws O -> forall r rc g, kmul O r rc = k1 O ->
  eig_unitary O (tbl_PI_Z0Z0 O) r rc g = spec_PI O 2 false 2 false r rc g.
Proof. exact @eig_PI_Z0Z0. Qed.
Print Assumptions C03_PI_Z0Z0.

Theorem C03_PI_Z0Z1 : forall K (O : Ops K), Laws O -> forall r rc g, kmul O r rc = k1 O ->
  eig_unitary O (tbl_PI_Z0Z1 O) r rc g = spec_PI O 2 false 2 true r rc g.
Proof. exact @eig_PI_Z0Z1. Qed.
Print Assumptions C03_PI_Z0Z1.

Theorem C03_PI_Z1Z0 : forall K (O : Ops K), Laws O -> forall r rc g, kmul O r rc = k1 O ->
  eig_unitary O (tbl_PI_Z1Z0 O) r rc g = spec_PI O 2 true 2 false r rc g.
Proof. exact @eig_PI_Z1Z0. Qed.
Print Assumptions C03_PI_Z1Z0.

Theorem C03_PI_Z1Z1 : forall K (O : Ops K), Laws O -> forall r rc g, kmul O r rc = k1 O ->
  eig_unitary O (tbl_PI_Z1Z1 O) r rc g = spec_PI O 2 true 2 true r rc g.
Proof. exact @eig_PI_Z1Z1. Qed.
Print Assumptions C03_PI_Z1Z1.

(* non-vacuity: the ring laws assumed by every theorem above hold in the exact instance Q(zeta_8),
   and a unit parameter exists there (r = zeta_8, i.e. exponent t = 1/2). *)
From VF Require Import Base.K8.
From Coq Require Import Qcanon.
Open Scope Qc_scope.
Theorem C03_laws_inhabited : Laws K8Ops /\ kmul K8Ops (mk8 0 1 0 0) (mk8 0 0 0 (-(1))) = k1 K8Ops.
Proof. split; [exact K8Laws | vm_compute; reflexivity]. Qed.
Print Assumptions C03_laws_inhabited.

(* closed-form families are tied to the eigen families by the identities their docstrings state *)
From VF Require Import Gates.DocIdentities.
Theorem C03_fsim_is_iswap_cz : forall K (O : Ops K), Laws O -> forall u uc v vc q qc : K,
  kmul O u uc = k1 O -> kmul O q q = vc ->
  spec_FSim O u uc v vc = mmul O (spec_ISwapPow O uc u (k1 O)) (spec_CZPow O q qc (k1 O)).
Proof. exact @fsim_is_iswap_cz. Qed.
Print Assumptions C03_fsim_is_iswap_cz.
Theorem C03_phased_xz_is_product : forall K (O : Ops K), Laws O -> forall fa fac fz fzc r rc : K,
  kmul O fa fac = k1 O -> kmul O r rc = k1 O ->
  spec_PhasedXZ O fa fac fz fzc r rc
  = mmul O (mdiag O [k1 O; fz]) (mmul O (mdiag O [k1 O; fa]) (mmul O (spec_XPow O r rc (k1 O)) (mdiag O [k1 O; fac]))).
Proof. exact @phased_xz_is_product. Qed.
Print Assumptions C03_phased_xz_is_product.
Theorem C03_phased_iswap_is_conjugated_iswap : forall K (O : Ops K), Laws O -> forall e ec r rc g : K,
  kmul O e ec = k1 O ->
  spec_PhasedISwap O (kmul O e e) (kmul O ec ec) r rc g
  = mmul O (kron O (mdiag O [k1 O; ec]) (mdiag O [k1 O; e]))
           (mmul O (spec_ISwapPow O r rc g) (kron O (mdiag O [k1 O; e]) (mdiag O [k1 O; ec]))).
Proof. exact @phased_iswap_is_conjugated_iswap. Qed.
Print Assumptions C03_phased_iswap_is_conjugated_iswap.
