(* List-based matrices over an Ops record: the executable linear algebra of the reference model. *)
From Coq Require Import List Arith ZArith.
From VF Require Import Base.RingOps.
Import ListNotations.

Section Mat.
  Context {K : Type} (O : Ops K).
  Notation "a +k b" := (kadd O a b) (at level 50, left associativity).
  Notation "a *k b" := (kmul O a b) (at level 40, left associativity).

  Definition vec := list K.
  Definition matrix := list (list K).

  (* integers and dyadic rationals inside K, built from the record's constants *)
  Fixpoint kofpos (p : positive) : K :=
    match p with
    | xH => k1 O
    | xO q => let x := kofpos q in x +k x
    | xI q => let x := kofpos q in (x +k x) +k k1 O
    end.
  Definition kofZ (z : Z) : K :=
    match z with Z0 => k0 O | Zpos p => kofpos p | Zneg p => kopp O (kofpos p) end.
  Fixpoint kpow (x : K) (n : nat) : K := match n with 0 => k1 O | S m => x *k kpow x m end.
  Definition kdy (n : Z) (e : nat) : K := kofZ n *k kpow (khalf O) e.          (* n / 2^e *)
  (* (a + b/sqrt2) + i (c + d/sqrt2), coefficients n/2^e *)
  Definition kcx (a b c d : Z) (e : nat) : K :=
    (kdy a e +k kdy b e *k ks2 O) +k ki O *k (kdy c e +k kdy d e *k ks2 O).
  (* integer power with the inverse supplied (units: x * xinv = 1) *)
  Definition kpowZ (x xinv : K) (n : Z) : K :=
    match n with Z0 => k1 O | Zpos p => kpow x (Pos.to_nat p) | Zneg p => kpow xinv (Pos.to_nat p) end.

  Definition vadd (a b : vec) : vec := map (fun p => fst p +k snd p) (combine a b).
  Definition vscale (c : K) (a : vec) : vec := map (fun x => c *k x) a.
  Definition madd (a b : matrix) : matrix := map (fun p => vadd (fst p) (snd p)) (combine a b).
  Definition mscale (c : K) (a : matrix) : matrix := map (vscale c) a.
  Definition mzero (n m : nat) : matrix := repeat (repeat (k0 O) m) n.
  Definition mid (n : nat) : matrix :=
    map (fun i => map (fun j => if Nat.eqb i j then k1 O else k0 O) (seq 0 n)) (seq 0 n).
  Definition mrow (a : matrix) (i : nat) : vec := nth i a [].
  Definition mget (a : matrix) (i j : nat) : K := nth j (nth i a []) (k0 O).
  Definition mcols (a : matrix) : nat := length (nth 0 a []).
  Definition mcol (a : matrix) (j : nat) : vec := map (fun r => nth j r (k0 O)) a.
  Definition mtranspose (a : matrix) : matrix := map (mcol a) (seq 0 (mcols a)).
  Definition mconj (a : matrix) : matrix := map (map (kconj O)) a.
  Definition mdagger (a : matrix) : matrix := mconj (mtranspose a).
  Definition mvec (a : matrix) (v : vec) : vec := map (fun r => kdot O r v) a.
  Definition mmul (a b : matrix) : matrix :=
    let bt := mtranspose b in map (fun r => map (fun c => kdot O r c) bt) a.
  Definition msum (n m : nat) (l : list matrix) : matrix := fold_right madd (mzero n m) l.
  (* Kronecker product, big-endian: first factor is the most significant *)
  Definition kron (a b : matrix) : matrix :=
    flat_map (fun ra => map (fun rb => flat_map (fun x => map (fun y => x *k y) rb) ra) b) a.
  Definition vkron (a b : vec) : vec := flat_map (fun x => map (fun y => x *k y) b) a.
  (* block diagonal a (+) b *)
  Definition mdirect (a b : matrix) : matrix :=
    let ca := mcols a in let cb := mcols b in
    map (fun r => r ++ repeat (k0 O) cb) a ++ map (fun r => repeat (k0 O) ca ++ r) b.
  Definition mdiag (d : list K) : matrix :=
    map (fun i => map (fun j => if Nat.eqb i j then nth i d (k0 O) else k0 O) (seq 0 (length d))) (seq 0 (length d)).
End Mat.
