From Coq Require Import ZArith List Bool Lia.
From VF Require Import Base.Digits.
Import ListNotations.
Open Scope Z_scope.

Definition prodZ (bs : list Z) : Z := fold_right Z.mul 1 bs.
Definition all_pos (bs : list Z) := Forall (fun b => 0 < b) bs.

Lemma prodZ_pos bs : all_pos bs -> 0 < prodZ bs.
Proof. induction 1 as [|b bs Hb _ IH]; unfold prodZ in *; simpl; [lia|apply Z.mul_pos_pos; assumption]. Qed.

Lemma prodZ_app a b : prodZ (a ++ b) = prodZ a * prodZ b.
Proof. unfold prodZ. induction a as [|x a IH]; simpl; [destruct (fold_right Z.mul 1 b); reflexivity|rewrite IH; ring]. Qed.

Lemma prodZ_rev a : prodZ (rev a) = prodZ a.
Proof. induction a as [|x a IH]; simpl; [reflexivity|]. rewrite prodZ_app, IH. unfold prodZ. simpl. ring. Qed.

(* snoc characterisation of the big-endian accumulator loop *)
Lemma dti_snoc ds bs d b acc : length ds = length bs ->
  digits_to_int_acc (ds ++ [d]) (bs ++ [b]) acc =
  match digits_to_int_acc ds bs acc with
  | Some x => if (0 <=? d) && (d <? b) then Some (x * b + d) else None
  | None => None
  end.
Proof.
  revert bs acc. induction ds as [|d0 ds IH]; intros [|b0 bs] acc Hl; simpl in *; try discriminate.
  - destruct ((0 <=? d) && (d <? b)); reflexivity.
  - destruct ((0 <=? d0) && (d0 <? b0)); [|reflexivity]. apply IH. lia.
Qed.

Lemma tdl_length v rbs : length (fst (to_digits_le v rbs)) = length rbs.
Proof.
  revert v. induction rbs as [|b r IH]; intros v; simpl; [reflexivity|].
  specialize (IH (v / b)). destruct (to_digits_le (v / b) r); simpl in *. lia.
Qed.

Lemma tdl_app v r1 r2 :
  to_digits_le v (r1 ++ r2) =
  let '(d1, l1) := to_digits_le v r1 in
  let '(d2, l2) := to_digits_le l1 r2 in (d1 ++ d2, l2).
Proof.
  revert v. induction r1 as [|b r IH]; intros v; simpl.
  - destruct (to_digits_le v r2); reflexivity.
  - rewrite IH. destruct (to_digits_le (v / b) r) as [d1 l1].
    destruct (to_digits_le l1 r2) as [d2 l2]. reflexivity.
Qed.

Lemma tdl_left v rbs : all_pos rbs -> snd (to_digits_le v rbs) = v / prodZ rbs.
Proof.
  intros H. revert v. induction H as [|b r Hb Hr IH]; intros v; simpl.
  - rewrite Z.div_1_r. reflexivity.
  - specialize (IH (v / b)). destruct (to_digits_le (v / b) r) as [ds l]. simpl in *.
    rewrite IH. rewrite Z.div_div; try lia. apply prodZ_pos in Hr. lia.
Qed.

(* int -> digits -> int *)
Lemma tdl_back rbs : all_pos rbs -> forall v ds rest,
  to_digits_le v rbs = (ds, rest) ->
  digits_to_int_acc (rev ds) (rev rbs) rest = Some v.
Proof.
  induction 1 as [|b r Hb Hr IH]; intros v ds rest E; simpl in E.
  - injection E as <- <-. reflexivity.
  - destruct (to_digits_le (v / b) r) as [ds' l'] eqn:E'. injection E as <- <-.
    simpl. rewrite dti_snoc.
    + rewrite (IH _ _ _ E').
      assert (0 <= v mod b < b) as Hm by (apply Z.mod_pos_bound; lia).
      replace ((0 <=? v mod b) && (v mod b <? b)) with true by
        (symmetry; apply andb_true_iff; split; [apply Z.leb_le|apply Z.ltb_lt]; lia).
      f_equal. rewrite (Z.div_mod v b) at 3 by lia. ring.
    + rewrite !rev_length. pose proof (tdl_length (v / b) r) as Hl. rewrite E' in Hl. exact Hl.
Qed.

Theorem int_digits_roundtrip v bs ds : all_pos bs ->
  int_to_digits v bs = Some ds -> digits_to_int ds bs = Some v.
Proof.
  intros Hp. unfold int_to_digits, digits_to_int.
  destruct (to_digits_le v (rev bs)) as [dl rest] eqn:E.
  destruct (rest =? 0) eqn:E0; [|discriminate]. intros [= <-].
  apply Z.eqb_eq in E0. subst rest.
  assert (Hp' : all_pos (rev bs)) by (apply Forall_rev; exact Hp).
  pose proof (tdl_back _ Hp' _ _ _ E) as H. rewrite rev_involutive in H. exact H.
Qed.

(* digits -> int -> digits *)
Lemma dti_forward ds : forall bs acc v,
  digits_to_int_acc ds bs acc = Some v ->
  to_digits_le v (rev bs) = (rev ds, acc).
Proof.
  induction ds as [|d ds IH]; intros [|b bs] acc v E; simpl in E; try discriminate.
  - injection E as <-. reflexivity.
  - destruct ((0 <=? d) && (d <? b)) eqn:Er; [|discriminate].
    apply andb_true_iff in Er as [H0 H1]. apply Z.leb_le in H0. apply Z.ltb_lt in H1.
    simpl. rewrite tdl_app. rewrite (IH _ _ _ E). simpl.
    replace ((acc * b + d) mod b) with d.
    2:{ rewrite Z.add_comm, Z.mod_add by lia. symmetry. apply Z.mod_small. lia. }
    replace ((acc * b + d) / b) with acc.
    2:{ rewrite Z.add_comm, Z.div_add by lia. rewrite Z.div_small by lia. lia. }
    reflexivity.
Qed.

Theorem digits_int_roundtrip ds bs v :
  digits_to_int ds bs = Some v -> int_to_digits v bs = Some ds.
Proof.
  unfold digits_to_int, int_to_digits. intros E.
  rewrite (dti_forward _ _ _ _ E). simpl. rewrite rev_involutive. reflexivity.
Qed.

(* the general path succeeds exactly on 0 <= v < product of the bases *)
Theorem int_to_digits_defined v bs : all_pos bs ->
  (int_to_digits v bs <> None <-> 0 <= v < prodZ bs).
Proof.
  intros Hp. unfold int_to_digits.
  assert (Hp' : all_pos (rev bs)) by (apply Forall_rev; exact Hp).
  pose proof (tdl_left v _ Hp') as Hl. rewrite prodZ_rev in Hl.
  destruct (to_digits_le v (rev bs)) as [dl rest]. simpl in Hl. subst rest.
  pose proof (prodZ_pos _ Hp) as HP.
  destruct (v / prodZ bs =? 0) eqn:E.
  - apply Z.eqb_eq in E. apply Z.div_small_iff in E; [|lia]. split; [intros _; lia|discriminate].
  - apply Z.eqb_neq in E. split; [congruence|]. intros Hr. exfalso. apply E.
    apply Z.div_small. exact Hr.
Qed.

(* the value of in-range digits is in range, so digits_to_int is injective *)
Theorem digits_to_int_injective ds1 ds2 bs v :
  digits_to_int ds1 bs = Some v -> digits_to_int ds2 bs = Some v -> ds1 = ds2.
Proof.
  intros H1 H2. apply digits_int_roundtrip in H1. apply digits_int_roundtrip in H2. congruence.
Qed.

(* ---- bits ---- *)
Definition bstep (a : Z) (e : bool) : Z := let r := Z.shiftl a 1 in if e then Z.lor r 1 else r.

Lemma bstep_arith a e : 0 <= a -> bstep a e = 2 * a + Z.b2z e.
Proof. intros Ha. destruct a as [|p|p]; [| |lia]; destruct e; reflexivity. Qed.

Lemma bits_fold_acc bits acc : 0 <= acc ->
  fold_left bstep bits acc = acc * 2 ^ Z.of_nat (length bits) + fold_left bstep bits 0
  /\ 0 <= fold_left bstep bits 0 < 2 ^ Z.of_nat (length bits).
Proof.
  revert acc. induction bits as [|e bits IH]; intros acc Ha.
  - simpl. split; lia.
  - cbn [fold_left length]. rewrite !bstep_arith by lia.
    destruct (IH (2 * acc + Z.b2z e)) as [IH1 IH2]; [destruct e; cbn [Z.b2z]; lia|].
    destruct (IH (2 * 0 + Z.b2z e)) as [IH3 _]; [destruct e; cbn [Z.b2z]; lia|].
    rewrite Nat2Z.inj_succ, Z.pow_succ_r by lia.
    split; [rewrite IH1, IH3; ring|]. rewrite IH3. destruct e; simpl Z.b2z; nia.
Qed.

Lemma bits_to_int_fold bits : bits_to_int bits = fold_left bstep bits 0.
Proof. reflexivity. Qed.

Lemma bits_to_int_cons e bits :
  bits_to_int (e :: bits) = Z.b2z e * 2 ^ Z.of_nat (length bits) + bits_to_int bits.
Proof.
  rewrite !bits_to_int_fold. cbn [fold_left]. rewrite bstep_arith by lia.
  destruct (bits_fold_acc bits (2 * 0 + Z.b2z e)) as [H _]; [destruct e; simpl; lia|].
  rewrite H. ring.
Qed.

Lemma bits_to_int_range bits : 0 <= bits_to_int bits < 2 ^ Z.of_nat (length bits).
Proof. rewrite bits_to_int_fold. apply (bits_fold_acc bits 0). lia. Qed.

Lemma land1_shiftr v i : 0 <= i -> Z.land (Z.shiftr v i) 1 = Z.b2z (Z.testbit v i).
Proof.
  intros Hi. change 1 with (Z.ones 1). rewrite Z.land_ones by lia.
  change (2 ^ 1) with 2. rewrite <- Z.bit0_mod. rewrite Z.shiftr_spec by lia. rewrite Z.add_0_l. reflexivity.
Qed.

Lemma int_to_bits_succ v n :
  int_to_bits v (S n) = Z.b2z (Z.testbit v (Z.of_nat n)) :: int_to_bits v n.
Proof.
  unfold int_to_bits. rewrite seq_S, rev_app_distr. simpl. rewrite land1_shiftr by lia. reflexivity.
Qed.

Lemma int_to_bits_length v n : length (int_to_bits v n) = n.
Proof. unfold int_to_bits. rewrite map_length, rev_length, seq_length. reflexivity. Qed.

(* int -> bits -> int drops the high bits, as the docstring says (two's complement for negatives) *)
Theorem int_bits_roundtrip v n :
  bits_to_int (map (Z.eqb 1) (int_to_bits v n)) = v mod 2 ^ Z.of_nat n.
Proof.
  induction n as [|n IH].
  - simpl. rewrite Z.mod_1_r. reflexivity.
  - rewrite int_to_bits_succ. cbn [map]. rewrite bits_to_int_cons, IH.
    rewrite map_length, int_to_bits_length.
    replace (Z.b2z (1 =? Z.b2z (Z.testbit v (Z.of_nat n)))) with (Z.b2z (Z.testbit v (Z.of_nat n)))
      by (destruct (Z.testbit v (Z.of_nat n)); reflexivity).
    rewrite Nat2Z.inj_succ. rewrite Z.testbit_spec' by lia.
    set (p := 2 ^ Z.of_nat n). assert (Hp : 0 < p) by (apply Z.pow_pos_nonneg; lia).
    rewrite Z.pow_succ_r by lia. fold p.
    rewrite (Z.mul_comm 2 p). rewrite Z.rem_mul_r by lia. ring.
Qed.

(* bits -> int -> bits *)
Theorem bits_int_roundtrip bits :
  int_to_bits (bits_to_int bits) (length bits) = map Z.b2z bits.
Proof.
  induction bits as [|e bits IH]; [reflexivity|].
  cbn [length map]. rewrite int_to_bits_succ.
  pose proof (bits_to_int_range bits) as Hr.
  set (n := Z.of_nat (length bits)) in *.
  assert (Hp : 0 < 2 ^ n) by (apply Z.pow_pos_nonneg; lia).
  f_equal.
  - rewrite bits_to_int_cons. fold n. rewrite Z.testbit_spec' by lia.
    rewrite Z.add_comm, Z.div_add by lia. rewrite Z.div_small by lia.
    destruct e; reflexivity.
  - rewrite <- IH. unfold int_to_bits. apply map_ext_in. intros i Hi.
    apply in_rev in Hi. apply in_seq in Hi.
    rewrite !land1_shiftr by lia. f_equal. rewrite bits_to_int_cons. fold n.
    rewrite <- (Z.mod_pow2_bits_low (Z.b2z e * 2 ^ n + bits_to_int bits) n) by lia.
    rewrite Z.add_comm, Z.mod_add by lia.
    rewrite Z.mod_pow2_bits_low by lia. reflexivity.
Qed.
