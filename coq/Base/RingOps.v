(* One Gallina source, several instantiations (DESIGN 1.1): a record of ring operations with the
   constants Cirq's tables need (i, 1/2, 1/sqrt 2) and the laws the theorems assume. *)
From Coq Require Import Ring List.
Import ListNotations.

Record Ops (K : Type) := mkOps {
  k0 : K; k1 : K;
  kadd : K -> K -> K; kmul : K -> K -> K; kopp : K -> K; ksub : K -> K -> K;
  kconj : K -> K;
  ki : K;        (* imaginary unit *)
  khalf : K;     (* 1/2 *)
  ks2 : K        (* 1/sqrt 2 *)
}.
Arguments k0 {K} _. Arguments k1 {K} _. Arguments kadd {K} _ _ _. Arguments kmul {K} _ _ _.
Arguments kopp {K} _ _. Arguments ksub {K} _ _ _. Arguments kconj {K} _ _.
Arguments ki {K} _. Arguments khalf {K} _. Arguments ks2 {K} _.

Record Laws {K : Type} (O : Ops K) := mkLaws {
  law_ring : ring_theory (k0 O) (k1 O) (kadd O) (kmul O) (ksub O) (kopp O) (@eq K);
  law_i : kmul O (ki O) (ki O) = kopp O (k1 O);
  law_half : kadd O (khalf O) (khalf O) = k1 O;
  law_s2 : kmul O (ks2 O) (ks2 O) = khalf O;
  law_conj_add : forall a b, kconj O (kadd O a b) = kadd O (kconj O a) (kconj O b);
  law_conj_mul : forall a b, kconj O (kmul O a b) = kmul O (kconj O a) (kconj O b);
  law_conj_invol : forall a, kconj O (kconj O a) = a;
  law_conj_i : kconj O (ki O) = kopp O (ki O);
  law_conj_half : kconj O (khalf O) = khalf O;
  law_conj_s2 : kconj O (ks2 O) = ks2 O;
  law_conj_1 : kconj O (k1 O) = k1 O
}.

Section Sums.
  Context {K : Type} (O : Ops K).
  Definition ksum (l : list K) : K := fold_right (kadd O) (k0 O) l.
  Definition kdot (a b : list K) : K := ksum (map (fun p => kmul O (fst p) (snd p)) (combine a b)).
End Sums.
