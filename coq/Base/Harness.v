(* Helpers for the correspondence check: the harness writes (input, implementation output)
   pairs; the model is evaluated by vm_compute and only the indices of disagreeing cases are printed. *)
From Coq Require Import ZArith List Bool String.
Import ListNotations.

Fixpoint failing_from {A} (n : nat) (f : A -> bool) (l : list A) : list nat :=
  match l with
  | [] => []
  | x :: r => if f x then failing_from (S n) f r else n :: failing_from (S n) f r
  end.
Definition failing {A} (f : A -> bool) (l : list A) : list nat := failing_from 0 f l.

Lemma failing_nil_all {A} (f : A -> bool) l : failing f l = [] -> forallb f l = true.
Proof.
  unfold failing. generalize 0. induction l as [|x r IH]; intros n; simpl; [reflexivity|].
  destruct (f x); [apply IH|discriminate].
Qed.

Fixpoint list_eqb {A} (e : A -> A -> bool) (a b : list A) : bool :=
  match a, b with
  | [], [] => true
  | x :: a', y :: b' => e x y && list_eqb e a' b'
  | _, _ => false
  end.
Definition opt_eqb {A} (e : A -> A -> bool) (a b : option A) : bool :=
  match a, b with
  | None, None => true
  | Some x, Some y => e x y
  | _, _ => false
  end.
Definition pair_eqb {A B} (ea : A -> A -> bool) (eb : B -> B -> bool) (a b : A * B) : bool :=
  ea (fst a) (fst b) && eb (snd a) (snd b).
Definition zl_eqb := list_eqb Z.eqb.
Definition zll_eqb := list_eqb zl_eqb.
Definition nl_eqb := list_eqb Nat.eqb.
Definition bl_eqb := list_eqb Bool.eqb.
