(* The exact executable instance K8 = Q(zeta_8) = Q[x]/(x^4+1) over canonical rationals (Leibniz
   equality).  It contains i, 1/2, 1/sqrt 2 and shows that the Laws assumed by every generic-ring
   theorem are satisfiable (non-vacuity), and it evaluates finite obligations exactly by vm_compute. *)
From Coq Require Import QArith Qcanon Ring.
From VF Require Import Base.RingOps.

Record K8 := mk8 { c0 : Qc; c1 : Qc; c2 : Qc; c3 : Qc }.   (* c0 + c1 z + c2 z^2 + c3 z^3, z^4 = -1 *)
Local Open Scope Qc_scope.
Definition k8_add (x y : K8) := mk8 (c0 x + c0 y) (c1 x + c1 y) (c2 x + c2 y) (c3 x + c3 y).
Definition k8_opp (x : K8) := mk8 (- c0 x) (- c1 x) (- c2 x) (- c3 x).
Definition k8_sub (x y : K8) := mk8 (c0 x - c0 y) (c1 x - c1 y) (c2 x - c2 y) (c3 x - c3 y).
Definition k8_mul (x y : K8) :=
  mk8 (c0 x * c0 y - c1 x * c3 y - c2 x * c2 y - c3 x * c1 y)
      (c0 x * c1 y + c1 x * c0 y - c2 x * c3 y - c3 x * c2 y)
      (c0 x * c2 y + c1 x * c1 y + c2 x * c0 y - c3 x * c3 y)
      (c0 x * c3 y + c1 x * c2 y + c2 x * c1 y + c3 x * c0 y).
Definition k8_conj (x : K8) := mk8 (c0 x) (- c3 x) (- c2 x) (- c1 x).
Definition qhalf : Qc := Q2Qc (1 # 2).
Definition K8Ops : Ops K8 :=
  mkOps K8 (mk8 0 0 0 0) (mk8 1 0 0 0) k8_add k8_mul k8_opp k8_sub k8_conj
        (mk8 0 0 1 0) (mk8 qhalf 0 0 0) (mk8 0 qhalf 0 (- qhalf)).

Lemma qhalf2 : qhalf + qhalf = 1. Proof. apply Qc_is_canon. reflexivity. Qed.
Lemma qhalf_sq : qhalf * qhalf + qhalf * qhalf = qhalf. Proof. apply Qc_is_canon. reflexivity. Qed.

Ltac k8 := intros; repeat match goal with x : K8 |- _ => destruct x end;
           unfold k8_add, k8_mul, k8_opp, k8_sub, k8_conj; simpl; f_equal; ring.

Lemma K8_ring : ring_theory (mk8 0 0 0 0) (mk8 1 0 0 0) k8_add k8_mul k8_sub k8_opp (@eq K8).
Proof. constructor; k8. Qed.

Theorem K8Laws : Laws K8Ops.
Proof.
  constructor; simpl.
  - exact K8_ring.
  - unfold k8_mul, k8_opp; simpl; f_equal; ring.
  - unfold k8_add; simpl. f_equal; try ring. exact qhalf2.
  - unfold k8_mul; simpl. f_equal; try ring.
    transitivity (qhalf * qhalf + qhalf * qhalf); [ring | exact qhalf_sq].
  - k8.
  - k8.
  - k8.
  - unfold k8_conj, k8_opp; simpl; f_equal; ring.
  - unfold k8_conj; simpl; f_equal; ring.
  - unfold k8_conj; simpl; f_equal; ring.
  - unfold k8_conj; simpl; f_equal; ring.
Qed.

(* decidable equality, for exact finite obligations *)
Definition k8_eqb (x y : K8) : bool :=
  Qc_eq_bool (c0 x) (c0 y) && Qc_eq_bool (c1 x) (c1 y) && Qc_eq_bool (c2 x) (c2 y) && Qc_eq_bool (c3 x) (c3 y).
