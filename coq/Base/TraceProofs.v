(* Theorems about trace equivalence (DESIGN 1.2, Appendix E.1): soundness of the checkers, the projection
   lemma, and the semantic consequence (runs of trace-equivalent operation lists are equal). *)
From Coq Require Import List Arith Lia Bool Permutation.
From VF Require Import Base.RingOps Base.Mat Base.Tensor Base.TensorProofs Base.Trace.
Import ListNotations.

(* ------------------------------------------------------------------------------------------------ *)
Section Generic.
  Variable op : Type.
  Variable dep : op -> op -> bool.
  Notation teq := (teq dep).
  Notation indep := (indep dep).

  Lemma teq_cons a l l' : teq l l' -> teq (a :: l) (a :: l').
  Proof.
    induction 1.
    - apply teq_refl.
    - apply (teq_swap op dep (a :: l1)); assumption.
    - eapply teq_trans; eassumption.
  Qed.

  Lemma teq_app_l p l l' : teq l l' -> teq (p ++ l) (p ++ l').
  Proof. induction p as [|a p IH]; intros H; simpl; [exact H|]. apply teq_cons. apply IH. exact H. Qed.

  Lemma teq_app_r s l l' : teq l l' -> teq (l ++ s) (l' ++ s).
  Proof.
    induction 1.
    - apply teq_refl.
    - rewrite <- !app_assoc. simpl. apply teq_swap. assumption.
    - eapply teq_trans; eassumption.
  Qed.

  Lemma teq_perm l l' : teq l l' -> Permutation l l'.
  Proof.
    induction 1.
    - apply Permutation_refl.
    - apply Permutation_app_head. apply perm_swap.
    - eapply Permutation_trans; eassumption.
  Qed.

  Lemma teq_length l l' : teq l l' -> length l = length l'.
  Proof. intros H. apply Permutation_length. apply teq_perm. exact H. Qed.

  (* with a symmetric dependency relation, trace equivalence is symmetric *)
  Lemma teq_sym : (forall a b, indep a b -> indep b a) -> forall l l', teq l l' -> teq l' l.
  Proof.
    intros Hs l l' H. induction H.
    - apply teq_refl.
    - apply teq_swap. apply Hs. assumption.
    - eapply teq_trans; eassumption.
  Qed.

  (* move a to the front across a block of operations each of which may be exchanged with it *)
  Lemma bubble a u v : Forall (fun b => indep b a) u -> teq (u ++ a :: v) (a :: u ++ v).
  Proof.
    induction u as [|b u IH]; intros Hf; simpl.
    - apply teq_refl.
    - inversion Hf as [|? ? Hb Hu]; subst.
      eapply teq_trans.
      + apply teq_cons. apply IH. assumption.
      + apply (teq_swap op dep [] b a (u ++ v)). assumption.
  Qed.

  Variable op_eqb : op -> op -> bool.
  Hypothesis op_eqb_eq : forall a b, op_eqb a b = true -> a = b.

  Lemma extract_spec a : forall l u v, extract op_eqb a l = Some (u, v) -> l = u ++ a :: v.
  Proof.
    induction l as [|b r IH]; intros u v H; simpl in H; [discriminate|].
    destruct (op_eqb a b) eqn:E.
    - injection H as <- <-. apply op_eqb_eq in E. subst. reflexivity.
    - destruct (extract op_eqb a r) as [[u' v']|] eqn:Ex; [|discriminate].
      injection H as <- <-. simpl. f_equal. apply IH. reflexivity.
  Qed.

  Theorem bubble_check_sound : forall w w', bubble_check dep op_eqb w w' = true -> teq w' w.
  Proof.
    induction w as [|a w IH]; intros w' H; simpl in H.
    - destruct w'; [apply teq_refl|discriminate].
    - destruct (extract op_eqb a w') as [[u v]|] eqn:Ex; [|discriminate].
      apply andb_true_iff in H as [Hu Hr].
      apply extract_spec in Ex. subst w'.
      eapply teq_trans.
      + apply bubble. apply Forall_forall. intros b Hb.
        rewrite forallb_forall in Hu. specialize (Hu b Hb). unfold Trace.indep.
        destruct (dep b a); [discriminate|reflexivity].
      + apply teq_cons. apply IH. exact Hr.
  Qed.
End Generic.

(* fewer dependencies, more equivalences *)
Lemma teq_mono {op} (d1 d2 : op -> op -> bool) :
  (forall a b, d1 a b = false -> d2 a b = false) -> forall l l', teq d1 l l' -> teq d2 l l'.
Proof.
  intros Hm l l' H. induction H.
  - apply teq_refl.
  - apply teq_swap. apply Hm. assumption.
  - eapply teq_trans; eassumption.
Qed.

(* ------------------------------------------------------------------------------------------------ *)
(* The projection lemma (Appendix E.1): all resources exclusive.                                     *)
Section Projection.
  Variable op : Type.
  Variable uid : op -> nat.
  Variable res : op -> list nat.
  Definition pshares (a b : op) : bool := existsb (fun r => existsb (Nat.eqb r) (res b)) (res a).
  Notation teq := (teq pshares).
  Notation indep := (indep pshares).

  Lemma pindep_sym a b : indep a b -> indep b a.
  Proof.
    unfold Trace.indep, pshares. intros H.
    apply not_true_is_false. intro Ht. apply existsb_exists in Ht as [r [Hr Hx]].
    apply existsb_exists in Hx as [r' [Hr' He]]. apply Nat.eqb_eq in He; subst r'.
    assert (existsb (fun r0 => existsb (Nat.eqb r0) (res b)) (res a) = true).
    { apply existsb_exists. exists r. split; [assumption|]. apply existsb_exists. exists r. split; [assumption| apply Nat.eqb_refl]. }
    congruence.
  Qed.

  Definition pproj (r : nat) (l : list op) := filter (fun o => existsb (Nat.eqb r) (res o)) l.

  Theorem projection_lemma : forall w w',
     NoDup (map uid w) -> NoDup (map uid w') ->
     Permutation w w' ->
     (forall r, pproj r w = pproj r w') ->
     teq w' w.
  Proof.
    induction w as [|a w IH]; intros w' Hnd Hnd' Hperm Hproj.
    - apply Permutation_nil in Hperm. subst. apply teq_refl.
    - assert (Hin : In a w') by (eapply Permutation_in; [exact Hperm | left; reflexivity]).
      apply in_split in Hin as [u [v Hw']]. subst w'.
      assert (Hu : Forall (fun b => indep b a) u).
      { apply Forall_forall. intros b Hb.
        destruct (pshares b a) eqn:Hs; [|exact Hs]. exfalso.
        unfold pshares in Hs. apply existsb_exists in Hs as [r [Hrb Hra]].
        apply existsb_exists in Hra as [r' [Hra He]]. apply Nat.eqb_eq in He; subst r'.
        specialize (Hproj r). unfold pproj in Hproj. simpl in Hproj.
        assert (Ea : existsb (Nat.eqb r) (res a) = true).
        { apply existsb_exists. exists r. split; [assumption|apply Nat.eqb_refl]. }
        rewrite Ea in Hproj. rewrite filter_app in Hproj.
        assert (Hbf : In b (filter (fun o => existsb (Nat.eqb r) (res o)) u)).
        { apply filter_In. split; [assumption|]. apply existsb_exists. exists r. split; [assumption|apply Nat.eqb_refl]. }
        destruct (filter (fun o => existsb (Nat.eqb r) (res o)) u) as [|c cs] eqn:Ef; [inversion Hbf|].
        simpl in Hproj. injection Hproj as Hac _. subst c.
        assert (Hau : In a u).
        { assert (Hx : In a (a :: cs)) by (left; reflexivity). rewrite <- Ef in Hx. apply filter_In in Hx. tauto. }
        rewrite map_app in Hnd'. simpl in Hnd'.
        apply NoDup_remove_2 in Hnd'. apply Hnd'. apply in_or_app. left. apply in_map. assumption. }
      eapply teq_trans; [apply bubble; exact Hu|].
      apply teq_cons. apply IH.
      + inversion Hnd; assumption.
      + rewrite map_app in *. simpl in Hnd'. apply NoDup_remove_1 in Hnd'. assumption.
      + apply Permutation_cons_app_inv with (a := a). assumption.
      + intros r. specialize (Hproj r). unfold pproj in *. simpl in Hproj.
        rewrite filter_app in *. simpl in Hproj.
        destruct (existsb (Nat.eqb r) (res a)) eqn:Ea.
        * assert (Hue : filter (fun o => existsb (Nat.eqb r) (res o)) u = []).
          { destruct (filter (fun o => existsb (Nat.eqb r) (res o)) u) as [|c cs] eqn:Ef; [reflexivity|]. exfalso.
            assert (Hc : In c u /\ existsb (Nat.eqb r) (res c) = true).
            { apply (proj1 (filter_In (fun o => existsb (Nat.eqb r) (res o)) c u)). rewrite Ef. left; reflexivity. }
            destruct Hc as [Hcu Hcr].
            rewrite Forall_forall in Hu. specialize (Hu c Hcu). unfold Trace.indep, pshares in Hu.
            apply existsb_exists in Hcr as [r' [Hr' He]]. apply Nat.eqb_eq in He; subst r'.
            apply existsb_exists in Ea as [r'' [Hr'' He]]. apply Nat.eqb_eq in He; subst r''.
            assert (existsb (fun r0 => existsb (Nat.eqb r0) (res a)) (res c) = true).
            { apply existsb_exists. exists r. split; [assumption|]. apply existsb_exists. exists r. split; [assumption|apply Nat.eqb_refl]. }
            congruence. }
          rewrite Hue in *. simpl in *. inversion Hproj. reflexivity.
        * assumption.
  Qed.
End Projection.

(* ------------------------------------------------------------------------------------------------ *)
(* The concrete checkers on circuit traces.                                                          *)
Lemma nl_eqb_eq a : forall b, nl_eqb a b = true -> a = b.
Proof.
  induction a as [|x a IH]; intros [|y b] H; simpl in H; try discriminate; [reflexivity|].
  apply andb_true_iff in H as [H1 H2]. apply Nat.eqb_eq in H1. apply IH in H2. subst. reflexivity.
Qed.
Lemma nl_eqb_refl a : nl_eqb a a = true.
Proof. induction a as [|x a IH]; simpl; [reflexivity|]. rewrite Nat.eqb_refl. exact IH. Qed.

Lemma top_eqb_eq a b : top_eqb a b = true -> a = b.
Proof.
  destruct a as [u w r], b as [u' w' r']. unfold top_eqb. simpl. intros H.
  apply andb_true_iff in H as [H H3]. apply andb_true_iff in H as [H1 H2].
  apply Nat.eqb_eq in H1. apply nl_eqb_eq in H2. apply nl_eqb_eq in H3. subst. reflexivity.
Qed.
Lemma top_eqb_refl a : top_eqb a a = true.
Proof. destruct a. unfold top_eqb. simpl. rewrite Nat.eqb_refl, !nl_eqb_refl. reflexivity. Qed.

(* DECIDING: what the validator accepts is trace equivalent to the input *)
Theorem trace_equiv_b_sound : forall w w', trace_equiv_b w w' = true -> teq top_dep w' w.
Proof. intros w w'. apply bubble_check_sound. exact top_eqb_eq. Qed.

Lemma nmem_In r l : nmem r l = true <-> In r l.
Proof.
  unfold nmem. rewrite existsb_exists. split.
  - intros [x [Hx He]]. apply Nat.eqb_eq in He. subst. exact Hx.
  - intros H. exists r. split; [exact H|apply Nat.eqb_refl].
Qed.
Lemma shares_true x y : shares x y = true <-> exists r, In r x /\ In r y.
Proof.
  unfold shares. rewrite existsb_exists. split.
  - intros [r [Hr Hm]]. exists r. split; [exact Hr|apply nmem_In; exact Hm].
  - intros [r [Hx Hy]]. exists r. split; [exact Hx|apply nmem_In; exact Hy].
Qed.
Lemma shares_sym x y : shares x y = shares y x.
Proof.
  destruct (shares x y) eqn:E1; destruct (shares y x) eqn:E2; try reflexivity.
  - apply shares_true in E1 as [r [H1 H2]].
    assert (shares y x = true) by (apply shares_true; exists r; tauto). congruence.
  - apply shares_true in E2 as [r [H1 H2]].
    assert (shares x y = true) by (apply shares_true; exists r; tauto). congruence.
Qed.
Lemma top_dep_sym a b : top_dep a b = top_dep b a.
Proof.
  unfold top_dep. rewrite (shares_sym (t_wr a) (t_wr b)), (shares_sym (t_wr a) (t_rd b)), (shares_sym (t_rd a) (t_wr b)).
  destruct (shares (t_wr b) (t_wr a)), (shares (t_rd b) (t_wr a)), (shares (t_wr b) (t_rd a)); reflexivity.
Qed.

(* read/write dependency is weaker than the all-exclusive one *)
Lemma top_dep_excl_weaker a b : top_dep_excl a b = false -> top_dep a b = false.
Proof.
  unfold top_dep_excl, top_dep, top_res. intros H.
  destruct (shares (t_wr a) (t_wr b) || shares (t_wr a) (t_rd b) || shares (t_rd a) (t_wr b)) eqn:E; [|reflexivity].
  exfalso.
  assert (Hs : shares (t_wr a ++ t_rd a) (t_wr b ++ t_rd b) = true).
  { apply shares_true.
    apply orb_true_iff in E as [E|E]; [apply orb_true_iff in E as [E|E]|];
      apply shares_true in E as [r [H1 H2]]; exists r; split; apply in_or_app; tauto. }
  congruence.
Qed.

Lemma nodup_b_NoDup l : nodup_b l = true -> NoDup l.
Proof.
  induction l as [|x l IH]; intros H; simpl in H; [constructor|].
  apply andb_true_iff in H as [H1 H2]. constructor; [|apply IH; exact H2].
  intro Hin. apply nmem_In in Hin. rewrite Hin in H1. discriminate.
Qed.
Lemma remove_top_spec a : forall l r, remove_top a l = Some r -> Permutation (a :: r) l.
Proof.
  induction l as [|b l IH]; intros r H; simpl in H; [discriminate|].
  destruct (top_eqb a b) eqn:E.
  - injection H as <-. apply top_eqb_eq in E. subst. apply Permutation_refl.
  - destruct (remove_top a l) as [r'|] eqn:Er; [|discriminate]. simpl in H. injection H as <-.
    eapply Permutation_trans; [apply perm_swap|]. apply perm_skip. apply IH. reflexivity.
Qed.
Lemma perm_b_Permutation : forall w w', perm_b w w' = true -> Permutation w w'.
Proof.
  induction w as [|a w IH]; intros w' H; simpl in H.
  - destruct w'; [constructor|discriminate].
  - destruct (remove_top a w') as [r|] eqn:Er; [|discriminate].
    eapply Permutation_trans; [apply perm_skip; apply IH; exact H|]. apply remove_top_spec. exact Er.
Qed.
Lemma tl_eqb_eq a : forall b, tl_eqb a b = true -> a = b.
Proof.
  induction a as [|x a IH]; intros [|y b] H; simpl in H; try discriminate; [reflexivity|].
  apply andb_true_iff in H as [H1 H2]. apply top_eqb_eq in H1. apply IH in H2. subst. reflexivity.
Qed.
Lemma proj_not_in r l : ~ In r (all_res l) -> proj r l = [].
Proof.
  induction l as [|o l IH]; intros H; simpl; [reflexivity|].
  unfold all_res in H. simpl in H.
  destruct (nmem r (top_res o)) eqn:E.
  - exfalso. apply H. apply in_or_app. left. apply nmem_In. exact E.
  - apply IH. intro Hin. apply H. apply in_or_app. right. exact Hin.
Qed.

(* the projection form of the validator, sound through the projection lemma *)
Theorem proj_equiv_b_sound : forall w w', proj_equiv_b w w' = true -> teq top_dep w' w.
Proof.
  intros w w' H. unfold proj_equiv_b in H.
  apply andb_true_iff in H as [H Hproj]. apply andb_true_iff in H as [H Hperm].
  apply andb_true_iff in H as [H _]. apply andb_true_iff in H as [Hn Hn'].
  apply (teq_mono top_dep_excl top_dep top_dep_excl_weaker).
  apply (projection_lemma top t_uid top_res).
  - apply nodup_b_NoDup. exact Hn.
  - apply nodup_b_NoDup. exact Hn'.
  - apply perm_b_Permutation. exact Hperm.
  - intros r. change (proj r w = proj r w').
    destruct (in_dec Nat.eq_dec r (all_res w ++ all_res w')) as [Hin|Hout].
    + rewrite forallb_forall in Hproj. apply tl_eqb_eq. apply Hproj. exact Hin.
    + rewrite !proj_not_in; [reflexivity| |]; intro Hx; apply Hout; apply in_or_app; tauto.
Qed.

(* what trace equivalence keeps: for every exclusive resource (qubit, measurement key) the sequence of
   operations using it — in particular the order of the measurements of one key, hence the per-key record *)
Theorem teq_wr_projection : forall w w', teq top_dep w w' ->
  forall r, filter (fun o => nmem r (t_wr o)) w = filter (fun o => nmem r (t_wr o)) w'.
Proof.
  intros w w' H r. induction H.
  - reflexivity.
  - rewrite !filter_app. f_equal. simpl.
    destruct (nmem r (t_wr a)) eqn:Ea; destruct (nmem r (t_wr b)) eqn:Eb; try reflexivity.
    exfalso. unfold Trace.indep, top_dep in H.
    assert (Hs : shares (t_wr a) (t_wr b) = true).
    { apply shares_true. exists r. split; apply nmem_In; assumption. }
    rewrite Hs in H. discriminate.
  - congruence.
Qed.

(* ------------------------------------------------------------------------------------------------ *)
(* Semantic consequence: in any interpretation as operations of the reference semantics in which
   independent operations act on disjoint axes, trace-equivalent lists compute the same tensor. *)
Section Sem.
  Context {K : Type} (O : Ops K) (L : Laws O).
  Variable op : Type.
  Variable dep : op -> op -> bool.
  Variable sem : op -> rop (K:=K).
  Hypothesis indep_disjoint : forall a b, indep dep a b -> disjoint_ops (sem a) (sem b).

  Theorem teq_run_equal : forall w w', teq dep w w' ->
    forall (psi : tensor (K:=K)) i, run O (map sem w) psi i = run O (map sem w') psi i.
  Proof.
    intros w w' H. induction H; intros psi i.
    - reflexivity.
    - rewrite !map_app. simpl. apply (run_swap_adjacent O L). apply indep_disjoint. assumption.
    - rewrite IHteq1. apply IHteq2.
  Qed.
End Sem.

(* the instance used by the check: operations of a circuit trace whose axes are among their exclusive resources *)
Section SemTop.
  Context {K : Type} (O : Ops K) (L : Laws O).
  Variable sem : top -> rop (K:=K).
  Hypothesis axes_are_resources : forall a x, In x (rop_ax (sem a)) -> In x (t_wr a).

  Theorem validated_run_equal : forall w w', trace_equiv_b w w' = true ->
    forall (psi : tensor (K:=K)) i, run O (map sem w') psi i = run O (map sem w) psi i.
  Proof.
    intros w w' H. apply (teq_run_equal O L top top_dep sem); [|apply trace_equiv_b_sound; exact H].
    intros a b Hi x Ha Hb. unfold Trace.indep, top_dep in Hi.
    assert (Hs : shares (t_wr a) (t_wr b) = true).
    { apply shares_true. exists x. split; apply axes_are_resources; assumption. }
    rewrite Hs in Hi. discriminate.
  Qed.
End SemTop.

(* non-vacuity: a reordering the checker accepts, one it rejects *)
Example trace_equiv_accepts :
  trace_equiv_b [mkTop 0 [0] []; mkTop 1 [1; 5] []; mkTop 2 [2] [5]; mkTop 3 [3] [5]]
                [mkTop 1 [1; 5] []; mkTop 3 [3] [5]; mkTop 0 [0] []; mkTop 2 [2] [5]] = true.
Proof. reflexivity. Qed.
Example trace_equiv_rejects :
  trace_equiv_b [mkTop 1 [1; 5] []; mkTop 2 [2] [5]] [mkTop 2 [2] [5]; mkTop 1 [1; 5] []] = false.
Proof. reflexivity. Qed.
Example proj_equiv_accepts :
  proj_equiv_b [mkTop 0 [0] []; mkTop 1 [1; 5] []; mkTop 2 [0; 1] []]
               [mkTop 1 [1; 5] []; mkTop 0 [0] []; mkTop 2 [0; 1] []] = true.
Proof. reflexivity. Qed.

(* ------------------------------------------------------------------------------------------------ *)
(* Completeness of the bubble checker: with distinct operations and a symmetric dependency relation it
   accepts EVERY trace-equivalent reordering, so a rejection always names a real exchange of dependent
   operations (or a different multiset).  Invariant used: the relative order of dependent operations. *)
Section Complete.
  Variable op : Type.
  Variable dep : op -> op -> bool.
  Variable op_eqb : op -> op -> bool.
  Hypothesis dep_sym : forall a b, dep a b = dep b a.
  Hypothesis op_eqb_eq : forall a b, op_eqb a b = true -> a = b.
  Hypothesis op_eqb_refl : forall a, op_eqb a a = true.

  Definition rel (l : list op) (x y : op) : Prop :=
    exists i j, i < j /\ nth_error l i = Some x /\ nth_error l j = Some y.

  Definition swap_idx (n i : nat) : nat := if Nat.eqb i n then S n else if Nat.eqb i (S n) then n else i.

  Lemma nth_error_swap (l1 : list op) (a b : op) (l2 : list op) (i : nat) :
    nth_error (l1 ++ b :: a :: l2) (swap_idx (length l1) i) = nth_error (l1 ++ a :: b :: l2) i.
  Proof.
    unfold swap_idx.
    destruct (Nat.eqb_spec i (length l1)) as [->|Hn].
    - rewrite !nth_error_app2 by lia.
      replace (S (length l1) - length l1) with 1 by lia. rewrite Nat.sub_diag. reflexivity.
    - destruct (Nat.eqb_spec i (S (length l1))) as [->|Hn1].
      + rewrite !nth_error_app2 by lia.
        replace (S (length l1) - length l1) with 1 by lia. rewrite Nat.sub_diag. reflexivity.
      + destruct (Nat.lt_ge_cases i (length l1)) as [Hlt|Hge].
        * rewrite !nth_error_app1 by lia. reflexivity.
        * rewrite !nth_error_app2 by lia.
          destruct (i - length l1) as [|[|k]] eqn:E; try lia. reflexivity.
  Qed.

  Lemma rel_teq l l' : teq dep l l' -> forall x y, dep x y = true -> rel l x y -> rel l' x y.
  Proof.
    induction 1 as [l|l1 a b l2 Hab|l1 l2 l3 H1 IH1 H2 IH2]; intros x y Hd Hr.
    - exact Hr.
    - destruct Hr as [i [j [Hij [Hi Hj]]]].
      exists (swap_idx (length l1) i), (swap_idx (length l1) j).
      rewrite !nth_error_swap. split; [|split; assumption].
      unfold swap_idx.
      destruct (Nat.eqb_spec i (length l1)) as [Ei|Ei]; destruct (Nat.eqb_spec j (length l1)) as [Ej|Ej];
        destruct (Nat.eqb_spec i (S (length l1))) as [Ei1|Ei1]; destruct (Nat.eqb_spec j (S (length l1))) as [Ej1|Ej1]; try lia.
      (* i = n, j = n+1: x = a, y = b, but they are independent *)
      exfalso. subst i j.
      rewrite nth_error_app2 in Hi by lia. rewrite Nat.sub_diag in Hi. simpl in Hi.
      rewrite nth_error_app2 in Hj by lia. replace (S (length l1) - length l1) with 1 in Hj by lia. simpl in Hj.
      injection Hi as <-. injection Hj as <-. unfold Trace.indep in Hab. congruence.
    - apply IH2; [exact Hd|]. apply IH1; assumption.
  Qed.

  Lemma NoDup_nth_error_inj (l : list op) i j x : NoDup l -> nth_error l i = Some x -> nth_error l j = Some x -> i = j.
  Proof.
    intros Hnd Hi Hj. apply (proj1 (NoDup_nth_error l) Hnd).
    - apply nth_error_Some. congruence.
    - congruence.
  Qed.

  Lemma rel_antisym (l : list op) (x y : op) : NoDup l -> rel l x y -> rel l y x -> False.
  Proof.
    intros Hnd [i [j [Hij [Hi Hj]]]] [i' [j' [Hij' [Hi' Hj']]]].
    assert (i = j') by (eapply NoDup_nth_error_inj; eassumption).
    assert (j = i') by (eapply NoDup_nth_error_inj; eassumption). lia.
  Qed.

  Lemma rel_remove (u : list op) (a : op) (v : list op) (x y : op) : rel (u ++ a :: v) x y -> x <> a -> y <> a -> rel (u ++ v) x y.
  Proof.
    intros [i [j [Hij [Hi Hj]]]] Hx Hy.
    assert (Hn : forall k z, nth_error (u ++ a :: v) k = Some z -> z <> a ->
                   k <> length u /\ nth_error (u ++ v) (if Nat.ltb k (length u) then k else k - 1) = Some z).
    { intros k z Hk Hz.
      destruct (Nat.ltb_spec k (length u)) as [Hlt|Hge].
      - split; [lia|]. rewrite nth_error_app1 in Hk by lia. rewrite nth_error_app1 by lia. exact Hk.
      - rewrite nth_error_app2 in Hk by lia.
        destruct (k - length u) as [|m] eqn:E.
        + simpl in Hk. injection Hk as <-. contradiction.
        + split; [lia|]. simpl in Hk. rewrite nth_error_app2 by lia.
          replace (k - 1 - length u) with m by lia. exact Hk. }
    destruct (Hn i x Hi Hx) as [Hi1 Hi2]. destruct (Hn j y Hj Hy) as [Hj1 Hj2].
    exists (if Nat.ltb i (length u) then i else i - 1), (if Nat.ltb j (length u) then j else j - 1).
    split; [|split; assumption].
    destruct (Nat.ltb_spec i (length u)); destruct (Nat.ltb_spec j (length u)); lia.
  Qed.

  Lemma extract_complete a : forall l, In a l ->
    exists u v, extract op_eqb a l = Some (u, v) /\ l = u ++ a :: v /\ ~ In a u.
  Proof.
    induction l as [|b r IH]; intros Hin; [inversion Hin|]. simpl.
    destruct (op_eqb a b) eqn:E.
    - apply op_eqb_eq in E. subst b. exists [], r. split; [reflexivity|]. split; [reflexivity|]. intros [].
    - assert (Hr : In a r).
      { destruct Hin as [->|Hr]; [rewrite op_eqb_refl in E; discriminate|exact Hr]. }
      destruct (IH Hr) as [u [v [He [Hl Hn]]]].
      exists (b :: u), v. rewrite He. split; [reflexivity|]. split; [simpl; f_equal; exact Hl|].
      intros [Hb|Hu]; [subst b; rewrite op_eqb_refl in E; discriminate|contradiction].
  Qed.

  Lemma In_nth_error_ex (l : list op) x : In x l -> exists i, nth_error l i = Some x.
  Proof. apply In_nth_error. Qed.

  Theorem bubble_check_complete_order : forall w w',
    NoDup w -> Permutation w w' ->
    (forall x y, dep x y = true -> rel w x y -> rel w' x y) ->
    bubble_check dep op_eqb w w' = true.
  Proof.
    induction w as [|a w IH]; intros w' Hnd Hperm Hord; simpl.
    - apply Permutation_nil in Hperm. subst. reflexivity.
    - assert (Hin : In a w') by (eapply Permutation_in; [exact Hperm|left; reflexivity]).
      destruct (extract_complete a w' Hin) as [u [v [He [Hw' Hnu]]]]. rewrite He. subst w'.
      assert (Hnd' : NoDup (u ++ a :: v)) by (eapply Permutation_NoDup; eassumption).
      inversion Hnd as [|? ? Hna Hnd0]; subst.
      apply andb_true_iff. split.
      + apply forallb_forall. intros b Hb.
        destruct (dep b a) eqn:Hd; [|reflexivity]. exfalso.
        assert (Hba : b <> a) by (intro; subst; contradiction).
        assert (Hbw : In b w).
        { assert (Hx : In b (a :: w)).
          { eapply Permutation_in; [apply Permutation_sym; exact Hperm|]. apply in_or_app. left. exact Hb. }
          destruct Hx as [Hx|Hx]; [congruence|exact Hx]. }
        destruct (In_nth_error_ex w b Hbw) as [j Hj].
        assert (R1 : rel (a :: w) a b) by (exists 0, (S j); split; [lia|split; [reflexivity|simpl; exact Hj]]).
        assert (R2 : rel (u ++ a :: v) a b) by (apply Hord; [rewrite dep_sym; exact Hd|exact R1]).
        destruct (In_nth_error_ex u b Hb) as [i Hi].
        assert (Hil : i < length u) by (apply nth_error_Some; congruence).
        assert (R3 : rel (u ++ a :: v) b a).
        { exists i, (length u). split; [exact Hil|]. split.
          - rewrite nth_error_app1 by lia. exact Hi.
          - rewrite nth_error_app2 by lia. rewrite Nat.sub_diag. reflexivity. }
        exact (rel_antisym _ _ _ Hnd' R2 R3).
      + apply IH.
        * exact Hnd0.
        * apply Permutation_cons_app_inv with (a := a). exact Hperm.
        * intros x y Hd [i [j [Hij [Hi Hj]]]].
          assert (Hx : x <> a) by (intro; subst; apply Hna; eapply nth_error_In; eassumption).
          assert (Hy : y <> a) by (intro; subst; apply Hna; eapply nth_error_In; eassumption).
          apply rel_remove with (a := a); [|exact Hx|exact Hy].
          apply Hord; [exact Hd|]. exists (S i), (S j). split; [lia|split; simpl; assumption].
  Qed.

  Theorem bubble_check_complete : forall w w', NoDup w -> teq dep w w' -> bubble_check dep op_eqb w w' = true.
  Proof.
    intros w w' Hnd H. apply bubble_check_complete_order; [exact Hnd|apply teq_perm with (dep := dep); exact H|].
    intros x y Hd Hr. eapply rel_teq; eassumption.
  Qed.
End Complete.

Theorem trace_equiv_b_complete : forall w w', NoDup (map t_uid w) -> teq top_dep w' w -> trace_equiv_b w w' = true.
Proof.
  intros w w' Hnd H. unfold trace_equiv_b.
  apply (bubble_check_complete top top_dep top_eqb top_dep_sym top_eqb_eq top_eqb_refl).
  - apply NoDup_map_inv with (f := t_uid). exact Hnd.
  - apply teq_sym; [|exact H]. intros a b Hi. unfold Trace.indep in *. rewrite top_dep_sym. exact Hi.
Qed.

(* sound and complete: the validator decides trace equivalence of identified operations *)
Theorem trace_equiv_b_iff : forall w w', NoDup (map t_uid w) -> (trace_equiv_b w w' = true <-> teq top_dep w' w).
Proof. intros w w' Hnd. split; [apply trace_equiv_b_sound|apply trace_equiv_b_complete; exact Hnd]. Qed.
