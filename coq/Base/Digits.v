(* Model of cirq-core/cirq/value/digits.py (hand-written in the shape of the code).
   Definitions only; proofs are in DigitsProofs.v so the model still evaluates
   when a proof breaks.  None = the code raises ValueError. *)
From Coq Require Import ZArith List Bool.
Import ListNotations.
Open Scope Z_scope.

(* big_endian_bits_to_int: result <<= 1; if e: result |= 1 *)
Definition bits_to_int (bits : list bool) : Z :=
  fold_left (fun acc (e : bool) => let r := Z.shiftl acc 1 in if e then Z.lor r 1 else r) bits 0.

(* big_endian_int_to_bits: [(val >> i) & 1 for i in range(bit_count)[::-1]] *)
Definition int_to_bits (val : Z) (bit_count : nat) : list Z :=
  map (fun i => Z.land (Z.shiftr val (Z.of_nat i)) 1) (rev (seq 0 bit_count)).

(* big_endian_digits_to_int, after base has been broadcast to a tuple *)
Fixpoint digits_to_int_acc (ds bs : list Z) (acc : Z) : option Z :=
  match ds, bs with
  | [], [] => Some acc
  | d :: ds', b :: bs' =>
      if (0 <=? d) && (d <? b) then digits_to_int_acc ds' bs' (acc * b + d) else None
  | _, _ => None
  end.
Definition digits_to_int (ds bs : list Z) : option Z := digits_to_int_acc ds bs 0.

(* big_endian_int_to_digits, general path: for b in reversed(base):
   result.append(val % b); val //= b ; if val: raise ; result.reverse() *)
Fixpoint to_digits_le (v : Z) (rbs : list Z) : list Z * Z :=
  match rbs with
  | [] => ([], v)
  | b :: r => let '(ds, rest) := to_digits_le (v / b) r in ((v mod b) :: ds, rest)
  end.
Definition int_to_digits (v : Z) (bs : list Z) : option (list Z) :=
  let '(ds, rest) := to_digits_le v (rev bs) in
  if rest =? 0 then Some (rev ds) else None.

(* the base == 2 fast path: bin(val) zero-padded on the left when it fits,
   otherwise fall through to the general path *)
Fixpoint bin_digits_pos (p : positive) : list Z :=  (* little endian *)
  match p with
  | xH => [1]
  | xO q => 0 :: bin_digits_pos q
  | xI q => 1 :: bin_digits_pos q
  end.
Definition bin_chars (v : Z) : list Z :=   (* big endian, "0" for zero; v >= 0 *)
  match v with Z0 => [0] | Zpos p => rev (bin_digits_pos p) | Zneg _ => [] end.
Definition int_to_digits_code (v : Z) (digit_count : nat) (base_is_two : bool) (bs : list Z)
  : option (list Z) :=
  if (negb (Nat.eqb digit_count 0)) && base_is_two && (Nat.leb (length (bin_chars v)) digit_count)
  then Some (repeat 0 (digit_count - length (bin_chars v)) ++ bin_chars v)
  else int_to_digits v bs.
