(* The tabulated (list) tensors used for execution refine the function-based semantics the theorems are
   about: reading entry `index sh i` of `tab sh psi` gives `psi i` for every in-shape index, hence
   `run_tab` computes exactly `run`. *)
From Coq Require Import List Arith Lia.
From VF Require Import Base.RingOps Base.Mat Base.Tensor.
Import ListNotations.

Lemma Forall2_len {A B} (R : A -> B -> Prop) l l' : Forall2 R l l' -> length l = length l'.
Proof. induction 1; simpl; congruence. Qed.

Lemma enum_length sh : length (enum sh) = size sh.
Proof.
  induction sh as [|d sh IH]; simpl; [reflexivity|].
  assert (H : forall n, length (flat_map (fun x => map (cons x) (enum sh)) (seq n d)) = d * size sh).
  { induction d as [|d IHd]; intros n; simpl; [reflexivity|].
    rewrite app_length, map_length, IH, IHd. reflexivity. }
  apply H.
Qed.

Lemma index_acc_spec sh : forall i acc, length i = length sh ->
  index_acc sh i acc = acc * size sh + index sh i.
Proof.
  induction sh as [|d sh IH]; intros [|x i] acc H; simpl in *; try discriminate.
  - unfold index. simpl. lia.
  - unfold index. cbn [index_acc]. rewrite (IH i (acc * d + x)) by lia. rewrite (IH i (0 * d + x)) by lia.
    cbn [size fold_right]. fold (size sh). nia.
Qed.

Lemma index_lt sh : forall i, Forall2 lt i sh -> index sh i < size sh.
Proof.
  induction sh as [|d sh IH]; intros i H; inversion H as [|x d' i' sh' Hx Hr]; subst.
  - unfold index. simpl. lia.
  - unfold index. cbn [index_acc]. rewrite index_acc_spec by (apply Forall2_len in Hr; exact Hr).
    specialize (IH _ Hr). cbn [size fold_right]. fold (size sh). nia.
Qed.

Lemma nth_blocks {A} (g : nat -> list A) (m : nat) (dflt : A) :
  (forall y, length (g y) = m) ->
  forall d n x k, x < d -> k < m ->
  nth (x * m + k) (flat_map g (seq n d)) dflt = nth k (g (n + x)) dflt.
Proof.
  intros Hm. induction d as [|d IH]; intros n x k Hx Hk; [lia|].
  simpl. destruct x as [|x].
  - rewrite app_nth1 by (rewrite Hm; lia). simpl. rewrite Nat.add_0_r. reflexivity.
  - rewrite app_nth2 by (rewrite Hm; nia). rewrite Hm.
    replace (S x * m + k - m) with (x * m + k) by nia.
    rewrite IH by lia. f_equal. f_equal. lia.
Qed.

Lemma nth_index_enum sh : forall i, Forall2 lt i sh -> nth (index sh i) (enum sh) [] = i.
Proof.
  induction sh as [|d sh IH]; intros i H; inversion H as [|x d' i' sh' Hx Hr]; subst.
  - reflexivity.
  - unfold index. cbn [index_acc enum]. rewrite index_acc_spec by (apply Forall2_len in Hr; exact Hr).
    replace ((0 * d + x) * size sh + index sh i') with (x * size sh + index sh i') by lia.
    rewrite (nth_blocks (fun y => map (cons y) (enum sh)) (size sh)).
    + rewrite Nat.add_0_l.
      rewrite (nth_indep _ [] (x :: [])) by (rewrite map_length, enum_length; apply index_lt; exact Hr).
      rewrite (map_nth (cons x) (enum sh) [] (index sh i')). f_equal. apply IH. exact Hr.
    + intros y. rewrite map_length. apply enum_length.
    + exact Hx.
    + apply index_lt. exact Hr.
Qed.

Section Tab.
  Context {K : Type} (O : Ops K).

  Theorem untab_tab sh (psi : tensor (K:=K)) i : Forall2 lt i sh -> untab O sh (tab sh psi) i = psi i.
  Proof.
    intros H. unfold untab, tab.
    rewrite (nth_indep _ _ (psi [])) by (rewrite map_length, enum_length; apply index_lt; exact H).
    rewrite map_nth. f_equal. apply nth_index_enum. exact H.
  Qed.

  (* one executed step is one step of the function semantics *)
  Theorem apply_tab_refines (M : matrix (K:=K)) dims ax sh l i : Forall2 lt i sh ->
    untab O sh (apply_tab O M dims ax sh l) i = apply O (mat_of O dims M) dims ax (untab O sh l) i.
  Proof. intros H. unfold apply_tab. apply untab_tab. exact H. Qed.
End Tab.
