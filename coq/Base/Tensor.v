(* Semantic core (DESIGN 1.2): states as functions on multi-indices, "matrix on these wires" with
   no kron bookkeeping, and the tabulated (list) refinement used for execution. Definitions only. *)
From Coq Require Import List Arith.
From VF Require Import Base.RingOps Base.Mat.
Import ListNotations.

Definition idx := list nat.
Definition get (i : idx) (a : nat) : nat := nth a i 0.
Fixpoint upd (i : idx) (a v : nat) : idx :=
  match i, a with
  | [], _ => []
  | _ :: r, 0 => v :: r
  | x :: r, S a' => x :: upd r a' v
  end.
Definition gets (i : idx) (ax : list nat) : list nat := map (get i) ax.
Fixpoint upds (i : idx) (ax vs : list nat) : idx :=
  match ax, vs with
  | a :: ax', v :: vs' => upds (upd i a v) ax' vs'
  | _, _ => i
  end.
(* all digit tuples of a shape, big-endian (first digit most significant), as Cirq documents *)
Fixpoint enum (dims : list nat) : list (list nat) :=
  match dims with
  | [] => [[]]
  | d :: r => flat_map (fun x => map (cons x) (enum r)) (seq 0 d)
  end.
Fixpoint index_acc (sh : list nat) (i : idx) (acc : nat) : nat :=
  match sh, i with
  | d :: sh', x :: i' => index_acc sh' i' (acc * d + x)
  | _, _ => acc
  end.
Definition index (sh : list nat) (i : idx) : nat := index_acc sh i 0.
Definition size (sh : list nat) : nat := fold_right Nat.mul 1 sh.

Section Tensor.
  Context {K : Type} (O : Ops K).
  Definition tensor := idx -> K.
  Definition mat := list nat -> list nat -> K.       (* row digits, column digits *)
  Definition mat_of (dims : list nat) (M : matrix (K:=K)) : mat :=
    fun r c => mget O M (index dims r) (index dims c).
  (* the textbook action of U on the axes ax of psi *)
  Definition apply (U : mat) (dims ax : list nat) (psi : tensor) : tensor :=
    fun i => ksum O (map (fun v => kmul O (U (gets i ax) v) (psi (upds i ax v))) (enum dims)).
  Definition tab (sh : list nat) (psi : tensor) : list K := map psi (enum sh).
  Definition untab (sh : list nat) (l : list K) : tensor := fun i => nth (index sh i) l (k0 O).
  Definition apply_tab (M : matrix (K:=K)) (dims ax sh : list nat) (l : list K) : list K :=
    tab sh (apply (mat_of dims M) dims ax (untab sh l)).
  (* an operation of the reference semantics: matrix, its qid shape, the axes it acts on *)
  Record rop := { rop_m : matrix (K:=K); rop_dims : list nat; rop_ax : list nat }.
  Definition run_tab (sh : list nat) (ops : list rop) (l : list K) : list K :=
    fold_left (fun l o => apply_tab (rop_m o) (rop_dims o) (rop_ax o) sh l) ops l.
  Definition run (ops : list rop) (psi : tensor) : tensor :=
    fold_left (fun p o => apply (mat_of (rop_dims o) (rop_m o)) (rop_dims o) (rop_ax o) p) ops psi.
  (* the unitary of an op list on shape sh: columns are the images of the basis states *)
  Definition basis (sh : list nat) (k : nat) : list K :=
    map (fun j => if Nat.eqb j k then k1 O else k0 O) (seq 0 (size sh)).
  Definition unitary_tab (sh : list nat) (ops : list rop) : matrix (K:=K) :=
    mtranspose O (map (fun k => run_tab sh ops (basis sh k)) (seq 0 (size sh))).
End Tensor.
