(* Theorems about the reference semantics (DESIGN C01.D3): operations on disjoint axes commute,
   for any rank, any dimensions, any index — no shape side conditions are needed because the
   index updates are positional. *)
From Coq Require Import List Arith Ring Lia.
From VF Require Import Base.RingOps Base.Mat Base.Tensor.
Import ListNotations.

Lemma get_upd_same i a v : a < length i -> get (upd i a v) a = v.
Proof.
  revert a. induction i as [|x r IH]; intros [|a] H; simpl in *; try lia; [reflexivity|].
  unfold get in *. simpl. apply IH. lia.
Qed.

Lemma get_upd_other i a b v : a <> b -> get (upd i a v) b = get i b.
Proof.
  revert a b. induction i as [|x r IH]; intros a b H; simpl.
  - reflexivity.
  - destruct a as [|a]; destruct b as [|b]; unfold get in *; simpl; try reflexivity; try congruence.
    apply IH. congruence.
Qed.

Lemma upd_comm i a b v w : a <> b -> upd (upd i a v) b w = upd (upd i b w) a v.
Proof.
  revert a b. induction i as [|x r IH]; intros a b H; simpl; [reflexivity|].
  destruct a as [|a]; destruct b as [|b]; simpl; try reflexivity; try congruence.
  f_equal. apply IH. congruence.
Qed.

Lemma upds_upd_comm ax : forall i vs b w, ~ In b ax -> upds (upd i b w) ax vs = upd (upds i ax vs) b w.
Proof.
  induction ax as [|a ax IH]; intros i vs b w Hn; simpl; [reflexivity|].
  destruct vs as [|v vs]; [reflexivity|].
  rewrite upd_comm by (intro; subst; apply Hn; left; reflexivity).
  apply IH. intro Hb. apply Hn. right. exact Hb.
Qed.

Lemma upds_comm a1 : forall i v1 a2 v2, (forall x, In x a1 -> ~ In x a2) ->
  upds (upds i a1 v1) a2 v2 = upds (upds i a2 v2) a1 v1.
Proof.
  induction a1 as [|a a1 IH]; intros i v1 a2 v2 Hd; simpl; [reflexivity|].
  destruct v1 as [|v v1]; [reflexivity|].
  rewrite IH by (intros x Hx; apply Hd; right; exact Hx).
  f_equal. apply upds_upd_comm. apply Hd. left. reflexivity.
Qed.

Lemma gets_upds_other a1 : forall i v1 a2, (forall x, In x a1 -> ~ In x a2) ->
  gets (upds i a1 v1) a2 = gets i a2.
Proof.
  induction a1 as [|a a1 IH]; intros i v1 a2 Hd; simpl; [reflexivity|].
  destruct v1 as [|v v1]; [reflexivity|].
  rewrite IH by (intros x Hx; apply Hd; right; exact Hx).
  unfold gets. apply map_ext_in. intros b Hb. apply get_upd_other.
  intro; subst. apply (Hd b); [left; reflexivity|exact Hb].
Qed.

Section Sums.
  Context {K : Type} (O : Ops K) (L : Laws O).
  Add Ring Kring : (law_ring O L).
  Infix "+" := (kadd O). Infix "*" := (kmul O).

  Lemma ksum_ext {A} (f g : A -> K) l : (forall x, In x l -> f x = g x) -> ksum O (map f l) = ksum O (map g l).
  Proof.
    induction l as [|x l IH]; intros H; simpl; [reflexivity|].
    rewrite H by (left; reflexivity). rewrite IH by (intros y Hy; apply H; right; exact Hy). reflexivity.
  Qed.
  Lemma ksum_mul_l {A} c (f : A -> K) l : c * ksum O (map f l) = ksum O (map (fun x => c * f x) l).
  Proof. induction l as [|x l IH]; simpl; [ring|]. rewrite <- IH. ring. Qed.
  Lemma ksum_add {A} (f g : A -> K) l :
    ksum O (map (fun x => f x + g x) l) = ksum O (map f l) + ksum O (map g l).
  Proof. induction l as [|x l IH]; simpl; [ring|]. rewrite IH. ring. Qed.
  Lemma ksum_zero {A} (l : list A) : ksum O (map (fun _ => k0 O) l) = k0 O.
  Proof. induction l as [|x l IH]; simpl; [reflexivity|]. rewrite IH. ring. Qed.
  Lemma ksum_swap {A B} (f : A -> B -> K) la lb :
    ksum O (map (fun a => ksum O (map (fun b => f a b) lb)) la)
    = ksum O (map (fun b => ksum O (map (fun a => f a b) la)) lb).
  Proof.
    induction la as [|a la IH]; simpl.
    - symmetry. apply ksum_zero.
    - rewrite IH. symmetry. apply ksum_add.
  Qed.

  (* pointwise extensionality of apply in the state *)
  Lemma apply_ext U d ax (p q : tensor (K:=K)) : (forall i, p i = q i) -> forall i, apply O U d ax p i = apply O U d ax q i.
  Proof. intros H i. unfold apply. apply ksum_ext. intros v _. rewrite H. reflexivity. Qed.

  Theorem apply_commute_disjoint U V d1 d2 a1 a2 (psi : tensor (K:=K)) :
    (forall x, In x a1 -> ~ In x a2) ->
    forall i, apply O U d1 a1 (apply O V d2 a2 psi) i = apply O V d2 a2 (apply O U d1 a1 psi) i.
  Proof.
    intros Hd i. unfold apply.
    assert (Hd' : forall x, In x a2 -> ~ In x a1) by (intros x H2 H1; exact (Hd x H1 H2)).
    transitivity (ksum O (map (fun v => ksum O (map (fun w =>
        U (gets i a1) v * (V (gets i a2) w * psi (upds (upds i a1 v) a2 w))) (enum d2))) (enum d1))).
    - apply ksum_ext. intros v _. rewrite ksum_mul_l. apply ksum_ext. intros w _.
      rewrite gets_upds_other by exact Hd. reflexivity.
    - rewrite ksum_swap. apply ksum_ext. intros w _. rewrite ksum_mul_l. apply ksum_ext. intros v _.
      rewrite gets_upds_other by exact Hd'. rewrite (upds_comm a1 i v a2 w Hd). ring.
  Qed.

  (* linearity of apply in the state: the reason one matrix per operation determines the map *)
  Theorem apply_linear U d ax (p q : tensor (K:=K)) c :
    forall i, apply O U d ax (fun j => c * p j + q j) i = c * apply O U d ax p i + apply O U d ax q i.
  Proof.
    intros i. unfold apply. rewrite ksum_mul_l, <- ksum_add. apply ksum_ext. intros v _. ring.
  Qed.
End Sums.

(* swapping two adjacent operations on disjoint axes does not change the result of a run *)
Section RunSwap.
  Context {K : Type} (O : Ops K) (L : Laws O).
  Definition rapply (o : rop (K:=K)) (p : tensor (K:=K)) : tensor :=
    apply O (mat_of O (rop_dims o) (rop_m o)) (rop_dims o) (rop_ax o) p.
  Definition disjoint_ops (a b : rop (K:=K)) := forall x, In x (rop_ax a) -> ~ In x (rop_ax b).

  Lemma run_ext ops : forall (p q : tensor (K:=K)), (forall i, p i = q i) -> forall i, run O ops p i = run O ops q i.
  Proof.
    induction ops as [|o ops IH]; intros p q H i; simpl; [apply H|].
    apply IH. intros j. apply (apply_ext O). exact H.
  Qed.

  Theorem run_swap_adjacent l1 a b l2 (psi : tensor (K:=K)) : disjoint_ops a b ->
    forall i, run O (l1 ++ a :: b :: l2) psi i = run O (l1 ++ b :: a :: l2) psi i.
  Proof.
    intros Hd i. unfold run. rewrite !fold_left_app. simpl.
    apply run_ext. intros j. symmetry. apply (apply_commute_disjoint O L). exact Hd.
  Qed.
End RunSwap.
