(* The unverified float instantiation: the same Gallina functions evaluated on pairs of binary64
   numbers inside Coq (PrimFloat under vm_compute).  The ring laws hold only up to rounding, so
   nothing proved is claimed for it; it is used only to compare against Cirq's floats with tolerances. *)
From Coq Require Import PrimFloat List Bool.
From VF Require Import Base.RingOps.
Import ListNotations.
Open Scope float_scope.

Definition FC := (float * float)%type.
Definition fc_add (a b : FC) : FC := (fst a + fst b, snd a + snd b).
Definition fc_sub (a b : FC) : FC := (fst a - fst b, snd a - snd b).
Definition fc_mul (a b : FC) : FC := (fst a * fst b - snd a * snd b, fst a * snd b + snd a * fst b).
Definition fc_opp (a : FC) : FC := (- fst a, - snd a).
Definition fc_conj (a : FC) : FC := (fst a, - snd a).
Definition FOps : Ops FC :=
  mkOps FC (0, 0) (1, 0) fc_add fc_mul fc_opp fc_sub fc_conj (0, 1) (0.5, 0) (0x1.6a09e667f3bcdp-1, 0).

(* |a-b| <= tol componentwise; false on NaN *)
Definition f_close (tol a b : float) : bool := PrimFloat.leb (abs (a - b)) tol.
Definition fc_close (tol : float) (a b : FC) : bool := f_close tol (fst a) (fst b) && f_close tol (snd a) (snd b).
Fixpoint fcl_close (tol : float) (a b : list FC) : bool :=
  match a, b with
  | [], [] => true
  | x :: a', y :: b' => fc_close tol x y && fcl_close tol a' b'
  | _, _ => false
  end.
Fixpoint fcll_close (tol : float) (a b : list (list FC)) : bool :=
  match a, b with
  | [], [] => true
  | x :: a', y :: b' => fcl_close tol x y && fcll_close tol a' b'
  | _, _ => false
  end.
(* max |a-b| over a list, for reporting *)
Definition fmax (a b : float) : float := if PrimFloat.ltb a b then b else a.
Fixpoint fcl_maxdiff (a b : list FC) : float :=
  match a, b with
  | x :: a', y :: b' => fmax (fmax (abs (fst x - fst y)) (abs (snd x - snd y))) (fcl_maxdiff a' b')
  | [], [] => 0
  | _, _ => infinity
  end.

(* ---- comparison up to a global phase ---- *)
Definition fc_norm2 (a : FC) : float := fst a * fst a + snd a * snd a.
Definition fc_div (a b : FC) : FC :=          (* a / b *)
  let n := fc_norm2 b in
  ((fst a * fst b + snd a * snd b) / n, (snd a * fst b - fst a * snd b) / n).
(* the entry of largest modulus in b, with the corresponding entry of a *)
Fixpoint fcl_pivot (a b : list FC) (best : FC * FC) : FC * FC :=
  match a, b with
  | x :: a', y :: b' => fcl_pivot a' b' (if PrimFloat.ltb (fc_norm2 (snd best)) (fc_norm2 y) then (x, y) else best)
  | _, _ => best
  end.
Definition fcl_close_phase (tol : float) (a b : list FC) : bool :=
  let '(x, y) := fcl_pivot a b ((0, 0), (0, 0)) in
  if PrimFloat.leb (fc_norm2 y) 0x1p-60 then fcl_close tol a b
  else let f := fc_div x y in
       f_close tol (fc_norm2 f) 1 && fcl_close tol a (map (fc_mul f) b).
Definition fcll_close_phase (tol : float) (a b : list (list FC)) : bool :=
  Nat.eqb (length a) (length b) && fcl_close_phase tol (concat a) (concat b).
