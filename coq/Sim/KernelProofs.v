(* C01.D2 / C04.D1: each slicing kernel equals the textbook action (Base/Tensor.v: apply) of the gate's
   documented matrix at exponent 1 (r = i) with the global-shift factor p, on any axis of any tensor. *)
From Coq Require Import List Arith Bool Ring Lia.
From VF Require Import Base.RingOps Base.Mat Base.Tensor Base.TensorProofs Gates.GateSpecs Sim.Kernels.
Import ListNotations.

Section KP.
  Context {K : Type} (O : Ops K) (L : Laws O).
  Add Ring Kring : (law_ring O L).
  Infix "+" := (kadd O). Infix "*" := (kmul O). Infix "-" := (ksub O).
  Notation "- a" := (kopp O a).
  Notation z0 := (k0 O). Notation z1 := (k1 O). Notation hf := (khalf O). Notation ii := (ki O). Notation s2 := (ks2 O).
  Lemma k_half2 : (z1 + z1) * hf = z1.
  Proof. transitivity (hf + hf); [ring | exact (law_half O L)]. Qed.
  Lemma k_ii2 : ii * ii = - z1. Proof. exact (law_i O L). Qed.
  Lemma k_s22 : s2 * s2 = hf. Proof. exact (law_s2 O L). Qed.

  Lemma upd_same_get i a : a < length i -> upd i a (get i a) = i.
  Proof.
    revert a. induction i as [|x r IH]; intros [|a] H; simpl in *; try lia; [reflexivity|].
    unfold get in *. simpl. f_equal. apply IH. lia.
  Qed.

  (* one-qubit case: the sum over the two column digits, spelled out *)
  Lemma apply_1q (M : matrix (K:=K)) a (psi : tensor (K:=K)) i :
    apply O (mat_of O [2] M) [2] [a] psi i
    = mget O M (get i a) 0 * psi (upd i a 0) + (mget O M (get i a) 1 * psi (upd i a 1) + z0).
  Proof.
    unfold apply. cbn [enum seq flat_map map app ksum fold_right gets upds].
    unfold mat_of, index. cbn [index_acc]. rewrite !Nat.mul_0_l, !Nat.add_0_l. reflexivity.
  Qed.

  Variables (p : K) (a : nat) (psi : tensor (K:=K)) (i : idx).
  Hypothesis Ha : a < length i.
  Hypothesis Hd : get i a < 2.

  Ltac two_cases :=
    let E := fresh "E" in
    destruct (get i a) as [|[|n]] eqn:E; [| |lia].

  Theorem kernel_X_sound :
    kernel_X O p a psi i = apply O (mat_of O [2] (spec_XPow O ii (- ii) p)) [2] [a] psi i.
  Proof.
    rewrite apply_1q. unfold kernel_X, flip. two_cases; rewrite ?E;
      cbv -[kadd kmul kopp ksub kconj k0 k1 ki khalf ks2 upd]; ring [k_ii2 k_half2].
  Qed.

  Theorem kernel_Y_sound :
    kernel_Y O p a psi i = apply O (mat_of O [2] (spec_YPow O ii (- ii) p)) [2] [a] psi i.
  Proof.
    rewrite apply_1q. unfold kernel_Y. two_cases; rewrite ?E;
      cbv -[kadd kmul kopp ksub kconj k0 k1 ki khalf ks2 upd]; ring [k_ii2 k_half2].
  Qed.

  Theorem kernel_Z_sound (r rc : K) :
    kernel_Z O (r * r) p a psi i = apply O (mat_of O [2] (spec_ZPow O r rc p)) [2] [a] psi i.
  Proof.
    rewrite apply_1q. unfold kernel_Z.
    assert (Hi : upd i a (get i a) = i) by (apply upd_same_get; exact Ha).
    two_cases; rewrite ?E;
      cbv -[kadd kmul kopp ksub kconj k0 k1 ki khalf ks2 upd]; rewrite ?Hi; ring.
  Qed.

  Theorem kernel_H_sound :
    kernel_H O p a psi i = apply O (mat_of O [2] (spec_HPow O ii (- ii) p)) [2] [a] psi i.
  Proof.
    rewrite apply_1q. unfold kernel_H, h_step3, h_step2, h_step1.
    assert (Hi : upd i a (get i a) = i) by (apply upd_same_get; exact Ha).
    assert (G0 : forall v, get (upd i a v) a = v) by (intros v; apply get_upd_same; exact Ha).
    assert (U2 : forall v w, upd (upd i a v) a w = upd i a w).
    { intros v w. clear -Ha. revert a Ha. induction i as [|x r' IH]; intros [|a'] H; simpl in *; try lia; [reflexivity|].
      f_equal. apply IH. lia. }
    two_cases; rewrite ?E, ?G0, ?U2; cbn [Nat.eqb];
      cbv -[kadd kmul kopp ksub kconj k0 k1 ki khalf ks2 upd]; rewrite ?Hi; ring [k_ii2 k_half2 k_s22].
  Qed.

End KP.

Section KP2.
  Context {K : Type} (O : Ops K) (L : Laws O).
  Add Ring Kring2 : (law_ring O L).
  Infix "+" := (kadd O). Infix "*" := (kmul O). Infix "-" := (ksub O).
  Notation "- a" := (kopp O a).
  Notation z0 := (k0 O). Notation z1 := (k1 O). Notation hf := (khalf O). Notation ii := (ki O).

  (* two-qubit case: the sum over the four column digit pairs, spelled out *)
  Lemma apply_2q (M : matrix (K:=K)) a0 a1 (psi : tensor (K:=K)) i :
    apply O (mat_of O [2; 2] M) [2; 2] [a0; a1] psi i
    = mget O M (Nat.add (Nat.mul 2 (get i a0)) (get i a1)) 0 * psi (upd (upd i a0 0) a1 0)
      + (mget O M (Nat.add (Nat.mul 2 (get i a0)) (get i a1)) 1 * psi (upd (upd i a0 0) a1 1)
      + (mget O M (Nat.add (Nat.mul 2 (get i a0)) (get i a1)) 2 * psi (upd (upd i a0 1) a1 0)
      + (mget O M (Nat.add (Nat.mul 2 (get i a0)) (get i a1)) 3 * psi (upd (upd i a0 1) a1 1) + z0))).
  Proof.
    unfold apply. cbn [enum seq flat_map map app ksum fold_right gets upds].
    unfold mat_of, index. cbn [index_acc].
    replace (Nat.add (Nat.mul (Nat.add (Nat.mul 0 2) (get i a0)) 2) (get i a1)) with (Nat.add (Nat.mul 2 (get i a0)) (get i a1)) by lia. reflexivity.
  Qed.

  Variables (p : K) (a0 a1 : nat) (psi : tensor (K:=K)) (i : idx).
  Hypothesis H0 : a0 < length i. Hypothesis H1 : a1 < length i. Hypothesis Hne : a0 <> a1.
  Hypothesis D0 : get i a0 < 2. Hypothesis D1 : get i a1 < 2.

  Lemma upd2_same : upd (upd i a0 (get i a0)) a1 (get i a1) = i.
  Proof.
    rewrite (upd_same_get i a0 H0). apply upd_same_get. exact H1.
  Qed.
  Lemma upd_length (j : idx) a v : length (upd j a v) = length j.
  Proof. revert a. induction j as [|x r IH]; intros [|a]; simpl; try reflexivity. rewrite IH. reflexivity. Qed.

  Theorem kernel_CZ_sound (r rc : K) :
    kernel_CZ O (r * r) p a0 a1 psi i = apply O (mat_of O [2; 2] (spec_CZPow O r rc p)) [2; 2] [a0; a1] psi i.
  Proof.
    rewrite apply_2q. unfold kernel_CZ. pose proof upd2_same as Hi.
    destruct (get i a0) as [|[|n0]] eqn:E0; [| |lia]; destruct (get i a1) as [|[|n1]] eqn:E1; [| |lia| | |lia];
      cbv -[kadd kmul kopp ksub kconj k0 k1 ki khalf ks2 upd]; rewrite ?Hi; ring.
  Qed.

  Theorem kernel_CX_sound :
    kernel_CX O p a0 a1 psi i = apply O (mat_of O [2; 2] (spec_CXPow O ii (- ii) p)) [2; 2] [a0; a1] psi i.
  Proof.
    rewrite apply_2q. unfold kernel_CX, flip. pose proof upd2_same as Hi.
    assert (Hf : upd i a1 (1 - get i a1) = upd (upd i a0 (get i a0)) a1 (1 - get i a1))
      by (rewrite (upd_same_get i a0 H0); reflexivity).
    rewrite Hf.
    destruct (get i a0) as [|[|n0]] eqn:E0; [| |lia]; destruct (get i a1) as [|[|n1]] eqn:E1; [| |lia| | |lia];
      cbv -[kadd kmul kopp ksub kconj k0 k1 ki khalf ks2 upd]; rewrite ?Hi;
      ring [(law_i O L) (law_half O L)].
  Qed.
End KP2.
