(* Terminal measurements (model of the sampling fast path of `SimulatorBase._run`: the circuit is split into a
   measurement-free prefix and a suffix; when the suffix consists of measurements only, the prefix is run ONCE and all
   measured qudits are sampled jointly from the final state, `repetitions` times, instead of re-running the circuit).
   In the ensemble semantics of Sim/Measure.v this says: the ensemble of `gates ++ measurements` is the list of
   projections of the final state on every joint outcome, each with weight 1 -- the joint Born distribution.
   The deferred form: measurements none of whose later NON-measurement operations touch their qudits or their key
   may be moved to the end (stable partition), by exchanges of independent operations (Sim/ExecComm.v).
   Definitions only; the theorems are in Sim/TerminalMeasProofs.v. *)
From Coq Require Import List Arith Bool.
From VF Require Import Base.RingOps Base.Mat Base.Tensor Base.Trace Gates.Families Sim.Ref Sim.Measure Sim.ExecComm.
Import ListNotations.

(* a terminal measurement: key, measured axes, invert mask (no confusion map) *)
Definition mspec := (nat * list nat * list bool)%type.
Definition ms_key (m : mspec) : nat := fst (fst m).
Definition ms_ax (m : mspec) : list nat := snd (fst m).
Definition ms_inv (m : mspec) : list bool := snd m.
Definition ms_dims (sh : list nat) (m : mspec) : list nat := map (fun a => nth a sh 2) (ms_ax m).
(* all measured axes, in the order of the measurements *)
Definition joint_axes (ms : list mspec) : list nat := flat_map ms_ax ms.
(* the joint outcomes: one digit tuple per measurement; the first measurement is the most significant *)
Fixpoint joint_outcomes (sh : list nat) (ms : list mspec) : list (list (list nat)) :=
  match ms with
  | [] => [[]]
  | m :: r => flat_map (fun v => map (cons v) (joint_outcomes sh r)) (enum (ms_dims sh m))
  end.
(* the records written for a joint outcome *)
Fixpoint term_recs (sh : list nat) (ms : list mspec) (vs : list (list nat)) : list recd :=
  match ms, vs with
  | m :: ms', v :: vs' => (ms_key m, invert (ms_inv m) v, ms_dims sh m) :: term_recs sh ms' vs'
  | _, _ => []
  end.
(* the per-key query that selects exactly this joint outcome when the keys are distinct *)
Definition term_kvs (sh : list nat) (ms : list mspec) (vs : list (list nat)) : list (nat * list recd) :=
  map (fun r : recd => (fst (fst r), [r])) (term_recs sh ms vs).

Section TerminalMeas.
  Context {K : Type} (O : Ops K).

  Definition ms_op (m : mspec) : mop (K:=K) := MMeasure (ms_key m) (ms_ax m) (ms_inv m) [].
  (* the operation list of the fast path: unitary prefix, then measurements only *)
  Definition terminal_ops (gs : list (gop (K:=K))) (ms : list mspec) : list (mop (K:=K)) := map MGate gs ++ map ms_op ms.

  (* the measurements one after the other, as the semantics executes them *)
  Fixpoint proj_seq (sh : list nat) (ms : list mspec) (vs : list (list nat)) (psi : list K) : list K :=
    match ms, vs with
    | m :: ms', v :: vs' => proj_seq sh ms' vs' (project O sh (ms_ax m) v psi)
    | _, _ => psi
    end.

  (* what the fast path samples from: the final state projected on a joint outcome, weight 1 *)
  Definition term_branch (sh : list nat) (ms : list mspec) (psi : list K) (vs : list (list nat)) : branch (K:=K) :=
    {| bw := k1 O; brec := term_recs sh ms vs; bpsi := project O sh (joint_axes ms) (concat vs) psi |}.
  Definition terminal_ensemble (sh : list nat) (gs : list (gop (K:=K))) (ms : list mspec) (init : list K) : list (branch (K:=K)) :=
    map (term_branch sh ms (circ_state O sh gs init)) (joint_outcomes sh ms).
  (* the joint Born weight of an outcome *)
  Definition born (sh : list nat) (gs : list (gop (K:=K))) (ms : list mspec) (init : list K) (vs : list (list nat)) : K :=
    norm2 O (project O sh (joint_axes ms) (concat vs) (circ_state O sh gs init)).

  (* ---- deferred measurement ---- *)
  Definition is_meas (o : mop (K:=K)) : bool := match o with MMeasure _ _ _ _ => true | _ => false end.
  (* every measurement is terminal: no later non-measurement operation shares a qudit with it, reads its key or
     writes its key (later measurements are unconstrained: their relative order is kept) *)
  Fixpoint terminal_b (ops : list (mop (K:=K))) : bool :=
    match ops with
    | [] => true
    | o :: r => (if is_meas o then forallb (fun b => is_meas b || negb (mop_dep o b)) r else true) && terminal_b r
    end.
  (* stable partition: the other operations first, then the measurements *)
  Definition defer (ops : list (mop (K:=K))) : list (mop (K:=K)) :=
    filter (fun o => negb (is_meas o)) ops ++ filter is_meas ops.
  (* circuits of gates and plain measurements (no confusion map, no classical control, no channel) *)
  Definition simple_b (ops : list (mop (K:=K))) : bool :=
    forallb (fun o => match o with MGate _ => true | MMeasure _ _ _ [] => true | _ => false end) ops.
  Definition gates_of (ops : list (mop (K:=K))) : list (gop (K:=K)) :=
    flat_map (fun o => match o with MGate g => [g] | _ => [] end) ops.
  Definition meas_of (ops : list (mop (K:=K))) : list mspec :=
    flat_map (fun o => match o with MMeasure k ax inv _ => [(k, ax, inv)] | _ => [] end) ops.

  (* ---- the example circuit: H q0; M q0 -> key 0; X q1; M q1 -> key 1 ---- *)
  Definition ext_ops : list (mop (K:=K)) :=
    [MGate (ex_H O, [0]); MMeasure 0 [0] [] []; MGate (ex_X O, [1]); MMeasure 1 [1] [] []].
  Definition ext_gs : list (gop (K:=K)) := [(ex_H O, [0]); (ex_X O, [1])].
  Definition ext_ms : list mspec := [(0, [0], []); (1, [1], [])].
  (* not terminal: a gate after the measurement of its qubit; a classically controlled gate reading the key *)
  Definition ext_bad1 : list (mop (K:=K)) := [MMeasure 0 [0] [] []; MGate (ex_H O, [0])].
  Definition ext_bad2 : list (mop (K:=K)) := [MMeasure 0 [0] [] []; MCtrl [CKey 0 None false] (ex_X O, [1])].
End TerminalMeas.
