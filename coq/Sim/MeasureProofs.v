(* Theorems about the measurement semantics (DESIGN C02.D1): Born-rule mass bookkeeping and collapse. *)
From Coq Require Import List Arith Ring Lia Bool.
From VF Require Import Base.RingOps Base.Mat Base.Tensor Base.TensorProofs Gates.Families Sim.Ref Sim.Measure.
Import ListNotations.

Lemma list_eqb_nat_spec a : forall b, list_eqb_nat a b = true <-> a = b.
Proof.
  induction a as [|x a IH]; intros [|y b]; simpl; split; intros H; try reflexivity; try discriminate.
  - apply andb_true_iff in H as [H1 H2]. apply Nat.eqb_eq in H1. apply IH in H2. subst. reflexivity.
  - injection H as -> ->. rewrite Nat.eqb_refl. simpl. apply IH. reflexivity.
Qed.
Lemma list_eqb_nat_refl a : list_eqb_nat a a = true.
Proof. apply list_eqb_nat_spec. reflexivity. Qed.
Lemma list_eqb_nat_neq a b : a <> b -> list_eqb_nat a b = false.
Proof. intros H. destruct (list_eqb_nat a b) eqn:E; [apply list_eqb_nat_spec in E; contradiction|reflexivity]. Qed.

(* enum enumerates exactly the in-shape multi-indices *)
Lemma enum_in sh : forall i, In i (enum sh) <-> Forall2 lt i sh.
Proof.
  induction sh as [|d sh IH]; intros i; simpl.
  - split; [intros [<-|[]]; constructor | intros H; inversion H; left; reflexivity].
  - rewrite in_flat_map. split.
    + intros [x [Hx Hi]]. apply in_seq in Hx. apply in_map_iff in Hi as [j [<- Hj]].
      constructor; [lia | apply IH; exact Hj].
    + intros H. inversion H as [|x d' j sh' Hlt Hr]; subst. exists x. split; [apply in_seq; lia|].
      apply in_map. apply IH. exact Hr.
Qed.

Section MP.
  Context {K : Type} (O : Ops K) (L : Laws O).
  Add Ring Kring : (law_ring O L).
  Infix "+" := (kadd O). Infix "*" := (kmul O).
  Notation z0 := (k0 O).

  Lemma ksum_app (a b : list K) : ksum O (a ++ b) = ksum O a + ksum O b.
  Proof. induction a as [|x a IH]; simpl; [ring|]. rewrite IH. ring. Qed.
  Lemma ksum_flat_map {A B} (f : B -> K) (g : A -> list B) l :
    ksum O (map f (flat_map g l)) = ksum O (map (fun y => ksum O (map f (g y))) l).
  Proof. induction l as [|y l IH]; simpl; [reflexivity|]. rewrite map_app, ksum_app, IH. reflexivity. Qed.

  (* an indicator sum over a range picks its value exactly once *)
  Lemma ksum_seq_indicator (c : K) x : forall d n,
    ksum O (map (fun y => if Nat.eqb x y then c else z0) (seq n d)) = if (Nat.leb n x && Nat.ltb x (n + d)) then c else z0.
  Proof.
    induction d as [|d IH]; intros n.
    - cbn [seq map ksum fold_right].
      destruct (Nat.leb_spec n x); destruct (Nat.ltb_spec x (n + 0)); simpl; try reflexivity; lia.
    - cbn [seq map]. change (ksum O (?a :: ?l)) with (a + ksum O l). rewrite IH.
      destruct (Nat.eqb_spec x n); destruct (Nat.leb_spec (S n) x); destruct (Nat.ltb_spec x (S n + d));
        destruct (Nat.leb_spec n x); destruct (Nat.ltb_spec x (n + S d)); simpl; try lia; ring.
  Qed.

  (* summing an indicator of one in-shape index over the whole enumeration gives the value once *)
  Lemma ksum_enum_indicator (c : K) : forall dims x, Forall2 lt x dims ->
    ksum O (map (fun v => if list_eqb_nat x v then c else z0) (enum dims)) = c.
  Proof.
    induction dims as [|d dims IH]; intros x Hx; inversion Hx as [|x0 d' xr dims' Hlt Hr]; subst; simpl.
    - ring.
    - rewrite ksum_flat_map.
      transitivity (ksum O (map (fun y => if Nat.eqb x0 y then c else z0) (seq 0 d))).
      + apply ksum_ext. intros y _. rewrite map_map. simpl.
        destruct (Nat.eqb x0 y) eqn:E; simpl.
        * apply IH. exact Hr.
        * apply (ksum_zero O L).
      + rewrite ksum_seq_indicator. simpl.
        replace (Nat.ltb x0 d) with true by (symmetry; apply Nat.ltb_lt; lia). reflexivity.
  Qed.

  Lemma get_lt_dim sh i : Forall2 lt i sh -> forall a, get i a < nth a sh 2.
  Proof.
    unfold get. induction 1 as [|x d i sh Hx _ IH]; intros a.
    - destruct a; simpl; lia.
    - destruct a as [|a]; simpl; [exact Hx | apply IH].
  Qed.
  Lemma gets_in_dims sh ax i : Forall2 lt i sh -> Forall2 lt (gets i ax) (map (fun a => nth a sh 2) ax).
  Proof.
    intros H. induction ax as [|a ax IH]; simpl; constructor; [apply get_lt_dim; exact H | exact IH].
  Qed.

  Lemma norm2_project sh ax v psi :
    norm2 O (project O sh ax v psi)
    = ksum O (map (fun p => if list_eqb_nat (gets (fst p) ax) v then snd p * kconj O (snd p) else z0) (combine (enum sh) psi)).
  Proof.
    unfold norm2, project. rewrite map_map. apply ksum_ext. intros p _.
    destruct (list_eqb_nat (gets (fst p) ax) v); [reflexivity|]. ring.
  Qed.

  Theorem measure_mass sh ax (psi : list K) : length psi = length (enum sh) ->
    ksum O (map (fun v => norm2 O (project O sh ax v psi)) (enum (map (fun a => nth a sh 2) ax))) = norm2 O psi.
  Proof.
    intros Hlen.
    transitivity (ksum O (map (fun v => ksum O (map (fun p => if list_eqb_nat (gets (fst p) ax) v then snd p * kconj O (snd p) else z0)
                                                   (combine (enum sh) psi))) (enum (map (fun a => nth a sh 2) ax)))).
    { apply ksum_ext. intros v _. apply norm2_project. }
    rewrite (ksum_swap O L). unfold norm2.
    transitivity (ksum O (map (fun p => snd p * kconj O (snd p)) (combine (enum sh) psi))).
    - apply ksum_ext. intros p Hp. apply ksum_enum_indicator. apply gets_in_dims.
      apply enum_in. destruct p as [pi pa]. apply in_combine_l in Hp. exact Hp.
    - rewrite <- (map_map snd (fun a => a * kconj O a)). f_equal. f_equal.
      clear -Hlen. revert psi Hlen. generalize (enum sh). intros l. induction l as [|x l IH]; intros [|a psi] H; simpl in *; try discriminate; [reflexivity|].
      f_equal. apply IH. lia.
  Qed.

  Theorem project_idem sh ax v (psi : list K) : project O sh ax v (project O sh ax v psi) = project O sh ax v psi.
  Proof.
    unfold project. generalize (enum sh). intros l. revert psi.
    induction l as [|i l IH]; intros [|a psi]; simpl; try reflexivity.
    rewrite IH. destruct (list_eqb_nat (gets i ax) v); reflexivity.
  Qed.

  Theorem project_orth sh ax v w (psi : list K) : v <> w -> length psi = length (enum sh) ->
    project O sh ax w (project O sh ax v psi) = map (fun _ => z0) psi.
  Proof.
    intros Hvw. unfold project. generalize (enum sh). intros l. revert psi.
    induction l as [|i l IH]; intros [|a psi] Hl; simpl in *; try discriminate; try reflexivity.
    rewrite IH by lia. f_equal.
    destruct (list_eqb_nat (gets i ax) w) eqn:Ew; [|reflexivity].
    destruct (list_eqb_nat (gets i ax) v) eqn:Ev; [|reflexivity].
    apply list_eqb_nat_spec in Ew. apply list_eqb_nat_spec in Ev. congruence.
  Qed.
End MP.

(* ---- more measurement theorems (C02.D2, D1 at the level of the ensemble step) ---- *)
Lemma list_eqb_nat_app a1 : forall b1 a2 b2, length a1 = length b1 ->
  list_eqb_nat (a1 ++ a2) (b1 ++ b2) = list_eqb_nat a1 b1 && list_eqb_nat a2 b2.
Proof.
  induction a1 as [|x a1 IH]; intros [|y b1] a2 b2 H; simpl in *; try discriminate; [reflexivity|].
  rewrite IH by lia. rewrite andb_assoc. reflexivity.
Qed.

Section MP2.
  Context {K : Type} (O : Ops K) (L : Laws O).
  Add Ring Kring3 : (law_ring O L).
  Infix "+" := (kadd O). Infix "*" := (kmul O).

  (* measuring qubit sets one after the other projects exactly as one joint measurement does: the lemma
     behind the terminal-measurement fast path (one whole-system sample, columns extracted per operation) *)
  Theorem seq_measure_joint sh ax1 ax2 v1 v2 (psi : list K) : length v1 = length ax1 ->
    project O sh ax2 v2 (project O sh ax1 v1 psi) = project O sh (ax1 ++ ax2) (v1 ++ v2) psi.
  Proof.
    intros Hl. unfold project. generalize (enum sh). intros l. revert psi.
    induction l as [|i l IH]; intros [|a psi]; simpl; try reflexivity.
    rewrite IH. f_equal. unfold gets. rewrite map_app.
    rewrite list_eqb_nat_app by (rewrite map_length; symmetry; exact Hl).
    destruct (list_eqb_nat (map (get i) ax1) v1); destruct (list_eqb_nat (map (get i) ax2) v2); reflexivity.
  Qed.

  (* the order of two measurements does not matter *)
  Theorem project_comm sh ax1 ax2 v1 v2 (psi : list K) :
    project O sh ax2 v2 (project O sh ax1 v1 psi) = project O sh ax1 v1 (project O sh ax2 v2 psi).
  Proof.
    unfold project. generalize (enum sh). intros l. revert psi.
    induction l as [|i l IH]; intros [|a psi]; simpl; try reflexivity.
    rewrite IH. f_equal.
    destruct (list_eqb_nat (gets i ax1) v1); destruct (list_eqb_nat (gets i ax2) v2); reflexivity.
  Qed.

  Lemma project_length sh ax v (psi : list K) : length psi = length (enum sh) -> length (project O sh ax v psi) = length psi.
  Proof.
    intros H. unfold project. rewrite map_length, combine_length. lia.
  Qed.

  (* one measurement step of the ensemble semantics (no confusion map) conserves the mass of a branch *)
  Lemma flat_map_singleton {A B} (f : A -> B) (l : list A) : flat_map (fun v => [f v]) l = map f l.
  Proof. induction l as [|x l IH]; simpl; [reflexivity|]. rewrite IH. reflexivity. Qed.

  Theorem step_measure_mass sh key ax inv (b : branch (K:=K)) : length (bpsi b) = length (enum sh) ->
    total_mass O (step O sh (MMeasure key ax inv []) b) = mass O b.
  Proof.
    intros Hl. unfold total_mass, mass. cbn [step confuse fold_left map fst snd].
    rewrite flat_map_singleton, map_map. cbn [mass bw bpsi].
    rewrite <- (measure_mass O L sh ax (bpsi b) Hl).
    rewrite (ksum_mul_l O L). rewrite ?map_map. reflexivity.
  Qed.
End MP2.
