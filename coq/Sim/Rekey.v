(* Renaming measurement keys (model of cirq.with_measurement_key_mapping / with_key_path_prefix / the key scoping a
   CircuitOperation applies to the keys of its circuit): the key ids carried by measurements, keyed channels and the conditions
   of classically controlled operations are mapped through f; everything else of an operation - axes, invert mask, confusion maps,
   Kraus operators, the controlled gate - stays.  Definitions only; theorems in Sim/RekeyProofs.v. *)
From Coq Require Import List Arith Bool.
From VF Require Import Base.RingOps Base.Mat Base.Tensor Gates.Families Sim.Ref Sim.Measure.
Import ListNotations.

Section Rekey.
  Context {K : Type}.
  Variable f : nat -> nat.

  Definition ren_cond (c : cond) : cond :=
    match c with
    | CKey k i fe => CKey (f k) i fe
    | CMask k i fe m t e => CMask (f k) i fe m t e
    end.
  Definition ren_mop (o : mop (K:=K)) : mop (K:=K) :=
    match o with
    | MMeasure k ax inv cs => MMeasure (f k) ax inv cs
    | MCtrl conds g => MCtrl (map ren_cond conds) g
    | MKrausKeyed k ks dims ax => MKrausKeyed (f k) ks dims ax
    | MGate g => MGate g
    | MKraus ks dims ax => MKraus ks dims ax
    | MReset a => MReset a
    end.
  Definition ren_rec (e : recd) : recd := (f (fst (fst e)), snd (fst e), snd e).
  Definition ren_branch (b : branch (K:=K)) : branch (K:=K) :=
    {| bw := bw b; brec := map ren_rec (brec b); bpsi := bpsi b |}.
End Rekey.
