From Coq Require Import List Arith Bool Lia.
From VF Require Import Sim.Noise Sim.NoiseSeq.
Import ListNotations.

Lemma seq_noisy_from_length k system c : length (seq_noisy_from k system c) = 2 * length c.
Proof. revert k. induction c as [|m c IH]; intros k; simpl; [reflexivity|]. rewrite IH. lia. Qed.
Theorem seq_noisy_length system c : length (seq_noisy_moments system c) = 2 * length c.
Proof. apply seq_noisy_from_length. Qed.

(* the moment at position i is kept, and is followed by the noise moment of level i (not of level 0) *)
Lemma nth_SS {A} n (a b : A) l d : nth (S (S n)) (a :: b :: l) d = nth n l d.
Proof. reflexivity. Qed.
Lemma seq_noisy_from_nth k system c i d : i < length c ->
  nth (2 * i) (seq_noisy_from k system c) d = nth i c d /\
  nth (2 * i + 1) (seq_noisy_from k system c) d = noise_at (k + i) system.
Proof.
  revert k i. induction c as [|m c IH]; intros k i Hi; simpl in Hi; [lia|].
  destruct i as [|i].
  - simpl. rewrite Nat.add_0_r. split; reflexivity.
  - assert (Hi' : i < length c) by lia. destruct (IH (S k) i Hi') as [A B].
    replace (2 * S i + 1) with (S (S (2 * i + 1))) by lia. replace (2 * S i) with (S (S (2 * i))) by lia.
    cbn [seq_noisy_from]. rewrite !nth_SS. split; [exact A|]. rewrite B. f_equal. lia.
Qed.
Theorem seq_noisy_nth system c i d : i < length c ->
  nth (2 * i) (seq_noisy_moments system c) d = nth i c d /\
  nth (2 * i + 1) (seq_noisy_moments system c) d = noise_at i system.
Proof. intros H. apply (seq_noisy_from_nth 0 system c i d H). Qed.

(* asking the model moment by moment gives the level-0 noise everywhere ... *)
Theorem seq_per_moment_nth system c i d : i < length c ->
  nth (2 * i + 1) (seq_noisy_per_moment system c) d = noise_at 0 system.
Proof.
  revert i. induction c as [|m c IH]; intros i Hi; simpl in Hi; [lia|].
  destruct i as [|i]; [reflexivity|].
  replace (2 * S i + 1) with (S (S (2 * i + 1))) by lia. simpl. apply IH. lia.
Qed.
(* ... so it is the circuit the model produces only for circuits of at most one moment (or an empty register) *)
Theorem seq_per_moment_one system m : seq_noisy_per_moment system [m] = seq_noisy_moments system [m].
Proof. reflexivity. Qed.
Theorem seq_per_moment_refuted : exists system c, seq_noisy_per_moment system c <> seq_noisy_moments system c.
Proof. exists [0], [[(0, false)]; [(1, false)]]. vm_compute. discriminate. Qed.
Theorem seq_per_moment_differs system c q : In q system -> 2 <= length c ->
  seq_noisy_per_moment system c <> seq_noisy_moments system c.
Proof.
  intros Hq Hc E. assert (H1 : 1 < length c) by lia.
  pose proof (seq_per_moment_nth system c 1 [] H1) as A.
  destruct (seq_noisy_nth system c 1 [] H1) as [_ B]. rewrite E in A. rewrite A in B.
  unfold noise_at in B. destruct system as [|s system]; [contradiction|]. simpl in B. injection B as B _. lia.
Qed.
