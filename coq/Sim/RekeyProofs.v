(* Re-keying preserves the ensemble semantics exactly when it does not merge keys:
     exec_rename            for injective f, running the re-keyed circuit gives the same branches (weights, states) with the records
                            re-keyed - so the joint distribution of the results, read under the new names, is that of the original
     exec_rename_mass       ... in particular the probability mass of every record
     rename_merging_keys_refuted   for a renaming that merges two keys the statement is false (a condition then reads the other
                            measurement's record) *)
From Coq Require Import List Arith Bool Lia Qcanon.
From VF Require Import Base.RingOps Base.K8 Base.Mat Base.Tensor Gates.Families Sim.Ref Sim.Measure Sim.Rekey.
Import ListNotations.
Close Scope Qc_scope. Close Scope Q_scope.

Lemma map_flat_map {A B C} (g : B -> C) (h : A -> list B) l : map g (flat_map h l) = flat_map (fun x => map g (h x)) l.
Proof. induction l as [|x l IH]; [reflexivity|]. cbn [flat_map]. rewrite map_app, IH. reflexivity. Qed.
Lemma flat_map_map_in {A B C} (g : A -> B) (h : B -> list C) l : flat_map h (map g l) = flat_map (fun x => h (g x)) l.
Proof. induction l as [|x l IH]; [reflexivity|]. cbn [map flat_map]. rewrite IH. reflexivity. Qed.

Section RekeyProofs.
  Context {K : Type} (O : Ops K).
  Variable f : nat -> nat.
  Hypothesis Hinj : forall a b, f a = f b -> a = b.

  Lemma eqb_inj a b : Nat.eqb (f a) (f b) = Nat.eqb a b.
  Proof.
    destruct (Nat.eqb a b) eqn:E.
    - apply Nat.eqb_eq in E. subst. apply Nat.eqb_refl.
    - apply Nat.eqb_neq. intro H. apply Hinj in H. apply Nat.eqb_neq in E. contradiction.
  Qed.

  Lemma key_records_ren k r : key_records (f k) (map (ren_rec f) r) = map (ren_rec f) (key_records k r).
  Proof.
    unfold key_records. induction r as [|e r IH]; [reflexivity|]. cbn [map filter].
    change (fst (fst (ren_rec f e))) with (f (fst (fst e))). rewrite eqb_inj.
    destruct (Nat.eqb (fst (fst e)) k); cbn [map]; rewrite IH; reflexivity.
  Qed.

  Lemma pick_ren l idx fe : pick (map (ren_rec f) l) idx fe = option_map (ren_rec f) (pick l idx fe).
  Proof.
    unfold pick. destruct idx as [i|]; [destruct fe|]; rewrite <- ?map_rev; apply nth_error_map.
  Qed.

  Lemma rec_value_ren e : rec_value (ren_rec f e) = rec_value e.
  Proof. reflexivity. Qed.

  Lemma eval_cond_ren c r : eval_cond (ren_cond f c) (map (ren_rec f) r) = eval_cond c r.
  Proof.
    destruct c as [k idx fe|k idx fe m t e]; cbn [ren_cond eval_cond]; rewrite key_records_ren, pick_ren;
      destruct (pick (key_records k r) idx fe) as [x|]; reflexivity.
  Qed.

  Lemma conds_ren conds r :
    forallb (fun c => match eval_cond c (map (ren_rec f) r) with Some true => true | _ => false end) (map (ren_cond f) conds)
    = forallb (fun c => match eval_cond c r with Some true => true | _ => false end) conds.
  Proof.
    induction conds as [|c cs IH]; [reflexivity|]. cbn [map forallb]. rewrite eval_cond_ren, IH. reflexivity.
  Qed.

  Lemma step_rename sh o (b : branch (K:=K)) :
    step O sh (ren_mop f o) (ren_branch f b) = map (ren_branch f) (step O sh o b).
  Proof.
    destruct o as [g|key ax inv cs|conds g|ks dims ax|key ks dims ax|a]; cbn [ren_mop step ren_branch bw brec bpsi].
    - reflexivity.
    - rewrite map_flat_map. apply flat_map_ext. intro v.
      rewrite map_map. apply map_ext. intro wd. unfold ren_branch. cbn [bw brec bpsi]. rewrite map_app. reflexivity.
    - rewrite conds_ren.
      destruct (forallb (fun c => match eval_cond c (brec b) with Some true => true | _ => false end) conds); reflexivity.
    - rewrite map_map. reflexivity.
    - rewrite map_map. apply map_ext. intro jk. unfold ren_branch. cbn [bw brec bpsi]. rewrite map_app. reflexivity.
    - rewrite map_map. reflexivity.
  Qed.

  Lemma steps_rename sh ops : forall bs : list (branch (K:=K)),
    fold_left (fun bs o => flat_map (step O sh o) bs) (map (ren_mop f) ops) (map (ren_branch f) bs)
    = map (ren_branch f) (fold_left (fun bs o => flat_map (step O sh o) bs) ops bs).
  Proof.
    induction ops as [|o ops IH]; intro bs; [reflexivity|]. cbn [map fold_left].
    replace (flat_map (step O sh (ren_mop f o)) (map (ren_branch f) bs)) with (map (ren_branch f) (flat_map (step O sh o) bs)).
    - apply IH.
    - rewrite map_flat_map. rewrite flat_map_map_in. apply flat_map_ext. intro b. symmetry. apply step_rename.
  Qed.

  Theorem exec_rename sh ops init :
    exec O sh (map (ren_mop f) ops) init = map (ren_branch f) (exec O sh ops init).
  Proof. unfold exec. apply (steps_rename sh ops [{| bw := k1 O; brec := []; bpsi := init |}]). Qed.

  Lemma flat_rec_ren r : flat_rec (map (ren_rec f) r) = flat_rec r.
  Proof. unfold flat_rec. induction r as [|e r IH]; [reflexivity|]. cbn [map flat_map]. rewrite IH. reflexivity. Qed.

  (* the distribution of the recorded digits (in circuit order) is unchanged *)
  Theorem exec_rename_mass sh ops init r :
    rec_mass O (exec O sh (map (ren_mop f) ops) init) r = rec_mass O (exec O sh ops init) r.
  Proof.
    rewrite exec_rename. unfold rec_mass. f_equal.
    induction (exec O sh ops init) as [|b bs IH]; [reflexivity|]. cbn [map filter].
    change (brec (ren_branch f b)) with (map (ren_rec f) (brec b)). rewrite flat_rec_ren.
    destruct (list_eqb_nat (flat_rec (brec b)) r); cbn [map]; rewrite IH; reflexivity.
  Qed.
End RekeyProofs.

(* merging two keys: |0 1 0>, measure q0 into key 0, q1 into key 1, then X on q2 if key 0.  With both keys renamed to 0 the
   condition reads the latest record of key 0, which is now q1's outcome 1, and X fires. *)
Definition ex_X : gate (K:=K8) := GEig EXPow (ki K8Ops) (kopp K8Ops (ki K8Ops)) (k1 K8Ops).
Definition ex_merge_ops : list (mop (K:=K8)) :=
  [MMeasure 0 [0] [] []; MMeasure 1 [1] [] []; MCtrl [CKey 0 None false] (ex_X, [2])].
Definition ex_merge_init : list K8 :=
  map (fun j => if Nat.eqb j 2 then k1 K8Ops else k0 K8Ops) (seq 0 8).

Theorem rename_merging_keys_refuted : exists (g : nat -> nat),
  exec K8Ops [2; 2; 2] (map (ren_mop g) ex_merge_ops) ex_merge_init
  <> map (ren_branch g) (exec K8Ops [2; 2; 2] ex_merge_ops ex_merge_init).
Proof.
  exists (fun _ => 0). intro H.
  apply (f_equal (fun bs => map (fun b => map (fun z => c0 (kmul K8Ops z (kconj K8Ops z))) (bpsi b)) (filter (fun b => negb (Qc_eq_bool (c0 (mass K8Ops b)) 0)) bs))) in H.
  vm_compute in H. discriminate H.
Qed.
