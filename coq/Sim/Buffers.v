(* Model of cirq.apply_unitaries' buffer-swapping loop (protocols/apply_unitary_protocol.py):
     state, buffer = target, available_buffer
     for op: result = apply_unitary(op, Args(state, buffer, axes))
             if result is buffer: buffer = state
             state = result
   Memory is a map from named cells to tensor contents (an abstract type T); a kernel may write any
   cell and returns the cell holding its result. *)
From Coq Require Import List Arith.
Import ListNotations.

Section Buffers.
  Variable T : Type.
  Variable cell : Type.
  Variable cell_eqb : cell -> cell -> bool.
  Hypothesis cell_eqb_spec : forall a b, cell_eqb a b = true <-> a = b.

  Record mem := { at_ : cell -> T; state : cell; buffer : cell }.
  Definition kernel := mem -> (cell -> T) * cell.      (* new contents, result cell *)

  Definition loop_step (m : mem) (k : kernel) : mem :=
    let '(c, r) := k m in
    {| at_ := c; state := r; buffer := if cell_eqb r (buffer m) then state m else buffer m |}.
  Definition loop (ks : list kernel) (m : mem) : mem := fold_left loop_step ks m.

  (* the contract of apply_unitary: whatever the buffer held, the returned cell holds f(state contents) *)
  Definition kernel_ok (f : T -> T) (k : kernel) : Prop :=
    forall m, state m <> buffer m -> fst (k m) (snd (k m)) = f (at_ m (state m)).

  Lemma step_inv m k : state m <> buffer m -> state (loop_step m k) <> buffer (loop_step m k).
  Proof.
    intros H. unfold loop_step. destruct (k m) as [c r] eqn:E. simpl.
    destruct (cell_eqb r (buffer m)) eqn:Eb.
    - apply cell_eqb_spec in Eb. subst r. intro Hx. apply H. symmetry. exact Hx.
    - intro Hx. subst r. assert (cell_eqb (buffer m) (buffer m) = true) by (apply cell_eqb_spec; reflexivity).
      congruence.
  Qed.

  Theorem buffers_refine_run : forall fs ks m,
    Forall2 kernel_ok fs ks -> state m <> buffer m ->
    at_ (loop ks m) (state (loop ks m)) = fold_left (fun x f => f x) fs (at_ m (state m))
    /\ state (loop ks m) <> buffer (loop ks m).
  Proof.
    intros fs ks m H. revert m. induction H as [|f k fs ks Hk _ IH]; intros m Hm.
    - simpl. split; [reflexivity|exact Hm].
    - simpl. specialize (IH (loop_step m k) (step_inv m k Hm)). destruct IH as [IH1 IH2].
      split; [|exact IH2]. unfold loop in *. rewrite IH1. f_equal.
      unfold loop_step. specialize (Hk m Hm). destruct (k m) as [c r]. simpl in *. exact Hk.
  Qed.
End Buffers.

Arguments at_ {T cell} _ _. Arguments state {T cell} _. Arguments buffer {T cell} _.
Arguments Build_mem {T cell} _ _ _.

(* non-vacuity: two cells, an in-place kernel and a kernel that answers in the buffer *)
Definition ex_inplace : kernel nat bool :=
  fun m => (fun c => if Bool.eqb c (state m) then S (at_ m (state m)) else at_ m c, state m).
Definition ex_inbuf : kernel nat bool :=
  fun m => (fun c => if Bool.eqb c (buffer m) then 2 * at_ m (state m) else at_ m c, buffer m).
Definition ex_m0 : mem nat bool := Build_mem (fun c : bool => if c then 5 else 99) true false.
Example buffers_example :
  let m := loop nat bool Bool.eqb [ex_inplace; ex_inbuf; ex_inplace] ex_m0 in at_ m (state m) = 13.
Proof. reflexivity. Qed.
Example buffers_example_ok : Forall2 (kernel_ok nat bool) [S; Nat.mul 2; S] [ex_inplace; ex_inbuf; ex_inplace].
Proof.
  repeat constructor; intros m Hm; unfold ex_inplace, ex_inbuf; simpl; rewrite Bool.eqb_reflx; reflexivity.
Qed.
