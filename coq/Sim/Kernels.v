(* Models of the slicing kernels (`_apply_unitary_` fast paths of ops/common_gates.py) in the shape of
   the code: `args.subspace_index(b)` selects the entries whose target digits spell b (bit k <-> k-th target
   axis), assignments between slices are index substitutions.  Proofs in KernelProofs.v. *)
From Coq Require Import List Arith Bool.
From VF Require Import Base.RingOps Base.Mat Base.Tensor.
Import ListNotations.

Section Kernels.
  Context {K : Type} (O : Ops K).
  Infix "+" := (kadd O). Infix "*" := (kmul O). Infix "-" := (ksub O).
  Notation "- a" := (kopp O a).
  Notation ii := (ki O).
  Definition T := tensor (K:=K).
  Definition flip (i : idx) (a : nat) : idx := upd i a (1 - get i a).

  (* XPowGate (exponent 1):  buffer[zero] = target[one]; buffer[one] = target[zero]; buffer *= p *)
  Definition kernel_X (p : K) (a : nat) (psi : T) : T := fun i => p * psi (flip i a).
  (* YPowGate (exponent 1):  buffer[zero] = -1j * target[one]; buffer[one] = 1j * target[zero]; buffer *= p *)
  Definition kernel_Y (p : K) (a : nat) (psi : T) : T :=
    fun i => p * (if Nat.eqb (get i a) 0 then (- ii) * psi (upd i a 1) else ii * psi (upd i a 0)).
  (* ZPowGate (dimension 2):  target[one] *= c; target *= p *)
  Definition kernel_Z (c p : K) (a : nat) (psi : T) : T :=
    fun i => p * (if Nat.eqb (get i a) 1 then c * psi i else psi i).
  (* HPowGate (exponent 1), three in-place slice updates then a global scale by sqrt2 * p:
       target[one] -= target[zero]; target[one] *= -0.5; target[zero] -= target[one]; target *= sqrt(2) * p *)
  Definition h_step1 (a : nat) (psi : T) : T := fun i => if Nat.eqb (get i a) 1 then psi i - psi (upd i a 0) else psi i.
  Definition h_step2 (a : nat) (psi : T) : T := fun i => if Nat.eqb (get i a) 1 then (- khalf O) * psi i else psi i.
  Definition h_step3 (a : nat) (psi : T) : T := fun i => if Nat.eqb (get i a) 0 then psi i - psi (upd i a 1) else psi i.
  Definition kernel_H (p : K) (a : nat) (psi : T) : T :=
    fun i => ((ks2 O + ks2 O) * p) * h_step3 a (h_step2 a (h_step1 a psi)) i.
  (* CZPowGate:  target[one_one] *= c; target *= p *)
  Definition kernel_CZ (c p : K) (a0 a1 : nat) (psi : T) : T :=
    fun i => p * (if Nat.eqb (get i a0) 1 && Nat.eqb (get i a1) 1 then c * psi i else psi i).
  (* CXPowGate (exponent 1): oo = subspace_index(0b11), zo = subspace_index(0b01) (first target axis = 1, second = 0);
       buffer[oo] = target[oo]; target[oo] = target[zo]; target[zo] = buffer[oo]; target *= p *)
  Definition kernel_CX (p : K) (a0 a1 : nat) (psi : T) : T :=
    fun i => p * (if Nat.eqb (get i a0) 1 then psi (flip i a1) else psi i).
End Kernels.
