(* C01.D2 / C04.D1 continued: each remaining slicing kernel (Sim/Kernels2.v) equals the textbook action (Base/Tensor.v:
   apply) of the gate's documented matrix (Gates/GateSpecs.v), on any axes of a tensor of any rank, at every index whose
   target digits are bits, for every initial content of the scratch buffer.
     kernel_I_sound, kernel_GlobalPhase_sound
     kernel_SWAP_sound, kernel_ISWAP_sound, kernel_ZZ_sound, kernel_FSim_sound, kernel_PhasedFSim_sound,
     kernel_PhasedISwap_sound, kernel_Diag2_sound                                  (two axes)
     kernel_Z4_sound                                                                  (one qudit axis, d = 4)
     kernel_CCZ_sound, kernel_CCX_sound, kernel_CCX1_sound, kernel_CCY_sound, kernel_CCY1_sound, kernel_CSWAP_sound,
     kernel_Diag3_sound, kernel_Diag3_hand_sound                                  (three axes)
     kernel_DiagN_sound, kernel_PhaseGradient_sound                               (any number of qubit axes)
     kernel_Zd_sound                                                                  (one qudit axis, any dimension) *)
From Coq Require Import List Arith Bool Ring Lia.
From VF Require Import Base.RingOps Base.Mat Base.Tensor Base.TensorProofs Base.TabProofs Gates.GateSpecs Gates.Families
  Sim.MeasureProofs Sim.ExecCommProofs Sim.Kernels Sim.KernelProofs Sim.CtrlApply Sim.CtrlApplyProofs Sim.Kernels2.
Import ListNotations.

Lemma le_bits_2_1 : le_bits 2 1 = [1; 0]. Proof. reflexivity. Qed.
Lemma le_bits_2_2 : le_bits 2 2 = [0; 1]. Proof. reflexivity. Qed.
Lemma le_bits_2_3 : le_bits 2 3 = [1; 1]. Proof. reflexivity. Qed.
Lemma le_bits_3_7 : le_bits 3 7 = [1; 1; 1]. Proof. reflexivity. Qed.

(* reading a slice test back after writing the same axes *)
Lemma in_slice_upds ax i v s : NoDup ax -> (forall a, In a ax -> a < length i) -> length v = length ax ->
  in_slice (upds i ax v) ax s = list_eqb_nat v s.
Proof. intros Hn Hr Hl. unfold in_slice. rewrite (gets_upds_same ax Hn i v Hr Hl). reflexivity. Qed.

(* one statement of a kernel, read at one index *)
Section StmtEq.
  Context {K : Type} (O : Ops K).
  Lemma sl_assign_eq ax dst (tgt src_t : tensor (K:=K)) src j :
    sl_assign ax dst tgt src_t src j = if in_slice j ax dst then src_t (upds j ax src) else tgt j.
  Proof. reflexivity. Qed.
  Lemma sl_scale_eq ax s c (tgt : tensor (K:=K)) j :
    sl_scale O ax s c tgt j = if in_slice j ax s then kmul O c (tgt j) else tgt j.
  Proof. reflexivity. Qed.
  Lemma sl_addmul_eq ax dst (out src_t : tensor (K:=K)) src c j :
    sl_addmul O ax dst out src_t src c j
    = if in_slice j ax dst then kadd O (out j) (kmul O (src_t (upds j ax src)) c) else out j.
  Proof. reflexivity. Qed.
  Lemma t_scale_eq c (tgt : tensor (K:=K)) j : t_scale O c tgt j = kmul O c (tgt j).
  Proof. reflexivity. Qed.
  Lemma ctrl_slice_eq cax cvals (sub : tensor (K:=K) -> tensor (K:=K)) tgt j :
    ctrl_slice cax cvals sub tgt j = if cactive cvals (gets j cax) then sub tgt j else tgt j.
  Proof. reflexivity. Qed.
End StmtEq.
Lemma in_slice_eq j ax s : in_slice j ax s = list_eqb_nat (gets j ax) s.
Proof. reflexivity. Qed.

Ltac kcbv := cbv -[kadd kmul kopp ksub kconj k0 k1 ki khalf ks2 upd].

(* ---------- no axes / any axes: identity and global phase ---------- *)
Section K0.
  Context {K : Type} (O : Ops K) (L : Laws O).
  Add Ring K2ring0 : (law_ring O L).
  Infix "*" := (kmul O).

  Lemma t_scale_one (psi : tensor (K:=K)) i : t_scale O (k1 O) psi i = psi i.
  Proof. unfold t_scale. ring. Qed.

  Lemma mat_of_mid dims r c : Forall2 lt r dims -> Forall2 lt c dims ->
    mat_of O dims (mid O (size dims)) r c = delta O r c.
  Proof.
    intros Hr Hc. unfold mat_of, delta.
    rewrite (mget_mid O (size dims) _ _ (index_lt dims r Hr) (index_lt dims c Hc)).
    rewrite (index_eqb dims r c Hr Hc). reflexivity.
  Qed.

  (* IdentityGate of any qid shape on any axes (WaitGate likewise): the kernel returns the target unchanged *)
  Theorem kernel_I_sound dims ax (psi : tensor (K:=K)) i : Forall2 lt (gets i ax) dims ->
    kernel_I psi i = apply O (mat_of O dims (mid O (size dims))) dims ax psi i.
  Proof.
    intros Hs. unfold kernel_I, apply.
    transitivity (ksum O (map (fun b => delta O (gets i ax) b * psi (upds i ax b)) (enum dims))).
    - rewrite (ksum_delta_l O L (fun b => psi (upds i ax b)) dims (gets i ax) Hs).
      rewrite upds_gets_self. reflexivity.
    - apply (ksum_ext O). intros b Hb. apply enum_in in Hb. rewrite (mat_of_mid dims _ _ Hs Hb). reflexivity.
  Qed.

  (* GlobalPhaseGate: no axes, the 1x1 matrix [[c]] *)
  Theorem kernel_GlobalPhase_sound c (psi : tensor (K:=K)) i :
    kernel_GlobalPhase O c psi i = apply O (mat_of O [] (spec_GlobalPhase c)) [] [] psi i.
  Proof. unfold kernel_GlobalPhase, t_scale. kcbv. ring. Qed.
End K0.

Example kernel_I_hyps : Forall2 lt (gets [1; 2; 0] [2; 1]) [2; 3].
Proof. cbn. repeat constructor. Qed.

(* ---------- two qubit axes ---------- *)
Section K2.
  Context {K : Type} (O : Ops K) (L : Laws O).
  Add Ring K2ring2 : (law_ring O L).
  Infix "+" := (kadd O). Infix "*" := (kmul O). Infix "-" := (ksub O).
  Notation "- a" := (kopp O a).
  Notation z0 := (k0 O). Notation z1 := (k1 O). Notation hf := (khalf O). Notation ii := (ki O).

  Variables (a0 a1 : nat) (psi buf : tensor (K:=K)) (i : idx).
  Hypothesis H0 : a0 < length i. Hypothesis H1 : a1 < length i. Hypothesis Hne : a0 <> a1.
  Hypothesis D0 : get i a0 < 2. Hypothesis D1 : get i a1 < 2.

  Lemma nd2 : NoDup [a0; a1].
  Proof. repeat constructor; cbn; intuition. Qed.
  Lemma rng2 : forall a, In a [a0; a1] -> a < length i.
  Proof. intros a [<-|[<-|[]]]; assumption. Qed.
  Lemma sl2 v s : length v = 2 -> in_slice (upds i [a0; a1] v) [a0; a1] s = list_eqb_nat v s.
  Proof. intros Hl. apply in_slice_upds; [exact nd2|exact rng2|exact Hl]. Qed.
  Lemma uu2 v w : length v = length w -> upds (upds i [a0; a1] v) [a0; a1] w = upds i [a0; a1] w.
  Proof. intros Hl. apply upds_upds_same; [exact nd2|exact Hl]. Qed.
  Lemma self2 : upd (upd i a0 (get i a0)) a1 (get i a1) = i.
  Proof. rewrite !upd_get_self. reflexivity. Qed.

  (* execute a kernel expression at index i statement by statement, outermost first, deciding each slice test at once
     (E0, E1 hold the two target digits of i; indices written by earlier statements are decided by sl2) *)
  Ltac norm2 := cbv zeta; rewrite ?le_bits_2_1, ?le_bits_2_2, ?le_bits_2_3; unfold amts2; cbv zeta.
  Ltac red2 E0 E1 :=
    repeat (first [rewrite (sl_assign_eq (K:=K)) | rewrite (sl_scale_eq O) | rewrite (sl_addmul_eq O) | rewrite (t_scale_eq O)];
            rewrite ?sl2 by reflexivity; rewrite ?uu2 by reflexivity;
            rewrite ?in_slice_eq; cbn [gets map]; rewrite ?E0, ?E1; cbn [list_eqb_nat Nat.eqb andb]).
  Ltac cases2 :=
    destruct (get i a0) as [|[|n0]] eqn:E0; [| |lia]; destruct (get i a1) as [|[|n1]] eqn:E1; [| |lia| | |lia].

  Theorem kernel_SWAP_sound (p : K) :
    kernel_SWAP O buf p a0 a1 psi i = apply O (mat_of O [2; 2] (spec_SwapPow O ii (- ii) p)) [2; 2] [a0; a1] psi i.
  Proof.
    rewrite apply_2q. unfold kernel_SWAP, swap_body. norm2. pose proof self2 as Hi.
    cases2; red2 E0 E1; kcbv; rewrite ?Hi; ring [(law_i O L) (law_half O L)].
  Qed.

  (* what the SWAP kernel computes, said without matrices: the amplitude at i is p times the amplitude at the index with the two
     target digits exchanged - i.e. SWAP only RELABELS the two axes (SimulationProductState exchanges the factors the two qubits name
     instead of touching amplitudes) and the global phase p is all that is left *)
  Theorem kernel_SWAP_relabels (p : K) :
    kernel_SWAP O buf p a0 a1 psi i = p * psi (upd (upd i a0 (get i a1)) a1 (get i a0)).
  Proof.
    unfold kernel_SWAP, swap_body. norm2. pose proof self2 as Hi.
    cases2; red2 E0 E1; cbn [upds]; rewrite ?Hi; reflexivity.
  Qed.

  Theorem kernel_ISWAP_sound (p : K) :
    kernel_ISWAP O buf p a0 a1 psi i = apply O (mat_of O [2; 2] (spec_ISwapPow O ii (- ii) p)) [2; 2] [a0; a1] psi i.
  Proof.
    rewrite apply_2q. unfold kernel_ISWAP, swap_body. norm2. pose proof self2 as Hi.
    cases2; red2 E0 E1; kcbv; rewrite ?Hi; ring [(law_i O L) (law_half O L)].
  Qed.

  Theorem kernel_ZZ_sound (r rc p : K) :
    kernel_ZZ O (r * r) p a0 a1 psi i = apply O (mat_of O [2; 2] (spec_ZZPow O r rc p)) [2; 2] [a0; a1] psi i.
  Proof.
    rewrite apply_2q. unfold kernel_ZZ. norm2. pose proof self2 as Hi.
    cases2; red2 E0 E1; kcbv; rewrite ?Hi; ring.
  Qed.

  (* FSimGate.  A skipped branch means the corresponding angle is 0, i.e. its unit is 1. *)
  Theorem kernel_FSim_sound (th ph : bool) (u uc v vc : K) :
    (th = false -> u = z1 /\ uc = z1) -> (ph = false -> vc = z1) ->
    kernel_FSim O th ph u uc vc a0 a1 psi i = apply O (mat_of O [2; 2] (spec_FSim O u uc v vc)) [2; 2] [a0; a1] psi i.
  Proof.
    intros Hth Hph. rewrite apply_2q. unfold kernel_FSim, rx_mat. pose proof self2 as Hi.
    destruct th; [|destruct (Hth eq_refl) as [-> ->]]; (destruct ph; [|rewrite (Hph eq_refl)]);
      norm2; cases2; red2 E0 E1; kcbv; rewrite ?Hi; ring [(law_i O L) (k_half2 O L)].
  Qed.

  (* the product rz1 @ rx @ rz2 the code forms, entry by entry, simplified with hz hzc = 1 = hx hxc *)
  Lemma pfsim_inner_eq (u uc hz hzc hx hxc : K) : hz * hzc = z1 -> hx * hxc = z1 ->
    pfsim_inner O u uc hz hzc hx hxc
    = [[(hz * hz) * cosu O u uc; - ii * (hxc * hxc) * sinu O u uc];
       [- ii * (hx * hx) * sinu O u uc; (hzc * hzc) * cosu O u uc]].
  Proof.
    intros Uz Ux. unfold pfsim_inner, rx_mat, rz_mat. generalize (cosu O u uc) (sinu O u uc). intros c s.
    assert (Uz2 : hzc * hz = z1) by (rewrite <- Uz; ring).
    assert (Ux2 : hxc * hx = z1) by (rewrite <- Ux; ring).
    kcbv. repeat (f_equal; try ring [Uz Ux Uz2 Ux2]).
  Qed.

  (* PhasedFSimGate.  The documented matrix is taken at zeta, chi whose half-angle units are hz, hx. *)
  Theorem kernel_PhasedFSim_sound (tzc ph ga : bool) (u uc hz hzc hx hxc v vc g gac : K) :
    hz * hzc = z1 -> hx * hxc = z1 ->
    (tzc = false -> u = z1 /\ uc = z1 /\ hz = z1 /\ hzc = z1 /\ hx = z1 /\ hxc = z1) ->
    (ph = false -> vc = z1) -> (ga = false -> gac = z1) ->
    kernel_PhasedFSim O tzc ph ga u uc hz hzc hx hxc vc gac a0 a1 psi i
    = apply O (mat_of O [2; 2] (spec_PhasedFSim O u uc (hz * hz) (hzc * hzc) (hx * hx) (hxc * hxc) g gac v vc))
              [2; 2] [a0; a1] psi i.
  Proof.
    intros Uz Ux Ht Hph Hga. rewrite apply_2q. unfold kernel_PhasedFSim. rewrite (pfsim_inner_eq u uc hz hzc hx hxc Uz Ux).
    pose proof self2 as Hi.
    unfold spec_PhasedFSim.
    assert (C1 : cosu O z1 z1 = z1) by (unfold cosu; apply (k_half2 O L)).
    assert (S1 : sinu O z1 z1 = z0) by (unfold sinu; ring).
    destruct tzc; [generalize (cosu O u uc) (sinu O u uc); intros c s
                  |destruct (Ht eq_refl) as (-> & -> & -> & -> & -> & ->); rewrite ?C1, ?S1];
      (destruct ph; [|rewrite (Hph eq_refl)]); (destruct ga; [|rewrite (Hga eq_refl)]);
      norm2; cases2; red2 E0 E1; kcbv; rewrite ?Hi; ring.
  Qed.

  Theorem kernel_PhasedISwap_sound (f fc r rc p : K) :
    kernel_PhasedISwap O f fc r rc p a0 a1 psi i
    = apply O (mat_of O [2; 2] (spec_PhasedISwap O f fc r rc p)) [2; 2] [a0; a1] psi i.
  Proof.
    rewrite apply_2q. unfold kernel_PhasedISwap, piswap_mat. norm2. pose proof self2 as Hi.
    cases2; red2 E0 E1; kcbv; rewrite ?Hi; ring.
  Qed.

  (* TwoQubitDiagonalGate (and DiagonalGate on two qubits) *)
  Theorem kernel_Diag2_sound (d0 d1 d2 d3 : K) :
    kernel_Diag O [d0; d1; d2; d3] [a0; a1] psi i
    = apply O (mat_of O [2; 2] (spec_Diagonal O [d0; d1; d2; d3])) [2; 2] [a0; a1] psi i.
  Proof.
    rewrite apply_2q. unfold kernel_Diag. cbn [length seq fold_left nth].
    change (be_bits 2 0) with [0; 0]. change (be_bits 2 1) with [0; 1].
    change (be_bits 2 2) with [1; 0]. change (be_bits 2 3) with [1; 1].
    norm2. pose proof self2 as Hi.
    cases2; red2 E0 E1; kcbv; rewrite ?Hi; ring.
  Qed.
End K2.

Example kernel_2q_hyps : 2 < length [0; 1; 1; 0] /\ 0 < length [0; 1; 1; 0] /\ 2 <> 0
  /\ get [0; 1; 1; 0] 2 < 2 /\ get [0; 1; 1; 0] 0 < 2.
Proof. cbn. lia. Qed.

(* ---------- one qudit axis of dimension 4 ---------- *)
Section K1d.
  Context {K : Type} (O : Ops K) (L : Laws O).
  Add Ring K2ring1 : (law_ring O L).
  Infix "+" := (kadd O). Infix "*" := (kmul O).
  Notation z0 := (k0 O).

  Lemma apply_1d4 (M : matrix (K:=K)) a (psi : tensor (K:=K)) i :
    apply O (mat_of O [4] M) [4] [a] psi i
    = mget O M (get i a) 0 * psi (upd i a 0) + (mget O M (get i a) 1 * psi (upd i a 1)
      + (mget O M (get i a) 2 * psi (upd i a 2) + (mget O M (get i a) 3 * psi (upd i a 3) + z0))).
  Proof.
    unfold apply. cbn [enum seq flat_map map app ksum fold_right gets upds].
    unfold mat_of, index. cbn [index_acc]. rewrite !Nat.mul_0_l, !Nat.add_0_l. reflexivity.
  Qed.

  Variables (a : nat) (psi : tensor (K:=K)) (i : idx).
  Hypothesis D : get i a < 4.

  (* ZPowGate(dimension=4): the k-th slice is multiplied by r^k, r = 1j ** exponent *)
  Theorem kernel_Z4_sound (r rc p : K) :
    kernel_Zd O (kpow O r) p 4 a psi i = apply O (mat_of O [4] (spec_Z4Pow O r rc p)) [4] [a] psi i.
  Proof.
    rewrite apply_1d4. unfold kernel_Zd. cbn [fold_left seq Nat.pred].
    pose proof (upd_get_self i a) as Hi.
    destruct (get i a) as [|[|[|[|n]]]] eqn:E; [| | | |lia];
      repeat (first [rewrite (sl_scale_eq O) | rewrite (t_scale_eq O)];
              rewrite ?in_slice_eq; cbn [gets map]; rewrite ?E; cbn [list_eqb_nat Nat.eqb andb]);
      kcbv; rewrite ?Hi; ring.
  Qed.
End K1d.

Example kernel_Z4_hyps : get [0; 3; 1] 1 < 4.
Proof. cbn. lia. Qed.

(* ---------- three qubit axes ---------- *)
Section K3.
  Context {K : Type} (O : Ops K) (L : Laws O).
  Add Ring K2ring3 : (law_ring O L).
  Infix "+" := (kadd O). Infix "*" := (kmul O). Infix "-" := (ksub O).
  Notation "- a" := (kopp O a).
  Notation z0 := (k0 O). Notation z1 := (k1 O). Notation hf := (khalf O). Notation ii := (ki O).

  (* the sum over the eight column digit triples, spelled out *)
  Lemma apply_3q (M : matrix (K:=K)) a0 a1 a2 (psi : tensor (K:=K)) i :
    let r := Nat.add (Nat.add (Nat.mul 4 (get i a0)) (Nat.mul 2 (get i a1))) (get i a2) in
    let t := fun k b0 b1 b2 => mget O M r k * psi (upd (upd (upd i a0 b0) a1 b1) a2 b2) in
    apply O (mat_of O [2; 2; 2] M) [2; 2; 2] [a0; a1; a2] psi i
    = t 0 0 0 0 + (t 1 0 0 1 + (t 2 0 1 0 + (t 3 0 1 1 + (t 4 1 0 0 + (t 5 1 0 1 + (t 6 1 1 0 + (t 7 1 1 1 + z0))))))).
  Proof.
    cbv zeta. unfold apply. cbn [enum seq flat_map map app ksum fold_right gets upds].
    unfold mat_of, index. cbn [index_acc].
    replace (Nat.add (Nat.mul (Nat.add (Nat.mul (Nat.add (Nat.mul 0 2) (get i a0)) 2) (get i a1)) 2) (get i a2))
      with (Nat.add (Nat.add (Nat.mul 4 (get i a0)) (Nat.mul 2 (get i a1))) (get i a2)) by lia.
    reflexivity.
  Qed.

  Variables (a0 a1 a2 : nat) (psi buf : tensor (K:=K)) (i : idx).
  Hypothesis H0 : a0 < length i. Hypothesis H1 : a1 < length i. Hypothesis H2 : a2 < length i.
  Hypothesis N01 : a0 <> a1. Hypothesis N02 : a0 <> a2. Hypothesis N12 : a1 <> a2.
  Hypothesis D0 : get i a0 < 2. Hypothesis D1 : get i a1 < 2. Hypothesis D2 : get i a2 < 2.

  Lemma self3 : upd (upd (upd i a0 (get i a0)) a1 (get i a1)) a2 (get i a2) = i.
  Proof. rewrite !upd_get_self. reflexivity. Qed.
  Lemma self3_2 v : upd (upd (upd i a0 (get i a0)) a1 (get i a1)) a2 v = upd i a2 v.
  Proof. rewrite !upd_get_self. reflexivity. Qed.
  Lemma self3_12 v w : upd (upd (upd i a0 (get i a0)) a1 v) a2 w = upd (upd i a1 v) a2 w.
  Proof. rewrite !upd_get_self. reflexivity. Qed.

  Ltac cases3 :=
    destruct (get i a0) as [|[|n0]] eqn:E0; [| |lia]; destruct (get i a1) as [|[|n1]] eqn:E1; [| |lia| | |lia];
    (destruct (get i a2) as [|[|n2]] eqn:E2; [| |lia]).
  (* execute the statements of a kernel at index i (digits in E0 E1 E2), outermost first *)
  Ltac red3 E0 E1 E2 :=
    repeat (first [rewrite (sl_assign_eq (K:=K)) | rewrite (sl_scale_eq O) | rewrite (sl_addmul_eq O) | rewrite (t_scale_eq O)
                  | rewrite (ctrl_slice_eq (K:=K))];
            rewrite ?(sl2 a1 a2 i H1 H2 N12) by reflexivity; rewrite ?(uu2 a1 a2 i N12) by reflexivity;
            rewrite ?in_slice_eq; cbn [gets map cactive existsb]; rewrite ?E0, ?E1, ?E2;
            cbn [list_eqb_nat Nat.eqb andb orb]).

  Theorem kernel_CCZ_sound (r rc p : K) :
    kernel_CCZ O (r * r) p a0 a1 a2 psi i
    = apply O (mat_of O [2; 2; 2] (spec_CCZPow O r rc p)) [2; 2; 2] [a0; a1; a2] psi i.
  Proof.
    rewrite apply_3q. cbv zeta. unfold kernel_CCZ. rewrite le_bits_3_7. pose proof self3 as Hi.
    cases3; red3 E0 E1 E2; kcbv; rewrite ?Hi; ring.
  Qed.
  (* CCXPowGate, any exponent: the controlled sub-gate X**t (no global shift) is applied by its matrix *)
  Theorem kernel_CCX_sound (r rc p : K) :
    kernel_CC1 O (apply O (mat_of O [2] (spec_XPow O r rc z1)) [2] [a2]) p a0 a1 psi i
    = apply O (mat_of O [2; 2; 2] (spec_CCXPow O r rc p)) [2; 2; 2] [a0; a1; a2] psi i.
  Proof.
    rewrite apply_3q. cbv zeta. unfold kernel_CC1.
    pose proof (upd_get_self i a2) as Hi. pose proof self3_2 as Hv.
    cases3; rewrite ?E0, ?E1, ?E2 in Hv, Hi; red3 E0 E1 E2; rewrite ?apply_1q, ?E2; red3 E0 E1 E2;
      kcbv; rewrite ?Hv, ?Hi; ring.
  Qed.
  (* ... at exponent 1 the sub-gate runs its own kernel (kernel_X of Sim/Kernels.v with p = 1) *)
  Theorem kernel_CCX1_sound (p : K) :
    kernel_CC1 O (kernel_X O z1 a2) p a0 a1 psi i
    = apply O (mat_of O [2; 2; 2] (spec_CCXPow O ii (- ii) p)) [2; 2; 2] [a0; a1; a2] psi i.
  Proof.
    rewrite apply_3q. cbv zeta. unfold kernel_CC1, kernel_X, flip.
    pose proof (upd_get_self i a2) as Hi. pose proof self3_2 as Hv.
    cases3; rewrite ?E0, ?E1, ?E2 in Hv, Hi; red3 E0 E1 E2; rewrite ?E2; red3 E0 E1 E2;
      kcbv; rewrite ?Hv, ?Hi; ring [(law_i O L) (law_half O L)].
  Qed.

  (* CCYPowGate *)
  Theorem kernel_CCY_sound (r rc p : K) :
    kernel_CC1 O (apply O (mat_of O [2] (spec_YPow O r rc z1)) [2] [a2]) p a0 a1 psi i
    = apply O (mat_of O [2; 2; 2] (spec_CCYPow O r rc p)) [2; 2; 2] [a0; a1; a2] psi i.
  Proof.
    rewrite apply_3q. cbv zeta. unfold kernel_CC1.
    pose proof (upd_get_self i a2) as Hi. pose proof self3_2 as Hv.
    cases3; rewrite ?E0, ?E1, ?E2 in Hv, Hi; red3 E0 E1 E2; rewrite ?apply_1q, ?E2; red3 E0 E1 E2;
      kcbv; rewrite ?Hv, ?Hi; ring.
  Qed.
  Theorem kernel_CCY1_sound (p : K) :
    kernel_CC1 O (kernel_Y O z1 a2) p a0 a1 psi i
    = apply O (mat_of O [2; 2; 2] (spec_CCYPow O ii (- ii) p)) [2; 2; 2] [a0; a1; a2] psi i.
  Proof.
    rewrite apply_3q. cbv zeta. unfold kernel_CC1, kernel_Y.
    pose proof (upd_get_self i a2) as Hi. pose proof self3_2 as Hv.
    cases3; rewrite ?E0, ?E1, ?E2 in Hv, Hi; red3 E0 E1 E2; rewrite ?E2; red3 E0 E1 E2; cbn [Nat.eqb];
      kcbv; rewrite ?Hv, ?Hi; ring [(law_i O L) (law_half O L)].
  Qed.

  (* CSwapGate: SWAP's three assignments on the slice where the control axis holds 1 *)
  Theorem kernel_CSWAP_sound :
    kernel_CSWAP buf a0 a1 a2 psi i
    = apply O (mat_of O [2; 2; 2] (spec_CSwap O)) [2; 2; 2] [a0; a1; a2] psi i.
  Proof.
    rewrite apply_3q. cbv zeta. unfold kernel_CSWAP, swap_body. cbv zeta. rewrite ?le_bits_2_1, ?le_bits_2_2.
    pose proof (self2 a1 a2 i) as Hi. pose proof self3_12 as Hv.
    cases3; rewrite ?E0, ?E1, ?E2 in Hv, Hi; red3 E0 E1 E2; cbn [upds];
      kcbv; rewrite ?Hv, ?Hi; ring.
  Qed.

  Ltac eval_bits :=
    repeat match goal with
           | |- context[be_bits ?n ?k] => let v := eval vm_compute in (be_bits n k) in change (be_bits n k) with v
           | |- context[le_bits ?n ?k] => let v := eval vm_compute in (le_bits n k) in change (le_bits n k) with v
           end.

  (* DiagonalGate on three qubits (slices taken with big_endian_bits_int) *)
  Theorem kernel_Diag3_sound (d0 d1 d2 d3 d4 d5 d6 d7 : K) :
    kernel_Diag O [d0; d1; d2; d3; d4; d5; d6; d7] [a0; a1; a2] psi i
    = apply O (mat_of O [2; 2; 2] (spec_Diagonal O [d0; d1; d2; d3; d4; d5; d6; d7])) [2; 2; 2] [a0; a1; a2] psi i.
  Proof.
    rewrite apply_3q. cbv zeta. unfold kernel_Diag. cbn [length seq fold_left nth]. eval_bits.
    pose proof self3 as Hi.
    cases3; red3 E0 E1 E2; kcbv; rewrite ?Hi; ring.
  Qed.
  (* ThreeQubitDiagonalGate (hand-computed little-endian slice index) *)
  Theorem kernel_Diag3_hand_sound (d0 d1 d2 d3 d4 d5 d6 d7 : K) :
    kernel_Diag3 O [d0; d1; d2; d3; d4; d5; d6; d7] [a0; a1; a2] psi i
    = apply O (mat_of O [2; 2; 2] (spec_Diagonal O [d0; d1; d2; d3; d4; d5; d6; d7])) [2; 2; 2] [a0; a1; a2] psi i.
  Proof.
    rewrite apply_3q. cbv zeta. unfold kernel_Diag3. cbn [length seq fold_left nth]. eval_bits.
    pose proof self3 as Hi.
    cases3; red3 E0 E1 E2; kcbv; rewrite ?Hi; ring.
  Qed.
End K3.

Example kernel_3q_hyps : let i := [0; 1; 1; 0] in
  3 < length i /\ 0 < length i /\ 2 < length i /\ 3 <> 0 /\ 3 <> 2 /\ 0 <> 2 /\ get i 3 < 2 /\ get i 0 < 2 /\ get i 2 < 2.
Proof. cbn. lia. Qed.

(* the parameter hypotheses of the FSim-family theorems are satisfiable, with every branch skipped and with every branch run *)
Section K2Examples.
  Context {K : Type} (O : Ops K) (L : Laws O).
  Add Ring K2ringE : (law_ring O L).
  Notation z1 := (k1 O).
  Example kernel_FSim_hyps_skipped : (false = false -> z1 = z1 /\ z1 = z1) /\ (false = false -> z1 = z1).
  Proof. split; intros _; repeat split. Qed.
  Example kernel_FSim_hyps_run (u uc vc : K) : (true = false -> u = z1 /\ uc = z1) /\ (true = false -> vc = z1).
  Proof. split; intros H; discriminate H. Qed.
  Example kernel_PhasedFSim_hyps : kmul O z1 z1 = z1 /\ (false = false -> z1 = z1 /\ z1 = z1 /\ z1 = z1 /\ z1 = z1 /\ z1 = z1 /\ z1 = z1).
  Proof. split; [ring|intros _; repeat split]. Qed.
  (* a non-trivial half-angle unit: hz = i, hzc = -i *)
  Example kernel_PhasedFSim_hyps_i : kmul O (ki O) (kopp O (ki O)) = z1.
  Proof. transitivity (kopp O (kmul O (ki O) (ki O))); [ring|rewrite (law_i O L); ring]. Qed.
  (* SWAP at a concrete index, any buffer: instance of kernel_SWAP_sound *)
  Example kernel_SWAP_ex (buf psi : tensor (K:=K)) p :
    kernel_SWAP O buf p 2 0 psi [0; 1; 1; 0]
    = apply O (mat_of O [2; 2] (spec_SwapPow O (ki O) (kopp O (ki O)) p)) [2; 2] [2; 0] psi [0; 1; 1; 0].
  Proof. apply (kernel_SWAP_sound O L 2 0 psi buf [0; 1; 1; 0]); cbn; lia. Qed.
  Example kernel_CSWAP_ex (buf psi : tensor (K:=K)) :
    kernel_CSWAP buf 3 0 2 psi [0; 1; 1; 1]
    = apply O (mat_of O [2; 2; 2] (spec_CSwap O)) [2; 2; 2] [3; 0; 2] psi [0; 1; 1; 1].
  Proof. apply (kernel_CSWAP_sound O L 3 0 2 psi buf [0; 1; 1; 1]); cbn; lia. Qed.
End K2Examples.

(* ---------- DiagonalGate / PhaseGradientGate on any number of qubits ---------- *)
(* subspace_index(big_endian_bits_int=k) selects the k-th digit tuple of the big-endian enumeration *)
Lemma be_bits_S n k : be_bits (S n) k = Nat.b2n (Nat.testbit k n) :: be_bits n k.
Proof. unfold be_bits, le_bits. rewrite seq_S, map_app, rev_app_distr. reflexivity. Qed.
Lemma be_bits_mod n k : be_bits n (k mod 2 ^ n) = be_bits n k.
Proof.
  unfold be_bits, le_bits. f_equal. apply map_ext_in. intros j Hj. apply in_seq in Hj.
  rewrite Nat.mod_pow2_bits_low by lia. reflexivity.
Qed.
Lemma size_repeat2 n : size (repeat 2 n) = 2 ^ n.
Proof. induction n as [|n IH]; [reflexivity|]. cbn [repeat size fold_right]. fold (size (repeat 2 n)). rewrite IH. cbn. lia. Qed.
Lemma be_bits_enum n : forall k, k < 2 ^ n -> nth k (enum (repeat 2 n)) [] = be_bits n k.
Proof.
  induction n as [|n IH]; intros k Hk.
  - cbn in Hk. assert (k = 0) by lia. subst k. reflexivity.
  - rewrite be_bits_S. cbn [repeat enum seq flat_map]. rewrite app_nil_r.
    assert (Hlen : forall x, length (map (cons x) (enum (repeat 2 n))) = 2 ^ n)
      by (intros x; rewrite map_length, enum_length; apply size_repeat2).
    assert (Hp : 2 ^ n <> 0) by (apply Nat.pow_nonzero; lia).
    rewrite Nat.testbit_spec'.
    destruct (Nat.lt_ge_cases k (2 ^ n)) as [Hlt|Hge].
    + rewrite app_nth1 by (rewrite Hlen; exact Hlt).
      rewrite (nth_indep _ [] (0 :: [])) by (rewrite Hlen; exact Hlt).
      rewrite (map_nth (cons 0) (enum (repeat 2 n)) [] k). rewrite (IH k Hlt).
      rewrite (Nat.div_small k (2 ^ n) Hlt). reflexivity.
    + cbn [Nat.pow] in Hk.
      rewrite app_nth2 by (rewrite Hlen; exact Hge). rewrite Hlen.
      rewrite (nth_indep _ [] (1 :: [])) by (rewrite Hlen; lia).
      rewrite (map_nth (cons 1) (enum (repeat 2 n)) [] (k - 2 ^ n)). rewrite (IH (k - 2 ^ n)) by lia.
      assert (Hd : k / 2 ^ n = 1) by (symmetry; apply (Nat.div_unique k (2 ^ n) 1 (k - 2 ^ n)); lia).
      assert (Hm : k mod 2 ^ n = k - 2 ^ n) by (symmetry; apply (Nat.mod_unique k (2 ^ n) 1 (k - 2 ^ n)); lia).
      rewrite Hd. rewrite <- Hm, be_bits_mod. reflexivity.
Qed.

Section KDiag.
  Context {K : Type} (O : Ops K) (L : Laws O).
  Add Ring K2ringD : (law_ring O L).
  Infix "+" := (kadd O). Infix "*" := (kmul O).
  Notation z0 := (k0 O). Notation z1 := (k1 O).
  Notation T := (tensor (K:=K)).

  Lemma mget_mdiag (d : list K) x y : x < length d -> y < length d ->
    mget O (mdiag O d) x y = if Nat.eqb x y then nth x d z0 else z0.
  Proof.
    intros Hx Hy. unfold mget, mdiag. set (n := length d) in *.
    rewrite (nth_indep _ [] (map (fun j => if Nat.eqb 0 j then nth 0 d z0 else z0) (seq 0 n)))
      by (rewrite map_length, seq_length; exact Hx).
    rewrite (map_nth (fun i => map (fun j => if Nat.eqb i j then nth i d z0 else z0) (seq 0 n)) (seq 0 n) 0 x).
    rewrite seq_nth by exact Hx. cbn [Nat.add].
    rewrite (nth_indep _ z0 (if Nat.eqb x 0 then nth x d z0 else z0)) by (rewrite map_length, seq_length; exact Hy).
    rewrite (map_nth (fun j => if Nat.eqb x j then nth x d z0 else z0) (seq 0 n) 0 y).
    rewrite seq_nth by exact Hy. reflexivity.
  Qed.

  (* a diagonal matrix multiplies the amplitude by the entry of its digits *)
  Lemma apply_mdiag (d : list K) sh ax (psi : T) i : length d = size sh -> Forall2 lt (gets i ax) sh ->
    apply O (mat_of O sh (mdiag O d)) sh ax psi i = nth (index sh (gets i ax)) d z0 * psi i.
  Proof.
    intros Hl Hs. unfold apply.
    transitivity (ksum O (map (fun v => if list_eqb_nat (gets i ax) v
                                        then nth (index sh (gets i ax)) d z0 * psi (upds i ax v) else z0) (enum sh))).
    - apply (ksum_ext O). intros v Hv. apply enum_in in Hv. unfold mat_of.
      rewrite mget_mdiag by (rewrite Hl; apply index_lt; assumption).
      rewrite (index_eqb sh _ _ Hs Hv). destruct (list_eqb_nat (gets i ax) v); ring.
    - rewrite (ksum_enum_pick O L (fun v => nth (index sh (gets i ax)) d z0 * psi (upds i ax v)) sh (gets i ax) Hs).
      rewrite upds_gets_self. reflexivity.
  Qed.

  (* a loop of slice scalings multiplies the amplitude at i by the factors of the slices containing i *)
  Lemma fold_scale ax sel cs ks : forall (t : T) i,
    fold_left (fun t k => sl_scale O ax (sel k) (cs k) t) ks t i = scale_prod O i ax sel cs ks * t i.
  Proof.
    induction ks as [|k ks IH]; intros t i; cbn [fold_left scale_prod]; [ring|].
    rewrite IH, (sl_scale_eq O). destruct (in_slice i ax (sel k)); ring.
  Qed.
  Lemma scale_prod_pick i ax sel cs k0 : forall m s,
    (forall k, s <= k < s + m -> in_slice i ax (sel k) = Nat.eqb k k0) ->
    scale_prod O i ax sel cs (seq s m) = if Nat.leb s k0 && Nat.ltb k0 (s + m) then cs k0 else z1.
  Proof.
    induction m as [|m IH]; intros s H; cbn [seq scale_prod].
    - replace (Nat.leb s k0 && Nat.ltb k0 (s + 0)) with false; [reflexivity|].
      symmetry. apply andb_false_iff. destruct (Nat.leb s k0) eqn:E; [right|left; reflexivity].
      apply Nat.leb_le in E. apply Nat.ltb_ge. lia.
    - rewrite (H s) by lia. rewrite (IH (S s)) by (intros k Hk; apply H; lia).
      destruct (Nat.eqb s k0) eqn:E.
      + apply Nat.eqb_eq in E. subst k0.
        replace (Nat.leb (S s) s) with false by (symmetry; apply Nat.leb_gt; lia). cbn [andb].
        replace (Nat.leb s s && Nat.ltb s (s + S m)) with true; [ring|].
        symmetry. apply andb_true_iff. split; [apply Nat.leb_le|apply Nat.ltb_lt]; lia.
      + apply Nat.eqb_neq in E.
        replace (Nat.leb (S s) k0 && Nat.ltb k0 (Nat.add (S s) m)) with (Nat.leb s k0 && Nat.ltb k0 (Nat.add s (S m))); [ring|].
        apply eq_true_iff_eq. rewrite !andb_true_iff, !Nat.leb_le, !Nat.ltb_lt. lia.
  Qed.

  (* DiagonalGate on n qubits (TwoQubitDiagonalGate is n = 2): no condition on the axes beyond in-shape digits *)
  Theorem kernel_DiagN_sound (ds : list K) ax (psi : T) i :
    length ds = 2 ^ length ax -> Forall2 lt (gets i ax) (repeat 2 (length ax)) ->
    kernel_Diag O ds ax psi i
    = apply O (mat_of O (repeat 2 (length ax)) (spec_Diagonal O ds)) (repeat 2 (length ax)) ax psi i.
  Proof.
    intros Hl Hs. set (n := length ax) in *. set (sh := repeat 2 n) in *.
    unfold spec_Diagonal. rewrite (apply_mdiag ds sh ax psi i) by (try exact Hs; unfold sh; rewrite size_repeat2; exact Hl).
    unfold kernel_Diag. fold n. rewrite (fold_scale ax (be_bits n) (fun k => nth k ds z1)).
    assert (Hk0 : index sh (gets i ax) < 2 ^ n) by (rewrite <- (size_repeat2 n); apply index_lt; exact Hs).
    rewrite (scale_prod_pick i ax (be_bits n) (fun k => nth k ds z1) (index sh (gets i ax)) (length ds) 0).
    - replace (Nat.leb 0 (index sh (gets i ax)) && Nat.ltb (index sh (gets i ax)) (0 + length ds)) with true.
      + rewrite (nth_indep ds z1 z0) by (rewrite Hl; exact Hk0). reflexivity.
      + symmetry. apply andb_true_iff. split; [apply Nat.leb_le|apply Nat.ltb_lt]; lia.
    - intros k Hk. rewrite in_slice_eq. rewrite <- (be_bits_enum n k) by lia. fold sh.
      assert (Hks : k < size sh) by (unfold sh; rewrite size_repeat2; lia).
      assert (Hin : Forall2 lt (nth k (enum sh) []) sh).
      { apply enum_in. apply nth_In. rewrite enum_length. exact Hks. }
      rewrite <- (index_eqb sh _ _ Hs Hin). rewrite (index_nth_enum sh k Hks). apply Nat.eqb_sym.
  Qed.

  (* PhaseGradientGate:  for i in range(N): target[subspace_index(big_endian_bits_int=i)] *= 1j ** (4 i / N * exponent);
     u = 1j ** (4 / N * exponent) *)
  Corollary kernel_PhaseGradient_sound (u : K) ax (psi : T) i :
    Forall2 lt (gets i ax) (repeat 2 (length ax)) ->
    kernel_Diag O (map (fun k => kpow O u k) (seq 0 (2 ^ length ax))) ax psi i
    = apply O (mat_of O (repeat 2 (length ax)) (spec_PhaseGradient O (length ax) u)) (repeat 2 (length ax)) ax psi i.
  Proof. intros Hs. apply kernel_DiagN_sound; [rewrite map_length, seq_length; reflexivity|exact Hs]. Qed.
End KDiag.

Example kernel_DiagN_hyps : length [1; 2; 3; 4; 5; 6; 7; 8] = 2 ^ length [3; 0; 1]
  /\ Forall2 lt (gets [1; 0; 1; 1] [3; 0; 1]) (repeat 2 (length [3; 0; 1])).
Proof. split; [reflexivity|cbn; repeat constructor]. Qed.

(* ---------- ZPowGate on a qudit of any dimension d ---------- *)
Section KZd.
  Context {K : Type} (O : Ops K) (L : Laws O).
  Add Ring K2ringZ : (law_ring O L).
  Infix "*" := (kmul O).
  Notation z0 := (k0 O). Notation z1 := (k1 O).
  Notation T := (tensor (K:=K)).

  Lemma mget_mscale c (M : matrix (K:=K)) x y : x < length M -> y < length (nth x M []) ->
    mget O (mscale O c M) x y = c * mget O M x y.
  Proof.
    intros Hx Hy. unfold mget, mscale.
    rewrite (nth_indep (map (vscale O c) M) [] (vscale O c [])) by (rewrite map_length; exact Hx).
    rewrite (map_nth (vscale O c) M [] x). unfold vscale.
    rewrite (nth_indep (map (fun x0 => c * x0) (nth x M [])) z0 (c * z0)) by (rewrite map_length; exact Hy).
    rewrite (map_nth (fun x0 => c * x0) (nth x M []) z0 y). reflexivity.
  Qed.
  Lemma mdiag_row_length (d : list K) x : x < length d -> length (nth x (mdiag O d) []) = length d.
  Proof.
    intros Hx. unfold mdiag.
    rewrite (nth_indep _ [] (map (fun j => if Nat.eqb 0 j then nth 0 d z0 else z0) (seq 0 (length d))))
      by (rewrite map_length, seq_length; exact Hx).
    rewrite (map_nth (fun i => map (fun j => if Nat.eqb i j then nth i d z0 else z0) (seq 0 (length d))) (seq 0 (length d)) 0 x).
    rewrite map_length. apply seq_length.
  Qed.

  Theorem kernel_Zd_sound (w p : K) d a (psi : T) i : get i a < d ->
    kernel_Zd O (fun k => kpow O w k) p d a psi i = apply O (mat_of O [d] (spec_ZdPow O d w p)) [d] [a] psi i.
  Proof.
    intros Hd. set (ds := map (fun k => kpow O w k) (seq 0 d)).
    assert (Hl : length ds = d) by (unfold ds; rewrite map_length; apply seq_length).
    assert (Hs : Forall2 lt (gets i [a]) [d]) by (cbn; repeat constructor; exact Hd).
    transitivity (p * apply O (mat_of O [d] (mdiag O ds)) [d] [a] psi i).
    - rewrite (apply_mdiag O L ds [d] [a] psi i) by (try exact Hs; rewrite Hl; cbn; lia).
      unfold kernel_Zd. rewrite (t_scale_eq O).
      rewrite (fold_scale O L [a] (fun k => [k]) (fun k => kpow O w k)).
      rewrite (scale_prod_pick O L i [a] (fun k => [k]) (fun k => kpow O w k) (get i a) (Nat.pred d) 1).
      + assert (Hi : index [d] (gets i [a]) = get i a) by (unfold index; cbn; lia). rewrite Hi.
        unfold ds. rewrite (nth_indep _ z0 (kpow O w 0)) by (rewrite map_length, seq_length; exact Hd).
        rewrite (map_nth (fun k => kpow O w k) (seq 0 d) 0 (get i a)). rewrite seq_nth by exact Hd. cbn [Nat.add].
        destruct (get i a) as [|g] eqn:E.
        * cbn [Nat.leb andb kpow]. ring.
        * match goal with |- context[if ?c then _ else _] => replace c with true end; [ring|].
          symmetry. apply andb_true_iff. split; [apply Nat.leb_le|apply Nat.ltb_lt]; lia.
      + intros k _. rewrite in_slice_eq. cbn [gets map list_eqb_nat]. rewrite andb_true_r. apply Nat.eqb_sym.
    - unfold apply. rewrite (ksum_mul_l O L). apply (ksum_ext O). intros v Hv. apply enum_in in Hv.
      unfold spec_ZdPow, mat_of. fold ds.
      assert (Hsz : size [d] = d) by (cbn; lia).
      assert (Hx : index [d] (gets i [a]) < length ds) by (rewrite Hl; rewrite <- Hsz at 2; apply (index_lt [d] _ Hs)).
      assert (Hy : index [d] v < length ds) by (rewrite Hl; rewrite <- Hsz at 2; apply (index_lt [d] _ Hv)).
      rewrite mget_mscale.
      + ring.
      + unfold mdiag. rewrite map_length, seq_length. exact Hx.
      + rewrite (mdiag_row_length ds _ Hx). exact Hy.
  Qed.
End KZd.

Example kernel_Zd_hyps : get [0; 4; 1] 1 < 5.
Proof. cbn. lia. Qed.
