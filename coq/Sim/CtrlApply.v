(* Controlled application (model of how Cirq applies a ControlledGate / `controlled_by` operation in
   `ControlledGate._apply_unitary_` / `ControlledOperation._apply_unitary_`): the simulator does not build the block
   matrix, it applies the sub-gate to the slice of the state where the control qudits hold one of the allowed control
   value tuples and leaves every other amplitude alone.  `capply` is that procedure on function tensors; `cmat` is the
   block matrix as a matrix-function (row digits, column digits) on the axes cax ++ ax, shape cdims ++ dims, written
   with the same activation test as `ctrl_matrix` of Gates/Families.v (`existsb (fun v => list_eqb_nat v c) cvals`).
   Definitions only; the theorems are in Sim/CtrlApplyProofs.v. *)
From Coq Require Import List Arith Bool.
From VF Require Import Base.RingOps Base.K8 Base.Mat Base.Tensor Gates.Families.
Import ListNotations.

(* the control digits c are one of the listed control-value tuples (sum of products) *)
Definition cactive (cvals : list (list nat)) (c : list nat) : bool := existsb (fun v => list_eqb_nat v c) cvals.

Section CtrlApply.
  Context {K : Type} (O : Ops K).

  (* what the simulator does: sub-gate on the active slice, identity elsewhere *)
  Definition capply (U : mat (K:=K)) (dims ax cax : list nat) (cvals : list (list nat)) (psi : tensor (K:=K)) : tensor (K:=K) :=
    fun i => if cactive cvals (gets i cax) then apply O U dims ax psi i else psi i.

  (* the literal loop of `ControlledOperation._apply_unitary_`: one pass per allowed control tuple, each pass applies
     the sub-gate to that tuple's slice (the tuples are deduplicated by `SumOfProducts.__init__`) *)
  Definition capply_loop (U : mat (K:=K)) (dims ax cax : list nat) (cvals : list (list nat)) (psi : tensor (K:=K)) : tensor (K:=K) :=
    fold_left (fun p cv => capply U dims ax cax [cv] p) cvals psi.

  (* identity as a matrix-function *)
  Definition delta (r c : list nat) : K := if list_eqb_nat r c then k1 O else k0 O.

  (* the block matrix: rows/columns are control digits (the first nc) followed by target digits *)
  Definition cmat (nc : nat) (cvals : list (list nat)) (U : mat (K:=K)) : mat (K:=K) :=
    fun r c =>
      if list_eqb_nat (firstn nc r) (firstn nc c)
      then (if cactive cvals (firstn nc r) then U (skipn nc r) (skipn nc c) else delta (skipn nc r) (skipn nc c))
      else k0 O.

  (* product of matrix-functions over the shape dims *)
  Definition mcomp (dims : list nat) (U V : mat (K:=K)) : mat (K:=K) :=
    fun r c => ksum O (map (fun m => kmul O (U r m) (V m c)) (enum dims)).

  (* block-diagonal list matrix from a list of blocks (ctrl_matrix is this on the per-control-tuple blocks) *)
  Definition bdiag (bs : list (matrix (K:=K))) : matrix (K:=K) := fold_right (mdirect O) [] bs.
  Definition ctrl_block (cvals : list (list nat)) (m : matrix (K:=K)) (c : list nat) : matrix (K:=K) :=
    if existsb (fun v => list_eqb_nat v c) cvals then m else mid O (length m).

  (* square list matrix of side n *)
  Definition sq (n : nat) (B : matrix (K:=K)) : Prop := length B = n /\ forall row, In row B -> length row = n.

  (* concrete data for the examples *)
  Definition ex_Xm : matrix (K:=K) := [[k0 O; k1 O]; [k1 O; k0 O]].
  Definition ex_CNOTm : matrix (K:=K) :=
    [[k1 O; k0 O; k0 O; k0 O]; [k0 O; k1 O; k0 O; k0 O]; [k0 O; k0 O; k0 O; k1 O]; [k0 O; k0 O; k1 O; k0 O]].
End CtrlApply.

(* a state with four different amplitudes (1, i, 1/2, 1/sqrt 2) in the exact instance *)
Definition ex_state8 : list K8 := [k1 K8Ops; ki K8Ops; khalf K8Ops; ks2 K8Ops].
