(* Theorems about repeated blocks (Sim/SubBlock.v), any ring, any register shape, any qudit dimensions, any number of pieces and
   repetitions:
     run_repeat_tab           running r written-out copies of a block = iterating the block r times
     fold_pieces_sound        the ordered product with scalars folded in acts as the pieces one after the other
     mpow_sound               the n-th matrix power acts as n applications
     block_fast_path_sound    hence matrix_power(product of the pieces, n) acts as n runs of the block
     phase_outside_refuted    multiplying the collected scalars in AFTER the power is a different map (i, twice)
     swap_pow_odd             SwapPowGate at an odd exponent (r^2 = -1) is g * SWAP for its global phase g, from the regenerated table too
     swap_pow_odd_relabels    so it acts by exchanging the two target digits of the index and multiplying by g: the relabelling
                              short-cut of SimulationProductState is exact iff g = 1
     swap_relabel_phase_refuted   with g = -1 (exponent 1, global shift 1) relabelling alone is wrong *)
From Coq Require Import List Arith Ring Lia Bool Qcanon.
From VF Require Import Base.RingOps Base.K8 Base.Mat Base.Tensor Base.TensorProofs Base.TabProofs Sim.MeasureProofs
  Sim.CtrlApply Sim.CtrlApplyProofs Sim.ExecComm Sim.ExecCommProofs Sim.SubBlock
  Gates.EigenGate Gates.GateSpecs Generated.EigenTables Gates.MatTac Sim.Kernels2 Sim.Kernels2Proofs.
Import ListNotations.
Close Scope Qc_scope. Close Scope Q_scope.

Lemma iter_comm {A} (f : A -> A) n x : Nat.iter n f (f x) = f (Nat.iter n f x).
Proof.
  induction n as [|n IH]; [reflexivity|].
  change (f (Nat.iter n f (f x)) = f (f (Nat.iter n f x))). rewrite IH. reflexivity.
Qed.

Lemma iter_S {A} (f : A -> A) n x : Nat.iter (S n) f x = f (Nat.iter n f x).
Proof. reflexivity. Qed.

Theorem run_repeat_tab {K} (O : Ops K) sh (ops : list (rop (K:=K))) : forall r l,
  run_tab O sh (concat (repeat ops r)) l = Nat.iter r (run_tab O sh ops) l.
Proof.
  induction r as [|r IH]; intro l; [reflexivity|].
  cbn [repeat concat]. unfold run_tab at 1. rewrite fold_left_app. fold (run_tab O sh ops l).
  fold (run_tab O sh (concat (repeat ops r)) (run_tab O sh ops l)). rewrite IH.
  apply iter_comm.
Qed.

Lemma fits_adims sh : forall ax, fits sh ax (adims sh ax).
Proof.
  induction ax as [|a ax IH]; cbn [adims map fits]; [exact I|]. split; [|exact IH].
  intro Ha. rewrite (nth_indep sh 2 0 Ha). apply le_n.
Qed.

Section SubBlockProofs.
  Context {K : Type} (O : Ops K) (L : Laws O).
  Add Ring Kring : (law_ring O L).
  Infix "*" := (kmul O).
  Variables (sh ax : list nat).
  Hypothesis Hnd : NoDup ax.
  Hypothesis Hrng : forall a, In a ax -> a < length sh.
  Let dims := adims sh ax.

  Lemma len_sh i : Forall2 lt i sh -> length i = length sh.
  Proof. intro H. exact (Forall2_len lt i sh H). Qed.
  Lemma len_dims : length ax = length dims.
  Proof. unfold dims, adims. rewrite map_length. reflexivity. Qed.

  Lemma apply_delta_sh (psi : tensor (K:=K)) i : Forall2 lt i sh -> apply O (delta O) dims ax psi i = psi i.
  Proof.
    intro Hi. unfold apply.
    rewrite (ksum_delta_l O L (fun b => psi (upds i ax b)) dims (gets i ax) (gets_in_dims sh ax i Hi)).
    rewrite upds_gets_self. reflexivity.
  Qed.

  Lemma apply_mcomp_sh U V (psi : tensor (K:=K)) i : Forall2 lt i sh ->
    apply O (mcomp O dims U V) dims ax psi i = apply O U dims ax (apply O V dims ax psi) i.
  Proof.
    intro Hi. apply (apply_mcomp O L); [exact Hnd| |exact len_dims].
    intros a Ha. rewrite (len_sh i Hi). apply Hrng. exact Ha.
  Qed.

  Lemma apply_mscal c U (psi : tensor (K:=K)) i : apply O (mscal O c U) dims ax psi i = c * apply O U dims ax psi i.
  Proof.
    unfold apply, mscal. rewrite (ksum_mul_l O L). apply (ksum_ext O). intros v _. ring.
  Qed.

  Lemma piece_act_ext p (s t : tensor (K:=K)) : (forall j, Forall2 lt j sh -> s j = t j) ->
    forall j, Forall2 lt j sh -> piece_act O dims ax p s j = piece_act O dims ax p t j.
  Proof.
    intros H j Hj. destruct p as [v|c]; cbn [piece_act].
    - apply (apply_ext_shape O sh); [apply fits_adims|exact H|exact Hj].
    - rewrite (H j Hj). reflexivity.
  Qed.

  Lemma run_pieces_ext ps : forall (s t : tensor (K:=K)), (forall j, Forall2 lt j sh -> s j = t j) ->
    forall j, Forall2 lt j sh -> run_pieces O dims ax ps s j = run_pieces O dims ax ps t j.
  Proof.
    induction ps as [|p ps IH]; intros s t H j Hj; cbn [run_pieces fold_left]; [exact (H j Hj)|].
    apply IH; [|exact Hj]. apply piece_act_ext. exact H.
  Qed.

  Lemma fold_pieces_gen ps : forall u (psi : tensor (K:=K)) i, Forall2 lt i sh ->
    apply O (fold_left (step_piece O dims) ps u) dims ax psi i = run_pieces O dims ax ps (apply O u dims ax psi) i.
  Proof.
    induction ps as [|p ps IH]; intros u psi i Hi; cbn [fold_left run_pieces]; [reflexivity|].
    rewrite (IH _ psi i Hi). apply run_pieces_ext; [|exact Hi].
    intros j Hj. destruct p as [v|c]; cbn [step_piece piece_act].
    - apply apply_mcomp_sh. exact Hj.
    - apply apply_mscal.
  Qed.

  Theorem fold_pieces_sound ps (psi : tensor (K:=K)) i : Forall2 lt i sh ->
    apply O (fold_pieces O dims ps) dims ax psi i = run_pieces O dims ax ps psi i.
  Proof.
    intro Hi. unfold fold_pieces. rewrite (fold_pieces_gen ps _ psi i Hi).
    apply run_pieces_ext; [|exact Hi]. intros j Hj. apply apply_delta_sh. exact Hj.
  Qed.

  Theorem mpow_sound U n : forall (psi : tensor (K:=K)) i, Forall2 lt i sh ->
    apply O (mpow_f O dims U n) dims ax psi i = Nat.iter n (apply O U dims ax) psi i.
  Proof.
    induction n as [|n IH]; intros psi i Hi; cbn [mpow_f Nat.iter].
    - apply apply_delta_sh. exact Hi.
    - rewrite (apply_mcomp_sh _ _ psi i Hi). apply (apply_ext_shape O sh); [apply fits_adims| |exact Hi].
      intros j Hj. apply IH. exact Hj.
  Qed.

  Theorem block_fast_path_sound ps n : forall (psi : tensor (K:=K)) i, Forall2 lt i sh ->
    apply O (mpow_f O dims (fold_pieces O dims ps) n) dims ax psi i = Nat.iter n (run_pieces O dims ax ps) psi i.
  Proof.
    intros psi i Hi. rewrite (mpow_sound _ n psi i Hi). revert i Hi.
    induction n as [|n IH]; intros i Hi; [reflexivity|]. rewrite !iter_S.
    rewrite (fold_pieces_sound ps _ i Hi). apply run_pieces_ext; [|exact Hi]. exact IH.
  Qed.
End SubBlockProofs.

(* collecting the scalars and multiplying them in after the power: (i * 1)^2 = -1, but i * 1^2 = i *)
Theorem phase_outside_refuted : exists (ps : list (piece (K:=K8))) n r q,
  phase_outside K8Ops [2] ps n r q <> mpow_f K8Ops [2] (fold_pieces K8Ops [2] ps) n r q.
Proof.
  exists [PScal (ki K8Ops)], 2, [0], [0]. intro H.
  apply (f_equal c0) in H. vm_compute in H. discriminate H.
Qed.

Section SwapOdd.
  Context {K : Type} (O : Ops K) (L : Laws O).
  Add Ring Kring2 : (law_ring O L).
  Infix "+" := (kadd O). Infix "*" := (kmul O). Infix "-" := (ksub O).
  Notation "- a" := (kopp O a).
  Notation z0 := (k0 O). Notation z1 := (k1 O). Notation hf := (khalf O). Notation ii := (ki O).

  Definition SWAPm : matrix (K:=K) := [[z1; z0; z0; z0]; [z0; z0; z1; z0]; [z0; z1; z0; z0]; [z0; z0; z0; z1]].

  Lemma half2s : (z1 + z1) * hf = z1.
  Proof. transitivity (hf + hf); [ring | exact (law_half O L)]. Qed.

  Variables r rc g : K.
  Hypothesis Hu : r * rc = z1.          (* r = exp(i pi t / 2), rc its conjugate *)
  Hypothesis Hodd : r * r = - z1.       (* exp(i pi t) = -1: t is an odd integer *)

  Theorem swap_pow_odd : spec_SwapPow O r rc g = mscale O g SWAPm.
  Proof. mat_entries ltac:(ring [Hu Hodd half2s (law_i O L)]). Qed.

  Theorem swap_pow_odd_table : eig_unitary O (tbl_SwapPow O) r rc g = mscale O g SWAPm.
  Proof. mat_entries ltac:(ring [Hu Hodd half2s (law_i O L)]). Qed.

  Theorem swap_pow_odd_is_exponent_one : spec_SwapPow O r rc g = spec_SwapPow O ii (- ii) g.
  Proof. mat_entries ltac:(ring [Hu Hodd half2s (law_i O L)]). Qed.

  Theorem swap_pow_odd_relabels a0 a1 (psi : tensor (K:=K)) (i : idx) :
    a0 < length i -> a1 < length i -> a0 <> a1 -> get i a0 < 2 -> get i a1 < 2 ->
    apply O (mat_of O [2; 2] (spec_SwapPow O r rc g)) [2; 2] [a0; a1] psi i = g * psi (upd (upd i a0 (get i a1)) a1 (get i a0)).
  Proof.
    intros H0 H1 Hne D0 D1. rewrite swap_pow_odd_is_exponent_one.
    rewrite <- (kernel_SWAP_sound O L a0 a1 psi psi i H0 H1 Hne D0 D1 g).
    apply (kernel_SWAP_relabels O a0 a1 psi psi i H0 H1 Hne D0 D1 g).
  Qed.
End SwapOdd.

(* exponent 1 with global shift 1: r = i, g = exp(i pi * 1 * 1) = -1; the gate is -SWAP, relabelling alone (= SWAP) loses the sign *)
Theorem swap_relabel_phase_refuted : exists r rc g : K8,
  kmul K8Ops r rc = k1 K8Ops /\ kmul K8Ops r r = kopp K8Ops (k1 K8Ops) /\ spec_SwapPow K8Ops r rc g <> SWAPm K8Ops.
Proof.
  exists (ki K8Ops), (kopp K8Ops (ki K8Ops)), (kopp K8Ops (k1 K8Ops)). repeat split; try (vm_compute; reflexivity).
  intro H. apply (f_equal (fun m => c0 (mget K8Ops m 0 0))) in H. vm_compute in H. discriminate H.
Qed.
