(* Axis permutations commute with the reference semantics (justifies simulating in one qubit order and reading the result
   in another: `transpose_to_qubit_order`, `qubit_order=`, and QubitPermutationGate's transpose fast path).
     tperm_alt_eq       the two spellings of tperm agree
     apply_permute      U on the relabelled axes of the permuted tensor = the permuted result of U on the original axes
     tperm_compose / tperm_id / tperm_inverse
     run_permute        a whole op list: relabel every op's axes, permute once at the end
     kernel_Perm_sound  the transpose QubitPermutationGate performs = apply of its documented matrix perm_matrix
     kernel_Perm_tperm  on all axes in order that transpose is tperm *)
From Coq Require Import List Arith Bool Ring Lia.
From VF Require Import Base.RingOps Base.Mat Base.Tensor Base.TensorProofs Base.TabProofs Gates.GateSpecs Gates.Families
  Sim.MeasureProofs Sim.CtrlApply Sim.CtrlApplyProofs Sim.Classical Sim.ClassicalProofs Sim.Permute.
Import ListNotations.

(* ---------- positional facts ---------- *)
Lemma get_gets i pi k : k < length pi -> get (gets i pi) k = get i (get pi k).
Proof.
  intros Hk. unfold get at 1, gets.
  rewrite (nth_indep (map (get i) pi) 0 (get i 0)) by (rewrite map_length; exact Hk).
  rewrite (map_nth (get i) pi 0 k). reflexivity.
Qed.
Lemma gets_gets i pi ax : (forall a, In a ax -> a < length pi) -> gets (gets i pi) ax = gets i (gets pi ax).
Proof.
  intros Hr. unfold gets. rewrite map_map. apply map_ext_in. intros a Ha. apply (get_gets i pi a). apply Hr. exact Ha.
Qed.

Lemma gets_upd_notin pi : forall i a x, ~ In a pi -> gets (upd i a x) pi = gets i pi.
Proof.
  intros i a x Hn. unfold gets. apply map_ext_in. intros p Hp. apply get_upd_other. intros ->. exact (Hn Hp).
Qed.
(* writing axis pi[a] of the source index = writing position a of the relabelled index *)
Lemma gets_upd_perm pi : NoDup pi -> forall i a x, a < length pi -> get pi a < length i ->
  gets (upd i (get pi a) x) pi = upd (gets i pi) a x.
Proof.
  induction 1 as [|p pi Hp Hn IH]; intros i a x Ha Hr; [cbn in Ha; lia|].
  destruct a as [|a]; cbn [gets map upd].
  - change (get (p :: pi) 0) with p in *.
    rewrite (get_upd_same i p x Hr). f_equal. apply (gets_upd_notin pi i p x Hp).
  - change (get (p :: pi) (S a)) with (get pi a) in *. cbn [length] in Ha.
    assert (Hin : In (get pi a) pi) by (apply nth_In; lia).
    rewrite get_upd_other by (intros E; apply Hp; rewrite <- E; exact Hin).
    f_equal. apply (IH i a x); [lia|exact Hr].
Qed.
Lemma gets_upds_perm pi ax' : NoDup pi -> (forall a, In a ax' -> a < length pi) -> forall i v,
  (forall p, In p pi -> p < length i) ->
  gets (upds i (gets pi ax') v) pi = upds (gets i pi) ax' v.
Proof.
  intros Hn. induction ax' as [|a ax' IH]; intros Hr i v Hp; [reflexivity|].
  destruct v as [|x v]; [reflexivity|]. cbn [gets map upds].
  assert (Ha : a < length pi) by (apply Hr; left; reflexivity).
  rewrite IH.
  - rewrite (gets_upd_perm pi Hn i a x Ha); [reflexivity|]. apply Hp. apply nth_In. exact Ha.
  - intros b Hb. apply Hr. right. exact Hb.
  - intros p Hpp. rewrite upd_length. apply Hp. exact Hpp.
Qed.

Section PermuteProofs.
  Context {K : Type} (O : Ops K) (L : Laws O).
  Add Ring PermRing : (law_ring O L).
  Infix "*" := (kmul O).
  Notation T := (tensor (K:=K)).

  Lemma tperm_alt_eq pi (psi : T) i : tperm_alt pi psi i = tperm pi psi i.
  Proof.
    unfold tperm_alt, tperm. f_equal. unfold gets.
    transitivity (map (get i) (map (fun k => nth k pi 0) (seq 0 (length pi)))); [rewrite map_map; reflexivity|].
    rewrite (map_nth_seq pi 0). reflexivity.
  Qed.

  (* MAIN: applying U on the axes pi[ax'] of the permuted tensor = permuting the result of U on ax'.
     The relation between the two axis lists: ax = gets pi ax' (each original axis k becomes pi[k]);
     pi has no repeated entry, ax' points inside pi, pi points inside the index. *)
  Theorem apply_permute (U : mat (K:=K)) dims pi ax' (psi : T) i :
    NoDup pi -> (forall a, In a ax' -> a < length pi) -> (forall p, In p pi -> p < length i) ->
    apply O U dims (gets pi ax') (tperm pi psi) i = tperm pi (apply O U dims ax' psi) i.
  Proof.
    intros Hn Hr Hp. unfold tperm, apply. rewrite (gets_gets i pi ax' Hr).
    apply (ksum_ext O). intros v _. rewrite (gets_upds_perm pi ax' Hn Hr i v Hp). reflexivity.
  Qed.

  (* composition: first relabel by rho, then by pi *)
  Theorem tperm_compose pi rho (psi : T) i : (forall a, In a rho -> a < length pi) ->
    tperm pi (tperm rho psi) i = tperm (pcomp pi rho) psi i.
  Proof. intros Hr. unfold tperm, pcomp. rewrite (gets_gets i pi rho Hr). reflexivity. Qed.
  Theorem tperm_id (psi : T) i : tperm (seq 0 (length i)) psi i = psi i.
  Proof.
    unfold tperm, gets. change (map (get i) (seq 0 (length i))) with (map (fun k => nth k i 0) (seq 0 (length i))).
    rewrite (map_nth_seq i 0). reflexivity.
  Qed.
  Theorem tperm_inverse pi rho (psi : T) i : (forall a, In a rho -> a < length pi) -> pcomp pi rho = seq 0 (length i) ->
    tperm pi (tperm rho psi) i = psi i.
  Proof. intros Hr He. rewrite (tperm_compose pi rho psi i Hr), He. apply tperm_id. Qed.

  (* ---------- op lists ---------- *)
  Lemma apply_ext_len U d ax (p q : T) i : (forall j, length j = length i -> p j = q j) ->
    apply O U d ax p i = apply O U d ax q i.
  Proof. intros H. unfold apply. apply (ksum_ext O). intros v _. rewrite H by apply upds_length. reflexivity. Qed.
  Lemma run_ext_len (ops : list (rop (K:=K))) : forall (p q : T) i, (forall j, length j = length i -> p j = q j) ->
    run O ops p i = run O ops q i.
  Proof.
    induction ops as [|o ops IH]; intros p q i H; cbn [run fold_left]; [apply H; reflexivity|].
    apply IH. intros j Hj. apply apply_ext_len. intros k Hk. apply H. congruence.
  Qed.

  Lemma run_cons o (ops : list (rop (K:=K))) (p : T) :
    run O (o :: ops) p = run O ops (apply O (mat_of O (rop_dims o) (rop_m o)) (rop_dims o) (rop_ax o) p).
  Proof. reflexivity. Qed.

  Theorem run_permute pi (ops : list (rop (K:=K))) : forall (psi : T) i,
    NoDup pi -> (forall p, In p pi -> p < length i) ->
    (forall o, In o ops -> forall a, In a (rop_ax o) -> a < length pi) ->
    run O (map (rop_relabel pi) ops) (tperm pi psi) i = tperm pi (run O ops psi) i.
  Proof.
    induction ops as [|o ops IH]; intros psi i Hn Hp Hr; [reflexivity|].
    cbn [map]. rewrite !run_cons. cbn [rop_relabel rop_m rop_dims rop_ax].
    rewrite (run_ext_len (map (rop_relabel pi) ops) _
               (tperm pi (apply O (mat_of O (rop_dims o) (rop_m o)) (rop_dims o) (rop_ax o) psi)) i).
    - apply IH; [exact Hn|exact Hp|]. intros o' Ho'. apply Hr. right. exact Ho'.
    - intros j Hj. apply apply_permute; [exact Hn| |].
      + apply Hr. left. reflexivity.
      + intros p Hpp. rewrite Hj. apply Hp. exact Hpp.
  Qed.
End PermuteProofs.

(* ---------- QubitPermutationGate's transpose is its documented matrix ---------- *)
Lemma perm_digits_gets perm w : NoDup perm -> (forall p, In p perm -> p < length perm) -> length w = length perm ->
  perm_digits perm (gets w perm) = w.
Proof.
  intros Hn Hr Hl. rewrite perm_digits_upds. apply list_ext_get; [rewrite upds_length, repeat_length; symmetry; exact Hl|].
  intros a. destruct (Nat.lt_ge_cases a (length perm)) as [Ha|Ha].
  - destruct (perm_surj perm a Hn Hr Ha) as [k [Hk Ek]]. rewrite <- Ek.
    rewrite (get_upds_nth perm (repeat 0 (length perm)) (gets w perm) k Hn); [| |apply gets_length|exact Hk].
    + change (nth k (gets w perm) 0) with (get (gets w perm) k). apply get_gets. exact Hk.
    + intros p Hp. rewrite repeat_length. apply Hr. exact Hp.
  - unfold get. rewrite !nth_overflow; [reflexivity|lia|rewrite upds_length, repeat_length; exact Ha].
Qed.
Lemma upds_seq_all j v : length v = length j -> upds j (seq 0 (length j)) v = v.
Proof.
  intros Hl. apply list_ext_get; [rewrite upds_length; symmetry; exact Hl|]. intros a.
  destruct (Nat.lt_ge_cases a (length j)) as [Ha|Ha].
  - rewrite <- (@seq_nth (length j) 0 a 0 Ha) at 1.
    apply (get_upds_nth (seq 0 (length j)) j v a (seq_NoDup _ _)); [|rewrite seq_length; exact Hl|rewrite seq_length; exact Ha].
    intros x Hx. apply in_seq in Hx. lia.
  - unfold get. rewrite !nth_overflow; [reflexivity|lia|rewrite upds_length; exact Ha].
Qed.

Section PermKernel.
  Context {K : Type} (O : Ops K) (L : Laws O).
  Add Ring PermRing2 : (law_ring O L).
  Infix "*" := (kmul O).
  Notation T := (tensor (K:=K)).

  Theorem kernel_Perm_sound perm ax (psi : T) j :
    NoDup perm -> (forall p, In p perm -> p < length perm) -> length ax = length perm ->
    Forall2 lt (gets j ax) (repeat 2 (length perm)) ->
    kernel_Perm perm ax psi j
    = apply O (mat_of O (repeat 2 (length perm)) (perm_matrix O perm)) (repeat 2 (length perm)) ax psi j.
  Proof.
    intros Hn Hr Hl Hs.
    destruct (inshape_bits _ _ Hs) as [Hb Hlw].
    set (vs := gets (gets j ax) perm).
    assert (Hvs : Forall2 lt vs (repeat 2 (length perm))).
    { apply bits_inshape; [apply bits_gets; exact Hb|apply gets_length]. }
    unfold kernel_Perm, apply.
    rewrite <- (gets_gets j ax perm) by (intros p Hp; rewrite Hl; apply Hr; exact Hp). fold vs.
    rewrite <- (ksum_enum_pick O L (fun v => psi (upds j ax v)) (repeat 2 (length perm)) vs Hvs).
    apply (ksum_ext O). intros v Hv. apply enum_in in Hv.
    rewrite (mat_of_perm_matrix O perm (gets j ax) v Hr Hs Hv). unfold delta.
    destruct (inshape_bits _ _ Hv) as [_ Hlv].
    rewrite (list_eqb_nat_iff (gets j ax) (perm_digits perm v) vs v).
    - destruct (list_eqb_nat vs v); ring.
    - unfold vs. split.
      + intros E. rewrite E, perm_digits_upds.
        apply (gets_upds_same perm Hn (repeat 0 (length perm)) v); [|exact Hlv].
        intros p Hp. rewrite repeat_length. apply Hr. exact Hp.
      + intros <-. symmetry. apply (perm_digits_gets perm (gets j ax) Hn Hr Hlw).
  Qed.

  (* on all axes in order, the gate's transpose is tperm *)
  Theorem kernel_Perm_tperm perm (psi : T) j : (forall p, In p perm -> p < length j) -> length perm = length j ->
    kernel_Perm perm (seq 0 (length j)) psi j = tperm perm psi j.
  Proof.
    intros Hr Hl. unfold kernel_Perm, tperm.
    assert (E : gets (seq 0 (length j)) perm = perm).
    { unfold gets. rewrite <- (map_id perm) at 2. apply map_ext_in. intros p Hp. unfold get. apply (@seq_nth (length j) 0 p 0 (Hr p Hp)). }
    rewrite E. rewrite upds_seq_all by (rewrite gets_length; exact Hl). reflexivity.
  Qed.

  (* ---------- examples: a 3-cycle on three axes ---------- *)
  Example tperm_cycle3 (psi : T) a b c : tperm ex_cycle3 psi [a; b; c] = psi [b; c; a].
  Proof. reflexivity. Qed.
  (* a gate on original axes 0 and 2 acts on axes 1 and 0 of the permuted tensor *)
  Example apply_permute_cycle3 (U : mat (K:=K)) (psi : T) a b c :
    apply O U [2; 2] [1; 0] (tperm ex_cycle3 psi) [a; b; c] = tperm ex_cycle3 (apply O U [2; 2] [0; 2] psi) [a; b; c].
  Proof.
    apply (apply_permute O U [2; 2] ex_cycle3 [0; 2] psi [a; b; c]).
    - unfold ex_cycle3. repeat constructor; cbn; intuition lia.
    - intros x [<-|[<-|[]]]; cbn; lia.
    - intros p [<-|[<-|[<-|[]]]]; cbn; lia.
  Qed.
  Example tperm_cycle3_cubed (psi : T) a b c :
    tperm ex_cycle3 (tperm ex_cycle3 (tperm ex_cycle3 psi)) [a; b; c] = psi [a; b; c].
  Proof. reflexivity. Qed.
  Example tperm_cycle3_inverse (psi : T) i : length i = 3 -> tperm ex_cycle3 (tperm (pcomp ex_cycle3 ex_cycle3) psi) i = psi i.
  Proof.
    intros Hl. apply tperm_inverse; [intros x [<-|[<-|[<-|[]]]]; cbn; lia|]. rewrite Hl. reflexivity.
  Qed.
  Example run_permute_cycle3 (M1 M2 : matrix (K:=K)) (psi : T) a b c :
    let ops := [ {| rop_m := M1; rop_dims := [2; 2]; rop_ax := [0; 2] |}; {| rop_m := M2; rop_dims := [2]; rop_ax := [1] |} ] in
    run O (map (rop_relabel ex_cycle3) ops) (tperm ex_cycle3 psi) [a; b; c] = tperm ex_cycle3 (run O ops psi) [a; b; c].
  Proof.
    cbv zeta. apply (run_permute O).
    - unfold ex_cycle3. repeat constructor; cbn; intuition lia.
    - intros p [<-|[<-|[<-|[]]]]; cbn; lia.
    - intros o [<-|[<-|[]]] x; cbn; intuition lia.
  Qed.
  (* QubitPermutationGate([1, 2, 0]) on axes 3, 0, 2 of a four-qubit state: the transpose is the matrix *)
  Example kernel_Perm_cycle3 (psi : T) j : Forall2 lt j [2; 2; 2; 2] ->
    kernel_Perm ex_cycle3 [3; 0; 2] psi j
    = apply O (mat_of O [2; 2; 2] (perm_matrix O ex_cycle3)) [2; 2; 2] [3; 0; 2] psi j.
  Proof.
    intros Hj. apply (kernel_Perm_sound ex_cycle3 [3; 0; 2] psi j).
    - unfold ex_cycle3. repeat constructor; cbn; intuition lia.
    - intros p [<-|[<-|[<-|[]]]]; cbn; lia.
    - reflexivity.
    - apply (gets_in_dims [2; 2; 2; 2] [3; 0; 2] j Hj).
  Qed.
End PermKernel.
