(* Classical basis-state tracking (model of cirq.ClassicalStateSimulator, sim/classical_simulator.py): the simulator
   keeps ONE computational basis state as a list of bits and updates bits instead of amplitudes.
   `classical_step` is `ClassicalBasisSimState._act_on_fallback_` together with the `_act_on_` overrides that run before
   it (IdentityGate, MeasurementGate, ResetChannel), in the shape of that code:

     if isinstance(gate, ControlledGate):                      -> CCtrl: controls read from the basis,
         controls_state not in gate.control_values.expand()       `cactive cvals (gets b cax)`; off => nothing happens
         gate = gate.sub_gate                                     on => continue with the sub-gate on the remaining axes
     if _is_identity(gate): pass                               -> XPow/CXPow/CCXPow/SwapPow with exponent % 2 == 0
     elif gate == ops.X:      basis[q] ^= 1
     elif gate == ops.CNOT:   basis[q] ^= basis[c]
     elif gate == ops.SWAP:   basis[a], basis[b] = basis[b], basis[a]
     elif gate == ops.CSWAP:  if basis[c]: swap
     elif gate == ops.TOFFOLI: basis[q] ^= basis[c1] & basis[c2]
     elif isinstance(gate, QubitPermutationGate): basis[qs[perm[i]]] = original_values[i] for every i
     else: raise ValueError                                    -> None

   An EigenGate compares equal to ops.X (CNOT, SWAP, TOFFOLI) exactly when all its eigenphases agree with the base gate's
   (`EigenGate._value_equality_values_`), i.e. its documented matrix IS the base matrix: in the unit parametrisation of
   Gates/GateSpecs.v  r*r = -1, rc = -r, g = 1  (class IsBase).  `exponent % 2 == 0` means r*r = 1, rc = r (class
   EvenExp); the global-shift factor g is then arbitrary and survives as a global phase.
   Z-like gates, GlobalPhaseGate etc. have no branch: they are refused (ValueError), although they would keep a basis
   state a basis state.  Definitions only; theorems in Sim/ClassicalProofs.v. *)
From Coq Require Import List Arith Bool.
From VF Require Import Base.RingOps Base.Mat Base.Tensor Gates.GateSpecs Gates.Channels Gates.Families Sim.KronState Sim.CtrlApply.
Import ListNotations.

(* what the code can tell about an EigenGate's exponent / global shift *)
Inductive eclass := EvenExp | IsBase | OtherExp.

Section Classical.
  Context {K : Type} (O : Ops K).
  Notation T := (tensor (K:=K)).

  Definition basis_tensor (b : list nat) : T := fun i => if list_eqb_nat i b then k1 O else k0 O.

  (* the gates the fallback looks at; every other unitary gate is CgOther (its shape and matrix) *)
  Inductive cgate :=
  | CgX (e : eclass) (r rc g : K)
  | CgCX (e : eclass) (r rc g : K)
  | CgCCX (e : eclass) (r rc g : K)
  | CgSwap (e : eclass) (r rc g : K)
  | CgCSwap
  | CgPerm (perm : list nat)
  | CgOther (dims : list nat) (m : matrix (K:=K)).

  Inductive cop :=
  | COp (g : cgate) (ax : list nat)                                   (* gate.on(ax...) *)
  | CCtrl (cdims : list nat) (cvals : list (list nat)) (g : cgate) (cax ax : list nat)   (* ControlledGate(g, ...).on(cax..., ax...) *)
  | CIdentity (dims ax : list nat)                                    (* IdentityGate._act_on_: True *)
  | CMeasure (ax : list nat)                                          (* MeasurementGate._act_on_ -> sim_state.measure *)
  | CReset (a : nat).                                                 (* ResetChannel._act_on_ (qubit) *)

  (* documented matrices *)
  Definition cgate_dims (g : cgate) : list nat :=
    match g with
    | CgX _ _ _ _ => [2]
    | CgCX _ _ _ _ | CgSwap _ _ _ _ => [2; 2]
    | CgCCX _ _ _ _ | CgCSwap => [2; 2; 2]
    | CgPerm perm => repeat 2 (length perm)
    | CgOther dims _ => dims
    end.
  Definition cgate_mat (g : cgate) : matrix (K:=K) :=
    match g with
    | CgX _ r rc gg => spec_XPow O r rc gg
    | CgCX _ r rc gg => spec_CXPow O r rc gg
    | CgCCX _ r rc gg => spec_CCXPow O r rc gg
    | CgSwap _ r rc gg => spec_SwapPow O r rc gg
    | CgCSwap => spec_CSwap O
    | CgPerm perm => perm_matrix O perm
    | CgOther _ m => m
    end.
  (* the units of an EigenGate belong to its class *)
  Definition eparams_ok (e : eclass) (r rc g : K) : Prop :=
    match e with
    | EvenExp => kmul O r r = k1 O /\ rc = r
    | IsBase => kmul O r r = kopp O (k1 O) /\ rc = kopp O r /\ g = k1 O
    | OtherExp => True
    end.
  Definition cgate_ok (g : cgate) : Prop :=
    match g with
    | CgX e r rc gg | CgCX e r rc gg | CgCCX e r rc gg | CgSwap e r rc gg => eparams_ok e r rc gg
    | CgPerm perm => NoDup perm /\ (forall p, In p perm -> p < length perm)
    | CgOther dims m => sq (size dims) m
    | CgCSwap => True
    end.

  (* _is_identity(gate) *)
  Definition is_identity (g : cgate) : bool :=
    match g with
    | CgX EvenExp _ _ _ | CgCX EvenExp _ _ _ | CgCCX EvenExp _ _ _ | CgSwap EvenExp _ _ _ => true
    | _ => false
    end.

  (* the QubitPermutationGate branch:
       original_values = [basis[q] for q in qs]
       for i, q in enumerate(qs): basis[qs[perm[i]]] = original_values[i]                             *)
  Definition perm_update (perm ax b : list nat) : list nat :=
    let orig := gets b ax in
    fold_left (fun acc k => upd acc (nth (nth k perm 0) ax 0) (nth k orig 0)) (seq 0 (length ax)) b.

  (* the if/elif chain after the ControlledGate prologue; tuple unpacking of the wrong number of qubits raises *)
  Definition gate_step (g : cgate) (ax b : list nat) : option (list nat) :=
    if is_identity g then Some b else
    match g, ax with
    | CgX IsBase _ _ _, [q] => Some (upd b q (Nat.lxor (get b q) 1))
    | CgCX IsBase _ _ _, [c; q] => Some (upd b q (Nat.lxor (get b q) (get b c)))
    | CgSwap IsBase _ _ _, [x; y] => Some (upd (upd b x (get b y)) y (get b x))
    | CgCSwap, [c; x; y] => Some (if Nat.eqb (get b c) 0 then b else upd (upd b x (get b y)) y (get b x))
    | CgCCX IsBase _ _ _, [c1; c2; q] => Some (upd b q (Nat.lxor (get b q) (Nat.land (get b c1) (get b c2))))
    | CgPerm perm, _ => Some (perm_update perm ax b)
    | _, _ => None
    end.

  Definition classical_step (o : cop) (b : list nat) : option (list nat) :=
    match o with
    | COp g ax => gate_step g ax b
    | CCtrl _ cvals g cax ax => if cactive cvals (gets b cax) then gate_step g ax b else Some b
    | CIdentity _ _ => Some b
    | CMeasure _ => Some b                       (* the basis is not changed; the outcome is classical_outcome *)
    | CReset a =>                                (* result = measure; act_on(XPowGate() ** (2 - result)) *)
        let e := Nat.sub 2 (get b a) in
        if Nat.even e then Some b else Some (upd b a (Nat.lxor (get b a) 1))
    end.
  (* ClassicalBasisState.measure: [self.basis[i] for i in axes] *)
  Definition classical_outcome (o : cop) (b : list nat) : list nat :=
    match o with CMeasure ax => gets b ax | CReset a => [get b a] | _ => [] end.

  Fixpoint classical_run (ops : list cop) (b : list nat) : option (list nat) :=
    match ops with
    | [] => Some b
    | o :: rest => match classical_step o b with Some b' => classical_run rest b' | None => None end
    end.

  (* the quantum side.  Unitary operations: the documented matrix on the operation's axes (for a controlled gate the
     block matrix ctrl_matrix of Gates/Families.v on cax ++ ax).  Measurement / reset: the (unnormalised) branch of
     the outcome the classical simulator reports for the tracked bits b: projector, resp. the Kraus operator
     |0><outcome| of ResetChannel.  ClassicalProofs.v shows every other branch has amplitude 0. *)
  Definition qstep (o : cop) (b : list nat) (psi : T) : T :=
    match o with
    | COp g ax => apply O (mat_of O (cgate_dims g) (cgate_mat g)) (cgate_dims g) ax psi
    | CCtrl cdims cvals g cax ax =>
        apply O (mat_of O (cdims ++ cgate_dims g) (ctrl_matrix O cdims cvals (cgate_mat g))) (cdims ++ cgate_dims g) (cax ++ ax) psi
    | CIdentity dims ax => apply O (mat_of O dims (mid O (size dims))) dims ax psi
    | CMeasure ax => tproject O ax (gets b ax) psi
    | CReset a => apply O (mat_of O [2] (nth (get b a) (kraus_reset2 O) [])) [2] [a] psi
    end.
  (* the global phase picked up: the global-shift factor of an identity-class EigenGate that actually acts *)
  Definition cgate_phase (g : cgate) : K :=
    match g with
    | CgX EvenExp _ _ gg | CgCX EvenExp _ _ gg | CgCCX EvenExp _ _ gg | CgSwap EvenExp _ _ gg => gg
    | _ => k1 O
    end.
  Definition cop_phase (o : cop) (b : list nat) : K :=
    match o with
    | COp g _ => cgate_phase g
    | CCtrl _ cvals g cax _ => if cactive cvals (gets b cax) then cgate_phase g else k1 O
    | _ => k1 O
    end.

  (* well-formed placement of an operation on a register of n qubits holding bits *)
  Definition axes_ok (n : nat) (ax : list nat) : Prop := NoDup ax /\ forall a, In a ax -> a < n.
  Definition cop_ok (n : nat) (o : cop) : Prop :=
    match o with
    | COp g ax => cgate_ok g /\ axes_ok n ax /\ length ax = length (cgate_dims g)
    | CCtrl cdims cvals g cax ax =>
        cgate_ok g /\ axes_ok n (cax ++ ax) /\ length ax = length (cgate_dims g) /\ length cax = length cdims
        /\ Forall (fun d => 2 <= d) cdims
    | CIdentity dims ax => axes_ok n ax /\ length ax = length dims /\ Forall (fun d => 2 <= d) dims
    | CMeasure ax => True
    | CReset a => a < n
    end.
  Definition bits (b : list nat) : Prop := Forall (fun x => x < 2) b.
  (* the index i has in-shape digits on the operation's axes (where the list matrix is read) *)
  Definition cop_at (o : cop) (i : idx) : Prop :=
    match o with
    | COp g ax => Forall2 lt (gets i ax) (cgate_dims g)
    | CCtrl cdims _ g cax ax => Forall2 lt (gets i cax) cdims /\ Forall2 lt (gets i ax) (cgate_dims g)
    | CIdentity dims ax => Forall2 lt (gets i ax) dims
    | CMeasure _ => True
    | CReset a => Forall2 lt (gets i [a]) [2]
    end.
  (* every axis the operation touches is a qubit *)
  Definition cop_qubit (o : cop) : Prop :=
    match o with
    | COp g _ => cgate_dims g = repeat 2 (length (cgate_dims g))
    | CCtrl cdims _ g _ _ => cdims = repeat 2 (length cdims) /\ cgate_dims g = repeat 2 (length (cgate_dims g))
    | CIdentity dims _ => dims = repeat 2 (length dims)
    | _ => True
    end.

  (* run the quantum side along the classical trajectory *)
  Fixpoint qrun (ops : list cop) (b : list nat) (psi : T) : T :=
    match ops with
    | [] => psi
    | o :: rest => match classical_step o b with
                   | Some b' => qrun rest b' (qstep o b psi)
                   | None => psi
                   end
    end.
  Fixpoint run_phase (ops : list cop) (b : list nat) : K :=
    match ops with
    | [] => k1 O
    | o :: rest => match classical_step o b with
                   | Some b' => kmul O (run_phase rest b') (cop_phase o b)
                   | None => k1 O
                   end
    end.
End Classical.
