(* Classical basis-state tracking is sound (justifies cirq.ClassicalStateSimulator, model in Sim/Classical.v).
     apply_basis          a matrix on axes ax of a basis state: one column of the matrix, placed at b's other digits
     apply_mono_basis     a monomial column (phase * one row) sends |b> to phase * |b with the axes rewritten>
     capply_basis         the same through controls (capply of Sim/CtrlApply.v), any control-value set
     classical_tracks     whenever classical_step accepts an operation, the documented matrix (for controlled gates the
                          block matrix ctrl_matrix) maps basis_tensor b to cop_phase * basis_tensor b', b' the updated bits;
                          any number of qubits, any placement of distinct in-range axes, any control-value set
     classical_born       |amplitude|^2 is the indicator of b' when the global-shift factor is a unit
     classical_measure_tracks / classical_measure_other_outcomes / classical_reset_other_branch
     classical_run_tracks a list of accepted operations: the state stays phase * basis state, bits = classical_run
     classical_step_refuses_Z   Z-like gates are refused (no branch), although they keep basis states (basis_diag_stays) *)
From Coq Require Import List Arith Bool Ring Lia.
From VF Require Import Base.RingOps Base.K8 Base.Mat Base.Tensor Base.TensorProofs Base.TabProofs Gates.GateSpecs Gates.Channels
  Gates.Families Sim.MeasureProofs Sim.KronState Sim.KronStateProofs Sim.ExecComm Sim.ExecCommProofs
  Sim.Kernels Sim.KernelProofs Sim.CtrlApply Sim.CtrlApplyProofs Sim.Kernels2 Sim.Kernels2Proofs Sim.Classical.
Import ListNotations.

(* ---------- lists ---------- *)
Lemma list_eqb_nat_len a : forall b, length a <> length b -> list_eqb_nat a b = false.
Proof.
  induction a as [|x a IH]; intros [|y b] H; cbn in *; try reflexivity; try congruence.
  rewrite (IH b) by lia. apply andb_false_r.
Qed.
Lemma list_eqb_nat_neq a b : a <> b -> list_eqb_nat a b = false.
Proof.
  intros H. destruct (list_eqb_nat a b) eqn:E; [|reflexivity]. apply list_eqb_nat_spec in E. contradiction.
Qed.
Lemma list_eqb_nat_iff a b c d : (a = b <-> c = d) -> list_eqb_nat a b = list_eqb_nat c d.
Proof.
  intros H. destruct (list_eqb_nat a b) eqn:E1; destruct (list_eqb_nat c d) eqn:E2; try reflexivity.
  - apply list_eqb_nat_spec in E1. apply H in E1. subst. rewrite list_eqb_nat_refl in E2. discriminate.
  - apply list_eqb_nat_spec in E2. apply H in E2. subst. rewrite list_eqb_nat_refl in E1. discriminate.
Qed.

(* i is b rewritten on ax with w'  <->  i agrees with b off ax and spells w' on ax *)
Lemma basis_shift ax b i w' : NoDup ax -> (forall a, In a ax -> a < length b) -> length i = length b ->
  length w' = length ax ->
  list_eqb_nat i (upds b ax w') = list_eqb_nat (upds i ax (gets b ax)) b && list_eqb_nat (gets i ax) w'.
Proof.
  intros Hn Hr Hl Hw.
  assert (Hri : forall a, In a ax -> a < length i) by (intros a Ha; rewrite Hl; apply Hr; exact Ha).
  destruct (list_eqb_nat i (upds b ax w')) eqn:E.
  - apply list_eqb_nat_spec in E. subst i. symmetry. apply andb_true_iff. split; apply list_eqb_nat_spec.
    + rewrite (upds_upds_same ax Hn b w' (gets b ax)) by (rewrite gets_length; exact Hw). apply upds_gets_self.
    + apply (gets_upds_same ax Hn b w' Hr Hw).
  - symmetry. apply andb_false_iff.
    destruct (list_eqb_nat (upds i ax (gets b ax)) b) eqn:E1; [right|left; reflexivity].
    destruct (list_eqb_nat (gets i ax) w') eqn:E2; [|reflexivity]. exfalso.
    apply list_eqb_nat_spec in E1. apply list_eqb_nat_spec in E2.
    assert (Hi : i = upds b ax w').
    { rewrite <- E1. rewrite (upds_upds_same ax Hn i (gets b ax) w') by (rewrite gets_length; symmetry; exact Hw).
      rewrite <- E2. symmetry. apply upds_gets_self. }
    rewrite Hi, list_eqb_nat_refl in E. discriminate E.
Qed.

Lemma bits_get b a : bits b -> get b a < 2.
Proof.
  unfold bits, get. intros H. revert a. induction H as [|x b Hx _ IH]; intros [|a]; cbn; try lia. apply IH.
Qed.
Lemma bits_upd b a x : bits b -> x < 2 -> bits (upd b a x).
Proof.
  unfold bits. intros H Hx. revert a. induction H as [|y b Hy Hb IH]; intros [|a]; cbn; constructor; auto.
Qed.
Lemma bits_upds ax : forall b v, bits b -> bits v -> bits (upds b ax v).
Proof.
  induction ax as [|a ax IH]; intros b [|x v] Hb Hv; cbn; try exact Hb.
  inversion Hv; subst. apply IH; [apply bits_upd; assumption|assumption].
Qed.
Lemma bits_gets b ax : bits b -> bits (gets b ax).
Proof. intros H. unfold bits, gets. apply Forall_forall. intros x Hx. apply in_map_iff in Hx as [a [<- _]]. apply bits_get. exact H. Qed.
Lemma bits_inshape v n : bits v -> length v = n -> Forall2 lt v (repeat 2 n).
Proof.
  intros H. revert n. induction H as [|x v Hx _ IH]; intros [|n] Hl; cbn in *; try discriminate; constructor; auto.
Qed.
Lemma gets_bits_shape b ax : bits b -> Forall2 lt (gets b ax) (repeat 2 (length ax)).
Proof. intros H. apply bits_inshape; [apply bits_gets; exact H|apply gets_length]. Qed.
Lemma inshape_bits v n : Forall2 lt v (repeat 2 n) -> bits v /\ length v = n.
Proof.
  revert n. induction v as [|x v IH]; intros [|n] H; inversion H; subst; [split; [constructor|reflexivity]|].
  destruct (IH n) as [Hb Hl]; [assumption|]. split; [constructor; assumption|cbn; congruence].
Qed.

Section ClassicalCore.
  Context {K : Type} (O : Ops K) (L : Laws O).
  Add Ring ClRing : (law_ring O L).
  Infix "+" := (kadd O). Infix "*" := (kmul O).
  Notation "- a" := (kopp O a).
  Notation z0 := (k0 O). Notation z1 := (k1 O).
  Notation T := (tensor (K:=K)).

  Lemma basis_len b i : length i <> length b -> basis_tensor O b i = z0.
  Proof. intros H. unfold basis_tensor. rewrite (list_eqb_nat_len i b H). reflexivity. Qed.

  (* a matrix applied to a basis state reads one column *)
  Lemma apply_basis (U : mat (K:=K)) dims ax b i :
    NoDup ax -> (forall a, In a ax -> a < length i) -> length dims = length ax -> Forall2 lt (gets b ax) dims ->
    apply O U dims ax (basis_tensor O b) i
    = if list_eqb_nat (upds i ax (gets b ax)) b then U (gets i ax) (gets b ax) else z0.
  Proof.
    intros Hn Hr Hl Hs. unfold apply.
    rewrite <- (ksum_enum_pick O L (fun v => if list_eqb_nat (upds i ax v) b then U (gets i ax) v else z0) dims (gets b ax) Hs).
    apply (ksum_ext O). intros v Hv. unfold basis_tensor.
    destruct (list_eqb_nat (upds i ax v) b) eqn:E.
    - apply list_eqb_nat_spec in E.
      assert (Hg : gets b ax = v).
      { rewrite <- E. apply (gets_upds_same ax Hn i v Hr). rewrite (enum_elt_length dims v Hv). exact Hl. }
      rewrite Hg, list_eqb_nat_refl. ring.
    - destruct (list_eqb_nat (gets b ax) v); ring.
  Qed.
  Lemma apply_basis_len (U : mat (K:=K)) dims ax b i : length i <> length b ->
    apply O U dims ax (basis_tensor O b) i = z0.
  Proof.
    intros H. unfold apply. apply (ksum_all_zero O L). intros v _.
    rewrite basis_len by (rewrite upds_length; exact H). ring.
  Qed.

  (* a column that is a phase times one row: the basis state moves to the digits w' on ax *)
  Theorem apply_mono_basis (U : mat (K:=K)) dims ax b w' c :
    NoDup ax -> (forall a, In a ax -> a < length b) -> length dims = length ax ->
    Forall2 lt (gets b ax) dims -> length w' = length ax ->
    (forall r, Forall2 lt r dims -> U r (gets b ax) = c * delta O r w') ->
    forall i, Forall2 lt (gets i ax) dims ->
      apply O U dims ax (basis_tensor O b) i = c * basis_tensor O (upds b ax w') i.
  Proof.
    intros Hn Hr Hl Hs Hw Hcol i Hi.
    destruct (Nat.eq_dec (length i) (length b)) as [El|Nl].
    - rewrite (apply_basis U dims ax b i Hn) by (try assumption; intros a Ha; rewrite El; apply Hr; exact Ha).
      unfold basis_tensor at 1. rewrite (basis_shift ax b i w' Hn Hr El Hw).
      destruct (list_eqb_nat (upds i ax (gets b ax)) b); cbn [andb]; [|ring].
      rewrite (Hcol _ Hi). unfold delta. reflexivity.
    - rewrite (apply_basis_len U dims ax b i Nl).
      rewrite basis_len by (rewrite upds_length; exact Nl). ring.
  Qed.

  (* through controls: when b's control digits are allowed the sub-gate acts, otherwise nothing happens *)
  Theorem capply_basis (U : mat (K:=K)) dims ax cax cvals b w' c :
    (forall x, In x ax -> ~ In x cax) ->
    (forall i, Forall2 lt (gets i ax) dims -> apply O U dims ax (basis_tensor O b) i = c * basis_tensor O (upds b ax w') i) ->
    forall i, Forall2 lt (gets i ax) dims ->
      capply O U dims ax cax cvals (basis_tensor O b) i
      = if cactive cvals (gets b cax) then c * basis_tensor O (upds b ax w') i else basis_tensor O b i.
  Proof.
    intros Hd Hsub i Hi. unfold capply.
    destruct (cactive cvals (gets b cax)) eqn:Eb; destruct (cactive cvals (gets i cax)) eqn:Ei.
    - apply Hsub. exact Hi.
    - (* i's controls are off, b's are on: both sides vanish *)
      assert (N1 : i <> b) by (intros ->; congruence).
      assert (N2 : i <> upds b ax w').
      { intros ->. rewrite (gets_upds_other ax b w' cax Hd) in Ei. congruence. }
      unfold basis_tensor. rewrite (list_eqb_nat_neq _ _ N1), (list_eqb_nat_neq _ _ N2). ring.
    - (* i's controls are on, b's are off: no term of the sum reaches b *)
      assert (N1 : i <> b) by (intros ->; congruence).
      unfold basis_tensor at 2. rewrite (list_eqb_nat_neq _ _ N1).
      unfold apply. apply (ksum_all_zero O L). intros v _. unfold basis_tensor.
      rewrite list_eqb_nat_neq; [ring|].
      intros E. rewrite <- E, (gets_upds_other ax i v cax Hd) in Eb. congruence.
    - reflexivity.
  Qed.

  (* scalars pass through apply / capply / projection *)
  Lemma apply_scale (U : mat (K:=K)) d ax (p : T) c i : apply O U d ax (fun j => c * p j) i = c * apply O U d ax p i.
  Proof. unfold apply. rewrite (ksum_mul_l O L). apply (ksum_ext O). intros v _. ring. Qed.
End ClassicalCore.

(* ---------- columns of the documented matrices ---------- *)
Ltac bit_cases :=
  repeat match goal with
         | H : ?x < 2 |- _ => is_var x; destruct x as [|[|x]]; [clear H|clear H|exfalso; lia]
         end.
Ltac inv_shape H :=
  repeat match type of H with
         | Forall2 lt _ (_ :: _) => let y := fresh "y" in let r := fresh "r" in let Hy := fresh "Hy" in let Hr := fresh "Hr" in
                                      inversion H as [|y ? r ? Hy Hr]; subst; clear H; rename Hr into H
         | Forall2 lt _ [] => inversion H; subst; clear H
         end.

Section ClassicalGates.
  Context {K : Type} (O : Ops K) (L : Laws O).
  Add Ring ClRing2 : (law_ring O L).
  Infix "+" := (kadd O). Infix "*" := (kmul O).
  Notation "- a" := (kopp O a).
  Notation z0 := (k0 O). Notation z1 := (k1 O). Notation ii := (ki O).
  Notation T := (tensor (K:=K)).

  Variables (r g : K).

  Section Even.
    Hypothesis Hrr : r * r = z1.
    Lemma col_X_even y x : y < 2 -> x < 2 -> mat_of O [2] (spec_XPow O r r g) [y] [x] = g * delta O [y] [x].
    Proof. intros; bit_cases; kcbv; ring [Hrr (law_half O L) (law_i O L)]. Qed.
    Lemma col_CX_even y0 y1 x0 x1 : y0 < 2 -> y1 < 2 -> x0 < 2 -> x1 < 2 ->
      mat_of O [2; 2] (spec_CXPow O r r g) [y0; y1] [x0; x1] = g * delta O [y0; y1] [x0; x1].
    Proof. intros; bit_cases; kcbv; ring [Hrr (law_half O L) (law_i O L)]. Qed.
    Lemma col_Swap_even y0 y1 x0 x1 : y0 < 2 -> y1 < 2 -> x0 < 2 -> x1 < 2 ->
      mat_of O [2; 2] (spec_SwapPow O r r g) [y0; y1] [x0; x1] = g * delta O [y0; y1] [x0; x1].
    Proof. intros; bit_cases; kcbv; ring [Hrr (law_half O L) (law_i O L)]. Qed.
    Lemma col_CCX_even y0 y1 y2 x0 x1 x2 : y0 < 2 -> y1 < 2 -> y2 < 2 -> x0 < 2 -> x1 < 2 -> x2 < 2 ->
      mat_of O [2; 2; 2] (spec_CCXPow O r r g) [y0; y1; y2] [x0; x1; x2] = g * delta O [y0; y1; y2] [x0; x1; x2].
    Proof. intros; bit_cases; kcbv; ring [Hrr (law_half O L) (law_i O L)]. Qed.
  End Even.

  Section Base.
    Hypothesis Hrr : r * r = - z1.
    Lemma col_X_base y x : y < 2 -> x < 2 ->
      mat_of O [2] (spec_XPow O r (- r) z1) [y] [x] = z1 * delta O [y] [Nat.lxor x 1].
    Proof. intros; bit_cases; kcbv; ring [Hrr (law_half O L) (law_i O L)]. Qed.
    Lemma col_CX_base y0 y1 x0 x1 : y0 < 2 -> y1 < 2 -> x0 < 2 -> x1 < 2 ->
      mat_of O [2; 2] (spec_CXPow O r (- r) z1) [y0; y1] [x0; x1] = z1 * delta O [y0; y1] [x0; Nat.lxor x1 x0].
    Proof. intros; bit_cases; kcbv; ring [Hrr (law_half O L) (law_i O L)]. Qed.
    Lemma col_Swap_base y0 y1 x0 x1 : y0 < 2 -> y1 < 2 -> x0 < 2 -> x1 < 2 ->
      mat_of O [2; 2] (spec_SwapPow O r (- r) z1) [y0; y1] [x0; x1] = z1 * delta O [y0; y1] [x1; x0].
    Proof. intros; bit_cases; kcbv; ring [Hrr (law_half O L) (law_i O L)]. Qed.
    Lemma col_CCX_base y0 y1 y2 x0 x1 x2 : y0 < 2 -> y1 < 2 -> y2 < 2 -> x0 < 2 -> x1 < 2 -> x2 < 2 ->
      mat_of O [2; 2; 2] (spec_CCXPow O r (- r) z1) [y0; y1; y2] [x0; x1; x2]
      = z1 * delta O [y0; y1; y2] [x0; x1; Nat.lxor x2 (Nat.land x0 x1)].
    Proof. intros; bit_cases; kcbv; ring [Hrr (law_half O L) (law_i O L)]. Qed.
  End Base.

  Lemma col_CSwap y0 y1 y2 x0 x1 x2 : y0 < 2 -> y1 < 2 -> y2 < 2 -> x0 < 2 -> x1 < 2 -> x2 < 2 ->
    mat_of O [2; 2; 2] (spec_CSwap O) [y0; y1; y2] [x0; x1; x2]
    = z1 * delta O [y0; y1; y2] (if Nat.eqb x0 0 then [x0; x1; x2] else [x0; x2; x1]).
  Proof. intros; bit_cases; kcbv; ring. Qed.
  (* the Kraus operators of ResetChannel: |0><v| keeps the branch v, the other one kills it *)
  Lemma col_reset y x k : y < 2 -> x < 2 -> k < 2 ->
    mat_of O [2] (nth k (kraus_reset2 O) []) [y] [x] = (if Nat.eqb k x then z1 else z0) * delta O [y] [0].
  Proof. intros; bit_cases; kcbv; ring. Qed.
End ClassicalGates.

(* ---------- QubitPermutationGate: scatter forms ---------- *)
Lemma fold_upd_combine ts : forall vs acc,
  fold_left (fun acc (p : nat * nat) => upd acc (fst p) (snd p)) (combine ts vs) acc = upds acc ts vs.
Proof.
  induction ts as [|t ts IH]; intros [|v vs] acc; cbn; try reflexivity. apply IH.
Qed.
Lemma perm_digits_upds perm ds : perm_digits perm ds = upds (repeat 0 (length perm)) perm ds.
Proof. unfold perm_digits. apply fold_upd_combine. Qed.

Lemma fold_upd_seq (f h : nat -> nat) n : forall s acc,
  fold_left (fun acc k => upd acc (f k) (h k)) (seq s n) acc = upds acc (map f (seq s n)) (map h (seq s n)).
Proof. induction n as [|n IH]; intros s acc; cbn; [reflexivity|]. apply IH. Qed.
Lemma map_nth_seq {A} (l : list A) d : map (fun k => nth k l d) (seq 0 (length l)) = l.
Proof.
  induction l as [|x l IH]; cbn; [reflexivity|]. f_equal.
  rewrite <- seq_shift, map_map. exact IH.
Qed.
Lemma perm_update_upds perm ax b : length perm = length ax ->
  perm_update perm ax b = upds b (map (fun p => nth p ax 0) perm) (gets b ax).
Proof.
  intros Hl. unfold perm_update. cbv zeta. rewrite fold_upd_seq. f_equal.
  - rewrite <- Hl. rewrite <- (map_nth_seq perm 0) at 2. rewrite map_map. reflexivity.
  - rewrite <- (gets_length b ax). apply map_nth_seq.
Qed.

Lemma get_upds_notin ax : forall i v a, ~ In a ax -> get (upds i ax v) a = get i a.
Proof.
  intros i v a Hn.
  assert (H : gets (upds i ax v) [a] = gets i [a]).
  { apply gets_upds_other. intros x Hx [<-|[]]. exact (Hn Hx). }
  cbn in H. injection H as H. exact H.
Qed.
Lemma get_upds_nth ax i v k : NoDup ax -> (forall a, In a ax -> a < length i) -> length v = length ax -> k < length ax ->
  get (upds i ax v) (nth k ax 0) = nth k v 0.
Proof.
  intros Hn Hr Hl Hk. rewrite <- (gets_upds_same ax Hn i v Hr Hl) at 2. unfold gets.
  rewrite (nth_indep (map (get (upds i ax v)) ax) 0 (get (upds i ax v) 0)) by (rewrite map_length; exact Hk).
  rewrite (map_nth (get (upds i ax v)) ax 0 k). reflexivity.
Qed.
Lemma list_ext_get (l l' : list nat) : length l = length l' -> (forall a, get l a = get l' a) -> l = l'.
Proof. intros Hl H. apply (nth_ext l l' 0 0 Hl). intros n _. apply H. Qed.

Lemma NoDup_map_inj_in {A B} (f : A -> B) l : NoDup l -> (forall x y, In x l -> In y l -> f x = f y -> x = y) -> NoDup (map f l).
Proof.
  induction 1 as [|x l Hx Hn IH]; intros Hi; cbn; constructor.
  - intros Hin. apply in_map_iff in Hin as [y [Hy Iy]]. apply Hx.
    rewrite (Hi x y); [exact Iy|left; reflexivity|right; exact Iy|symmetry; exact Hy].
  - apply IH. intros a b Ha Hb. apply Hi; right; assumption.
Qed.

(* a duplicate-free list of n numbers below n contains every number below n *)
Lemma perm_surj perm j : NoDup perm -> (forall p, In p perm -> p < length perm) -> j < length perm ->
  exists k, k < length perm /\ nth k perm 0 = j.
Proof.
  intros Hn Hr Hj.
  assert (Hin : In j perm).
  { apply (NoDup_length_incl Hn (l' := seq 0 (length perm))).
    - rewrite seq_length. lia.
    - intros p Hp. apply in_seq. specialize (Hr p Hp). lia.
    - apply in_seq. lia. }
  apply (In_nth perm j 0) in Hin as [k [Hk Hv]]. exists k. split; assumption.
Qed.

Lemma perm_scatter perm ax b vs :
  NoDup perm -> (forall p, In p perm -> p < length perm) -> length perm = length ax ->
  NoDup ax -> (forall a, In a ax -> a < length b) -> length vs = length ax ->
  upds b (map (fun p => nth p ax 0) perm) vs = upds b ax (upds (repeat 0 (length perm)) perm vs).
Proof.
  intros Hnp Hrp Hl Hna Hra Hv.
  set (ax' := map (fun p => nth p ax 0) perm).
  assert (Hn' : NoDup ax').
  { apply NoDup_map_inj_in; [exact Hnp|]. intros x y Hx Hy E.
    apply (proj1 (NoDup_nth ax 0) Hna x y); [rewrite <- Hl; apply Hrp; exact Hx|rewrite <- Hl; apply Hrp; exact Hy|exact E]. }
  assert (Hin' : forall a, In a ax' -> In a ax).
  { intros a Ha. apply in_map_iff in Ha as [p [<- Hp]]. apply nth_In. rewrite <- Hl. apply Hrp. exact Hp. }
  assert (Hl' : length ax' = length ax) by (unfold ax'; rewrite map_length; exact Hl).
  apply list_ext_get; [rewrite !upds_length; reflexivity|]. intros a.
  destruct (in_dec Nat.eq_dec a ax) as [Ha|Ha].
  - apply (In_nth ax a 0) in Ha as [j [Hj Ej]]. subst a.
    destruct (perm_surj perm j Hnp Hrp) as [k [Hk Ek]]; [rewrite Hl; exact Hj|].
    assert (Ea : nth j ax 0 = nth k ax' 0).
    { unfold ax'. rewrite (nth_indep (map (fun p => nth p ax 0) perm) 0 (nth 0 ax 0)) by (rewrite map_length; exact Hk).
      rewrite (map_nth (fun p => nth p ax 0) perm 0 k). rewrite Ek. reflexivity. }
    rewrite Ea at 1.
    rewrite (get_upds_nth ax' b vs k Hn') by (try lia; intros a Ha; apply Hra, Hin'; exact Ha).
    rewrite (get_upds_nth ax b _ j Hna Hra) by (try exact Hj; rewrite upds_length, repeat_length; exact Hl).
    rewrite <- Ek.
    change (nth (nth k perm 0) (upds (repeat 0 (length perm)) perm vs) 0)
      with (get (upds (repeat 0 (length perm)) perm vs) (nth k perm 0)).
    rewrite (get_upds_nth perm (repeat 0 (length perm)) vs k Hnp); [reflexivity| |lia|exact Hk].
    intros p Hp. rewrite repeat_length. apply Hrp. exact Hp.
  - rewrite !get_upds_notin; [reflexivity|exact Ha|]. intros H. apply Ha, Hin'. exact H.
Qed.

Theorem perm_update_spec perm ax b :
  NoDup perm -> (forall p, In p perm -> p < length perm) -> length perm = length ax ->
  NoDup ax -> (forall a, In a ax -> a < length b) ->
  perm_update perm ax b = upds b ax (perm_digits perm (gets b ax)).
Proof.
  intros Hnp Hrp Hl Hna Hra. rewrite (perm_update_upds perm ax b Hl), perm_digits_upds.
  apply perm_scatter; try assumption. apply gets_length.
Qed.

Section PermMatrix.
  Context {K : Type} (O : Ops K) (L : Laws O).
  Notation z0 := (k0 O). Notation z1 := (k1 O).

  Lemma mget_BasisPerm N f x y : x < N -> y < N ->
    mget O (spec_BasisPerm O N f) x y = if Nat.eqb x (f y) then z1 else z0.
  Proof.
    intros Hx Hy. unfold mget, spec_BasisPerm.
    rewrite (nth_indep _ [] (map (fun j => if Nat.eqb 0 (f j) then z1 else z0) (seq 0 N)))
      by (rewrite map_length, seq_length; exact Hx).
    rewrite (map_nth (fun i => map (fun j => if Nat.eqb i (f j) then z1 else z0) (seq 0 N)) (seq 0 N) 0 x).
    rewrite seq_nth by exact Hx. cbn [Nat.add].
    rewrite (nth_indep _ z0 (if Nat.eqb x (f 0) then z1 else z0)) by (rewrite map_length, seq_length; exact Hy).
    rewrite (map_nth (fun j => if Nat.eqb x (f j) then z1 else z0) (seq 0 N) 0 y).
    rewrite seq_nth by exact Hy. reflexivity.
  Qed.

  Lemma perm_digits_inshape perm c : (forall p, In p perm -> p < length perm) -> Forall2 lt c (repeat 2 (length perm)) ->
    Forall2 lt (perm_digits perm c) (repeat 2 (length perm)).
  Proof.
    intros Hr Hc. rewrite perm_digits_upds. destruct (inshape_bits _ _ Hc) as [Hb Hl].
    apply bits_inshape; [|rewrite upds_length; apply repeat_length].
    apply bits_upds; [|exact Hb]. unfold bits. apply Forall_forall. intros x Hx. apply repeat_spec in Hx. lia.
  Qed.

  (* the documented matrix of QubitPermutationGate, read on digits: column c has its 1 in row perm_digits perm c *)
  Lemma mat_of_perm_matrix perm r c : (forall p, In p perm -> p < length perm) ->
    Forall2 lt r (repeat 2 (length perm)) -> Forall2 lt c (repeat 2 (length perm)) ->
    mat_of O (repeat 2 (length perm)) (perm_matrix O perm) r c = delta O r (perm_digits perm c).
  Proof.
    intros Hp Hr Hc. set (sh := repeat 2 (length perm)) in *.
    unfold mat_of, perm_matrix. fold sh.
    rewrite (mget_BasisPerm (size sh) _ _ _ (index_lt sh r Hr) (index_lt sh c Hc)).
    rewrite (nth_index_enum sh c Hc).
    rewrite (index_eqb sh r (perm_digits perm c) Hr (perm_digits_inshape perm c Hp Hc)). reflexivity.
  Qed.
End PermMatrix.

(* ---------- every accepted gate tracks ---------- *)
Section ClassicalTracks.
  Context {K : Type} (O : Ops K) (L : Laws O).
  Add Ring ClRing3 : (law_ring O L).
  Infix "+" := (kadd O). Infix "*" := (kmul O).
  Notation "- a" := (kopp O a).
  Notation z0 := (k0 O). Notation z1 := (k1 O).
  Notation T := (tensor (K:=K)).

  Ltac sq_concrete :=
    split; [reflexivity|]; intros row Hrow; cbn in Hrow;
    repeat (destruct Hrow as [<-|Hrow]; [reflexivity|]); destruct Hrow.

  Lemma sq_BasisPerm N f : sq N (spec_BasisPerm O N f).
  Proof.
    unfold sq, spec_BasisPerm. split; [rewrite map_length; apply seq_length|].
    intros row Hr. apply in_map_iff in Hr as [x [<- _]]. rewrite map_length. apply seq_length.
  Qed.
  Lemma sq_cgate (g : cgate (K:=K)) : cgate_ok O g -> sq (size (cgate_dims g)) (cgate_mat O g).
  Proof.
    destruct g as [e r rc gg|e r rc gg|e r rc gg|e r rc gg| |perm|dims m]; intros Hok; cbn [cgate_dims cgate_mat];
      try (sq_concrete; fail).
    - apply sq_BasisPerm.
    - exact Hok.
  Qed.

  Theorem gate_tracks (g : cgate (K:=K)) ax b b' :
    gate_step g ax b = Some b' -> cgate_ok O g -> axes_ok (length b) ax -> length ax = length (cgate_dims g) -> bits b ->
    exists w', b' = upds b ax w' /\
      forall i, Forall2 lt (gets i ax) (cgate_dims g) ->
        apply O (mat_of O (cgate_dims g) (cgate_mat O g)) (cgate_dims g) ax (basis_tensor O b) i
        = cgate_phase O g * basis_tensor O (upds b ax w') i.
  Proof.
    intros Hstep Hok [Hnd Hrng] Hlen Hb.
    assert (Hbit : forall a, get b a < 2) by (intros a; apply bits_get; exact Hb).
    (* the identity class: nothing moves, the global-shift factor stays *)
    assert (Even : forall (M : matrix (K:=K)) dims c, cgate_dims g = dims -> cgate_mat O g = M -> cgate_phase O g = c ->
               Forall2 lt (gets b ax) dims ->
               (forall rw, Forall2 lt rw dims -> mat_of O dims M rw (gets b ax) = c * delta O rw (gets b ax)) ->
               exists w', b = upds b ax w' /\
                 forall i, Forall2 lt (gets i ax) (cgate_dims g) ->
                   apply O (mat_of O (cgate_dims g) (cgate_mat O g)) (cgate_dims g) ax (basis_tensor O b) i
                   = cgate_phase O g * basis_tensor O (upds b ax w') i).
    { intros M dims c Ed Em Ec Hs Hcol. exists (gets b ax). split; [symmetry; apply upds_gets_self|].
      rewrite Ed, Em, Ec. rewrite Ed in Hlen.
      apply (apply_mono_basis O L (mat_of O dims M) dims ax b (gets b ax) c Hnd Hrng (eq_sym Hlen) Hs (gets_length b ax) Hcol). }
    destruct g as [e r rc gg|e r rc gg|e r rc gg|e r rc gg| |perm|dims m]; cbn [cgate_dims length] in Hlen;
      unfold gate_step in Hstep; cbn [is_identity] in Hstep.
    - (* XPowGate *)
      destruct ax as [|q [|? ?]]; try discriminate Hlen.
      destruct e; try discriminate Hstep; cbn [cgate_ok eparams_ok] in Hok.
      + destruct Hok as [Hrr ->]. injection Hstep as <-.
        apply (Even (spec_XPow O r r gg) [2] gg eq_refl eq_refl eq_refl); [exact (gets_bits_shape b _ Hb)|].
        intros rw Hrw. inv_shape Hrw. cbn [gets map]. apply (col_X_even O L r gg Hrr); [assumption|apply Hbit].
      + destruct Hok as (Hrr & -> & ->). injection Hstep as <-.
        exists [Nat.lxor (get b q) 1]. split; [reflexivity|]. cbn [cgate_dims cgate_mat cgate_phase].
        apply (apply_mono_basis O L _ [2] [q] b _ z1 Hnd Hrng eq_refl); [exact (gets_bits_shape b _ Hb)|reflexivity|].
        intros rw Hrw. inv_shape Hrw. cbn [gets map]. apply (col_X_base O L r Hrr); [assumption|apply Hbit].
    - (* CXPowGate *)
      destruct ax as [|c [|q [|? ?]]]; try discriminate Hlen.
      destruct e; try discriminate Hstep; cbn [cgate_ok eparams_ok] in Hok.
      + destruct Hok as [Hrr ->]. injection Hstep as <-.
        apply (Even (spec_CXPow O r r gg) [2; 2] gg eq_refl eq_refl eq_refl); [exact (gets_bits_shape b _ Hb)|].
        intros rw Hrw. inv_shape Hrw. cbn [gets map]. apply (col_CX_even O L r gg Hrr); try assumption; apply Hbit.
      + destruct Hok as (Hrr & -> & ->). injection Hstep as <-.
        exists [get b c; Nat.lxor (get b q) (get b c)]. split; [cbn [upds]; rewrite upd_get_self; reflexivity|].
        cbn [cgate_dims cgate_mat cgate_phase].
        apply (apply_mono_basis O L _ [2; 2] [c; q] b _ z1 Hnd Hrng eq_refl); [exact (gets_bits_shape b _ Hb)|reflexivity|].
        intros rw Hrw. inv_shape Hrw. cbn [gets map]. apply (col_CX_base O L r Hrr); try assumption; apply Hbit.
    - (* CCXPowGate *)
      destruct ax as [|c1 [|c2 [|q [|? ?]]]]; try discriminate Hlen.
      destruct e; try discriminate Hstep; cbn [cgate_ok eparams_ok] in Hok.
      + destruct Hok as [Hrr ->]. injection Hstep as <-.
        apply (Even (spec_CCXPow O r r gg) [2; 2; 2] gg eq_refl eq_refl eq_refl); [exact (gets_bits_shape b _ Hb)|].
        intros rw Hrw. inv_shape Hrw. cbn [gets map]. apply (col_CCX_even O L r gg Hrr); try assumption; apply Hbit.
      + destruct Hok as (Hrr & -> & ->). injection Hstep as <-.
        exists [get b c1; get b c2; Nat.lxor (get b q) (Nat.land (get b c1) (get b c2))].
        split; [cbn [upds]; rewrite !upd_get_self; reflexivity|].
        cbn [cgate_dims cgate_mat cgate_phase].
        apply (apply_mono_basis O L _ [2; 2; 2] [c1; c2; q] b _ z1 Hnd Hrng eq_refl);
          [exact (gets_bits_shape b _ Hb)|reflexivity|].
        intros rw Hrw. inv_shape Hrw. cbn [gets map]. apply (col_CCX_base O L r Hrr); try assumption; apply Hbit.
    - (* SwapPowGate *)
      destruct ax as [|x [|y [|? ?]]]; try discriminate Hlen.
      destruct e; try discriminate Hstep; cbn [cgate_ok eparams_ok] in Hok.
      + destruct Hok as [Hrr ->]. injection Hstep as <-.
        apply (Even (spec_SwapPow O r r gg) [2; 2] gg eq_refl eq_refl eq_refl); [exact (gets_bits_shape b _ Hb)|].
        intros rw Hrw. inv_shape Hrw. cbn [gets map]. apply (col_Swap_even O L r gg Hrr); try assumption; apply Hbit.
      + destruct Hok as (Hrr & -> & ->). injection Hstep as <-.
        exists [get b y; get b x]. split; [reflexivity|].
        cbn [cgate_dims cgate_mat cgate_phase].
        apply (apply_mono_basis O L _ [2; 2] [x; y] b _ z1 Hnd Hrng eq_refl); [exact (gets_bits_shape b _ Hb)|reflexivity|].
        intros rw Hrw. inv_shape Hrw. cbn [gets map]. apply (col_Swap_base O L r Hrr); try assumption; apply Hbit.
    - (* CSwapGate *)
      destruct ax as [|c [|x [|y [|? ?]]]]; try discriminate Hlen. injection Hstep as <-.
      exists (if Nat.eqb (get b c) 0 then [get b c; get b x; get b y] else [get b c; get b y; get b x]).
      split; [destruct (Nat.eqb (get b c) 0); cbn [upds]; rewrite !upd_get_self; reflexivity|].
      cbn [cgate_dims cgate_mat cgate_phase].
      apply (apply_mono_basis O L _ [2; 2; 2] [c; x; y] b _ z1 Hnd Hrng eq_refl);
        [exact (gets_bits_shape b _ Hb)|destruct (Nat.eqb (get b c) 0); reflexivity|].
      intros rw Hrw. inv_shape Hrw. cbn [gets map]. apply (col_CSwap O L); try assumption; apply Hbit.
    - (* QubitPermutationGate *)
      injection Hstep as <-. cbn [cgate_ok] in Hok. destruct Hok as [Hnp Hrp].
      rewrite repeat_length in Hlen.
      exists (perm_digits perm (gets b ax)). split; [apply perm_update_spec; try assumption; symmetry; exact Hlen|].
      cbn [cgate_dims cgate_mat cgate_phase].
      assert (Hs : Forall2 lt (gets b ax) (repeat 2 (length perm))).
      { apply bits_inshape; [apply bits_gets; exact Hb|rewrite gets_length; exact Hlen]. }
      apply (apply_mono_basis O L _ (repeat 2 (length perm)) ax b _ z1 Hnd Hrng); try assumption.
      + rewrite repeat_length. symmetry. exact Hlen.
      + rewrite perm_digits_upds, upds_length, repeat_length. symmetry. exact Hlen.
      + intros rw Hrw. rewrite (mat_of_perm_matrix O perm rw (gets b ax) Hrp Hrw Hs). ring.
    - discriminate Hstep.
  Qed.
End ClassicalTracks.

(* ---------- operations ---------- *)
Section ClassicalOps.
  Context {K : Type} (O : Ops K) (L : Laws O).
  Add Ring ClRing4 : (law_ring O L).
  Infix "+" := (kadd O). Infix "*" := (kmul O).
  Notation "- a" := (kopp O a).
  Notation z0 := (k0 O). Notation z1 := (k1 O).
  Notation T := (tensor (K:=K)).

  (* controls of b not allowed: the controlled operation does nothing to |b>, whatever the sub-gate *)
  Theorem capply_basis_off (U : mat (K:=K)) dims ax cax cvals b :
    (forall x, In x ax -> ~ In x cax) -> cactive cvals (gets b cax) = false ->
    forall i, capply O U dims ax cax cvals (basis_tensor O b) i = basis_tensor O b i.
  Proof.
    intros Hd Eb i. unfold capply. destruct (cactive cvals (gets i cax)) eqn:Ei; [|reflexivity].
    assert (N1 : i <> b) by (intros ->; congruence).
    unfold basis_tensor at 2. rewrite (list_eqb_nat_neq _ _ N1).
    unfold apply. apply (ksum_all_zero O L). intros v _. unfold basis_tensor.
    rewrite list_eqb_nat_neq; [ring|].
    intros E. rewrite <- E, (gets_upds_other ax i v cax Hd) in Eb. congruence.
  Qed.

  Lemma NoDup_app_disj {A} (l1 l2 : list A) : NoDup (l1 ++ l2) -> forall x, In x l2 -> ~ In x l1.
  Proof.
    induction l1 as [|a l1 IH]; intros H x H2 H1; [exact H1|].
    cbn in H. inversion H as [|? ? Ha Hn]; subst. destruct H1 as [->|H1].
    - apply Ha. apply in_or_app. right. exact H2.
    - exact (IH Hn x H2 H1).
  Qed.
  Lemma NoDup_app_r {A} (l1 l2 : list A) : NoDup (l1 ++ l2) -> NoDup l2.
  Proof. induction l1 as [|a l1 IH]; intros H; [exact H|]. inversion H; subst. apply IH. assumption. Qed.

  Lemma fold_upd_bits (f h : nat -> nat) l : (forall k, h k < 2) -> forall acc, bits acc ->
    bits (fold_left (fun acc k => upd acc (f k) (h k)) l acc).
  Proof. intros Hh. induction l as [|k l IH]; intros acc Ha; cbn; [exact Ha|]. apply IH. apply bits_upd; [exact Ha|apply Hh]. Qed.
  Lemma bits_nth v k : bits v -> nth k v 0 < 2.
  Proof. intros H. apply (bits_get v k H). Qed.

  Lemma gate_step_bits (g : cgate (K:=K)) ax b b' : gate_step g ax b = Some b' -> bits b -> length b' = length b /\ bits b'.
  Proof.
    intros Hs Hb.
    assert (Hbit : forall a, get b a < 2) by (intros a; apply bits_get; exact Hb).
    assert (Hx : forall x y, x < 2 -> y < 2 -> Nat.lxor x y < 2) by (intros [|[|x]] [|[|y]]; cbn; lia).
    assert (Ha : forall x y, x < 2 -> y < 2 -> Nat.land x y < 2) by (intros [|[|x]] [|[|y]]; cbn; lia).
    unfold gate_step in Hs.
    destruct g as [e r rc gg|e r rc gg|e r rc gg|e r rc gg| |perm|dims m]; cbn [is_identity] in Hs.
    - destruct e; try discriminate Hs; [injection Hs as <-; split; [reflexivity|exact Hb]|].
      destruct ax as [|q [|? ?]]; try discriminate Hs. injection Hs as <-.
      split; [apply upd_length|apply bits_upd; auto].
    - destruct e; try discriminate Hs; [injection Hs as <-; split; [reflexivity|exact Hb]|].
      destruct ax as [|c [|q [|? ?]]]; try discriminate Hs. injection Hs as <-.
      split; [apply upd_length|apply bits_upd; auto].
    - destruct e; try discriminate Hs; [injection Hs as <-; split; [reflexivity|exact Hb]|].
      destruct ax as [|c1 [|c2 [|q [|? ?]]]]; try discriminate Hs. injection Hs as <-.
      split; [apply upd_length|apply bits_upd; auto].
    - destruct e; try discriminate Hs; [injection Hs as <-; split; [reflexivity|exact Hb]|].
      destruct ax as [|x [|y [|? ?]]]; try discriminate Hs. injection Hs as <-.
      split; [rewrite !upd_length; reflexivity|repeat apply bits_upd; auto].
    - destruct ax as [|c [|x [|y [|? ?]]]]; try discriminate Hs. injection Hs as <-.
      destruct (Nat.eqb (get b c) 0); [split; [reflexivity|exact Hb]|].
      split; [rewrite !upd_length; reflexivity|repeat apply bits_upd; auto].
    - injection Hs as <-. unfold perm_update. cbv zeta. split.
      + generalize (seq 0 (length ax)) as l. generalize (gets b ax) as orig. intros orig l.
        generalize b as acc. induction l as [|k l IH]; intros acc; cbn; [reflexivity|]. rewrite IH. apply upd_length.
      + apply fold_upd_bits; [|exact Hb]. intros k. apply bits_nth. apply bits_gets. exact Hb.
    - discriminate Hs.
  Qed.
  Lemma classical_step_bits (o : cop (K:=K)) b b' : classical_step o b = Some b' -> bits b -> length b' = length b /\ bits b'.
  Proof.
    intros Hs Hb. destruct o as [g ax|cdims cvals g cax ax|dims ax|ax|a]; cbn [classical_step] in Hs.
    - exact (gate_step_bits g ax b b' Hs Hb).
    - destruct (cactive cvals (gets b cax)); [exact (gate_step_bits g ax b b' Hs Hb)|].
      injection Hs as <-. split; [reflexivity|exact Hb].
    - injection Hs as <-. split; [reflexivity|exact Hb].
    - injection Hs as <-. split; [reflexivity|exact Hb].
    - cbv zeta in Hs. destruct (Nat.even (2 - get b a)); injection Hs as <-; [split; [reflexivity|exact Hb]|].
      split; [apply upd_length|]. apply bits_upd; [exact Hb|].
      pose proof (bits_get b a Hb) as Hg. destruct (get b a) as [|[|n]]; cbn; lia.
  Qed.

  (* MAIN THEOREM.  Whenever the classical simulator accepts an operation on the tracked bits b, the operation's documented
     matrix maps |b> to phase * |b'>, b' the updated bits: at every index whose digits on the operation's axes are in shape. *)
  Theorem classical_tracks (o : cop (K:=K)) b b' :
    classical_step o b = Some b' -> cop_ok O (length b) o -> bits b ->
    forall i, cop_at o i -> qstep O o b (basis_tensor O b) i = cop_phase O o b * basis_tensor O b' i.
  Proof.
    intros Hs Hok Hb i Hi.
    destruct o as [g ax|cdims cvals g cax ax|dims ax|ax|a]; cbn [classical_step qstep cop_phase cop_ok cop_at] in *.
    - destruct Hok as (Hg & Hax & Hl).
      destruct (gate_tracks O L g ax b b' Hs Hg Hax Hl Hb) as [w' [-> Hw]]. apply Hw. exact Hi.
    - destruct Hok as (Hg & [Hnd Hrng] & Hl & Hlc & Hcd). destruct Hi as [Hic Hia].
      assert (Hdisj : forall x, In x ax -> ~ In x cax) by (apply NoDup_app_disj; exact Hnd).
      rewrite (apply_ctrl_matrix O L cdims cvals (cgate_dims g) (cgate_mat O g) cax ax _ i (sq_cgate O g Hg) Hic Hia).
      destruct (cactive cvals (gets b cax)) eqn:Eb.
      + assert (Hax : axes_ok (length b) ax).
        { split; [apply (NoDup_app_r cax ax Hnd)|]. intros a Ha. apply Hrng. apply in_or_app. right. exact Ha. }
        destruct (gate_tracks O L g ax b b' Hs Hg Hax Hl Hb) as [w' [-> Hw]].
        rewrite (capply_basis O L _ (cgate_dims g) ax cax cvals b w' (cgate_phase O g) Hdisj Hw i Hia), Eb. reflexivity.
      + injection Hs as <-. rewrite (capply_basis_off _ (cgate_dims g) ax cax cvals b Hdisj Eb i). ring.
    - injection Hs as <-. rewrite <- (kernel_I_sound O L dims ax (basis_tensor O b) i Hi). unfold kernel_I. ring.
    - injection Hs as <-. unfold tproject, basis_tensor.
      destruct (list_eqb_nat i b) eqn:E.
      + apply list_eqb_nat_spec in E. subst i. rewrite list_eqb_nat_refl. ring.
      + destruct (list_eqb_nat (gets i ax) (gets b ax)); ring.
    - pose proof (bits_get b a Hb) as Hg. cbv zeta in Hs.
      assert (Hb' : b' = upds b [a] [0]).
      { destruct (get b a) as [|[|n]] eqn:E; [| |lia]; cbn in Hs; injection Hs as <-; cbn [upds].
        - rewrite <- E. symmetry. apply upd_get_self.
        - reflexivity. }
      subst b'.
      assert (Hi' : Forall2 lt (gets i [a]) [2]).
      { (* digits of i on the reset axis: the statement is for in-shape i *) exact Hi. }
      rewrite (apply_mono_basis O L _ [2] [a] b [0] z1); try reflexivity.
      + repeat constructor. intros [].
      + intros x [<-|[]]. exact Hok.
      + exact (gets_bits_shape b [a] Hb).
      + intros rw Hrw. inv_shape Hrw. cbn [gets map].
        rewrite (col_reset O L y (get b a) (get b a)) by assumption. rewrite Nat.eqb_refl. reflexivity.
      + exact Hi'.
  Qed.
  (* what the classical simulator guarantees: it reproduces the measurement statistics.  With a unit global-shift factor
     the squared modulus of every amplitude is the indicator of the tracked bits. *)
  Lemma kconj_0 : kconj O z0 = z0.
  Proof.
    pose proof (law_conj_add O L z0 z0) as H. replace (z0 + z0) with z0 in H by ring.
    transitivity (kconj O z0 + kconj O z0 + - kconj O z0); [ring|]. rewrite <- H. ring.
  Qed.
  Theorem classical_born (o : cop (K:=K)) b b' :
    classical_step o b = Some b' -> cop_ok O (length b) o -> bits b ->
    cop_phase O o b * kconj O (cop_phase O o b) = z1 ->
    forall i, cop_at o i ->
      qstep O o b (basis_tensor O b) i * kconj O (qstep O o b (basis_tensor O b) i) = basis_tensor O b' i.
  Proof.
    intros Hs Hok Hb Hu i Hi. rewrite (classical_tracks o b b' Hs Hok Hb i Hi).
    rewrite (law_conj_mul O L). unfold basis_tensor. destruct (list_eqb_nat i b').
    - rewrite (law_conj_1 O L). transitivity (cop_phase O o b * kconj O (cop_phase O o b)); [ring|exact Hu].
    - rewrite kconj_0. ring.
  Qed.

  (* measurement: the reported outcome gets b ax carries all the weight and the state is unchanged (classical_tracks);
     every other outcome has amplitude 0 everywhere *)
  Theorem classical_measure_other_outcomes ax v b : v <> gets b ax ->
    forall i, tproject O ax v (basis_tensor O b) i = z0.
  Proof.
    intros Hv i. unfold tproject, basis_tensor. destruct (list_eqb_nat (gets i ax) v) eqn:E; [|reflexivity].
    destruct (list_eqb_nat i b) eqn:E2; [|reflexivity].
    apply list_eqb_nat_spec in E. apply list_eqb_nat_spec in E2. subst i. exfalso. apply Hv. symmetry. exact E.
  Qed.
  (* reset: the Kraus operator |0><k| for the other value k of the qubit kills |b> *)
  Theorem classical_reset_other_branch a b k : a < length b -> bits b -> k < 2 -> k <> get b a ->
    forall i, Forall2 lt (gets i [a]) [2] ->
      apply O (mat_of O [2] (nth k (kraus_reset2 O) [])) [2] [a] (basis_tensor O b) i = z0.
  Proof.
    intros Ha Hb Hk Hne i Hi.
    rewrite (apply_mono_basis O L _ [2] [a] b [0] z0); try reflexivity.
    - ring.
    - repeat constructor. intros [].
    - intros x [<-|[]]. exact Ha.
    - exact (gets_bits_shape b [a] Hb).
    - intros rw Hrw. inv_shape Hrw. cbn [gets map].
      rewrite (col_reset O L y (get b a) k) by (try assumption; apply bits_get; exact Hb).
      destruct (Nat.eqb k (get b a)) eqn:E; [apply Nat.eqb_eq in E; contradiction|reflexivity].
    - exact Hi.
  Qed.

  (* ---------- lists of operations on a register of n qubits ---------- *)
  Lemma nth_repeat_lt a n : a < n -> nth a (repeat 2 n) 0 = 2.
  Proof. revert a. induction n as [|n IH]; intros [|a] H; cbn; try lia. apply IH. lia. Qed.
  Lemma fits_rep n ax : forall m, fits (repeat 2 n) ax (repeat 2 m).
  Proof.
    induction ax as [|a ax IH]; intros [|m]; cbn; auto. split; [|apply IH].
    rewrite repeat_length. intros Ha. rewrite (nth_repeat_lt a n Ha). lia.
  Qed.

  Lemma qstep_scale (o : cop (K:=K)) b (p : T) c i : qstep O o b (fun j => c * p j) i = c * qstep O o b p i.
  Proof.
    destruct o as [g ax|cdims cvals g cax ax|dims ax|ax|a]; cbn [qstep]; try apply (apply_scale O L).
    unfold tproject. destruct (list_eqb_nat (gets i ax) (gets b ax)); ring.
  Qed.
  Lemma qstep_ext_shape n (o : cop (K:=K)) b (p q : T) : cop_qubit o ->
    (forall i, Forall2 lt i (repeat 2 n) -> p i = q i) ->
    forall i, Forall2 lt i (repeat 2 n) -> qstep O o b p i = qstep O o b q i.
  Proof.
    intros Hq H i Hi. destruct o as [g ax|cdims cvals g cax ax|dims ax|ax|a]; cbn [qstep cop_qubit] in *.
    - apply (apply_ext_shape O (repeat 2 n)); [rewrite Hq; apply fits_rep|exact H|exact Hi].
    - destruct Hq as [Hc Hd]. apply (apply_ext_shape O (repeat 2 n)); [|exact H|exact Hi].
      rewrite Hc, Hd, <- repeat_app. apply fits_rep.
    - apply (apply_ext_shape O (repeat 2 n)); [rewrite Hq; apply fits_rep|exact H|exact Hi].
    - unfold tproject. rewrite (H i Hi). reflexivity.
    - apply (apply_ext_shape O (repeat 2 n)); [apply (fits_rep n [a] 1)|exact H|exact Hi].
  Qed.
  Lemma cop_at_inshape n (o : cop (K:=K)) i : cop_qubit o -> cop_ok O n o -> Forall2 lt i (repeat 2 n) -> cop_at o i.
  Proof.
    intros Hq Hok Hi. destruct (inshape_bits i n Hi) as [Hb _].
    destruct o as [g ax|cdims cvals g cax ax|dims ax|ax|a]; cbn [cop_at cop_qubit cop_ok] in *.
    - destruct Hok as (_ & _ & Hl). rewrite Hq, <- Hl. apply gets_bits_shape. exact Hb.
    - destruct Hok as (_ & _ & Hl & Hlc & _). destruct Hq as [Hc Hd]. split.
      + rewrite Hc, <- Hlc. apply gets_bits_shape. exact Hb.
      + rewrite Hd, <- Hl. apply gets_bits_shape. exact Hb.
    - destruct Hok as (_ & Hl & _). rewrite Hq, <- Hl. apply gets_bits_shape. exact Hb.
    - exact I.
    - exact (gets_bits_shape i [a] Hb).
  Qed.

  (* running a list of accepted operations from phase * |b> stays phase' * |b'>, b' = the fold of classical_step *)
  Theorem classical_run_tracks_gen n (ops : list (cop (K:=K))) : forall b b' (psi : T) c0,
    classical_run ops b = Some b' -> Forall (cop_ok O n) ops -> Forall cop_qubit ops -> length b = n -> bits b ->
    (forall i, Forall2 lt i (repeat 2 n) -> psi i = c0 * basis_tensor O b i) ->
    forall i, Forall2 lt i (repeat 2 n) -> qrun O ops b psi i = (run_phase O ops b * c0) * basis_tensor O b' i.
  Proof.
    induction ops as [|o rest IH]; intros b b' psi c0 Hrun Hok Hq Hn Hb Hpsi i Hi.
    - cbn in *. injection Hrun as <-. rewrite (Hpsi i Hi). ring.
    - cbn [classical_run qrun run_phase] in *.
      pose proof (Forall_inv Hok) as Hok1. pose proof (Forall_inv_tail Hok) as Hokr.
      pose proof (Forall_inv Hq) as Hq1. pose proof (Forall_inv_tail Hq) as Hqr. subst n.
      destruct (classical_step o b) as [b1|] eqn:Es; [|discriminate Hrun].
      destruct (classical_step_bits o b b1 Es Hb) as [Hl1 Hb1].
      rewrite (IH b1 b' (qstep O o b psi) (cop_phase O o b * c0) Hrun Hokr Hqr); try assumption; [ring|].
      intros j Hj.
      rewrite (qstep_ext_shape (length b) o b psi (fun k => c0 * basis_tensor O b k) Hq1 Hpsi j Hj).
      rewrite qstep_scale.
      rewrite (classical_tracks o b b1 Es Hok1 Hb j (cop_at_inshape (length b) o j Hq1 Hok1 Hj)). ring.
  Qed.
  Corollary classical_run_tracks n (ops : list (cop (K:=K))) b b' :
    classical_run ops b = Some b' -> Forall (cop_ok O n) ops -> Forall cop_qubit ops -> length b = n -> bits b ->
    forall i, Forall2 lt i (repeat 2 n) -> qrun O ops b (basis_tensor O b) i = run_phase O ops b * basis_tensor O b' i.
  Proof.
    intros Hrun Hok Hq Hn Hb i Hi.
    rewrite (classical_run_tracks_gen n ops b b' (basis_tensor O b) z1 Hrun Hok Hq Hn Hb); [ring| |exact Hi].
    intros j _. ring.
  Qed.

  (* Z-like gates have no branch in the fallback: refused, ... *)
  Theorem classical_step_refuses_other dims (m : matrix (K:=K)) ax b : classical_step (COp (CgOther dims m) ax) b = None.
  Proof. reflexivity. Qed.
  (* ... although any diagonal gate keeps a basis state a basis state up to the phase it puts on b's digits
     (what an extension of the simulator to Z, S, T, CZ, GlobalPhase would rely on) *)
  Theorem basis_diag_stays (U : mat (K:=K)) dims ax b :
    NoDup ax -> (forall a, In a ax -> a < length b) -> length dims = length ax -> Forall2 lt (gets b ax) dims ->
    (forall r, Forall2 lt r dims -> r <> gets b ax -> U r (gets b ax) = z0) ->
    forall i, Forall2 lt (gets i ax) dims ->
      apply O U dims ax (basis_tensor O b) i = U (gets b ax) (gets b ax) * basis_tensor O b i.
  Proof.
    intros Hn Hr Hl Hs Hdiag i Hi.
    rewrite (apply_mono_basis O L U dims ax b (gets b ax) (U (gets b ax) (gets b ax)) Hn Hr Hl Hs (gets_length b ax)); [| |exact Hi].
    - rewrite upds_gets_self. reflexivity.
    - intros r Hrr. unfold delta. destruct (list_eqb_nat r (gets b ax)) eqn:E.
      + apply list_eqb_nat_spec in E. subst r. ring.
      + rewrite (Hdiag r Hrr) by (intros ->; rewrite list_eqb_nat_refl in E; discriminate E). ring.
  Qed.
End ClassicalOps.

(* ---------- the hypotheses are satisfiable: a circuit on four qubits using every accepted branch ---------- *)
Section ClassicalExamples.
  Context {K : Type} (O : Ops K) (L : Laws O).
  Add Ring ClRing5 : (law_ring O L).
  Notation z1 := (k1 O). Notation ii := (ki O).

  Definition ex_cl_ops (g : K) : list (cop (K:=K)) :=
    [ COp (CgX IsBase ii (kopp O ii) z1) [2];                               (* X on qubit 2 *)
      CCtrl [2; 2] [[1; 0]; [0; 1]] (CgSwap IsBase ii (kopp O ii) z1) [1; 2] [0; 3];  (* SWAP(0,3) if (q1,q2) in {10, 01} *)
      COp (CgCX IsBase ii (kopp O ii) z1) [3; 0];                           (* CNOT 3 -> 0 *)
      COp (CgCCX IsBase ii (kopp O ii) z1) [0; 3; 1];                       (* TOFFOLI *)
      COp CgCSwap [1; 0; 2];
      COp (CgPerm [1; 2; 0]) [0; 1; 3];                                     (* QubitPermutationGate, a 3-cycle *)
      COp (CgX EvenExp z1 z1 g) [1];                                        (* X**2 with a global shift *)
      CIdentity [2; 2] [3; 1];
      CMeasure [0; 2];
      CReset 0 ].

  Example classical_run_hyps g :
    classical_run (ex_cl_ops g) [0; 1; 0; 0] = Some [0; 1; 0; 1]
    /\ Forall (cop_ok O 4) (ex_cl_ops g) /\ Forall cop_qubit (ex_cl_ops g) /\ length [0; 1; 0; 0] = 4 /\ bits [0; 1; 0; 0].
  Proof.
    assert (Hi : kmul O ii (kopp O ii) = z1) by (transitivity (kopp O (kmul O ii ii)); [ring|rewrite (law_i O L); ring]).
    assert (Hb : kmul O ii ii = kopp O z1 /\ kopp O ii = kopp O ii /\ z1 = z1) by (split; [apply (law_i O L)|split; reflexivity]).
    assert (ND : forall l : list nat, NoDup l <-> NoDup l) by (intros; reflexivity).
    split; [reflexivity|]. split; [|split; [|split; [reflexivity|repeat constructor]]].
    - unfold ex_cl_ops.
      repeat (apply Forall_cons; [cbn [cop_ok cgate_ok eparams_ok axes_ok cgate_dims length app];
                                  repeat split; try exact I; try reflexivity; try (apply (law_i O L)); try ring;
                                  try (repeat constructor; cbn; intuition lia; fail);
                                  try (intros a Ha; cbn in Ha; intuition lia)|]).
      apply Forall_nil.
    - unfold ex_cl_ops. repeat (apply Forall_cons; [cbn; repeat split; reflexivity|]). apply Forall_nil.
  Qed.

  (* hence, for every global-shift factor g: the circuit maps |0100> to g * |0101> *)
  Example classical_run_example g i : Forall2 lt i (repeat 2 4) ->
    qrun O (ex_cl_ops g) [0; 1; 0; 0] (basis_tensor O [0; 1; 0; 0]) i
    = kmul O (run_phase O (ex_cl_ops g) [0; 1; 0; 0]) (basis_tensor O [0; 1; 0; 1] i).
  Proof.
    destruct (classical_run_hyps g) as (H1 & H2 & H3 & H4 & H5).
    apply (classical_run_tracks O L 4 (ex_cl_ops g) _ _ H1 H2 H3 H4 H5).
  Qed.
  Example classical_run_example_phase g : run_phase O (ex_cl_ops g) [0; 1; 0; 0] = g.
  Proof. cbn. ring. Qed.
End ClassicalExamples.

(* ---------- a hypothesis that matters: the gates must be qubit gates.  `_is_identity` tests `exponent % 2 == 0` without
   looking at XPowGate's `dimension`; for a qudit X of dimension 4 the square is the shift by 2, not a phase:
   the documented matrix sends |0> to |2>, the classical simulator keeps 0.  (Replayed on Cirq with dimension 3:
   ClassicalStateSimulator reports 0 for X_3**2 |0>, cirq.Simulator reports 2.) ---------- *)
Theorem is_identity_ignores_dimension_refuted :
  let r := kopp K8Ops (k1 K8Ops) in      (* exponent 2: r = exp(i pi 2/2) = -1, an "even exponent" *)
  kmul K8Ops r r = k1 K8Ops /\
  exists i, apply K8Ops (mat_of K8Ops [4] (spec_X4Pow K8Ops r r (k1 K8Ops))) [4] [0] (basis_tensor K8Ops [0]) i
            <> kmul K8Ops (k1 K8Ops) (basis_tensor K8Ops [0] i).
Proof.
  cbv zeta. split.
  - apply k8_eqb_true. vm_compute. reflexivity.
  - exists [2]. intros H. apply (f_equal Base.K8.c0) in H. apply (f_equal Qcanon.this) in H. vm_compute in H. discriminate H.
Qed.

(* ---------- further instances: the hypotheses of the single-step theorems are satisfiable ---------- *)
Section ClassicalExamples2.
  Context {K : Type} (O : Ops K) (L : Laws O).
  Add Ring ClRing6 : (law_ring O L).
  Notation z1 := (k1 O). Notation z0 := (k0 O). Notation ii := (ki O).

  (* a Toffoli whose controls sit on axes 3 and 0 and whose target is axis 1, in a five-qubit register *)
  Example classical_tracks_toffoli i : Forall2 lt (gets i [3; 0; 1]) [2; 2; 2] ->
    qstep O (COp (CgCCX IsBase ii (kopp O ii) z1) [3; 0; 1]) [1; 0; 1; 1; 0] (basis_tensor O [1; 0; 1; 1; 0]) i
    = kmul O z1 (basis_tensor O [1; 1; 1; 1; 0] i).
  Proof.
    intros Hi. apply (classical_tracks O L (COp (CgCCX IsBase ii (kopp O ii) z1) [3; 0; 1]) [1; 0; 1; 1; 0] [1; 1; 1; 1; 0]).
    - reflexivity.
    - cbn. repeat split; try (apply (law_i O L)); try (intros a Ha; cbn in Ha; intuition lia). repeat constructor; cbn; intuition lia.
    - repeat constructor.
    - exact Hi.
  Qed.
  (* a controlled X with a qutrit control (axis 0, allowed values {1, 2}) and control value sets as sums of products *)
  Example classical_tracks_ctrl_hyps :
    classical_step (CCtrl [3] [[1]; [2]] (CgX IsBase ii (kopp O ii) z1) [0] [2]) [1; 0; 0] = Some [1; 0; 1]
    /\ cop_ok O 3 (CCtrl [3] [[1]; [2]] (CgX IsBase ii (kopp O ii) z1) [0] [2]) /\ bits [1; 0; 0]
    /\ cop_at (CCtrl [3] [[1]; [2]] (CgX IsBase ii (kopp O ii) z1) [0] [2]) [2; 1; 1].
  Proof.
    split; [reflexivity|]. split; [|split; [repeat constructor|cbn; repeat constructor]].
    cbn. repeat split; try (apply (law_i O L)); try (intros a Ha; cbn in Ha; intuition lia); try (repeat constructor; cbn; intuition lia).
  Qed.
  Example classical_born_hyps (g : K) : kmul O g (kconj O g) = z1 ->
    kmul O (cop_phase O (COp (CgX EvenExp z1 z1 g) [0]) [1]) (kconj O (cop_phase O (COp (CgX EvenExp z1 z1 g) [0]) [1])) = z1.
  Proof. intros H. exact H. Qed.
  Example classical_born_hyps_i : kmul O ii (kconj O ii) = z1.
  Proof. rewrite (law_conj_i O L). transitivity (kopp O (kmul O ii ii)); [ring|rewrite (law_i O L); ring]. Qed.
  Example classical_measure_other_ex i : tproject O [2; 0] [1; 1] (basis_tensor O [0; 1; 1]) i = z0.
  Proof. apply classical_measure_other_outcomes. cbn. discriminate. Qed.
  Example classical_reset_other_ex i : Forall2 lt (gets i [1]) [2] ->
    apply O (mat_of O [2] (nth 0 (kraus_reset2 O) [])) [2] [1] (basis_tensor O [0; 1; 1]) i = z0.
  Proof. intros Hi. apply (classical_reset_other_branch O L 1 [0; 1; 1] 0); cbn; try lia; [repeat constructor|exact Hi]. Qed.
  (* Z on axis 1 keeps |011> with the phase -1 *)
  Example basis_diag_stays_Z i : Forall2 lt (gets i [1]) [2] ->
    apply O (mat_of O [2] (spec_ZPow O ii (kopp O ii) z1)) [2] [1] (basis_tensor O [0; 1; 1]) i
    = kmul O (mat_of O [2] (spec_ZPow O ii (kopp O ii) z1) [1] [1]) (basis_tensor O [0; 1; 1] i).
  Proof.
    intros Hi. apply (basis_diag_stays O L (mat_of O [2] (spec_ZPow O ii (kopp O ii) z1)) [2] [1] [0; 1; 1]); try reflexivity.
    - repeat constructor. intros [].
    - intros a [<-|[]]. cbn. lia.
    - cbn. repeat constructor.
    - intros rw Hrw Hne. inv_shape Hrw. cbn [gets map get nth] in *. bit_cases; [|congruence]. kcbv. ring.
    - exact Hi.
  Qed.
End ClassicalExamples2.
