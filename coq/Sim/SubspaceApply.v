(* Application to SUBSPACES of wider axes (model of ApplyUnitaryArgs.subspaces / `_for_operation_with_qid_shape` followed by
   `_incorporate_result_into_target`): a gate of dimensions dims acts on the axes ax of a tensor whose axes may be wider; `subs` lists,
   for every target axis, which levels of that axis play the role of the gate's basis states 0, 1, ...  The gate acts on the product
   subspace spanned by those levels and leaves every other amplitude alone.  Definitions only; theorems in Sim/SubspaceApplyProofs.v. *)
From Coq Require Import List Arith Bool.
From VF Require Import Base.RingOps Base.Mat Base.Tensor Sim.CtrlApply.
Import ListNotations.

(* the level of the wide axis that stands for basis state b *)
Definition lvl (sub : list nat) (b : nat) : nat := nth b sub 0.
Fixpoint lvls (subs : list (list nat)) (v : list nat) : list nat :=
  match subs, v with
  | s :: subs', b :: v' => lvl s b :: lvls subs' v'
  | _, _ => []
  end.
(* the basis state a level stands for, if any *)
Fixpoint pos_in (sub : list nat) (x : nat) : option nat :=
  match sub with
  | [] => None
  | y :: r => if Nat.eqb y x then Some 0 else option_map S (pos_in r x)
  end.
Fixpoint poss (subs : list (list nat)) (xs : list nat) : option (list nat) :=
  match subs, xs with
  | [], [] => Some []
  | s :: subs', x :: xs' =>
      match pos_in s x, poss subs' xs' with
      | Some p, Some r => Some (p :: r)
      | _, _ => None
      end
  | _, _ => None
  end.
Definition sub_dims (subs : list (list nat)) : list nat := map (@length nat) subs.

Section SubspaceApply.
  Context {K : Type} (O : Ops K).
  Definition sapply (U : mat (K:=K)) (ax : list nat) (subs : list (list nat)) (psi : tensor (K:=K)) : tensor (K:=K) :=
    fun i => match poss subs (gets i ax) with
             | Some r => ksum O (map (fun v => kmul O (U r v) (psi (upds i ax (lvls subs v)))) (enum (sub_dims subs)))
             | None => psi i
             end.
End SubspaceApply.
