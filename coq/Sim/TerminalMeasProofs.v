(* Terminal measurements = the joint Born distribution of the final state (justifies the sampling fast path of
   `SimulatorBase._run`, model in Sim/TerminalMeas.v).  Generic in the ring, any shape, any number of gates and
   measurements, repeated keys and repeated qudits allowed, invert masks included.
     B1  exec_terminal             exec (gates ++ measurements) init = [project final on each joint outcome], weight 1
         term_branch_mass          the mass of the outcome's branch is norm2 (project .. final)   (joint Born rule)
         exec_terminal_obs_mass    the distribution of any observable of the records
         exec_terminal_total_mass  the masses sum to norm2 final
         exec_terminal_keyrec_mass distinct keys: the per-key query of an outcome has exactly its Born weight
     B2  defer_teq                 terminal_b ops = true -> teq mop_dep ops (defer ops)
         exec_deferred             hence equivalent ensembles;  exec_deferred_terminal: = the terminal ensemble of B1
         deferred_keyrec_mass / deferred_obs_mass / deferred_total_mass
         deferred_needs_terminal_refuted   without the predicate the statement is false (K8 witness). *)
From Coq Require Import List Arith Ring Lia Bool Permutation SetoidList SetoidPermutation.
From VF Require Import Base.RingOps Base.K8 Base.Harness Base.Mat Base.Tensor Base.TensorProofs Base.TabProofs
  Base.Trace Base.TraceProofs Gates.Families Sim.Ref Sim.Measure Sim.MeasureProofs Sim.KronState Sim.KronStateProofs
  Sim.ExecComm Sim.ExecCommProofs Sim.TerminalMeas.
Import ListNotations.

(* ---------- lists ---------- *)
Lemma filter_map_comm {A B} (p : B -> bool) (g : A -> B) l : filter p (map g l) = map g (filter (fun x => p (g x)) l).
Proof.
  induction l as [|x l IH]; cbn [map filter]; [reflexivity|].
  destruct (p (g x)); cbn [map]; rewrite IH; reflexivity.
Qed.

(* ---------- joint outcomes ---------- *)
Lemma joint_outcomes_len sh ms : forall vs, In vs (joint_outcomes sh ms) ->
  Forall2 (fun m v => length v = length (ms_ax m)) ms vs.
Proof.
  induction ms as [|m ms IH]; intros vs H; cbn [joint_outcomes] in H.
  - destruct H as [<-|[]]. constructor.
  - apply in_flat_map in H as [v [Hv H]]. apply in_map_iff in H as [vs' [<- Hvs]].
    constructor; [|apply IH; exact Hvs].
    rewrite (enum_elt_length _ _ Hv). unfold ms_dims. apply map_length.
Qed.

Lemma joint_outcomes_in sh ms : forall vs, In vs (joint_outcomes sh ms) ->
  Forall2 (fun m v => In v (enum (ms_dims sh m))) ms vs.
Proof.
  induction ms as [|m ms IH]; intros vs H; cbn [joint_outcomes] in H.
  - destruct H as [<-|[]]. constructor.
  - apply in_flat_map in H as [v [Hv H]]. apply in_map_iff in H as [vs' [<- Hvs]].
    constructor; [exact Hv|apply IH; exact Hvs].
Qed.

(* flattening the joint outcomes enumerates the joint register: the joint distribution is over enum of the
   concatenated dimensions, big-endian, first measurement most significant *)
Lemma joint_outcomes_concat sh ms :
  map (@concat nat) (joint_outcomes sh ms) = enum (map (fun a => nth a sh 2) (joint_axes ms)).
Proof.
  induction ms as [|m ms IH]; [reflexivity|].
  cbn [joint_outcomes joint_axes flat_map]. fold (joint_axes ms).
  rewrite map_app, enum_app. fold (ms_dims sh m). rewrite <- IH.
  rewrite map_fm. apply fm_ext_in. intros v _. rewrite !map_map. reflexivity.
Qed.

Lemma NoDup_map_inj {A B} (f : A -> B) l : (forall x y, f x = f y -> x = y) -> NoDup l -> NoDup (map f l).
Proof.
  intros Hf. induction 1 as [|x l Hn _ IH]; cbn [map]; constructor; [|exact IH].
  intros H. apply in_map_iff in H as [y [He Hy]]. apply Hf in He. subst y. exact (Hn Hy).
Qed.

Lemma nodup_app {A} (a b : list A) : NoDup a -> NoDup b -> (forall x, In x a -> ~ In x b) -> NoDup (a ++ b).
Proof.
  intros Ha Hb Hd. induction Ha as [|x a Hn _ IH]; cbn [app]; [exact Hb|].
  constructor.
  - intros H. apply in_app_or in H as [H|H]; [exact (Hn H)|]. apply (Hd x); [left; reflexivity|exact H].
  - apply IH. intros y Hy. apply Hd. right. exact Hy.
Qed.

Lemma NoDup_flat_map_cons {A} (la : list A) (lb : list (list A)) :
  NoDup la -> NoDup lb -> NoDup (flat_map (fun x => map (cons x) lb) la).
Proof.
  intros Ha Hb. induction Ha as [|x la Hn _ IH]; cbn [flat_map]; [constructor|].
  apply nodup_app; [| exact IH |].
  - apply NoDup_map_inj; [|exact Hb]. intros u v H. injection H as ->. reflexivity.
  - intros y H1 H2. apply in_map_iff in H1 as [u [<- _]].
    apply in_flat_map in H2 as [x' [Hx' H2]]. apply in_map_iff in H2 as [u' [He _]].
    injection He as -> _. exact (Hn Hx').
Qed.

Lemma enum_NoDup sh : NoDup (enum sh).
Proof.
  induction sh as [|d sh IH]; cbn [enum]; [repeat constructor; intros []|].
  apply NoDup_flat_map_cons; [apply seq_NoDup|exact IH].
Qed.

Lemma joint_outcomes_NoDup sh ms : NoDup (joint_outcomes sh ms).
Proof.
  induction ms as [|m ms IH]; cbn [joint_outcomes]; [repeat constructor; intros []|].
  apply NoDup_flat_map_cons; [apply enum_NoDup|exact IH].
Qed.

(* ---------- B1: gates then measurements ---------- *)
Section Terminal.
  Context {K : Type} (O : Ops K) (L : Laws O).
  Add Ring TermRing : (law_ring O L).
  Infix "+" := (kadd O). Infix "*" := (kmul O).
  Notation z0 := (k0 O).

  Lemma run_from_app_ops sh (a b : list (mop (K:=K))) bs : run_from O sh (a ++ b) bs = run_from O sh b (run_from O sh a bs).
  Proof. unfold run_from. apply fold_left_app. Qed.

  Lemma run_from_bs_app sh ops : forall b1 b2 : list (branch (K:=K)),
    run_from O sh ops (b1 ++ b2) = run_from O sh ops b1 ++ run_from O sh ops b2.
  Proof.
    induction ops as [|o ops IH]; intros b1 b2; cbn [run_from fold_left]; [reflexivity|].
    rewrite flat_map_app. apply IH.
  Qed.

  Lemma run_from_flat_map sh ops (bs : list (branch (K:=K))) :
    run_from O sh ops bs = flat_map (fun b => run_from O sh ops [b]) bs.
  Proof.
    induction bs as [|b bs IH]; cbn [flat_map].
    - induction ops as [|o ops IHo]; cbn [run_from fold_left flat_map]; [reflexivity|exact IHo].
    - rewrite <- IH. apply (run_from_bs_app sh ops [b] bs).
  Qed.

  Lemma circ_state_cons sh g gs (psi : list K) : circ_state O sh (g :: gs) psi = circ_state O sh gs (circ_state O sh [g] psi).
  Proof. reflexivity. Qed.

  (* the unitary prefix: one branch, the reference state *)
  Lemma run_from_gates sh gs : forall b : branch (K:=K),
    run_from O sh (map MGate gs) [b] = [{| bw := bw b; brec := brec b; bpsi := circ_state O sh gs (bpsi b) |}].
  Proof.
    induction gs as [|g gs IH]; intros b.
    - destruct b as [w r p]. reflexivity.
    - cbn [map run_from fold_left flat_map step app].
      change (fold_left (fun bs o => flat_map (step O sh o) bs) (map MGate gs) ?x) with (run_from O sh (map MGate gs) x).
      rewrite IH. cbn [bw brec bpsi]. rewrite <- circ_state_cons. reflexivity.
  Qed.

  Lemma circ_state_length sh gs (init : list K) : length init = length (enum sh) ->
    length (circ_state O sh gs init) = length (enum sh).
  Proof.
    intros Hl.
    pose proof (run_from_wsh O L sh (map MGate gs) [{| bw := k1 O; brec := []; bpsi := init |}]) as H.
    rewrite run_from_gates in H.
    assert (Hw : Forall (wsh sh) [{| bw := k1 O; brec := @nil recd; bpsi := init |}]) by (constructor; [exact Hl|constructor]).
    specialize (H Hw). inversion H as [|x l Hx _]; subst. exact Hx.
  Qed.

  (* the measurement suffix, measurement by measurement *)
  Lemma step_ms_op sh m (b : branch (K:=K)) :
    step O sh (ms_op m) b
    = map (fun v => {| bw := bw b; brec := brec b ++ [(ms_key m, invert (ms_inv m) v, ms_dims sh m)];
                       bpsi := project O sh (ms_ax m) v (bpsi b) |}) (enum (ms_dims sh m)).
  Proof.
    unfold ms_op. cbn [step confuse fold_left]. fold (ms_dims sh m).
    rewrite <- fm_single. apply fm_ext_in. intros v _. reflexivity.
  Qed.

  Lemma run_from_meas sh ms : forall b : branch (K:=K),
    run_from O sh (map ms_op ms) [b]
    = map (fun vs => {| bw := bw b; brec := brec b ++ term_recs sh ms vs; bpsi := proj_seq O sh ms vs (bpsi b) |})
          (joint_outcomes sh ms).
  Proof.
    induction ms as [|m ms IH]; intros b.
    - destruct b as [w r p]. cbn. rewrite app_nil_r. reflexivity.
    - cbn [map run_from fold_left flat_map app]. rewrite app_nil_r.
      change (fold_left (fun bs o => flat_map (step O sh o) bs) (map ms_op ms) ?x) with (run_from O sh (map ms_op ms) x).
      rewrite step_ms_op, run_from_flat_map, fm_map.
      cbn [joint_outcomes]. rewrite map_fm. apply fm_ext_in. intros v _.
      rewrite IH, map_map. apply map_ext. intros vs. cbn [bw brec bpsi term_recs proj_seq].
      rewrite <- app_assoc. reflexivity.
  Qed.

  Lemma project_nil sh (psi : list K) : length psi = length (enum sh) -> project O sh [] [] psi = psi.
  Proof.
    unfold project. generalize (enum sh). intros l. revert psi.
    induction l as [|i l IH]; intros [|a psi] H; cbn in H; try discriminate; [reflexivity|].
    cbn [combine map fst snd gets list_eqb_nat]. f_equal. apply IH. lia.
  Qed.

  (* measuring one after the other = one joint projection (iterated seq_measure_joint) *)
  Lemma proj_seq_joint_acc sh ms : forall vs ax0 v0 (psi : list K),
    Forall2 (fun m v => length v = length (ms_ax m)) ms vs -> length v0 = length ax0 ->
    proj_seq O sh ms vs (project O sh ax0 v0 psi) = project O sh (ax0 ++ joint_axes ms) (v0 ++ concat vs) psi.
  Proof.
    induction ms as [|m ms IH]; intros vs ax0 v0 psi Hf Hl; inversion Hf as [|m' v ms' vs' Hv Hr]; subst.
    - cbn [proj_seq joint_axes flat_map concat]. rewrite !app_nil_r. reflexivity.
    - cbn [proj_seq joint_axes flat_map concat]. fold (joint_axes ms).
      rewrite (seq_measure_joint O sh ax0 (ms_ax m) v0 v psi Hl).
      rewrite (IH vs' (ax0 ++ ms_ax m) (v0 ++ v) psi Hr) by (rewrite !app_length; lia).
      rewrite <- !app_assoc. reflexivity.
  Qed.

  Lemma proj_seq_joint sh ms vs (psi : list K) : length psi = length (enum sh) ->
    Forall2 (fun m v => length v = length (ms_ax m)) ms vs ->
    proj_seq O sh ms vs psi = project O sh (joint_axes ms) (concat vs) psi.
  Proof.
    intros Hl Hf. rewrite <- (project_nil sh psi Hl) at 1.
    apply (proj_seq_joint_acc sh ms vs [] [] psi Hf eq_refl).
  Qed.

  (* ---- B1, exact: the ensemble of the fast-path form is the list of joint projections of the final state ---- *)
  Theorem exec_terminal sh gs ms (init : list K) : length init = length (enum sh) ->
    exec O sh (terminal_ops gs ms) init = terminal_ensemble O sh gs ms init.
  Proof.
    intros Hl. change (exec O sh (terminal_ops gs ms) init)
      with (run_from O sh (map MGate gs ++ map ms_op ms) [{| bw := k1 O; brec := []; bpsi := init |}]).
    rewrite run_from_app_ops, run_from_gates, run_from_meas. unfold terminal_ensemble.
    apply map_ext_in. intros vs Hvs. unfold term_branch. cbn [bw brec bpsi app].
    rewrite (proj_seq_joint sh ms vs _ (circ_state_length sh gs init Hl) (joint_outcomes_len sh ms vs Hvs)).
    reflexivity.
  Qed.

  (* the joint Born rule: the mass of an outcome's branch *)
  Theorem term_branch_mass sh ms (psi : list K) vs :
    mass O (term_branch O sh ms psi vs) = norm2 O (project O sh (joint_axes ms) (concat vs) psi).
  Proof. unfold mass, term_branch. cbn [bw bpsi]. ring. Qed.

  (* the distribution of any observable of the records *)
  Theorem exec_terminal_obs_mass sh gs ms (init : list K) (f : list recd -> bool) : length init = length (enum sh) ->
    obs_mass O f (exec O sh (terminal_ops gs ms) init)
    = ksum O (map (born O sh gs ms init) (filter (fun vs => f (term_recs sh ms vs)) (joint_outcomes sh ms))).
  Proof.
    intros Hl. rewrite (exec_terminal sh gs ms init Hl). unfold obs_mass, terminal_ensemble.
    rewrite (filter_map_comm (fun b : branch (K:=K) => f (brec b))). cbn [term_branch brec].
    rewrite map_map. apply (ksum_ext O). intros vs _. apply term_branch_mass.
  Qed.

  (* the weights of all joint outcomes sum to the squared norm of the final state *)
  Theorem exec_terminal_total_mass sh gs ms (init : list K) : length init = length (enum sh) ->
    total_mass O (exec O sh (terminal_ops gs ms) init) = norm2 O (circ_state O sh gs init).
  Proof.
    intros Hl. rewrite (exec_terminal sh gs ms init Hl). unfold total_mass, terminal_ensemble.
    rewrite map_map.
    rewrite <- (measure_mass O L sh (joint_axes ms) (circ_state O sh gs init) (circ_state_length sh gs init Hl)).
    rewrite <- (joint_outcomes_concat sh ms). rewrite map_map.
    apply (ksum_ext O). intros vs _. apply term_branch_mass.
  Qed.
End Terminal.

(* ---------- distinct keys: the per-key query of a joint outcome selects exactly its branch ---------- *)
Lemma invert_inj_gen (M : list bool) : forall a b : list nat, length a = length b ->
  map (fun p : nat * bool => let '(d, m) := p in if m && Nat.ltb d 2 then 1 - d else d) (combine a M)
  = map (fun p : nat * bool => let '(d, m) := p in if m && Nat.ltb d 2 then 1 - d else d) (combine b M) ->
  length a <= length M -> a = b.
Proof.
  induction M as [|m M IH]; intros [|x a] [|y b] Hl He HM; cbn in Hl, HM; try discriminate; try reflexivity; try lia.
  cbn [combine map] in He. injection He as H1 H2. f_equal.
  - destruct m; cbn [andb] in H1; [|exact H1].
    destruct x as [|[|x]]; destruct y as [|[|y]]; cbn in H1; try reflexivity; try discriminate H1; exact H1.
  - apply IH; [lia|exact H2|lia].
Qed.

Lemma invert_inj inv a b : length a = length b -> invert inv a = invert inv b -> a = b.
Proof.
  intros Hl He. unfold invert in He. rewrite <- Hl in He.
  apply (invert_inj_gen (inv ++ repeat false (length a)) a b Hl He).
  rewrite app_length, repeat_length. lia.
Qed.

Lemma recd_eqb_refl e : recd_eqb e e = true.
Proof. unfold recd_eqb. rewrite Nat.eqb_refl, !list_eqb_nat_refl. reflexivity. Qed.

Lemma key_records_unique (r : list recd) : NoDup (map (fun e : recd => fst (fst e)) r) ->
  forall e, In e r -> key_records (fst (fst e)) r = [e].
Proof.
  induction r as [|e0 r IH]; intros Hn e He; [destruct He|].
  inversion Hn as [|k ks Hk Hn']; subst. unfold key_records. cbn [filter]. fold (key_records (fst (fst e)) r).
  destruct He as [->|He].
  - rewrite Nat.eqb_refl. f_equal. apply key_records_none. intros f Hf Heq. apply Hk.
    rewrite <- Heq. apply (in_map (fun e : recd => fst (fst e))). exact Hf.
  - destruct (Nat.eqb_spec (fst (fst e0)) (fst (fst e))) as [Heq|_].
    + exfalso. apply Hk. rewrite Heq. apply (in_map (fun e : recd => fst (fst e))). exact He.
    + apply IH; assumption.
Qed.

Lemma term_recs_keys sh ms : forall vs, length vs = length ms ->
  map (fun e : recd => fst (fst e)) (term_recs sh ms vs) = map ms_key ms.
Proof.
  induction ms as [|m ms IH]; intros [|v vs] Hl; cbn in Hl; try discriminate; [reflexivity|].
  cbn [term_recs map fst]. f_equal. apply IH. lia.
Qed.

Lemma term_recs_match_inv sh ms (r' : list recd) : forall vs vs',
  Forall2 (fun m v => length v = length (ms_ax m)) ms vs ->
  Forall2 (fun m v => length v = length (ms_ax m)) ms vs' ->
  (forall e', In e' (term_recs sh ms vs') -> key_records (fst (fst e')) r' = [e']) ->
  forallb (fun e : recd => recl_eqb (key_records (fst (fst e)) r') [e]) (term_recs sh ms vs) = true -> vs' = vs.
Proof.
  induction ms as [|m ms IH]; intros vs vs' Hf Hf' Hk Hm;
    inversion Hf as [|m1 v ms1 vs1 Hv Hr]; inversion Hf' as [|m2 v' ms2 vs2 Hv' Hr']; subst; [reflexivity|].
  cbn [term_recs forallb] in Hm. apply andb_true_iff in Hm as [H1 H2].
  cbn [fst] in H1.
  pose proof (Hk (ms_key m, invert (ms_inv m) v', ms_dims sh m) (or_introl eq_refl)) as Hk1.
  cbn [fst] in Hk1. rewrite Hk1 in H1.
  cbn [recl_eqb] in H1. rewrite andb_true_r in H1. unfold recd_eqb in H1. cbn [fst snd] in H1.
  apply andb_true_iff in H1 as [H1 _]. apply andb_true_iff in H1 as [_ H1].
  apply list_eqb_nat_spec in H1. apply invert_inj in H1; [|lia]. subst v'. f_equal.
  apply (IH vs1 vs2 Hr Hr'); [|exact H2].
  intros e' He'. apply Hk. right. exact He'.
Qed.

Lemma forallb_map_comp {A B} (p : B -> bool) (g : A -> B) l : forallb p (map g l) = forallb (fun x => p (g x)) l.
Proof. induction l as [|x l IH]; cbn [map forallb]; [reflexivity|]. rewrite IH. reflexivity. Qed.

Lemma term_kvs_match sh ms vs vs' : NoDup (map ms_key ms) ->
  Forall2 (fun m v => length v = length (ms_ax m)) ms vs ->
  Forall2 (fun m v => length v = length (ms_ax m)) ms vs' ->
  (keyrec_match (term_kvs sh ms vs) (term_recs sh ms vs') = true <-> vs' = vs).
Proof.
  intros Hn Hf Hf'.
  assert (Hn' : forall ws, Forall2 (fun m v => length v = length (ms_ax m)) ms ws ->
                           NoDup (map (fun e : recd => fst (fst e)) (term_recs sh ms ws))).
  { intros ws Hw. rewrite term_recs_keys; [exact Hn|]. symmetry. apply (Forall2_len _ _ _ Hw). }
  unfold keyrec_match, term_kvs. rewrite forallb_map_comp. cbn [fst snd]. split.
  - intros Hm. apply (term_recs_match_inv sh ms (term_recs sh ms vs') vs vs' Hf Hf'); [|exact Hm].
    apply key_records_unique. apply Hn'. exact Hf'.
  - intros ->. apply forallb_forall. intros e He.
    rewrite (key_records_unique _ (Hn' vs Hf) e He). cbn [recl_eqb]. rewrite recd_eqb_refl. reflexivity.
Qed.

Section TerminalKeys.
  Context {K : Type} (O : Ops K) (L : Laws O).
  Add Ring TermRing2 : (law_ring O L).
  Infix "+" := (kadd O).

  Lemma filter_none {A} (p : A -> bool) l : (forall y, In y l -> p y = false) -> filter p l = [].
  Proof.
    induction l as [|y l IH]; intros H; cbn [filter]; [reflexivity|].
    rewrite (H y (or_introl eq_refl)). apply IH. intros z Hz. apply H. right. exact Hz.
  Qed.

  Lemma ksum_filter_unique {A} (F : A -> K) (p : A -> bool) l x : NoDup l -> In x l ->
    (forall y, In y l -> (p y = true <-> y = x)) -> ksum O (map F (filter p l)) = F x.
  Proof.
    intros Hn. revert x. induction Hn as [|y0 l Hy0 Hn IH]; intros x Hx Hp; [destruct Hx|].
    cbn [filter]. destruct Hx as [->|Hx].
    - rewrite (proj2 (Hp x (or_introl eq_refl)) eq_refl). cbn [map ksum fold_right].
      rewrite (filter_none p l); [cbn [map ksum fold_right]; ring|].
      intros y Hy. destruct (p y) eqn:E; [|reflexivity].
      exfalso. apply Hy0. rewrite <- (proj1 (Hp y (or_intror Hy)) E). exact Hy.
    - destruct (p y0) eqn:E.
      + exfalso. apply Hy0. rewrite (proj1 (Hp y0 (or_introl eq_refl)) E). exact Hx.
      + apply IH; [exact Hx|]. intros y Hy. apply Hp. right. exact Hy.
  Qed.

  (* joint Born rule as a statement about the key records: with distinct keys, the mass of the executions in which
     every key holds exactly the record of the outcome vs is the squared norm of the projected final state *)
  Theorem exec_terminal_keyrec_mass sh gs ms (init : list K) vs : length init = length (enum sh) ->
    NoDup (map ms_key ms) -> In vs (joint_outcomes sh ms) ->
    keyrec_mass O (term_kvs sh ms vs) (exec O sh (terminal_ops gs ms) init) = born O sh gs ms init vs.
  Proof.
    intros Hl Hn Hvs. unfold keyrec_mass. rewrite (exec_terminal_obs_mass O L sh gs ms init _ Hl).
    apply ksum_filter_unique; [apply joint_outcomes_NoDup|exact Hvs|].
    intros vs' Hvs'. apply term_kvs_match; [exact Hn| |]; apply (joint_outcomes_len sh); assumption.
  Qed.
End TerminalKeys.

(* ---------- B2: deferring terminal measurements ---------- *)
Section Deferred.
  Context {K : Type} (O : Ops K) (L : Laws O).

  Lemma defer_cons_meas (o : mop (K:=K)) r : is_meas o = true ->
    defer (o :: r) = filter (fun o => negb (is_meas o)) r ++ o :: filter is_meas r.
  Proof. intros E. unfold defer. cbn [filter]. rewrite E. reflexivity. Qed.
  Lemma defer_cons_other (o : mop (K:=K)) r : is_meas o = false -> defer (o :: r) = o :: defer r.
  Proof. intros E. unfold defer. cbn [filter]. rewrite E. reflexivity. Qed.

  Lemma mop_indep_sym (a b : mop (K:=K)) : indep (mop_dep (K:=K)) a b -> indep (mop_dep (K:=K)) b a.
  Proof. unfold indep. intros H. rewrite mop_dep_sym. exact H. Qed.

  (* every measurement bubbles to the right across the later non-measurement operations *)
  Theorem defer_teq (ops : list (mop (K:=K))) : terminal_b ops = true -> teq (mop_dep (K:=K)) ops (defer ops).
  Proof.
    induction ops as [|o r IH]; intros H; [apply teq_refl|].
    cbn [terminal_b] in H. apply andb_true_iff in H as [Ho Hr]. specialize (IH Hr).
    destruct (is_meas o) eqn:E.
    - rewrite (defer_cons_meas o r E). apply teq_trans with (o :: defer r); [apply teq_cons; exact IH|].
      apply (teq_sym _ _ mop_indep_sym). unfold defer. apply bubble.
      apply Forall_forall. intros b Hb. apply filter_In in Hb as [Hb Hm]. apply mop_indep_sym. unfold indep.
      rewrite forallb_forall in Ho. specialize (Ho b Hb).
      destruct (is_meas b); [discriminate Hm|]. cbn [orb] in Ho.
      destruct (mop_dep o b); [discriminate Ho|reflexivity].
    - rewrite (defer_cons_other o r E). apply teq_cons. exact IH.
  Qed.

  (* hence the deferred circuit has an equivalent ensemble (any operations: gates, classical control, channels ...) *)
  Theorem exec_deferred sh (ops : list (mop (K:=K))) (init : list K) :
    terminal_b ops = true -> Forall (mop_wf sh) ops -> length init = length (enum sh) ->
    ens_equiv (exec O sh ops init) (exec O sh (defer ops) init).
  Proof. intros Ht Hwf Hl. apply (exec_teq O L sh ops (defer ops) init Hwf Hl). apply defer_teq. exact Ht. Qed.

  (* gates and plain measurements only: the deferred circuit is the fast-path form of B1 *)
  Lemma defer_simple (ops : list (mop (K:=K))) : simple_b ops = true ->
    defer ops = terminal_ops (gates_of ops) (meas_of ops).
  Proof.
    intros Hs. unfold defer, terminal_ops. f_equal.
    - induction ops as [|o r IH]; [reflexivity|]. cbn [simple_b forallb] in Hs. apply andb_true_iff in Hs as [Ho Hr].
      specialize (IH Hr). destruct o; try discriminate Ho; cbn [filter is_meas negb gates_of flat_map app map].
      + fold (gates_of r). rewrite IH. reflexivity.
      + exact IH.
    - induction ops as [|o r IH]; [reflexivity|]. cbn [simple_b forallb] in Hs. apply andb_true_iff in Hs as [Ho Hr].
      specialize (IH Hr). destruct o as [g|k ax inv cs| | | |]; try discriminate Ho; cbn [filter is_meas meas_of flat_map app map].
      + exact IH.
      + destruct cs; [|discriminate Ho]. fold (meas_of r). rewrite IH. reflexivity.
  Qed.

  Theorem exec_deferred_terminal sh (ops : list (mop (K:=K))) (init : list K) :
    terminal_b ops = true -> simple_b ops = true -> Forall (mop_wf sh) ops -> length init = length (enum sh) ->
    ens_equiv (exec O sh ops init) (terminal_ensemble O sh (gates_of ops) (meas_of ops) init).
  Proof.
    intros Ht Hs Hwf Hl. rewrite <- (exec_terminal O L sh (gates_of ops) (meas_of ops) init Hl).
    rewrite <- (defer_simple ops Hs). apply exec_deferred; assumption.
  Qed.

  (* the key-record distribution of a circuit with terminal measurements is the joint Born distribution of the
     state prepared by its gates *)
  Corollary deferred_obs_mass sh (ops : list (mop (K:=K))) (init : list K) (f : list recd -> bool) :
    (forall r r', rec_equiv r r' -> f r = f r') ->
    terminal_b ops = true -> simple_b ops = true -> Forall (mop_wf sh) ops -> length init = length (enum sh) ->
    obs_mass O f (exec O sh ops init)
    = ksum O (map (born O sh (gates_of ops) (meas_of ops) init)
                  (filter (fun vs => f (term_recs sh (meas_of ops) vs)) (joint_outcomes sh (meas_of ops)))).
  Proof.
    intros Hf Ht Hs Hwf Hl. rewrite <- (exec_terminal_obs_mass O L sh (gates_of ops) (meas_of ops) init f Hl).
    rewrite <- (defer_simple ops Hs). apply (obs_mass_equiv O L f _ _ Hf). apply exec_deferred; assumption.
  Qed.

  Corollary deferred_keyrec_mass sh (ops : list (mop (K:=K))) (init : list K) kvs :
    terminal_b ops = true -> simple_b ops = true -> Forall (mop_wf sh) ops -> length init = length (enum sh) ->
    keyrec_mass O kvs (exec O sh ops init)
    = ksum O (map (born O sh (gates_of ops) (meas_of ops) init)
                  (filter (fun vs => keyrec_match kvs (term_recs sh (meas_of ops) vs)) (joint_outcomes sh (meas_of ops)))).
  Proof. apply deferred_obs_mass. apply keyrec_match_respects. Qed.

  (* distinct keys: the probability mass that every key holds the record of outcome vs is its joint Born weight *)
  Corollary deferred_born sh (ops : list (mop (K:=K))) (init : list K) vs :
    terminal_b ops = true -> simple_b ops = true -> Forall (mop_wf sh) ops -> length init = length (enum sh) ->
    NoDup (map ms_key (meas_of ops)) -> In vs (joint_outcomes sh (meas_of ops)) ->
    keyrec_mass O (term_kvs sh (meas_of ops) vs) (exec O sh ops init)
    = born O sh (gates_of ops) (meas_of ops) init vs.
  Proof.
    intros Ht Hs Hwf Hl Hn Hvs.
    rewrite <- (exec_terminal_keyrec_mass O L sh (gates_of ops) (meas_of ops) init vs Hl Hn Hvs).
    rewrite <- (defer_simple ops Hs). apply (keyrec_mass_equiv O L). apply exec_deferred; assumption.
  Qed.

  Corollary deferred_total_mass sh (ops : list (mop (K:=K))) (init : list K) :
    terminal_b ops = true -> simple_b ops = true -> Forall (mop_wf sh) ops -> length init = length (enum sh) ->
    total_mass O (exec O sh ops init) = norm2 O (circ_state O sh (gates_of ops) init).
  Proof.
    intros Ht Hs Hwf Hl. rewrite <- (exec_terminal_total_mass O L sh (gates_of ops) (meas_of ops) init Hl).
    rewrite <- (defer_simple ops Hs). apply (total_mass_equiv O L). apply exec_deferred; assumption.
  Qed.
End Deferred.

(* ---------- the hypotheses are satisfiable: H q0; M q0 -> k0; X q1; M q1 -> k1 ---------- *)
Section TermExamples.
  Context {K : Type} (O : Ops K).

  Example ext_hyps :
    terminal_b (ext_ops O) = true /\ simple_b (ext_ops O) = true /\ Forall (mop_wf [2; 2]) (ext_ops O) /\
    length (ex1_init O) = length (enum [2; 2]) /\
    gates_of (ext_ops O) = ext_gs O /\ meas_of (ext_ops O) = ext_ms /\ NoDup (map ms_key ext_ms) /\
    joint_outcomes [2; 2] ext_ms = [[[0]; [0]]; [[0]; [1]]; [[1]; [0]]; [[1]; [1]]] /\
    defer (ext_ops O) = terminal_ops (ext_gs O) ext_ms.
  Proof.
    repeat split; try reflexivity.
    - repeat constructor; cbn; lia.
    - repeat constructor; cbn; intuition discriminate.
  Qed.
  (* the predicate rejects a gate on a measured qubit and a classically controlled gate reading the key *)
  Example ext_not_terminal : terminal_b (ext_bad1 O) = false /\ terminal_b (ext_bad2 O) = false.
  Proof. split; reflexivity. Qed.

  Context (L : Laws O).
  Example ext_terminal_form :
    exec O [2; 2] (terminal_ops (ext_gs O) ext_ms) (ex1_init O) = terminal_ensemble O [2; 2] (ext_gs O) ext_ms (ex1_init O).
  Proof. apply (exec_terminal O L). reflexivity. Qed.
  Example ext_deferred :
    ens_equiv (exec O [2; 2] (ext_ops O) (ex1_init O)) (terminal_ensemble O [2; 2] (ext_gs O) ext_ms (ex1_init O)).
  Proof.
    destruct ext_hyps as [H1 [H2 [H3 [H4 _]]]].
    apply (exec_deferred_terminal O L [2; 2] (ext_ops O) (ex1_init O) H1 H2 H3 H4).
  Qed.
  Example ext_born vs : In vs (joint_outcomes [2; 2] ext_ms) ->
    keyrec_mass O (term_kvs [2; 2] ext_ms vs) (exec O [2; 2] (ext_ops O) (ex1_init O))
    = born O [2; 2] (ext_gs O) ext_ms (ex1_init O) vs.
  Proof.
    destruct ext_hyps as [H1 [H2 [H3 [H4 [_ [_ [H7 _]]]]]]]. intros Hvs.
    apply (deferred_born O L [2; 2] (ext_ops O) (ex1_init O) vs H1 H2 H3 H4 H7 Hvs).
  Qed.
End TermExamples.

(* exact evaluation in Q(zeta_8): outcomes (q0, q1) = 00, 01, 10, 11 have probability 0, 1/2, 0, 1/2, computed by the
   step-by-step semantics on the ORIGINAL circuit, and equal to the joint Born weights of the final state *)
Lemma k8_eqb_true' x y : k8_eqb x y = true -> x = y.
Proof.
  destruct x, y; unfold k8_eqb; simpl. rewrite !andb_true_iff. intros [[[A B] C] D].
  apply Qcanon.Qc_eq_bool_correct in A. apply Qcanon.Qc_eq_bool_correct in B.
  apply Qcanon.Qc_eq_bool_correct in C. apply Qcanon.Qc_eq_bool_correct in D. subst. reflexivity.
Qed.
Lemma k8l_eqb_true' : forall a b : list K8, list_eqb k8_eqb a b = true -> a = b.
Proof.
  induction a as [|x a IH]; destruct b as [|y b]; simpl; try discriminate; [reflexivity|].
  rewrite andb_true_iff. intros [H1 H2]. apply k8_eqb_true' in H1. apply IH in H2. subst. reflexivity.
Qed.
Example ext_K8_distribution :
  map (fun vs => keyrec_mass K8Ops (term_kvs [2; 2] ext_ms vs) (exec K8Ops [2; 2] (ext_ops K8Ops) (ex1_init K8Ops)))
      (joint_outcomes [2; 2] ext_ms)
  = [k0 K8Ops; khalf K8Ops; k0 K8Ops; khalf K8Ops]
  /\ map (born K8Ops [2; 2] (ext_gs K8Ops) ext_ms (ex1_init K8Ops)) (joint_outcomes [2; 2] ext_ms)
     = [k0 K8Ops; khalf K8Ops; k0 K8Ops; khalf K8Ops].
Proof. split; apply k8l_eqb_true'; vm_compute; reflexivity. Qed.

(* without the predicate the deferred circuit has a different distribution: measure |0>, then H -- the record is 0
   with probability 1; deferred (H, then measure) it is 0 with probability 1/2 *)
Theorem deferred_needs_terminal_refuted : exists (sh : list nat) (ops : list (mop (K:=K8))) (init : list K8) kvs,
  simple_b ops = true /\ Forall (mop_wf sh) ops /\ length init = length (enum sh) /\ terminal_b ops = false /\
  keyrec_mass K8Ops kvs (exec K8Ops sh ops init) <> keyrec_mass K8Ops kvs (exec K8Ops sh (defer ops) init).
Proof.
  exists [2], (ext_bad1 K8Ops), [k1 K8Ops; k0 K8Ops], [(0, [(0, [0], [2])])].
  split; [reflexivity|]. split; [repeat constructor; cbn; lia|]. split; [reflexivity|]. split; [reflexivity|].
  intros H. apply (f_equal c0) in H. apply (f_equal Qcanon.this) in H. vm_compute in H. discriminate H.
Qed.
