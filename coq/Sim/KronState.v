(* Product states over function tensors (model of Cirq's `split_untangled_states` simulation mode): the simulator
   keeps a product of independent factor states, applies every operation to the factor holding its qubits, and only
   joins factors (Kronecker product) when an operation spans them.  `tprod n1 p q` is the joined state: factor p on
   the first n1 axes, factor q on the remaining ones.  Definitions only; theorems in Sim/KronStateProofs.v. *)
From Coq Require Import List Arith Bool.
From VF Require Import Base.RingOps Base.Mat Base.Tensor Gates.Families.
Import ListNotations.

Section Kron.
  Context {K : Type} (O : Ops K).

  Definition tprod (n1 : nat) (p q : tensor (K:=K)) : tensor (K:=K) :=
    fun i => kmul O (p (firstn n1 i)) (q (skipn n1 i)).

  (* projection of the axes ax onto the outcome v, on function tensors (Sim/Measure.v: project is its tabulation) *)
  Definition tproject (ax v : list nat) (psi : tensor (K:=K)) : tensor (K:=K) :=
    fun i => if list_eqb_nat (gets i ax) v then psi i else k0 O.

  (* squared norm over the explicit enumeration of the in-shape indices *)
  Definition tnorm2 (sh : list nat) (psi : tensor (K:=K)) : K :=
    ksum O (map (fun i => kmul O (psi i) (kconj O (psi i))) (enum sh)).

  (* axis bookkeeping of the split simulator *)
  Definition shift_ax (n : nat) (ax : list nat) : list nat := map (fun a => a + n) ax.
  Definition unshift_ax (n : nat) (ax : list nat) : list nat := map (fun a => a - n) ax.
  Definition rop_in_first (n : nat) (o : rop (K:=K)) : bool := forallb (fun a => Nat.ltb a n) (rop_ax o).
  Definition rop_in_second (n : nat) (o : rop (K:=K)) : bool := forallb (fun a => Nat.leb n a) (rop_ax o).
  Definition rop_unshift (n : nat) (o : rop (K:=K)) : rop (K:=K) :=
    {| rop_m := rop_m o; rop_dims := rop_dims o; rop_ax := unshift_ax n (rop_ax o) |}.
  (* the operations the first factor sees, and the ones the second factor sees (axes renumbered from 0) *)
  Definition ops_first (n : nat) (ops : list (rop (K:=K))) : list (rop (K:=K)) := filter (rop_in_first n) ops.
  Definition ops_second (n : nat) (ops : list (rop (K:=K))) : list (rop (K:=K)) :=
    map (rop_unshift n) (filter (fun o => negb (rop_in_first n o)) ops).
  (* every operation lies entirely inside one of the two factors *)
  Definition factored (n : nat) (ops : list (rop (K:=K))) : bool :=
    forallb (fun o => rop_in_first n o || rop_in_second n o) ops.
End Kron.
