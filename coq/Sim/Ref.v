(* Reference semantics of a circuit of library gates (spec level): the ordered product of the
   operation matrices applied to the initial state, on tabulated tensors. *)
From Coq Require Import List Arith.
From VF Require Import Base.RingOps Base.Mat Base.Tensor Gates.Families.
Import ListNotations.

Section Ref.
  Context {K : Type} (O : Ops K).
  Definition gop := (gate (K:=K) * list nat)%type.            (* gate, axes *)
  Definition rop_of (use_spec : bool) (o : gop) : rop (K:=K) :=
    {| rop_m := if use_spec then gate_spec O (fst o) else gate_model O (fst o);
       rop_dims := gate_dims (fst o); rop_ax := snd o |}.
  Definition circ_state (sh : list nat) (ops : list gop) (init : list K) : list K :=
    run_tab O sh (map (rop_of false) ops) init.
  Definition circ_state_spec (sh : list nat) (ops : list gop) (init : list K) : list K :=
    run_tab O sh (map (rop_of true) ops) init.
  Definition circ_unitary (sh : list nat) (ops : list gop) : matrix (K:=K) :=
    unitary_tab O sh (map (rop_of false) ops).
  Definition outer (psi : list K) : matrix (K:=K) :=
    map (fun a => map (fun b => kmul O a (kconj O b)) psi) psi.
  (* product state: kron of per-wire vectors, first wire most significant *)
  Definition product_state (vs : list (list K)) : list K := fold_right (vkron O) [k1 O] vs.
End Ref.
