(* Repeated sub-circuits (model of CircuitOperation with `repetitions`) and the two simulator / protocol short-cuts that touch them:
   - `CircuitOperation._unitary_`'s one-qudit fast path: the matrices of the block's operations are multiplied in order, an operation
     on no qudits (a global phase, 1x1 matrix) rescales the product so far, and the result is raised to the |repetitions|-th power
     (`fold_pieces`, `mpow_f`);
   - the reference: every piece acts on the state, the whole block |repetitions| times (`run_pieces`, Nat.iter).
   Definitions only; the theorems are in Sim/SubBlockProofs.v. *)
From Coq Require Import List Arith.
From VF Require Import Base.RingOps Base.Mat Base.Tensor Sim.CtrlApply.
Import ListNotations.

Section SubBlock.
  Context {K : Type} (O : Ops K).

  Inductive piece := PMat (U : mat (K:=K)) | PScal (c : K).

  Definition mscal (c : K) (U : mat (K:=K)) : mat (K:=K) := fun r q => kmul O c (U r q).
  Definition step_piece (dims : list nat) (u : mat (K:=K)) (p : piece) : mat (K:=K) :=
    match p with PMat v => mcomp O dims v u | PScal c => mscal c u end.
  (* u = eye; for v in unitaries: u = v @ u if v.shape == u.shape else v.item() * u *)
  Definition fold_pieces (dims : list nat) (ps : list piece) : mat (K:=K) := fold_left (step_piece dims) ps (delta O).
  (* np.linalg.matrix_power(u, n) *)
  Fixpoint mpow_f (dims : list nat) (U : mat (K:=K)) (n : nat) : mat (K:=K) :=
    match n with 0 => delta O | S k => mcomp O dims U (mpow_f dims U k) end.

  Definition piece_act (dims ax : list nat) (p : piece) (psi : tensor (K:=K)) : tensor (K:=K) :=
    match p with PMat v => apply O v dims ax psi | PScal c => fun i => kmul O c (psi i) end.
  Definition run_pieces (dims ax : list nat) (ps : list piece) (psi : tensor (K:=K)) : tensor (K:=K) :=
    fold_left (fun s p => piece_act dims ax p s) ps psi.

  (* the dimensions of the axes ax in a register of shape sh (as in Sim/Measure.v) *)
  Definition adims (sh ax : list nat) : list nat := map (fun a => nth a sh 2) ax.

  (* the variant that collects the scalars and multiplies them in after the power (a plausible "optimisation") *)
  Definition scal_prod (ps : list piece) : K := fold_left (fun c p => match p with PScal d => kmul O c d | PMat _ => c end) ps (k1 O).
  Definition mats_only (ps : list piece) : list piece := filter (fun p => match p with PMat _ => true | PScal _ => false end) ps.
  Definition phase_outside (dims : list nat) (ps : list piece) (n : nat) : mat (K:=K) :=
    mscal (scal_prod ps) (mpow_f dims (fold_pieces dims (mats_only ps)) n).
End SubBlock.
