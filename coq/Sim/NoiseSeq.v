(* Noise models that are defined on the whole SEQUENCE of moments (NoiseModel.noisy_moments: "possibly stateful noise to a
   series of moments"): the noise added after a moment may depend on the position of the moment.  Operations are encoded as
   in Sim/Noise.v; the noise operation of strength level k on system qubit q is (1000 + 100 * k + q, true).
   `seq_noisy_moments` is the circuit such a model produces for a circuit; `seq_noisy_per_moment` is what one gets by
   presenting every moment to the model as a one-moment sequence of its own (NOT the circuit the model produces). *)
From Coq Require Import List Arith Bool.
From VF Require Import Sim.Noise.
Import ListNotations.

Definition noise_at (k : nat) (system : list nat) : nmoment := map (fun q => (1000 + 100 * k + q, true)) system.
Fixpoint seq_noisy_from (k : nat) (system : list nat) (c : list nmoment) : list nmoment :=
  match c with
  | [] => []
  | m :: c' => m :: noise_at k system :: seq_noisy_from (S k) system c'
  end.
Definition seq_noisy_moments (system : list nat) (c : list nmoment) : list nmoment := seq_noisy_from 0 system c.
Definition seq_noisy_per_moment (system : list nat) (c : list nmoment) : list nmoment :=
  flat_map (fun m => seq_noisy_moments system [m]) c.
