(* Meaning of trace equivalence (ties Base/Trace.v, the validator of the "move, never change" transformers of C06
   and of the routing replay of C07, to the reference semantics of Base/Tensor.v): two operation lists related by
   exchanges of adjacent operations that share no resource denote the same map on states, for ANY assignment of
   matrices to operations that acts only on an operation's own exclusive resources (its qubits). *)
From Coq Require Import List Arith Bool.
From VF Require Import Base.RingOps Base.Mat Base.Tensor Base.TensorProofs Base.Trace Base.TraceProofs.
Import ListNotations.

Lemma teq_map {A B} (f : A -> B) (dA : A -> A -> bool) (dB : B -> B -> bool) :
  (forall a b, dA a b = false -> dB (f a) (f b) = false) ->
  forall l l', teq dA l l' -> teq dB (map f l) (map f l').
Proof.
  intros H l l' T. induction T as [l|l1 a b l2 Hi|l1 l2 l3 _ IH1 _ IH2].
  - apply teq_refl.
  - rewrite !map_app. cbn [map]. apply teq_swap. apply H. exact Hi.
  - eapply teq_trans; eassumption.
Qed.

Section TraceSem.
  Context {K : Type} (O : Ops K) (L : Laws O).

  (* any dependency relation whose "independent" implies "acts on disjoint axes" *)
  Theorem teq_run_equal (dep : rop (K:=K) -> rop (K:=K) -> bool) :
    (forall a b, dep a b = false -> disjoint_ops a b) ->
    forall l l', teq dep l l' -> forall psi i, run O l psi i = run O l' psi i.
  Proof.
    intros Hd l l' T. induction T as [l|l1 a b l2 Hi|l1 l2 l3 _ IH1 _ IH2]; intros psi i.
    - reflexivity.
    - apply (run_swap_adjacent O L). apply Hd. exact Hi.
    - rewrite IH1. apply IH2.
  Qed.

  (* the concrete form used by the checkers: operations are `top` records, den gives each one a matrix acting on
     axes taken from its exclusive resources *)
  Variable den : top -> rop (K:=K).
  Hypothesis den_local : forall o x, In x (rop_ax (den o)) -> In x (t_wr o).

  Lemma top_indep_disjoint a b : top_dep a b = false -> disjoint_ops (den a) (den b).
  Proof.
    intros H x Ha Hb. unfold top_dep in H.
    apply orb_false_iff in H as [H _]. apply orb_false_iff in H as [H _].
    assert (E : shares (t_wr a) (t_wr b) = true).
    { apply shares_true. exists x. split; apply den_local; assumption. }
    congruence.
  Qed.


  Theorem trace_equiv_same_map w w' : teq top_dep w w' ->
    forall psi i, run O (map den w) psi i = run O (map den w') psi i.
  Proof.
    intros T.
    (* the relation on rops: related unless the axes are disjoint; decide it through the images *)
    assert (G : forall l l', teq top_dep l l' -> forall psi i, run O (map den l) psi i = run O (map den l') psi i).
    { intros l l' T'. induction T' as [l|l1 a b l2 Hi|l1 l2 l3 _ IH1 _ IH2]; intros psi i.
      - reflexivity.
      - rewrite !map_app. cbn [map]. apply (run_swap_adjacent O L). apply top_indep_disjoint. exact Hi.
      - rewrite IH1. apply IH2. }
    exact (G w w' T).
  Qed.

  (* what the validator's acceptance means: the output of a transformer accepted by trace_equiv_b computes the
     same state map as its input *)
  Corollary trace_equiv_b_same_map w w' : trace_equiv_b w w' = true ->
    forall psi i, run O (map den w') psi i = run O (map den w) psi i.
  Proof. intros H. apply trace_equiv_same_map. apply trace_equiv_b_sound. exact H. Qed.
End TraceSem.
