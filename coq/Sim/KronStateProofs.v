(* Product-state factorisation (justifies Cirq's `split_untangled_states` mode, Sim/KronState.v): an operation whose
   axes lie inside one factor of a product state acts on that factor only; hence a run of operations none of which
   spans the two factors is the product of the two separate runs; projections (measurement collapse) and squared
   norms (Born weights) factorise the same way.  No shape side conditions are needed for apply/run/project because
   index updates are positional; the norm statement is over the explicit enumeration of sh1 ++ sh2. *)
From Coq Require Import List Arith Ring Lia Bool.
From VF Require Import Base.RingOps Base.Mat Base.Tensor Base.TensorProofs Base.TabProofs
  Gates.Families Sim.Ref Sim.Measure Sim.MeasureProofs Sim.KronState.
Import ListNotations.

(* ---- positional facts: axes inside the first n entries ---- *)
Lemma get_firstn n : forall i a, a < n -> get (firstn n i) a = get i a.
Proof.
  unfold get. induction n as [|n IH]; intros i a H; [lia|].
  destruct i as [|x r]; [destruct a; reflexivity|].
  destruct a as [|a]; cbn [firstn nth]; [reflexivity|]. apply IH. lia.
Qed.

Lemma firstn_upd_lt n : forall i a v, a < n -> firstn n (upd i a v) = upd (firstn n i) a v.
Proof.
  induction n as [|n IH]; intros i a v H; [lia|].
  destruct i as [|x r]; [reflexivity|].
  destruct a as [|a]; cbn [upd firstn]; [reflexivity|]. f_equal. apply IH. lia.
Qed.

Lemma skipn_upd_lt n : forall i a v, a < n -> skipn n (upd i a v) = skipn n i.
Proof.
  induction n as [|n IH]; intros i a v H; [lia|].
  destruct i as [|x r]; [reflexivity|].
  destruct a as [|a]; cbn [upd skipn]; [reflexivity|]. apply IH. lia.
Qed.

Lemma gets_firstn n ax i : (forall a, In a ax -> a < n) -> gets (firstn n i) ax = gets i ax.
Proof. intros H. unfold gets. apply map_ext_in. intros a Ha. apply get_firstn. apply H. exact Ha. Qed.

Lemma firstn_upds_lt n ax : forall i v, (forall a, In a ax -> a < n) ->
  firstn n (upds i ax v) = upds (firstn n i) ax v.
Proof.
  induction ax as [|a ax IH]; intros i v H; [reflexivity|].
  destruct v as [|x v]; [reflexivity|]. cbn [upds].
  rewrite IH by (intros b Hb; apply H; right; exact Hb).
  rewrite firstn_upd_lt by (apply H; left; reflexivity). reflexivity.
Qed.

Lemma skipn_upds_lt n ax : forall i v, (forall a, In a ax -> a < n) -> skipn n (upds i ax v) = skipn n i.
Proof.
  induction ax as [|a ax IH]; intros i v H; [reflexivity|].
  destruct v as [|x v]; [reflexivity|]. cbn [upds].
  rewrite IH by (intros b Hb; apply H; right; exact Hb).
  apply skipn_upd_lt. apply H. left. reflexivity.
Qed.

(* ---- positional facts: axes shifted past the first n entries ---- *)
Lemma get_skipn n : forall i a, get (skipn n i) a = get i (a + n).
Proof.
  unfold get. induction n as [|n IH]; intros i a.
  - rewrite Nat.add_0_r. reflexivity.
  - rewrite Nat.add_succ_r. destruct i as [|x r].
    + cbn [skipn nth]. destruct a; reflexivity.
    + cbn [skipn nth]. apply IH.
Qed.

Lemma firstn_upd_ge n : forall i a v, firstn n (upd i (a + n) v) = firstn n i.
Proof.
  induction n as [|n IH]; intros i a v; [reflexivity|].
  rewrite Nat.add_succ_r. destruct i as [|x r]; [reflexivity|].
  cbn [upd firstn]. f_equal. apply IH.
Qed.

Lemma skipn_upd_ge n : forall i a v, skipn n (upd i (a + n) v) = upd (skipn n i) a v.
Proof.
  induction n as [|n IH]; intros i a v.
  - rewrite Nat.add_0_r. reflexivity.
  - rewrite Nat.add_succ_r. destruct i as [|x r]; [reflexivity|].
    cbn [upd skipn]. apply IH.
Qed.

Lemma gets_skipn n ax i : gets (skipn n i) ax = gets i (shift_ax n ax).
Proof. unfold gets, shift_ax. rewrite map_map. apply map_ext. intros a. apply get_skipn. Qed.

Lemma firstn_upds_ge n ax : forall i v, firstn n (upds i (shift_ax n ax) v) = firstn n i.
Proof.
  induction ax as [|a ax IH]; intros i v; [reflexivity|].
  destruct v as [|x v]; [reflexivity|]. cbn [shift_ax map upds].
  change (map (fun a0 => a0 + n) ax) with (shift_ax n ax). rewrite IH. apply firstn_upd_ge.
Qed.

Lemma skipn_upds_ge n ax : forall i v, skipn n (upds i (shift_ax n ax) v) = upds (skipn n i) ax v.
Proof.
  induction ax as [|a ax IH]; intros i v; [reflexivity|].
  destruct v as [|x v]; [reflexivity|]. cbn [shift_ax map upds].
  change (map (fun a0 => a0 + n) ax) with (shift_ax n ax). rewrite IH. rewrite skipn_upd_ge. reflexivity.
Qed.

Lemma shift_unshift_ax n ax : (forall a, In a ax -> n <= a) -> shift_ax n (unshift_ax n ax) = ax.
Proof.
  intros H. unfold shift_ax, unshift_ax. rewrite map_map. rewrite <- (map_id ax) at 2.
  apply map_ext_in. intros a Ha. specialize (H a Ha). lia.
Qed.

(* ---- list bookkeeping ---- *)
Lemma kr_flat_map_flat_map {A B C} (f : B -> list C) (g : A -> list B) l :
  flat_map f (flat_map g l) = flat_map (fun x => flat_map f (g x)) l.
Proof. induction l as [|x l IH]; cbn [flat_map]; [reflexivity|]. rewrite flat_map_app, IH. reflexivity. Qed.
Lemma kr_map_flat_map {A B C} (f : B -> C) (g : A -> list B) l :
  map f (flat_map g l) = flat_map (fun x => map f (g x)) l.
Proof. induction l as [|x l IH]; cbn [flat_map map]; [reflexivity|]. rewrite map_app, IH. reflexivity. Qed.
Lemma kr_flat_map_map {A B C} (f : B -> list C) (g : A -> B) l :
  flat_map f (map g l) = flat_map (fun x => f (g x)) l.
Proof. induction l as [|x l IH]; cbn [flat_map map]; [reflexivity|]. rewrite IH. reflexivity. Qed.
Lemma kr_flat_map_ext_in {A B} (f g : A -> list B) l :
  (forall x, In x l -> f x = g x) -> flat_map f l = flat_map g l.
Proof.
  induction l as [|x l IH]; intros H; cbn [flat_map]; [reflexivity|].
  rewrite (H x) by (left; reflexivity). rewrite IH by (intros y Hy; apply H; right; exact Hy). reflexivity.
Qed.

Lemma firstn_app_exact {A} n : forall (a b : list A), length a = n -> firstn n (a ++ b) = a.
Proof.
  induction n as [|n IH]; intros [|x a] b H; cbn in H; try discriminate; [reflexivity|].
  cbn [app firstn]. f_equal. apply IH. lia.
Qed.
Lemma skipn_app_exact {A} n : forall (a b : list A), length a = n -> skipn n (a ++ b) = b.
Proof.
  induction n as [|n IH]; intros [|x a] b H; cbn in H; try discriminate; [reflexivity|].
  cbn [app skipn]. apply IH. lia.
Qed.

Lemma enum_elt_length sh a : In a (enum sh) -> length a = length sh.
Proof. intros H. apply enum_in in H. apply (Forall2_len _ _ _ H). Qed.

(* the enumeration of a concatenated shape is the (big-endian) product of the enumerations *)
Lemma enum_app sh1 : forall sh2,
  enum (sh1 ++ sh2) = flat_map (fun a => map (app a) (enum sh2)) (enum sh1).
Proof.
  induction sh1 as [|d sh1 IH]; intros sh2.
  - cbn [app enum flat_map]. rewrite app_nil_r. symmetry. rewrite <- (map_id (enum sh2)) at 2.
    apply map_ext. intros b. reflexivity.
  - cbn [app enum]. rewrite IH. rewrite kr_flat_map_flat_map.
    apply kr_flat_map_ext_in. intros x _.
    rewrite kr_map_flat_map, kr_flat_map_map.
    apply kr_flat_map_ext_in. intros a _. rewrite map_map. reflexivity.
Qed.

Section KronProofs.
  Context {K : Type} (O : Ops K) (L : Laws O).
  Add Ring KronRing : (law_ring O L).
  Infix "+" := (kadd O). Infix "*" := (kmul O).
  Notation z0 := (k0 O).

  Lemma ksum_mul_r {A} c (f : A -> K) l : ksum O (map f l) * c = ksum O (map (fun x => f x * c) l).
  Proof. induction l as [|x l IH]; simpl; [ring|]. rewrite <- IH. ring. Qed.

  (* A1: an operation on axes of the first factor acts on the first factor only *)
  Theorem apply_tprod_first (U : mat (K:=K)) dims ax n1 (p q : tensor (K:=K)) :
    (forall a, In a ax -> a < n1) ->
    forall i, apply O U dims ax (tprod O n1 p q) i = tprod O n1 (apply O U dims ax p) q i.
  Proof.
    intros Hax i. unfold tprod, apply. cbv beta.
    rewrite (gets_firstn n1 ax i Hax). rewrite ksum_mul_r. apply (ksum_ext O). intros v _.
    rewrite (firstn_upds_lt n1 ax i v Hax), (skipn_upds_lt n1 ax i v Hax). ring.
  Qed.

  (* A2: an operation on axes of the second factor (axes ax of q, i.e. ax shifted by n1 in the product) *)
  Theorem apply_tprod_second (U : mat (K:=K)) dims ax n1 (p q : tensor (K:=K)) :
    forall i, apply O U dims (shift_ax n1 ax) (tprod O n1 p q) i = tprod O n1 p (apply O U dims ax q) i.
  Proof.
    intros i. unfold tprod, apply. cbv beta.
    rewrite (gets_skipn n1 ax i). rewrite (ksum_mul_l O L). apply (ksum_ext O). intros v _.
    rewrite (firstn_upds_ge n1 ax i v), (skipn_upds_ge n1 ax i v). ring.
  Qed.

  (* A2 stated on the axes of the product: all axes >= n1, the factor sees them renumbered from 0 *)
  Theorem apply_tprod_second_ge (U : mat (K:=K)) dims ax n1 (p q : tensor (K:=K)) :
    (forall a, In a ax -> n1 <= a) ->
    forall i, apply O U dims ax (tprod O n1 p q) i = tprod O n1 p (apply O U dims (unshift_ax n1 ax) q) i.
  Proof.
    intros Hax i. rewrite <- (shift_unshift_ax n1 ax Hax) at 1. apply apply_tprod_second.
  Qed.

  (* A3: a run none of whose operations spans the two factors is the product of the two separate runs *)
  Theorem run_tprod n1 (ops : list (rop (K:=K))) : factored n1 ops = true ->
    forall (p q : tensor (K:=K)) i,
      run O ops (tprod O n1 p q) i = tprod O n1 (run O (ops_first n1 ops) p) (run O (ops_second n1 ops) q) i.
  Proof.
    induction ops as [|o ops IH]; intros Hf p q i.
    - reflexivity.
    - unfold factored in Hf. cbn [forallb] in Hf. apply andb_true_iff in Hf as [Ho Hr].
      specialize (IH Hr). unfold ops_first, ops_second. cbn [filter].
      destruct (rop_in_first n1 o) eqn:E1; cbn [negb map].
      + change (run O (o :: ops) (tprod O n1 p q) i)
          with (run O ops (apply O (mat_of O (rop_dims o) (rop_m o)) (rop_dims o) (rop_ax o) (tprod O n1 p q)) i).
        rewrite (run_ext O ops _ (tprod O n1 (apply O (mat_of O (rop_dims o) (rop_m o)) (rop_dims o) (rop_ax o) p) q)).
        * rewrite IH. reflexivity.
        * intros j. apply apply_tprod_first. intros a Ha.
          unfold rop_in_first in E1. rewrite forallb_forall in E1. apply Nat.ltb_lt. apply E1. exact Ha.
      + cbn [orb] in Ho.
        change (run O (o :: ops) (tprod O n1 p q) i)
          with (run O ops (apply O (mat_of O (rop_dims o) (rop_m o)) (rop_dims o) (rop_ax o) (tprod O n1 p q)) i).
        rewrite (run_ext O ops _
                   (tprod O n1 p (apply O (mat_of O (rop_dims o) (rop_m o)) (rop_dims o) (unshift_ax n1 (rop_ax o)) q))).
        * rewrite IH. reflexivity.
        * intros j. apply apply_tprod_second_ge. intros a Ha.
          unfold rop_in_second in Ho. rewrite forallb_forall in Ho. apply Nat.leb_le. apply Ho. exact Ha.
  Qed.

  (* A4 (collapse): projecting axes of one factor projects that factor only *)
  Theorem tproject_tprod_first ax v n1 (p q : tensor (K:=K)) :
    (forall a, In a ax -> a < n1) ->
    forall i, tproject O ax v (tprod O n1 p q) i = tprod O n1 (tproject O ax v p) q i.
  Proof.
    intros Hax i. unfold tproject, tprod. rewrite (gets_firstn n1 ax i Hax).
    destruct (list_eqb_nat (gets i ax) v); ring.
  Qed.

  Theorem tproject_tprod_second ax v n1 (p q : tensor (K:=K)) :
    forall i, tproject O (shift_ax n1 ax) v (tprod O n1 p q) i = tprod O n1 p (tproject O ax v q) i.
  Proof.
    intros i. unfold tproject, tprod. rewrite (gets_skipn n1 ax i).
    destruct (list_eqb_nat (gets i (shift_ax n1 ax)) v); ring.
  Qed.

  (* A4 (Born weights): the squared norm of a product is the product of the squared norms *)
  Theorem tnorm2_tprod sh1 sh2 (p q : tensor (K:=K)) :
    tnorm2 O (sh1 ++ sh2) (tprod O (length sh1) p q) = tnorm2 O sh1 p * tnorm2 O sh2 q.
  Proof.
    unfold tnorm2. rewrite enum_app. rewrite (ksum_flat_map O L). rewrite ksum_mul_r.
    apply (ksum_ext O). intros a Ha. rewrite map_map. rewrite (ksum_mul_l O L).
    apply (ksum_ext O). intros b _. unfold tprod.
    rewrite (firstn_app_exact (length sh1) a b (enum_elt_length sh1 a Ha)).
    rewrite (skipn_app_exact (length sh1) a b (enum_elt_length sh1 a Ha)).
    rewrite (law_conj_mul O L). ring.
  Qed.

  (* the list-level projection and norm of Sim/Measure.v are the tabulations of tproject / tnorm2 *)
  Lemma project_tab sh ax v (psi : tensor (K:=K)) : project O sh ax v (tab sh psi) = tab sh (tproject O ax v psi).
  Proof.
    unfold project, tab, tproject. generalize (enum sh). intros l.
    induction l as [|i l IH]; cbn [map combine fst snd]; [reflexivity|]. rewrite IH. reflexivity.
  Qed.
  Lemma norm2_tab sh (psi : tensor (K:=K)) : norm2 O (tab sh psi) = tnorm2 O sh psi.
  Proof. unfold norm2, tab, tnorm2. rewrite map_map. reflexivity. Qed.

  (* the same two statements on the executed (tabulated) states *)
  Corollary norm2_tab_tprod sh1 sh2 (p q : tensor (K:=K)) :
    norm2 O (tab (sh1 ++ sh2) (tprod O (length sh1) p q)) = norm2 O (tab sh1 p) * norm2 O (tab sh2 q).
  Proof. rewrite !norm2_tab. apply tnorm2_tprod. Qed.

  Corollary project_tab_tprod_first sh ax v n1 (p q : tensor (K:=K)) : (forall a, In a ax -> a < n1) ->
    project O sh ax v (tab sh (tprod O n1 p q)) = tab sh (tprod O n1 (tproject O ax v p) q).
  Proof.
    intros Hax. rewrite project_tab. unfold tab. apply map_ext. intros i. apply tproject_tprod_first. exact Hax.
  Qed.

  (* the hypotheses of A1 / A3 are satisfiable non-trivially *)
  Example apply_tprod_first_ex (U : mat (K:=K)) (p q : tensor (K:=K)) i :
    apply O U [2; 2] [1; 0] (tprod O 2 p q) i = tprod O 2 (apply O U [2; 2] [1; 0] p) q i.
  Proof. apply apply_tprod_first. intros a [<-|[<-|[]]]; lia. Qed.

  Example run_tprod_ex (M1 M2 : matrix (K:=K)) (p q : tensor (K:=K)) i :
    let o1 := {| rop_m := M1; rop_dims := [2; 2]; rop_ax := [1; 0] |} in
    let o2 := {| rop_m := M2; rop_dims := [3]; rop_ax := [3] |} in
    run O [o1; o2; o1] (tprod O 2 p q) i
    = tprod O 2 (run O [o1; o1] p) (run O [{| rop_m := M2; rop_dims := [3]; rop_ax := [1] |}] q) i.
  Proof. intros o1 o2. apply (run_tprod 2 [o1; o2; o1]). reflexivity. Qed.
End KronProofs.
