(* Exchanging two adjacent independent operations leaves the ensemble semantics of Sim/Measure.v unchanged
   (up to the order of branches and of records of different keys), hence trace-equivalent operation lists compute
   the same distribution over measurement records and the same post-measurement states.
   Generic in the ring (Ops/Laws), unbounded in the shape, the number of operations and their kinds. *)
From Coq Require Import List Arith Ring Lia Bool Permutation SetoidList SetoidPermutation Morphisms.
From VF Require Import Base.RingOps Base.K8 Base.Mat Base.Tensor Base.TensorProofs Base.TabProofs Base.Trace Base.TraceProofs
  Gates.Families Sim.Ref Sim.Measure Sim.MeasureProofs Sim.TraceSem Sim.ExecComm.
Import ListNotations.

(* ---------- lists ---------- *)
Lemma fm_map {A B C} (f : B -> list C) (g : A -> B) l : flat_map f (map g l) = flat_map (fun x => f (g x)) l.
Proof. induction l as [|x l IH]; simpl; [reflexivity|]. rewrite IH. reflexivity. Qed.
Lemma map_fm {A B C} (f : B -> C) (g : A -> list B) l : map f (flat_map g l) = flat_map (fun x => map f (g x)) l.
Proof. induction l as [|x l IH]; simpl; [reflexivity|]. rewrite map_app, IH. reflexivity. Qed.
Lemma fm_fm {A B C} (f : B -> list C) (g : A -> list B) l :
  flat_map f (flat_map g l) = flat_map (fun x => flat_map f (g x)) l.
Proof. induction l as [|x l IH]; simpl; [reflexivity|]. rewrite flat_map_app, IH. reflexivity. Qed.
Lemma fm_ext_in {A B} (f g : A -> list B) l : (forall x, In x l -> f x = g x) -> flat_map f l = flat_map g l.
Proof.
  induction l as [|x l IH]; intros H; simpl; [reflexivity|].
  rewrite (H x) by (left; reflexivity). rewrite IH by (intros y Hy; apply H; right; exact Hy). reflexivity.
Qed.
Lemma fm_nil {A B} (l : list A) : flat_map (fun _ => @nil B) l = [].
Proof. induction l as [|x l IH]; simpl; [reflexivity|exact IH]. Qed.
Lemma fm_single {A B} (f : A -> B) l : flat_map (fun x => [f x]) l = map f l.
Proof. induction l as [|x l IH]; simpl; [reflexivity|]. rewrite IH. reflexivity. Qed.

Lemma perm_map_fm {A B} (f : A -> B) (g : A -> list B) l :
  Permutation (map f l ++ flat_map g l) (flat_map (fun y => f y :: g y) l).
Proof.
  induction l as [|y l IH]; simpl; [constructor|].
  apply perm_skip. rewrite Permutation_app_swap_app. apply Permutation_app_head. exact IH.
Qed.
Lemma perm_fm_swap {A B C} (G : A -> B -> C) la lb :
  Permutation (flat_map (fun x => map (G x) lb) la) (flat_map (fun y => map (fun x => G x y) la) lb).
Proof.
  induction la as [|x la IH]; simpl.
  - rewrite fm_nil. constructor.
  - rewrite IH. apply perm_map_fm.
Qed.

Lemma teq_Forall {A} (dep : A -> A -> bool) (P : A -> Prop) l l' : teq dep l l' -> Forall P l -> Forall P l'.
Proof.
  intros T. induction T as [l|l1 a b l2 Hi|l1 l2 l3 _ IH1 _ IH2]; intros H.
  - exact H.
  - apply Forall_app in H as [H1 H2]. inversion H2 as [|a' r Ha H3]; subst. inversion H3 as [|b' r' Hb H4]; subst.
    apply Forall_app. split; [exact H1|]. constructor; [exact Hb|]. constructor; [exact Ha|exact H4].
  - apply IH2. apply IH1. exact H.
Qed.

(* ---------- indices: in-shape updates, and the tabulation is a bijection on well-sized lists ---------- *)
Lemma upd_in_shape sh : forall i a x, Forall2 lt i sh -> (a < length sh -> x < nth a sh 0) -> Forall2 lt (upd i a x) sh.
Proof.
  intros i a x H. revert a. induction H as [|y d i sh Hy Hr IH]; intros a Hx; simpl.
  - constructor.
  - destruct a as [|a].
    + constructor; [|exact Hr]. apply Hx. simpl. lia.
    + constructor; [exact Hy|]. apply IH. intros Ha. apply Hx. simpl. lia.
Qed.

Lemma upds_in_shape sh : forall ax v dims i, fits sh ax dims -> Forall2 lt v dims -> Forall2 lt i sh ->
  Forall2 lt (upds i ax v) sh.
Proof.
  induction ax as [|a ax IH]; intros v dims i Hf Hv Hi; simpl; [exact Hi|].
  destruct v as [|x v]; [exact Hi|].
  inversion Hv as [|x' d v' dims' Hx Hr]; subst. simpl in Hf. destruct Hf as [Hd Hf].
  apply (IH v dims'); [exact Hf|exact Hr|].
  apply upd_in_shape; [exact Hi|]. intros Ha. specialize (Hd Ha). lia.
Qed.

Lemma index_cons d sh x i : length i = length sh -> index (d :: sh) (x :: i) = x * size sh + index sh i.
Proof.
  intros H. unfold index at 1. cbn [index_acc]. rewrite index_acc_spec by exact H. lia.
Qed.

Lemma index_nth_enum sh : forall k, k < size sh -> index sh (nth k (enum sh) []) = k.
Proof.
  induction sh as [|d sh IH]; intros k Hk.
  - cbn in Hk. assert (k = 0) by lia. subst. reflexivity.
  - cbn [size fold_right] in Hk. fold (size sh) in Hk.
    assert (Hm : size sh <> 0) by (intro E; rewrite E in Hk; lia).
    pose proof (Nat.div_mod k (size sh) Hm) as Hdm.
    pose proof (Nat.mod_upper_bound k (size sh) Hm) as Hr.
    assert (Hx : k / size sh < d) by (apply Nat.div_lt_upper_bound; [exact Hm|lia]).
    set (x := k / size sh) in *. set (r := k mod size sh) in *.
    assert (Ek : k = x * size sh + r) by lia.
    rewrite Ek at 1. cbn [enum].
    rewrite (nth_blocks (fun y => map (cons y) (enum sh)) (size sh)); [| intros y; rewrite map_length; apply enum_length | exact Hx | exact Hr].
    rewrite Nat.add_0_l.
    rewrite (nth_indep _ [] (x :: [])) by (rewrite map_length, enum_length; exact Hr).
    rewrite (map_nth (cons x) (enum sh) [] r).
    assert (Hin : Forall2 lt (nth r (enum sh) []) sh).
    { apply enum_in. apply nth_In. rewrite enum_length. exact Hr. }
    rewrite index_cons by (apply Forall2_len in Hin; exact Hin).
    rewrite IH by exact Hr. lia.
Qed.

Section TabInv.
  Context {K : Type} (O : Ops K).
  Lemma tab_untab sh (l : list K) : length l = length (enum sh) -> tab sh (untab O sh l) = l.
  Proof.
    intros Hl. apply (nth_ext _ _ (k0 O) (k0 O)).
    - unfold tab. rewrite map_length. symmetry. exact Hl.
    - intros n Hn. unfold tab in *. rewrite map_length in Hn.
      rewrite (nth_indep _ (k0 O) (untab O sh l [])) by (rewrite map_length; exact Hn).
      rewrite (map_nth (untab O sh l) (enum sh) [] n). unfold untab.
      rewrite index_nth_enum by (rewrite <- enum_length; exact Hn). reflexivity.
  Qed.
  Lemma tab_ext sh (f g : tensor (K:=K)) : (forall i, Forall2 lt i sh -> f i = g i) -> tab sh f = tab sh g.
  Proof. intros H. unfold tab. apply map_ext_in. intros i Hi. apply H. apply enum_in. exact Hi. Qed.
  Lemma tab_length sh (f : tensor (K:=K)) : length (tab sh f) = length (enum sh).
  Proof. unfold tab. apply map_length. Qed.
End TabInv.

(* ---------- state transformers commute on disjoint axes ---------- *)
Section SopComm.
  Context {K : Type} (O : Ops K) (L : Laws O).
  Add Ring KringE1 : (law_ring O L).
  Infix "+" := (kadd O). Infix "*" := (kmul O).

  Lemma project_tab sh ax v (f : tensor (K:=K)) : project O sh ax v (tab sh f) = tab sh (tproj O ax v f).
  Proof.
    unfold project, tab, tproj. generalize (enum sh). intros l.
    induction l as [|i l IH]; simpl; [reflexivity|]. rewrite IH. reflexivity.
  Qed.

  Lemma run_sop_tab sh s (l : list K) : length l = length (enum sh) ->
    run_sop O sh s l = tab sh (tsop O s (untab O sh l)).
  Proof.
    intros Hl. destruct s as [|M dims ax|ax v]; cbn [run_sop tsop].
    - symmetry. apply tab_untab. exact Hl.
    - reflexivity.
    - rewrite <- (tab_untab O sh l Hl) at 1. apply project_tab.
  Qed.
  Lemma run_sop_length sh s (l : list K) : length l = length (enum sh) -> length (run_sop O sh s l) = length (enum sh).
  Proof. intros Hl. rewrite run_sop_tab by exact Hl. apply tab_length. Qed.

  Lemma apply_ext_shape sh U d a (p q : tensor (K:=K)) : fits sh a d ->
    (forall i, Forall2 lt i sh -> p i = q i) -> forall i, Forall2 lt i sh -> apply O U d a p i = apply O U d a q i.
  Proof.
    intros Hf H i Hi. unfold apply. apply (ksum_ext O). intros v Hv. rewrite H; [reflexivity|].
    apply (upds_in_shape sh a v d); [exact Hf|apply enum_in; exact Hv|exact Hi].
  Qed.
  Lemma tsop_ext_shape sh s (p q : tensor (K:=K)) : sop_fits sh s ->
    (forall i, Forall2 lt i sh -> p i = q i) -> forall i, Forall2 lt i sh -> tsop O s p i = tsop O s q i.
  Proof.
    intros Hf H i Hi. destruct s as [|M dims ax|ax v]; cbn [tsop].
    - apply H. exact Hi.
    - apply (apply_ext_shape sh); assumption.
    - unfold tproj. rewrite (H i Hi). reflexivity.
  Qed.

  Lemma apply_tproj U d a ax v (p : tensor (K:=K)) : (forall x, In x a -> ~ In x ax) ->
    forall i, apply O U d a (tproj O ax v p) i = tproj O ax v (apply O U d a p) i.
  Proof.
    intros Hd i. unfold apply, tproj.
    destruct (list_eqb_nat (gets i ax) v) eqn:E.
    - apply (ksum_ext O). intros w _. rewrite gets_upds_other by exact Hd. rewrite E. reflexivity.
    - transitivity (ksum O (map (fun _ : list nat => k0 O) (enum d))); [|apply (ksum_zero O L)].
      apply (ksum_ext O). intros w _. rewrite gets_upds_other by exact Hd. rewrite E. ring.
  Qed.

  Lemma tsop_comm s1 s2 (p : tensor (K:=K)) : (forall x, In x (sop_axes s1) -> ~ In x (sop_axes s2)) ->
    forall i, tsop O s1 (tsop O s2 p) i = tsop O s2 (tsop O s1 p) i.
  Proof.
    intros Hd i.
    assert (Hd' : forall x, In x (sop_axes s2) -> ~ In x (sop_axes s1)) by (intros x H2 H1; exact (Hd x H1 H2)).
    destruct s1 as [|M1 d1 a1|a1 v1]; destruct s2 as [|M2 d2 a2|a2 v2]; cbn [tsop sop_axes] in *; try reflexivity.
    - apply (apply_commute_disjoint O L). exact Hd.
    - apply apply_tproj. exact Hd.
    - symmetry. apply apply_tproj. exact Hd'.
    - unfold tproj. destruct (list_eqb_nat (gets i a1) v1); destruct (list_eqb_nat (gets i a2) v2); reflexivity.
  Qed.

  Theorem run_sop_comm sh s1 s2 (l : list K) : length l = length (enum sh) ->
    sop_fits sh s1 -> sop_fits sh s2 -> (forall x, In x (sop_axes s1) -> ~ In x (sop_axes s2)) ->
    run_sop O sh s1 (run_sop O sh s2 l) = run_sop O sh s2 (run_sop O sh s1 l).
  Proof.
    intros Hl Hf1 Hf2 Hd.
    rewrite (run_sop_tab sh s1 (run_sop O sh s2 l)) by (apply run_sop_length; exact Hl).
    rewrite (run_sop_tab sh s2 (run_sop O sh s1 l)) by (apply run_sop_length; exact Hl).
    rewrite (run_sop_tab sh s2 l Hl), (run_sop_tab sh s1 l Hl).
    apply tab_ext. intros i Hi.
    transitivity (tsop O s1 (tsop O s2 (untab O sh l)) i).
    { apply (tsop_ext_shape sh); [exact Hf1| |exact Hi]. intros j Hj. apply untab_tab. exact Hj. }
    rewrite (tsop_comm s1 s2 _ Hd).
    symmetry. apply (tsop_ext_shape sh); [exact Hf2| |exact Hi]. intros j Hj. apply untab_tab. exact Hj.
  Qed.
End SopComm.

(* ---------- records compared key by key ---------- *)
Lemma key_records_app k r s : key_records k (r ++ s) = key_records k r ++ key_records k s.
Proof. unfold key_records. apply filter_app. Qed.
Lemma key_records_none k s : (forall e, In e s -> fst (fst e) <> k) -> key_records k s = [].
Proof.
  unfold key_records. induction s as [|e s IH]; intros H; simpl; [reflexivity|].
  destruct (Nat.eqb_spec (fst (fst e)) k) as [E|E].
  - exfalso. apply (H e); [left; reflexivity|exact E].
  - apply IH. intros f Hf. apply H. right. exact Hf.
Qed.
Lemma key_records_in k s e : In e (key_records k s) -> In e s /\ fst (fst e) = k.
Proof. unfold key_records. intros H. apply filter_In in H as [H1 H2]. apply Nat.eqb_eq in H2. split; assumption. Qed.

Lemma rec_equiv_refl r : rec_equiv r r.
Proof. intros k. reflexivity. Qed.
Lemma rec_equiv_sym r r' : rec_equiv r r' -> rec_equiv r' r.
Proof. intros H k. symmetry. apply H. Qed.
Lemma rec_equiv_trans r1 r2 r3 : rec_equiv r1 r2 -> rec_equiv r2 r3 -> rec_equiv r1 r3.
Proof. intros H1 H2 k. rewrite H1. apply H2. Qed.
Lemma rec_equiv_app_r r r' s : rec_equiv r r' -> rec_equiv (r ++ s) (r' ++ s).
Proof. intros H k. rewrite !key_records_app, (H k). reflexivity. Qed.
(* records of different keys appended in either order *)
Lemma rec_equiv_swap r s1 s2 : (forall e f, In e s1 -> In f s2 -> fst (fst e) <> fst (fst f)) ->
  rec_equiv ((r ++ s1) ++ s2) ((r ++ s2) ++ s1).
Proof.
  intros Hd k. rewrite !key_records_app, <- !app_assoc. f_equal.
  destruct (key_records k s2) as [|f t] eqn:E2.
  - rewrite app_nil_r. reflexivity.
  - assert (Hf : In f s2 /\ fst (fst f) = k) by (apply key_records_in; rewrite E2; left; reflexivity).
    destruct Hf as [Hf Hk].
    rewrite (key_records_none k s1); [rewrite app_nil_r; reflexivity|].
    intros e He E. apply (Hd e f He Hf). congruence.
Qed.

Lemma eval_cond_keyrec c r r' : key_records (cond_key c) r = key_records (cond_key c) r' -> eval_cond c r = eval_cond c r'.
Proof. destruct c as [k idx fe|k idx fe m t eq]; cbn [eval_cond cond_key]; intros E; rewrite E; reflexivity. Qed.

Lemma forallb_ext_in {A} (f g : A -> bool) l : (forall x, In x l -> f x = g x) -> forallb f l = forallb g l.
Proof.
  induction l as [|x l IH]; intros H; simpl; [reflexivity|].
  rewrite (H x) by (left; reflexivity). rewrite IH by (intros y Hy; apply H; right; exact Hy). reflexivity.
Qed.

Lemma shares_false x y : shares x y = false -> forall r, In r x -> ~ In r y.
Proof.
  intros H r Hx Hy. assert (E : shares x y = true) by (apply shares_true; exists r; split; assumption). congruence.
Qed.

(* ---------- permutations up to an equivalence ---------- *)
Section PermA.
  Context {B : Type} (eqB : B -> B -> Prop) (E : Equivalence eqB).

  Lemma permA_refl l : PermutationA eqB l l.
  Proof. induction l as [|x l IH]; constructor; [reflexivity|exact IH]. Qed.
  Lemma permA_sym l l' : PermutationA eqB l l' -> PermutationA eqB l' l.
  Proof.
    induction 1 as [|x y l l' Hxy _ IH|x y l|l1 l2 l3 _ IH1 _ IH2].
    - constructor.
    - constructor; [symmetry; exact Hxy|exact IH].
    - apply permA_swap.
    - eapply permA_trans; eassumption.
  Qed.
  Lemma permA_app l1 l1' l2 l2' : PermutationA eqB l1 l1' -> PermutationA eqB l2 l2' ->
    PermutationA eqB (l1 ++ l2) (l1' ++ l2').
  Proof. intros H1 H2. apply (PermutationA_app E); assumption. Qed.
  Lemma permA_map_ext {A} (f g : A -> B) l : (forall y, In y l -> eqB (f y) (g y)) -> PermutationA eqB (map f l) (map g l).
  Proof.
    induction l as [|y l IH]; intros H; simpl; [constructor|].
    constructor; [apply H; left; reflexivity|]. apply IH. intros z Hz. apply H. right. exact Hz.
  Qed.
  Lemma permA_fm_ext {A} (f g : A -> list B) l : (forall x, In x l -> PermutationA eqB (f x) (g x)) ->
    PermutationA eqB (flat_map f l) (flat_map g l).
  Proof.
    induction l as [|x l IH]; intros H; simpl; [constructor|].
    apply permA_app; [apply H; left; reflexivity|]. apply IH. intros z Hz. apply H. right. exact Hz.
  Qed.
  Lemma permA_fm (f : B -> list B) l l' : (forall x y, eqB x y -> PermutationA eqB (f x) (f y)) ->
    PermutationA eqB l l' -> PermutationA eqB (flat_map f l) (flat_map f l').
  Proof.
    intros Hf. induction 1 as [|x y l l' Hxy _ IH|x y l|l1 l2 l3 _ IH1 _ IH2]; simpl.
    - constructor.
    - apply permA_app; [apply Hf; exact Hxy|exact IH].
    - rewrite !app_assoc. apply permA_app; [|apply permA_refl].
      apply (PermutationA_app_comm E).
    - eapply permA_trans; eassumption.
  Qed.
  Lemma permA_filter (f : B -> bool) l l' : (forall x y, eqB x y -> f x = f y) ->
    PermutationA eqB l l' -> PermutationA eqB (filter f l) (filter f l').
  Proof.
    intros Hf. induction 1 as [|x y l l' Hxy _ IH|x y l|l1 l2 l3 _ IH1 _ IH2]; simpl.
    - constructor.
    - rewrite (Hf x y Hxy). destruct (f y); [constructor; assumption|exact IH].
    - destruct (f x); destruct (f y); try apply permA_refl. apply permA_swap.
    - eapply permA_trans; eassumption.
  Qed.
  Lemma permA_map_perm {C} (g : B -> C) l l' : (forall x y, eqB x y -> g x = g y) ->
    PermutationA eqB l l' -> Permutation (map g l) (map g l').
  Proof.
    intros Hg. induction 1 as [|x y l l' Hxy _ IH|x y l|l1 l2 l3 _ IH1 _ IH2]; simpl.
    - constructor.
    - rewrite (Hg x y Hxy). apply perm_skip. exact IH.
    - apply perm_swap.
    - eapply perm_trans; eassumption.
  Qed.
  Lemma permA_Forall (P : B -> Prop) l l' : (forall x y, eqB x y -> P x -> P y) ->
    PermutationA eqB l l' -> Forall P l -> Forall P l'.
  Proof.
    intros HP. induction 1 as [|x y l l' Hxy _ IH|x y l|l1 l2 l3 _ IH1 _ IH2]; intros H.
    - exact H.
    - inversion H as [|x' r Hx Hr]; subst. constructor; [apply (HP x y Hxy Hx)|apply IH; exact Hr].
    - inversion H as [|y' r Hy Hr]; subst. inversion Hr as [|x' r' Hx Hr']; subst.
      constructor; [exact Hx|]. constructor; [exact Hy|exact Hr'].
    - apply IH2. apply IH1. exact H.
  Qed.
  (* the two nestings of a double enumeration *)
  Lemma permA_fm_swap {A1 A2} (F G : A1 -> A2 -> B) la lb :
    (forall x y, In x la -> In y lb -> eqB (F x y) (G x y)) ->
    PermutationA eqB (flat_map (fun x => map (F x) lb) la) (flat_map (fun y => map (fun x => G x y) la) lb).
  Proof.
    intros H. apply permA_trans with (flat_map (fun x => map (G x) lb) la).
    - apply permA_fm_ext. intros x Hx. apply permA_map_ext. intros y Hy. apply H; assumption.
    - apply (Permutation_PermutationA E). apply perm_fm_swap.
  Qed.
End PermA.

(* ---------- the step function through actions ---------- *)
Section StepComm.
  Context {K : Type} (O : Ops K) (L : Laws O).
  Add Ring KringE2 : (law_ring O L).
  Infix "+" := (kadd O). Infix "*" := (kmul O).

  Lemma branch_eq (w w' : K) r r' p p' : w = w' -> r = r' -> p = p' ->
    {| bw := w; brec := r; bpsi := p |} = {| bw := w'; brec := r'; bpsi := p' |}.
  Proof. intros -> -> ->. reflexivity. Qed.

  Global Instance branch_equiv_Equivalence : Equivalence (branch_equiv (K:=K)).
  Proof.
    constructor.
    - intros b. split; [reflexivity|]. split; [reflexivity|apply rec_equiv_refl].
    - intros b b' [H1 [H2 H3]]. split; [symmetry; exact H1|]. split; [symmetry; exact H2|apply rec_equiv_sym; exact H3].
    - intros b1 b2 b3 [H1 [H2 H3]] [G1 [G2 G3]]. split; [congruence|]. split; [congruence|].
      eapply rec_equiv_trans; eassumption.
  Qed.

  (* the weight of a confusion-map outcome is linear in the incoming weight *)
  Lemma confuse_one_scale dims c s w ds :
    confuse_one O dims c (s * w, ds) = map (scale_wd O s) (confuse_one O dims c (w, ds)).
  Proof.
    unfold confuse_one. cbv beta iota zeta. rewrite map_map. apply map_ext. intros nv.
    unfold scale_wd. cbn [fst snd]. f_equal. ring.
  Qed.
  Lemma confuse_scale dims cs s w ds :
    confuse O dims cs (s * w, ds) = map (scale_wd O s) (confuse O dims cs (w, ds)).
  Proof.
    unfold confuse. change [(s * w, ds)] with (map (scale_wd O s) [(w, ds)]). generalize [(w, ds)].
    induction cs as [|c cs IH]; intros acc; cbn [fold_left]; [reflexivity|].
    rewrite <- IH. f_equal. rewrite fm_map, map_fm. apply fm_ext_in. intros [w0 ds0] _.
    unfold scale_wd at 1. cbn [fst snd]. apply confuse_one_scale.
  Qed.

  Theorem step_acts sh o (b : branch (K:=K)) : step O sh o b = map (act_on O sh b) (acts O sh o (brec b)).
  Proof.
    destruct o as [g|key ax inv cs|conds g|ks dims ax|key ks dims ax|a]; cbn [step acts].
    - cbn [map]. f_equal. unfold act_on. cbn [a_c a_r a_t gate_sop run_sop].
      apply branch_eq; [ring|rewrite app_nil_r; reflexivity|reflexivity].
    - rewrite map_fm. apply fm_ext_in. intros v _.
      replace (bw b) with (bw b * k1 O) at 1 by ring.
      rewrite confuse_scale, !map_map. apply map_ext. intros wd.
      unfold act_on, scale_wd. cbn [a_c a_r a_t run_sop fst snd]. reflexivity.
    - destruct (forallb _ conds); cbn [map]; f_equal; unfold act_on; cbn [a_c a_r a_t gate_sop run_sop].
      + apply branch_eq; [ring|rewrite app_nil_r; reflexivity|reflexivity].
      + destruct b as [w r p]. cbn [bw brec bpsi]. apply branch_eq; [ring|rewrite app_nil_r; reflexivity|reflexivity].
    - rewrite map_map. apply map_ext. intros k. unfold act_on. cbn [a_c a_r a_t run_sop].
      apply branch_eq; [ring|rewrite app_nil_r; reflexivity|reflexivity].
    - rewrite map_map. apply map_ext. intros jk. unfold act_on. cbn [a_c a_r a_t run_sop].
      apply branch_eq; [ring|reflexivity|reflexivity].
    - rewrite map_map. apply map_ext. intros j. unfold act_on. cbn [a_c a_r a_t run_sop].
      apply branch_eq; [ring|rewrite app_nil_r; reflexivity|reflexivity].
  Qed.

  (* what the actions of an operation touch *)
  Lemma acts_inv sh o r x : In x (acts O sh o r) ->
    (forall e, In e (a_r x) -> In (fst (fst e)) (mop_writes o)) /\
    (forall q, In q (sop_axes (a_t x)) -> In q (mop_axes o)) /\
    (mop_wf sh o -> sop_fits sh (a_t x)).
  Proof.
    destruct o as [g|key ax inv cs|conds g|ks dims ax|key ks dims ax|a]; cbn [acts mop_writes mop_axes mop_wf]; intros Hx.
    - destruct Hx as [<-|[]]. cbn [a_r a_t gate_sop sop_axes sop_fits].
      split; [intros e []|]. split; [intros q Hq; exact Hq|intros H; exact H].
    - apply in_flat_map in Hx as [v [_ Hx]]. apply in_map_iff in Hx as [wd [<- _]].
      cbn [a_r a_t sop_axes sop_fits]. split.
      + intros e [<-|[]]. left. reflexivity.
      + split; [intros q Hq; exact Hq|intros _; exact I].
    - destruct (forallb _ conds); destruct Hx as [<-|[]]; cbn [a_r a_t gate_sop sop_axes sop_fits].
      + split; [intros e []|]. split; [intros q Hq; exact Hq|intros H; exact H].
      + split; [intros e []|]. split; [intros q []|intros _; exact I].
    - apply in_map_iff in Hx as [k [<- _]]. cbn [a_r a_t sop_axes sop_fits].
      split; [intros e []|]. split; [intros q Hq; exact Hq|intros H; exact H].
    - apply in_map_iff in Hx as [jk [<- _]]. cbn [a_r a_t sop_axes sop_fits]. split.
      + intros e [<-|[]]. left. reflexivity.
      + split; [intros q Hq; exact Hq|intros H; exact H].
    - apply in_map_iff in Hx as [j [<- _]]. cbn [a_r a_t sop_axes sop_fits fits].
      split; [intros e []|]. split; [intros q Hq; exact Hq|]. intros _. split; [|exact I].
      intros Ha. rewrite (nth_indep sh 2 0 Ha). lia.
  Qed.

  (* the actions depend on the records only through the keys the operation reads *)
  Lemma acts_reads sh o r r' : (forall k, In k (mop_reads o) -> key_records k r = key_records k r') ->
    acts O sh o r = acts O sh o r'.
  Proof.
    destruct o as [g|key ax inv cs|conds g|ks dims ax|key ks dims ax|a]; cbn [acts mop_reads]; intros H; try reflexivity.
    replace (forallb (fun c => match eval_cond c r with Some true => true | _ => false end) conds)
      with (forallb (fun c => match eval_cond c r' with Some true => true | _ => false end) conds); [reflexivity|].
    apply forallb_ext_in. intros c Hc. rewrite (eval_cond_keyrec c r r'); [reflexivity|].
    apply H. apply in_map. exact Hc.
  Qed.

  Lemma mop_dep_false a b : mop_dep (K:=K) a b = false ->
    (forall x, In x (mop_axes a) -> ~ In x (mop_axes b)) /\
    (forall k, In k (mop_writes a) -> ~ In k (mop_writes b)) /\
    (forall k, In k (mop_writes a) -> ~ In k (mop_reads b)) /\
    (forall k, In k (mop_reads a) -> ~ In k (mop_writes b)).
  Proof.
    unfold mop_dep. intros H.
    apply orb_false_iff in H as [H H4]. apply orb_false_iff in H as [H H3]. apply orb_false_iff in H as [H1 H2].
    repeat split; apply shares_false; assumption.
  Qed.
  Lemma mop_dep_sym a b : mop_dep (K:=K) a b = mop_dep b a.
  Proof.
    unfold mop_dep.
    rewrite (shares_sym (mop_axes b)), (shares_sym (mop_writes b) (mop_writes a)),
      (shares_sym (mop_writes b) (mop_reads a)), (shares_sym (mop_reads b) (mop_writes a)).
    destruct (shares (mop_axes a) (mop_axes b)); destruct (shares (mop_writes a) (mop_writes b));
      destruct (shares (mop_writes a) (mop_reads b)); destruct (shares (mop_reads a) (mop_writes b)); reflexivity.
  Qed.

  (* two steps in a row, when the second does not read what the first writes *)
  Lemma step2_acts sh a b (br : branch (K:=K)) : (forall k, In k (mop_writes a) -> ~ In k (mop_reads b)) ->
    flat_map (step O sh b) (step O sh a br)
    = flat_map (fun x => map (fun y => act_on O sh (act_on O sh br x) y) (acts O sh b (brec br))) (acts O sh a (brec br)).
  Proof.
    intros Hwr. rewrite (step_acts sh a br), fm_map. apply fm_ext_in. intros x Hx.
    rewrite step_acts. f_equal. cbn [act_on brec]. apply acts_reads. intros k Hk.
    rewrite key_records_app, (key_records_none k (a_r x)); [apply app_nil_r|].
    intros e He Ee. apply (Hwr k); [|exact Hk]. rewrite <- Ee.
    destruct (acts_inv sh a (brec br) x Hx) as [Hkeys _]. apply Hkeys. exact He.
  Qed.

  Lemma acts_state_comm sh a b r r' x y (psi : list K) :
    (forall q, In q (mop_axes a) -> ~ In q (mop_axes b)) -> mop_wf sh a -> mop_wf sh b ->
    length psi = length (enum sh) -> In x (acts O sh a r) -> In y (acts O sh b r') ->
    run_sop O sh (a_t y) (run_sop O sh (a_t x) psi) = run_sop O sh (a_t x) (run_sop O sh (a_t y) psi).
  Proof.
    intros Hax Hwa Hwb Hl Hx Hy.
    destruct (acts_inv sh a r x Hx) as [_ [Hqx Hfx]]. destruct (acts_inv sh b r' y Hy) as [_ [Hqy Hfy]].
    apply (run_sop_comm O L); [exact Hl|apply Hfy; exact Hwb|apply Hfx; exact Hwa|].
    intros q Hq1 Hq2. apply (Hax q); [apply Hqx; exact Hq2|apply Hqy; exact Hq1].
  Qed.

  (* ---- exchange of two independent operations on one branch ---- *)
  Theorem step_comm sh a b (br : branch (K:=K)) :
    mop_indep a b -> mop_wf sh a -> mop_wf sh b -> wsh sh br ->
    ens_equiv (flat_map (step O sh b) (step O sh a br)) (flat_map (step O sh a) (step O sh b br)).
  Proof.
    intros Hi Hwa Hwb Hs. destruct (mop_dep_false a b Hi) as [Hax [Hww [Hwr Hrw]]].
    rewrite (step2_acts sh a b br Hwr).
    rewrite (step2_acts sh b a br) by (intros k Hk1 Hk2; exact (Hrw k Hk2 Hk1)).
    unfold ens_equiv.
    apply (permA_fm_swap _ branch_equiv_Equivalence
             (fun x y => act_on O sh (act_on O sh br x) y) (fun x y => act_on O sh (act_on O sh br y) x)).
    intros x y Hx Hy. unfold branch_equiv, act_on. cbn [bw brec bpsi]. split; [ring|]. split.
    - apply (acts_state_comm sh a b (brec br) (brec br)); assumption.
    - apply rec_equiv_swap. intros e f He Hf E.
      destruct (acts_inv sh a (brec br) x Hx) as [Hkx _]. destruct (acts_inv sh b (brec br) y Hy) as [Hky _].
      apply (Hww (fst (fst e))); [apply Hkx; exact He|rewrite E; apply Hky; exact Hf].
  Qed.

  (* when one of the two neither branches nor records (gate, classically controlled gate) the exchange is exact *)
  Lemma acts_det sh a r : mop_det (K:=K) a = true -> exists s, acts O sh a r = [mkAct (k1 O) [] s].
  Proof.
    destruct a as [g|key ax inv cs|conds g|ks dims ax|key ks dims ax|a]; cbn [mop_det acts]; intros H; try discriminate.
    - eexists. reflexivity.
    - destruct (forallb _ conds); eexists; reflexivity.
  Qed.
  Theorem step_comm_det_eq sh a b (br : branch (K:=K)) : mop_det a = true ->
    mop_indep a b -> mop_wf sh a -> mop_wf sh b -> wsh sh br ->
    flat_map (step O sh b) (step O sh a br) = flat_map (step O sh a) (step O sh b br).
  Proof.
    intros Hdet Hi Hwa Hwb Hs. destruct (mop_dep_false a b Hi) as [Hax [Hww [Hwr Hrw]]].
    rewrite (step2_acts sh a b br Hwr).
    rewrite (step2_acts sh b a br) by (intros k Hk1 Hk2; exact (Hrw k Hk2 Hk1)).
    destruct (acts_det sh a (brec br) Hdet) as [s Es].
    assert (Hx : In (mkAct (k1 O) [] s) (acts O sh a (brec br))) by (rewrite Es; left; reflexivity).
    rewrite Es. cbn [flat_map map]. rewrite app_nil_r, fm_single. apply map_ext_in. intros y Hy.
    unfold act_on. cbn [bw brec bpsi a_c a_r a_t]. apply branch_eq; [ring|rewrite !app_nil_r; reflexivity|].
    apply (acts_state_comm sh a b (brec br) (brec br) (mkAct (k1 O) [] s) y); assumption.
  Qed.
  Corollary step_comm_det_eq_r sh a b (br : branch (K:=K)) : mop_det b = true ->
    mop_indep a b -> mop_wf sh a -> mop_wf sh b -> wsh sh br ->
    flat_map (step O sh b) (step O sh a br) = flat_map (step O sh a) (step O sh b br).
  Proof.
    intros Hdet Hi Hwa Hwb Hs. symmetry. apply step_comm_det_eq; try assumption.
    unfold mop_indep. rewrite mop_dep_sym. exact Hi.
  Qed.
End StepComm.

(* ---------- lifting to whole executions ---------- *)
Section ExecLift.
  Context {K : Type} (O : Ops K) (L : Laws O).
  Add Ring KringE3 : (law_ring O L).
  Infix "+" := (kadd O). Infix "*" := (kmul O).
  Let EqB := branch_equiv_Equivalence (K:=K).

  (* every step keeps branches well shaped (no hypothesis on the operation) *)
  Lemma act_on_wsh sh (b : branch (K:=K)) x : wsh sh b -> wsh sh (act_on O sh b x).
  Proof. unfold wsh, act_on. cbn [bpsi]. intros H. apply run_sop_length. exact H. Qed.
  Lemma step_wsh sh o (b : branch (K:=K)) : wsh sh b -> Forall (wsh sh) (step O sh o b).
  Proof.
    intros H. rewrite (step_acts O L). apply Forall_forall. intros y Hy.
    apply in_map_iff in Hy as [x [<- _]]. apply act_on_wsh. exact H.
  Qed.
  Lemma fm_step_wsh sh o (bs : list (branch (K:=K))) : Forall (wsh sh) bs -> Forall (wsh sh) (flat_map (step O sh o) bs).
  Proof.
    intros H. apply Forall_forall. intros y Hy. apply in_flat_map in Hy as [b [Hb Hy]].
    pose proof (step_wsh sh o b (proj1 (Forall_forall _ _) H b Hb)) as Hs.
    exact (proj1 (Forall_forall _ _) Hs y Hy).
  Qed.
  Lemma run_from_wsh sh ops : forall bs : list (branch (K:=K)), Forall (wsh sh) bs -> Forall (wsh sh) (run_from O sh ops bs).
  Proof.
    induction ops as [|o ops IH]; intros bs H; cbn [run_from fold_left]; [exact H|].
    apply IH. apply fm_step_wsh. exact H.
  Qed.

  (* every step respects the equivalence of branches (no hypothesis on the operation) *)
  Lemma act_on_respects sh (b b' : branch (K:=K)) x : branch_equiv b b' -> branch_equiv (act_on O sh b x) (act_on O sh b' x).
  Proof.
    intros [H1 [H2 H3]]. unfold branch_equiv, act_on. cbn [bw brec bpsi]. rewrite H1, H2.
    split; [reflexivity|]. split; [reflexivity|]. apply rec_equiv_app_r. exact H3.
  Qed.
  Theorem step_respects sh o (b b' : branch (K:=K)) : branch_equiv b b' -> ens_equiv (step O sh o b) (step O sh o b').
  Proof.
    intros H. rewrite !(step_acts O L).
    rewrite (acts_reads O sh o (brec b) (brec b')) by (intros k _; apply H).
    apply permA_map_ext. intros x _. apply act_on_respects. exact H.
  Qed.
  Theorem fm_step_respects sh o (bs bs' : list (branch (K:=K))) : ens_equiv bs bs' ->
    ens_equiv (flat_map (step O sh o) bs) (flat_map (step O sh o) bs').
  Proof. intros H. apply (permA_fm _ EqB); [|exact H]. intros x y Hxy. apply step_respects. exact Hxy. Qed.
  Theorem run_from_respects sh ops : forall bs bs' : list (branch (K:=K)), ens_equiv bs bs' ->
    ens_equiv (run_from O sh ops bs) (run_from O sh ops bs').
  Proof.
    induction ops as [|o ops IH]; intros bs bs' H; cbn [run_from fold_left]; [exact H|].
    apply IH. apply fm_step_respects. exact H.
  Qed.

  (* exchange of two independent operations on a whole ensemble *)
  Theorem fm_step_comm sh a b (bs : list (branch (K:=K))) :
    mop_indep a b -> mop_wf sh a -> mop_wf sh b -> Forall (wsh sh) bs ->
    ens_equiv (flat_map (step O sh b) (flat_map (step O sh a) bs)) (flat_map (step O sh a) (flat_map (step O sh b) bs)).
  Proof.
    intros Hi Hwa Hwb Hs. rewrite !fm_fm. apply (permA_fm_ext _ EqB). intros br Hbr.
    apply (step_comm O L); try assumption. exact (proj1 (Forall_forall _ _) Hs br Hbr).
  Qed.

  (* ---- MAIN: trace-equivalent operation lists compute equivalent ensembles ---- *)
  Theorem run_from_teq sh ops ops' : Forall (mop_wf sh) ops -> teq (mop_dep (K:=K)) ops ops' ->
    forall bs : list (branch (K:=K)), Forall (wsh sh) bs -> ens_equiv (run_from O sh ops bs) (run_from O sh ops' bs).
  Proof.
    intros Hwf T. induction T as [l|l1 a b l2 Hi|l1 l2 l3 T1 IH1 T2 IH2]; intros bs Hbs.
    - apply (permA_refl _ EqB).
    - unfold run_from. rewrite !fold_left_app. cbn [fold_left].
      apply run_from_respects.
      apply Forall_app in Hwf as [Hw1 Hw2]. inversion Hw2 as [|a' r Ha Hw3]; subst. inversion Hw3 as [|b' r' Hb Hw4]; subst.
      apply fm_step_comm; try assumption. apply (run_from_wsh sh l1 bs Hbs).
    - eapply permA_trans; [apply IH1; assumption|]. apply IH2; [|exact Hbs].
      apply (teq_Forall _ _ _ _ T1). exact Hwf.
  Qed.

  Theorem exec_teq sh ops ops' (init : list K) :
    Forall (mop_wf sh) ops -> length init = length (enum sh) -> teq (mop_dep (K:=K)) ops ops' ->
    ens_equiv (exec O sh ops init) (exec O sh ops' init).
  Proof.
    intros Hwf Hl T. apply (run_from_teq sh ops ops' Hwf T). constructor; [|constructor]. exact Hl.
  Qed.

  (* ---------- what equivalent ensembles have in common ---------- *)
  Lemma mass_respects (b b' : branch (K:=K)) : branch_equiv b b' -> mass O b = mass O b'.
  Proof. intros [H1 [H2 _]]. unfold mass. rewrite H1, H2. reflexivity. Qed.
  Lemma ksum_perm (l l' : list K) : Permutation l l' -> ksum O l = ksum O l'.
  Proof.
    unfold ksum. induction 1 as [|x l l' _ IH|x y l|l1 l2 l3 _ IH1 _ IH2]; cbn [fold_right].
    - reflexivity.
    - rewrite IH. reflexivity.
    - ring.
    - rewrite IH1. exact IH2.
  Qed.
  Theorem total_mass_equiv (l l' : list (branch (K:=K))) : ens_equiv l l' -> total_mass O l = total_mass O l'.
  Proof.
    intros H. unfold total_mass. apply ksum_perm. apply (permA_map_perm branch_equiv (mass O) l l'); [|exact H].
    intros x y Hxy. apply mass_respects. exact Hxy.
  Qed.
  Theorem obs_mass_equiv (f : list recd -> bool) (l l' : list (branch (K:=K))) :
    (forall r r', rec_equiv r r' -> f r = f r') -> ens_equiv l l' -> obs_mass O f l = obs_mass O f l'.
  Proof.
    intros Hf H. unfold obs_mass. apply ksum_perm. apply (permA_map_perm branch_equiv (mass O)).
    - intros x y Hxy. apply mass_respects. exact Hxy.
    - apply (permA_filter _ EqB); [|exact H]. intros x y [_ [_ Hr]]. apply Hf. exact Hr.
  Qed.
  Lemma keyrec_match_respects kvs r r' : rec_equiv r r' -> keyrec_match kvs r = keyrec_match kvs r'.
  Proof. intros H. unfold keyrec_match. apply forallb_ext_in. intros kv _. rewrite (H (fst kv)). reflexivity. Qed.
  Theorem keyrec_mass_equiv kvs (l l' : list (branch (K:=K))) : ens_equiv l l' -> keyrec_mass O kvs l = keyrec_mass O kvs l'.
  Proof. apply obs_mass_equiv. apply keyrec_match_respects. Qed.
  Theorem keyrec_states_equiv kvs (l l' : list (branch (K:=K))) : ens_equiv l l' ->
    Permutation (keyrec_states kvs l) (keyrec_states kvs l').
  Proof.
    intros H. unfold keyrec_states. apply (permA_map_perm branch_equiv).
    - intros x y [H1 [H2 _]]. rewrite H1, H2. reflexivity.
    - apply (permA_filter _ EqB); [|exact H]. intros x y [_ [_ Hr]]. apply keyrec_match_respects. exact Hr.
  Qed.

  (* ---- "same distribution over measurement records and same post-measurement state per record" ---- *)
  Corollary exec_teq_total_mass sh ops ops' (init : list K) :
    Forall (mop_wf sh) ops -> length init = length (enum sh) -> teq (mop_dep (K:=K)) ops ops' ->
    total_mass O (exec O sh ops init) = total_mass O (exec O sh ops' init).
  Proof. intros Hwf Hl T. apply total_mass_equiv. apply exec_teq; assumption. Qed.
  Corollary exec_teq_keyrec_mass sh ops ops' (init : list K) kvs :
    Forall (mop_wf sh) ops -> length init = length (enum sh) -> teq (mop_dep (K:=K)) ops ops' ->
    keyrec_mass O kvs (exec O sh ops init) = keyrec_mass O kvs (exec O sh ops' init).
  Proof. intros Hwf Hl T. apply keyrec_mass_equiv. apply exec_teq; assumption. Qed.
  Corollary exec_teq_obs_mass sh ops ops' (init : list K) (f : list recd -> bool) :
    (forall r r', rec_equiv r r' -> f r = f r') ->
    Forall (mop_wf sh) ops -> length init = length (enum sh) -> teq (mop_dep (K:=K)) ops ops' ->
    obs_mass O f (exec O sh ops init) = obs_mass O f (exec O sh ops' init).
  Proof. intros Hf Hwf Hl T. apply obs_mass_equiv; [exact Hf|]. apply exec_teq; assumption. Qed.
  Corollary exec_teq_keyrec_states sh ops ops' (init : list K) kvs :
    Forall (mop_wf sh) ops -> length init = length (enum sh) -> teq (mop_dep (K:=K)) ops ops' ->
    Permutation (keyrec_states kvs (exec O sh ops init)) (keyrec_states kvs (exec O sh ops' init)).
  Proof. intros Hwf Hl T. apply keyrec_states_equiv. apply exec_teq; assumption. Qed.

  (* ---------- the validator: traces of `top` records denoting model operations ---------- *)
  Variable den : top -> mop (K:=K).
  Variables qres kres : nat -> nat.         (* the resource numbers of qubit axes and of measurement keys *)
  Hypothesis den_axes : forall o x, In x (mop_axes (den o)) -> In (qres x) (t_wr o).
  Hypothesis den_writes : forall o k, In k (mop_writes (den o)) -> In (kres k) (t_wr o).
  Hypothesis den_reads : forall o k, In k (mop_reads (den o)) -> In (kres k) (t_rd o) \/ In (kres k) (t_wr o).

  Lemma top_indep_mop_indep a b : top_dep a b = false -> mop_dep (den a) (den b) = false.
  Proof.
    unfold top_dep. intros H.
    apply orb_false_iff in H as [H H3]. apply orb_false_iff in H as [H1 H2].
    pose proof (shares_false _ _ H1) as N1. pose proof (shares_false _ _ H2) as N2. pose proof (shares_false _ _ H3) as N3.
    unfold mop_dep. repeat (apply orb_false_iff; split).
    - destruct (shares (mop_axes (den a)) (mop_axes (den b))) eqn:E; [|reflexivity].
      apply shares_true in E as [x [Ha Hb]]. exfalso. apply (N1 (qres x)); [apply den_axes; exact Ha|apply den_axes; exact Hb].
    - destruct (shares (mop_writes (den a)) (mop_writes (den b))) eqn:E; [|reflexivity].
      apply shares_true in E as [k [Ha Hb]]. exfalso. apply (N1 (kres k)); [apply den_writes; exact Ha|apply den_writes; exact Hb].
    - destruct (shares (mop_writes (den a)) (mop_reads (den b))) eqn:E; [|reflexivity].
      apply shares_true in E as [k [Ha Hb]]. exfalso. apply den_writes in Ha. apply den_reads in Hb as [Hb|Hb].
      + exact (N2 (kres k) Ha Hb).
      + exact (N1 (kres k) Ha Hb).
    - destruct (shares (mop_reads (den a)) (mop_writes (den b))) eqn:E; [|reflexivity].
      apply shares_true in E as [k [Ha Hb]]. exfalso. apply den_writes in Hb. apply den_reads in Ha as [Ha|Ha].
      + exact (N3 (kres k) Ha Hb).
      + exact (N1 (kres k) Ha Hb).
  Qed.

  Theorem trace_equiv_exec sh w w' (init : list K) :
    Forall (mop_wf sh) (map den w) -> length init = length (enum sh) -> teq top_dep w w' ->
    ens_equiv (exec O sh (map den w) init) (exec O sh (map den w') init).
  Proof.
    intros Hwf Hl T. apply exec_teq; [exact Hwf|exact Hl|].
    apply (teq_map den top_dep (mop_dep (K:=K))); [|exact T]. intros a b. apply top_indep_mop_indep.
  Qed.
  (* what acceptance by the validator means for circuits with measurement and classical control *)
  Corollary trace_equiv_b_exec sh w w' (init : list K) :
    Forall (mop_wf sh) (map den w') -> length init = length (enum sh) -> trace_equiv_b w w' = true ->
    ens_equiv (exec O sh (map den w') init) (exec O sh (map den w) init).
  Proof. intros Hwf Hl H. apply trace_equiv_exec; [exact Hwf|exact Hl|]. apply trace_equiv_b_sound. exact H. Qed.
End ExecLift.

(* ---------- the hypotheses are satisfiable (generic ring; K8 shows the Laws are) ---------- *)
Section Examples.
  Context {K : Type} (O : Ops K).

  Example ex1_hyps :
    Forall (mop_wf [2; 2]) (ex1_ops O) /\ length (ex1_init O) = length (enum [2; 2]) /\
    teq (mop_dep (K:=K)) (ex1_ops O) (ex1_ops' O).
  Proof.
    split; [|split].
    - repeat constructor; cbn; lia.
    - reflexivity.
    - apply (teq_swap _ _ [] _ _ []). reflexivity.
  Qed.
  (* the step-level hypotheses: two measurements with different keys on a well-shaped branch *)
  Example step_comm_hyps :
    let a : mop (K:=K) := MMeasure 0 [0] [] [] in let b : mop (K:=K) := MMeasure 1 [1] [] [] in
    let br := {| bw := k1 O; brec := []; bpsi := ex1_init O |} in
    mop_indep a b /\ mop_wf [2; 2] a /\ mop_wf [2; 2] b /\ wsh [2; 2] br /\ mop_det a = false /\ mop_det b = false.
  Proof. cbv zeta. repeat split. Qed.
  (* gate against measurement: the exact form applies *)
  Example step_comm_det_hyps :
    let a : mop (K:=K) := MGate (ex_H O, [0]) in let b : mop (K:=K) := MMeasure 0 [1] [] [] in
    let br := {| bw := k1 O; brec := []; bpsi := ex1_init O |} in
    mop_det a = true /\ mop_indep a b /\ mop_wf [2; 2] a /\ mop_wf [2; 2] b /\ wsh [2; 2] br.
  Proof. cbv zeta. repeat split; cbn; lia. Qed.

  Example ex2_hyps :
    Forall (mop_wf [2; 2; 2]) (ex2_ops O) /\ length (ex2_init O) = length (enum [2; 2; 2]) /\
    teq (mop_dep (K:=K)) (ex2_ops O) (ex2_ops' O).
  Proof.
    split; [|split].
    - repeat constructor; cbn; lia.
    - reflexivity.
    - apply teq_trans with (ex2_mid1 O); [apply (teq_swap _ _ [] _ _ _); reflexivity|].
      apply teq_trans with (ex2_mid2 O).
      + apply (teq_swap _ _ [MGate (ex_H O, [1]); MGate (ex_H O, [0])] _ _ _). reflexivity.
      + apply (teq_swap _ _ [MGate (ex_H O, [1])] _ _ _). reflexivity.
  Qed.
  (* dependent pairs are rejected: measuring into a key and reading it, two writers of one key, a common qubit *)
  Example mop_dep_examples :
    mop_dep (K:=K) (MMeasure 0 [0] [] []) (ex2_cx O) = true /\
    mop_dep (K:=K) (MMeasure 0 [0] [] []) (MMeasure 0 [1] [] []) = true /\
    mop_dep (K:=K) (MGate (ex_H O, [0])) (MMeasure 1 [0] [] []) = true /\
    mop_dep (K:=K) (ex2_cx O) (MCtrl [CKey 0 None false] (ex_H O, [1])) = false.
  Proof. repeat split. Qed.

  (* the validator-level hypotheses: a denotation that keeps every operation inside its declared resources *)
  Example ex_den_hyps :
    (forall o x, In x (mop_axes (ex_den O o)) -> In (id x) (t_wr o)) /\
    (forall o k, In k (mop_writes (ex_den O o)) -> In (id k) (t_wr o)) /\
    (forall o k, In k (mop_reads (ex_den O o)) -> In (id k) (t_rd o) \/ In (id k) (t_wr o)) /\
    Forall (mop_wf [2; 2]) (map (ex_den O) ex_w') /\ trace_equiv_b ex_w ex_w' = true.
  Proof.
    unfold id, ex_den. repeat split.
    - intros [u wr rd] x. cbn [t_wr t_rd]. destruct wr as [|q [|k wr]]; [|destruct rd as [|k rd]|]; cbn; tauto.
    - intros [u wr rd] x. cbn [t_wr t_rd]. destruct wr as [|q [|k wr]]; [|destruct rd as [|k rd]|]; cbn; tauto.
    - intros [u wr rd] x. cbn [t_wr t_rd]. destruct wr as [|q [|k wr]]; [|destruct rd as [|k rd]|]; cbn; tauto.
    - repeat constructor; cbn; lia.
  Qed.

  (* plain list equality is too strong when both operations branch: two measurements with different keys append
     their records in the order of execution, so the exchanged ensembles differ as lists (this is why step_comm is
     stated up to ens_equiv, and why records are compared key by key) *)
  Theorem step_comm_eq_refuted : exists (sh : list nat) (a b : mop (K:=K)) (br : branch (K:=K)),
    mop_indep a b /\ mop_wf sh a /\ mop_wf sh b /\ wsh sh br /\
    flat_map (step O sh b) (step O sh a br) <> flat_map (step O sh a) (step O sh b br).
  Proof.
    exists [2; 2], (MMeasure 0 [0] [] []), (MMeasure 1 [1] [] []), {| bw := k1 O; brec := []; bpsi := ex1_init O |}.
    repeat split. intros H.
    apply (f_equal (map (fun b : branch (K:=K) => map (fun e : recd => fst (fst e)) (brec b)))) in H.
    vm_compute in H. discriminate H.
  Qed.

  Context (L : Laws O).
  Example ex1_equiv : ens_equiv (exec O [2; 2] (ex1_ops O) (ex1_init O)) (exec O [2; 2] (ex1_ops' O) (ex1_init O)).
  Proof. destruct ex1_hyps as [H1 [H2 H3]]. apply (exec_teq O L); assumption. Qed.
  Example ex2_equiv : ens_equiv (exec O [2; 2; 2] (ex2_ops O) (ex2_init O)) (exec O [2; 2; 2] (ex2_ops' O) (ex2_init O)).
  Proof. destruct ex2_hyps as [H1 [H2 H3]]. apply (exec_teq O L); assumption. Qed.
  Example ex2_same_distribution kvs :
    keyrec_mass O kvs (exec O [2; 2; 2] (ex2_ops O) (ex2_init O)) = keyrec_mass O kvs (exec O [2; 2; 2] (ex2_ops' O) (ex2_init O)).
  Proof. destruct ex2_hyps as [H1 [H2 H3]]. apply (exec_teq_keyrec_mass O L); assumption. Qed.
  Example ex_den_equiv :
    ens_equiv (exec O [2; 2] (map (ex_den O) ex_w') (ex1_init O)) (exec O [2; 2] (map (ex_den O) ex_w) (ex1_init O)).
  Proof.
    destruct ex_den_hyps as [H1 [H2 [H3 [H4 H5]]]].
    apply (trace_equiv_b_exec O L (ex_den O) id id H1 H2 H3); [exact H4|reflexivity|exact H5].
  Qed.
End Examples.

Example ex2_equiv_K8 :
  ens_equiv (exec K8Ops [2; 2; 2] (ex2_ops K8Ops) (ex2_init K8Ops)) (exec K8Ops [2; 2; 2] (ex2_ops' K8Ops) (ex2_init K8Ops)).
Proof. exact (ex2_equiv K8Ops K8Laws). Qed.
